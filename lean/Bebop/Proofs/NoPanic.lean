/-
  Helper lemmas: the checked (safe) byte-slice decoder never panics, on any input.

  The invariant that makes it work: whenever a decoder returns a value, the cursor has advanced by
  at least `Size()` of that value (`Adv`).  That is what keeps `at += tmp.Size()` inside the buffer.
-/
import Bebop.Slice

namespace Bebop

/-- Outcome is not a panic, and a returned value's size is covered by the bytes consumed. -/
def Adv (buf : List Byte) : Res (Val × List Byte) → Prop
  | .ok (v, rest) => rest.length + vsize v ≤ buf.length
  | .err => True
  | .panic => False
  | .fuel => True

def AdvList (buf : List Byte) (extra : Nat) : Res (List Val × List Byte) → Prop
  | .ok (vs, rest) => rest.length + vsizeList vs ≤ buf.length + extra
  | .err => True
  | .panic => False
  | .fuel => True

theorem readN_true (n : Nat) (buf : List Byte) :
    (∃ bs rest, readN true n buf = .ok (bs, rest) ∧ bs.length = n ∧ rest.length + n = buf.length ∧ buf = bs ++ rest)
    ∨ readN true n buf = .err := by
  unfold readN
  by_cases h : n ≤ buf.length
  · left
    refine ⟨buf.take n, buf.drop n, by simp [h], by simp [List.length_take]; omega, by simp [List.length_drop]; omega, by simp⟩
  · right; simp [h]

theorem readU32_true (buf : List Byte) :
    (∃ n rest, readU32 true buf = .ok (n, rest) ∧ rest.length + 4 = buf.length) ∨ readU32 true buf = .err := by
  unfold readU32
  rcases readN_true 4 buf with ⟨bs, rest, h, _, hl, _⟩ | h
  · left; exact ⟨ofLe bs, rest, by simp [h], hl⟩
  · right; simp [h]

/-- Unchecked reads of a fixed-size type succeed when enough bytes remain. -/
theorem dec_fixed_unsafe (f : Nat) (env : Env) (t : Ty) (s : Nat) (hs : fixedSize t = some s)
    (buf : List Byte) (h : s ≤ buf.length) :
    ∃ v, dec (f+1) env false t buf = .ok (v, buf.drop s) ∧ vsize v = s := by
  cases t <;> simp [fixedSize] at hs
  all_goals subst hs
  all_goals simp [dec, readN, h, vsize, Facts.szBool, Facts.szFloat32, Facts.szFloat64, Facts.szDate, Facts.szGuid] at *
  all_goals simp [h, vsize]

theorem decN_fixed_unsafe (f : Nat) (env : Env) (t : Ty) (s : Nat) (hs : fixedSize t = some s) :
    ∀ (n : Nat) (buf : List Byte), n * s ≤ buf.length →
      decN (dec (f+1) env false t) n buf = .fuel ∨
      ∃ vs, decN (dec (f+1) env false t) n buf = .ok (vs, buf.drop (n * s)) ∧ vsizeList vs = n * s
  | 0, buf, _ => Or.inr ⟨[], by simp [decN], by simp [vsizeList]⟩
  | n+1, buf, h => by
    have h1 : s ≤ buf.length := by rw [Nat.add_mul] at h; omega
    obtain ⟨v, hv, hvs⟩ := dec_fixed_unsafe f env t s hs buf h1
    have h2 : n * s ≤ (buf.drop s).length := by rw [Nat.add_mul] at h; simp [List.length_drop]; omega
    simp only [decN, hv, Res.ok_bind]
    split
    · exact Or.inl rfl
    · rcases decN_fixed_unsafe f env t s hs n (buf.drop s) h2 with hf | ⟨vs, hvs', hsz⟩
      · left; simp [hf]
      · right
        refine ⟨v :: vs, ?_, ?_⟩
        · simp only [hvs', Res.ok_bind, Res.pure_eq, List.drop_drop]
          congr 3; rw [Nat.add_mul]; omega
        · simp [vsizeList, hvs, hsz, Nat.add_mul]; omega

theorem decN_adv (d : Dec) (hd : ∀ buf, Adv buf (d buf)) :
    ∀ (n : Nat) (buf : List Byte), AdvList buf 0 (decN d n buf)
  | 0, buf => by simp [decN, AdvList, vsizeList]
  | n+1, buf => by
    have h1 := hd buf
    simp only [decN]
    cases hr : d buf with
    | ok p =>
      obtain ⟨v, rest⟩ := p
      rw [hr] at h1
      simp only [Adv] at h1
      have h2 := decN_adv d hd n rest
      simp only [Res.ok_bind]
      split
      · simp [AdvList]
      · cases hr2 : decN d n rest with
        | ok q =>
          obtain ⟨vs, rest'⟩ := q
          rw [hr2] at h2
          simp only [AdvList] at h2
          simp only [Res.ok_bind, Res.pure_eq, AdvList, vsizeList]
          omega
        | err => simp [AdvList]
        | panic => rw [hr2] at h2; simp [AdvList] at h2
        | fuel => simp [AdvList]
    | err => simp [AdvList]
    | panic => rw [hr] at h1; simp [Adv] at h1
    | fuel => simp [AdvList]

theorem decFields_adv (d : Ty → Dec) (hd : ∀ t buf, Adv buf (d t buf)) :
    ∀ (tys : List Ty) (buf : List Byte), AdvList buf 0 (decFields d tys buf)
  | [], buf => by simp [decFields, AdvList, vsizeList]
  | t :: ts, buf => by
    have h1 := hd t buf
    simp only [decFields]
    cases hr : d t buf with
    | ok p =>
      obtain ⟨v, rest⟩ := p
      rw [hr] at h1
      simp only [Adv] at h1
      have h2 := decFields_adv d hd ts rest
      simp only [Res.ok_bind]
      cases hr2 : decFields d ts rest with
      | ok q =>
        obtain ⟨vs, rest'⟩ := q
        rw [hr2] at h2
        simp only [AdvList] at h2
        simp only [Res.ok_bind, Res.pure_eq, AdvList, vsizeList]
        omega
      | err => simp [AdvList]
      | panic => rw [hr2] at h2; simp [AdvList] at h2
      | fuel => simp [AdvList]
    | err => simp [AdvList]
    | panic => rw [hr] at h1; simp [Adv] at h1
    | fuel => simp [AdvList]

theorem vsizeKVs_mapInsert (kt : Ty) (k v : Val) :
    ∀ acc : List (Val × Val), vsizeKVs (mapInsert kt k v acc) ≤ vsizeKVs acc + vsize k + vsize v
  | [] => by simp [mapInsert, vsizeKVs]
  | (k', v') :: acc => by
    have ih := vsizeKVs_mapInsert kt k v acc
    simp only [mapInsert]
    split <;> simp [vsizeKVs] <;> omega

theorem vsizeFields_msgSet (i : Nat) (v : Val) :
    ∀ acc : List (Nat × Val), vsizeFields (msgSet i v acc) ≤ vsizeFields acc + 1 + vsize v
  | [] => by simp [msgSet, vsizeFields]
  | (j, w) :: acc => by
    have ih := vsizeFields_msgSet i v acc
    simp only [msgSet]
    split
    · simp [vsizeFields]; omega
    · split <;> simp [vsizeFields] <;> omega

def AdvKVs (buf : List Byte) (extra : Nat) : Res (List (Val × Val) × List Byte) → Prop
  | .ok (kvs, rest) => rest.length + vsizeKVs kvs ≤ buf.length + extra
  | .err => True
  | .panic => False
  | .fuel => True

theorem decEntries_adv (kt : Ty) (dk dv : Dec) (hk : ∀ buf, Adv buf (dk buf)) (hv : ∀ buf, Adv buf (dv buf)) :
    ∀ (n : Nat) (buf : List Byte) (acc : List (Val × Val)),
      AdvKVs buf (vsizeKVs acc) (decEntries kt dk dv n buf acc)
  | 0, buf, acc => by simp [decEntries, AdvKVs]
  | n+1, buf, acc => by
    have h1 := hk buf
    simp only [decEntries]
    cases hr : dk buf with
    | ok p =>
      obtain ⟨k, rest⟩ := p
      rw [hr] at h1; simp only [Adv] at h1
      have h2 := hv rest
      simp only [Res.ok_bind]
      cases hr2 : dv rest with
      | ok q =>
        obtain ⟨v, rest'⟩ := q
        rw [hr2] at h2; simp only [Adv] at h2
        simp only [Res.ok_bind]
        have h3 := decEntries_adv kt dk dv hk hv n rest' (mapInsert kt k v acc)
        have h4 := vsizeKVs_mapInsert kt k v acc
        cases hr3 : decEntries kt dk dv n rest' (mapInsert kt k v acc) with
        | ok z =>
          obtain ⟨kvs, rest''⟩ := z
          rw [hr3] at h3; simp only [AdvKVs] at h3
          simp only [AdvKVs]; omega
        | err => simp [AdvKVs]
        | panic => rw [hr3] at h3; simp [AdvKVs] at h3
        | fuel => simp [AdvKVs]
      | err => simp [AdvKVs]
      | panic => rw [hr2] at h2; simp [Adv] at h2
      | fuel => simp [AdvKVs]
    | err => simp [AdvKVs]
    | panic => rw [hr] at h1; simp [Adv] at h1
    | fuel => simp [AdvKVs]

/-- The message loop stops in front of a byte it did not consume, having advanced by at least the size
    of every field it stored. -/
def AdvLoop (buf : List Byte) (extra : Nat) : Res (List (Nat × Val) × List Byte) → Prop
  | .ok (fs, rest) => 1 ≤ rest.length ∧ rest.length + vsizeFields fs ≤ buf.length + extra
  | .err => True
  | .panic => False
  | .fuel => True

theorem decMsgLoop_adv (d : Ty → Dec) (hd : ∀ t buf, Adv buf (d t buf)) (fds : List MsgField) :
    ∀ (n : Nat) (buf : List Byte) (acc : List (Nat × Val)),
      AdvLoop buf (vsizeFields acc) (decMsgLoop true d fds n buf acc)
  | 0, buf, acc => by simp [decMsgLoop, AdvLoop]
  | n+1, buf, acc => by
    simp only [decMsgLoop]
    cases buf with
    | nil => simp [AdvLoop]
    | cons b rest =>
      simp only
      cases hfd : fds.find? (fun fd => fd.idx == b.toNat) with
      | none => simp [AdvLoop]
      | some fd =>
        simp only
        have h1 := hd fd.ty rest
        cases hr : d fd.ty rest with
        | ok p =>
          obtain ⟨v, rest'⟩ := p
          rw [hr] at h1; simp only [Adv] at h1
          simp only [Res.ok_bind]
          have h2 := decMsgLoop_adv d hd fds n rest' (msgSet fd.idx v acc)
          have h3 := vsizeFields_msgSet fd.idx v acc
          cases hr2 : decMsgLoop true d fds n rest' (msgSet fd.idx v acc) with
          | ok z =>
            obtain ⟨fs, rest''⟩ := z
            rw [hr2] at h2; simp only [AdvLoop] at h2
            simp only [AdvLoop, List.length_cons]; omega
          | err => simp [AdvLoop]
          | panic => rw [hr2] at h2; simp [AdvLoop] at h2
          | fuel => simp [AdvLoop]
        | err => simp [AdvLoop]
        | panic => rw [hr] at h1; simp [Adv] at h1
        | fuel => simp [AdvLoop]

/-- For record bodies only the size bound matters to the caller (it discards the returned rest). -/
def AdvBody (buf : List Byte) : Res (Val × List Byte) → Prop
  | .ok (v, _) => vsize v ≤ buf.length
  | .err => True
  | .panic => False
  | .fuel => True

theorem dec_adv_all (env : Env) : ∀ (f : Nat),
    (∀ ty buf, Adv buf (dec f env true ty buf)) ∧
    (∀ fds buf, AdvBody buf (decMsgBody f env true fds buf)) ∧
    (∀ brs buf, AdvBody buf (decUnionBody f env true brs buf))
  | 0 => by
    refine ⟨?_, ?_, ?_⟩ <;> intros <;> simp [dec, decMsgBody, decUnionBody, Adv, AdvBody]
  | f+1 => by
    obtain ⟨ihd, ihm, ihu⟩ := dec_adv_all env f
    have hmsg : ∀ fds buf, AdvBody buf (decMsgBody (f+1) env true fds buf) := by
      intro fds buf
      simp only [decMsgBody]
      rcases readN_true 4 buf with ⟨bs, body, h, _, hl, _⟩ | h
      · simp only [h, Res.ok_bind]
        have h2 := decMsgLoop_adv (dec f env true) ihd fds (body.length + 1) body []
        cases hr : decMsgLoop true (dec f env true) fds (body.length + 1) body [] with
        | ok z =>
          obtain ⟨fs, rest⟩ := z
          rw [hr] at h2; simp only [AdvLoop, vsizeFields] at h2
          simp only [Res.ok_bind, Res.pure_eq, AdvBody, vsize, Facts.msgSizeBase]; omega
        | err => simp [AdvBody]
        | panic => rw [hr] at h2; simp [AdvLoop] at h2
        | fuel => simp [AdvBody]
      · simp [h, AdvBody]
    have hun : ∀ brs buf, AdvBody buf (decUnionBody (f+1) env true brs buf) := by
      intro brs buf
      simp only [decUnionBody]
      rcases readN_true 4 buf with ⟨bs, body, h, _, hl, _⟩ | h
      · simp only [h, Res.ok_bind]
        cases body with
        | nil => simp [AdvBody]
        | cons b rest =>
          simp only
          cases hm : brs.lookup b.toNat with
          | none =>
            simp only [Res.pure_eq, AdvBody, emptyUnion, vsize, vsizeList, Facts.unionSizeBase]
            simp only [List.length_cons] at hl; omega
          | some m =>
            simp only
            have h1 := ihd (.ref m) rest
            cases hr : dec f env true (.ref m) rest with
            | ok p =>
              obtain ⟨v, rest'⟩ := p
              rw [hr] at h1; simp only [Adv] at h1
              simp only [Res.ok_bind, Res.pure_eq, AdvBody, vsize, Facts.unionSizeBase]
              simp only [List.length_cons] at hl; omega
            | err => simp [AdvBody]
            | panic => rw [hr] at h1; simp [Adv] at h1
            | fuel => simp [AdvBody]
      · simp [h, AdvBody]
    refine ⟨?_, hmsg, hun⟩
    intro ty buf
    cases ty with
    | bool =>
      simp only [dec]
      rcases readN_true Facts.szBool buf with ⟨bs, rest, h, _, hl, _⟩ | h
      · simp only [h, Res.ok_bind, Res.pure_eq, Adv, vsize]; simp [Facts.szBool] at hl; omega
      · simp [h, Adv]
    | scalar w =>
      simp only [dec]
      rcases readN_true w buf with ⟨bs, rest, h, _, hl, _⟩ | h
      · simp only [h, Res.ok_bind, Res.pure_eq, Adv, vsize]; omega
      · simp [h, Adv]
    | f32 =>
      simp only [dec]
      rcases readN_true Facts.szFloat32 buf with ⟨bs, rest, h, _, hl, _⟩ | h
      · simp only [h, Res.ok_bind, Res.pure_eq, Adv, vsize]; simp [Facts.szFloat32] at hl; omega
      · simp [h, Adv]
    | f64 =>
      simp only [dec]
      rcases readN_true Facts.szFloat64 buf with ⟨bs, rest, h, _, hl, _⟩ | h
      · simp only [h, Res.ok_bind, Res.pure_eq, Adv, vsize]; simp [Facts.szFloat64] at hl; omega
      · simp [h, Adv]
    | date =>
      simp only [dec]
      rcases readN_true Facts.szDate buf with ⟨bs, rest, h, _, hl, _⟩ | h
      · simp only [h, Res.ok_bind, Res.pure_eq, Adv, vsize]; simp [Facts.szDate] at hl; omega
      · simp [h, Adv]
    | guid =>
      simp only [dec]
      rcases readN_true Facts.szGuid buf with ⟨bs, rest, h, _, hl, _⟩ | h
      · simp only [h, Res.ok_bind, Res.pure_eq, Adv, vsize]; simp [Facts.szGuid] at hl; omega
      · simp [h, Adv]
    | str =>
      simp only [dec]
      rcases readU32_true buf with ⟨n, rest, h, hl⟩ | h
      · simp only [h, Res.ok_bind]
        rcases readN_true n rest with ⟨bs, rest', h', hb, hl', _⟩ | h'
        · simp only [h', Res.ok_bind, Res.pure_eq, Adv, vsize]; omega
        · simp [h', Adv]
      · simp [h, Adv]
    | arr t =>
      simp only [dec]
      rcases readU32_true buf with ⟨n, rest, h, hl⟩ | h
      · simp only [h, Res.ok_bind, if_true]
        cases hfs : fixedSize t with
        | none =>
          simp only
          have h2 := decN_adv (dec f env true t) (ihd t) n rest
          cases hr : decN (dec f env true t) n rest with
          | ok z =>
            obtain ⟨vs, rest'⟩ := z
            rw [hr] at h2; simp only [AdvList] at h2
            simp only [Res.ok_bind, Res.pure_eq, Adv, vsize]; omega
          | err => simp [Adv]
          | panic => rw [hr] at h2; simp [AdvList] at h2
          | fuel => simp [Adv]
        | some s =>
          simp only
          by_cases hlt : rest.length < n * s
          · simp [hlt, Adv]
          · simp only [hlt, if_false]
            cases f with
            | zero =>
              cases n with
              | zero => simp [decN, Adv, vsize, vsizeList]; omega
              | succ n => simp [decN, dec, Adv]
            | succ f' =>
              rcases decN_fixed_unsafe f' env t s hfs n rest (by omega) with hfu | ⟨vs, hvs, hsz⟩
              · simp [hfu, Adv]
              · simp only [hvs, Res.ok_bind, Res.pure_eq, Adv, vsize, hsz, List.length_drop]; omega
      · simp [h, Adv]
    | map k v =>
      simp only [dec]
      rcases readU32_true buf with ⟨n, rest, h, hl⟩ | h
      · simp only [h, Res.ok_bind]
        have h2 := decEntries_adv k (dec f env true k) (dec f env true v) (ihd k) (ihd v) n rest []
        cases hr : decEntries k (dec f env true k) (dec f env true v) n rest [] with
        | ok z =>
          obtain ⟨kvs, rest'⟩ := z
          rw [hr] at h2; simp only [AdvKVs, vsizeKVs] at h2
          simp only [Res.ok_bind, Res.pure_eq, Adv, vsize]; omega
        | err => simp [Adv]
        | panic => rw [hr] at h2; simp [AdvKVs] at h2
        | fuel => simp [Adv]
      · simp [h, Adv]
    | ref n =>
      simp only [dec]
      cases hn : env[n]? with
      | none => simp [Adv]
      | some d =>
        cases d with
        | struct tys =>
          simp only
          have h2 := decFields_adv (dec f env true) ihd tys buf
          cases hr : decFields (dec f env true) tys buf with
          | ok z =>
            obtain ⟨vs, rest'⟩ := z
            rw [hr] at h2; simp only [AdvList] at h2
            have hle : vsize (.struct vs) ≤ buf.length := by simp [vsize]; omega
            simp only [Res.ok_bind, hle, if_true, Res.pure_eq, Adv, List.length_drop]; omega
          | err => simp [Adv]
          | panic => rw [hr] at h2; simp [AdvList] at h2
          | fuel => simp [Adv]
        | msg fds =>
          simp only
          have h2 := ihm fds buf
          cases hr : decMsgBody f env true fds buf with
          | ok z =>
            obtain ⟨v, rest'⟩ := z
            rw [hr] at h2; simp only [AdvBody] at h2
            simp only [Res.ok_bind, if_true]
            split
            · simp only [Res.pure_eq, Adv, List.length_drop]; omega
            · simp [Adv]
          | err => simp [Adv]
          | panic => rw [hr] at h2; simp [AdvBody] at h2
          | fuel => simp [Adv]
        | union brs =>
          simp only
          have h2 := ihu brs buf
          cases hr : decUnionBody f env true brs buf with
          | ok z =>
            obtain ⟨v, rest'⟩ := z
            rw [hr] at h2; simp only [AdvBody] at h2
            simp only [Res.ok_bind, if_true]
            split
            · simp only [Res.pure_eq, Adv, List.length_drop]; omega
            · simp [Adv]
          | err => simp [Adv]
          | panic => rw [hr] at h2; simp [AdvBody] at h2
          | fuel => simp [Adv]

end Bebop
