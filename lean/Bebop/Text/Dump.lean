/-
  Dump: canonical one-line rendering of a File (the same format is produced by the Go harness from
  bebop.File). Strings are hex (`-` for empty); message and union fields are sorted by index, as Go maps
  have no order.
-/
import Bebop.Text.Ast

namespace Bebop.Text

def hexDigitC (n : Nat) : Char := if n < 10 then Char.ofNat (48 + n) else Char.ofNat (87 + n)

def hexStr (bs : Str) : String :=
  if bs.isEmpty then "-" else
  String.ofList (bs.foldr (fun c acc => hexDigitC (c.toNat / 16) :: hexDigitC (c.toNat % 16) :: acc) [])

def b01 (x : Bool) : String := if x then "1" else "0"

partial def dumpFT : FT → String
  | .simple n => "s " ++ hexStr n
  | .map k v => "m " ++ hexStr k ++ " " ++ dumpFT v
  | .arr e => "a " ++ dumpFT e

def dumpTags (ts : List Tag) : String :=
  toString ts.length ++ String.join (ts.map fun t => " " ++ hexStr t.key ++ " " ++ hexStr t.value ++ " " ++ b01 t.boolean)

def dumpField (f : Field) : String :=
  "fd " ++ dumpFT f.ft ++ " " ++ hexStr f.name ++ " " ++ hexStr f.comment ++ " " ++ dumpTags f.tags ++ " " ++
    hexStr f.depMsg ++ " " ++ b01 f.deprecated

def dumpStruct (s : Struct) : String :=
  "st " ++ hexStr s.name ++ " " ++ hexStr s.comment ++ " " ++ toString s.opCode ++ " " ++ b01 s.readOnly ++ " " ++
    toString s.fields.length ++ String.join (s.fields.map fun f => " " ++ dumpField f)

def sortByIdx {α} (l : List (Nat × α)) : List (Nat × α) :=
  (l.toArray.qsort (fun a c => a.1 < c.1)).toList

def dumpMessage (m : Message) : String :=
  "ms " ++ hexStr m.name ++ " " ++ hexStr m.comment ++ " " ++ toString m.opCode ++ " " ++
    toString m.fields.length ++ String.join ((sortByIdx m.fields).map fun (i, f) => " " ++ toString i ++ " " ++ dumpField f)

def dumpUnion (u : Union) : String :=
  "un " ++ hexStr u.name ++ " " ++ hexStr u.comment ++ " " ++ toString u.opCode ++ " " ++
    toString u.fields.length ++ String.join ((sortByIdx u.fields).map fun (i, uf) =>
      " " ++ toString i ++ " uf " ++
      (match uf.body with
       | .msg m => dumpMessage m
       | .st s => dumpStruct s) ++ " " ++ dumpTags uf.tags ++ " " ++ hexStr uf.depMsg ++ " " ++ b01 uf.deprecated)

def dumpEnum (e : Enum) : String :=
  "en " ++ hexStr e.name ++ " " ++ hexStr e.comment ++ " " ++ hexStr e.simpleType ++ " " ++ b01 e.unsigned ++ " " ++
    toString e.options.length ++ String.join (e.options.map fun o =>
      " opt " ++ hexStr o.name ++ " " ++ hexStr o.comment ++ " " ++ hexStr o.depMsg ++ " " ++ toString o.value ++ " " ++
        toString o.uvalue ++ " " ++ b01 o.deprecated)

def dumpConst (c : Const) : String :=
  "co " ++ hexStr c.simpleType ++ " " ++ hexStr c.name ++ " " ++ hexStr c.comment ++ " " ++ hexStr c.value

def dumpFile (f : File) : String :=
  "file imports " ++ toString f.imports.length ++ String.join (f.imports.map fun i => " " ++ hexStr i) ++
  " gopkg " ++ hexStr f.goPackage ++
  " consts " ++ toString f.consts.length ++ String.join (f.consts.map fun c => " " ++ dumpConst c) ++
  " enums " ++ toString f.enums.length ++ String.join (f.enums.map fun e => " " ++ dumpEnum e) ++
  " structs " ++ toString f.structs.length ++ String.join (f.structs.map fun s => " " ++ dumpStruct s) ++
  " messages " ++ toString f.messages.length ++ String.join (f.messages.map fun m => " " ++ dumpMessage m) ++
  " unions " ++ toString f.unions.length ++ String.join (f.unions.map fun u => " " ++ dumpUnion u)

end Bebop.Text
