/-
  Helper lemmas about the tokenizer model: it never panics (every UnreadByte directly follows a successful
  ReadByte), its error list only grows, io.EOF is recorded only at the very end of the input, and `Next`
  can return false with a clean error list only there.
-/
import Bebop.Text.Tokenizer

namespace Bebop.Text

/-- What every tokenizer helper preserves: no new panic, errors are only appended and none of the
    appended ones is io.EOF, the reader's ending is untouched. -/
structure Pres (t t' : TR) : Prop where
  pan : t.panicked = false → t'.panicked = false
  ext : ∃ new, t'.errs = t.errs ++ new
  io : t'.ioFail = t.ioFail

theorem Pres.rfl' (t : TR) : Pres t t := ⟨id, ⟨[], by simp⟩, rfl⟩

theorem Pres.trans {a b c : TR} (h1 : Pres a b) (h2 : Pres b c) : Pres a c := by
  obtain ⟨n1, e1⟩ := h1.ext
  obtain ⟨n2, e2⟩ := h2.ext
  exact ⟨fun h => h2.pan (h1.pan h), ⟨n1 ++ n2, by rw [e2, e1, List.append_assoc]⟩, by rw [h2.io, h1.io]⟩

theorem pres_addErr (t : TR) (e : TErr) : Pres t (addErr t e) := ⟨id, ⟨[e], rfl⟩, rfl⟩

theorem pres_setNext (t : TR) (tk : Token) : Pres t (setNext t tk) := ⟨id, ⟨[], by simp [setNext]⟩, rfl⟩

theorem pres_of_fields (t t' : TR) (h1 : t'.panicked = t.panicked) (h2 : t'.errs = t.errs) (h3 : t'.ioFail = t.ioFail) :
    Pres t t' := ⟨fun h => by rw [h1]; exact h, ⟨[], by simp [h2]⟩, h3⟩

/-- readByte: either a byte (and then UnreadByte is legal), or the state is unchanged. -/
theorem readByte_cases (t : TR) :
    (∃ c rest, t.inp = c :: rest ∧ readByte t = (.byte c, { t with inp := rest, last := some c })) ∨
    (t.inp = [] ∧ t.ioFail = false ∧ readByte t = (.eof, t)) ∨
    (t.inp = [] ∧ t.ioFail = true ∧ readByte t = (.ioerr, t)) := by
  unfold readByte
  cases h : t.inp with
  | nil =>
    right
    cases hf : t.ioFail <;> simp
  | cons c rest => left; exact ⟨c, rest, rfl, rfl⟩

theorem pres_unread_after_read (t : TR) (c : Byte) (rest : List Byte) :
    Pres t (unreadByte { t with inp := rest, last := some c }) := by
  simp only [unreadByte]
  exact pres_of_fields _ _ rfl rfl rfl

theorem numberLoop_pres : ∀ (fuel : Nat) (t : TR) (conc : List Byte) (kind : TK) (a b c d : Bool),
    Pres t (numberLoop fuel t conc kind a b c d).2
  | 0, t, _, _, _, _, _, _ => by simp [numberLoop]; exact Pres.rfl' t
  | fuel+1, t, conc, kind, second, hex, decimal, invalidLast => by
    simp only [numberLoop]
    rcases readByte_cases t with ⟨c, rest, hi, hr⟩ | ⟨_, _, hr⟩ | ⟨_, _, hr⟩
    · rw [hr]
      have hstep : Pres t { t with inp := rest, last := some c } := pres_of_fields _ _ rfl rfl rfl
      simp only
      split
      · exact hstep.trans (numberLoop_pres fuel _ _ _ _ _ _ _)
      · split
        · split
          · exact hstep.trans (pres_addErr _ _)
          · exact hstep.trans (numberLoop_pres fuel _ _ _ _ _ _ _)
        · split
          · exact hstep.trans (numberLoop_pres fuel _ _ _ _ _ _ _)
          · split
            · exact hstep.trans (numberLoop_pres fuel _ _ _ _ _ _ _)
            · split
              · exact hstep.trans (numberLoop_pres fuel _ _ _ _ _ _ _)
              · split
                · exact hstep.trans (pres_addErr _ _)
                · exact (pres_unread_after_read t c rest).trans (pres_setNext _ _)
    · rw [hr]; simp only; split
      · exact pres_addErr _ _
      · exact Pres.rfl' t
    · rw [hr]; exact pres_addErr _ _

theorem skipWs_pres : ∀ (fuel : Nat) (t : TR), Pres t (skipWs fuel t)
  | 0, t => by simp [skipWs]; exact Pres.rfl' t
  | fuel+1, t => by
    simp only [skipWs]
    rcases readByte_cases t with ⟨c, rest, hi, hr⟩ | ⟨_, _, hr⟩ | ⟨_, _, hr⟩
    · rw [hr]; simp only
      split
      · exact (pres_of_fields t { t with inp := rest, last := some c } rfl rfl rfl).trans (skipWs_pres fuel _)
      · exact pres_unread_after_read t c rest
    · rw [hr]; exact Pres.rfl' t
    · rw [hr]; exact Pres.rfl' t

theorem blockLoop_pres : ∀ (fuel : Nat) (t : TR) (conc : List Byte) (lb : Byte), Pres t (blockLoop fuel t conc lb).2
  | 0, t, _, _ => by simp [blockLoop]; exact Pres.rfl' t
  | fuel+1, t, conc, lb => by
    simp only [blockLoop]
    rcases readByte_cases t with ⟨c, rest, hi, hr⟩ | ⟨_, _, hr⟩ | ⟨_, _, hr⟩
    · rw [hr]; simp only
      have hstep : Pres t { t with inp := rest, last := some c } := pres_of_fields _ _ rfl rfl rfl
      split
      · exact hstep.trans (skipWs_pres _ _)
      · exact hstep.trans (blockLoop_pres fuel _ _ _)
    · rw [hr]; exact pres_addErr _ _
    · rw [hr]; exact pres_addErr _ _

theorem stringLoop_pres : ∀ (fuel : Nat) (t : TR) (conc : List Byte) (esc : Bool), Pres t (stringLoop fuel t conc esc).2
  | 0, t, _, _ => by simp [stringLoop]; exact Pres.rfl' t
  | fuel+1, t, conc, esc => by
    simp only [stringLoop]
    rcases readByte_cases t with ⟨c, rest, hi, hr⟩ | ⟨_, _, hr⟩ | ⟨_, _, hr⟩
    · rw [hr]; simp only
      have hstep : Pres t { t with inp := rest, last := some c } := pres_of_fields _ _ rfl rfl rfl
      split
      · exact hstep
      · exact hstep.trans (stringLoop_pres fuel _ _ _)
    · rw [hr]; exact pres_addErr _ _
    · rw [hr]; exact pres_addErr _ _

theorem lineComment_pres (t : TR) (conc : List Byte) : Pres t (lineCommentToken t conc).2 := by
  simp only [lineCommentToken]
  split
  · exact pres_of_fields _ _ rfl rfl rfl
  · split
    · exact (pres_of_fields t { t with inp := [], last := _ } rfl rfl rfl).trans (pres_addErr _ _)
    · exact pres_of_fields _ _ rfl rfl rfl

theorem blockComment_pres (t : TR) (conc : List Byte) : Pres t (blockCommentToken t conc).2 := by
  unfold blockCommentToken; exact blockLoop_pres _ _ _ _
theorem stringLit_pres (t : TR) (conc : List Byte) : Pres t (stringLiteralToken t conc).2 := by
  unfold stringLiteralToken; exact stringLoop_pres _ _ _ _
theorem numberTok_pres (t : TR) (conc : List Byte) : Pres t (numberToken t conc).2 := by
  unfold numberToken; exact numberLoop_pres _ _ _ _ _ _ _ _

/-- A token-tree continuation: preserves, and either built a token or reports "no token" after recording
    an error. It never reports a clean end of input (only the root of the tree does). -/
def GoodK (k : TR → List Byte → Token × FR × TR) : Prop :=
  ∀ t conc, Pres t (k t conc).2.2 ∧
    ((k t conc).2.1 = .tok ∨ ((k t conc).2.1 = .no ∧ t.errs.length < (k t conc).2.2.errs.length))

theorem goodK_simple (kd : TK) : GoodK (fun t conc => simple kd conc t) := by
  intro t conc; exact ⟨Pres.rfl' t, Or.inl rfl⟩

theorem goodK_wrap (f : TR → List Byte → Token × TR) (hf : ∀ t conc, Pres t (f t conc).2) : GoodK (wrap f) := by
  intro t conc; exact ⟨by simpa [wrap] using hf t conc, Or.inl rfl⟩

theorem Pres.len {a b : TR} (h : Pres a b) : a.errs.length ≤ b.errs.length := by
  obtain ⟨n, e⟩ := h.ext; rw [e]; simp

theorem expectOne_good (opts : List (Byte × (TR → List Byte → Token × FR × TR)))
    (hne : opts ≠ []) (hk : ∀ o ∈ opts, GoodK o.2) : GoodK (fun t conc => expectOne t conc opts) := by
  intro t conc
  simp only [expectOne]
  rcases readByte_cases t with ⟨c, rest, hi, hr⟩ | ⟨_, _, hr⟩ | ⟨_, _, hr⟩
  · rw [hr]; simp only
    have hstep : Pres t { t with inp := rest, last := some c } := pres_of_fields _ _ rfl rfl rfl
    cases hfind : opts.find? (·.1 == c) with
    | some o =>
      obtain ⟨c', k⟩ := o
      have hmem := List.mem_of_find?_eq_some hfind
      have := hk _ hmem { t with inp := rest, last := some c } (conc ++ [c])
      exact ⟨hstep.trans this.1, by simpa using this.2⟩
    | none =>
      cases opts with
      | nil => exact absurd rfl hne
      | cons o os =>
        obtain ⟨c0, k⟩ := o
        show Pres t (k (addErr { t with inp := rest, last := some c } .other) (conc ++ [c0])).2.2 ∧
          ((k (addErr { t with inp := rest, last := some c } .other) (conc ++ [c0])).2.1 = .tok ∨
           ((k (addErr { t with inp := rest, last := some c } .other) (conc ++ [c0])).2.1 = .no ∧
            t.errs.length < (k (addErr { t with inp := rest, last := some c } .other) (conc ++ [c0])).2.2.errs.length))
        have hg := hk (c0, k) (by simp) (addErr { t with inp := rest, last := some c } .other) (conc ++ [c0])
        simp only at hg
        have hadd : Pres t (addErr { t with inp := rest, last := some c } .other) :=
          hstep.trans (pres_addErr _ _)
        refine ⟨hadd.trans hg.1, ?_⟩
        have hlen : t.errs.length + 1 ≤
            (k (addErr { t with inp := rest, last := some c } .other) (conc ++ [c0])).2.2.errs.length := by
          simpa [addErr] using hg.1.len
        rcases hg.2 with h | ⟨h, _⟩
        · exact Or.inl h
        · exact Or.inr ⟨h, by omega⟩
  · rw [hr]; exact ⟨pres_addErr _ _, Or.inr ⟨rfl, by simp [addErr]⟩⟩
  · rw [hr]; exact ⟨pres_addErr _ _, Or.inr ⟨rfl, by simp [addErr]⟩⟩

/-- The result of findFirst: errors are only appended; a clean end of input (`eof`) adds none and leaves
    nothing unread; "no token here and nothing new" means a byte was just read (so UnreadByte is legal). -/
structure FF (t : TR) (r : Token × FR × TR) : Prop where
  pan : t.panicked = false → r.2.2.panicked = false
  io : r.2.2.ioFail = t.ioFail
  ext : ∃ new, r.2.2.errs = t.errs ++ new
  eof : r.2.1 = .eof → r.2.2.inp = [] ∧ r.2.2.ioFail = false ∧ r.2.2.errs = t.errs
  unread : r.2.1 = .no → r.2.2.errs.length = t.errs.length → r.2.2.last.isSome = true

theorem FF.of_good {t : TR} {r : Token × FR × TR} (h : Pres t r.2.2)
    (hk : r.2.1 = .tok ∨ (r.2.1 = .no ∧ t.errs.length < r.2.2.errs.length)) : FF t r where
  pan := h.pan
  io := h.io
  ext := h.ext
  eof := by
    intro h1
    rcases hk with hk | hk
    · rw [h1] at hk; cases hk
    · rw [h1] at hk; cases hk.1
  unread := by
    intro h1 h2
    rcases hk with hk | hk
    · rw [h1] at hk; cases hk
    · omega

theorem FF.after_read {t : TR} {c : Byte} {rest : List Byte} {r : Token × FR × TR}
    (h : FF { t with inp := rest, last := some c } r) : FF t r :=
  ⟨h.pan, h.io, h.ext, h.eof, h.unread⟩

theorem findFirst_ff : ∀ (fuel : Nat) (t : TR), t.inp.length < fuel → FF t (findFirst fuel t)
  | 0, t, h => by omega
  | fuel+1, t, hfuel => by
    simp only [findFirst]
    rcases readByte_cases t with ⟨c, rest, hi, hr⟩ | ⟨hnil, hio, hr⟩ | ⟨_, _, hr⟩
    · rw [hr]; simp only
      have good : ∀ (k : TR → List Byte → Token × FR × TR) (conc : List Byte), GoodK k →
          FF t (k { t with inp := rest, last := some c } conc) := by
        intro k conc hk
        have := hk { t with inp := rest, last := some c } conc
        exact FF.after_read (FF.of_good this.1 this.2)
      split
      · -- blank: skip it
        have hlen : ({ t with inp := rest, last := some c } : TR).inp.length < fuel := by
          simp only; rw [hi] at hfuel; simp at hfuel; omega
        exact FF.after_read (findFirst_ff fuel _ hlen)
      cases singleByteKind c with
      | some k => exact good (fun t conc => simple k conc t) [c] (goodK_simple k)
      | none =>
      simp only
      split
      · exact good _ _ (goodK_wrap _ stringLit_pres)
      split
      · exact good _ _ (goodK_wrap _ numberTok_pres)
      split
      · exact good (fun t conc => expectOne t conc _) _ (expectOne_good _ (by simp) (by
          intro o ho; simp at ho; subst ho; exact goodK_simple _))
      split
      · exact good (fun t conc => expectOne t conc _) _ (expectOne_good _ (by simp) (by
          intro o ho; simp at ho; subst ho; exact goodK_simple _))
      split
      · exact good (fun t conc => expectOne t conc _) _ (expectOne_good _ (by simp) (by
          intro o ho
          simp at ho
          rcases ho with rfl | rfl
          · exact goodK_wrap _ blockComment_pres
          · exact goodK_wrap _ lineComment_pres))
      split
      -- '-' : one more byte
      · rcases readByte_cases { t with inp := rest, last := some c } with ⟨d, rest2, hi2, hr2⟩ | ⟨_, _, hr2⟩ | ⟨_, _, hr2⟩
        · rw [hr2]; simp only
          have hstep : Pres t { t with inp := rest2, last := some d } := pres_of_fields _ _ rfl rfl rfl
          have good2 : ∀ (k : TR → List Byte → Token × FR × TR) (conc : List Byte), GoodK k →
              FF t (k { t with inp := rest2, last := some d } conc) := by
            intro k conc hk
            have := hk { t with inp := rest2, last := some d } conc
            exact FF.of_good (hstep.trans this.1) (by simpa using this.2)
          split
          · exact good2 _ _ (goodK_wrap _ numberTok_pres)
          · split
            · exact good2 (fun t conc => expectOne t conc _) _ (expectOne_good _ (by simp) (by
                intro o ho; simp at ho; subst ho
                exact expectOne_good _ (by simp) (by intro o ho; simp at ho; subst ho; exact goodK_simple _)))
            · split
              · exact good2 _ _ (goodK_simple _)
              · exact FF.of_good (hstep.trans (pres_addErr _ _)) (Or.inl rfl)
        · rw [hr2]
          exact FF.of_good ((pres_of_fields t { t with inp := rest, last := some c } rfl rfl rfl).trans
            (pres_addErr _ _)) (Or.inr ⟨rfl, by simp [addErr]⟩)
        · rw [hr2]
          exact FF.of_good ((pres_of_fields t { t with inp := rest, last := some c } rfl rfl rfl).trans
            (pres_addErr _ _)) (Or.inr ⟨rfl, by simp [addErr]⟩)
      -- no byte-driven token starts here
      · exact ⟨fun h => h, rfl, ⟨[], by simp⟩, (fun h => by cases h), fun _ _ => rfl⟩
    · rw [hr]
      exact ⟨fun h => h, rfl, ⟨[], by simp⟩, (fun _ => ⟨hnil, hio, rfl⟩), (fun h => by cases h)⟩
    · rw [hr]
      exact FF.of_good (pres_addErr _ _) (Or.inr ⟨rfl, by simp [addErr]⟩)

theorem identLoop_pres : ∀ (fuel : Nat) (t : TR) (conc : List Byte), Pres t (identLoop fuel t conc).2
  | 0, t, conc => by simpa [identLoop] using pres_setNext t _
  | fuel+1, t, conc => by
    simp only [identLoop]
    split
    · split
      · exact pres_addErr _ _
      · exact pres_setNext t _
    · rename_i c rest _
      split
      · exact pres_of_fields _ _ rfl rfl rfl
      · split
        · have h1 : Pres t { t with inp := rest, last := some c } := pres_of_fields _ _ rfl rfl rfl
          exact h1.trans (identLoop_pres fuel _ _)
        · have h1 : Pres t { t with last := none } := pres_of_fields _ _ rfl rfl rfl
          exact h1.trans (pres_setNext _ _)

/-- `Next` never panics: every UnreadByte directly follows a successful ReadByte. -/
theorem next_no_panic (t : TR) (h : t.panicked = false) : (next t).2.panicked = false := by
  unfold next
  by_cases hk : t.keep = true
  · simp [hk, h]
  · simp only [hk, Bool.false_eq_true, if_false]
    have ff := findFirst_ff (t.inp.length + 1) t (by omega)
    obtain ⟨tk, r, t1, hr⟩ : ∃ tk r t1, findFirst (t.inp.length + 1) t = (tk, r, t1) := ⟨_, _, _, rfl⟩
    rw [hr] at ff ⊢
    have hp1 : t1.panicked = false := ff.pan h
    simp only
    by_cases he : (r == FR.eof) = true
    · simp [he, hp1]
    · simp only [he, Bool.false_eq_true, if_false]
      by_cases hu : (t1.errs.getLast? == some TErr.ueof) = true
      · simp [hu, hp1]
      · simp only [hu, Bool.false_eq_true, if_false]
        by_cases hf : (!t1.errs.isEmpty && r != FR.tok && decide (t1.errs.length > t.errs.length)) = true
        · simp [hf, hp1]
        · simp only [hf, Bool.false_eq_true, if_false]
          by_cases ht : (r == FR.tok) = true
          · simp [ht, setNext, hp1]
          · simp only [ht, Bool.false_eq_true, if_false]
            have hrno : r = .no := by
              cases r
              · exact absurd (by decide) ht
              · rfl
              · exact absurd (by decide) he
            -- nothing new was recorded, so findFirst stopped right after reading a byte
            have hlen : t1.errs.length = t.errs.length := by
              obtain ⟨new, hn⟩ := ff.ext
              simp only at hn
              have hge : t.errs.length ≤ t1.errs.length := by rw [hn]; simp
              by_cases hem : t1.errs.isEmpty = true
              · have h0 : t1.errs.length = 0 := by simpa [List.isEmpty_iff] using hem
                omega
              · have : ¬ t1.errs.length > t.errs.length := by
                  intro hgt
                  apply hf
                  simp [hem, hrno, hgt]
                omega
            have hlast := ff.unread hrno hlen
            simp only at hlast
            have hun : (unreadByte t1).panicked = false := by
              unfold unreadByte
              cases hl : t1.last with
              | none => rw [hl] at hlast; simp at hlast
              | some c => simpa using hp1
            simp only [hun, Bool.false_eq_true, if_false]
            split
            · simpa [addErr] using hun
            · split
              · simpa using hun
              · split
                · exact (identLoop_pres _ _ _).pan (by simpa using hun)
                · simpa [addErr] using hun

theorem identLoop_false : ∀ (fuel : Nat) (t : TR) (conc : List Byte),
    (identLoop fuel t conc).1 = false → (identLoop fuel t conc).2.errs ≠ [] ∨ (identLoop fuel t conc).2.nonAscii = true
  | 0, t, conc => by simp [identLoop]
  | fuel+1, t, conc => by
    simp only [identLoop]
    split
    · split
      · intro _; left; simp [addErr]
      · simp
    · split
      · intro _; right; rfl
      · split
        · exact identLoop_false fuel _ _
        · simp

/-- `Next` can only return false with an empty error list at the clean end of the input: everything has
    been read and the reader ended with EOF, not with an I/O error. -/
theorem next_false_clean (t : TR) (hf : (next t).1 = false)
    (he : (next t).2.errs = []) (hn : (next t).2.nonAscii = false) (hnp : (next t).2.panicked = false) :
    (next t).2.inp = [] ∧ (next t).2.ioFail = false := by
  revert hf he hn hnp
  unfold next
  by_cases hk : t.keep = true
  · simp [hk]
  · simp only [hk, Bool.false_eq_true, if_false]
    have ff := findFirst_ff (t.inp.length + 1) t (by omega)
    obtain ⟨tk, r, t1, hr⟩ : ∃ tk r t1, findFirst (t.inp.length + 1) t = (tk, r, t1) := ⟨_, _, _, rfl⟩
    rw [hr] at ff ⊢
    simp only
    by_cases hre : (r == FR.eof) = true
    · have : r = .eof := by cases r <;> first | rfl | exact absurd hre (by decide)
      have h := ff.eof this
      simp only [hre, if_true]
      intro _ _ _ _
      exact ⟨h.1, h.2.1⟩
    · simp only [hre, Bool.false_eq_true, if_false]
      by_cases hu : (t1.errs.getLast? == some TErr.ueof) = true
      · simp only [hu, if_true]
        intro _ he
        rw [he] at hu; simp at hu
      · simp only [hu, Bool.false_eq_true, if_false]
        by_cases hfl : (!t1.errs.isEmpty && r != FR.tok && decide (t1.errs.length > t.errs.length)) = true
        · simp only [hfl, if_true]
          intro _ he
          rw [he] at hfl; simp at hfl
        · simp only [hfl, Bool.false_eq_true, if_false]
          by_cases ht : (r == FR.tok) = true
          · simp [ht]
          · simp only [ht, Bool.false_eq_true, if_false]
            split
            · intro _ _ _ hpan; simp_all
            · split
              · intro _ he; simp [addErr] at he
              · split
                · intro _ _ hn; simp at hn
                · split
                  · intro hf he hn _
                    rcases identLoop_false _ _ _ hf with h | h
                    · exact absurd he h
                    · rw [hn] at h; cases h
                  · intro _ he; simp [addErr] at he

end Bebop.Text
