/-
  Validate: operational model of File.Validate (gen.go) — the gate before any Go text is written — and the
  Spec of "semantic error" it is meant to implement.

  Go maps are association lists here; the only place their iteration order could matter is the struct-usage
  fixpoint, whose result (a transitive closure) does not depend on it.
-/
import Bebop.Text.Ast

namespace Bebop.Text

def dupIn {α} [BEq α] : List α → Bool
  | [] => false
  | a :: rest => rest.contains a || dupIn rest

/-- ft.usedTypes(): every simple type name occurring in a field type, map keys included. -/
def usedTypesFT : FT → List Str
  | .simple n => [n]
  | .arr e => usedTypesFT e
  | .map k v => k :: usedTypesFT v

def usedTypesStruct (s : Struct) : List Str := s.fields.flatMap (fun f => usedTypesFT f.ft)

/-- typeDefined -/
def typeDefined (all : List Str) : FT → Bool
  | .simple n => all.contains n
  | .arr e => typeDefined all e
  | .map k v => all.contains k && typeDefined all v

def unionFieldName (uf : UnionField) : Str :=
  match uf.body with
  | .msg m => m.name
  | .st s => s.name

/-- One sweep of the usage fixpoint: every struct that uses struct `b` also uses whatever `b` uses. -/
def usageSweep (usage : List (Str × List Str)) : List (Str × List Str) :=
  usage.map fun (a, ua) =>
    (a, usage.foldl (fun acc (b, ub) => if a != b && acc.contains b then acc ++ ub.filter (fun x => !acc.contains x) else acc) ua)

def usageSize (usage : List (Str × List Str)) : Nat := usage.foldl (fun n p => n + p.2.eraseDups.length) 0

/-- `for delta { … }` -/
def usageClosure : Nat → List (Str × List Str) → List (Str × List Str)
  | 0, u => u
  | f+1, u =>
    let u' := usageSweep u
    if usageSize u' == usageSize u then u else usageClosure f u'

inductive Verdict where
  | ok
  | err (why : String)
  deriving Repr, Inhabited, BEq

/-- File.Validate, as far as accept / reject goes (`why` is documentation, never compared). -/
def validate (f : File) : Verdict :=
  if dupIn (f.consts.map (·.name)) then .err "const duplicated name" else
  -- enums
  let rec enums (es : List Enum) (custom : List Str) : Verdict ⊕ List Str :=
    match es with
    | [] => .inr custom
    | e :: rest =>
      if isPrimitiveName e.name then .inl (.err "enum shares primitive type name")
      else if custom.contains e.name then .inl (.err "enum duplicated name")
      else if dupIn (e.options.map (·.name)) then .inl (.err "enum duplicate option name")
      else if (if e.unsigned then dupIn (e.options.map (·.uvalue)) else dupIn (e.options.map (·.value))) then
        .inl (.err "enum duplicate option value")
      else enums rest (custom ++ [e.name])
  match enums f.enums [] with
  | .inl v => v
  | .inr custom1 =>
  let rec structs (ss : List Struct) (custom : List Str) (ops : List Nat) : Verdict ⊕ (List Str × List Nat) :=
    match ss with
    | [] => .inr (custom, ops)
    | s :: rest =>
      if isPrimitiveName s.name then .inl (.err "struct shares primitive type name")
      else if custom.contains s.name then .inl (.err "struct duplicated name")
      else if dupIn (s.fields.map (·.name)) then .inl (.err "struct duplicate field name")
      else if s.opCode != 0 && ops.contains s.opCode then .inl (.err "struct duplicate opcode")
      else structs rest (custom ++ [s.name]) (if s.opCode != 0 then ops ++ [s.opCode] else ops)
  match structs f.structs custom1 [] with
  | .inl v => v
  | .inr (custom2, ops2) =>
  let rec messages (ms : List Message) (custom : List Str) (ops : List Nat) : Verdict ⊕ (List Str × List Nat) :=
    match ms with
    | [] => .inr (custom, ops)
    | m :: rest =>
      if isPrimitiveName m.name then .inl (.err "message shares primitive type name")
      else if custom.contains m.name then .inl (.err "message duplicated name")
      else if dupIn (m.fields.map (·.2.name)) then .inl (.err "message duplicate field name")
      else if m.opCode != 0 && ops.contains m.opCode then .inl (.err "message duplicate opcode")
      else messages rest (custom ++ [m.name]) (if m.opCode != 0 then ops ++ [m.opCode] else ops)
  match messages f.messages custom2 ops2 with
  | .inl v => v
  | .inr (custom3, ops3) =>
  let rec unions (us : List Union) (custom : List Str) (ops : List Nat) : Verdict ⊕ (List Str × List Nat) :=
    match us with
    | [] => .inr (custom, ops)
    | u :: rest =>
      if isPrimitiveName u.name then .inl (.err "union shares primitive type name")
      else if custom.contains u.name then .inl (.err "union duplicated name")
      else if dupIn (u.fields.map (fun p => unionFieldName p.2)) then .inl (.err "union duplicate field name")
      else if u.opCode != 0 && ops.contains u.opCode then .inl (.err "union duplicate opcode")
      else unions rest (custom ++ [u.name]) (if u.opCode != 0 then ops ++ [u.opCode] else ops)
  match unions f.unions custom3 ops3 with
  | .inl v => v
  | .inr (custom4, _) =>
  let all := custom4 ++ Facts.primitiveTypeNames.map strOf
  if !(f.structs.all (fun s => s.fields.all (fun fd => typeDefined all fd.ft))) then .err "type undefined (struct field)"
  else if !(f.messages.all (fun m => m.fields.all (fun p => typeDefined all p.2.ft))) then .err "type undefined (message field)"
  else
    let usage0 := f.structs.map (fun s => (s.name, usedTypesStruct s))
    let bound := usage0.length * (usage0.length + (usage0.foldl (fun n p => n + p.2.length) 0)) + 1
    let usage := usageClosure bound usage0
    if usage.any (fun (a, ua) => ua.contains a) then .err "struct recursively includes itself" else .ok

/-! ### Spec: what a semantic error is -/

/-- Every definition name of the file, in any order. -/
def defNames (f : File) : List Str :=
  f.enums.map (·.name) ++ f.structs.map (·.name) ++ f.messages.map (·.name) ++ f.unions.map (·.name)

/-- The struct-contains-struct relation: `a ⊐ b` iff struct `a` has a field of type exactly `b`. -/
def directlyContains (f : File) (a b : Str) : Bool :=
  f.structs.any (fun s => s.name == a && s.fields.any (fun fd => match fd.ft with | .simple n => n == b | _ => false))

/-- `a ⊐⁺ a` within `n` steps along structs. -/
def reachesSelf (f : File) (start : Str) : Nat → Str → Bool
  | 0, _ => false
  | n+1, cur => f.structs.any (fun s => directlyContains f cur s.name && (s.name == start || reachesSelf f start n s.name))

inductive SemErr where
  | dupDefName | primitiveName | dupConstName | dupFieldName | dupOptionName | dupOptionValue | dupOpCode
  | undefinedStructFieldType | undefinedMessageFieldType | infiniteStruct
  deriving Repr, DecidableEq, Inhabited

/-- The semantic-error classes that are decided after parsing (index / range / assignability errors are
    parse-time and belong to the parser model). -/
def hasSemErr (f : File) : SemErr → Bool
  | .dupDefName => dupIn (defNames f)
  | .primitiveName => (defNames f).any isPrimitiveName
  | .dupConstName => dupIn (f.consts.map (·.name))
  | .dupFieldName => f.structs.any (fun s => dupIn (s.fields.map (·.name))) ||
      f.messages.any (fun m => dupIn (m.fields.map (·.2.name)))
  | .dupOptionName => f.enums.any (fun e => dupIn (e.options.map (·.name)))
  | .dupOptionValue => f.enums.any (fun e => if e.unsigned then dupIn (e.options.map (·.uvalue)) else dupIn (e.options.map (·.value)))
  | .dupOpCode =>
      dupIn ((f.structs.map (·.opCode) ++ f.messages.map (·.opCode) ++ f.unions.map (·.opCode)).filter (· != 0))
  | .undefinedStructFieldType =>
      let all := defNames f ++ Facts.primitiveTypeNames.map strOf
      f.structs.any (fun s => s.fields.any (fun fd => !typeDefined all fd.ft))
  | .undefinedMessageFieldType =>
      let all := defNames f ++ Facts.primitiveTypeNames.map strOf
      f.messages.any (fun m => m.fields.any (fun p => !typeDefined all p.2.ft))
  | .infiniteStruct => f.structs.any (fun s => reachesSelf f s.name (f.structs.length + 1) s.name)

end Bebop.Text
