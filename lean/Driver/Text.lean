/- Text-side (tokenizer / parser / formatter / validator / imports) operations of the driver. -/
import Bebop.Text.Parser
import Bebop.Text.Grammar
import Bebop.Text.Dump
import Bebop.Text.Validate
import Bebop.Text.Imports
import Driver.Gen

open Bebop.Text

namespace Driver.Text

def hexValC (c : Char) : Option Nat :=
  if '0' ≤ c ∧ c ≤ '9' then some (c.toNat - 48)
  else if 'a' ≤ c ∧ c ≤ 'f' then some (c.toNat - 87)
  else if 'A' ≤ c ∧ c ≤ 'F' then some (c.toNat - 55)
  else none

partial def unhexChars : List Char → List UInt8 → Option (List UInt8)
  | [], acc => some acc.reverse
  | [_], _ => none
  | a :: b :: rest, acc =>
    match hexValC a, hexValC b with
    | some x, some y => unhexChars rest (UInt8.ofNat (x * 16 + y) :: acc)
    | _, _ => none

def unhex (s : String) : Option (List UInt8) := if s == "-" then some [] else unhexChars s.toList []

def showRead : ReadResult → String
  | .ok f => "ok " ++ dumpFile f
  | .err => "err"
  | .panic => "panic"
  | .fuel => "fuel"
  | .declined => "declined"

def kindName (k : TK) : String := (reprStr k).replace "Bebop.Text.TK." ""

partial def parseFS : Nat → List String → Option (FS × List String)
  | 0, r => some ([], r)
  | n+1, pkg :: m :: r => do
    let m ← m.toNat?
    let ts ← (r.take m).mapM String.toNat?
    if (r.take m).length != m then none
    let (rest, r') ← parseFS n (r.drop m)
    let p : Option Nat := if pkg == "-1" then none else pkg.toNat?
    pure ({ pkg := p, imports := ts } :: rest, r')
  | _, _ => none

def step (toks : List String) : String :=
  match toks with
  | ["parse", h, io] =>
    match unhex h with
    | some bs => showRead (readFile bs (io == "1"))
    | none => "bad-op parse"
  | ["tok", h, io] =>
    match unhex h with
    | some bs =>
      let (ts, t) := allTokens (2 * bs.length + 4) (mkTR bs (io == "1")) []
      "ok " ++ toString ts.length ++ String.join (ts.map fun tk => " " ++ kindName tk.kind ++ ":" ++ hexStr tk.concrete) ++
        " errs " ++ toString t.errs.length ++ (if t.panicked then " panicked" else "")
    | none => "bad-op tok"
  | ["gen", seed, size, imports] =>
    match seed.toNat?, size.toNat? with
    | some seed, some size =>
      let src := Gen.run seed (imports == "2") (Gen.genFile size (imports == "1"))
      let text := print (Gen.layoutOf seed) src
      match toFile src with
      | some f => "ok " ++ hexStr text ++ " " ++ dumpFile f
      | none => "bad-src " ++ hexStr text
    | _, _ => "bad-op gen"
  | ["geninvalid", seed, size, cls] =>
    match seed.toNat?, size.toNat?, cls.toNat? with
    | some seed, some size, some ci =>
      let clsName := Gen.classes.getD ci "?"
      let r := Gen.run seed false (do
        let src ← Gen.genFile size false
        Gen.inject clsName src)
      match r with
      | some src => "ok " ++ hexStr (print (Gen.layoutOf seed) src) ++ " " ++ clsName
      | none => "na " ++ clsName
    | _, _, _ => "bad-op geninvalid"
  | "imports" :: sep :: n :: rest =>
    match n.toNat?.bind (fun n => parseFS n rest) with
    | some (fs, []) =>
      match resolveImports fs (sep == "1") with
      | .ok files => "ok " ++ String.intercalate " " (files.map toString)
      | .err .notFound => "err notfound"
      | .err .cycle => "err cycle"
      | .err .noPkg => "err nopkg"
      | .err .validate => "err validate"
      | .fuel => "fuel"
    | _ => "bad-op imports"
  | ["validate", h] =>
    match unhex h with
    | some bs =>
      match readFile bs false with
      | .ok f =>
        match validate f with
        | .ok => "accept"
        | .err why => "reject-validate " ++ why.replace " " "_"
      | .err => "reject-parse"
      | .panic => "panic"
      | .fuel => "fuel"
      | .declined => "declined"
    | none => "bad-op validate"
  | _ => "bad-op text " ++ String.intercalate " " toks

end Driver.Text
