// Command wire is the differential-testing engine for the wire codecs: it emits packages with
// the real generator, drives them through the reflection driver, and compares them with the
// Lean model (bebop-model) and with direct oracles. See PROTOCOL.md and README.md.
package main

import (
	"encoding/json"
	"flag"
	"fmt"
	"math/rand"
	"os"
	"path/filepath"
	"runtime"
	"sort"
	"strings"
	"sync"
	"time"

	"verif/harness/internal/pkgbuild"
	"verif/harness/internal/schema"
	"verif/harness/internal/session"
	"verif/harness/internal/val"
)

type engine struct {
	seed      int64
	tier      string
	modelPath string
	props     map[string]bool
	coll      *Collector
	builder   *pkgbuild.Builder
	start     time.Time

	// tuning
	rounds      int
	maxBad      int
	pairRounds  int
	corruptions int
	hugePercent int
	maxHeavyLen int
	fullCutLen  int
	opTimeout   time.Duration
	mdlTimeout  time.Duration

	mu    sync.Mutex
	notes []string
	pkgs  []PackageReport
	c09   map[string]*c09entry
}

// PackageReport is the build verdict of one package.
type PackageReport struct {
	ID       string           `json:"id"`
	Schema   string           `json:"schema"`
	Options  pkgbuild.Options `json:"options"`
	BuildOK  bool             `json:"build_ok"`
	BuildErr string           `json:"build_err"`
	BuildSec float64          `json:"build_seconds"`
	DrvOps   int              `json:"driver_ops"`
	ModelOps int              `json:"model_ops"`
	Restarts int              `json:"driver_restarts"`
	RunSec   float64          `json:"run_seconds"`
	Rounds   int              `json:"rounds_completed"` // full passes over the package's records within the time budget
}

type c09entry struct {
	schema string
	def    int
	round  int
	multi  bool
	bytesH map[int]uint64 // option bits -> hash of B
	valueH map[int]uint64 // option bits -> hash of the decoded value
	okH    map[int]bool   // option bits -> every decoder of this option set returned the value
}

func (e *engine) note(format string, args ...interface{}) {
	e.mu.Lock()
	e.notes = append(e.notes, fmt.Sprintf(format, args...))
	e.mu.Unlock()
}

func (e *engine) c09record(schemaID string, def, round, bits int, bytesH, valueH uint64, multi bool, ok bool) {
	key := fmt.Sprintf("%s/%d/%d", schemaID, def, round)
	e.mu.Lock()
	defer e.mu.Unlock()
	ent := e.c09[key]
	if ent == nil {
		ent = &c09entry{schema: schemaID, def: def, round: round, multi: multi, bytesH: map[int]uint64{}, valueH: map[int]uint64{}, okH: map[int]bool{}}
		e.c09[key] = ent
	}
	ent.bytesH[bits] = bytesH
	ent.valueH[bits] = valueH
	ent.okH[bits] = ok
}

type job struct {
	kind string // "plain" or "pair"
	sc   *schemaCase
	sc2  *schemaCase // pair: the v2 schema (sc is v1)
	opts pkgbuild.Options
}

func (e *engine) report(p *pkgbuild.Package, sc *schemaCase) int {
	e.mu.Lock()
	defer e.mu.Unlock()
	e.pkgs = append(e.pkgs, PackageReport{ID: p.ID, Schema: sc.id, Options: p.Options, BuildOK: p.BuildOK, BuildErr: p.BuildErr, BuildSec: p.Elapsed.Seconds()})
	return len(e.pkgs) - 1
}

func (e *engine) build(sc *schemaCase, opts pkgbuild.Options) (*pkgbuild.Package, int) {
	id := fmt.Sprintf("%s_o%02d", sc.id, opts.Bits())
	p := e.builder.Build(id, sc.text, sc.env, opts)
	idx := e.report(p, sc)
	if e.props["C12"] {
		st := map[string]*PropStats{"C12": newPropStats("C12")}
		s := st["C12"]
		s.Evaluations = 1
		s.dist("options", opts.String())
		s.dist("outcome", map[bool]string{true: "builds", false: "build-failure"}[p.BuildOK])
		for i := range sc.env.Defs {
			for _, sh := range sc.env.Shapes(i) {
				s.dist("shape_class", sh)
			}
			s.dist("record_kind", sc.env.Defs[i].Kind.String())
		}
		s.distinct[hash64(sc.id, opts.String())] = struct{}{}
		if len(sc.env.Defs) > 0 {
			s.Samples = append(s.Samples, fmt.Sprintf("%s [%s]: %d defs, build_ok=%v", sc.id, opts, len(sc.env.Defs), p.BuildOK))
		}
		e.coll.merge(st)
		if !p.BuildOK {
			e.coll.fail(Failure{Property: "C12", Kind: "build", Package: p.ID, Schema: sc.text, Options: opts,
				Env: sc.env.Lines(), Op: "go build (stage " + p.Stage + ")", Expected: "a package that compiles",
				Observed: p.FirstErrorLine(), Note: session.Abbrev(p.BuildErr, 3000)})
		}
	}
	return p, idx
}

func (e *engine) openModel(env *schema.Env) *session.Session {
	if e.modelPath == "" {
		return nil
	}
	m, err := session.OpenModel(e.modelPath, env, e.mdlTimeout)
	if err != nil {
		e.note("model cannot be started: %v", err)
		return nil
	}
	return m
}

func (e *engine) runPlain(j job, budget time.Duration, jobSeed int64) {
	pkg, idx := e.build(j.sc, j.opts)
	if !pkg.BuildOK {
		return
	}
	start := time.Now()
	drv, err := session.OpenDriver(pkg, j.sc.env, e.opTimeout)
	if err != nil {
		e.note("driver of %s cannot be started: %v", pkg.ID, err)
		e.coll.fail(Failure{Property: "C12", Kind: "crash", Package: pkg.ID, Schema: j.sc.text, Options: j.opts, Op: "start driver", Observed: err.Error()})
		return
	}
	defer drv.Close()
	mdl := e.openModel(j.sc.env)
	r := &pkgRun{eng: e, sc: j.sc, pkg: pkg, drv: drv, mdl: mdl, rng: rand.New(rand.NewSource(jobSeed)),
		stats: map[string]*PropStats{}, deadline: time.Now().Add(budget), envLines: j.sc.env.Lines()}
	r.run(e.rounds)
	if r.mdl != nil {
		r.mdl.Close()
	}
	e.coll.merge(r.stats)
	e.mu.Lock()
	e.pkgs[idx].DrvOps = drv.Ops
	e.pkgs[idx].Rounds = r.roundsDone
	if mdl != nil {
		e.pkgs[idx].ModelOps = mdl.Ops
	}
	e.pkgs[idx].Restarts = drv.P.Restarts
	e.pkgs[idx].RunSec = time.Since(start).Seconds()
	e.mu.Unlock()
}

// runPair is C04: values of v2 encoded by the v2 package, decoded by the v1 package and by the
// model under the v1 environment.
func (e *engine) runPair(j job, budget time.Duration, jobSeed int64) {
	p1, idx1 := e.build(j.sc, j.opts)
	p2, _ := e.build(j.sc2, j.opts)
	if !p1.BuildOK || !p2.BuildOK || !e.props["C04"] {
		return
	}
	start := time.Now()
	d1, err := session.OpenDriver(p1, j.sc.env, e.opTimeout)
	if err != nil {
		e.note("driver of %s cannot be started: %v", p1.ID, err)
		return
	}
	defer d1.Close()
	d2, err := session.OpenDriver(p2, j.sc2.env, e.opTimeout)
	if err != nil {
		e.note("driver of %s cannot be started: %v", p2.ID, err)
		return
	}
	defer d2.Close()
	mdl := e.openModel(j.sc.env)
	r := &pkgRun{eng: e, sc: j.sc, pkg: p1, drv: d1, mdl: mdl, rng: rand.New(rand.NewSource(jobSeed)),
		stats: map[string]*PropStats{}, deadline: time.Now().Add(budget), envLines: j.sc.env.Lines()}
	env1, env2 := j.sc.env, j.sc2.env
	for round := 0; round < e.pairRounds && !r.expired(); round++ {
		for di := range env2.Defs {
			if r.expired() {
				break
			}
			cfg := genConfigFor(round)
			cfg.PresentProb = 0.75
			raw2 := val.RandomRecord(r.valueRng(di, round), env2, di, cfg)
			V2 := val.StripDeprecated(env2, schema.Ty{K: schema.TyRef, Ref: di}, raw2) // v2 never writes its deprecated fields
			// the listed finding is a property of the VALUE: a nested struct that loses a message field under v1
			// (the negation of the Lean guard TopStable); everything else must decode correctly on both paths
			r.ctxClass = ""
			if val.NestedStructShrinks(env1, env2, schema.Ty{K: schema.TyRef, Ref: di}, V2) {
				r.ctxClass = "nested-struct"
			}
			vs2 := raw2.String()
			rm, err := d2.Do(fmt.Sprintf("marshal %d %s", di, vs2))
			if err != nil {
				e.note("driver of %s died: %v", p2.ID, err)
				r.dead = true
				break
			}
			if rm.Class != "ok" || len(rm.Fields) != 1 {
				r.fail("C04", "oracle", di, "v2: marshal "+vs2, "ok <hex>", rm.Short(), "", "the v2 package failed to marshal")
				continue
			}
			hexB2 := rm.Fields[0]
			n2 := len(hexB2) / 2
			if hexB2 == "-" {
				n2 = 0
			}
			restricted := val.Restrict(env1, env2, schema.Ty{K: schema.TyRef, Ref: di}, V2)
			want := restricted.CanonString()
			dropped := want != V2.CanonString()
			outcome := "ok"
			note := fmt.Sprintf("V2 = %s ; v2 schema:\n%s", vs2, j.sc2.text)
			op := fmt.Sprintf("unmarshal %d %s", di, hexB2)
			ru := r.real(op)
			if r.badReal("C04", di, op, ru, false) {
				outcome = "fail"
			} else if got, err := ru.Val(); err != nil || got.CanonString() != want {
				outcome = "fail"
				r.fail("C04", "oracle", di, op, "ok "+want, ru.Short(), "", note)
			}
			// the unchecked decoder (GenerateUnsafeMethods) must agree with the checked one on these bytes too
			opM := fmt.Sprintf("mustunmarshal %d %s", di, hexB2)
			if rmu := r.real(opM); rmu.Class != "absent" {
				// C09 compares the two decoders only where the checked one is RIGHT (on the values of the listed
				// nested-struct finding both read misaligned bytes, and an unchecked decoder may panic on those)
				safeRight := false
				if gu, errU := ru.Val(); errU == nil && gu.CanonString() == want {
					safeRight = true
				}
				if r.badReal("C04", di, opM, rmu, false) {
					outcome = "fail"
					if safeRight && e.props["C09"] {
						r.fail("C09", "oracle", di, opM, ru.Short(), rmu.Short(), "", "MustUnmarshalBebop fails where UnmarshalBebop succeeds (bytes written under a newer schema version)")
					}
				} else if got, err := rmu.Val(); err != nil || got.CanonString() != want {
					outcome = "fail"
					r.fail("C04", "oracle", di, opM, "ok "+want, rmu.Short(), "", note)
					if gu, err2 := ru.Val(); safeRight && err2 == nil && (err != nil || got.CanonString() != gu.CanonString()) && e.props["C09"] {
						r.fail("C09", "oracle", di, opM, ru.Short(), rmu.Short(), "", "MustUnmarshalBebop differs from UnmarshalBebop on bytes written under a newer schema version")
					}
				}
			}
			trail := []byte{0xde, 0xad, 0xbe, 0xef, 1, 2, 3}
			b2, _ := val.Unhex(hexB2)
			withTrail := val.Hex(append(append([]byte(nil), b2...), trail...))
			// "seek" / "bufio": readers that offer more than io.Reader (Seek, Discard, WriteTo) must decode alike
			for _, chunk := range []string{"all", "one", fmt.Sprintf("rnd%d", round), "seek", "bufio"} {
				for _, data := range []string{hexB2, withTrail} {
					op := fmt.Sprintf("decode %d %s %s", di, chunk, data)
					rd := r.real(op)
					if r.badReal("C04", di, op, rd, false) {
						outcome = "fail"
						continue
					}
					got, consumed, err := rd.ValConsumed()
					if err != nil || got.CanonString() != want {
						outcome = "fail"
						r.fail("C04", "oracle", di, op, fmt.Sprintf("ok %s %d", want, n2), rd.Short(), "", note)
					} else if consumed != n2 {
						outcome = "fail"
						r.fail("C04", "oracle", di, op, fmt.Sprintf("consumed %d", n2), fmt.Sprintf("consumed %d", consumed), "", note)
					}
				}
			}
			// model vs REAL (a mismatch is a disagreement between the two; whether the real result is the right one
			// is the oracle's business above -- on the listed nested-struct values both deviate in the same way)
			mop := fmt.Sprintf("dec 1 %d %s", di, hexB2)
			if md, ok := r.model("C04", di, mop); ok {
				mv, merr := md.Val()
				rv, rerr := ru.Val()
				switch {
				case merr == nil && rerr == nil:
					if mv.CanonString() != rv.CanonString() {
						outcome = "fail"
						r.fail("C04", "mismatch", di, mop, md.Short(), ru.Short(), md.Short(), note)
					}
				case merr == nil || rerr == nil:
					// one of them has no value: classes must still agree unless the real one is a resource failure
					if md.Class != ru.Class && ru.Class != "crash" && ru.Class != "timeout" {
						outcome = "fail"
						r.fail("C04", "mismatch", di, mop, md.Short(), ru.Short(), md.Short(), note)
					}
				}
			}
			mop = fmt.Sprintf("decs %d %s", di, withTrail)
			if md, ok := r.model("C04", di, mop); ok {
				if w, c, err := md.ValConsumed(); err != nil || w.CanonString() != want || c != n2 {
					outcome = "fail"
					r.fail("C04", "mismatch", di, mop, fmt.Sprintf("ok %s %d", want, n2), "", md.Short(), note)
				}
			}
			if dropped {
				outcome += "+fields-dropped"
			}
			r.eval("C04", di, V2.SizeBucket(), outcome, vs2)
			r.st("C04").dist("context", env2.Defs[di].Name)
			if dropped {
				r.sample("C04", "%s: V2=%s B2=%s v1 sees %s", env2.Defs[di].Name, vs2, hexB2, want)
			}
		}
	}
	if mdl != nil && r.mdl != nil {
		r.mdl.Close()
	}
	e.coll.merge(r.stats)
	e.mu.Lock()
	e.pkgs[idx1].DrvOps = d1.Ops + d2.Ops
	if mdl != nil {
		e.pkgs[idx1].ModelOps = mdl.Ops
	}
	e.pkgs[idx1].Restarts = d1.P.Restarts + d2.P.Restarts
	e.pkgs[idx1].RunSec = time.Since(start).Seconds()
	e.mu.Unlock()
}

// c09finish compares the recorded bytes and values across option sets.
func (e *engine) c09finish(cases map[string]*schemaCase) {
	if !e.props["C09"] {
		return
	}
	st := map[string]*PropStats{"C09": newPropStats("C09")}
	s := st["C09"]
	keys := make([]string, 0, len(e.c09))
	for k := range e.c09 {
		keys = append(keys, k)
	}
	sort.Strings(keys)
	for _, k := range keys {
		ent := e.c09[k]
		if len(ent.valueH) < 2 {
			continue
		}
		sc := cases[ent.schema]
		s.Evaluations++
		s.dist("option_sets_compared", fmt.Sprint(len(ent.valueH)))
		s.dist("record_kind", sc.env.Defs[ent.def].Kind.String())
		for _, sh := range sc.env.Shapes(ent.def) {
			s.dist("shape_class", sh)
		}
		s.distinct[hash64(k)] = struct{}{}
		var bits []int
		for b := range ent.valueH {
			bits = append(bits, b)
		}
		sort.Ints(bits)
		outcome := "identical"
		regen := func() string {
			rng := rand.New(rand.NewSource(int64(hash64(fmt.Sprint(e.seed), ent.schema, fmt.Sprint(ent.def), fmt.Sprint(ent.round)) >> 1)))
			return val.RandomRecord(rng, sc.env, ent.def, genConfigFor(ent.round)).String()
		}
		for _, b := range bits[1:] {
			if !ent.multi && ent.bytesH[b] != ent.bytesH[bits[0]] {
				outcome = "bytes-differ"
				e.coll.fail(Failure{Property: "C09", Kind: "oracle", Package: fmt.Sprintf("%s_o%02d", ent.schema, b), Schema: sc.text,
					Options: pkgbuild.OptionsFromBits(b), Def: sc.env.Defs[ent.def].Name, DefIdx: ent.def, Env: sc.env.Lines(),
					Op: fmt.Sprintf("marshal %d %s", ent.def, session.Abbrev(regen(), 3000)), Expected: "the bytes produced under options " + pkgbuild.OptionsFromBits(bits[0]).String(),
					Observed: "different bytes under options " + pkgbuild.OptionsFromBits(b).String()})
				break
			}
			if ent.okH[b] != ent.okH[bits[0]] {
				outcome = "one-option-set-fails"
				bad, good := b, bits[0]
				if ent.okH[b] {
					bad, good = bits[0], b
				}
				e.coll.fail(Failure{Property: "C09", Kind: "oracle", Package: fmt.Sprintf("%s_o%02d", ent.schema, bad), Schema: sc.text,
					Options: pkgbuild.OptionsFromBits(bad), Def: sc.env.Defs[ent.def].Name, DefIdx: ent.def, Env: sc.env.Lines(),
					Op: fmt.Sprintf("every decoder on marshal %d %s", ent.def, session.Abbrev(regen(), 3000)), Expected: "the value, as under options " + pkgbuild.OptionsFromBits(good).String(),
					Observed: "a decoder fails or returns another value under options " + pkgbuild.OptionsFromBits(bad).String()})
				break
			}
			if ent.valueH[b] != ent.valueH[bits[0]] {
				outcome = "values-differ"
				e.coll.fail(Failure{Property: "C09", Kind: "oracle", Package: fmt.Sprintf("%s_o%02d", ent.schema, b), Schema: sc.text,
					Options: pkgbuild.OptionsFromBits(b), Def: sc.env.Defs[ent.def].Name, DefIdx: ent.def, Env: sc.env.Lines(),
					Op: fmt.Sprintf("unmarshal(marshal %d %s)", ent.def, session.Abbrev(regen(), 3000)), Expected: "the value decoded under options " + pkgbuild.OptionsFromBits(bits[0]).String(),
					Observed: "a different value under options " + pkgbuild.OptionsFromBits(b).String()})
				break
			}
		}
		s.dist("outcome", outcome)
		if len(s.Samples) < 3 {
			s.Samples = append(s.Samples, session.Abbrev(fmt.Sprintf("%s %s round %d: %d option sets, %s: V=%s", ent.schema, sc.env.Defs[ent.def].Name, ent.round, len(bits), outcome, regen()), 500))
		}
	}
	e.coll.merge(st)
}

func die(format string, args ...interface{}) {
	fmt.Fprintf(os.Stderr, "wire: "+format+"\n", args...)
	os.Exit(2)
}

func main() {
	seed := flag.Int64("seed", 1, "random seed")
	tier := flag.String("tier", "quick", "quick|thorough")
	model := flag.String("model", "", "path of the bebop-model binary, optionally followed by arguments (empty or missing: run without the model)")
	work := flag.String("work", "/verif/.work/wire", "work directory (packages are emitted under <work>/pkgs)")
	out := flag.String("out", "", "results file (default <work>/results.json)")
	propsFlag := flag.String("props", "", "comma separated properties (default all)")
	keep := flag.Bool("keep", false, "keep the emitted packages")
	budgetFlag := flag.Duration("budget", 0, "wall-clock budget of the run (default 110s quick, 560s thorough)")
	floatKeys := flag.Bool("floatkeys", true, "also generate map[float, container] shapes (decoded wrongly under NaN keys before fix 07924b4)")
	_ = flag.String("repo", "/repo", "repository root (the harness module replaces github.com/200sc/bebop with /repo)")
	replay := flag.String("replay", "", "re-run the single case of a failure record (JSON file) against the current tree")
	flag.Parse()
	if *replay != "" {
		os.Exit(replayCase(*replay, *model, *work))
	}
	if *tier != "quick" && *tier != "thorough" {
		die("unknown tier %q", *tier)
	}
	if *out == "" {
		*out = filepath.Join(*work, "results.json")
	}
	e := &engine{seed: *seed, tier: *tier, props: map[string]bool{}, c09: map[string]*c09entry{}, start: time.Now(),
		opTimeout: 4 * time.Second, mdlTimeout: 30 * time.Second}
	var propList []string
	if *propsFlag == "" {
		propList = AllProps
	} else {
		for _, p := range strings.Split(*propsFlag, ",") {
			p = strings.TrimSpace(p)
			ok := false
			for _, a := range AllProps {
				ok = ok || a == p
			}
			if !ok {
				die("unknown property %q (known: %s)", p, strings.Join(AllProps, ","))
			}
			propList = append(propList, p)
		}
	}
	for _, p := range propList {
		e.props[p] = true
	}
	e.coll = newCollector(propList)
	if *model != "" {
		if _, err := os.Stat(strings.Fields(*model)[0]); err != nil {
			fmt.Printf("wire: model %s not found: running WITHOUT the model (oracle checks only)\n", *model)
		} else {
			e.modelPath = *model
		}
	}
	if err := os.MkdirAll(*work, 0o755); err != nil {
		die("%v", err)
	}
	var err error
	e.builder, err = pkgbuild.NewBuilder(filepath.Join(*work, "pkgs"), runtime.NumCPU())
	if err != nil {
		die("%v", err)
	}
	if !*keep {
		defer e.builder.Cleanup()
	}

	// ---- plan ----
	rng := rand.New(rand.NewSource(*seed))
	budget := 150 * time.Second
	nRandom, nPairs := 1, 0
	var gridSets, randSets, pairSets []pkgbuild.Options
	pick2 := func() []pkgbuild.Options {
		a := 1 + rng.Intn(30)
		b := 1 + rng.Intn(30)
		for b == a {
			b = 1 + rng.Intn(30)
		}
		return []pkgbuild.Options{pkgbuild.OptionsFromBits(a), pkgbuild.OptionsFromBits(b)}
	}
	base := append([]pkgbuild.Options{pkgbuild.OptionsFromBits(0), pkgbuild.OptionsFromBits(31)}, pick2()...)
	e.rounds, e.corruptions, e.hugePercent, e.maxHeavyLen, e.fullCutLen = 100000, 5, 10, 4096, 256
	e.pairRounds = 200
	e.maxBad = 40
	if *tier == "quick" {
		gridSets, randSets, pairSets = base, base, base[:2]
	} else {
		budget = 560 * time.Second
		nRandom, nPairs = 10, 3
		for m := 0; m < 32; m++ {
			gridSets = append(gridSets, pkgbuild.OptionsFromBits(m))
		}
		randSets, pairSets = base, base
		e.corruptions, e.hugePercent = 8, 15
		e.pairRounds = 800
		e.maxBad = 80
	}
	if *budgetFlag > 0 {
		budget = *budgetFlag
	}
	cases := map[string]*schemaCase{}
	var jobs []job
	addPlain := func(sc *schemaCase, sets []pkgbuild.Options) {
		cases[sc.id] = sc
		for _, o := range sets {
			jobs = append(jobs, job{kind: "plain", sc: sc, opts: o})
		}
	}
	gcfg := schema.Config{FloatKeyContainers: *floatKeys}
	for i, g := range schema.Grid(schema.GridOptions{FloatKeyContainers: *floatKeys}) {
		addPlain(newSchemaCase(fmt.Sprintf("grid%d", i), g), gridSets)
	}
	// the same shapes over enums of an imported file: two-file packages, generated separately; private
	// definitions cannot be named from another package, so those option sets do not apply
	var impSets []pkgbuild.Options
	for _, o := range gridSets {
		if !o.Private {
			impSets = append(impSets, o)
		}
	}
	if *tier == "quick" {
		impSets = []pkgbuild.Options{pkgbuild.OptionsFromBits(0), pkgbuild.OptionsFromBits(23)} // none; every option but private
	}
	addPlain(newSchemaCase("gridimp", schema.GridImported(schema.GridOptions{FloatKeyContainers: *floatKeys})), impSets)
	dirSets := impSets
	if *tier == "quick" {
		dirSets = impSets[len(impSets)-1:]
	}
	addPlain(newSchemaCase("impdirect", schema.GridImportedDirect()), dirSets)
	for i := 0; i < nRandom; i++ {
		c := gcfg
		if i%3 == 1 {
			c.Records, c.MaxFields = 20, 8
		}
		addPlain(newSchemaCase(fmt.Sprintf("rand%d", i), schema.Random(rng, c)), randSets)
	}
	addPair := func(id string, v1 schema.File, prob, undep float64, sets []pkgbuild.Options) {
		v2, _ := schema.Evolve(rng, v1, schema.EvolveConfig{Prob: prob, Undeprecate: undep, Gen: gcfg})
		s1, s2 := newSchemaCase(id+"v1", v1), newSchemaCase(id+"v2", v2)
		cases[s1.id], cases[s2.id] = s1, s2
		for _, o := range sets {
			jobs = append(jobs, job{kind: "pair", sc: s1, sc2: s2, opts: o})
		}
	}
	if e.props["C04"] {
		// the evolved message defined in an imported file (two-file packages, generated separately; no private sets)
		{
			v1, v2 := schema.EvolveImportedPair()
			s1, s2 := newSchemaCase("evoimpv1", v1), newSchemaCase("evoimpv2", v2)
			cases[s1.id], cases[s2.id] = s1, s2
			for _, o := range impSets[len(impSets)-1:] {
				jobs = append(jobs, job{kind: "pair", sc: s1, sc2: s2, opts: o})
			}
		}
		addPair("evobase", schema.EvolveBase(), 1, -1, pairSets) // Ev.c is live in v2 (the peer still sends it), Ev.d stays deprecated
		for i := 0; i < nPairs; i++ {
			addPair(fmt.Sprintf("evorand%d", i), schema.Random(rng, gcfg), 0.8, 0.6, pairSets[:2])
		}
	}

	// ---- run ----
	slots := runtime.NumCPU() * 3 / 2
	waves := (len(jobs) + slots - 1) / slots
	buildReserve := 25 * time.Second
	if *tier == "thorough" {
		buildReserve = 70 * time.Second
	}
	jobBudget := (budget - buildReserve) / time.Duration(waves)
	if jobBudget < 5*time.Second {
		jobBudget = 5 * time.Second
	}
	fmt.Printf("wire: seed %d tier %s: %d jobs (%d schemas), %d slots, %s per job, model=%q\n", *seed, *tier, len(jobs), len(cases), slots, jobBudget.Round(time.Second), e.modelPath)
	sem := make(chan struct{}, slots)
	var wg sync.WaitGroup
	for ji, j := range jobs {
		wg.Add(1)
		sem <- struct{}{}
		go func(ji int, j job) {
			defer wg.Done()
			defer func() { <-sem }()
			defer func() {
				if r := recover(); r != nil {
					e.note("job %d (%s %s) panicked in the engine: %v", ji, j.kind, j.sc.id, r)
				}
			}()
			js := *seed*1000003 + int64(ji)
			if j.kind == "plain" {
				e.runPlain(j, jobBudget, js)
			} else {
				e.runPair(j, jobBudget, js)
			}
		}(ji, j)
	}
	wg.Wait()
	e.c09finish(cases)

	// ---- results ----
	stats, failures := e.coll.finish()
	sort.Slice(e.pkgs, func(i, k int) bool { return e.pkgs[i].ID < e.pkgs[k].ID })
	if e.notes == nil {
		e.notes = []string{}
	}
	if failures == nil {
		failures = []Failure{}
	}
	res := map[string]interface{}{
		"engine": "wire", "seed": *seed, "tier": *tier, "model": e.modelPath,
		"elapsed_seconds": time.Since(e.start).Seconds(),
		"packages":        e.pkgs, "stats": stats, "failures": failures, "notes": e.notes,
	}
	data, err := json.MarshalIndent(res, "", " ")
	if err != nil {
		die("encoding results: %v", err)
	}
	if err := os.WriteFile(*out, data, 0o644); err != nil {
		die("writing results: %v", err)
	}
	for _, p := range propList {
		s := stats[p]
		kinds := []string{}
		for k, n := range s.FailuresByKind {
			kinds = append(kinds, fmt.Sprintf("%s=%d", k, n))
		}
		sort.Strings(kinds)
		fmt.Printf("%s: evaluations=%d distinct=%d model_compared=%d failures=%d %s\n", p, s.Evaluations, s.DistinctNontrivial, s.ModelCompared, s.FailuresTotal, strings.Join(kinds, " "))
	}
	nbuilt := 0
	for _, p := range e.pkgs {
		if p.BuildOK {
			nbuilt++
		}
	}
	fmt.Printf("wire: %d/%d packages built, %d failure records kept, %.0fs, results in %s\n", nbuilt, len(e.pkgs), len(failures), time.Since(e.start).Seconds(), *out)
	for _, n := range e.notes {
		fmt.Println("note:", n)
	}
}
