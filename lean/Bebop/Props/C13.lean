/-
  C13 — File.Validate accepts no schema that has a semantic error.

  `validate f` (Bebop.Text.Validate) models File.Validate, the gate every schema passes before any Go text is
  generated; `hasSemErr f cls` is the Spec of "the file has a semantic error of class `cls`".

  Proved for ALL files: if `validate f = .ok` then `f` has
  * no two definitions with the same name, no definition named like a primitive type,
  * no two constants with the same name, no struct / message with two fields of the same name,
  * no enum with two options of the same name or of the same value,
  * no two definitions with the same non-zero opcode,
  * no struct or message field whose type is undefined.

  Infinite (self-containing) structs: `validate` computes a transitive closure of "struct a uses type b" by
  a fuel-bounded fixpoint and rejects if some struct uses itself. `C13_no_infinite_struct_partial` proves the
  exclusion for every file on which the computed table is closed under one more sweep (`closureStable f`,
  a decidable certificate). `C13_closure_stable` proves that the certificate holds for EVERY file (the fuel
  `bound` of the loop always suffices), which gives the unconditional `C13_no_infinite_struct` and the
  ten-class statement `C13_validate_ok_no_sem_err`.

  Direction: only "accepted ⇒ no semantic error" is proved. The converse (every rejected file has one of
  these errors) is not claimed: `validate` also rejects e.g. two union branches with the same name, and a
  struct that reaches itself through an array or map (`usedTypesFT` looks inside them, `directlyContains`
  does not), neither of which is a `SemErr` class of the Spec.
-/
import Bebop.Proofs.Validate

namespace Bebop.Text

theorem C13_no_dup_def_name (f : File) (h : validate f = .ok) : hasSemErr f .dupDefName = false := by
  have hs := validate_ok_summary f h
  simp only [hasSemErr]
  exact (dupIn_eq_false_iff _).2 hs.2.1

theorem C13_no_primitive_name (f : File) (h : validate f = .ok) : hasSemErr f .primitiveName = false := by
  have hs := validate_ok_summary f h
  simp only [hasSemErr]
  rw [Bool.eq_false_iff]
  intro hany
  obtain ⟨n, hn, hp⟩ := List.any_eq_true.1 hany
  rw [hs.2.2.1 n hn] at hp
  cases hp

theorem C13_no_dup_const_name (f : File) (h : validate f = .ok) : hasSemErr f .dupConstName = false :=
  (validate_ok_summary f h).1

theorem C13_no_dup_field_name (f : File) (h : validate f = .ok) : hasSemErr f .dupFieldName = false := by
  obtain ⟨_, _, _, _, hst, hms, _⟩ := validate_ok_summary f h
  simp only [hasSemErr]
  rw [Bool.eq_false_iff]
  intro hany
  rcases Bool.or_eq_true_iff.1 hany with h1 | h1
  · obtain ⟨s, hs, hd⟩ := List.any_eq_true.1 h1
    rw [hst s hs] at hd
    cases hd
  · obtain ⟨m, hm, hd⟩ := List.any_eq_true.1 h1
    rw [hms m hm] at hd
    cases hd

theorem C13_no_dup_option_name (f : File) (h : validate f = .ok) : hasSemErr f .dupOptionName = false := by
  obtain ⟨_, _, _, hen, _⟩ := validate_ok_summary f h
  simp only [hasSemErr]
  rw [Bool.eq_false_iff]
  intro hany
  obtain ⟨e, he, hd⟩ := List.any_eq_true.1 hany
  rw [(hen e he).1] at hd
  cases hd

theorem C13_no_dup_option_value (f : File) (h : validate f = .ok) : hasSemErr f .dupOptionValue = false := by
  obtain ⟨_, _, _, hen, _⟩ := validate_ok_summary f h
  simp only [hasSemErr]
  rw [Bool.eq_false_iff]
  intro hany
  obtain ⟨e, he, hd⟩ := List.any_eq_true.1 hany
  rw [(hen e he).2] at hd
  cases hd

theorem C13_no_dup_opcode (f : File) (h : validate f = .ok) : hasSemErr f .dupOpCode = false := by
  obtain ⟨_, _, _, _, _, _, hops, _⟩ := validate_ok_summary f h
  simp only [hasSemErr]
  exact (dupIn_eq_false_iff _).2 hops

theorem C13_no_undefined_struct_field_type (f : File) (h : validate f = .ok) :
    hasSemErr f .undefinedStructFieldType = false := by
  obtain ⟨_, _, _, _, _, _, _, ht, _⟩ := validate_ok_summary f h
  simp only [hasSemErr]
  rw [Bool.eq_false_iff]
  intro hany
  obtain ⟨s, hs, h1⟩ := List.any_eq_true.1 hany
  obtain ⟨fd, hfd, h2⟩ := List.any_eq_true.1 h1
  have := List.all_eq_true.1 (List.all_eq_true.1 ht s hs) fd hfd
  rw [this] at h2
  cases h2

theorem C13_no_undefined_message_field_type (f : File) (h : validate f = .ok) :
    hasSemErr f .undefinedMessageFieldType = false := by
  obtain ⟨_, _, _, _, _, _, _, _, ht, _⟩ := validate_ok_summary f h
  simp only [hasSemErr]
  rw [Bool.eq_false_iff]
  intro hany
  obtain ⟨m, hm, h1⟩ := List.any_eq_true.1 hany
  obtain ⟨p, hp, h2⟩ := List.any_eq_true.1 h1
  have := List.all_eq_true.1 (List.all_eq_true.1 ht m hm) p hp
  rw [this] at h2
  cases h2

/-- A schema that File.Validate accepts has none of the nine order-independent semantic errors. -/
theorem C13_validate_ok_excludes (f : File) (h : validate f = .ok) :
    hasSemErr f .dupDefName = false ∧ hasSemErr f .primitiveName = false ∧ hasSemErr f .dupConstName = false ∧
    hasSemErr f .dupFieldName = false ∧ hasSemErr f .dupOptionName = false ∧ hasSemErr f .dupOptionValue = false ∧
    hasSemErr f .dupOpCode = false ∧ hasSemErr f .undefinedStructFieldType = false ∧
    hasSemErr f .undefinedMessageFieldType = false :=
  ⟨C13_no_dup_def_name f h, C13_no_primitive_name f h, C13_no_dup_const_name f h, C13_no_dup_field_name f h,
   C13_no_dup_option_name f h, C13_no_dup_option_value f h, C13_no_dup_opcode f h,
   C13_no_undefined_struct_field_type f h, C13_no_undefined_message_field_type f h⟩

/-- Struct names of an accepted file are pairwise different (a consequence of `dupDefName`). -/
theorem C13_struct_names_distinct (f : File) (h : validate f = .ok) : dupIn (f.structs.map (·.name)) = false := by
  have hn := (validate_ok_summary f h).2.1
  rw [dupIn_eq_false_iff]
  simp only [defNames, List.nodup_append] at hn
  exact hn.1.1.2.1

/-- An accepted file whose computed usage closure is stable (`closureStable`, decidable) has no struct that
    contains itself, directly or through other structs. The hypothesis `hn` of the requested statement is not
    needed (and is `C13_struct_names_distinct` anyway). -/
theorem C13_no_infinite_struct_of_stable (f : File) (h : validate f = .ok) (hs : closureStable f = true) :
    hasSemErr f .infiniteStruct = false := by
  rw [closureStable_eq, Bool.and_eq_true] at hs
  have hst := stableB_sound _ hs.1
  have hex := extendsB_sound _ _ hs.2
  have hcl := (validate_ok_summary f h).2.2.2.2.2.2.2.2.2
  have hno : ∀ p ∈ closureOf f, p.1 ∉ p.2 := by
    intro p hp hin
    have : (closureOf f).any (fun p => p.2.contains p.1) = true :=
      List.any_eq_true.2 ⟨p, hp, by simpa using hin⟩
    rw [hcl] at this
    cases this
  simp only [hasSemErr]
  rw [Bool.eq_false_iff]
  intro hany
  obtain ⟨s, _, hr⟩ := List.any_eq_true.1 hany
  rw [reachesSelf_false f (closureOf f) hst hex hno] at hr
  cases hr

/-- The conditional form (with the redundant hypothesis `hn`), kept for reference: it does not depend on the
    fuel argument. Both hypotheses `hs` and `hn` are discharged for every file by `C13_closure_stable` and
    `C13_struct_names_distinct`; the unconditional statement is `C13_no_infinite_struct` below. -/
theorem C13_no_infinite_struct_partial (f : File) (h : validate f = .ok) (hs : closureStable f = true)
    (_hn : dupIn (f.structs.map (·.name)) = false) : hasSemErr f .infiniteStruct = false :=
  C13_no_infinite_struct_of_stable f h hs


/-- The fuel of the usage fixpoint always suffices: for every file the computed table is closed under one
    more sweep and extends the direct-usage table. -/
theorem C13_closure_stable (f : File) : closureStable f = true := closureStable_always f

/-- An accepted file has no struct that contains itself, directly or through other structs. -/
theorem C13_no_infinite_struct (f : File) (h : validate f = .ok) : hasSemErr f .infiniteStruct = false :=
  C13_no_infinite_struct_of_stable f h (C13_closure_stable f)

/-- A schema that File.Validate accepts has no semantic error of any class of the Spec. -/
theorem C13_validate_ok_no_sem_err (f : File) (h : validate f = .ok) (cls : SemErr) : hasSemErr f cls = false := by
  obtain ⟨h1, h2, h3, h4, h5, h6, h7, h8, h9⟩ := C13_validate_ok_excludes f h
  cases cls
  · exact h1
  · exact h2
  · exact h3
  · exact h4
  · exact h5
  · exact h6
  · exact h7
  · exact h8
  · exact h9
  · exact C13_no_infinite_struct f h

/-! ### Non-vacuity -/

private def exField (ft : FT) (n : String) : Field :=
  { ft := ft, name := strOf n, comment := [], tags := [], depMsg := [], deprecated := false }

/-- `struct A { int32 x; }  message B { 1 -> A[] a; }` with opcodes 1 and 2. -/
private def exGood : File :=
  { structs := [{ name := strOf "A", fields := [exField (.simple (strOf "int32")) "x"], opCode := 1 }],
    messages := [{ name := strOf "B", fields := [(1, exField (.arr (.simple (strOf "A"))) "a")], opCode := 2 }] }

/-- `struct A { B b; }  struct B { A a; }` -/
private def exLoop : File :=
  { structs := [{ name := strOf "A", fields := [exField (.simple (strOf "B")) "b"] },
                { name := strOf "B", fields := [exField (.simple (strOf "A")) "a"] }] }

/-- the hypothesis `validate f = .ok` is satisfiable … -/
example : validate exGood = .ok := by rfl
/-- … and `validate` does reject: the Spec sees the cycle and so does the model. -/
example : hasSemErr exLoop .infiniteStruct = true ∧ (validate exLoop == .ok) = false := by
  constructor <;> rfl

end Bebop.Text
