// Command purity is the correspondence engine for property C14 (built with -race): ReadFile, Validate,
// Generate and Format are repeated and run concurrently on shared inputs; outputs must be byte-identical,
// the File handed in must be unchanged (including the spare capacity of its slices, which is filled with
// sentinels), and the race detector must stay silent.
package main

import (
	"bytes"
	"crypto/sha256"
	"encoding/hex"
	"encoding/json"
	"flag"
	"fmt"
	"math/rand"
	"os"
	"os/exec"
	"path/filepath"
	"strconv"
	"strings"
	"sync"
	"time"

	"github.com/200sc/bebop"
	"verif/harness/internal/filedump"
	"verif/harness/internal/proc"
)

type failure struct {
	Property string `json:"property"`
	Kind     string `json:"kind"`
	Class    string `json:"class"`
	Text     string `json:"text"`
	TextHex  string `json:"text_hex"`
	Op       string `json:"op"`
	Expected string `json:"expected"`
	Observed string `json:"observed"`
	Note     string `json:"note"`
}

type stat struct {
	Evaluations        int            `json:"evaluations"`
	DistinctNontrivial int            `json:"distinct_nontrivial"`
	Rule               string         `json:"rule"`
	Samples            []string       `json:"samples"`
	Distribution       map[string]int `json:"distribution"`
	FailuresTotal      int            `json:"failures_total"`
}

var (
	st       = stat{Distribution: map[string]int{}}
	fails    = []failure{}
	distinct = map[string]struct{}{}
	mu       sync.Mutex
)

func fail(kind, class string, text []byte, op, exp, obs, note string) {
	mu.Lock()
	defer mu.Unlock()
	st.FailuresTotal++
	if len(fails) < 200 {
		t := text
		if len(t) > 500 {
			t = t[:500]
		}
		fails = append(fails, failure{"C14", kind, class, fmt.Sprintf("%q", t), hex.EncodeToString(text), op, abbrev(exp), abbrev(obs), note})
	}
}

func abbrev(s string) string {
	if len(s) > 400 {
		return s[:400] + "…"
	}
	return s
}

func count(class, key string) {
	mu.Lock()
	st.Evaluations++
	st.Distribution[class]++
	distinct[class+"/"+key] = struct{}{}
	mu.Unlock()
}

var freshPerClass = 6

var optionSets = []bebop.GenerateSettings{
	{PackageName: "p"},
	{PackageName: "p", GenerateUnsafeMethods: true, SharedMemoryStrings: true, GenerateFieldTags: true, PrivateDefinitions: true, AlwaysUsePointerReceivers: true},
	{PackageName: "p", GenerateFieldTags: true},
}

var (
	workDir    string
	freshCount = map[string]int{}
)

func outcomeHash(out string, err error) string {
	if err != nil {
		// the error text may span lines and end in white space: compare its hash
		eh := sha256.Sum256([]byte(err.Error()))
		return "ERR " + hex.EncodeToString(eh[:])
	}
	h := sha256.Sum256([]byte(out))
	return "OK " + hex.EncodeToString(h[:])
}

// runOneshot is the child side of freshProcess.
func runOneshot(arg string) {
	t := strings.Split(arg, "|")
	if len(t) != 4 {
		fmt.Println("ERR bad oneshot argument")
		return
	}
	text, err := os.ReadFile(t[0])
	if err != nil {
		fmt.Println("ERR", err)
		return
	}
	mode, _ := strconv.Atoi(t[2])
	oi, _ := strconv.Atoi(t[3])
	f, _, err := bebop.ReadFile(bytes.NewReader(text))
	if err != nil {
		fmt.Println("ERR", err)
		return
	}
	f.FileName = t[1]
	gs := optionSets[oi]
	gs.ImportGenerationMode = bebop.ImportGenerationMode(mode)
	fmt.Println(outcomeHash(generate(f, gs)))
}

// runOneshotConc is the child side of freshProcessConc: the FIRST calls of the process are made by several
// goroutines at once (tables built lazily on first use, without a lock, are only ever exposed like this: any
// earlier sequential call hides them). Prints the common outcome hash, or DIFF.
func runOneshotConc(arg string) {
	t := strings.Split(arg, "|")
	if len(t) != 4 {
		fmt.Println("ERR bad oneshot argument")
		return
	}
	text, err := os.ReadFile(t[0])
	if err != nil {
		fmt.Println("ERR", err)
		return
	}
	mode, _ := strconv.Atoi(t[2])
	oi, _ := strconv.Atoi(t[3])
	gs := optionSets[oi]
	gs.ImportGenerationMode = bebop.ImportGenerationMode(mode)
	const n = 16
	outs := make([]string, n)
	start := make(chan struct{})
	var wg sync.WaitGroup
	for w := 0; w < n; w++ {
		wg.Add(1)
		go func(w int) {
			defer wg.Done()
			<-start
			if w%4 == 3 {
				_ = bebop.Format(bytes.NewReader(text), new(bytes.Buffer))
			}
			f, _, err := bebop.ReadFile(bytes.NewReader(text))
			if err != nil {
				outs[w] = "ERR " + err.Error()
				return
			}
			f.FileName = t[1]
			outs[w] = outcomeHash(generate(f, gs))
		}(w)
	}
	close(start)
	wg.Wait()
	for _, o := range outs {
		if o != outs[0] {
			fmt.Println("DIFF", outs[0], o)
			return
		}
	}
	fmt.Println(outs[0])
}

// freshProcessConc: as freshProcess, with the first calls concurrent. died != "" when the child crashed (a data
// race report of the race detector, "concurrent map read and map write", a panic).
func freshProcessConc(text []byte, fileName string, mode bebop.ImportGenerationMode, oi int) (got string, ok bool, died string) {
	if workDir == "" {
		return "", false, ""
	}
	os.MkdirAll(workDir, 0o755)
	tf, err := os.CreateTemp(workDir, "oneshotc*.bop")
	if err != nil {
		return "", false, ""
	}
	defer os.Remove(tf.Name())
	tf.Write(text)
	tf.Close()
	cmd := exec.Command(os.Args[0], "-oneshotc", fmt.Sprintf("%s|%s|%d|%d", tf.Name(), fileName, int(mode), oi))
	var stderr bytes.Buffer
	cmd.Stderr = &stderr
	out, err := cmd.Output()
	if err != nil {
		if _, isExit := err.(*exec.ExitError); isExit {
			msg := strings.TrimSpace(stderr.String())
			if len(msg) > 600 {
				msg = msg[:600]
			}
			return "", true, fmt.Sprintf("%v: %s", err, msg)
		}
		return "", false, ""
	}
	return strings.TrimSpace(string(out)), true, ""
}

// freshProcess runs the same Generate call as the FIRST call of a new process and returns its outcome hash:
// "a function of its input alone" excludes what the process generated before (tables built once, caches).
func freshProcess(text []byte, fileName string, mode bebop.ImportGenerationMode, oi int) (string, bool) {
	if workDir == "" {
		return "", false
	}
	os.MkdirAll(workDir, 0o755)
	tf, err := os.CreateTemp(workDir, "oneshot*.bop")
	if err != nil {
		return "", false
	}
	defer os.Remove(tf.Name())
	tf.Write(text)
	tf.Close()
	cmd := exec.Command(os.Args[0], "-oneshot", fmt.Sprintf("%s|%s|%d|%d", tf.Name(), fileName, int(mode), oi))
	out, err := cmd.Output()
	if err != nil {
		return "", false
	}
	return strings.TrimSpace(string(out)), true
}

func generate(f bebop.File, gs bebop.GenerateSettings) (string, error) {
	var b bytes.Buffer
	err := f.Generate(&b, gs)
	return b.String(), err
}

// padded returns a copy of f whose slices have spare capacity filled with sentinel definitions.
func padded(f bebop.File) bebop.File {
	g := f
	s := make([]bebop.Struct, len(f.Structs), len(f.Structs)+4)
	copy(s, f.Structs)
	for i := len(s); i < cap(s); i++ {
		s[:cap(s)][i] = bebop.Struct{Name: "SENTINEL"}
	}
	g.Structs = s
	m := make([]bebop.Message, len(f.Messages), len(f.Messages)+4)
	copy(m, f.Messages)
	for i := len(m); i < cap(m); i++ {
		m[:cap(m)][i] = bebop.Message{Name: "SENTINEL"}
	}
	g.Messages = m
	e := make([]bebop.Enum, len(f.Enums), len(f.Enums)+4)
	copy(e, f.Enums)
	for i := len(e); i < cap(e); i++ {
		e[:cap(e)][i] = bebop.Enum{Name: "SENTINEL"}
	}
	g.Enums = e
	u := make([]bebop.Union, len(f.Unions), len(f.Unions)+4)
	copy(u, f.Unions)
	for i := len(u); i < cap(u); i++ {
		u[:cap(u)][i] = bebop.Union{Name: "SENTINEL"}
	}
	g.Unions = u
	c := make([]bebop.Const, len(f.Consts), len(f.Consts)+4)
	copy(c, f.Consts)
	for i := len(c); i < cap(c); i++ {
		c[:cap(c)][i] = bebop.Const{Name: "SENTINEL"}
	}
	g.Consts = c
	return g
}

func sentinelsIntact(f bebop.File) string {
	for i := len(f.Structs); i < cap(f.Structs); i++ {
		if f.Structs[:cap(f.Structs)][i].Name != "SENTINEL" {
			return "Structs spare capacity overwritten with " + f.Structs[:cap(f.Structs)][i].Name
		}
	}
	for i := len(f.Messages); i < cap(f.Messages); i++ {
		if f.Messages[:cap(f.Messages)][i].Name != "SENTINEL" {
			return "Messages spare capacity overwritten with " + f.Messages[:cap(f.Messages)][i].Name
		}
	}
	for i := len(f.Enums); i < cap(f.Enums); i++ {
		if f.Enums[:cap(f.Enums)][i].Name != "SENTINEL" {
			return "Enums spare capacity overwritten with " + f.Enums[:cap(f.Enums)][i].Name
		}
	}
	for i := len(f.Unions); i < cap(f.Unions); i++ {
		if f.Unions[:cap(f.Unions)][i].Name != "SENTINEL" {
			return "Unions spare capacity overwritten with " + f.Unions[:cap(f.Unions)][i].Name
		}
	}
	for i := len(f.Consts); i < cap(f.Consts); i++ {
		if f.Consts[:cap(f.Consts)][i].Name != "SENTINEL" {
			return "Consts spare capacity overwritten with " + f.Consts[:cap(f.Consts)][i].Name
		}
	}
	return ""
}

// checkSchema runs all purity oracles on one accepted schema text; dir: where imports resolve.
func checkSchema(class string, text []byte, fileName string, modes []bebop.ImportGenerationMode, reps, workers int) {
	key := hex.EncodeToString(text)
	parse := func() (bebop.File, error) {
		f, _, err := bebop.ReadFile(bytes.NewReader(text))
		f.FileName = fileName
		return f, err
	}
	f0, err := parse()
	if err != nil {
		return
	}
	base := filedump.File(f0)
	// ReadFile and Format are functions of the text alone
	fmt0 := new(bytes.Buffer)
	_ = bebop.Format(bytes.NewReader(text), fmt0)
	for i := 0; i < reps; i++ {
		f, _ := parse()
		if d := filedump.File(f); d != base {
			fail("oracle", class, text, "ReadFile", base, d, "two ReadFile calls on the same text differ")
		}
		b := new(bytes.Buffer)
		_ = bebop.Format(bytes.NewReader(text), b)
		if !bytes.Equal(b.Bytes(), fmt0.Bytes()) {
			fail("oracle", class, text, "Format", fmt0.String(), b.String(), "two Format calls on the same text differ")
		}
	}
	count(class+"/readfile+format", key)
	for _, mode := range modes {
		for oi, gs := range optionSets {
			gs.ImportGenerationMode = mode
			shared := padded(f0)
			shared.FileName = fileName
			ref, refErr := generate(shared, gs)
			refV := shared.Validate()
			// repeated calls
			for i := 0; i < reps; i++ {
				out, err := generate(shared, gs)
				if (err == nil) != (refErr == nil) {
					fail("oracle", class, text, "Generate", fmt.Sprint(refErr), fmt.Sprint(err), "Generate succeeds on one call and fails on another")
				} else if err == nil && out != ref {
					fail("oracle", class, text, "Generate", firstLineDiff(ref, out), "", "regenerating an unchanged schema produced a diff (map iteration order?)")
				} else if err != nil && err.Error() != refErr.Error() {
					fail("oracle", "error-text", text, "Generate", refErr.Error(), err.Error(), "the error text of Generate differs between calls")
				}
				v := shared.Validate()
				if (v == nil) != (refV == nil) {
					fail("oracle", class, text, "Validate", fmt.Sprint(refV), fmt.Sprint(v), "Validate verdict differs between calls")
				} else if v != nil && v.Error() != refV.Error() {
					fail("oracle", "error-text", text, "Validate", refV.Error(), v.Error(), "the error text of Validate differs between calls")
				}
			}
			// the same call as the first one of a fresh process (a bounded number of schemas per class: a process each)
			if fk := fmt.Sprintf("%s/%d/%d", class, mode, oi); freshCount[fk] < freshPerClass {
				freshCount[fk]++
				if got, ok := freshProcess(text, fileName, mode, oi); ok {
					if want := outcomeHash(ref, refErr); got != want {
						fail("oracle", class, text, "Generate (fresh process)", want, got, fmt.Sprintf("option set %d, mode %d: the result depends on what the process generated before", oi, mode))
					}
					count(class+"/fresh-process", key+fk)
				}
				if got, ok, died := freshProcessConc(text, fileName, mode, oi); ok {
					if want := outcomeHash(ref, refErr); died != "" {
						fail("oracle", class, text, "ReadFile / Format / Generate as the first calls of a process, from 16 goroutines", want, died, "the process died: the first use of the package is not safe for concurrent callers")
					} else if got != want {
						fail("oracle", class, text, "ReadFile / Format / Generate as the first calls of a process, from 16 goroutines", want, got, "concurrent first calls gave a different result")
					}
					count(class+"/fresh-process-concurrent", key+fk)
				}
			}
			// concurrent calls sharing one File value (the race detector watches)
			var wg sync.WaitGroup
			outs := make([]string, workers)
			for w := 0; w < workers; w++ {
				wg.Add(1)
				go func(w int) {
					defer wg.Done()
					switch w % 4 {
					case 0, 1:
						o, _ := generate(shared, gs)
						outs[w] = o
					case 2:
						_ = shared.Validate()
						outs[w] = ref
					case 3:
						b := new(bytes.Buffer)
						_ = bebop.Format(bytes.NewReader(text), b)
						outs[w] = ref
					}
				}(w)
			}
			wg.Wait()
			if refErr == nil {
				for w, o := range outs {
					if o != ref {
						fail("oracle", class, text, "Generate (concurrent)", firstLineDiff(ref, o), "", fmt.Sprintf("concurrent call %d returned a different result", w))
					}
				}
			}
			// the File handed in is unchanged
			if d := filedump.File(shared); d != base {
				fail("oracle", class, text, "Generate", base, d, "Generate / Validate changed the File they were given")
			}
			if s := sentinelsIntact(shared); s != "" {
				fail("oracle", class, text, "Generate", "caller's backing arrays untouched", s, "Generate wrote into the spare capacity of its caller's slices")
			}
			count(fmt.Sprintf("%s/generate/mode%d/opts%d", class, mode, oi), key)
		}
	}
}

func firstLineDiff(a, b string) string {
	x, y := strings.Split(a, "\n"), strings.Split(b, "\n")
	for i := 0; i < len(x) && i < len(y); i++ {
		if x[i] != y[i] {
			return fmt.Sprintf("line %d: %q vs %q", i+1, x[i], y[i])
		}
	}
	return fmt.Sprintf("lengths %d vs %d lines", len(x), len(y))
}

func main() {
	seed := flag.Int64("seed", 1, "")
	tier := flag.String("tier", "quick", "")
	modelPath := flag.String("model", "", "")
	work := flag.String("work", "/verif/.work/purity", "")
	repo := flag.String("repo", "/repo", "")
	out := flag.String("out", "", "")
	replay := flag.String("replay", "", "")
	oneshotc := flag.String("oneshotc", "", "internal: as -oneshot, the first calls made by 16 goroutines at once")
	oneshot := flag.String("oneshot", "", "internal: <schema file>|<file name for imports>|<mode>|<option set>: print the hash of ONE Generate call, the first of this process")
	flag.Parse()
	if *oneshotc != "" {
		runOneshotConc(*oneshotc)
		return
	}
	if *oneshot != "" {
		runOneshot(*oneshot)
		return
	}
	workDir = *work
	if *replay != "" {
		b, _ := os.ReadFile(*replay)
		var f failure
		_ = json.Unmarshal(b, &f)
		text, _ := hex.DecodeString(f.TextHex)
		fmt.Printf("replaying C14/%s\n", f.Class)
		checkSchema("replay", text, "", []bebop.ImportGenerationMode{bebop.ImportGenerationModeCombined}, 20, 8)
		for _, x := range fails {
			fmt.Printf("FAIL %s %s: %s\n  expected: %s\n  observed: %s\n", x.Kind, x.Op, x.Note, x.Expected, x.Observed)
		}
		if len(fails) > 0 {
			os.Exit(1)
		}
		fmt.Println("no failure on this input with the current tree (a data race would have aborted the run)")
		return
	}
	model := proc.Command([]string{*modelPath}, nil, 60*time.Second)
	defer model.Close()
	rng := rand.New(rand.NewSource(*seed))
	nGen, reps, workers := 25, 6, 8
	if *tier == "thorough" {
		nGen, reps, workers = 250, 12, 16
		freshPerClass = 40
	}
	both := []bebop.ImportGenerationMode{bebop.ImportGenerationModeSeparate, bebop.ImportGenerationModeCombined}
	// 1. generated schemas (every construct, random layouts), no imports
	for i := 0; i < nGen; i++ {
		r, err := model.Send(fmt.Sprintf("gen %d %d 0", *seed*104729+int64(i), 2+rng.Intn(6)))
		if err != nil {
			fmt.Fprintln(os.Stderr, "purity engine: model:", err)
			os.Exit(2)
		}
		parts := strings.SplitN(r, " ", 3)
		if len(parts) != 3 || parts[0] != "ok" {
			continue
		}
		text, _ := hex.DecodeString(strings.TrimPrefix(parts[1], "-"))
		checkSchema("generated", text, "", both[1:], reps, workers)
		if len(st.Samples) < 2 {
			t := text
			if len(t) > 200 {
				t = t[:200]
			}
			st.Samples = append(st.Samples, fmt.Sprintf("generated: %q", t))
		}
	}
	// 2. the repository's fixtures (with their imports resolved in place)
	for _, dir := range []string{"testdata/base", "testdata/incompatible"} {
		ents, _ := os.ReadDir(filepath.Join(*repo, dir))
		for _, e := range ents {
			if !strings.HasSuffix(e.Name(), ".bop") {
				continue
			}
			p := filepath.Join(*repo, dir, e.Name())
			b, err := os.ReadFile(p)
			if err != nil {
				continue
			}
			checkSchema("fixture", b, p, both, reps, workers)
		}
	}
	// 3. import graphs materialised on disk: imported definitions are appended inside Generate
	os.MkdirAll(*work, 0o755)
	dir, _ := os.MkdirTemp(*work, "imports")
	defer os.RemoveAll(dir)
	write := func(name, body string) string {
		p := filepath.Join(dir, name)
		os.WriteFile(p, []byte(body), 0o644)
		return p
	}
	write("b.bop", "const string go_package = \"example.com/x/b\";\nstruct B1 { int32 x; }\nstruct B2 { B1 b; }\nmessage BM { 1 -> B2 b; }\nenum BE { One = 1; }\nunion BU { 1 -> struct BUS { int32 y; } }\nconst int32 bc = 4;\n")
	write("c.bop", "import \"./b.bop\"\nconst string go_package = \"example.com/x/c\";\nstruct C1 { B1 b; int64 z; }\n")
	rootText := "import \"./b.bop\"\nimport \"./c.bop\"\nconst string go_package = \"example.com/x/a\";\nstruct A1 { B2 b; C1 c; BE e; }\nmessage AM { 1 -> BM m; 2 -> BU u; }\n"
	root := write("a.bop", rootText)
	checkSchema("imports", []byte(rootText), root, both, reps*2, workers)
	if len(st.Samples) < 3 {
		st.Samples = append(st.Samples, "imports: a.bop imports b.bop and c.bop (which imports b.bop); File padded with 4 sentinel definitions of spare capacity per slice")
	}

	st.DistinctNontrivial = len(distinct)
	st.Rule = "per accepted schema (generated with every construct; repository fixtures; an import diamond on disk) x 3 option sets x import modes: R repeated and W concurrent calls of ReadFile / Validate / Generate / Format on ONE shared File whose slices carry sentinel-filled spare capacity; outputs compared byte for byte, File dump and sentinels compared before/after; binary built with -race. distinct = distinct (class, schema, mode, option set)"
	res := map[string]interface{}{"engine": "purity", "seed": *seed, "tier": *tier,
		"stats": map[string]interface{}{"C14": st}, "failures": fails}
	b, _ := json.MarshalIndent(res, "", " ")
	if *out != "" {
		if err := os.WriteFile(*out, b, 0o644); err != nil {
			fmt.Fprintln(os.Stderr, err)
			os.Exit(2)
		}
	}
	fmt.Printf("C14: evaluations=%d distinct=%d failures=%d\n", st.Evaluations, st.DistinctNontrivial, st.FailuresTotal)
}
