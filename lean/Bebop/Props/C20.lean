/-
  C20 — iohelp primitives are exact inverses and never return stale data as valid.

  A w-byte primitive is its bit pattern `n < 256^w`; `leBytes` / `ofLe` model the unsafe little-endian
  stores / loads (that a `*(*uint32)(unsafe.Pointer(&b[0]))` is a little-endian load is a hardware fact
  observed by the correspondence run, not proved). `readN true` models a bounds-checked slice read,
  `sread` an io.ReadFull through the ErrorReader.
-/
import Bebop.Props.C01

namespace Bebop

/-- Read(Write(x)) = x for EVERY bit pattern of every width (NaN payloads included: floats are bits). -/
theorem C20_read_write (w n : Nat) (h : n < 256 ^ w) : ofLe (leBytes w n) = n := ofLe_leBytes w n h

/-- Write(Read(bs)) = bs for every byte string of the width. -/
theorem C20_write_read (bs : List Byte) : leBytes bs.length (ofLe bs) = bs := leBytes_ofLe bs

/-- The layout is little-endian: first byte = least significant. -/
theorem C20_little_endian (w n : Nat) : (leBytes (w+1) n).head? = some (UInt8.ofNat (n % 256)) := rfl

/-- GUIDs: the three regenerated index tables are the field-swapped .NET order and are mutually inverse. -/
theorem C20_guid_roundtrip (bs : List Byte) (h : bs.length = 16) :
    guidRead (guidWire bs) = bs ∧ guidWire (guidRead bs) = bs := by
  refine ⟨guidRead_guidWire bs h, ?_⟩
  match bs, h with
  | [b0, b1, b2, b3, b4, b5, b6, b7, b8, b9, b10, b11, b12, b13, b14, b15], _ =>
    simp [guidRead, guidWire, Facts.guidReadPerm, Facts.guidWritePerm]

theorem C20_guid_tables_agree :
    Facts.guidWritePerm = Facts.guidWriteStreamPerm ∧ Facts.guidWritePerm = guidSpecPerm ∧
    Facts.guidReadPerm = guidSpecPerm := by decide

/-- Dates: tick 0 and the zero time correspond, and every in-range tick count survives ×100 ÷100. -/
theorem C20_date_zero : dateNorm 0 = 0 := by decide
theorem C20_date_roundtrip (n : Nat) (h : dateOk n) : dateNorm n = n := dateNorm_of_ok n h

/-- ReadStringBytes returns an error instead of reading out of bounds: whenever the buffer is shorter
    than 4 + the declared length, the checked string read fails, and it never panics. -/
theorem C20_string_read_checked (env : Env) (f : Nat) (buf : List Byte) :
    (buf.length < 4 → dec (f+1) env true .str buf = .err) ∧
    (4 ≤ buf.length → buf.length < 4 + ofLe (buf.take 4) → dec (f+1) env true .str buf = .err) ∧
    dec (f+1) env true .str buf ≠ .panic := by
  refine ⟨?_, ?_, ?_⟩
  · intro h
    simp [dec, readU32, readN, show ¬ 4 ≤ buf.length by omega]
  · intro h4 h
    simp [dec, readU32, readN, h4, List.length_drop, show ¬ ofLe (buf.take 4) ≤ buf.length - 4 by omega]
  · have := (dec_adv_all env (f+1)).1 .str buf
    intro h; rw [h] at this; exact this

def zeroOf : Ty → Val
  | .bool => .scalar 1 0 | .scalar w => .scalar w 0 | .f32 => .scalar 4 0 | .f64 => .scalar 8 0
  | .date => .scalar 8 0 | .guid => .guid zeroGuid | .str => .str [] | _ => .scalar 0 0

/-- A stream read that fails is reflected in the reader's error state, and the value returned with it
    is the zero value — never bytes left over from an earlier read. -/
theorem C20_failed_read_is_zero_and_latched (env : Env) (f : Nat) (ty : Ty) (n : Nat)
    (hfx : fixedSize ty = some n) (s : RState) (h : s.avail < n) :
    sdec (f+1) env ty s = (.val (zeroOf ty), (sdec (f+1) env ty s).2) ∧ (sdec (f+1) env ty s).2.err = true := by
  have hr : ∀ m, m = n → sread m s = (none, { s.consume s.avail with err := true }) := by
    intro m hm; subst hm; simp [sread, show ¬ m ≤ s.avail by omega]
  cases ty <;> simp [fixedSize] at hfx
  all_goals subst hfx
  all_goals (simp only [sdec, zeroOf]; rw [hr _ rfl]; simp)

/-- Stream and byte-slice variants agree: on the same bytes they return the same value. -/
theorem C20_stream_slice_agree (env : Env) (f : Nat) (ty : Ty) (n : Nat) (hfx : fixedSize ty = some n)
    (bs rest : List Byte) (hb : bs.length = n) (s : RState) (hs : Reads s bs) :
    ∃ v, dec (f+1) env true ty (bs ++ rest) = .ok (v, rest) ∧ sdec (f+1) env ty s = (.val v, s.consume n) := by
  have h1 := readN_append' true n bs rest hb
  have h2 := sread_reads' s n bs hb hs
  cases ty <;> simp [fixedSize] at hfx
  all_goals subst hfx
  all_goals simp [dec, sdec, h1, h2, Facts.szBool, Facts.szFloat32, Facts.szFloat64, Facts.szDate, Facts.szGuid] at *
  all_goals simp [h1, h2]

/-- Non-vacuity: a NaN with a payload, and a stale-read scenario (2 bytes left, 8 wanted). -/
example : ofLe (leBytes 8 0x7ff8dead0000beef) = 0x7ff8dead0000beef := C20_read_write 8 _ (by decide)
example : (sdec 1 [] (.scalar 8) { data := [1, 2], limits := [], err := false }).2.err = true :=
  (C20_failed_read_is_zero_and_latched [] 0 (.scalar 8) 8 rfl _ (by decide)).2

end Bebop
