/-
  Tokenizer progress: `Next` never gives input back, never leaves `keepNextToken` set, and every call
  that returns true either clears `keepNextToken` or consumes at least one byte.  The measure is
  `mu t = 2 * |remaining input| + (1 if keepNextToken)`: `UnNext` raises it by one, a successful `Next`
  lowers it by one (keep) or by at least two (bytes).
-/
import Bebop.Proofs.Tokenizer

namespace Bebop.Text

/-- The tokenizer's progress measure. -/
def mu (t : TR) : Nat := 2 * t.inp.length + (if t.keep then 1 else 0)

theorem mu_keep_false {t : TR} (h : t.keep = false) : mu t = 2 * t.inp.length := by simp [mu, h]
theorem mu_keep_true {t : TR} (h : t.keep = true) : mu t = 2 * t.inp.length + 1 := by simp [mu, h]
theorem mu_unNext (t : TR) : mu { t with keep := true } = 2 * t.inp.length + 1 := by simp [mu]

/-- What every tokenizer helper guarantees: it gives no input back, and it does not touch `keep`. -/
structure Shr (t t' : TR) : Prop where
  len : t'.inp.length ≤ t.inp.length
  keep : t'.keep = t.keep

theorem Shr.rfl' (t : TR) : Shr t t := ⟨Nat.le_refl _, rfl⟩

theorem Shr.trans {a b c : TR} (h1 : Shr a b) (h2 : Shr b c) : Shr a c :=
  ⟨Nat.le_trans h2.len h1.len, by rw [h2.keep, h1.keep]⟩

theorem shr_addErr (t : TR) (e : TErr) : Shr t (addErr t e) := ⟨Nat.le_refl _, rfl⟩
theorem shr_setNext (t : TR) (tk : Token) : Shr t (setNext t tk) := ⟨Nat.le_refl _, rfl⟩

theorem shr_read {t : TR} {c : Byte} {rest : List Byte} (hi : t.inp = c :: rest) :
    Shr t { t with inp := rest, last := some c } := ⟨by simp [hi], rfl⟩

theorem shr_unread_after_read {t : TR} {c : Byte} {rest : List Byte} (hi : t.inp = c :: rest) :
    Shr t (unreadByte { t with inp := rest, last := some c }) := by
  simp only [unreadByte]
  exact ⟨by simp [hi], rfl⟩

theorem numberLoop_shr : ∀ (fuel : Nat) (t : TR) (conc : List Byte) (kind : TK) (a b c d : Bool),
    Shr t (numberLoop fuel t conc kind a b c d).2
  | 0, t, _, _, _, _, _, _ => by simp [numberLoop]; exact Shr.rfl' t
  | fuel+1, t, conc, kind, second, hex, decimal, invalidLast => by
    simp only [numberLoop]
    rcases readByte_cases t with ⟨c, rest, hi, hr⟩ | ⟨_, _, hr⟩ | ⟨_, _, hr⟩
    · rw [hr]
      have hstep : Shr t { t with inp := rest, last := some c } := shr_read hi
      simp only
      split
      · exact hstep.trans (numberLoop_shr fuel _ _ _ _ _ _ _)
      · split
        · split
          · exact hstep.trans (shr_addErr _ _)
          · exact hstep.trans (numberLoop_shr fuel _ _ _ _ _ _ _)
        · split
          · exact hstep.trans (numberLoop_shr fuel _ _ _ _ _ _ _)
          · split
            · exact hstep.trans (numberLoop_shr fuel _ _ _ _ _ _ _)
            · split
              · exact hstep.trans (numberLoop_shr fuel _ _ _ _ _ _ _)
              · split
                · exact hstep.trans (shr_addErr _ _)
                · exact (shr_unread_after_read hi).trans (shr_setNext _ _)
    · rw [hr]; simp only; split
      · exact shr_addErr _ _
      · exact Shr.rfl' t
    · rw [hr]; exact shr_addErr _ _

theorem skipWs_shr : ∀ (fuel : Nat) (t : TR), Shr t (skipWs fuel t)
  | 0, t => by simp [skipWs]; exact Shr.rfl' t
  | fuel+1, t => by
    simp only [skipWs]
    rcases readByte_cases t with ⟨c, rest, hi, hr⟩ | ⟨_, _, hr⟩ | ⟨_, _, hr⟩
    · rw [hr]; simp only
      split
      · exact (shr_read hi).trans (skipWs_shr fuel _)
      · exact shr_unread_after_read hi
    · rw [hr]; exact Shr.rfl' t
    · rw [hr]; exact Shr.rfl' t

theorem blockLoop_shr : ∀ (fuel : Nat) (t : TR) (conc : List Byte) (lb : Byte), Shr t (blockLoop fuel t conc lb).2
  | 0, t, _, _ => by simp [blockLoop]; exact Shr.rfl' t
  | fuel+1, t, conc, lb => by
    simp only [blockLoop]
    rcases readByte_cases t with ⟨c, rest, hi, hr⟩ | ⟨_, _, hr⟩ | ⟨_, _, hr⟩
    · rw [hr]; simp only
      have hstep : Shr t { t with inp := rest, last := some c } := shr_read hi
      split
      · exact hstep.trans (skipWs_shr _ _)
      · exact hstep.trans (blockLoop_shr fuel _ _ _)
    · rw [hr]; exact shr_addErr _ _
    · rw [hr]; exact shr_addErr _ _

theorem stringLoop_shr : ∀ (fuel : Nat) (t : TR) (conc : List Byte) (esc : Bool), Shr t (stringLoop fuel t conc esc).2
  | 0, t, _, _ => by simp [stringLoop]; exact Shr.rfl' t
  | fuel+1, t, conc, esc => by
    simp only [stringLoop]
    rcases readByte_cases t with ⟨c, rest, hi, hr⟩ | ⟨_, _, hr⟩ | ⟨_, _, hr⟩
    · rw [hr]; simp only
      have hstep : Shr t { t with inp := rest, last := some c } := shr_read hi
      split
      · exact hstep
      · exact hstep.trans (stringLoop_shr fuel _ _ _)
    · rw [hr]; exact shr_addErr _ _
    · rw [hr]; exact shr_addErr _ _

theorem lineComment_shr (t : TR) (conc : List Byte) : Shr t (lineCommentToken t conc).2 := by
  simp only [lineCommentToken]
  split
  · rename_i nl rest' heq
    refine ⟨?_, rfl⟩
    have h := congrArg List.length heq
    simp only [List.length_drop, List.length_cons] at h
    show rest'.length ≤ t.inp.length
    omega
  · split
    · exact ⟨by simp [addErr], rfl⟩
    · exact ⟨by simp, rfl⟩

theorem blockComment_shr (t : TR) (conc : List Byte) : Shr t (blockCommentToken t conc).2 := by
  unfold blockCommentToken; exact blockLoop_shr _ _ _ _
theorem stringLit_shr (t : TR) (conc : List Byte) : Shr t (stringLiteralToken t conc).2 := by
  unfold stringLiteralToken; exact stringLoop_shr _ _ _ _
theorem numberTok_shr (t : TR) (conc : List Byte) : Shr t (numberToken t conc).2 := by
  unfold numberToken; exact numberLoop_shr _ _ _ _ _ _ _ _

/-- A token-tree continuation that gives no input back. -/
def ShrK (k : TR → List Byte → Token × FR × TR) : Prop := ∀ t conc, Shr t (k t conc).2.2

theorem shrK_simple (kd : TK) : ShrK (fun t conc => simple kd conc t) := fun t _ => Shr.rfl' t

theorem shrK_wrap (f : TR → List Byte → Token × TR) (hf : ∀ t conc, Shr t (f t conc).2) : ShrK (wrap f) := by
  intro t conc; simpa [wrap] using hf t conc

theorem expectOne_shrK (opts : List (Byte × (TR → List Byte → Token × FR × TR)))
    (hk : ∀ o ∈ opts, ShrK o.2) : ShrK (fun t conc => expectOne t conc opts) := by
  intro t conc
  simp only [expectOne]
  rcases readByte_cases t with ⟨c, rest, hi, hr⟩ | ⟨_, _, hr⟩ | ⟨_, _, hr⟩
  · rw [hr]; simp only
    have hstep : Shr t { t with inp := rest, last := some c } := shr_read hi
    cases hfind : opts.find? (·.1 == c) with
    | some o =>
      obtain ⟨c', k⟩ := o
      have hmem := List.mem_of_find?_eq_some hfind
      exact hstep.trans (hk _ hmem { t with inp := rest, last := some c } (conc ++ [c]))
    | none =>
      cases opts with
      | nil => exact hstep
      | cons o os =>
        obtain ⟨c0, k⟩ := o
        show Shr t (k (addErr { t with inp := rest, last := some c } .other) (conc ++ [c0])).2.2
        exact (hstep.trans (shr_addErr _ _)).trans
          (hk (c0, k) (by simp) (addErr { t with inp := rest, last := some c } .other) (conc ++ [c0]))
  · rw [hr]; exact shr_addErr _ _
  · rw [hr]; exact shr_addErr _ _

/-- `findFirst` gives nothing back, and consumes at least one byte whenever there is one. -/
theorem findFirst_shr : ∀ (fuel : Nat) (t : TR), t.inp.length < fuel →
    Shr t (findFirst fuel t).2.2 ∧ (t.inp ≠ [] → (findFirst fuel t).2.2.inp.length < t.inp.length)
  | 0, t, h => by omega
  | fuel+1, t, hfuel => by
    simp only [findFirst]
    rcases readByte_cases t with ⟨c, rest, hi, hr⟩ | ⟨hnil, hio, hr⟩ | ⟨hnil, _, hr⟩
    · rw [hr]; simp only
      have lift : ∀ r : Token × FR × TR, Shr { t with inp := rest, last := some c } r.2.2 →
          Shr t r.2.2 ∧ (t.inp ≠ [] → r.2.2.inp.length < t.inp.length) := by
        intro r h
        refine ⟨(shr_read hi).trans h, fun _ => ?_⟩
        have := h.len
        simp only at this
        rw [hi]; simp only [List.length_cons]; omega
      have good : ∀ (k : TR → List Byte → Token × FR × TR) (conc : List Byte), ShrK k →
          Shr t (k { t with inp := rest, last := some c } conc).2.2 ∧
          (t.inp ≠ [] → (k { t with inp := rest, last := some c } conc).2.2.inp.length < t.inp.length) :=
        fun k conc hk => lift _ (hk _ conc)
      split
      · -- blank: skip it
        have hlen : ({ t with inp := rest, last := some c } : TR).inp.length < fuel := by
          simp only; rw [hi] at hfuel; simp at hfuel; omega
        exact lift _ (findFirst_shr fuel _ hlen).1
      cases singleByteKind c with
      | some k => exact good (fun t conc => simple k conc t) [c] (shrK_simple k)
      | none =>
      simp only
      split
      · exact good _ _ (shrK_wrap _ stringLit_shr)
      split
      · exact good _ _ (shrK_wrap _ numberTok_shr)
      split
      · exact good (fun t conc => expectOne t conc _) _ (expectOne_shrK _ (by
          intro o ho; simp at ho; subst ho; exact shrK_simple _))
      split
      · exact good (fun t conc => expectOne t conc _) _ (expectOne_shrK _ (by
          intro o ho; simp at ho; subst ho; exact shrK_simple _))
      split
      · exact good (fun t conc => expectOne t conc _) _ (expectOne_shrK _ (by
          intro o ho
          simp at ho
          rcases ho with rfl | rfl
          · exact shrK_wrap _ blockComment_shr
          · exact shrK_wrap _ lineComment_shr))
      split
      -- '-' : one more byte
      · rcases readByte_cases { t with inp := rest, last := some c } with ⟨d, rest2, hi2, hr2⟩ | ⟨_, _, hr2⟩ | ⟨_, _, hr2⟩
        · rw [hr2]; simp only
          have hstep : Shr { t with inp := rest, last := some c } { t with inp := rest2, last := some d } :=
            shr_read (t := { t with inp := rest, last := some c }) hi2
          have good2 : ∀ (k : TR → List Byte → Token × FR × TR) (conc : List Byte), ShrK k →
              Shr t (k { t with inp := rest2, last := some d } conc).2.2 ∧
              (t.inp ≠ [] → (k { t with inp := rest2, last := some d } conc).2.2.inp.length < t.inp.length) :=
            fun k conc hk => lift _ (hstep.trans (hk _ conc))
          split
          · exact good2 _ _ (shrK_wrap _ numberTok_shr)
          · split
            · exact good2 (fun t conc => expectOne t conc _) _ (expectOne_shrK _ (by
                intro o ho; simp at ho; subst ho
                exact expectOne_shrK _ (by intro o ho; simp at ho; subst ho; exact shrK_simple _)))
            · split
              · exact good2 _ _ (shrK_simple _)
              · exact lift (_, _, _) (hstep.trans (shr_addErr _ _))
        · rw [hr2]; exact lift (_, _, _) (shr_addErr _ _)
        · rw [hr2]; exact lift (_, _, _) (shr_addErr _ _)
      -- no byte-driven token starts here
      · exact lift (_, _, _) (Shr.rfl' _)
    · rw [hr]; exact ⟨Shr.rfl' t, fun h => absurd hnil h⟩
    · rw [hr]; exact ⟨shr_addErr _ _, fun h => absurd hnil h⟩

theorem identLoop_shr : ∀ (fuel : Nat) (t : TR) (conc : List Byte), Shr t (identLoop fuel t conc).2
  | 0, t, conc => by simpa [identLoop] using shr_setNext t _
  | fuel+1, t, conc => by
    simp only [identLoop]
    split
    · split
      · exact shr_addErr _ _
      · exact shr_setNext t _
    · rename_i c rest hi
      split
      · exact ⟨Nat.le_refl _, rfl⟩
      · split
        · exact (shr_read hi).trans (identLoop_shr fuel _ _)
        · exact (⟨Nat.le_refl _, rfl⟩ : Shr t { t with last := none }).trans (shr_setNext _ _)

theorem unreadByte_len (t : TR) : (unreadByte t).inp.length ≤ t.inp.length + 1 ∧ (unreadByte t).keep = t.keep := by
  unfold unreadByte
  cases t.last <;> simp

/-- At the end of the input `Next` returns false and reads nothing. -/
theorem next_at_end (t : TR) (hk : t.keep = false) (hnil : t.inp = []) :
    (next t).1 = false ∧ (next t).2.inp = [] ∧ (next t).2.keep = false := by
  unfold next
  simp only [hk, Bool.false_eq_true, if_false, hnil, List.length_nil, findFirst, readByte]
  cases hio : t.ioFail <;> simp [hnil, hk, addErr]

/-- At a clean end of the input (EOF, nothing kept) `Next` returns false and changes nothing at all. -/
theorem next_at_eof (t : TR) (hk : t.keep = false) (hnil : t.inp = []) (hio : t.ioFail = false) :
    next t = (false, t) := by
  unfold next
  simp [hk, hnil, findFirst, readByte, hio]

/-- `Next`: `keepNextToken` is clear afterwards; no input is given back; a call that returns true and did
    not just clear `keepNextToken` consumed at least one byte. -/
theorem next_spec (t : TR) :
    (next t).2.keep = false ∧ (next t).2.inp.length ≤ t.inp.length ∧
    ((next t).1 = true → t.keep = false → (next t).2.inp.length < t.inp.length) := by
  by_cases hk : t.keep = true
  · unfold next; simp [hk]
  · have hk' : t.keep = false := by simpa using hk
    by_cases hnil : t.inp = []
    · have h := next_at_end t hk' hnil
      refine ⟨h.2.2, by rw [h.2.1]; simp, fun ht => ?_⟩
      rw [h.1] at ht; cases ht
    · unfold next
      simp only [hk, Bool.false_eq_true, if_false]
      have ff := findFirst_shr (t.inp.length + 1) t (by omega)
      obtain ⟨tk, r, t1, hr⟩ : ∃ tk r t1, findFirst (t.inp.length + 1) t = (tk, r, t1) := ⟨_, _, _, rfl⟩
      rw [hr] at ff ⊢
      have hlt : t1.inp.length < t.inp.length := ff.2 hnil
      have hkeep : t1.keep = false := by rw [← hk']; exact ff.1.keep
      simp only
      split
      · exact ⟨hkeep, by show t1.inp.length ≤ _; omega, fun h => by cases h⟩
      split
      · exact ⟨hkeep, by show t1.inp.length ≤ _; omega, fun h => by cases h⟩
      split
      · exact ⟨hkeep, by show t1.inp.length ≤ _; omega, fun h => by cases h⟩
      split
      · exact ⟨hkeep, by simp only [setNext]; omega, fun _ _ => by simp only [setNext]; omega⟩
      have hu := unreadByte_len t1
      split
      · exact ⟨by rw [hu.2]; exact hkeep, by show (unreadByte t1).inp.length ≤ _; omega, fun h => by cases h⟩
      split
      · rename_i hin
        refine ⟨by simp only [addErr]; rw [hu.2]; exact hkeep, by simp only [addErr]; rw [hin]; simp, fun h => by cases h⟩
      · rename_i c rest hin
        have hrest : rest.length + 1 ≤ t1.inp.length + 1 := by
          have := hu.1; rw [hin] at this; simpa using this
        split
        · exact ⟨by simp only; rw [hu.2]; exact hkeep, by simp only; omega, fun h => by cases h⟩
        split
        · have hs := identLoop_shr (rest.length + 1) { unreadByte t1 with inp := rest, last := some c } [c]
          have hl := hs.len
          have hkp := hs.keep
          simp only at hl hkp
          exact ⟨by rw [hkp, hu.2]; exact hkeep, by omega, fun _ _ => by omega⟩
        · exact ⟨by simp only [addErr]; rw [hu.2]; exact hkeep, by simp only [addErr]; omega, fun h => by cases h⟩

theorem next_keep (t : TR) : (next t).2.keep = false := (next_spec t).1

theorem next_len_le (t : TR) : (next t).2.inp.length ≤ t.inp.length := (next_spec t).2.1

theorem next_of_keep (t : TR) (h : t.keep = true) : next t = (true, { t with keep := false }) := by
  unfold next; simp [h]

/-- Tokenizer progress: `Next` never raises the measure, and lowers it whenever it returns true. -/
theorem next_measure (t : TR) : mu (next t).2 ≤ mu t ∧ ((next t).1 = true → mu (next t).2 < mu t) := by
  have h := next_spec t
  rw [mu_keep_false h.1]
  by_cases hk : t.keep = true
  · rw [mu_keep_true hk]
    exact ⟨by have := h.2.1; omega, fun _ => by have := h.2.1; omega⟩
  · have hk' : t.keep = false := by simpa using hk
    rw [mu_keep_false hk']
    exact ⟨by have := h.2.1; omega, fun ht => by have := h.2.2 ht hk'; omega⟩

/-- `UnNext` right after a `Next` that returned true does not bring the measure back up to where it was
    before that `Next` (so a "peek" cannot loop), unless that `Next` itself only cleared `keepNextToken`. -/
theorem unNext_after_next (t : TR) (hk : t.keep = false) (ht : (next t).1 = true) :
    mu { (next t).2 with keep := true } < mu t := by
  have h := (next_spec t).2.2 ht hk
  rw [mu_unNext, mu_keep_false hk]; omega

/-! ## Blanks are skipped -/

theorem findFirst_blank (fuel : Nat) (t : TR) (c : Byte) (rest : List Byte) (hi : t.inp = c :: rest)
    (hc : Facts.tokenTreeSkips.contains c.toNat = true) :
    findFirst (fuel+1) t = findFirst fuel { t with inp := rest, last := some c } := by
  rw [findFirst]
  simp only [readByte, hi, hc, if_true]

/-- With input left, `findFirst` does not depend on bufio's `lastByte`. -/
theorem findFirst_last (fuel : Nat) (t : TR) (l : Option Byte) (d : Byte) (rest : List Byte) (hi : t.inp = d :: rest) :
    findFirst (fuel+1) { t with last := l } = findFirst (fuel+1) t := by
  rw [findFirst, findFirst]
  simp only [readByte, hi]

theorem next_skips_blank_cons (c d : Byte) (rest : List Byte) (io : Bool)
    (hc : Facts.tokenTreeSkips.contains c.toNat = true) :
    next (mkTR (c :: d :: rest) io) = next (mkTR (d :: rest) io) := by
  have hff : findFirst ((mkTR (c :: d :: rest) io).inp.length + 1) (mkTR (c :: d :: rest) io) =
      findFirst ((mkTR (d :: rest) io).inp.length + 1) (mkTR (d :: rest) io) := by
    rw [findFirst_blank _ (mkTR (c :: d :: rest) io) c (d :: rest) rfl hc]
    exact findFirst_last (rest.length + 1) (mkTR (d :: rest) io) (some c) d rest rfl
  unfold next
  rw [hff]
  rfl

/-- A space, tab or carriage return (`Facts.tokenTreeSkips`) in front of the input changes nothing about what
    `Next` answers: the same Boolean, the same token, the same remaining input, the same errors — every field
    of the model's reader state except bufio's `lastByte`, which differs only when the blank was the whole
    input. (Positions are not part of the model.) -/
theorem next_skips_blank (c : Byte) (hc : Facts.tokenTreeSkips.contains c.toNat = true) (inp : List Byte) (io : Bool) :
    (next (mkTR (c :: inp) io)).1 = (next (mkTR inp io)).1 ∧
    (next (mkTR (c :: inp) io)).2.nextTok = (next (mkTR inp io)).2.nextTok ∧
    (next (mkTR (c :: inp) io)).2.inp = (next (mkTR inp io)).2.inp ∧
    (next (mkTR (c :: inp) io)).2.errs = (next (mkTR inp io)).2.errs ∧
    (next (mkTR (c :: inp) io)).2.lastTok = (next (mkTR inp io)).2.lastTok ∧
    (next (mkTR (c :: inp) io)).2.keep = (next (mkTR inp io)).2.keep ∧
    (next (mkTR (c :: inp) io)).2.panicked = (next (mkTR inp io)).2.panicked ∧
    (next (mkTR (c :: inp) io)).2.nonAscii = (next (mkTR inp io)).2.nonAscii ∧
    (next (mkTR (c :: inp) io)).2.ioFail = (next (mkTR inp io)).2.ioFail ∧
    (inp ≠ [] → next (mkTR (c :: inp) io) = next (mkTR inp io)) := by
  cases inp with
  | cons d rest =>
    rw [next_skips_blank_cons c d rest io hc]
    exact ⟨rfl, rfl, rfl, rfl, rfl, rfl, rfl, rfl, rfl, fun _ => rfl⟩
  | nil =>
    have h1 : next (mkTR [c] io) =
        (false, if io then addErr { mkTR [] io with last := some c } .io else { mkTR [] io with last := some c }) := by
      unfold next
      rw [show (mkTR [c] io).inp.length + 1 = 1 + 1 from rfl,
        findFirst_blank 1 (mkTR [c] io) c [] rfl hc]
      cases io <;> simp [mkTR, findFirst, readByte, addErr]
    have h2 : next (mkTR [] io) = (false, if io then addErr (mkTR [] io) .io else mkTR [] io) := by
      unfold next
      cases io <;> simp [mkTR, findFirst, readByte, addErr]
    rw [h1, h2]
    cases io <;> simp [mkTR, addErr]

/-- The skip set as bytes: space, tab, carriage return. -/
theorem blank_contains (c : Byte) (h : c = 32 ∨ c = 9 ∨ c = 13) : Facts.tokenTreeSkips.contains c.toNat = true := by
  rcases h with rfl | rfl | rfl <;> rfl

/-! ## When `Next` consumes nothing -/

/-- With input left and nothing kept, `Next` consumes at least one byte — unless the model declines
    (`nonAscii`) or the reader had panicked. -/
theorem next_consumes_or (t : TR) (hk' : t.keep = false) (hnil : t.inp ≠ []) :
    (next t).2.inp.length < t.inp.length ∨ (next t).2.nonAscii = true ∨ (next t).2.panicked = true := by
  have hk : ¬ t.keep = true := by simp [hk']
  unfold next
  simp only [hk, Bool.false_eq_true, if_false]
  have ff := findFirst_shr (t.inp.length + 1) t (by omega)
  obtain ⟨tk, r, t1, hr⟩ : ∃ tk r t1, findFirst (t.inp.length + 1) t = (tk, r, t1) := ⟨_, _, _, rfl⟩
  rw [hr] at ff ⊢
  have hlt : t1.inp.length < t.inp.length := ff.2 hnil
  simp only
  split
  · exact Or.inl hlt
  split
  · exact Or.inl hlt
  split
  · exact Or.inl hlt
  split
  · exact Or.inl hlt
  have hu := unreadByte_len t1
  split
  · rename_i hp
    exact Or.inr (Or.inr hp)
  split
  · rename_i hin
    left
    show (addErr (unreadByte t1) _).inp.length < _
    simp only [addErr]; rw [hin]; simp only [List.length_nil]; omega
  · rename_i c rest hin
    have hrest : rest.length + 1 ≤ t1.inp.length + 1 := by
      have := hu.1; rw [hin] at this; simpa using this
    split
    · exact Or.inr (Or.inl rfl)
    split
    · have hs := identLoop_shr (rest.length + 1) { unreadByte t1 with inp := rest, last := some c } [c]
      have hl := hs.len
      simp only at hl
      left; omega
    · left
      show rest.length < _
      omega

/-- `Next` consumes nothing and nothing was kept only at the end of the input, or where the model declines. -/
theorem stall_cases (t : TR) (hp : t.panicked = false) (hk : t.keep = false)
    (hs : (next t).2.inp.length = t.inp.length) : t.inp = [] ∨ (next t).2.nonAscii = true := by
  by_cases hnil : t.inp = []
  · exact Or.inl hnil
  · rcases next_consumes_or t hk hnil with h | h | h
    · omega
    · exact Or.inr h
    · rw [next_no_panic t hp] at h; cases h

theorem unNext_next_le (t : TR) : mu { (next t).2 with keep := true } ≤ mu t + 1 := by
  have := (next_measure t).1
  rw [mu_unNext]
  rw [mu_keep_false (next_keep t)] at this
  omega

end Bebop.Text
