/-
  Canon/Gen: the generic lexing layer for the extended sub-language.

  A schema is turned into a list of `Lexeme`s (a token together with the run of blanks the canonical text
  puts in front of it).  `renderC` concatenates them (the canonical text), `render w` replaces the run in
  front of the k-th token by `w k` (an arbitrary layout).  The generic lexing theorem `lex_render` says that
  the tokenizer model delivers exactly the tokens of the list, for every layout that keeps a non-empty run
  wherever the canonical text has one.

  New one-step tokenizer lemmas: the arrow `->`, integer literals (decimal, `0x…` hexadecimal, negative
  decimal), plain string literals, `//` line comments.
-/
import Bebop.Proofs.Canon.Lexer

namespace Bebop.Text

/-- Integer literals of the sub-language: decimal `d+`, hexadecimal `0x h+`, negative decimal `-d+`. -/
def numLitOk (s : List Byte) : Bool :=
  match s with
  | [] => false
  | c :: r =>
    (isNumeric c && r.all isNumeric) ||
    (c == 48 && (match r with
                 | x :: h :: hs => x == 120 && (h :: hs).all (fun d => isNumeric d || isHexLetter d)
                 | _ => false)) ||
    (c == 45 && (match r with
                 | d :: ds => (d :: ds).all isNumeric
                 | [] => false))

/-- The content of a plain string literal: printable ASCII without `"` and `\` (exactly the literals whose
    `strconv.Unquote` is their content, `plainQuoted`). -/
def strBodyOk (s : List Byte) : Bool :=
  s.all (fun c => 0x20 ≤ c.toNat && c.toNat < 0x7f && c != 0x5c && c != 0x22)

/-- The text of a `//` comment after the two slashes: anything without a line break. -/
def commentBodyOk (s : List Byte) : Bool := s.all (fun c => c != 10)

/-- A byte that ends every word and every number: ASCII, not a letter / digit / underscore / dot. -/
def stopByte (c : Byte) : Bool := decide (c.toNat < 0x80) && !identCont c && !(c == b '.')

def stop1 : List Byte → Bool
  | [] => true
  | c :: _ => stopByte c

def startsStop : List Byte → Bool
  | [] => false
  | c :: _ => stopByte c

/-- the last byte is a letter, digit or underscore (words and numbers) -/
def endsSticky : List Byte → Bool
  | [] => false
  | [c] => identCont c
  | _ :: r => endsSticky r

/-- Token `b` may follow token `a` without a blank in between. -/
def glue (a c : Token) : Bool := !endsSticky a.concrete || startsStop c.concrete

/-- The tokens of the sub-language, with the bytes they are written with. -/
inductive TokOk : Token → Prop
  | word (s : List Byte) : identBytes s = true → TokOk { kind := (keywordKind s).getD .ident, concrete := s }
  | single (c : Byte) (k : TK) : isBlank c = false → singleByteKind c = some k → TokOk { kind := k, concrete := [c] }
  | arrow : TokOk { kind := .arrow, concrete := [45, 62] }
  | num (s : List Byte) : numLitOk s = true → TokOk { kind := .intLit, concrete := s }
  | str (s : List Byte) : strBodyOk s = true → TokOk { kind := .strLit, concrete := 34 :: (s ++ [34]) }
  | comment (s : List Byte) : commentBodyOk s = true →
      TokOk { kind := .lineComment, concrete := 47 :: 47 :: (s ++ [10]) }
  | shl : TokOk { kind := .dblLeft, concrete := [60, 60] }
  | shr : TokOk { kind := .dblRight, concrete := [62, 62] }
  | float (neg : Bool) (ip fp : List Byte) : ip ≠ [] → ip.all isNumeric = true → fp ≠ [] → fp.all isNumeric = true →
      TokOk { kind := .floatLit, concrete := (if neg then [45] else []) ++ (ip ++ 46 :: fp) }
  | negInf : TokOk { kind := .negInf, concrete := [45, 105, 110, 102] }

/-- A token and the blanks the canonical text writes in front of it. -/
structure Lexeme where
  sep : List Byte
  tok : Token

/-- the canonical text of a lexeme list -/
def renderC : List Lexeme → List Byte
  | [] => []
  | lx :: r => lx.sep ++ (lx.tok.concrete ++ renderC r)

/-- the lexeme list written with the layout `w` (run number `n + k` in front of the k-th token; one more
    run at the very end) -/
def render (w : Nat → List Byte) : Nat → List Lexeme → List Byte
  | n, [] => w n
  | n, lx :: r => w n ++ (lx.tok.concrete ++ render w (n + 1) r)

def GlueOk : List Lexeme → Prop
  | a :: c :: r => (c.sep = [] → glue a.tok c.tok = true) ∧ GlueOk (c :: r)
  | _ => True

/-- Well-formed lexeme lists: known tokens, blank separators, and no separator omitted where the two
    neighbours would run together. -/
structure LexsOk (l : List Lexeme) : Prop where
  toks : ∀ lx ∈ l, TokOk lx.tok
  seps : ∀ lx ∈ l, ∀ c ∈ lx.sep, isBlank c = true
  glue : GlueOk l

/-- Admissible layouts: every run consists of blanks (space, tab, CR), and wherever the canonical text has
    a blank the layout has a non-empty run. -/
structure LayoutOk (w : Nat → List Byte) (l : List Lexeme) : Prop where
  blank : ∀ k, ∀ c ∈ w k, isBlank c = true
  keep : ∀ k lx, l[k]? = some lx → lx.sep ≠ [] → w k ≠ []

/-- the canonical layout of a lexeme list -/
def canonW (l : List Lexeme) : Nat → List Byte := fun k =>
  match l[k]? with
  | some lx => lx.sep
  | none => []

namespace Canon

/-! ### more byte facts -/

theorem byte_eq_of_toNat {c d : Byte} (h : c.toNat = d.toNat) : c = d := UInt8.toNat_inj.1 h

theorem numeric_range {c : Byte} (h : isNumeric c = true) : 0x30 ≤ c.toNat ∧ c.toNat ≤ 0x39 := by
  simpa [isNumeric] using h

theorem hex_range {c : Byte} (h : isHexLetter c = true) :
    (0x61 ≤ c.toNat ∧ c.toNat ≤ 0x66) ∨ (0x41 ≤ c.toNat ∧ c.toNat ≤ 0x46) := by
  simpa [isHexLetter] using h

theorem numeric_not_blank {c : Byte} (h : isNumeric c = true) : isBlank c = false := by
  have := numeric_range h; simp [isBlank]; omega

theorem sbk_numeric {c : Byte} (h : isNumeric c = true) : singleByteKind c = none := by
  have hr := numeric_range h
  have hc : c = 48 ∨ c = 49 ∨ c = 50 ∨ c = 51 ∨ c = 52 ∨ c = 53 ∨ c = 54 ∨ c = 55 ∨ c = 56 ∨ c = 57 := by
    have : c.toNat = 48 ∨ c.toNat = 49 ∨ c.toNat = 50 ∨ c.toNat = 51 ∨ c.toNat = 52 ∨ c.toNat = 53 ∨
        c.toNat = 54 ∨ c.toNat = 55 ∨ c.toNat = 56 ∨ c.toNat = 57 := by omega
    rcases this with h | h | h | h | h | h | h | h | h | h
    · exact Or.inl (byte_eq_of_toNat h)
    · exact Or.inr (Or.inl (byte_eq_of_toNat h))
    · exact Or.inr (Or.inr (Or.inl (byte_eq_of_toNat h)))
    · exact Or.inr (Or.inr (Or.inr (Or.inl (byte_eq_of_toNat h))))
    · exact Or.inr (Or.inr (Or.inr (Or.inr (Or.inl (byte_eq_of_toNat h)))))
    · exact Or.inr (Or.inr (Or.inr (Or.inr (Or.inr (Or.inl (byte_eq_of_toNat h))))))
    · exact Or.inr (Or.inr (Or.inr (Or.inr (Or.inr (Or.inr (Or.inl (byte_eq_of_toNat h)))))))
    · exact Or.inr (Or.inr (Or.inr (Or.inr (Or.inr (Or.inr (Or.inr (Or.inl (byte_eq_of_toNat h))))))))
    · exact Or.inr (Or.inr (Or.inr (Or.inr (Or.inr (Or.inr (Or.inr (Or.inr (Or.inl (byte_eq_of_toNat h)))))))))
    · exact Or.inr (Or.inr (Or.inr (Or.inr (Or.inr (Or.inr (Or.inr (Or.inr (Or.inr (byte_eq_of_toNat h)))))))))
  rcases hc with rfl | rfl | rfl | rfl | rfl | rfl | rfl | rfl | rfl | rfl <;> decide

theorem b_toNat_x : (b 'x').toNat = 120 := by decide
theorem b_toNat_dot : (b '.').toNat = 46 := by decide
theorem b_toNat_e : (b 'e').toNat = 101 := by decide
theorem b_toNat_i : (b 'i').toNat = 105 := by decide
theorem b_toNat_bs : (b '\\').toNat = 92 := by decide

theorem sbk_minus : singleByteKind 45 = none := by decide
theorem sbk_quote : singleByteKind 34 = none := by decide
theorem sbk_slash : singleByteKind 47 = none := by decide

/-! ### stop bytes -/

theorem stopByte_spec {c : Byte} (h : stopByte c = true) :
    c.toNat < 0x80 ∧ identCont c = false ∧ (c == b '.') = false := by
  simp only [stopByte, Bool.and_eq_true, decide_eq_true_eq, Bool.not_eq_true'] at h
  exact ⟨h.1.1, h.1.2, h.2⟩

theorem stop1_idStop {r : List Byte} (h : stop1 r = true) : idStop r = true := by
  cases r with
  | nil => rfl
  | cons c r =>
    have := stopByte_spec h
    simp [idStop, this.1, this.2.1]

theorem stopByte_blank {c : Byte} (h : isBlank c = true) : stopByte c = true := by
  simp only [isBlank, Bool.or_eq_true, beq_iff_eq] at h
  have h3 : (c == b '_') = false := beq_false_of_toNat (by rw [b_toNat_us]; omega)
  have h4 : (c == b '.') = false := beq_false_of_toNat (by rw [b_toNat_dot]; omega)
  simp [stopByte, identCont, isAsciiLetter, isNumeric, h3, h4]
  omega

theorem endsSticky_all : ∀ (s : List Byte), s ≠ [] → s.all identCont = true → endsSticky s = true
  | [], h, _ => absurd rfl h
  | [c], _, h => by simpa [endsSticky] using h
  | c :: d :: r, _, h => by
    simp only [List.all_cons, Bool.and_eq_true] at h
    simp only [endsSticky]
    exact endsSticky_all (d :: r) (by simp) (by simp [h.2.1, h.2.2])

theorem endsSticky_suffix : ∀ (l : List Byte) (y : Byte) (ys : List Byte), endsSticky (l ++ y :: ys) = endsSticky (y :: ys)
  | [], _, _ => rfl
  | [x], y, ys => by simp [endsSticky]
  | x :: x' :: l, y, ys => by
    have := endsSticky_suffix (x' :: l) y ys
    simpa [endsSticky] using this

theorem endsSticky_ident {s : List Byte} (h : identBytes s = true) : endsSticky s = true := by
  cases s with
  | nil => simp [identBytes] at h
  | cons c r =>
    simp only [identBytes, Bool.and_eq_true] at h
    exact endsSticky_all _ (by simp) (by simp [identCont, h.1, h.2])

theorem identCont_numeric {c : Byte} (h : isNumeric c = true) : identCont c = true := by simp [identCont, h]

theorem identCont_hex {c : Byte} (h : isHexLetter c = true) : identCont c = true := by
  have hr := hex_range h
  have : isAsciiLetter c = true := by simp [isAsciiLetter]; omega
  simp [identCont, this]

/-! ### findFirst past blanks -/

theorem ff_at {u : List Byte} (hu : Blanks u) (t : TR) (rest : List Byte) (fuel : Nat) (hf : u.length < fuel) :
    ∃ l k, fuel = u.length + (k + 1) ∧
      findFirst fuel { t with inp := u ++ rest } = findFirst (k + 1) { t with inp := rest, last := l } := by
  obtain ⟨k, rfl⟩ : ∃ k, fuel = u.length + (k + 1) := ⟨fuel - u.length - 1, by omega⟩
  obtain ⟨l, hl⟩ := ff_blanks rest u hu (k + 1) t
  exact ⟨l, k, rfl, hl⟩

/-- `next` when `findFirst` builds a token in a state without errors -/
theorem next_of_ff {t : TR} (ht : Ok t) {tk : Token} {t1 : TR}
    (h : findFirst (t.inp.length + 1) t = (tk, .tok, t1)) (h1 : t1.errs = []) :
    next t = (true, setNext t1 tk) := by
  unfold next
  simp [ht.keep, h, h1]

theorem ok_setNext {t : TR} (h : Ok t) (tk : Token) : Ok (setNext t tk) :=
  ⟨h.errs, h.pan, h.na, h.io, h.keep⟩

/-! ### the arrow -/

theorem ff_arrow (fuel : Nat) (t : TR) (rest : List Byte) :
    findFirst (fuel + 1) { t with inp := 45 :: 62 :: rest } =
      ({ kind := .arrow, concrete := [45, 62] }, .tok, { t with inp := rest, last := some 62 }) := by
  have h0 : isBlank 45 = false := by decide
  have h1 : ((45 : Byte) == b '"') = false := by decide
  have h2 : isNumeric 45 = false := by decide
  have h3 : ((45 : Byte) == b '>') = false := by decide
  have h4 : ((45 : Byte) == b '<') = false := by decide
  have h5 : ((45 : Byte) == b '/') = false := by decide
  have h6 : ((45 : Byte) == b '-') = true := by decide
  have h7 : isNumeric 62 = false := by decide
  have h8 : ((62 : Byte) == b 'i') = false := by decide
  have h9 : ((62 : Byte) == b '>') = true := by decide
  simp only [findFirst, readByte, skips_contains, h0, sbk_minus, h1, h2, h3, h4, h5, h6, h7, h8, h9,
    Bool.false_eq_true, if_false, if_true, simple]

theorem next_arrow {u : List Byte} (hu : Blanks u) (rest : List Byte) (t : TR) (ht : Ok t)
    (hi : t.inp = u ++ 45 :: 62 :: rest) :
    ∃ t', next t = (true, t') ∧ Ok t' ∧ t'.inp = rest ∧ t'.nextTok = { kind := .arrow, concrete := [45, 62] } := by
  obtain ⟨l, k, hk, hl⟩ := ff_at hu t (45 :: 62 :: rest) (t.inp.length + 1) (by rw [hi]; simp; omega)
  rw [← eta_inp t _ hi] at hl
  replace hl := hl.trans (ff_arrow k { t with last := l } rest)
  have hn := next_of_ff ht hl ht.errs
  exact ⟨_, hn, ⟨ht.errs, ht.pan, ht.na, ht.io, ht.keep⟩, rfl, rfl⟩

/-! ### the shift operators -/

theorem sbk_lt : singleByteKind 60 = none := by decide
theorem sbk_gt : singleByteKind 62 = none := by decide

theorem ff_shl (fuel : Nat) (t : TR) (rest : List Byte) :
    findFirst (fuel + 1) { t with inp := 60 :: 60 :: rest } =
      ({ kind := .dblLeft, concrete := [60, 60] }, .tok, { t with inp := rest, last := some 60 }) := by
  have h0 : isBlank 60 = false := by decide
  have h1 : ((60 : Byte) == b '"') = false := by decide
  have h2 : isNumeric 60 = false := by decide
  have h3 : ((60 : Byte) == b '>') = false := by decide
  have h4 : ((60 : Byte) == b '<') = true := by decide
  have h5 : (b '<' == (60 : Byte)) = true := by decide
  simp only [findFirst, readByte, skips_contains, h0, sbk_lt, h1, h2, h3, h4, expectOne, List.find?, h5,
    Bool.false_eq_true, if_false, if_true, simple]
  simp

theorem ff_shr (fuel : Nat) (t : TR) (rest : List Byte) :
    findFirst (fuel + 1) { t with inp := 62 :: 62 :: rest } =
      ({ kind := .dblRight, concrete := [62, 62] }, .tok, { t with inp := rest, last := some 62 }) := by
  have h0 : isBlank 62 = false := by decide
  have h1 : ((62 : Byte) == b '"') = false := by decide
  have h2 : isNumeric 62 = false := by decide
  have h3 : ((62 : Byte) == b '>') = true := by decide
  have h5 : (b '>' == (62 : Byte)) = true := by decide
  simp only [findFirst, readByte, skips_contains, h0, sbk_gt, h1, h2, h3, expectOne, List.find?, h5,
    Bool.false_eq_true, if_false, if_true, simple]
  simp

theorem next_shl {u : List Byte} (hu : Blanks u) (rest : List Byte) (t : TR) (ht : Ok t)
    (hi : t.inp = u ++ 60 :: 60 :: rest) :
    ∃ t', next t = (true, t') ∧ Ok t' ∧ t'.inp = rest ∧ t'.nextTok = { kind := .dblLeft, concrete := [60, 60] } := by
  obtain ⟨l, k, hk, hl⟩ := ff_at hu t (60 :: 60 :: rest) (t.inp.length + 1) (by rw [hi]; simp; omega)
  rw [← eta_inp t _ hi] at hl
  replace hl := hl.trans (ff_shl k { t with last := l } rest)
  have hn := next_of_ff ht hl ht.errs
  exact ⟨_, hn, ⟨ht.errs, ht.pan, ht.na, ht.io, ht.keep⟩, rfl, rfl⟩

theorem next_shr {u : List Byte} (hu : Blanks u) (rest : List Byte) (t : TR) (ht : Ok t)
    (hi : t.inp = u ++ 62 :: 62 :: rest) :
    ∃ t', next t = (true, t') ∧ Ok t' ∧ t'.inp = rest ∧ t'.nextTok = { kind := .dblRight, concrete := [62, 62] } := by
  obtain ⟨l, k, hk, hl⟩ := ff_at hu t (62 :: 62 :: rest) (t.inp.length + 1) (by rw [hi]; simp; omega)
  rw [← eta_inp t _ hi] at hl
  replace hl := hl.trans (ff_shr k { t with last := l } rest)
  have hn := next_of_ff ht hl ht.errs
  exact ⟨_, hn, ⟨ht.errs, ht.pan, ht.na, ht.io, ht.keep⟩, rfl, rfl⟩

/-! ### string literals -/

theorem stringLoop_run : ∀ (body : List Byte), strBodyOk body = true → ∀ (fuel : Nat) (t : TR) (conc rest : List Byte),
    body.length < fuel →
    stringLoop fuel { t with inp := body ++ 34 :: rest } conc false =
      ({ kind := .strLit, concrete := conc ++ (body ++ [34]) }, { t with inp := rest, last := some 34 })
  | [], _, fuel, t, conc, rest, hf => by
    obtain ⟨f, rfl⟩ : ∃ f, fuel = f + 1 := ⟨fuel - 1, by simp at hf; omega⟩
    have h1 : ((34 : Byte) == b '"') = true := by decide
    simp [stringLoop, readByte, h1]
  | c :: body, hb, fuel, t, conc, rest, hf => by
    obtain ⟨f, rfl⟩ : ∃ f, fuel = f + 1 := ⟨fuel - 1, by simp at hf; omega⟩
    simp only [strBodyOk, List.all_cons, Bool.and_eq_true] at hb
    have hc := hb.1
    simp only [bne_iff_ne, ne_eq, decide_eq_true_eq] at hc
    have h1 : (c == b '"') = false := by
      apply beq_false_of_toNat; rw [b_toNat_quote]; intro h; exact hc.2 (byte_eq_of_toNat h)
    have h2 : (c == b '\\') = false := by
      apply beq_false_of_toNat; rw [b_toNat_bs]; intro h; exact hc.1.2 (byte_eq_of_toNat h)
    have ih := stringLoop_run body (by simpa [strBodyOk] using hb.2) f { t with last := some c } (conc ++ [c]) rest
      (by simp at hf; omega)
    simp only [stringLoop, readByte, List.cons_append, h1, h2, Bool.false_and, Bool.false_eq_true, if_false]
    rw [ih]
    simp

theorem ff_string {body : List Byte} (hb : strBodyOk body = true) (fuel : Nat) (t : TR) (rest : List Byte) :
    findFirst (fuel + 1) { t with inp := 34 :: (body ++ 34 :: rest) } =
      ({ kind := .strLit, concrete := 34 :: (body ++ [34]) }, .tok, { t with inp := rest, last := some 34 }) := by
  have h0 : isBlank 34 = false := by decide
  have h1 : ((34 : Byte) == b '"') = true := by decide
  have hs := stringLoop_run body hb ((body ++ 34 :: rest).length + 1) { t with last := some 34 } [34] rest
    (by simp; omega)
  simp only [findFirst, readByte, skips_contains, h0, sbk_quote, h1, Bool.false_eq_true, if_false, if_true,
    wrap, stringLiteralToken]
  simp only [List.length_append, List.length_cons] at hs ⊢
  rw [hs]
  rfl

theorem next_string {body : List Byte} (hb : strBodyOk body = true) {u : List Byte} (hu : Blanks u)
    (rest : List Byte) (t : TR) (ht : Ok t) (hi : t.inp = u ++ 34 :: (body ++ 34 :: rest)) :
    ∃ t', next t = (true, t') ∧ Ok t' ∧ t'.inp = rest ∧
      t'.nextTok = { kind := .strLit, concrete := 34 :: (body ++ [34]) } := by
  obtain ⟨l, k, hk, hl⟩ := ff_at hu t (34 :: (body ++ 34 :: rest)) (t.inp.length + 1) (by rw [hi]; simp; omega)
  rw [← eta_inp t _ hi] at hl
  replace hl := hl.trans (ff_string hb k { t with last := l } rest)
  have hn := next_of_ff ht hl ht.errs
  exact ⟨_, hn, ⟨ht.errs, ht.pan, ht.na, ht.io, ht.keep⟩, rfl, rfl⟩

/-! ### integer literals -/

theorem stop_not_letter {c : Byte} (h : identCont c = false) (d : Byte) (hd : identCont d = true) :
    (c == d) = false := by
  cases hcd : c == d with
  | false => rfl
  | true => rw [eq_of_beq hcd, hd] at h; cases h

theorem numberLoop_digits (hex : Bool) (kind : TK) (dec : Bool) : ∀ (ds : List Byte),
    ds.all (fun d => isNumeric d || (hex && isHexLetter d)) = true →
    ∀ (fuel : Nat) (t : TR) (conc : List Byte) (second inv : Bool) (rest : List Byte), t.ioFail = false →
    stop1 rest = true → (ds ≠ [] ∨ inv = false) → ds.length < fuel →
    ∃ t', numberLoop fuel { t with inp := ds ++ rest } conc kind second hex dec inv =
        ({ kind := kind, concrete := conc ++ ds }, t') ∧ Same t t' ∧ t'.inp = rest
  | [], _, fuel, t, conc, second, inv, rest, hio, hstop, hinv, hf => by
    obtain ⟨f, rfl⟩ : ∃ f, fuel = f + 1 := ⟨fuel - 1, by simp at hf; omega⟩
    have hinv' : inv = false := by rcases hinv with h | h; exact absurd rfl h; exact h
    subst hinv'
    cases rest with
    | nil =>
      refine ⟨{ t with inp := [] }, ?_, ⟨rfl, rfl, rfl, rfl, rfl⟩, rfl⟩
      simp [numberLoop, readByte, hio]
    | cons c r =>
      have hs := stopByte_spec hstop
      have hx : (c == b 'x') = false := stop_not_letter hs.2.1 _ (by decide)
      have he : (c == b 'e') = false := stop_not_letter hs.2.1 _ (by decide)
      have hnum : isNumeric c = false := by
        cases h : isNumeric c with
        | false => rfl
        | true => rw [identCont_numeric h] at hs; cases hs.2.1
      have hhex : isHexLetter c = false := by
        cases h : isHexLetter c with
        | false => rfl
        | true => rw [identCont_hex h] at hs; cases hs.2.1
      refine ⟨setNext { t with inp := c :: r, last := none } { kind := kind, concrete := conc ++ [] }, ?_,
        ⟨rfl, rfl, rfl, rfl, rfl⟩, rfl⟩
      simp [numberLoop, readByte, hx, he, hs.2.2, hnum, hhex, unreadByte]
  | d :: ds, hds, fuel, t, conc, second, inv, rest, hio, hstop, _, hf => by
    obtain ⟨f, rfl⟩ : ∃ f, fuel = f + 1 := ⟨fuel - 1, by simp at hf; omega⟩
    simp only [List.all_cons, Bool.and_eq_true] at hds
    obtain ⟨t', h1, h2, h3⟩ := numberLoop_digits hex kind dec ds hds.2 f { t with last := some d } (conc ++ [d]) false false rest
      hio hstop (Or.inr rfl) (by simp at hf; omega)
    refine ⟨t', ?_, ⟨h2.errs, h2.pan, h2.na, h2.io, h2.keep⟩, h3⟩
    have hd := hds.1
    have hcont : identCont d = true := by
      simp only [Bool.or_eq_true, Bool.and_eq_true] at hd
      rcases hd with h | ⟨_, h⟩
      · exact identCont_numeric h
      · exact identCont_hex h
    have hx : (d == b 'x') = false := by
      simp only [Bool.or_eq_true, Bool.and_eq_true] at hd
      apply beq_false_of_toNat; rw [b_toNat_x]
      rcases hd with h | ⟨_, h⟩
      · have := numeric_range h; omega
      · have := hex_range h; omega
    have hdot : (d == b '.') = false := by
      simp only [Bool.or_eq_true, Bool.and_eq_true] at hd
      apply beq_false_of_toNat; rw [b_toNat_dot]
      rcases hd with h | ⟨_, h⟩
      · have := numeric_range h; omega
      · have := hex_range h; omega
    simp only [List.append_assoc, List.singleton_append] at h1
    simp only [numberLoop, readByte, List.cons_append, hx, hdot, Bool.and_false, Bool.false_eq_true, if_false]
    cases hn : isNumeric d with
    | true =>
      simp only [if_true]
      exact h1
    | false =>
      rw [hn] at hd
      simp only [Bool.false_or, Bool.and_eq_true] at hd
      obtain ⟨rfl, hh⟩ := hd
      simp only [hh, Bool.and_self, Bool.false_eq_true, if_false, if_true]
      exact h1

theorem ff_number {s : List Byte} (hs : numLitOk s = true) {rest : List Byte} (hstop : stop1 rest = true)
    (fuel : Nat) (t : TR) (hio : t.ioFail = false) :
    ∃ t', findFirst (fuel + 1) { t with inp := s ++ rest } = ({ kind := .intLit, concrete := s }, .tok, t') ∧
      Same t t' ∧ t'.inp = rest := by
  cases s with
  | nil => simp [numLitOk] at hs
  | cons c r =>
    simp only [numLitOk, Bool.or_eq_true, Bool.and_eq_true, beq_iff_eq] at hs
    rcases hs with (⟨hc, hr⟩ | ⟨hc, hr⟩) | ⟨hc, hr⟩
    · -- decimal
      obtain ⟨t', h1, h2, h3⟩ := numberLoop_digits false .intLit false r (by simpa using hr) ((r ++ rest).length + 1)
        { t with last := some c } [c] true false rest hio hstop (Or.inr rfl) (by simp; omega)
      refine ⟨t', ?_, ⟨h2.errs, h2.pan, h2.na, h2.io, h2.keep⟩, h3⟩
      have hq : (c == b '"') = false := by
        apply beq_false_of_toNat; rw [b_toNat_quote]; have := numeric_range hc; omega
      simp only [findFirst, readByte, List.cons_append, skips_contains, numeric_not_blank hc, sbk_numeric hc, hq, hc,
        Bool.false_eq_true, if_false, if_true, wrap, numberToken]
      rw [h1]; rfl
    · -- hexadecimal
      subst hc
      match r, hr with
      | x :: h :: hs', hr =>
        simp only [Bool.and_eq_true, beq_iff_eq] at hr
        obtain ⟨rfl, hh⟩ := hr
        obtain ⟨t', h1, h2, h3⟩ := numberLoop_digits true .intLit false (h :: hs') (by simpa using hh) ((h :: hs' ++ rest).length + 1)
          { t with last := some 120 } [48, 120] false true rest hio hstop (Or.inl (by simp)) (by simp; omega)
        refine ⟨t', ?_, ⟨h2.errs, h2.pan, h2.na, h2.io, h2.keep⟩, h3⟩
        have h0 : isBlank 48 = false := by decide
        have hk : singleByteKind 48 = none := by decide
        have hq : ((48 : Byte) == b '"') = false := by decide
        have hn : isNumeric 48 = true := by decide
        have hx : ((120 : Byte) == b 'x') = true := by decide
        simp only [findFirst, readByte, List.cons_append, skips_contains, h0, hk, hq, hn,
          Bool.false_eq_true, if_false, if_true, wrap, numberToken, List.length_cons]
        rw [numberLoop]
        simp only [readByte, hx, Bool.and_self, if_true]
        simp only [List.cons_append, List.length_cons, List.nil_append, Nat.add_assoc, Nat.reduceAdd] at h1 ⊢
        rw [h1]
    · -- negative decimal
      subst hc
      match r, hr with
      | d :: ds, hr =>
        simp only [List.all_cons, Bool.and_eq_true] at hr
        obtain ⟨t', h1, h2, h3⟩ := numberLoop_digits false .intLit false ds (by simpa using hr.2) ((ds ++ rest).length + 1)
          { t with last := some d } [45, d] true false rest hio hstop (Or.inr rfl) (by simp; omega)
        refine ⟨t', ?_, ⟨h2.errs, h2.pan, h2.na, h2.io, h2.keep⟩, h3⟩
        have h0 : isBlank 45 = false := by decide
        have h1' : ((45 : Byte) == b '"') = false := by decide
        have h2' : isNumeric 45 = false := by decide
        have h3' : ((45 : Byte) == b '>') = false := by decide
        have h4' : ((45 : Byte) == b '<') = false := by decide
        have h5' : ((45 : Byte) == b '/') = false := by decide
        have h6' : ((45 : Byte) == b '-') = true := by decide
        simp only [findFirst, readByte, List.cons_append, skips_contains, h0, sbk_minus, h1', h2', h3', h4', h5', h6',
          hr.1, Bool.false_eq_true, if_false, if_true, wrap, numberToken]
        rw [h1]; rfl

/-! ### float literals and `-inf` -/

theorem numberLoop_float : ∀ (ip : List Byte), ip.all isNumeric = true → ∀ (fp : List Byte), fp ≠ [] →
    fp.all isNumeric = true → ∀ (fuel : Nat) (t : TR) (conc : List Byte) (second inv : Bool) (rest : List Byte),
    t.ioFail = false → stop1 rest = true → ip.length + fp.length + 1 < fuel →
    ∃ t', numberLoop fuel { t with inp := ip ++ 46 :: (fp ++ rest) } conc .intLit second false false inv =
        ({ kind := .floatLit, concrete := conc ++ (ip ++ 46 :: fp) }, t') ∧ Same t t' ∧ t'.inp = rest
  | [], _, fp, hne, hfp, fuel, t, conc, second, inv, rest, hio, hstop, hf => by
    obtain ⟨f, rfl⟩ : ∃ f, fuel = f + 1 := ⟨fuel - 1, by omega⟩
    obtain ⟨t', h1, h2, h3⟩ := numberLoop_digits false .floatLit true fp (by simpa using hfp) f { t with last := some 46 }
      (conc ++ [46]) false true rest hio hstop (Or.inl hne) (by simp at hf; omega)
    refine ⟨t', ?_, ⟨h2.errs, h2.pan, h2.na, h2.io, h2.keep⟩, h3⟩
    have hx : ((46 : Byte) == b 'x') = false := by decide
    have hd : ((46 : Byte) == b '.') = true := by decide
    simp only [List.nil_append, numberLoop, readByte, hx, Bool.and_false, Bool.false_eq_true, if_false, hd, if_true]
    simp only [List.append_assoc, List.singleton_append] at h1
    exact h1
  | d :: ip, hip, fp, hne, hfp, fuel, t, conc, second, inv, rest, hio, hstop, hf => by
    obtain ⟨f, rfl⟩ : ∃ f, fuel = f + 1 := ⟨fuel - 1, by omega⟩
    simp only [List.all_cons, Bool.and_eq_true] at hip
    obtain ⟨t', h1, h2, h3⟩ := numberLoop_float ip hip.2 fp hne hfp f { t with last := some d } (conc ++ [d]) false false rest
      hio hstop (by simp at hf; omega)
    refine ⟨t', ?_, ⟨h2.errs, h2.pan, h2.na, h2.io, h2.keep⟩, h3⟩
    have hr := numeric_range hip.1
    have hx : (d == b 'x') = false := by apply beq_false_of_toNat; rw [b_toNat_x]; omega
    have hdot : (d == b '.') = false := by apply beq_false_of_toNat; rw [b_toNat_dot]; omega
    simp only [List.cons_append, numberLoop, readByte, hx, hdot, Bool.and_false, Bool.false_eq_true, if_false, hip.1, if_true]
    simp only [List.append_assoc, List.singleton_append, List.cons_append] at h1
    exact h1

theorem ff_float (neg : Bool) {ip fp : List Byte} (hip0 : ip ≠ []) (hip : ip.all isNumeric = true) (hfp0 : fp ≠ [])
    (hfp : fp.all isNumeric = true) {rest : List Byte} (hstop : stop1 rest = true) (fuel : Nat) (t : TR)
    (hio : t.ioFail = false) :
    ∃ t', findFirst (fuel + 1) { t with inp := (if neg then [45] else []) ++ (ip ++ 46 :: fp) ++ rest } =
        ({ kind := .floatLit, concrete := (if neg then [45] else []) ++ (ip ++ 46 :: fp) }, .tok, t') ∧
      Same t t' ∧ t'.inp = rest := by
  cases ip with
  | nil => exact absurd rfl hip0
  | cons c ip' =>
    simp only [List.all_cons, Bool.and_eq_true] at hip
    have hc := hip.1
    cases neg with
    | false =>
      obtain ⟨t', h1, h2, h3⟩ := numberLoop_float ip' hip.2 fp hfp0 hfp ((ip' ++ 46 :: (fp ++ rest)).length + 1)
        { t with last := some c } [c] true false rest hio hstop (by simp; omega)
      refine ⟨t', ?_, ⟨h2.errs, h2.pan, h2.na, h2.io, h2.keep⟩, h3⟩
      have hq : (c == b '"') = false := by
        apply beq_false_of_toNat; rw [b_toNat_quote]; have := numeric_range hc; omega
      simp only [Bool.false_eq_true, if_false, List.nil_append, List.cons_append, List.append_assoc, findFirst, readByte,
        skips_contains, numeric_not_blank hc, sbk_numeric hc, hq, hc, if_true, wrap, numberToken]
      simp only [List.cons_append, List.append_assoc] at h1
      rw [h1]
      simp
    | true =>
      obtain ⟨t', h1, h2, h3⟩ := numberLoop_float ip' hip.2 fp hfp0 hfp ((ip' ++ 46 :: (fp ++ rest)).length + 1)
        { t with last := some c } [45, c] true false rest hio hstop (by simp; omega)
      refine ⟨t', ?_, ⟨h2.errs, h2.pan, h2.na, h2.io, h2.keep⟩, h3⟩
      have h0 : isBlank 45 = false := by decide
      have h1' : ((45 : Byte) == b '"') = false := by decide
      have h2' : isNumeric 45 = false := by decide
      have h3' : ((45 : Byte) == b '>') = false := by decide
      have h4' : ((45 : Byte) == b '<') = false := by decide
      have h5' : ((45 : Byte) == b '/') = false := by decide
      have h6' : ((45 : Byte) == b '-') = true := by decide
      simp only [if_true, List.cons_append, List.nil_append, List.append_assoc, findFirst, readByte, skips_contains, h0,
        sbk_minus, h1', h2', h3', h4', h5', h6', hc, Bool.false_eq_true, if_false, wrap, numberToken]
      simp only [List.cons_append, List.append_assoc] at h1
      rw [h1]
      simp

theorem next_float (neg : Bool) {ip fp : List Byte} (hip0 : ip ≠ []) (hip : ip.all isNumeric = true) (hfp0 : fp ≠ [])
    (hfp : fp.all isNumeric = true) {rest : List Byte} (hstop : stop1 rest = true)
    {u : List Byte} (hu : Blanks u) (t : TR) (ht : Ok t)
    (hi : t.inp = u ++ ((if neg then [45] else []) ++ (ip ++ 46 :: fp) ++ rest)) :
    ∃ t', next t = (true, t') ∧ Ok t' ∧ t'.inp = rest ∧
      t'.nextTok = { kind := .floatLit, concrete := (if neg then [45] else []) ++ (ip ++ 46 :: fp) } := by
  obtain ⟨l, k, _, hl⟩ := ff_at hu t ((if neg then [45] else []) ++ (ip ++ 46 :: fp) ++ rest) (t.inp.length + 1)
    (by rw [hi]; simp; omega)
  rw [← eta_inp t _ hi] at hl
  obtain ⟨t1, h1, h2, h3⟩ := ff_float neg hip0 hip hfp0 hfp hstop k { t with last := l } ht.io
  replace hl := hl.trans h1
  have hn := next_of_ff ht hl (by rw [h2.errs]; exact ht.errs)
  refine ⟨_, hn, ⟨?_, ?_, ?_, ?_, ?_⟩, h3, rfl⟩
  · show t1.errs = []; rw [h2.errs]; exact ht.errs
  · show t1.panicked = false; rw [h2.pan]; exact ht.pan
  · show t1.nonAscii = false; rw [h2.na]; exact ht.na
  · show t1.ioFail = false; rw [h2.io]; exact ht.io
  · show t1.keep = false; rw [h2.keep]; exact ht.keep

theorem ff_negInf (fuel : Nat) (t : TR) (rest : List Byte) :
    findFirst (fuel + 1) { t with inp := 45 :: 105 :: 110 :: 102 :: rest } =
      ({ kind := .negInf, concrete := [45, 105, 110, 102] }, .tok, { t with inp := rest, last := some 102 }) := by
  have h0 : isBlank 45 = false := by decide
  have h1 : ((45 : Byte) == b '"') = false := by decide
  have h2 : isNumeric 45 = false := by decide
  have h3 : ((45 : Byte) == b '>') = false := by decide
  have h4 : ((45 : Byte) == b '<') = false := by decide
  have h5 : ((45 : Byte) == b '/') = false := by decide
  have h6 : ((45 : Byte) == b '-') = true := by decide
  have h7 : isNumeric 105 = false := by decide
  have h8 : ((105 : Byte) == b 'i') = true := by decide
  have h9 : (b 'n' == (110 : Byte)) = true := by decide
  have h10 : (b 'f' == (102 : Byte)) = true := by decide
  simp only [findFirst, readByte, skips_contains, h0, sbk_minus, h1, h2, h3, h4, h5, h6, h7, h8, expectOne, List.find?,
    h9, h10, Bool.false_eq_true, if_false, if_true, simple]
  simp

theorem next_negInf {u : List Byte} (hu : Blanks u) (rest : List Byte) (t : TR) (ht : Ok t)
    (hi : t.inp = u ++ 45 :: 105 :: 110 :: 102 :: rest) :
    ∃ t', next t = (true, t') ∧ Ok t' ∧ t'.inp = rest ∧
      t'.nextTok = { kind := .negInf, concrete := [45, 105, 110, 102] } := by
  obtain ⟨l, k, hk, hl⟩ := ff_at hu t (45 :: 105 :: 110 :: 102 :: rest) (t.inp.length + 1) (by rw [hi]; simp; omega)
  rw [← eta_inp t _ hi] at hl
  replace hl := hl.trans (ff_negInf k { t with last := l } rest)
  have hn := next_of_ff ht hl ht.errs
  exact ⟨_, hn, ⟨ht.errs, ht.pan, ht.na, ht.io, ht.keep⟩, rfl, rfl⟩

theorem next_number {s : List Byte} (hs : numLitOk s = true) {rest : List Byte} (hstop : stop1 rest = true)
    {u : List Byte} (hu : Blanks u) (t : TR) (ht : Ok t) (hi : t.inp = u ++ (s ++ rest)) :
    ∃ t', next t = (true, t') ∧ Ok t' ∧ t'.inp = rest ∧ t'.nextTok = { kind := .intLit, concrete := s } := by
  obtain ⟨l, k, _, hl⟩ := ff_at hu t (s ++ rest) (t.inp.length + 1) (by rw [hi]; simp; omega)
  rw [← eta_inp t _ hi] at hl
  obtain ⟨t1, h1, h2, h3⟩ := ff_number hs hstop k { t with last := l } ht.io
  replace hl := hl.trans h1
  have hn := next_of_ff ht hl (by rw [h2.errs]; exact ht.errs)
  refine ⟨_, hn, ⟨?_, ?_, ?_, ?_, ?_⟩, h3, rfl⟩
  · show t1.errs = []; rw [h2.errs]; exact ht.errs
  · show t1.panicked = false; rw [h2.pan]; exact ht.pan
  · show t1.nonAscii = false; rw [h2.na]; exact ht.na
  · show t1.ioFail = false; rw [h2.io]; exact ht.io
  · show t1.keep = false; rw [h2.keep]; exact ht.keep

/-! ### line comments -/

theorem takeWhile_body : ∀ (body : List Byte), commentBodyOk body = true → ∀ (rest : List Byte),
    (body ++ 10 :: rest).takeWhile (· != 10) = body
  | [], _, rest => by simp
  | c :: body, h, rest => by
    simp only [commentBodyOk, List.all_cons, Bool.and_eq_true] at h
    have ih := takeWhile_body body (by simpa [commentBodyOk] using h.2) rest
    simp only [List.cons_append, List.takeWhile_cons, h.1, if_true, ih]

theorem ff_comment {body : List Byte} (hb : commentBodyOk body = true) (fuel : Nat) (t : TR) (rest : List Byte) :
    findFirst (fuel + 1) { t with inp := 47 :: 47 :: (body ++ 10 :: rest) } =
      ({ kind := .lineComment, concrete := 47 :: 47 :: (body ++ [10]) }, .tok, { t with inp := rest, last := some 10 }) := by
  have h0 : isBlank 47 = false := by decide
  have h1 : ((47 : Byte) == b '"') = false := by decide
  have h2 : isNumeric 47 = false := by decide
  have h3 : ((47 : Byte) == b '>') = false := by decide
  have h4 : ((47 : Byte) == b '<') = false := by decide
  have h5 : ((47 : Byte) == b '/') = true := by decide
  have h6 : (b '*' == (47 : Byte)) = false := by decide
  have h7 : (b '/' == (47 : Byte)) = true := by decide
  simp only [findFirst, readByte, skips_contains, h0, sbk_slash, h1, h2, h3, h4, h5, expectOne, List.find?, h6, h7,
    Bool.false_eq_true, if_false, if_true, wrap, lineCommentToken, takeWhile_body body hb rest]
  simp

theorem next_comment {body : List Byte} (hb : commentBodyOk body = true) {u : List Byte} (hu : Blanks u)
    (rest : List Byte) (t : TR) (ht : Ok t) (hi : t.inp = u ++ 47 :: 47 :: (body ++ 10 :: rest)) :
    ∃ t', next t = (true, t') ∧ Ok t' ∧ t'.inp = rest ∧
      t'.nextTok = { kind := .lineComment, concrete := 47 :: 47 :: (body ++ [10]) } := by
  obtain ⟨l, k, hk, hl⟩ := ff_at hu t (47 :: 47 :: (body ++ 10 :: rest)) (t.inp.length + 1) (by rw [hi]; simp; omega)
  rw [← eta_inp t _ hi] at hl
  replace hl := hl.trans (ff_comment hb k { t with last := l } rest)
  have hn := next_of_ff ht hl ht.errs
  exact ⟨_, hn, ⟨ht.errs, ht.pan, ht.na, ht.io, ht.keep⟩, rfl, rfl⟩

/-! ### the generic lexing theorem -/

theorem blanks_stop1 {u : List Byte} (hu : Blanks u) {r : List Byte} (hr : stop1 r = true) : stop1 (u ++ r) = true := by
  cases u with
  | nil => exact hr
  | cons c u => exact stopByte_blank hu.head

theorem startsStop_stop1 {s : List Byte} (h : startsStop s = true) (r : List Byte) : stop1 (s ++ r) = true := by
  cases s with
  | nil => simp [startsStop] at h
  | cons c s => exact h

/-- what follows a word or a number stops it -/
theorem stop_after (w : Nat → List Byte) (hw : ∀ k, Blanks (w k)) (a : Lexeme) (r : List Lexeme) (n : Nat)
    (hg : GlueOk (a :: r)) (hs : endsSticky a.tok.concrete = true)
    (hk : ∀ lx, r[0]? = some lx → lx.sep ≠ [] → w (n + 1) ≠ []) :
    stop1 (render w (n + 1) r) = true := by
  cases r with
  | nil =>
    simp only [render]
    have := blanks_stop1 (hw (n + 1)) (r := []) rfl
    simpa using this
  | cons c r =>
    simp only [render]
    by_cases hwn : w (n + 1) = []
    · rw [hwn, List.nil_append]
      have hsep : c.sep = [] := by
        by_cases h : c.sep = []
        · exact h
        · exact absurd hwn (hk c rfl h)
      have := hg.1 hsep
      simp only [glue, hs, Bool.not_true, Bool.false_or] at this
      exact startsStop_stop1 this _
    · cases hq : w (n + 1) with
      | nil => exact absurd hq hwn
      | cons x xs =>
        have := (hw (n + 1))
        rw [hq] at this
        exact stopByte_blank this.head

theorem endsSticky_num {s : List Byte} (h : numLitOk s = true) : endsSticky s = true := by
  cases s with
  | nil => simp [numLitOk] at h
  | cons c r =>
    simp only [numLitOk, Bool.or_eq_true, Bool.and_eq_true, beq_iff_eq] at h
    rcases h with (⟨hc, hr⟩ | ⟨hc, hr⟩) | ⟨hc, hr⟩
    · apply endsSticky_all _ (by simp)
      simp only [List.all_cons, identCont_numeric hc, Bool.true_and]
      rw [List.all_eq_true] at hr ⊢
      intro x hx; exact identCont_numeric (hr x hx)
    · subst hc
      match r, hr with
      | x :: h :: hs', hr =>
        simp only [Bool.and_eq_true, beq_iff_eq] at hr
        obtain ⟨rfl, hh⟩ := hr
        have : endsSticky (h :: hs') = true := by
          apply endsSticky_all _ (by simp)
          rw [List.all_eq_true] at hh ⊢
          intro y hy
          have := hh y hy
          simp only [Bool.or_eq_true] at this
          rcases this with h | h
          · exact identCont_numeric h
          · exact identCont_hex h
        simpa [endsSticky] using this
    · subst hc
      match r, hr with
      | d :: ds, hr =>
        have : endsSticky (d :: ds) = true := by
          apply endsSticky_all _ (by simp)
          rw [List.all_eq_true] at hr ⊢
          intro y hy; exact identCont_numeric (hr y hy)
        simpa [endsSticky] using this

theorem lex_render_aux (w : Nat → List Byte) (hw : ∀ k, Blanks (w k)) : ∀ (l : List Lexeme) (n : Nat),
    (∀ lx ∈ l, TokOk lx.tok) → GlueOk l → (∀ k lx, l[k]? = some lx → lx.sep ≠ [] → w (n + k) ≠ []) →
    LexI (l.map (·.tok)) (render w n l)
  | [], n, _, _, _ => LexI.eof (hw n)
  | a :: r, n, htok, hg, hk => by
    have hg' : GlueOk r := by
      cases r with
      | nil => trivial
      | cons c r => exact hg.2
    have ih := lex_render_aux w hw r (n + 1) (fun lx h => htok lx (List.mem_cons_of_mem _ h)) hg'
      (fun k lx h1 h2 => by
        have := hk (k + 1) lx (by simpa using h1) h2
        rwa [Nat.add_assoc, Nat.add_comm 1 k])
    have hstop : endsSticky a.tok.concrete = true → stop1 (render w (n + 1) r) = true := fun hs =>
      stop_after w hw a r n hg hs (fun lx h1 h2 => by
        have := hk 1 lx (by simpa using h1) h2
        exact this)
    have ha := htok a (List.mem_cons_self)
    simp only [List.map_cons, render]
    generalize hrest : render w (n + 1) r = rest at ih hstop
    cases hta : a.tok with
    | mk kind conc =>
    rw [hta] at ha hstop
    cases ha with
    | word s hs =>
      exact LexI.ident hs (stop1_idStop (hstop (endsSticky_ident hs))) (hw n) ih
    | single c k hb hk' =>
      exact LexI.single hb hk' (hw n) ih
    | arrow =>
      intro t ht hi
      obtain ⟨t', h1, h2, h3, h4⟩ := next_arrow (hw n) rest t ht hi
      exact ⟨ht, t', h1, h4, ih t' h2 h3⟩
    | num s hs =>
      intro t ht hi
      obtain ⟨t', h1, h2, h3, h4⟩ := next_number hs (hstop (endsSticky_num hs)) (hw n) t ht hi
      exact ⟨ht, t', h1, h4, ih t' h2 h3⟩
    | str s hs =>
      intro t ht hi
      obtain ⟨t', h1, h2, h3, h4⟩ := next_string hs (hw n) rest t ht (by rw [hi]; simp)
      exact ⟨ht, t', h1, h4, ih t' h2 h3⟩
    | comment s hs =>
      intro t ht hi
      obtain ⟨t', h1, h2, h3, h4⟩ := next_comment hs (hw n) rest t ht (by rw [hi]; simp)
      exact ⟨ht, t', h1, h4, ih t' h2 h3⟩
    | shl =>
      intro t ht hi
      obtain ⟨t', h1, h2, h3, h4⟩ := next_shl (hw n) rest t ht hi
      exact ⟨ht, t', h1, h4, ih t' h2 h3⟩
    | shr =>
      intro t ht hi
      obtain ⟨t', h1, h2, h3, h4⟩ := next_shr (hw n) rest t ht hi
      exact ⟨ht, t', h1, h4, ih t' h2 h3⟩
    | float neg ip fp hip0 hip hfp0 hfp =>
      intro t ht hi
      have hst : endsSticky ((if neg then [45] else []) ++ (ip ++ 46 :: fp)) = true := by
        have : endsSticky fp = true := endsSticky_all fp hfp0 (by
          rw [List.all_eq_true] at hfp ⊢; intro x hx; exact identCont_numeric (hfp x hx))
        cases fp with
        | nil => exact absurd rfl hfp0
        | cons y ys =>
          have h2 := endsSticky_suffix ((if neg then [45] else []) ++ ip ++ [46]) y ys
          simpa [List.append_assoc] using h2.trans this
      obtain ⟨t', h1, h2, h3, h4⟩ := next_float neg hip0 hip hfp0 hfp (hstop hst) (hw n) t ht (by rw [hi])
      exact ⟨ht, t', h1, h4, ih t' h2 h3⟩
    | negInf =>
      intro t ht hi
      obtain ⟨t', h1, h2, h3, h4⟩ := next_negInf (hw n) rest t ht hi
      exact ⟨ht, t', h1, h4, ih t' h2 h3⟩

/-- The tokenizer delivers every admissible layout of a well-formed lexeme list as exactly its tokens. -/
theorem lex_render {l : List Lexeme} (hl : LexsOk l) {w : Nat → List Byte} (hw : LayoutOk w l) :
    LexI (l.map (·.tok)) (render w 0 l) :=
  lex_render_aux w hw.blank l 0 hl.toks hl.glue (fun k lx h1 h2 => by simpa using hw.keep k lx h1 h2)

/-! ### the canonical layout -/

theorem render_canon_aux (w : Nat → List Byte) : ∀ (l : List Lexeme) (n : Nat),
    (∀ k lx, l[k]? = some lx → w (n + k) = lx.sep) → w (n + l.length) = [] → render w n l = renderC l
  | [], n, _, he => by simpa [render, renderC] using he
  | a :: r, n, hk, he => by
    have h0 := hk 0 a rfl
    have ih := render_canon_aux w r (n + 1)
      (fun k lx h => by have := hk (k + 1) lx (by simpa using h); rwa [Nat.add_assoc, Nat.add_comm 1 k])
      (by rw [← he]; simp [Nat.add_assoc, Nat.add_comm 1])
    simp only [render, renderC, ih]
    rw [← h0]; rfl

theorem render_canon (l : List Lexeme) : render (canonW l) 0 l = renderC l := by
  apply render_canon_aux
  · intro k lx h; simp [canonW, h]
  · simp [canonW]

theorem canonW_ok {l : List Lexeme} (hl : LexsOk l) : LayoutOk (canonW l) l := by
  refine ⟨?_, ?_⟩
  · intro k c hc
    simp only [canonW] at hc
    cases h : l[k]? with
    | none => rw [h] at hc; cases hc
    | some lx => rw [h] at hc; exact hl.seps lx (List.mem_of_getElem? h) c hc
  · intro k lx h hne
    simp [canonW, h, hne]

/-- every token has at least one byte -/
theorem tokOk_nonempty {tk : Token} (h : TokOk tk) : tk.concrete ≠ [] := by
  cases h with
  | word s hs => cases s with
    | nil => simp [identBytes] at hs
    | cons c r => simp
  | single c k _ _ => simp
  | arrow => simp
  | num s hs => cases s with
    | nil => simp [numLitOk] at hs
    | cons c r => simp
  | str s _ => simp
  | comment s _ => simp
  | shl => simp
  | shr => simp
  | float neg ip fp _ _ _ _ => cases neg <;> simp
  | negInf => simp

theorem render_len (w : Nat → List Byte) : ∀ (l : List Lexeme) (n : Nat), (∀ lx ∈ l, TokOk lx.tok) →
    l.length ≤ (render w n l).length
  | [], n, _ => by simp
  | a :: r, n, h => by
    have ih := render_len w r (n + 1) (fun lx hx => h lx (List.mem_cons_of_mem _ hx))
    have := tokOk_nonempty (h a (List.mem_cons_self))
    have : 1 ≤ a.tok.concrete.length := by
      cases hc : a.tok.concrete with
      | nil => exact absurd hc this
      | cons _ _ => simp
    simp only [render, List.length_append, List.length_cons]
    omega

/-! ### a one-pass well-formedness check

`WFL p l`: the lexeme list `l` is well-formed when it follows a token whose last byte is (`p = true`) or is
not (`p = false`) a letter, digit or underscore. -/

def WFL : Bool → List Lexeme → Prop
  | _, [] => True
  | p, c :: r =>
    TokOk c.tok ∧ Blanks c.sep ∧ (c.sep = [] → p = true → startsStop c.tok.concrete = true) ∧
    WFL (endsSticky c.tok.concrete) r

theorem WFL.glueOk : ∀ {l : List Lexeme} {p : Bool}, WFL p l → GlueOk l
  | [], _, _ => trivial
  | [_], _, _ => trivial
  | a :: c :: r, _, h => by
    refine ⟨fun hs => ?_, WFL.glueOk h.2.2.2⟩
    have := h.2.2.2.2.2.1 hs
    simp only [glue]
    cases hsa : endsSticky a.tok.concrete with
    | false => rfl
    | true => simpa using this hsa

theorem WFL.toks : ∀ {l : List Lexeme} {p : Bool}, WFL p l → ∀ lx ∈ l, TokOk lx.tok ∧ Blanks lx.sep
  | [], _, _, _, h => by cases h
  | a :: r, _, h, lx, hm => by
    rcases List.mem_cons.1 hm with rfl | hm
    · exact ⟨h.1, h.2.1⟩
    · exact WFL.toks h.2.2.2 lx hm

theorem WFL.lexsOk {l : List Lexeme} {p : Bool} (h : WFL p l) : LexsOk l :=
  ⟨fun lx hm => (h.toks lx hm).1, fun lx hm => (h.toks lx hm).2, h.glueOk⟩

theorem WFL.mono : ∀ {l : List Lexeme}, WFL true l → ∀ p, WFL p l
  | [], _, _ => trivial
  | _ :: _, h, _ => ⟨h.1, h.2.1, fun hs _ => h.2.2.1 hs rfl, h.2.2.2⟩

theorem tokOk_kw {s : List Byte} {k : TK} (h1 : identBytes s = true) (h2 : keywordKind s = some k) :
    TokOk { kind := k, concrete := s } := by
  have := TokOk.word s h1
  rw [h2] at this
  exact this

theorem tokOk_single {c : Byte} {k : TK} (h1 : isBlank c = false) (h2 : singleByteKind c = some k) :
    TokOk { kind := k, concrete := [c] } := TokOk.single c k h1 h2

theorem endsSticky_concat : ∀ (l : List Byte) (c : Byte), endsSticky (l ++ [c]) = identCont c
  | [], c => rfl
  | [x], c => by simp [endsSticky]
  | x :: y :: l, c => by
    have := endsSticky_concat (y :: l) c
    simpa [endsSticky] using this

theorem endsSticky_str (s : List Byte) : endsSticky (34 :: (s ++ [34])) = false := by
  have h := endsSticky_concat (34 :: s) 34
  have h2 : identCont 34 = false := by decide
  rw [h2] at h
  simpa using h

end Canon
end Bebop.Text
