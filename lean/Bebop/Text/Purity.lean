/-
  Purity: the two mechanisms by which a call of Validate / Generate could depend on anything but its
  argument, or change it.

  1. Go slices. A `File` is passed to Generate by value, but its slices share the caller's backing arrays.
     `append(s, x)` writes into the shared array when `len(s) < cap(s)`. The model: a heap of backing arrays
     and slice headers (array id, offset, length, capacity).
  2. Go map iteration order. Any permutation of the entries may be produced; emission goes through
     sort.Slice, modelled as "some sorted permutation".
-/
import Bebop.Generated.PurityFacts

namespace Bebop.Purity

structure Slice where
  arr : Nat
  off : Nat
  len : Nat
  cap : Nat
  deriving Repr, DecidableEq, Inhabited

abbrev Heap := List (List Nat)

def readSlice (h : Heap) (s : Slice) : List Nat := ((h.getD s.arr []).drop s.off).take s.len

/-- `append(s, x)`: in place when there is spare capacity, otherwise a fresh array (any growth policy). -/
def append1 (h : Heap) (s : Slice) (x : Nat) : Heap × Slice :=
  if s.len < s.cap then
    (h.set s.arr ((h.getD s.arr []).set (s.off + s.len) x), { s with len := s.len + 1 })
  else
    (h ++ [readSlice h s ++ [x] ++ List.replicate s.len 0],
     { arr := h.length, off := 0, len := s.len + 1, cap := 2 * s.len + 1 })

def appendAll (h : Heap) (s : Slice) : List Nat → Heap × Slice
  | [] => (h, s)
  | x :: xs => let (h', s') := append1 h s x; appendAll h' s' xs

/-- `s[:len(s):len(s)]` -/
def clip (s : Slice) : Slice := { s with cap := s.len }

/-! ### Generate's stores into its receiver copy, as listed by the extractor -/

inductive Ev where
  | clip (field : String)
  | append (field : String)
  | store (field : String)
  | other (s : String)
  deriving Repr, DecidableEq, Inhabited

def parseEv (e : String × String) : Ev :=
  if e.1 == "clip" then .clip e.2
  else if e.1 == "append" then .append e.2
  else if e.1 == "store" then .store e.2
  else .other e.1

/-- Every append to a field comes after a clip of that field with no other store in between, and the
    receiver is a value (no "pointer-receiver" event). -/
def eventsSafe : List Ev → List String → Bool
  | [], _ => true
  | .clip f :: rest, clipped => eventsSafe rest (f :: clipped)
  | .append f :: rest, clipped => clipped.contains f && eventsSafe rest clipped
  | .store f :: rest, clipped => eventsSafe rest (clipped.filter (· != f))
  | .other _ :: _, _ => false

def generateEvents : List Ev := PurityFacts.generateEvents.map parseEv

/-- One field of the receiver copy: its slice header, and whether it is known to be detached from the
    caller's arrays or full. Running the events with adversarial appended data. -/
def runField (field : String) : List Ev → (Nat → List Nat) → Nat → Heap → Slice → Heap × Slice
  | [], _, _, h, s => (h, s)
  | .clip f :: rest, data, i, h, s => runField field rest data (i + 1) h (if f == field then clip s else s)
  | .append f :: rest, data, i, h, s =>
    if f == field then
      let (h', s') := appendAll h s (data i)
      runField field rest data (i + 1) h' s'
    else runField field rest data (i + 1) h s
  | _ :: rest, data, i, h, s => runField field rest data (i + 1) h s

/-! ### Map iteration order -/

/-- entries come out of a Go map in some order; emission sorts them by index -/
def SortedBy (r : List (Nat × β)) : Prop := r.Pairwise (fun a b => a.1 ≤ b.1)

/-! ### The audit of map ranges -/

def rangeOk (r : String × String × String × String) : Bool :=
  r.2.2.2 == "into-map" || r.2.2.2 == "collect-sorted" || r.2.2.2 == "order-free" || r.2.2.2 == "exists-break"

end Bebop.Purity
