/-
  Helper lemmas: from the field-level decoders to the public entry points
  (UnmarshalBebop / MustUnmarshalBebop / DecodeBebop on a top-level record).
-/
import Bebop.Proofs.RoundTrip
import Bebop.Proofs.NoPanic
import Bebop.Proofs.Trunc
import Bebop.Proofs.StreamTrunc

namespace Bebop

theorem bind_eq_ok {α β} {r : Res α} {g : α → Res β} {b : β} (h : (r >>= g) = .ok b) :
    ∃ a, r = .ok a ∧ g a = .ok b := by
  cases r with
  | ok a => exact ⟨a, rfl, h⟩
  | err => cases h
  | panic => cases h
  | fuel => cases h

theorem bind_eq_err_of {α β} {r : Res α} {g : α → Res β} (h : r = .err) : (r >>= g) = .err := by
  subst h; rfl

/-- The nested form of a record decode determines the top-level form. -/
theorem unmarshal_of_dec (f : Nat) (env : Env) (safe : Bool) (n : Nat) (buf : List Byte) (v : Val)
    (rest : List Byte) (h : dec (f+1) env safe (.ref n) buf = .ok (v, rest)) :
    unmarshal f env safe n buf = .ok v := by
  simp only [dec] at h
  unfold unmarshal
  cases hn : env[n]? with
  | none => rw [hn] at h; cases h
  | some d =>
    rw [hn] at h
    cases d with
    | struct tys =>
      simp only at h ⊢
      obtain ⟨⟨vs, r1⟩, h1, h2⟩ := bind_eq_ok h
      simp only [h1, Res.ok_bind, Res.pure_eq]
      simp only at h2
      split at h2
      · simp only [Res.pure_eq, Res.ok.injEq, Prod.mk.injEq] at h2; rw [h2.1]
      · cases h2
    | msg fds =>
      simp only at h ⊢
      obtain ⟨⟨v', r1⟩, h1, h2⟩ := bind_eq_ok h
      simp only [h1, Res.ok_bind, Res.pure_eq]
      simp only at h2
      have hv : v' = v := by
        cases safe
        · simp only [Bool.false_eq_true, if_false] at h2
          split at h2
          · simp only [Res.pure_eq, Res.ok.injEq, Prod.mk.injEq] at h2; exact h2.1
          · cases h2
        · simp only [if_true] at h2
          split at h2
          · simp only [Res.pure_eq, Res.ok.injEq, Prod.mk.injEq] at h2; exact h2.1
          · cases h2
      rw [hv]
    | union brs =>
      simp only at h ⊢
      obtain ⟨⟨v', r1⟩, h1, h2⟩ := bind_eq_ok h
      simp only [h1, Res.ok_bind, Res.pure_eq]
      simp only at h2
      have hv : v' = v := by
        cases safe
        · simp only [Bool.false_eq_true, if_false] at h2
          split at h2
          · simp only [Res.pure_eq, Res.ok.injEq, Prod.mk.injEq] at h2; exact h2.1
          · cases h2
        · simp only [if_true] at h2
          split at h2
          · simp only [Res.pure_eq, Res.ok.injEq, Prod.mk.injEq] at h2; exact h2.1
          · cases h2
      rw [hv]

theorem unmarshal_enc (env : Env) (hE : EnvOk env) (n : Nat) (v : Val) (safe : Bool) (f : Nat)
    (h : wt env (.ref n) v) (hf : rank v < f + 1) (rest : List Byte) :
    unmarshal f env safe n (enc v ++ rest) = .ok v :=
  unmarshal_of_dec f env safe n _ v rest (dec_enc env hE v (.ref n) safe (f+1) rest h hf)

/-- Top-level records never make the checked decoder panic. -/
theorem unmarshal_no_panic (env : Env) (f n : Nat) (buf : List Byte) :
    unmarshal f env true n buf ≠ .panic := by
  obtain ⟨hd, hm, hu⟩ := dec_adv_all env f
  unfold unmarshal
  cases hn : env[n]? with
  | none => simp
  | some d =>
    cases d with
    | struct tys =>
      simp only
      have h2 := decFields_adv env (dec f env true) hd tys buf
      cases hr : decFields (dec f env true) tys buf with
      | ok z => simp
      | err => simp
      | panic => rw [hr] at h2; simp [AdvStruct] at h2
      | fuel => simp
    | msg fds =>
      simp only
      have h2 := hm n fds buf hn
      cases hr : decMsgBody f env true fds buf with
      | ok z => simp
      | err => simp
      | panic => rw [hr] at h2; simp [AdvBody] at h2
      | fuel => simp
    | union brs =>
      simp only
      have h2 := hu n brs buf hn
      cases hr : decUnionBody f env true brs buf with
      | ok z => simp
      | err => simp
      | panic => rw [hr] at h2; simp [AdvBody] at h2
      | fuel => simp

/-- The nested form errs ⇒ the top-level form errs (the error arises before the cursor advance). -/
theorem unmarshal_err_of_parts (f : Nat) (env : Env) (n : Nat) (buf : List Byte)
    (hs : ∀ tys, env[n]? = some (.struct tys) → decFields (dec f env true) tys buf = .err)
    (hm : ∀ fds, env[n]? = some (.msg fds) → decMsgBody f env true fds buf = .err)
    (hu : ∀ brs, env[n]? = some (.union brs) → decUnionBody f env true brs buf = .err) :
    unmarshal f env true n buf = .err := by
  unfold unmarshal
  cases hn : env[n]? with
  | none => rfl
  | some d =>
    cases d with
    | struct tys => simp [hs tys hn]
    | msg fds => simp [hm fds hn]
    | union brs => simp [hu brs hn]

end Bebop
