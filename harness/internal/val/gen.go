package val

import (
	"math"
	"math/rand"

	"verif/harness/internal/schema"
)

// GenConfig tunes the value generator.
type GenConfig struct {
	SetDeprecated bool    // also populate deprecated message fields
	Depth         int     // record nesting budget (default 4)
	Budget        int     // node budget (default 1500)
	BigProb       float64 // probability of a ~300 element container / long string (default 0.03)
	PresentProb   float64 // probability that a message field is present (default 0.6)
	SmallLen      int     // maximum "small" length (default 4)
	NoBig         bool    // never generate long containers or strings
}

func (c GenConfig) withDefaults() GenConfig {
	if c.Depth == 0 {
		c.Depth = 4
	}
	if c.Budget == 0 {
		c.Budget = 1500
	}
	if c.BigProb == 0 {
		c.BigProb = 0.03
	}
	if c.PresentProb == 0 {
		c.PresentProb = 0.6
	}
	if c.SmallLen == 0 {
		c.SmallLen = 4
	}
	return c
}

type gen struct {
	rng    *rand.Rand
	env    *schema.Env
	cfg    GenConfig
	budget int
}

// MaxDateTicks bounds |ticks| so that ticks*100 fits in int64.
const MaxDateTicks = int64(math.MaxInt64/100) - 1

// Random draws a well-typed value of type ty.
func Random(rng *rand.Rand, env *schema.Env, ty schema.Ty, cfg GenConfig) Val {
	cfg = cfg.withDefaults()
	g := &gen{rng: rng, env: env, cfg: cfg, budget: cfg.Budget}
	return g.val(ty, cfg.Depth, 0)
}

// RandomRecord draws a value of record def i.
func RandomRecord(rng *rand.Rand, env *schema.Env, def int, cfg GenConfig) Val {
	return Random(rng, env, schema.Ty{K: schema.TyRef, Ref: def}, cfg)
}

func (g *gen) scalar(w int) uint64 {
	bits := uint(8 * w)
	mask := uint64(math.MaxUint64)
	if bits < 64 {
		mask = (uint64(1) << bits) - 1
	}
	switch g.rng.Intn(10) {
	case 0:
		return 0
	case 1:
		return 1
	case 2:
		return mask // max unsigned, -1 signed
	case 3:
		return uint64(1) << (bits - 1) // min signed
	case 4:
		return (uint64(1) << (bits - 1)) - 1 // max signed
	case 5:
		return uint64(g.rng.Intn(256)) & mask
	default:
		return g.rng.Uint64() & mask
	}
}

var f32Patterns = []uint32{
	0, 0x80000000, 0x7f800000, 0xff800000, 0x7fc00000, 0x7f800001, 0xffc12345, 0x7fffffff,
	0x3f800000, 0xbf800000, 1, 0x007fffff, 0x7f7fffff,
}

var f64Patterns = []uint64{
	0, 0x8000000000000000, 0x7ff0000000000000, 0xfff0000000000000, 0x7ff8000000000000,
	0x7ff0000000000001, 0xfff8000012345678, 0x7fffffffffffffff,
	0x3ff0000000000000, 0xbff0000000000000, 1, 0x000fffffffffffff, 0x7fefffffffffffff,
}

func (g *gen) f32() uint64 {
	if g.rng.Intn(2) == 0 {
		return uint64(f32Patterns[g.rng.Intn(len(f32Patterns))])
	}
	return uint64(g.rng.Uint32())
}

func (g *gen) f64() uint64 {
	if g.rng.Intn(2) == 0 {
		return f64Patterns[g.rng.Intn(len(f64Patterns))]
	}
	return g.rng.Uint64()
}

func (g *gen) date() uint64 {
	var t int64
	switch g.rng.Intn(8) {
	case 0:
		t = 0
	case 1:
		t = 1
	case 2:
		t = -1
	case 3:
		t = MaxDateTicks
	case 4:
		t = -MaxDateTicks
	case 5:
		t = 17000000000000000 + g.rng.Int63n(1000000000000) // around 2023
	default:
		t = g.rng.Int63n(MaxDateTicks)
		if g.rng.Intn(2) == 0 {
			t = -t
		}
	}
	return uint64(t)
}

func (g *gen) str() []byte {
	switch r := g.rng.Intn(20); {
	case r < 3:
		return []byte{}
	case r < 10:
		n := 1 + g.rng.Intn(12)
		b := make([]byte, n)
		for i := range b {
			b[i] = byte(' ' + g.rng.Intn(95))
		}
		return b
	case r < 12:
		return []byte{0xff, 0xfe, 0xc0, 0x80, 0x00, 'a'}
	case r < 14:
		return []byte("h\xc3\xa9llo \xe2\x82\xac \xf0\x9f\x98\x80")
	case r < 15:
		return []byte{0}
	case r < 16 && !g.cfg.NoBig && g.budget > 200:
		n := 250 + g.rng.Intn(800)
		g.budget -= n / 16
		b := make([]byte, n)
		g.rng.Read(b)
		return b
	default:
		n := g.rng.Intn(6)
		b := make([]byte, n)
		g.rng.Read(b)
		return b
	}
}

// length draws a container length.
func (g *gen) length(containerDepth int) int {
	if g.budget <= 0 {
		return 0
	}
	r := g.rng.Float64()
	switch {
	case r < 0.2:
		return 0
	case r < 0.2+g.cfg.BigProb && !g.cfg.NoBig && containerDepth == 0 && g.budget > 700:
		return 256 + g.rng.Intn(90)
	}
	return 1 + g.rng.Intn(g.cfg.SmallLen)
}

// keyString gives the identity of a key under Go ==.
func keyIdent(kt schema.Ty, k Val) (string, bool) {
	switch kt.K {
	case schema.TyF32:
		b := uint32(k.N)
		if b&0x7f800000 == 0x7f800000 && b&0x007fffff != 0 {
			return "", false
		}
		if b == 0x80000000 {
			k.N = 0
		}
	case schema.TyF64:
		b := k.N
		if b&0x7ff0000000000000 == 0x7ff0000000000000 && b&0x000fffffffffffff != 0 {
			return "", false
		}
		if b == 0x8000000000000000 {
			k.N = 0
		}
	}
	return k.String(), true
}

func (g *gen) val(ty schema.Ty, depth, cdepth int) Val {
	g.budget--
	switch ty.K {
	case schema.TyBool:
		return Scalar(1, uint64(g.rng.Intn(2)))
	case schema.TyScalar:
		return Scalar(ty.W, g.scalar(ty.W))
	case schema.TyF32:
		return Scalar(4, g.f32())
	case schema.TyF64:
		return Scalar(8, g.f64())
	case schema.TyDate:
		return Scalar(8, g.date())
	case schema.TyStr:
		return Val{K: KStr, B: g.str()}
	case schema.TyGuid:
		b := make([]byte, 16)
		if g.rng.Intn(8) != 0 {
			g.rng.Read(b)
		}
		return Val{K: KGuid, B: b}
	case schema.TyArr:
		n := g.length(cdepth)
		if ty.Elem.K == schema.TyRef && depth <= 0 {
			n = 0
		}
		v := Val{K: KArr}
		for i := 0; i < n && g.budget > 0; i++ {
			v.Elems = append(v.Elems, g.val(*ty.Elem, depth, cdepth+1))
		}
		return v
	case schema.TyMap:
		n := g.length(cdepth)
		if ty.Elem.K == schema.TyRef && depth <= 0 {
			n = 0
		}
		switch {
		case ty.Key.K == schema.TyBool && n > 2:
			n = 2
		case ty.Key.K == schema.TyScalar && ty.Key.W == 1 && n > 200:
			n = 200
		}
		v := Val{K: KMap}
		seen := map[string]bool{}
		for i := 0; i < n && g.budget > 0; i++ {
			var k Val
			ok := false
			for try := 0; try < 12 && !ok; try++ {
				k = g.val(*ty.Key, depth, cdepth+1)
				g.budget++
				id, valid := keyIdent(*ty.Key, k)
				if valid && !seen[id] {
					seen[id] = true
					ok = true
				}
			}
			if !ok {
				break
			}
			v.Keys = append(v.Keys, k)
			v.Elems = append(v.Elems, g.val(*ty.Elem, depth, cdepth+1))
		}
		return v
	case schema.TyRef:
		d := g.env.Defs[ty.Ref]
		if depth < -64 {
			panic("val: runaway recursion generating " + d.Name)
		}
		switch d.Kind {
		case schema.Struct:
			v := Val{K: KStruct}
			for _, fd := range d.Fields {
				v.Elems = append(v.Elems, g.val(fd.Ty, depth-1, cdepth))
			}
			return v
		case schema.Message:
			v := Val{K: KMsg}
			if depth <= 0 {
				return v
			}
			for _, fd := range d.Fields {
				p := g.cfg.PresentProb
				if fd.Deprecated {
					if !g.cfg.SetDeprecated {
						continue
					}
					p = 0.3
				}
				if g.budget <= 0 || g.rng.Float64() >= p {
					continue
				}
				v.Idx = append(v.Idx, fd.Idx)
				v.Elems = append(v.Elems, g.val(fd.Ty, depth-1, cdepth))
			}
			return v
		case schema.Union:
			if len(d.Branches) == 0 {
				return EmptyUnion()
			}
			b := d.Branches[g.rng.Intn(len(d.Branches))]
			m := g.val(schema.Ty{K: schema.TyRef, Ref: b.Ref}, depth-1, cdepth)
			return Val{K: KUnion, Disc: b.Disc, Elems: []Val{m}}
		}
	}
	panic("val: bad type")
}

// Permute returns a copy of v with the entries of every map in a random order.
func Permute(rng *rand.Rand, v Val) Val {
	out := v
	if len(v.Elems) > 0 {
		out.Elems = make([]Val, len(v.Elems))
		for i, e := range v.Elems {
			out.Elems[i] = Permute(rng, e)
		}
	}
	if v.K == KMap && len(v.Keys) > 1 {
		perm := rng.Perm(len(v.Keys))
		keys := make([]Val, len(perm))
		elems := make([]Val, len(perm))
		for i, p := range perm {
			keys[i] = v.Keys[p]
			elems[i] = out.Elems[p]
		}
		out.Keys, out.Elems = keys, elems
	}
	return out
}
