/-
  Helper lemmas about the ReadFile model.

  `PresP m`: the parser action `m` changes the token reader only through the tokenizer, so whatever the
  tokenizer preserves (`Rel`: no new panic, the reader's ending) is preserved by `m` on every exit.
  Proved once per parser function with the `presp` tactic; from it: ReadFile never panics, and it reports
  success only when the tokenizer has reached the clean end of the input.
-/
import Bebop.Text.Parser
import Bebop.Proofs.Tokenizer

namespace Bebop.Text

/-- What the tokenizer guarantees across any number of `Next` calls. -/
def Rel (t t' : TR) : Prop := (t.panicked = false → t'.panicked = false) ∧ t'.ioFail = t.ioFail

theorem Rel.refl (t : TR) : Rel t t := ⟨id, rfl⟩
theorem Rel.trans {a b c : TR} (h1 : Rel a b) (h2 : Rel b c) : Rel a c :=
  ⟨fun h => h2.1 (h1.1 h), by rw [h2.2, h1.2]⟩

def PRel {α} (t : TR) : PR α → Prop
  | .ok _ t' => Rel t t'
  | .err t' => Rel t t'
  | .decline t' => Rel t t'
  | .fuel => True

def PresP {α} (m : P α) : Prop := ∀ t, PRel t (m t)

theorem presP_pure {α} (a : α) : PresP (pure a : P α) := fun t => Rel.refl t
theorem presP_fail {α} : PresP (fail : P α) := fun t => Rel.refl t
theorem presP_declined {α} : PresP (declined : P α) := fun t => Rel.refl t
theorem presP_outOfFuel {α} : PresP (outOfFuel : P α) := fun _ => trivial
theorem presP_pTok : PresP pTok := fun t => Rel.refl t
theorem presP_pHasErr : PresP pHasErr := fun t => Rel.refl t
theorem presP_getTR : PresP getTR := fun t => Rel.refl t
theorem presP_pUnNext : PresP pUnNext := fun t => ⟨id, rfl⟩
theorem presP_setKeep : PresP (fun t => PR.ok () { t with keep := false } : P Unit) := fun t => ⟨id, rfl⟩

theorem presP_bind {α β} (m : P α) (k : α → P β) (hm : PresP m) (hk : ∀ a, PresP (k a)) : PresP (m >>= k) := by
  intro t
  show PRel t (match m t with | .ok a t' => k a t' | .err t' => .err t' | .fuel => .fuel | .decline t' => .decline t')
  have h1 := hm t
  cases hr : m t with
  | ok a t1 =>
    rw [hr] at h1
    have h2 := hk a t1
    simp only
    cases hr2 : k a t1 with
    | ok b t2 => rw [hr2] at h2; exact Rel.trans h1 h2
    | err t2 => rw [hr2] at h2; exact Rel.trans h1 h2
    | decline t2 => rw [hr2] at h2; exact Rel.trans h1 h2
    | fuel => trivial
  | err t1 => rw [hr] at h1; exact h1
  | decline t1 => rw [hr] at h1; exact h1
  | fuel => trivial

theorem next_io (t : TR) : (next t).2.ioFail = t.ioFail := by
  unfold next
  split
  · rfl
  · have ff := findFirst_ff (t.inp.length + 1) t (by omega)
    obtain ⟨tk, r, t1, hr⟩ : ∃ tk r t1, findFirst (t.inp.length + 1) t = (tk, r, t1) := ⟨_, _, _, rfl⟩
    rw [hr] at ff ⊢
    have hio : t1.ioFail = t.ioFail := ff.io
    simp only
    have hun : (unreadByte t1).ioFail = t1.ioFail := by unfold unreadByte; split <;> rfl
    repeat' split
    all_goals first
      | exact hio
      | (simp only [setNext]; exact hio)
      | (simp only [addErr]; rw [hun]; exact hio)
      | (rw [hun]; exact hio)
      | (rw [(identLoop_pres _ _ _).io]; simp only; rw [hun]; exact hio)
      | skip

theorem presP_pNext : PresP pNext := fun t => ⟨next_no_panic t, next_io t⟩

set_option hygiene false in
/-- Discharges `PresP` goals for code written with the primitives above; lemmas about callees are passed
    as hypotheses named `ih`, `h1` … `h10`. -/
macro "presp" : tactic => `(tactic| (
  repeat' (first
    | exact presP_pure _
    | exact presP_fail
    | exact presP_declined
    | exact presP_outOfFuel
    | exact presP_pTok
    | exact presP_pHasErr
    | exact presP_pNext
    | exact presP_pUnNext
    | exact presP_setKeep
    | exact ih
    | exact ih _
    | exact ih _ _
    | exact ih _ _ _
    | exact ih _ _ _ _
    | exact ih _ _ _ _ _
    | exact ih _ _ _ _ _ _
    | exact ih _ _ _ _ _ _ _
    | exact h1
    | exact h1 _
    | exact h1 _ _
    | exact h1 _ _ _
    | exact h1 _ _ _ _
    | exact h1 _ _ _ _ _
    | exact h1 _ _ _ _ _ _
    | exact h1 _ _ _ _ _ _ _
    | exact h2
    | exact h2 _
    | exact h2 _ _
    | exact h2 _ _ _
    | exact h2 _ _ _ _
    | exact h2 _ _ _ _ _
    | exact h2 _ _ _ _ _ _
    | exact h2 _ _ _ _ _ _ _
    | exact h3
    | exact h3 _
    | exact h3 _ _
    | exact h3 _ _ _
    | exact h3 _ _ _ _
    | exact h3 _ _ _ _ _
    | exact h3 _ _ _ _ _ _
    | exact h3 _ _ _ _ _ _ _
    | exact h4
    | exact h4 _
    | exact h4 _ _
    | exact h4 _ _ _
    | exact h4 _ _ _ _
    | exact h4 _ _ _ _ _
    | exact h4 _ _ _ _ _ _
    | exact h4 _ _ _ _ _ _ _
    | exact h5
    | exact h5 _
    | exact h5 _ _
    | exact h5 _ _ _
    | exact h5 _ _ _ _
    | exact h5 _ _ _ _ _
    | exact h5 _ _ _ _ _ _
    | exact h5 _ _ _ _ _ _ _
    | exact h6
    | exact h6 _
    | exact h6 _ _
    | exact h6 _ _ _
    | exact h6 _ _ _ _
    | exact h6 _ _ _ _ _
    | exact h6 _ _ _ _ _ _
    | exact h6 _ _ _ _ _ _ _
    | exact h7
    | exact h7 _
    | exact h7 _ _
    | exact h7 _ _ _
    | exact h7 _ _ _ _
    | exact h7 _ _ _ _ _
    | exact h7 _ _ _ _ _ _
    | exact h7 _ _ _ _ _ _ _
    | exact h8
    | exact h8 _
    | exact h8 _ _
    | exact h8 _ _ _
    | exact h8 _ _ _ _
    | exact h8 _ _ _ _ _
    | exact h8 _ _ _ _ _ _
    | exact h8 _ _ _ _ _ _ _
    | exact h9
    | exact h9 _
    | exact h9 _ _
    | exact h9 _ _ _
    | exact h9 _ _ _ _
    | exact h9 _ _ _ _ _
    | exact h9 _ _ _ _ _ _
    | exact h9 _ _ _ _ _ _ _
    | exact h10
    | exact h10 _
    | exact h10 _ _
    | exact h10 _ _ _
    | exact h10 _ _ _ _
    | exact h10 _ _ _ _ _
    | exact h10 _ _ _ _ _ _
    | exact h10 _ _ _ _ _ _ _
    | (refine presP_bind _ _ ?_ (fun _ => ?_))
    | split
    | (dsimp only))))

theorem presP_expectAnyOf (ks : List TK) : PresP (expectAnyOf ks) := by
  unfold expectAnyOf; presp

theorem presP_expectSeq : ∀ ks : List TK, PresP (expectSeq ks)
  | [] => by unfold expectSeq; presp
  | k :: ks => by
    have ih := presP_expectSeq ks
    unfold expectSeq; presp

theorem presP_optNewline : PresP optNewline := by
  unfold optNewline; presp

theorem presP_unquote (tk : Token) : PresP (unquote tk) := by
  unfold unquote; presp

theorem presP_parseCommentTag (s : Str) : PresP (parseCommentTag s) := by
  unfold parseCommentTag; presp

theorem presP_skipEol : ∀ f : Nat, PresP (skipEolComments f)
  | 0 => by unfold skipEolComments; presp
  | f+1 => by
    have ih := presP_skipEol f
    unfold skipEolComments; presp

theorem presP_readDeprecated : PresP readDeprecated := by
  have h1 := presP_expectSeq [.kDeprecated, .openParen, .strLit, .closeParen, .closeSquare]
  have h2 := presP_optNewline
  have h3 := presP_unquote
  unfold readDeprecated; presp

theorem presP_suffixLoop : ∀ (f : Nat) (ft : FT), PresP (readFieldType.suffixLoop f ft)
  | 0, ft => by unfold readFieldType.suffixLoop; presp
  | f+1, ft => by
    have ih := presP_suffixLoop f
    have h1 := presP_expectSeq
    unfold readFieldType.suffixLoop; presp

theorem presP_readFieldType : ∀ f : Nat, PresP (readFieldType f)
  | 0 => by unfold readFieldType; presp
  | f+1 => by
    have ih := presP_readFieldType f
    have h1 := presP_expectSeq
    have h2 := presP_expectAnyOf
    have h3 := presP_suffixLoop
    unfold readFieldType; presp

theorem presP_readUntilSemi : ∀ (f : Nat) (acc : List Token), PresP (readUntilSemi f acc)
  | 0, acc => by unfold readUntilSemi; presp
  | f+1, acc => by
    have ih := presP_readUntilSemi f
    unfold readUntilSemi; presp

theorem presP_readEnumOptionValue (fuel : Nat) (prev : List EnumOption) (a b : Bool) (bits : Nat) :
    PresP (readEnumOptionValue fuel prev a b bits) := by
  have h1 := presP_expectSeq
  have h2 := presP_readUntilSemi
  unfold readEnumOptionValue; presp

theorem presP_readEnumLoop (fuel : Nat) (bitflags unsigned : Bool) (bits : Nat) :
    ∀ (f : Nat) (opts : List EnumOption) (st : BodySt), PresP (readEnum.loop fuel bitflags bits unsigned f opts st)
  | 0, opts, st => by unfold readEnum.loop; presp
  | f+1, opts, st => by
    have ih := presP_readEnumLoop fuel bitflags unsigned bits f
    have h1 := presP_readEnumOptionValue
    have h2 := presP_readDeprecated
    unfold readEnum.loop; presp

theorem presP_readEnum (fuel : Nat) (bitflags : Bool) : PresP (readEnum fuel bitflags) := by
  have h1 := presP_expectSeq
  have h2 := presP_expectAnyOf
  have h3 := presP_optNewline
  have h4 := presP_readEnumLoop
  unfold readEnum; presp

theorem presP_noteLineComment (st : BodySt) (tk : Token) : PresP (noteLineComment st tk) := by
  have h1 := presP_parseCommentTag
  unfold noteLineComment; presp

theorem presP_readStructLoop (fuel : Nat) :
    ∀ (f : Nat) (fields : List Field) (st : BodySt), PresP (readStruct.loop fuel f fields st)
  | 0, fields, st => by unfold readStruct.loop; presp
  | f+1, fields, st => by
    have ih := presP_readStructLoop fuel f
    have h1 := presP_readFieldType
    have h2 := presP_expectSeq
    have h3 := presP_skipEol
    have h4 := presP_readDeprecated
    have h5 := presP_noteLineComment
    unfold readStruct.loop; presp

theorem presP_readStruct (fuel : Nat) : PresP (readStruct fuel) := by
  have h1 := presP_expectSeq
  have h2 := presP_optNewline
  have h3 := presP_readStructLoop
  unfold readStruct; presp

theorem presP_readMessageLoop (fuel : Nat) :
    ∀ (f : Nat) (fields : List (Nat × Field)) (st : BodySt), PresP (readMessage.loop fuel f fields st)
  | 0, fields, st => by unfold readMessage.loop; presp
  | f+1, fields, st => by
    have ih := presP_readMessageLoop fuel f
    have h1 := presP_readFieldType
    have h2 := presP_expectSeq
    have h3 := presP_skipEol
    have h4 := presP_readDeprecated
    have h5 := presP_noteLineComment
    have h6 := presP_expectAnyOf
    unfold readMessage.loop; presp

theorem presP_readMessage (fuel : Nat) : PresP (readMessage fuel) := by
  have h1 := presP_expectSeq
  have h2 := presP_optNewline
  have h3 := presP_readMessageLoop
  unfold readMessage; presp

theorem presP_readUnionLoop (fuel : Nat) :
    ∀ (f : Nat) (fields : List (Nat × UnionField)) (st : BodySt), PresP (readUnion.loop fuel f fields st)
  | 0, fields, st => by unfold readUnion.loop; presp
  | f+1, fields, st => by
    have ih := presP_readUnionLoop fuel f
    have h1 := presP_readMessage
    have h2 := presP_expectSeq
    have h3 := presP_skipEol
    have h4 := presP_readDeprecated
    have h5 := presP_noteLineComment
    have h6 := presP_expectAnyOf
    have h7 := presP_readStruct
    have h8 := presP_optNewline
    unfold readUnion.loop; presp

theorem presP_readUnion (fuel : Nat) : PresP (readUnion fuel) := by
  have h1 := presP_expectSeq
  have h2 := presP_optNewline
  have h3 := presP_readUnionLoop
  unfold readUnion; presp

theorem presP_readConst (fuel : Nat) : PresP (readConst fuel) := by
  have h1 := presP_expectSeq
  have h2 := presP_optNewline
  have h3 := presP_skipEol
  unfold readConst; presp

theorem presP_readOpCode : PresP readOpCode := by
  have h1 := presP_expectSeq
  have h2 := presP_optNewline
  have h3 := presP_expectAnyOf
  unfold readOpCode; presp

theorem presP_stepTop (fuel : Nat) (st : TopSt) (tk : Token) : PresP (stepTop fuel st tk) := by
  have h1 := presP_expectSeq
  have h2 := presP_optNewline
  have h3 := presP_expectAnyOf
  have h4 := presP_unquote
  have h5 := presP_readOpCode
  have h6 := presP_readEnum
  have h7 := presP_readStruct
  have h8 := presP_readMessage
  have h9 := presP_readUnion
  have h10 := presP_readConst
  unfold stepTop
  presp

theorem presP_readFileLoop (fuel : Nat) : ∀ (f : Nat) (st : TopSt), PresP (readFileLoop fuel f st)
  | 0, st => by unfold readFileLoop; presp
  | f+1, st => by
    have ih := presP_readFileLoop fuel f
    have h1 := presP_stepTop
    unfold readFileLoop; presp

theorem P.bind_ok {α β} (m : P α) (k : α → P β) (t t' : TR) (b : β)
    (h : (m >>= k) t = .ok b t') : ∃ a t1, m t = .ok a t1 ∧ k a t1 = .ok b t' := by
  have h' : (match m t with | .ok a t1 => k a t1 | .err t1 => .err t1 | .fuel => .fuel | .decline t1 => .decline t1)
      = .ok b t' := h
  cases hm : m t with
  | ok a t1 => rw [hm] at h'; exact ⟨a, t1, rfl, h'⟩
  | err t1 => rw [hm] at h'; cases h'
  | fuel => rw [hm] at h'; cases h'
  | decline t1 => rw [hm] at h'; cases h'

/-- Every successful exit of the top-level loop is the one where `Next` returned false and the tokenizer
    had recorded no error. -/
theorem readFileLoop_ok (fuel : Nat) : ∀ (f : Nat) (st : TopSt) (t t' : TR) (file : File),
    readFileLoop fuel f st t = .ok file t' → ∃ t0, next t0 = (false, t') ∧ hasErr t' = false
  | 0, st, t, t', file, h => by simp [readFileLoop, outOfFuel] at h
  | f+1, st, t, t', file, h => by
    simp only [readFileLoop] at h
    obtain ⟨nx, t1, h1, h2⟩ := P.bind_ok _ _ _ _ _ h
    have hnext : next t = (nx, t1) := by
      simp only [pNext] at h1
      cases hn : next t with
      | mk a b => rw [hn] at h1; simp only [PR.ok.injEq] at h1; rw [h1.1, h1.2]
    cases nx with
    | false =>
      simp only [Bool.not_false, if_true] at h2
      obtain ⟨he, t2, h3, h4⟩ := P.bind_ok _ _ _ _ _ h2
      simp only [pHasErr, PR.ok.injEq] at h3
      obtain ⟨rfl, rfl⟩ := h3
      cases hh : hasErr t1 with
      | true => rw [hh] at h4; simp [fail] at h4
      | false =>
        rw [hh] at h4
        simp only [Bool.false_eq_true, if_false] at h4
        have : t1 = t' := by
          have := h4; simp only [pure, PR.ok.injEq] at this; exact this.2
        subst this
        exact ⟨t, hnext, hh⟩
    | true =>
      simp only [Bool.not_true, Bool.false_eq_true, if_false] at h2
      obtain ⟨tk, t2, _, h4⟩ := P.bind_ok _ _ _ _ _ h2
      obtain ⟨st', t3, _, h6⟩ := P.bind_ok _ _ _ _ _ h4
      exact readFileLoop_ok fuel f st' t3 t' file h6

/-- ReadFile never panics, whatever the bytes and however the reader ends. -/
theorem readFile_no_panic (inp : List Byte) (ioFail : Bool) : ∀ r, readFile inp ioFail = r →
    (match r with | .panic => False | _ => True) := by
  intro r hr
  subst hr
  unfold readFile
  have hp := presP_readFileLoop (2 * inp.length + 4) (2 * inp.length + 4) {} (mkTR inp ioFail)
  simp only
  cases hrl : readFileLoop (2 * inp.length + 4) (2 * inp.length + 4) {} (mkTR inp ioFail) with
  | ok f t' =>
    rw [hrl] at hp
    have : t'.panicked = false := hp.1 rfl
    simp only [this, Bool.false_eq_true, if_false]
    split
    · rename_i heq; split at heq <;> cases heq
    · trivial
  | err t' =>
    rw [hrl] at hp
    have : t'.panicked = false := hp.1 rfl
    simp only [this, Bool.false_eq_true, if_false]
    split
    · rename_i heq; split at heq <;> cases heq
    · trivial
  | fuel => trivial
  | decline t' => trivial

/-- ReadFile reports success only when the whole input has been consumed and the reader ended with EOF:
    nothing is left unread (so nothing was silently dropped), and an I/O error of the reader never yields
    success. -/
theorem readFile_ok_consumed (inp : List Byte) (ioFail : Bool) (file : File)
    (h : readFile inp ioFail = .ok file) :
    ioFail = false ∧ ∃ t', readFileLoop (2 * inp.length + 4) (2 * inp.length + 4) {} (mkTR inp ioFail) = .ok file t' ∧
      t'.inp = [] := by
  unfold readFile at h
  simp only at h
  have hp := presP_readFileLoop (2 * inp.length + 4) (2 * inp.length + 4) {} (mkTR inp ioFail)
  cases hr : readFileLoop (2 * inp.length + 4) (2 * inp.length + 4) {} (mkTR inp ioFail) with
  | ok f t' =>
    rw [hr] at h hp
    simp only at h
    by_cases hpan : t'.panicked = true
    · simp [hpan] at h
    · by_cases hn : t'.nonAscii = true
      · simp [hpan, hn] at h
      · simp only [hpan, hn, Bool.false_eq_true, if_false, ReadResult.ok.injEq] at h
        subst h
        obtain ⟨t0, hnext, herr⟩ := readFileLoop_ok _ _ _ _ _ _ hr
        have hfalse : (next t0).1 = false := by rw [hnext]
        have he : (next t0).2.errs = [] := by
          rw [hnext]; simpa [hasErr, List.isEmpty_iff] using herr
        have h1 := next_false_clean t0 hfalse he (by rw [hnext]; simpa using hn) (by rw [hnext]; simpa using hpan)
        rw [hnext] at h1
        have hio : t'.ioFail = ioFail := hp.2
        exact ⟨by rw [← hio]; exact h1.2, t', rfl, h1.1⟩
  | err t' => rw [hr] at h; simp only at h; split at h <;> (try split at h) <;> cases h
  | fuel => rw [hr] at h; cases h
  | decline t' => rw [hr] at h; cases h

end Bebop.Text
