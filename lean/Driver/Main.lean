import Bebop
def main : IO Unit := IO.println "bebop-model"
