/-
  Helper lemmas for C18 (import handling): specification notions (`Imports`, `Reachable`, `Edge`,
  `Path`, `HasCycle`), the worklist invariants and the fuel measure, the DFS invariants.
  The property theorems themselves are in Bebop/Props/C18.lean.
-/
import Bebop.Text.Imports

namespace Bebop.Text

/-! ## Specification notions -/

/-- File `a` exists and has an import statement resolving to `b`. -/
def Imports (fs : FS) (a b : Nat) : Prop := ∃ info, fs[a]? = some info ∧ b ∈ info.imports

/-- The files transitively imported by the root file (file 0). Targets need not exist. -/
inductive Reachable (fs : FS) : Nat → Prop
  | root {root t} : fs[0]? = some root → t ∈ root.imports → Reachable fs t
  | step {a b} : Reachable fs a → Imports fs a b → Reachable fs b

/-- The initial worklist of `resolveImports`. -/
def rootWork (root : SrcInfo) : List (Option Nat × Nat) := root.imports.map (fun t => (root.pkg, t))

/-- The fuel `resolveImports` hands to `worklist`. -/
def worklistFuel (fs : FS) (root : SrcInfo) : Nat :=
  fs.foldl (fun n i => n + i.imports.length) 0 + root.imports.length + 1

/-! ## Worklist: soundness invariant -/

/-- Soundness invariant of the worklist state. -/
structure WInv (fs : FS) (wl : List (Option Nat × Nat)) (imported : List Nat) : Prop where
  nodup : imported.Nodup
  imp : ∀ t ∈ imported, Reachable fs t ∧ fs[t]?.isSome
  wl : ∀ e ∈ wl, Reachable fs e.2

theorem worklist_zero (fs : FS) wl imported edges :
    worklist fs 0 wl imported edges = .ok (imported, edges) := by
  unfold worklist; rfl

theorem worklist_nil (fs : FS) f imported edges :
    worklist fs (f+1) [] imported edges = .ok (imported, edges) := by
  unfold worklist; rfl

theorem worklist_cons_none (fs : FS) f src tgt rest imported edges (h : fs[tgt]? = none) :
    worklist fs (f+1) ((src, tgt) :: rest) imported edges = .error .notFound := by
  rw [worklist]; simp only [h]

theorem worklist_cons_seen (fs : FS) f src tgt rest imported edges info (h : fs[tgt]? = some info)
    (hc : tgt ∈ imported) :
    worklist fs (f+1) ((src, tgt) :: rest) imported edges =
      worklist fs f rest imported (edges ++ [(src, info.pkg)]) := by
  rw [worklist]; simp only [h]
  simp [hc]

theorem worklist_cons_new (fs : FS) f src tgt rest imported edges info (h : fs[tgt]? = some info)
    (hc : tgt ∉ imported) :
    worklist fs (f+1) ((src, tgt) :: rest) imported edges =
      worklist fs f (rest ++ info.imports.map (fun t => (info.pkg, t))) (imported ++ [tgt])
        (edges ++ [(src, info.pkg)]) := by
  rw [worklist]; simp only [h]
  simp [hc]

theorem WInv.seen {fs : FS} {src tgt rest imported} (h : WInv fs ((src, tgt) :: rest) imported) :
    WInv fs rest imported :=
  ⟨h.nodup, h.imp, fun e he => h.wl e (List.mem_cons_of_mem _ he)⟩

theorem WInv.new {fs : FS} {src tgt rest imported info} (h : WInv fs ((src, tgt) :: rest) imported)
    (hi : fs[tgt]? = some info) (hc : tgt ∉ imported) :
    WInv fs (rest ++ info.imports.map (fun t => (info.pkg, t))) (imported ++ [tgt]) := by
  have hr : Reachable fs tgt := h.wl (src, tgt) (List.mem_cons_self)
  refine ⟨?_, ?_, ?_⟩
  · rw [List.nodup_append]
    refine ⟨h.nodup, by simp, ?_⟩
    intro a ha b hb
    simp only [List.mem_singleton] at hb
    subst hb
    intro hab; subst hab; exact hc ha
  · intro t ht
    rcases List.mem_append.mp ht with ht | ht
    · exact h.imp t ht
    · simp only [List.mem_singleton] at ht
      subst ht
      exact ⟨hr, by simp [hi]⟩
  · intro e he
    rcases List.mem_append.mp he with he | he
    · exact h.wl e (List.mem_cons_of_mem _ he)
    · obtain ⟨t, ht, rfl⟩ := List.mem_map.mp he
      exact Reachable.step hr ⟨info, hi, ht⟩

/-- Soundness of the worklist for every fuel value. -/
theorem worklist_sound_gen (fs : FS) : ∀ fuel wl imported edges imp' edges',
    WInv fs wl imported →
    worklist fs fuel wl imported edges = .ok (imp', edges') →
    imp'.Nodup ∧ ∀ t ∈ imp', Reachable fs t ∧ fs[t]?.isSome := by
  intro fuel
  induction fuel with
  | zero =>
    intro wl imported edges imp' edges' hinv h
    rw [worklist_zero] at h
    injection h with h; injection h with h1 h2; subst h1
    exact ⟨hinv.nodup, hinv.imp⟩
  | succ f ih =>
    intro wl imported edges imp' edges' hinv h
    cases wl with
    | nil =>
      rw [worklist_nil] at h
      injection h with h; injection h with h1 h2; subst h1
      exact ⟨hinv.nodup, hinv.imp⟩
    | cons e rest =>
      obtain ⟨src, tgt⟩ := e
      cases hi : fs[tgt]? with
      | none => rw [worklist_cons_none _ _ _ _ _ _ _ hi] at h; cases h
      | some info =>
        by_cases hc : tgt ∈ imported
        · rw [worklist_cons_seen _ _ _ _ _ _ _ _ hi hc] at h
          exact ih _ _ _ _ _ hinv.seen h
        · rw [worklist_cons_new _ _ _ _ _ _ _ _ hi hc] at h
          exact ih _ _ _ _ _ (hinv.new hi hc) h

/-- The only error of the worklist is `notFound`, raised for a reachable target that does not exist. -/
theorem worklist_error_gen (fs : FS) : ∀ fuel wl imported edges e,
    WInv fs wl imported →
    worklist fs fuel wl imported edges = .error e →
    e = .notFound ∧ ∃ t, Reachable fs t ∧ fs[t]? = none := by
  intro fuel
  induction fuel with
  | zero =>
    intro wl imported edges e hinv h
    rw [worklist_zero] at h; cases h
  | succ f ih =>
    intro wl imported edges e hinv h
    cases wl with
    | nil => rw [worklist_nil] at h; cases h
    | cons en rest =>
      obtain ⟨src, tgt⟩ := en
      cases hi : fs[tgt]? with
      | none =>
        rw [worklist_cons_none _ _ _ _ _ _ _ hi] at h
        injection h with h
        exact ⟨h.symm, tgt, hinv.wl (src, tgt) List.mem_cons_self, hi⟩
      | some info =>
        by_cases hc : tgt ∈ imported
        · rw [worklist_cons_seen _ _ _ _ _ _ _ _ hi hc] at h
          exact ih _ _ _ _ hinv.seen h
        · rw [worklist_cons_new _ _ _ _ _ _ _ _ hi hc] at h
          exact ih _ _ _ _ (hinv.new hi hc) h

theorem WInv.init {fs : FS} {root : SrcInfo} (h0 : fs[0]? = some root) : WInv fs (rootWork root) [] := by
  refine ⟨List.nodup_nil, fun t ht => absurd ht (List.not_mem_nil), ?_⟩
  intro e he
  obtain ⟨t, ht, rfl⟩ := List.mem_map.mp he
  exact Reachable.root h0 ht

/-! ## Worklist: fuel measure and completeness -/

/-- Total number of import statements of the files (numbered from `i`) not yet imported. -/
def pend : FS → Nat → List Nat → Nat
  | [], _, _ => 0
  | info :: rest, i, imported =>
    (if i ∈ imported then 0 else info.imports.length) + pend rest (i+1) imported

theorem foldl_imports (fs : FS) (a : Nat) :
    fs.foldl (fun n i => n + i.imports.length) a = a + pend fs 0 [] := by
  suffices h : ∀ (fs : FS) a k, fs.foldl (fun n i => n + i.imports.length) a = a + pend fs k [] from h fs a 0
  intro fs
  induction fs with
  | nil => intro a k; simp [pend]
  | cons x xs ih =>
    intro a k
    simp only [List.foldl_cons, pend, List.not_mem_nil, if_false]
    rw [ih _ (k+1)]; omega

theorem pend_mono (fs : FS) (i : Nat) (imported : List Nat) (t : Nat) :
    pend fs i (imported ++ [t]) ≤ pend fs i imported := by
  induction fs generalizing i with
  | nil => simp [pend]
  | cons x xs ih =>
    simp only [pend]
    have := ih (i+1)
    by_cases h : i ∈ imported
    · have h' : i ∈ imported ++ [t] := List.mem_append_left _ h
      simp only [h, h', if_true]; omega
    · by_cases h' : i ∈ imported ++ [t]
      · simp only [h, h', if_true, if_false]; omega
      · simp only [h, h', if_false]; omega

theorem pend_step (fs : FS) (i : Nat) (imported : List Nat) (tgt : Nat) (info : SrcInfo)
    (hle : i ≤ tgt) (hi : fs[tgt - i]? = some info) (hc : tgt ∉ imported) :
    pend fs i (imported ++ [tgt]) + info.imports.length ≤ pend fs i imported := by
  induction fs generalizing i with
  | nil => simp at hi
  | cons x xs ih =>
    simp only [pend]
    by_cases he : i = tgt
    · subst he
      simp only [Nat.sub_self, List.getElem?_cons_zero, Option.some.injEq] at hi
      subst hi
      have h' : i ∈ imported ++ [i] := List.mem_append_right _ (List.mem_singleton.mpr rfl)
      have := pend_mono xs (i+1) imported i
      simp only [hc, h', if_true, if_false]; omega
    · have hlt : i + 1 ≤ tgt := by omega
      have hidx : tgt - i = (tgt - (i+1)) + 1 := by omega
      rw [hidx, List.getElem?_cons_succ] at hi
      have := ih (i+1) hlt hi
      have hiff : (i ∈ imported ++ [tgt]) ↔ i ∈ imported := by
        simp only [List.mem_append, List.mem_singleton]
        constructor
        · rintro (h | h)
          · exact h
          · exact absurd h he
        · exact Or.inl
      by_cases h : i ∈ imported
      · have h' := hiff.mpr h
        simp only [h, h', if_true]; omega
      · have h' : ¬ i ∈ imported ++ [tgt] := fun hh => h (hiff.mp hh)
        simp only [h, h', if_false]; omega

/-- Completeness invariant: the imports of every imported file are imported or still on the worklist. -/
def WClosed (fs : FS) (wl : List (Option Nat × Nat)) (imported : List Nat) : Prop :=
  ∀ a ∈ imported, ∀ b, Imports fs a b → b ∈ imported ∨ b ∈ wl.map (·.2)

/-- With enough fuel the worklist runs until it is empty: the result contains what was imported, every
    target that was on the worklist, and is closed under `Imports`. -/
theorem worklist_complete_gen (fs : FS) : ∀ fuel wl imported edges imp' edges',
    wl.length + pend fs 0 imported < fuel →
    WClosed fs wl imported →
    worklist fs fuel wl imported edges = .ok (imp', edges') →
    (∀ t ∈ imported, t ∈ imp') ∧ (∀ e ∈ wl, e.2 ∈ imp') ∧
      (∀ a ∈ imp', ∀ b, Imports fs a b → b ∈ imp') := by
  intro fuel
  induction fuel with
  | zero => intro wl imported edges imp' edges' hf; omega
  | succ f ih =>
    intro wl imported edges imp' edges' hf hcl h
    cases wl with
    | nil =>
      rw [worklist_nil] at h
      injection h with h; injection h with h1 h2; subst h1
      refine ⟨fun t ht => ht, fun e he => absurd he List.not_mem_nil, ?_⟩
      intro a ha b hab
      rcases hcl a ha b hab with hb | hb
      · exact hb
      · simp at hb
    | cons e rest =>
      obtain ⟨src, tgt⟩ := e
      cases hi : fs[tgt]? with
      | none => rw [worklist_cons_none _ _ _ _ _ _ _ hi] at h; cases h
      | some info =>
        by_cases hc : tgt ∈ imported
        · rw [worklist_cons_seen _ _ _ _ _ _ _ _ hi hc] at h
          have hf' : rest.length + pend fs 0 imported < f := by
            simp only [List.length_cons] at hf; omega
          have hcl' : WClosed fs rest imported := by
            intro a ha b hab
            rcases hcl a ha b hab with hb | hb
            · exact Or.inl hb
            · simp only [List.map_cons, List.mem_cons] at hb
              rcases hb with hb | hb
              · subst hb; exact Or.inl hc
              · exact Or.inr hb
          obtain ⟨h1, h2, h3⟩ := ih _ _ _ _ _ hf' hcl' h
          refine ⟨h1, ?_, h3⟩
          intro e he
          rcases List.mem_cons.mp he with he | he
          · subst he; exact h1 _ hc
          · exact h2 e he
        · rw [worklist_cons_new _ _ _ _ _ _ _ _ hi hc] at h
          have hps := pend_step fs 0 imported tgt info (Nat.zero_le _) (by simpa using hi) hc
          have hf' : (rest ++ info.imports.map (fun t => (info.pkg, t))).length
              + pend fs 0 (imported ++ [tgt]) < f := by
            simp only [List.length_cons] at hf
            simp only [List.length_append, List.length_map]; omega
          have hcl' : WClosed fs (rest ++ info.imports.map (fun t => (info.pkg, t))) (imported ++ [tgt]) := by
            intro a ha b hab
            rcases List.mem_append.mp ha with ha | ha
            · rcases hcl a ha b hab with hb | hb
              · exact Or.inl (List.mem_append_left _ hb)
              · simp only [List.map_cons, List.mem_cons] at hb
                rcases hb with hb | hb
                · subst hb; exact Or.inl (List.mem_append_right _ (List.mem_singleton.mpr rfl))
                · refine Or.inr ?_
                  simp only [List.map_append, List.mem_append]
                  exact Or.inl hb
            · simp only [List.mem_singleton] at ha
              subst ha
              obtain ⟨info', hi', hb⟩ := hab
              rw [hi] at hi'
              injection hi' with hi'
              subst hi'
              refine Or.inr ?_
              simp only [List.map_append, List.map_map, List.mem_append, List.mem_map]
              exact Or.inr ⟨b, hb, rfl⟩
          obtain ⟨h1, h2, h3⟩ := ih _ _ _ _ _ hf' hcl' h
          refine ⟨fun t ht => h1 t (List.mem_append_left _ ht), ?_, h3⟩
          intro e he
          rcases List.mem_cons.mp he with he | he
          · subst he; exact h1 _ (List.mem_append_right _ (List.mem_singleton.mpr rfl))
          · exact h2 e (List.mem_append_left _ he)

/-- The fuel of `resolveImports` is sufficient for the initial state. -/
theorem worklistFuel_sufficient (fs : FS) (root : SrcInfo) :
    (rootWork root).length + pend fs 0 [] < worklistFuel fs root := by
  unfold worklistFuel rootWork
  rw [foldl_imports]
  simp only [List.length_map]; omega

/-! ## The package graph: edges, paths, cycles -/

abbrev Edges := List (Option Nat × Option Nat)

def Edge (edges : Edges) (a b : Option Nat) : Prop := (a, b) ∈ edges

/-- A path with at least one edge. -/
inductive Path (edges : Edges) : Option Nat → Option Nat → Prop
  | single {a b} : Edge edges a b → Path edges a b
  | cons {a b c} : Edge edges a b → Path edges b c → Path edges a c

def HasCycle (edges : Edges) : Prop := ∃ n, Path edges n n

/-- Reflexive closure of `Path`. -/
def Reaches (edges : Edges) (a b : Option Nat) : Prop := a = b ∨ Path edges a b

theorem Path.trans {edges : Edges} {a b c} (h1 : Path edges a b) (h2 : Path edges b c) : Path edges a c := by
  induction h1 with
  | single e => exact Path.cons e h2
  | cons e _ ih => exact Path.cons e (ih h2)

theorem Path.snoc {edges : Edges} {a b c} (h1 : Path edges a b) (h2 : Edge edges b c) : Path edges a c :=
  h1.trans (Path.single h2)

theorem Path.head_edge {edges : Edges} {a b} (h : Path edges a b) : ∃ c, Edge edges a c := by
  cases h with
  | single e => exact ⟨_, e⟩
  | cons e _ => exact ⟨_, e⟩

theorem Reaches.trans {edges : Edges} {a b c} (h1 : Reaches edges a b) (h2 : Reaches edges b c) :
    Reaches edges a c := by
  rcases h1 with rfl | h1
  · exact h2
  · rcases h2 with rfl | h2
    · exact Or.inr h1
    · exact Or.inr (h1.trans h2)

theorem Reaches.of_edge {edges : Edges} {a b c} (h1 : Edge edges a b) (h2 : Reaches edges b c) :
    Reaches edges a c := by
  rcases h2 with rfl | h2
  · exact Or.inr (Path.single h1)
  · exact Or.inr (Path.cons h1 h2)

theorem mem_succs (edges : Edges) (node t : Option Nat) :
    t ∈ (edges.filter (·.1 == node)).map (·.2) ↔ Edge edges node t := by
  simp only [List.mem_map, List.mem_filter, beq_iff_eq, Edge]
  constructor
  · rintro ⟨⟨a, b⟩, ⟨hm, ha⟩, hb⟩
    simp only at ha hb
    subst ha; subst hb; exact hm
  · intro h
    exact ⟨(node, t), ⟨h, rfl⟩, rfl⟩

/-! ## dfs: a `true` answer -/

theorem dfs_go_nil (edges : Edges) f stack' : dfs.go edges f stack' [] = some false := by
  rw [dfs.go]

/-- What `dfs … = some true` means without any assumption on the stack: from `node` one can get back to
    the recursion stack, or to a node that lies on a cycle. -/
theorem dfs_true_gen (edges : Edges) : ∀ f node stack, dfs edges f node stack = some true →
    (∃ t ∈ node :: stack, Path edges node t) ∨ (∃ t, Path edges node t ∧ Path edges t t) := by
  intro f
  induction f with
  | zero => intro node stack h; rw [dfs] at h; cases h
  | succ f ih =>
    intro node stack h
    rw [dfs.eq_2] at h
    have key : ∀ ts, (∀ t ∈ ts, Edge edges node t) → dfs.go edges f (node :: stack) ts = some true →
        (∃ t ∈ node :: stack, Path edges node t) ∨ (∃ t, Path edges node t ∧ Path edges t t) := by
      intro ts
      induction ts with
      | nil => intro _ h; rw [dfs_go_nil] at h; cases h
      | cons t ts iht =>
        intro hts h
        have het : Edge edges node t := hts t List.mem_cons_self
        rw [dfs.go.eq_2] at h
        split at h
        · rename_i hc
          exact Or.inl ⟨t, List.contains_iff_mem.mp hc, Path.single het⟩
        · split at h
          · rename_i hd
            rcases ih _ _ hd with ⟨u, hu, hp⟩ | ⟨u, hp, hc⟩
            · rcases List.mem_cons.mp hu with hu | hu
              · subst hu
                exact Or.inr ⟨u, Path.single het, hp⟩
              · exact Or.inl ⟨u, hu, Path.cons het hp⟩
            · exact Or.inr ⟨u, Path.cons het hp, hc⟩
          · exact iht (fun t' ht' => hts t' (List.mem_cons_of_mem _ ht')) h
          · cases h
    exact key _ (fun t ht => (mem_succs edges node t).mp ht) h

/-- If the stack is a path leading to `node`, a `true` answer is a cycle. -/
theorem dfs_true_cycle (edges : Edges) f node stack (hst : ∀ s ∈ stack, Path edges s node)
    (h : dfs edges f node stack = some true) : HasCycle edges := by
  rcases dfs_true_gen edges f node stack h with ⟨t, ht, hp⟩ | ⟨t, _, hc⟩
  · rcases List.mem_cons.mp ht with ht | ht
    · subst ht; exact ⟨_, hp⟩
    · exact ⟨t, (hst t ht).trans hp⟩
  · exact ⟨t, hc⟩

theorem scan_true (edges : Edges) (depth : Nat) : ∀ ns visited,
    findCycle.scan edges depth ns visited = some true → HasCycle edges := by
  intro ns
  induction ns with
  | nil => intro visited h; rw [findCycle.scan] at h; cases h
  | cons n ns ih =>
    intro visited h
    rw [findCycle.scan] at h
    split at h
    · exact ih _ h
    · split at h
      · rename_i hd
        exact dfs_true_cycle edges _ n [] (fun s hs => absurd hs List.not_mem_nil) hd
      · exact ih _ h
      · cases h

/-! ## dfs: a `false` answer -/

theorem dfs_go_false (edges : Edges) f stack' : ∀ ts, dfs.go edges f stack' ts = some false →
    ∀ t ∈ ts, t ∉ stack' ∧ dfs edges f t stack' = some false := by
  intro ts
  induction ts with
  | nil => intro _ t ht; exact absurd ht List.not_mem_nil
  | cons t ts iht =>
    intro h
    rw [dfs.go.eq_2] at h
    split at h
    · cases h
    · rename_i hc
      split at h
      · cases h
      · rename_i hd
        intro t' ht'
        rcases List.mem_cons.mp ht' with ht' | ht'
        · subst ht'
          exact ⟨fun hm => hc (List.contains_iff_mem.mpr hm), hd⟩
        · exact iht h t' ht'
      · cases h

theorem dfs_false_step (edges : Edges) f node stack t (h : dfs edges f node stack = some false)
    (he : Edge edges node t) : t ∉ node :: stack ∧ ∃ f', dfs edges f' t (node :: stack) = some false := by
  cases f with
  | zero => rw [dfs] at h; cases h
  | succ f =>
    rw [dfs.eq_2] at h
    obtain ⟨h1, h2⟩ := dfs_go_false edges f _ _ h t ((mem_succs edges node t).mpr he)
    exact ⟨h1, f, h2⟩

/-- `Walk r t st`: `st` is the recursion stack of a walk from `r` that has arrived at `t`. -/
inductive Walk (edges : Edges) (r : Option Nat) : Option Nat → List (Option Nat) → Prop
  | root : Walk edges r r []
  | step {n t st} : Walk edges r n st → Edge edges n t → Walk edges r t (n :: st)

theorem Walk.of_reaches {edges : Edges} {r t} (h : Reaches edges r t) : ∃ st, Walk edges r t st := by
  rcases h with rfl | h
  · exact ⟨[], Walk.root⟩
  · suffices hs : ∀ a b, Path edges a b → ∀ st, Walk edges r a st → ∃ st', Walk edges r b st' from
      hs _ _ h [] Walk.root
    intro a b hp
    induction hp with
    | single e => intro st hw; exact ⟨_, Walk.step hw e⟩
    | cons e _ ih => intro st hw; exact ih _ (Walk.step hw e)

theorem Walk.extend {edges : Edges} {r t u} (hp : Path edges t u) : ∀ st, Walk edges r t st →
    ∃ st', Walk edges r u st' ∧ ∀ x ∈ t :: st, x ∈ st' := by
  induction hp with
  | single e => intro st hw; exact ⟨_, Walk.step hw e, fun x hx => hx⟩
  | cons e _ ih =>
    intro st hw
    obtain ⟨st', hw', hsub⟩ := ih _ (Walk.step hw e)
    exact ⟨st', hw', fun x hx => hsub x (List.mem_cons_of_mem _ hx)⟩

theorem Walk.dfs_false {edges : Edges} {r f0} (h0 : dfs edges f0 r [] = some false) :
    ∀ {t st}, Walk edges r t st → ∃ f, dfs edges f t st = some false := by
  intro t st hw
  induction hw with
  | root => exact ⟨f0, h0⟩
  | step _ e ih =>
    obtain ⟨f, hf⟩ := ih
    exact (dfs_false_step edges f _ _ _ hf e).2

/-- No cycle can be reached from `n`. -/
def Good (edges : Edges) (n : Option Nat) : Prop := ∀ m, Reaches edges n m → ¬ Path edges m m

theorem Good.of_reaches {edges : Edges} {n m} (h : Good edges n) (hr : Reaches edges n m) : Good edges m :=
  fun k hk => h k (hr.trans hk)

/-- `dfs` from a root with an empty stack enumerates every walk from it: a `false` answer means that
    no cycle is reachable from the root. -/
theorem dfs_false_good (edges : Edges) f r (h : dfs edges f r [] = some false) : Good edges r := by
  intro m hr hc
  obtain ⟨st, hw⟩ := Walk.of_reaches hr
  obtain ⟨st', hw', hsub⟩ := Walk.extend hc st hw
  have hm : m ∈ st' := hsub m List.mem_cons_self
  cases hw' with
  | root => exact absurd hm List.not_mem_nil
  | step hw'' e =>
    obtain ⟨f', hf'⟩ := Walk.dfs_false h hw''
    exact (dfs_false_step edges f' _ _ _ hf' e).1 hm

/-- Everything `reach` adds to `seen` is reachable from the todo list. -/
theorem reach_sound (edges : Edges) : ∀ fuel todo seen m, m ∈ reach edges fuel todo seen →
    m ∈ seen ∨ ∃ n ∈ todo, Reaches edges n m := by
  intro fuel
  induction fuel with
  | zero => intro todo seen m h; rw [reach] at h; exact Or.inl h
  | succ f ih =>
    intro todo seen m h
    cases todo with
    | nil => rw [reach] at h; exact Or.inl h
    | cons n todo =>
      rw [reach] at h
      split at h
      · rcases ih _ _ _ h with h | ⟨n', hn', hr⟩
        · exact Or.inl h
        · exact Or.inr ⟨n', List.mem_cons_of_mem _ hn', hr⟩
      · rcases ih _ _ _ h with h | ⟨n', hn', hr⟩
        · rcases List.mem_append.mp h with h | h
          · exact Or.inl h
          · simp only [List.mem_singleton] at h
            subst h
            exact Or.inr ⟨m, List.mem_cons_self, Or.inl rfl⟩
        · rcases List.mem_append.mp hn' with hn' | hn'
          · exact Or.inr ⟨n', List.mem_cons_of_mem _ hn', hr⟩
          · exact Or.inr ⟨n, List.mem_cons_self, Reaches.of_edge ((mem_succs edges n n').mp hn') hr⟩

theorem scan_false (edges : Edges) (depth : Nat) : ∀ ns visited, (∀ v ∈ visited, Good edges v) →
    findCycle.scan edges depth ns visited = some false → ∀ n ∈ ns, Good edges n := by
  intro ns
  induction ns with
  | nil => intro visited _ _ n hn; exact absurd hn List.not_mem_nil
  | cons n ns ih =>
    intro visited hv h
    rw [findCycle.scan] at h
    split at h
    · rename_i hc
      intro n' hn'
      rcases List.mem_cons.mp hn' with hn' | hn'
      · subst hn'; exact hv _ (List.contains_iff_mem.mp hc)
      · exact ih _ hv h n' hn'
    · split at h
      · cases h
      · rename_i hd
        have hg : Good edges n := dfs_false_good edges _ n hd
        have hv' : ∀ v ∈ reach edges (edges.length * edges.length + edges.length + 2) [n] visited,
            Good edges v := by
          intro v hvm
          rcases reach_sound edges _ _ _ _ hvm with hvm | ⟨n', hn', hr⟩
          · exact hv v hvm
          · simp only [List.mem_singleton] at hn'
            subst hn'
            exact hg.of_reaches hr
        intro n' hn'
        rcases List.mem_cons.mp hn' with hn' | hn'
        · subst hn'; exact hg
        · exact ih _ hv' h n' hn'
      · cases h

/-! ## `sortNodes` keeps every node

  `Array.qsort` has no lemmas in the core library and its workers (`qsort.sort`, `qpartition.loop`) are
  private to `Init.Data.Array.QSort.Basic`; the macros below only spell their (mangled) names so that
  their generated unfolding equations can be used. -/

open Lean in
local macro "qsort_sort%" xs:term:max* : term =>
  pure (Syntax.mkApp (mkIdent (Name.mkStr (Name.mkStr (Name.mkStr (Name.mkNum (`_private.Init.Data.Array.QSort.Basic) 0) "Array") "qsort") "sort")) xs)
open Lean in
local macro "qpart_loop%" xs:term:max* : term =>
  pure (Syntax.mkApp (mkIdent (Name.mkStr (Name.mkStr (Name.mkStr (Name.mkNum (`_private.Init.Data.Array.QSort.Basic) 0) "Array") "qpartition") "loop")) xs)
open Lean in
local macro "qsort_sort_eq%" : term =>
  pure (mkIdent (Name.mkStr (Name.mkStr (Name.mkStr (Name.mkStr (Name.mkNum (`_private.Init.Data.Array.QSort.Basic) 0) "Array") "qsort") "sort") "eq_1"))
open Lean in
local macro "qpart_loop_eq%" : term =>
  pure (mkIdent (Name.mkStr (Name.mkStr (Name.mkStr (Name.mkStr (Name.mkNum (`_private.Init.Data.Array.QSort.Basic) 0) "Array") "qpartition") "loop") "eq_1"))

theorem qpart_loop_perm {α} (lt : α → α → Bool) {n} (lo hi : Nat) (hhi : hi < n) (pivot : α) :
    ∀ d (as : Vector α n) (i k : Nat) (ilo : lo ≤ i) (ik : i ≤ k) (w : k ≤ hi), hi - k = d →
      ((qpart_loop% lt lo hi hhi pivot as i k ilo ik w).2).Perm as := by
  intro d
  induction d with
  | zero =>
    intro as i k ilo ik w hd
    rw [qpart_loop_eq%]
    have hk : ¬ k < hi := by omega
    rw [dif_neg hk]
    exact Vector.swap_perm (by omega) (by omega)
  | succ d ih =>
    intro as i k ilo ik w hd
    rw [qpart_loop_eq%]
    have hk : k < hi := by omega
    rw [dif_pos hk]
    split
    · exact (ih _ _ _ _ _ _ (by omega)).trans (Vector.swap_perm _ _)
    · exact ih _ _ _ _ _ _ (by omega)

theorem qpartition_perm {α} (lt : α → α → Bool) {n} (as : Vector α n) (lo hi : Nat) (w : lo ≤ hi)
    (hlo : lo < n) (hhi : hi < n) : (Array.qpartition as lt lo hi w hlo hhi).2.Perm as := by
  unfold Array.qpartition
  simp only
  refine (qpart_loop_perm lt lo hi hhi _ _ _ _ _ _ _ _ rfl).trans ?_
  have swp : ∀ (v : Vector α n) (c : Prop) [Decidable c] (i j : Nat) (hi : i < n) (hj : j < n),
      (if c then v.swap i j hi hj else v).Perm v := by
    intro v c _ i j hi hj
    split
    · exact Vector.swap_perm _ _
    · exact Vector.Perm.refl _
  exact (swp _ _ _ _ _ _).trans ((swp _ _ _ _ _ _).trans (swp _ _ _ _ _ _))

theorem qsort_sort_perm {α} (lt : α → α → Bool) {n} : ∀ d (as : Vector α n) (lo hi : Nat) (w : lo ≤ hi)
    (hlo : lo < n) (hhi : hi < n), hi - lo ≤ d → (qsort_sort% lt as lo hi w hlo hhi).Perm as := by
  intro d
  induction d with
  | zero =>
    intro as lo hi w hlo hhi hd
    rw [qsort_sort_eq%]
    have : ¬ lo < hi := by omega
    rw [dif_neg this]
  | succ d ih =>
    intro as lo hi w hlo hhi hd
    rw [qsort_sort_eq%]
    split
    · have hp := qpartition_perm lt as lo hi w hlo hhi
      split
      rename_i mid hmid as' hq
      rw [hq] at hp
      simp only at hp
      split
      · exact hp
      · exact ((ih _ _ _ _ _ _ (by omega)).trans (ih _ _ _ _ _ _ (by omega))).trans hp
    · exact Vector.Perm.refl _

theorem qsort_perm {α} (as : Array α) (lt : α → α → Bool) : (as.qsort lt).Perm as := by
  unfold Array.qsort
  split
  · exact Array.Perm.refl _
  · simp only
    exact (qsort_sort_perm lt _ _ _ _ _ _ _ (Nat.le_refl _)).toArray

theorem mem_sortNodes (ns : List (Option Nat)) (a : Option Nat) : a ∈ sortNodes ns ↔ a ∈ ns := by
  unfold sortNodes
  simp only [Array.mem_toList_iff]
  rw [(qsort_perm _ _).mem_iff]
  simp

/-! ## The cycle search never runs out of fuel -/

/-- The recursion stack is duplicate free and made of nodes of the graph, so its length is bounded by
    the number of nodes; with `N.length + 1 ≤ fuel + stack.length` the fuel cannot reach 0. -/
theorem dfs_ne_none (edges : Edges) (N : List (Option Nat)) (hN : ∀ a b, Edge edges a b → b ∈ N) :
    ∀ f node stack, (node :: stack).Nodup → (∀ x ∈ node :: stack, x ∈ N) →
      N.length + 1 ≤ f + stack.length → dfs edges f node stack ≠ none := by
  intro f
  induction f with
  | zero =>
    intro node stack hnd hsub hlen
    have := List.Nodup.length_le_of_subset hnd (fun x hx => hsub x hx)
    simp only [List.length_cons] at this
    omega
  | succ f ih =>
    intro node stack hnd hsub hlen
    rw [dfs.eq_2]
    have key : ∀ ts, (∀ t ∈ ts, Edge edges node t) → dfs.go edges f (node :: stack) ts ≠ none := by
      intro ts
      induction ts with
      | nil => intro _; rw [dfs_go_nil]; intro h; cases h
      | cons t ts iht =>
        intro hts
        rw [dfs.go.eq_2]
        split
        · intro h; cases h
        · rename_i hc
          have hrec : dfs edges f t (node :: stack) ≠ none := by
            apply ih
            · exact List.nodup_cons.mpr ⟨fun hm => hc (List.contains_iff_mem.mpr hm), hnd⟩
            · intro x hx
              rcases List.mem_cons.mp hx with hx | hx
              · subst hx; exact hN _ _ (hts x List.mem_cons_self)
              · exact hsub x hx
            · simp only [List.length_cons]; omega
          split
          · intro h; cases h
          · exact iht (fun t' ht' => hts t' (List.mem_cons_of_mem _ ht'))
          · rename_i hd; exact absurd hd hrec
    exact key _ (fun t ht => (mem_succs edges node t).mp ht)

theorem scan_ne_none (edges : Edges) (depth : Nat) (N : List (Option Nat))
    (hN : ∀ a b, Edge edges a b → b ∈ N) (hd : N.length + 1 ≤ depth) :
    ∀ ns visited, (∀ n ∈ ns, n ∈ N) → findCycle.scan edges depth ns visited ≠ none := by
  intro ns
  induction ns with
  | nil => intro visited _; rw [findCycle.scan]; intro h; cases h
  | cons n ns ih =>
    intro visited hns
    have hns' : ∀ n' ∈ ns, n' ∈ N := fun n' hn' => hns n' (List.mem_cons_of_mem _ hn')
    rw [findCycle.scan]
    split
    · exact ih _ hns'
    · have hrec : dfs edges depth n [] ≠ none := by
        apply dfs_ne_none edges N hN
        · simp
        · intro x hx
          simp only [List.mem_singleton] at hx
          subst hx; exact hns x List.mem_cons_self
        · simp only [List.length_nil]; omega
      split
      · intro h; cases h
      · exact ih _ hns'
      · rename_i hd'; exact absurd hd' hrec

theorem findCycle_ne_none (edges : Edges) : findCycle edges ≠ none := by
  unfold findCycle
  simp only
  apply scan_ne_none edges _ ((edges.map (·.1) ++ edges.map (·.2)).eraseDups)
  · intro a b hab
    rw [List.mem_eraseDups]
    exact List.mem_append_right _ (List.mem_map.mpr ⟨(a, b), hab, rfl⟩)
  · omega
  · intro n hn
    rw [mem_sortNodes, List.mem_eraseDups] at hn
    rw [List.mem_eraseDups]
    exact List.mem_append_left _ hn


/-! ## The recorded edges are exactly the package pairs of the import statements of live files -/

/-- The root or a file transitively imported by it. -/
def Live (fs : FS) (x : Nat) : Prop := x = 0 ∨ Reachable fs x

theorem Live.imports {fs : FS} {x y : Nat} {ix : SrcInfo} (hl : Live fs x) (hx : fs[x]? = some ix)
    (hy : y ∈ ix.imports) : Reachable fs y := by
  rcases hl with rfl | hl
  · exact Reachable.root hx hy
  · exact Reachable.step hl ⟨ix, hx, hy⟩

/-- `a → b` is an edge of the package graph: some live file of package `a` imports an existing file of
    package `b` (packages are `Option`: `none` is "no go_package"). -/
def PkgEdge (fs : FS) (a b : Option Nat) : Prop :=
  ∃ x y ix iy, Live fs x ∧ fs[x]? = some ix ∧ y ∈ ix.imports ∧ fs[y]? = some iy ∧ a = ix.pkg ∧ b = iy.pkg

/-- Paths (at least one edge) in the package graph. -/
inductive PkgPath (fs : FS) : Option Nat → Option Nat → Prop
  | single {a b} : PkgEdge fs a b → PkgPath fs a b
  | cons {a b c} : PkgEdge fs a b → PkgPath fs b c → PkgPath fs a c

theorem PkgPath.snoc {fs : FS} {a b c} (h1 : PkgPath fs a b) (h2 : PkgEdge fs b c) : PkgPath fs a c := by
  induction h1 with
  | single e => exact PkgPath.cons e (PkgPath.single h2)
  | cons e _ ih => exact PkgPath.cons e (ih h2)

theorem PkgPath.head_edge {fs : FS} {a b} (h : PkgPath fs a b) : ∃ c, PkgEdge fs a c := by
  cases h with
  | single e => exact ⟨_, e⟩
  | cons e _ => exact ⟨_, e⟩

theorem path_iff_pkgPath {fs : FS} {edges : Edges} (h : ∀ a b, (a, b) ∈ edges ↔ PkgEdge fs a b) (a b) :
    Path edges a b ↔ PkgPath fs a b := by
  constructor
  · intro hp
    induction hp with
    | single e => exact PkgPath.single ((h _ _).mp e)
    | cons e _ ih => exact PkgPath.cons ((h _ _).mp e) ih
  · intro hp
    induction hp with
    | single e => exact Path.single ((h _ _).mpr e)
    | cons e _ ih => exact Path.cons ((h _ _).mpr e) ih

/-- Invariant for edge soundness. -/
structure EInv (fs : FS) (wl : List (Option Nat × Nat)) (edges : Edges) : Prop where
  wl : ∀ e ∈ wl, ∃ x ix, Live fs x ∧ fs[x]? = some ix ∧ e.2 ∈ ix.imports ∧ e.1 = ix.pkg
  edges : ∀ e ∈ edges, PkgEdge fs e.1 e.2

theorem EInv.step {fs : FS} {src tgt rest edges info} (h : EInv fs ((src, tgt) :: rest) edges)
    (hi : fs[tgt]? = some info) :
    EInv fs rest (edges ++ [(src, info.pkg)]) ∧
    EInv fs (rest ++ info.imports.map (fun t => (info.pkg, t))) (edges ++ [(src, info.pkg)]) := by
  obtain ⟨x, ix, hl, hx, hy, hs⟩ := h.wl (src, tgt) List.mem_cons_self
  have hed : ∀ e ∈ edges ++ [(src, info.pkg)], PkgEdge fs e.1 e.2 := by
    intro e he
    rcases List.mem_append.mp he with he | he
    · exact h.edges e he
    · simp only [List.mem_singleton] at he
      subst he
      exact ⟨x, tgt, ix, info, hl, hx, hy, hi, hs, rfl⟩
  have hrest : ∀ e ∈ rest, ∃ x ix, Live fs x ∧ fs[x]? = some ix ∧ e.2 ∈ ix.imports ∧ e.1 = ix.pkg :=
    fun e he => h.wl e (List.mem_cons_of_mem _ he)
  refine ⟨⟨hrest, hed⟩, ⟨?_, hed⟩⟩
  intro e he
  rcases List.mem_append.mp he with he | he
  · exact hrest e he
  · obtain ⟨t, ht, rfl⟩ := List.mem_map.mp he
    exact ⟨tgt, info, Or.inr (hl.imports hx hy), hi, ht, rfl⟩

theorem edges_sound_gen (fs : FS) : ∀ fuel wl imported edges imp' edges',
    EInv fs wl edges →
    worklist fs fuel wl imported edges = .ok (imp', edges') →
    ∀ e ∈ edges', PkgEdge fs e.1 e.2 := by
  intro fuel
  induction fuel with
  | zero =>
    intro wl imported edges imp' edges' hinv h
    rw [worklist_zero] at h
    injection h with h; injection h with h1 h2; subst h2
    exact hinv.edges
  | succ f ih =>
    intro wl imported edges imp' edges' hinv h
    cases wl with
    | nil =>
      rw [worklist_nil] at h
      injection h with h; injection h with h1 h2; subst h2
      exact hinv.edges
    | cons e rest =>
      obtain ⟨src, tgt⟩ := e
      cases hi : fs[tgt]? with
      | none => rw [worklist_cons_none _ _ _ _ _ _ _ hi] at h; cases h
      | some info =>
        by_cases hc : tgt ∈ imported
        · rw [worklist_cons_seen _ _ _ _ _ _ _ _ hi hc] at h
          exact ih _ _ _ _ _ (hinv.step hi).1 h
        · rw [worklist_cons_new _ _ _ _ _ _ _ _ hi hc] at h
          exact ih _ _ _ _ _ (hinv.step hi).2 h

theorem EInv.init {fs : FS} {root : SrcInfo} (h0 : fs[0]? = some root) : EInv fs (rootWork root) [] := by
  refine ⟨?_, fun e he => absurd he List.not_mem_nil⟩
  intro e he
  obtain ⟨t, ht, rfl⟩ := List.mem_map.mp he
  exact ⟨0, root, Or.inl rfl, h0, ht, rfl⟩

/-- Invariant for edge completeness: every import statement of the root and of the imported files is
    still on the worklist or has its edge recorded. -/
def ECl (fs : FS) (wl : List (Option Nat × Nat)) (imported : List Nat) (edges : Edges) : Prop :=
  ∀ x ix, (x = 0 ∨ x ∈ imported) → fs[x]? = some ix → ∀ y ∈ ix.imports,
    (ix.pkg, y) ∈ wl ∨ ∃ iy, fs[y]? = some iy ∧ (ix.pkg, iy.pkg) ∈ edges

theorem edges_complete_gen (fs : FS) : ∀ fuel wl imported edges imp' edges',
    wl.length + pend fs 0 imported < fuel →
    ECl fs wl imported edges →
    worklist fs fuel wl imported edges = .ok (imp', edges') →
    ECl fs [] imp' edges' := by
  intro fuel
  induction fuel with
  | zero => intro wl imported edges imp' edges' hf; omega
  | succ f ih =>
    intro wl imported edges imp' edges' hf hcl h
    cases wl with
    | nil =>
      rw [worklist_nil] at h
      injection h with h; injection h with h1 h2; subst h1; subst h2
      exact hcl
    | cons e rest =>
      obtain ⟨src, tgt⟩ := e
      cases hi : fs[tgt]? with
      | none => rw [worklist_cons_none _ _ _ _ _ _ _ hi] at h; cases h
      | some info =>
        -- what happens to the entries recorded so far when (src, tgt) is popped
        have hpop : ∀ x ix, (x = 0 ∨ x ∈ imported) → fs[x]? = some ix → ∀ y ∈ ix.imports,
            (ix.pkg, y) ∈ rest ∨ ∃ iy, fs[y]? = some iy ∧ (ix.pkg, iy.pkg) ∈ edges ++ [(src, info.pkg)] := by
          intro x ix hx hix y hy
          rcases hcl x ix hx hix y hy with hw | ⟨iy, hiy, he⟩
          · rcases List.mem_cons.mp hw with hw | hw
            · injection hw with hw1 hw2
              subst hw2
              refine Or.inr ⟨info, hi, ?_⟩
              rw [hw1]
              exact List.mem_append_right _ (List.mem_singleton.mpr rfl)
            · exact Or.inl hw
          · exact Or.inr ⟨iy, hiy, List.mem_append_left _ he⟩
        by_cases hc : tgt ∈ imported
        · rw [worklist_cons_seen _ _ _ _ _ _ _ _ hi hc] at h
          have hf' : rest.length + pend fs 0 imported < f := by
            simp only [List.length_cons] at hf; omega
          exact ih _ _ _ _ _ hf' hpop h
        · rw [worklist_cons_new _ _ _ _ _ _ _ _ hi hc] at h
          have hps := pend_step fs 0 imported tgt info (Nat.zero_le _) (by simpa using hi) hc
          have hf' : (rest ++ info.imports.map (fun t => (info.pkg, t))).length
              + pend fs 0 (imported ++ [tgt]) < f := by
            simp only [List.length_cons] at hf
            simp only [List.length_append, List.length_map]; omega
          refine ih _ _ _ _ _ hf' ?_ h
          intro x ix hx hix y hy
          have hold : (x = 0 ∨ x ∈ imported) → (ix.pkg, y) ∈ rest ++ info.imports.map (fun t => (info.pkg, t)) ∨
              ∃ iy, fs[y]? = some iy ∧ (ix.pkg, iy.pkg) ∈ edges ++ [(src, info.pkg)] := by
            intro hx'
            rcases hpop x ix hx' hix y hy with hw | hw
            · exact Or.inl (List.mem_append_left _ hw)
            · exact Or.inr hw
          rcases hx with hx | hx
          · exact hold (Or.inl hx)
          · rcases List.mem_append.mp hx with hx | hx
            · exact hold (Or.inr hx)
            · simp only [List.mem_singleton] at hx
              subst hx
              rw [hi] at hix
              injection hix with hix
              subst hix
              exact Or.inl (List.mem_append_right _ (List.mem_map.mpr ⟨y, hy, rfl⟩))

theorem ECl.init (fs : FS) (root : SrcInfo) (h0 : fs[0]? = some root) : ECl fs (rootWork root) [] [] := by
  intro x ix hx hix y hy
  rcases hx with hx | hx
  · subst hx
    rw [h0] at hix
    injection hix with hix
    subst hix
    exact Or.inl (List.mem_map.mpr ⟨y, hy, rfl⟩)
  · exact absurd hx List.not_mem_nil


/-! ## Unfolding `resolveImports` -/

theorem no_reachable (fs : FS) (root : SrcInfo) (h0 : fs[0]? = some root) (he : root.imports = []) :
    ∀ t, ¬ Reachable fs t := by
  intro t ht
  induction ht with
  | root hr hm =>
    rw [h0] at hr; injection hr with hr; subst hr
    rw [he] at hm; exact absurd hm List.not_mem_nil
  | step _ _ ih => exact ih

/-- An import chain from the root to an existing file `t` is a path in the package graph. -/
theorem reachable_pkgPath (fs : FS) (root : SrcInfo) (h0 : fs[0]? = some root) :
    ∀ t, Reachable fs t → ∀ it, fs[t]? = some it → PkgPath fs root.pkg it.pkg := by
  intro t ht
  induction ht with
  | root hr hm =>
    intro it hit
    rw [h0] at hr; injection hr with hr; subst hr
    exact PkgPath.single ⟨0, _, _, it, Or.inl rfl, h0, hm, hit, rfl, rfl⟩
  | step ha hab ih =>
    intro it hit
    obtain ⟨ia, hia, hb⟩ := hab
    exact (ih ia hia).snoc ⟨_, _, ia, it, Or.inr ha, hia, hb, hit, rfl, rfl⟩

theorem resolve_root_none (fs : FS) (sep : Bool) (h0 : fs[0]? = none) : resolveImports fs sep = .err .notFound := by
  unfold resolveImports; simp only [h0]

theorem resolve_no_imports (fs : FS) (sep : Bool) (root) (h0 : fs[0]? = some root) (he : root.imports = []) :
    resolveImports fs sep = .ok [0] := by
  unfold resolveImports; simp only [h0, he, List.isEmpty_nil, if_true]

theorem resolve_wl_error (fs : FS) (sep : Bool) (root e) (h0 : fs[0]? = some root) (he : root.imports ≠ [])
    (hw : worklist fs (fs.foldl (fun n i => n + i.imports.length) 0 + root.imports.length + 1)
      (root.imports.map (fun t => (root.pkg, t))) [] [] = .error e) :
    resolveImports fs sep = .err e := by
  have he' : root.imports.isEmpty = false := by
    cases h : root.imports with
    | nil => exact absurd h he
    | cons _ _ => rfl
  unfold resolveImports; simp only [h0, he', hw]; simp

theorem resolve_sep_cycle (fs : FS) (root imported edges) (h0 : fs[0]? = some root) (he : root.imports ≠ [])
    (hw : worklist fs (fs.foldl (fun n i => n + i.imports.length) 0 + root.imports.length + 1)
      (root.imports.map (fun t => (root.pkg, t))) [] [] = .ok (imported, edges))
    (hc : findCycle edges = some true) :
    resolveImports fs true = .err .cycle := by
  have he' : root.imports.isEmpty = false := by
    cases h : root.imports with
    | nil => exact absurd h he
    | cons _ _ => rfl
  unfold resolveImports; simp only [h0, he', hw, hc]; simp

theorem resolve_sep_nocycle (fs : FS) (root imported edges) (h0 : fs[0]? = some root) (he : root.imports ≠ [])
    (hw : worklist fs (fs.foldl (fun n i => n + i.imports.length) 0 + root.imports.length + 1)
      (root.imports.map (fun t => (root.pkg, t))) [] [] = .ok (imported, edges))
    (hc : findCycle edges = some false) :
    resolveImports fs true =
      if imported.any (fun i => (fs[i]?.bind (·.pkg)).isNone) then .err .noPkg else .ok (0 :: imported) := by
  have he' : root.imports.isEmpty = false := by
    cases h : root.imports with
    | nil => exact absurd h he
    | cons _ _ => rfl
  unfold resolveImports; simp only [h0, he', hw, hc]; simp

/-- A graph whose edges all increase some rank has no cycle (used for concrete examples). -/
theorem no_cycle_of_rank (edges : Edges) (r : Option Nat → Nat) (h : ∀ e ∈ edges, r e.1 < r e.2) :
    ¬ HasCycle edges := by
  have hp : ∀ a b, Path edges a b → r a < r b := by
    intro a b hab
    induction hab with
    | single e => exact h _ e
    | cons e _ ih => exact Nat.lt_trans (h _ e) ih
  rintro ⟨n, hn⟩
  exact Nat.lt_irrefl _ (hp n n hn)

end Bebop.Text
