/-
  Helper lemmas: the byte-slice decoders (safe and unchecked) invert the reference encoder.
-/
import Bebop.Proofs.Enc
import Bebop.Proofs.GSize

namespace Bebop

theorem readN_append (chk : Bool) (bs rest : List Byte) :
    readN chk bs.length (bs ++ rest) = .ok (bs, rest) := by
  simp [readN]

theorem readN_append' (chk : Bool) (n : Nat) (bs rest : List Byte) (h : bs.length = n) :
    readN chk n (bs ++ rest) = .ok (bs, rest) := by
  subst h; exact readN_append chk bs rest

theorem readU32_append (chk : Bool) (n : Nat) (rest : List Byte) (h : n < 2^32) :
    readU32 chk (leBytes 4 n ++ rest) = .ok (n, rest) := by
  have h' : n < 256 ^ 4 := by simpa using h
  simp [readU32, readN_append' chk 4 (leBytes 4 n) rest (by simp), ofLe_leBytes 4 n h']

theorem guidRead_guidWire (bs : List Byte) (h : bs.length = 16) : guidRead (guidWire bs) = bs := by
  match bs, h with
  | [b0, b1, b2, b3, b4, b5, b6, b7, b8, b9, b10, b11, b12, b13, b14, b15], _ =>
    simp [guidRead, guidWire, Facts.guidReadPerm, Facts.guidWritePerm]

theorem toInt64_ofInt64 (x : Int) (h1 : -(2^63 : Int) ≤ x) (h2 : x < (2^63 : Int)) :
    toInt64 (ofInt64 x) = x := by
  unfold toInt64 ofInt64
  have hpos : (0 : Int) ≤ x % ((2^64 : Nat) : Int) := Int.emod_nonneg _ (by decide)
  have hlt : x % ((2^64 : Nat) : Int) < ((2^64 : Nat) : Int) := Int.emod_lt_of_pos _ (by decide)
  have hn : ((x % ((2^64 : Nat) : Int)).toNat : Int) = x % ((2^64 : Nat) : Int) := Int.toNat_of_nonneg hpos
  have hmod : (x % ((2^64 : Nat) : Int)).toNat % 2^64 = (x % ((2^64 : Nat) : Int)).toNat := by
    apply Nat.mod_eq_of_lt
    omega
  rw [hmod]
  by_cases hx : 0 ≤ x
  · have : x % ((2^64 : Nat) : Int) = x := Int.emod_eq_of_lt hx (by omega)
    rw [this] at hn ⊢
    have : x.toNat < 2^63 := by omega
    simp [this, Int.toNat_of_nonneg hx]
  · have : x % ((2^64 : Nat) : Int) = x + ((2^64 : Nat) : Int) := by
      rw [← Int.add_emod_right]; exact Int.emod_eq_of_lt (by omega) (by omega)
    rw [this] at hn ⊢
    have : ¬ (x + ((2^64 : Nat) : Int)).toNat < 2^63 := by omega
    simp only [this, if_false]
    omega

theorem ofInt64_toInt64 (n : Nat) (h : n < 2^64) : ofInt64 (toInt64 n) = n := by
  unfold toInt64 ofInt64
  have hm : n % 2^64 = n := Nat.mod_eq_of_lt h
  rw [hm]
  split
  · have : ((n : Int) % ((2^64 : Nat) : Int)) = n := Int.emod_eq_of_lt (by omega) (by omega)
    rw [this]; simp
  · have : (((n : Int) - ((2^64 : Nat) : Int)) % ((2^64 : Nat) : Int)) = n := by
      rw [Int.sub_emod_right]; exact Int.emod_eq_of_lt (by omega) (by omega)
    rw [this]; simp

theorem dateNorm_of_ok (n : Nat) (h : dateOk n) : dateNorm n = n := by
  obtain ⟨hn, h1, h2⟩ := h
  unfold dateNorm
  simp only [toInt64_ofInt64 _ h1 h2]
  by_cases hz : toInt64 n * 100 = 0
  · have : toInt64 n = 0 := by omega
    have h0 : ofInt64 (toInt64 n) = n := ofInt64_toInt64 n hn
    rw [this] at h0
    simp [hz]
    rw [← h0]; rfl
  · have : (toInt64 n * 100 == 0) = false := by simpa using hz
    simp only [this]
    rw [Int.mul_tdiv_cancel _ (by decide)]
    simpa using ofInt64_toInt64 n hn

/-- A value of a fixed-size type occupies exactly that many bytes. -/
theorem vsize_of_fixed (env : Env) (t : Ty) (s : Nat) (hs : fixedSize t = some s) :
    (v : Val) → wt env t v → vsize v = s
  | .scalar w n, h => by
      simp only [wt] at h
      rcases h with ⟨_, h | h | h | h | h⟩
      · obtain ⟨h, _⟩ := h; subst h; simp [fixedSize] at hs; simp [vsize, hs]
      · rcases h with ⟨rfl, rfl, _⟩; simp [fixedSize, Facts.szBool] at hs; simp [vsize, hs]
      · rcases h with ⟨rfl, rfl⟩; simp [fixedSize, Facts.szFloat32] at hs; simp [vsize, hs]
      · rcases h with ⟨rfl, rfl⟩; simp [fixedSize, Facts.szFloat64] at hs; simp [vsize, hs]
      · rcases h with ⟨rfl, rfl, _⟩; simp [fixedSize, Facts.szDate] at hs; simp [vsize, hs]
  | .str _, h => by simp only [wt] at h; rcases h with ⟨rfl, _⟩; simp [fixedSize] at hs
  | .guid _, h => by
      simp only [wt] at h; rcases h with ⟨rfl, _⟩
      simp [fixedSize, Facts.szGuid] at hs; simp [vsize, hs]
  | .arr _, h => by simp only [wt] at h; rcases h with ⟨_, rfl, _⟩; simp [fixedSize] at hs
  | .map _, h => by simp only [wt] at h; rcases h with ⟨_, _, rfl, _⟩; simp [fixedSize] at hs
  | .struct _, h => by simp only [wt] at h; rcases h with ⟨_, _, rfl, _⟩; simp [fixedSize] at hs
  | .msg _, h => by simp only [wt] at h; rcases h with ⟨_, _, rfl, _⟩; simp [fixedSize] at hs
  | .union _ _, h => by simp only [wt] at h; rcases h with ⟨_, _, _, rfl, _⟩; simp [fixedSize] at hs

theorem vsizeList_of_fixed (env : Env) (t : Ty) (s : Nat) (hs : fixedSize t = some s) :
    (vs : List Val) → wtList env t vs → vsizeList vs = vs.length * s
  | [], _ => by simp [vsizeList]
  | v :: vs, h => by
      simp only [wtList] at h
      simp [vsizeList, vsize_of_fixed env t s hs v h.1, vsizeList_of_fixed env t s hs vs h.2,
        Nat.add_mul, Nat.add_comm]

theorem mapInsert_fresh (kt : Ty) (k v : Val) (acc : List (Val × Val))
    (h : ∀ a ∈ acc, keyEq kt a.1 k = false) : mapInsert kt k v acc = acc ++ [(k, v)] := by
  induction acc with
  | nil => rfl
  | cons a acc ih =>
    obtain ⟨k', v'⟩ := a
    have h1 : keyEq kt k' k = false := h (k', v') (by simp)
    simp [mapInsert, h1, ih (fun a ha => h a (by simp [ha]))]

theorem msgSet_fresh (i : Nat) (v : Val) (acc : List (Nat × Val)) (h : ∀ a ∈ acc, a.1 < i) :
    msgSet i v acc = acc ++ [(i, v)] := by
  induction acc with
  | nil => rfl
  | cons a acc ih =>
    obtain ⟨j, w⟩ := a
    have h1 : j < i := h (j, w) (by simp)
    have h2 : ¬ i < j := by omega
    have h3 : ¬ i = j := by omega
    simp [msgSet, h2, h3, ih (fun a ha => h a (by simp [ha]))]

theorem length_le_encFields : (fs : List (Nat × Val)) → fs.length ≤ (encFields fs).length
  | [] => by simp
  | (i, v) :: fs => by
      have := length_le_encFields fs
      simp [encFields]; omega

theorem toNat_ofNat_lt (d : Nat) (h : d < 256) : (UInt8.ofNat d).toNat = d := by
  simp [UInt8.toNat_ofNat', Nat.mod_eq_of_lt h]

end Bebop

namespace Bebop

theorem Progress.tail {v : Val} {vs : List Val} (h : Progress (v :: vs)) : Progress vs := by
  rcases h with h | h
  · left; simp at h; omega
  · right; intro x hx; exact h x (by simp [hx])

/-- The zero-progress guard of `decN` / `sdecN` never fires on an element of a `Progress` list. -/
theorem Progress.head_guard {v : Val} {vs : List Val} (h : Progress (v :: vs)) :
    ¬ ((enc v).length = 0 ∧ loopSlack ≤ vs.length) := by
  rintro ⟨h0, hs⟩
  rcases h with h | h
  · simp at h; omega
  · have := h v (by simp); rw [← length_enc] at this; omega

/-- A map key occupies at least one byte. -/
theorem key_enc_pos (env : Env) (k : Ty) (hk : isKeyTy k = true) : (a : Val) → wt env k a → 0 < (enc a).length
  | .scalar w n, h => by
      simp only [wt] at h
      obtain ⟨_, h⟩ := h
      rcases h with ⟨_, hw⟩ | ⟨_, rfl, _⟩ | ⟨_, rfl⟩ | ⟨_, rfl⟩ | ⟨_, rfl, _⟩ <;> simp [enc] <;> omega
  | .str bs, _ => by simp [enc]; omega
  | .guid bs, _ => by simp [enc]
  | .arr _, h => by simp only [wt] at h; obtain ⟨_, rfl, _⟩ := h; simp [isKeyTy] at hk
  | .map _, h => by simp only [wt] at h; obtain ⟨_, _, rfl, _⟩ := h; simp [isKeyTy] at hk
  | .struct _, h => by simp only [wt] at h; obtain ⟨_, _, rfl, _⟩ := h; simp [isKeyTy] at hk
  | .msg _, h => by simp only [wt] at h; obtain ⟨_, _, rfl, _⟩ := h; simp [isKeyTy] at hk
  | .union _ _, h => by simp only [wt] at h; obtain ⟨_, _, _, rfl, _⟩ := h; simp [isKeyTy] at hk

mutual
/-- Every decoder variant reads back exactly the value that was encoded and stops exactly at its end. -/
theorem dec_enc (env : Env) (hE : EnvOk env) :
    (v : Val) → ∀ (ty : Ty) (safe : Bool) (f : Nat) (rest : List Byte), wt env ty v → rank v < f →
      dec f env safe ty (enc v ++ rest) = .ok (v, rest)
  | .scalar w n, ty, safe, f, rest, h, hf => by
      match f, hf with
      | f+1, _ =>
      simp only [wt] at h
      obtain ⟨hn, h⟩ := h
      have hr := readN_append' safe w (leBytes w n) rest (by simp)
      rcases h with h | h | h | h | h
      · obtain ⟨h, _⟩ := h; subst h; simp [dec, enc, hr, ofLe_leBytes w n hn]
      · obtain ⟨rfl, rfl, h1⟩ := h
        have : n = 0 ∨ n = 1 := by omega
        rcases this with rfl | rfl <;> simp [dec, enc, Facts.szBool, hr, ofLe_leBytes 1 _ hn]
      · obtain ⟨rfl, rfl⟩ := h; simp [dec, enc, Facts.szFloat32, hr, ofLe_leBytes 4 n hn]
      · obtain ⟨rfl, rfl⟩ := h; simp [dec, enc, Facts.szFloat64, hr, ofLe_leBytes 8 n hn]
      · obtain ⟨rfl, rfl, hd⟩ := h
        simp [dec, enc, Facts.szDate, hr, ofLe_leBytes 8 n hn, dateNorm_of_ok n hd]
  | .str bs, ty, safe, f, rest, h, hf => by
      match f, hf with
      | f+1, _ =>
      simp only [wt] at h
      obtain ⟨rfl, hl⟩ := h
      simp [dec, enc, List.append_assoc, readU32_append safe bs.length _ hl, readN_append]
  | .guid bs, ty, safe, f, rest, h, hf => by
      match f, hf with
      | f+1, _ =>
      simp only [wt] at h
      obtain ⟨rfl, hl⟩ := h
      simp [dec, enc, Facts.szGuid, readN_append' safe 16 (guidWire bs) rest (by simp), guidRead_guidWire bs hl]
  | .arr vs, ty, safe, f, rest, h, hf => by
      match f, hf with
      | f+1, hf =>
      simp only [wt] at h
      obtain ⟨t, rfl, hl, hw, hp⟩ := h
      simp only [rank] at hf
      have hf' : rankList vs < f := by omega
      simp only [dec, enc, List.append_assoc, readU32_append safe vs.length _ hl, Res.ok_bind]
      cases hfs : (if safe then fixedSize t else none) with
      | none =>
        simp only [decN_enc env hE vs t safe f rest hw hp hf', Res.ok_bind, Res.pure_eq]
      | some s =>
        have hs : fixedSize t = some s := by
          cases safe <;> simp at hfs; exact hfs
        have hlen : ¬ (encList vs ++ rest).length < vs.length * s := by
          simp [length_encList, vsizeList_of_fixed env t s hs vs hw]
        simp only [hlen, if_false, decN_enc env hE vs t false f rest hw hp hf', Res.ok_bind, Res.pure_eq]
  | .map kvs, ty, safe, f, rest, h, hf => by
      match f, hf with
      | f+1, hf =>
      simp only [wt] at h
      obtain ⟨k, t, rfl, _, hl, hw, hd⟩ := h
      simp only [rank] at hf
      have hf' : rankKVs kvs < f := by omega
      simp only [dec, enc, List.append_assoc, readU32_append safe kvs.length _ hl, Res.ok_bind]
      rw [decEntries_enc env hE kvs k t safe f rest [] hw hd (by simp) hf']
      simp
  | .struct fs, ty, safe, f, rest, h, hf => by
      match f, hf with
      | f+1, hf =>
      have hg := gsize_eq_vsize_of_wt env _ ty h
      simp only [wt] at h
      obtain ⟨n, tys, rfl, hn, hw⟩ := h
      simp only [rank] at hf
      have hf' : rankList fs < f := by omega
      simp only [dec, hn, enc, decFields_enc env hE fs tys safe f rest hw hf', Res.ok_bind]
      rw [hg]
      have hle : vsize (.struct fs) ≤ (encList fs ++ rest).length := by
        simp [vsize, length_encList]
      simp only [hle, if_true, Res.pure_eq]
      have : vsize (.struct fs) = (encList fs).length := by simp [vsize, length_encList]
      rw [this, List.drop_left]
  | .msg fs, ty, safe, f, rest, h, hf => by
      match f, hf with
      | 0, hf => simp [rank] at hf
      | 1, hf => simp [rank] at hf
      | f+2, hf =>
      have hg := gsize_eq_vsize_of_wt env _ ty h
      simp only [wt] at h
      obtain ⟨n, fds, rfl, hn, hw, hsz⟩ := h
      simp only [rank] at hf
      have hf' : rankFields fs < f := by omega
      have hok : DefOk (.msg fds) := hE _ (List.mem_of_getElem? hn)
      have hlen : (encFields fs).length + 1 < 2^32 := by rw [length_encFields]; exact hsz
      have hloop := decMsgLoop_enc env hE fs fds safe f rest 0 [] ((encFields fs ++ 0 :: rest).length + 1)
        hok hw (by simp) hf' (by have := length_le_encFields fs; simp; omega)
      have hbody : enc (.msg fs) ++ rest = leBytes 4 ((encFields fs).length + 1) ++ (encFields fs ++ 0 :: rest) := by
        simp [enc, List.append_assoc]
      have htake : (enc (.msg fs) ++ rest).take 4 = leBytes 4 ((encFields fs).length + 1) := by
        rw [hbody, List.take_left' (by simp)]
      simp only [dec, hn, decMsgBody]
      rw [htake, hbody, readN_append' safe 4 _ _ (by simp)]
      simp only [Res.ok_bind, hloop, List.nil_append, Res.pure_eq, ofLe_leBytes 4 _ (by simpa using hlen)]
      have hvs : vsize (.msg fs) = Facts.msgHeaderLen + ((encFields fs).length + 1) := by
        simp [vsize, Facts.msgSizeBase, Facts.msgHeaderLen, length_encFields]; omega
      have hln : (if safe = true then max (Facts.msgHeaderLen + ((encFields fs).length + 1)) (gsize env (.ref n) (.msg fs))
          else Facts.msgHeaderLen + ((encFields fs).length + 1)) = Facts.msgHeaderLen + ((encFields fs).length + 1) := by
        rw [hg, hvs]; cases safe <;> simp
      rw [hln]
      have hl2 : Facts.msgHeaderLen + ((encFields fs).length + 1)
          ≤ (leBytes 4 ((encFields fs).length + 1) ++ (encFields fs ++ 0 :: rest)).length := by
        simp [Facts.msgHeaderLen]
      simp only [hl2, if_true]
      have : Facts.msgHeaderLen + ((encFields fs).length + 1)
          = (leBytes 4 ((encFields fs).length + 1) ++ (encFields fs ++ [0])).length := by
        simp [Facts.msgHeaderLen]
      rw [this, show (leBytes 4 ((encFields fs).length + 1) ++ (encFields fs ++ 0 :: rest))
          = (leBytes 4 ((encFields fs).length + 1) ++ (encFields fs ++ [0])) ++ rest by simp, List.drop_left]
  | .union d v, ty, safe, f, rest, h, hf => by
      match f, hf with
      | 0, hf => simp [rank] at hf
      | 1, hf => simp [rank] at hf
      | f+2, hf =>
      have hg := gsize_eq_vsize_of_wt env _ ty h
      simp only [wt] at h
      obtain ⟨n, brs, m, rfl, hn, hd, hm, hw, hsz⟩ := h
      simp only [rank] at hf
      have hf' : rank v < f := by omega
      have hlen : (enc v).length < 2^32 := by rw [length_enc]; exact hsz
      have hbody : enc (.union d v) ++ rest = leBytes 4 (enc v).length ++ (UInt8.ofNat d :: (enc v ++ rest)) := by
        simp [enc, List.append_assoc]
      have htake : (enc (.union d v) ++ rest).take 4 = leBytes 4 (enc v).length := by
        rw [hbody, List.take_left' (by simp)]
      simp only [dec, hn, decUnionBody]
      rw [htake, hbody, readN_append' safe 4 _ _ (by simp)]
      simp only [Res.ok_bind, toNat_ofNat_lt d hd, hm, dec_enc env hE v (.ref m) safe f rest hw hf',
        Res.pure_eq, ofLe_leBytes 4 _ (by simpa using hlen)]
      have hvs : vsize (.union d v) = Facts.unionHeaderLen + (enc v).length := by
        simp [vsize, Facts.unionSizeBase, Facts.unionHeaderLen, length_enc]
      have hln : (if safe = true then max (Facts.unionHeaderLen + (enc v).length) (gsize env (.ref n) (.union d v))
          else Facts.unionHeaderLen + (enc v).length) = Facts.unionHeaderLen + (enc v).length := by
        rw [hg, hvs]; cases safe <;> simp
      rw [hln]
      have hl2 : Facts.unionHeaderLen + (enc v).length
          ≤ (leBytes 4 (enc v).length ++ UInt8.ofNat d :: (enc v ++ rest)).length := by
        simp [Facts.unionHeaderLen]; omega
      simp only [hl2, if_true]
      have : Facts.unionHeaderLen + (enc v).length
          = (leBytes 4 (enc v).length ++ UInt8.ofNat d :: enc v).length := by
        simp [Facts.unionHeaderLen]; omega
      rw [this, show (leBytes 4 (enc v).length ++ UInt8.ofNat d :: (enc v ++ rest))
          = (leBytes 4 (enc v).length ++ UInt8.ofNat d :: enc v) ++ rest by simp, List.drop_left]

theorem decN_enc (env : Env) (hE : EnvOk env) :
    (vs : List Val) → ∀ (t : Ty) (safe : Bool) (f : Nat) (rest : List Byte), wtList env t vs → Progress vs →
      rankList vs < f →
      decN (dec f env safe t) vs.length (encList vs ++ rest) = .ok (vs, rest)
  | [], _, _, _, _, _, _, _ => by simp [decN, encList]
  | v :: vs, t, safe, f, rest, h, hp, hf => by
      simp only [wtList] at h
      simp only [rankList] at hf
      have h1 : rank v < f := by omega
      have h2 : rankList vs < f := by omega
      have hg : ¬ ((encList vs ++ rest).length = (enc v ++ (encList vs ++ rest)).length ∧ loopSlack ≤ vs.length) := by
        intro ⟨hl, hs⟩
        simp only [List.length_append] at hl
        exact hp.head_guard ⟨by omega, hs⟩
      simp only [List.length_cons, decN, encList, List.append_assoc, dec_enc env hE v t safe f _ h.1 h1,
        Res.ok_bind, hg, if_false, decN_enc env hE vs t safe f rest h.2 hp.tail h2, Res.pure_eq]

theorem decEntries_enc (env : Env) (hE : EnvOk env) :
    (kvs : List (Val × Val)) → ∀ (k t : Ty) (safe : Bool) (f : Nat) (rest : List Byte) (acc : List (Val × Val)),
      wtKVs env k t kvs → keysDistinct k kvs → (∀ a ∈ acc, ∀ kv ∈ kvs, keyEq k a.1 kv.1 = false) →
      rankKVs kvs < f →
      decEntries k (dec f env safe k) (dec f env safe t) kvs.length (encKVs kvs ++ rest) acc = .ok (acc ++ kvs, rest)
  | [], _, _, _, _, _, _, _, _, _, _ => by simp [decEntries, encKVs]
  | (a, b) :: kvs, k, t, safe, f, rest, acc, h, hd, hacc, hf => by
      simp only [wtKVs] at h
      simp only [keysDistinct] at hd
      simp only [rankKVs] at hf
      have h1 : rank a < f := by omega
      have h2 : rank b < f := by omega
      have h3 : rankKVs kvs < f := by omega
      have hfresh : ∀ x ∈ acc, keyEq k x.1 a = false := fun x hx => hacc x hx (a, b) (by simp)
      have hacc' : ∀ x ∈ acc ++ [(a, b)], ∀ kv ∈ kvs, keyEq k x.1 kv.1 = false := by
        intro x hx kv hkv
        rcases List.mem_append.mp hx with hx | hx
        · exact hacc x hx kv (by simp [hkv])
        · simp at hx; subst hx; exact hd.1 kv hkv
      simp only [List.length_cons, decEntries, encKVs, List.append_assoc,
        dec_enc env hE a k safe f _ h.1 h1, dec_enc env hE b t safe f _ h.2.1 h2, Res.ok_bind,
        mapInsert_fresh k a b acc hfresh]
      rw [decEntries_enc env hE kvs k t safe f rest (acc ++ [(a, b)]) h.2.2 hd.2 hacc' h3]
      simp

theorem decFields_enc (env : Env) (hE : EnvOk env) :
    (fs : List Val) → ∀ (tys : List Ty) (safe : Bool) (f : Nat) (rest : List Byte), wtStruct env tys fs → rankList fs < f →
      decFields (dec f env safe) tys (encList fs ++ rest) = .ok (fs, rest)
  | [], [], _, _, _, _, _ => by simp [decFields, encList]
  | [], _ :: _, _, _, _, h, _ => by simp [wtStruct] at h
  | _ :: _, [], _, _, _, h, _ => by simp [wtStruct] at h
  | v :: vs, t :: tys, safe, f, rest, h, hf => by
      simp only [wtStruct] at h
      simp only [rankList] at hf
      have h1 : rank v < f := by omega
      have h2 : rankList vs < f := by omega
      simp [decFields, encList, List.append_assoc, dec_enc env hE v t safe f _ h.1 h1,
        decFields_enc env hE vs tys safe f rest h.2 h2]

theorem decMsgLoop_enc (env : Env) (hE : EnvOk env) :
    (fs : List (Nat × Val)) → ∀ (fds : List MsgField) (safe : Bool) (f : Nat) (rest : List Byte) (lo : Nat)
      (acc : List (Nat × Val)) (n : Nat), DefOk (.msg fds) → wtMsg env fds lo fs → (∀ a ∈ acc, a.1 ≤ lo) →
      rankFields fs < f → fs.length < n →
      decMsgLoop safe (dec f env safe) fds n (encFields fs ++ 0 :: rest) acc = .ok (acc ++ fs, 0 :: rest)
  | [], fds, safe, f, rest, lo, acc, n, hok, _, _, _, hn => by
      match n, hn with
      | n+1, _ =>
      have : fds.find? (fun fd => fd.idx == 0) = none := by
        rw [List.find?_eq_none]
        intro fd hfd
        have := (hok fd hfd).1
        simp; omega
      simp [decMsgLoop, encFields, this]
  | (i, v) :: fs, fds, safe, f, rest, lo, acc, n, hok, h, hacc, hf, hn => by
      match n, hn with
      | n+1, hn =>
      simp only [wtMsg] at h
      obtain ⟨hlo, hi, ⟨fd, hfd, _, hwv⟩, hrest⟩ := h
      simp only [rankFields] at hf
      have h1 : rank v < f := by omega
      have h2 : rankFields fs < f := by omega
      have hidx : fd.idx = i := find_msgField fds i fd hfd
      have hacc1 : ∀ a ∈ acc, a.1 < i := fun a ha => by have := hacc a ha; omega
      have hacc' : ∀ a ∈ acc ++ [(i, v)], a.1 ≤ i := by
        intro a ha
        rcases List.mem_append.mp ha with ha | ha
        · have := hacc1 a ha; omega
        · simp at ha; subst ha; simp
      simp only [List.length_cons] at hn
      simp only [decMsgLoop, encFields, List.cons_append, List.append_assoc, toNat_ofNat_lt i hi, hfd,
        dec_enc env hE v fd.ty safe f _ hwv h1, Res.ok_bind, hidx, msgSet_fresh i v acc hacc1]
      rw [decMsgLoop_enc env hE fs fds safe f rest i (acc ++ [(i, v)]) n hok hrest hacc' h2 (by omega)]
      simp
end

end Bebop
