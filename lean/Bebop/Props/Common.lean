/-
  Shared vocabulary of the property statements, and one concrete schema + value used by the
  non-vacuity examples that follow every property theorem.
-/
import Bebop.Slice
import Bebop.Stream

namespace Bebop

/-- The three generated encoders. `marshalTo buf`: into a caller-supplied buffer with arbitrary contents. -/
inductive Encoder where
  | marshal
  | marshalTo (buf : List Byte)
  | encodeStream

/-- The three generated decoders. -/
inductive Decoder where
  | unmarshal
  | mustUnmarshal
  | decodeStream

/-- The bytes an encoder produces for `v` (for `marshalTo`: the first `n` bytes of the buffer, `n` the
    returned count); `none`: panic or a non-nil error. -/
def runEnc : Encoder → Val → Option (List Byte)
  | .marshal, v => marshal v
  | .marshalTo buf, v => (marshalTo v buf).map (fun r => r.1.take r.2)
  | .encodeStream, v =>
      let r := encodeStream (fun _ => true) v
      if r.2 then none else some r.1.out

/-- The value a decoder returns for record `n`; `none`: error, panic or out of fuel. -/
def runDec (fuel : Nat) (env : Env) (n : Nat) : Decoder → List Byte → Option Val
  | .unmarshal, bs => match unmarshal fuel env true n bs with | .ok v => some v | _ => none
  | .mustUnmarshal, bs => match unmarshal fuel env false n bs with | .ok v => some v | _ => none
  | .decodeStream, bs => match decodeStream (fuel+1) env n bs with | .ok v _ => some v | _ => none

/-! A small schema exercising every constructor:
    0: struct Inner { int32 a; string s; }
    1: message M { 1 -> Inner inner; 2 -> int32[] xs; 3 -> map[string, bool] m; 4 -> guid g; 5 -> date d; }
    2: union U { 1 -> Inner; 2 -> M; }
    3: struct Outer { U u; M m; float64 f; } -/
def exEnv : Env :=
  [ .struct [.scalar 4, .str],
    .msg [⟨1, .ref 0, false⟩, ⟨2, .arr (.scalar 4), false⟩, ⟨3, .map .str .bool, false⟩, ⟨4, .guid, false⟩, ⟨5, .date, false⟩],
    .union [(1, 0), (2, 1)],
    .struct [.ref 2, .ref 1, .f64] ]

def exInner : Val := .struct [.scalar 4 7, .str [104, 105]]
def exMsg : Val :=
  .msg [(1, exInner), (2, .arr [.scalar 4 1, .scalar 4 4294967295]), (3, .map [(.str [97], .scalar 1 1), (.str [], .scalar 1 0)]),
        (4, .guid (List.range 16 |>.map UInt8.ofNat)), (5, .scalar 8 1234567)]
def exVal : Val := .struct [.union 2 exMsg, .msg [(2, .arr [])], .scalar 8 9221120237041090561]

theorem exEnv_ok : EnvOk exEnv := by
  intro d hd
  simp [exEnv] at hd
  rcases hd with rfl | rfl | rfl | rfl <;> simp [DefOk]

theorem exInner_wt : wt exEnv (.ref 0) exInner := by
  simp [wt, wtStruct, exInner, exEnv]

theorem exMsg_wt : wt exEnv (.ref 1) exMsg := by
  refine ⟨1, _, rfl, rfl, ?_, by decide⟩
  simp only [wtMsg, exEnv, List.find?]
  refine ⟨by decide, by decide, ⟨_, rfl, rfl, exInner_wt⟩, by decide, by decide, ⟨_, rfl, rfl, ?_⟩, by decide, by decide,
    ⟨_, rfl, rfl, ?_⟩, by decide, by decide, ⟨_, rfl, rfl, ?_⟩, by decide, by decide, ⟨_, rfl, rfl, ?_⟩, trivial⟩
  · simp [wt, wtList, Progress, loopSlack]
  · exact ⟨.str, .bool, rfl, rfl, by decide, by simp [wtKVs, wt], by simp [keysDistinct, keyEq]⟩
  · simp [wt]
  · simp only [wt]; exact ⟨by decide, Or.inr (Or.inr (Or.inr (Or.inr ⟨trivial, trivial, by decide⟩)))⟩

theorem exVal_wt : wt exEnv (.ref 3) exVal := by
  refine ⟨3, _, rfl, rfl, ?_⟩
  simp only [wtStruct]
  refine ⟨?_, ?_, ?_, trivial⟩
  · exact ⟨2, _, 1, rfl, rfl, by decide, rfl, exMsg_wt, by decide⟩
  · refine ⟨1, _, rfl, rfl, ?_, by decide⟩
    simp only [wtMsg, exEnv, List.find?]
    refine ⟨by decide, by decide, ⟨_, rfl, rfl, ?_⟩, trivial⟩
    simp [wt, wtList, Progress, loopSlack]
  · simp [wt]

end Bebop
