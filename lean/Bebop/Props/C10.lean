/-
  C10 — ReadFile always terminates and never silently drops part of a schema.

  `readFile inp ioFail` (Bebop.Text.Parser) models bebop.ReadFile on a reader that delivers the bytes `inp`
  and then ends with EOF (`ioFail = false`) or with a persistent I/O error (`ioFail = true`), over the
  tokenizer model (bufio ReadByte / UnreadByte / ReadRune / ReadBytes).

  Proved for ALL inputs and both endings:
  * the tokenizer never panics (every UnreadByte directly follows a successful ReadByte) and so ReadFile
    never panics;
  * ReadFile reports success only if the reader ended with EOF and every byte of the input was consumed —
    in particular an I/O error of the reader always surfaces as an error, and nothing after the last
    definition (an unterminated comment, a stray character) can be dropped silently.
  * the fuel of the tokenizer's helper loops is irrelevant (`C10_tokenizer_fuel_irrelevant`): with the fuel
    the callers pass the fuel-0 branches are never reached, any larger fuel gives the same result.
  Termination: the model is a total function (structural recursion on fuel); that the fuel
  `2·|input| + 4` is never exhausted is validated by the correspondence run (the driver would answer `fuel`),
  not proved. Identifiers containing non-ASCII letters are outside the model (it answers `declined`).
  The "append one more definition" form of the statement is the direct oracle the text engine runs on every
  accepted input.
-/
import Bebop.Proofs.Parser
import Bebop.Proofs.ParserTotal
import Bebop.Proofs.TokenizerFuel

namespace Bebop.Text

/-- The tokenizer never panics: `Next` keeps `unreadByte` legal. -/
theorem C10_tokenizer_never_panics (t : TR) (h : t.panicked = false) : (next t).2.panicked = false :=
  next_no_panic t h

/-- ReadFile never panics, for any bytes and any reader ending. -/
theorem C10_readFile_never_panics (inp : List Byte) (ioFail : Bool) :
    (match readFile inp ioFail with | .panic => False | _ => True) :=
  readFile_no_panic inp ioFail _ rfl

/-- Success means the reader ended with EOF and the whole input was consumed by the tokenizer. -/
theorem C10_success_means_all_consumed (inp : List Byte) (ioFail : Bool) (file : File)
    (h : readFile inp ioFail = .ok file) :
    ioFail = false ∧ ∃ t', readFileLoop (2 * inp.length + 4) (2 * inp.length + 4) {} (mkTR inp ioFail) = .ok file t' ∧
      t'.inp = [] :=
  readFile_ok_consumed inp ioFail file h

/-- If the reader fails with an I/O error — after any number of bytes — ReadFile does not report success. -/
theorem C10_reader_error_surfaces (inp : List Byte) (file : File) : readFile inp true ≠ .ok file := by
  intro h
  have := (readFile_ok_consumed inp true file h).1
  cases this

/-- `Next` returns false with a clean error list only at the clean end of the input. -/
theorem C10_next_stops_only_at_eof (t : TR) (hf : (next t).1 = false) (he : (next t).2.errs = [])
    (hn : (next t).2.nonAscii = false) (hp : (next t).2.panicked = false) :
    (next t).2.inp = [] ∧ (next t).2.ioFail = false := next_false_clean t hf he hn hp

/-- Non-vacuity of the success hypothesis (kernel evaluation of the model; larger schemas are exercised
    by the correspondence run: the kernel does not evaluate the String-keyed fact tables). -/
example : ∃ f, readFile [] false = .ok f := ⟨_, rfl⟩
example : ∃ f, readFile [32, 9, 13] false = .ok f := ⟨_, rfl⟩

/-- ReadFile terminates: with the fuel the model supplies itself, no loop of the parser runs out of fuel, for
    every input and both reader behaviours (every loop iteration contains a checked `Next` that consumed input;
    `UnNext` happens at most once between two of them). -/
theorem C10_readFile_terminates (inp : List Byte) (ioFail : Bool) : readFile inp ioFail ≠ .fuel :=
  readFile_never_out_of_fuel inp ioFail

/-- The tie of the tokenizer model to tokenize.go's token tree: every `tt.add` of the regenerated table is
    either a one-byte simple terminal (which the model reads from the table itself) or one of the multi-byte /
    builder entries the model hard-codes, in the same order; the skipped bytes are space, tab and CR; every
    keyword of the regenerated table has a token kind in the model. -/
theorem C10_token_tree_as_modelled :
    Facts.tokenTreeAdds.filter (fun e => (simpleKindOfName e.2).isNone || e.1.length != 1) = multiByteShape ∧
    Facts.tokenTreeSkips = [32, 9, 13] ∧
    Facts.keywordTable.all (fun e => (keywordKind (strOf e.1)).isSome) = true := by
  refine ⟨by decide, by decide, by decide⟩

/-- The fuel of the tokenizer's helper loops is only a termination device: with the fuel the callers pass
    (input length + 1; for the token loop, anything above the measure `mu`) the fuel-0 branches are never
    reached — any larger fuel gives the same result. One conjunct per fuelled loop of the tokenizer model, then
    `Next` as a whole (`nextWithFuel extra` is `next` with `extra` more fuel in both loops it calls) and the
    token loop from a fresh reader with the fuel the driver passes. -/
theorem C10_tokenizer_fuel_irrelevant :
    (∀ f t, t.inp.length < f → findFirst f t = findFirst (t.inp.length + 1) t) ∧
    (∀ f t conc k a b c d, t.inp.length < f →
      numberLoop f t conc k a b c d = numberLoop (t.inp.length + 1) t conc k a b c d) ∧
    (∀ f t, t.inp.length < f → skipWs f t = skipWs (t.inp.length + 1) t) ∧
    (∀ f t conc lastB, t.inp.length < f → blockLoop f t conc lastB = blockLoop (t.inp.length + 1) t conc lastB) ∧
    (∀ f t conc esc, t.inp.length < f → stringLoop f t conc esc = stringLoop (t.inp.length + 1) t conc esc) ∧
    (∀ f t conc, t.inp.length < f → identLoop f t conc = identLoop (t.inp.length + 1) t conc) ∧
    (∀ f t acc, mu t < f → allTokens f t acc = allTokens (mu t + 1) t acc) ∧
    (∀ extra t, nextWithFuel extra t = next t) ∧
    (∀ f inp io, 2 * inp.length < f →
      allTokens f (mkTR inp io) [] = allTokens (2 * inp.length + 4) (mkTR inp io) []) :=
  ⟨findFirst_fuel, numberLoop_fuel, skipWs_fuel, blockLoop_fuel, stringLoop_fuel, identLoop_fuel, allTokens_fuel,
   next_fuel_irrelevant, fun f inp io h => allTokens_mkTR_fuel inp io f h⟩

/-- The wrappers are their loops with any sufficient fuel. -/
theorem C10_token_builders_fuel_irrelevant (t : TR) (conc : List Byte) (f : Nat) (h : t.inp.length < f) :
    numberLoop f t conc .intLit true false false false = numberToken t conc ∧
    blockLoop f t conc 0 = blockCommentToken t conc ∧
    stringLoop f t conc false = stringLiteralToken t conc :=
  ⟨numberToken_fuel t conc f h, blockCommentToken_fuel t conc f h, stringLiteralToken_fuel t conc f h⟩

end Bebop.Text
