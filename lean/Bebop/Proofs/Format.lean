/-
  Termination of the formatter model (`Bebop.Text.format`), for every input.

  History.  On the model of the original format.go the statement was false:
    format "struct A { map"   = none   (Go: formatType recursing for ever on the stale `map` token at the end of
                                        the input, `fatal error: stack overflow`)
    format "struct A { int32" : one more field per unit of fuel (Go: the `for tr.Next()` loop of formatStruct
                                        never ends — Next fails twice, UnNext, Next succeeds with the stale
                                        identifier — while structBytes grows)
  Both are repaired (formatType checks the `Next` in front of its recursive calls, formatStruct checks the
  `Next` behind the `;`), the body loops of the model now answer `none` at fuel 0, and this file proves

  * `format_total`       — `(format inp).isSome` for every `inp`;
  * `format_fuel_stable` — one result for every fuel `F ≥ 2 * |inp| + 4`: no loop of the formatter (the
    top-level one, formatType's recursion and `[]` loop, optValue, the enum / struct / message / union body
    loops) ever runs out of fuel.

  The argument is the tokenizer measure `mu` (TokenizerProgress): every loop iteration starts with a `Next`
  that returned true, which lowers `mu`; the fixed-count `Next`s never raise it; the only thing that raises it
  is an `UnNext` after a `Next` that consumed nothing, and everywhere this can happen (the `[]` loop of
  formatType) the caller issues a `Next` (clearing `keep` again) before the loop comes round.
-/
import Bebop.Text.Format
import Bebop.Proofs.TokenizerProgress

namespace Bebop.Text

theorem mu_le (t : TR) : mu t ≤ 2 * t.inp.length + 1 := by
  unfold mu; split <;> omega

theorem le_mu (t : TR) : 2 * t.inp.length ≤ mu t := by
  unfold mu; omega

/-- One or more `Next` calls: `keep` is clear, the measure did not go up. -/
structure Adv (t t' : TR) : Prop where
  keep : t'.keep = false
  le : mu t' ≤ mu t

theorem Adv.trans {a b c : TR} (h1 : Adv a b) (h2 : Adv b c) : Adv a c :=
  ⟨h2.keep, Nat.le_trans h2.le h1.le⟩

theorem adv_next (t : TR) : Adv t (next t).2 := ⟨next_keep t, (next_measure t).1⟩

theorem Adv.len {t t' : TR} (h : Adv t t') : 2 * t'.inp.length ≤ mu t := by
  have := h.le; rw [mu_keep_false h.keep] at this; exact this

/-- In terms of the remaining input alone. -/
theorem Adv.len_le {t t' : TR} (h : Adv t t') : t'.inp.length ≤ t.inp.length := by
  have := h.len; have := mu_le t; omega

theorem adv_nextConc (t : TR) : Adv t (nextConc t).2 := adv_next t

theorem takeToks_succ (sep : List Byte) (k : Nat) (t : TR) (acc : List Byte) :
    takeToks sep (k+1) t acc = takeToks sep k (next t).2 (acc ++ sep ++ (next t).2.nextTok.concrete) := rfl

theorem adv_takeToks (sep : List Byte) : ∀ (k : Nat) (t : TR) (acc : List Byte),
    Adv t (takeToks sep (k+1) t acc).2
  | 0, t, _ => adv_next t
  | k+1, t, acc => by
    rw [takeToks_succ]
    exact (adv_next t).trans (adv_takeToks sep k _ _)

/-- `takeToks` with the two counts `format` uses after `[`. -/
theorem adv_takeToks_ite (sep : List Byte) (c : Prop) [Decidable c] (t : TR) (acc : List Byte) :
    Adv t (takeToks sep (if c then 1 else 4) t acc).2 := by
  split
  · exact adv_takeToks sep 0 t acc
  · exact adv_takeToks sep 3 t acc

theorem adv_fmtAttr (pre : List Byte) (t : TR) : Adv t (fmtAttr pre t).2 := by
  unfold fmtAttr
  have h := adv_takeToks [] 4 t (pre ++ t.nextTok.concrete)
  obtain ⟨a, t1, hr⟩ : ∃ a t1, takeToks [] 5 t (pre ++ t.nextTok.concrete) = (a, t1) := ⟨_, _, rfl⟩
  rw [hr] at h ⊢
  exact h

/-- Everything the loops need to know about one `Next`. -/
theorem next_facts {t : TR} {ok : Bool} {t1 : TR} (hn : next t = (ok, t1)) :
    t1.keep = false ∧ mu t1 ≤ mu t ∧ (ok = true → mu t1 < mu t) ∧
    (ok = true → t.keep = false → t1.inp.length < t.inp.length) := by
  have h2 := next_keep t
  have h3 := next_measure t
  have h4 := (next_spec t).2.2
  rw [hn] at h2 h3 h4
  exact ⟨h2, h3.1, h3.2, h4⟩

/-! ## formatType -/

/-- `formatType` / its `[]`-suffix loop did not run out of fuel and gave no input back. (`keep` may be set
    in the result: the `[]` loop always ends with `UnNext`, possibly after a `Next` that consumed nothing.) -/
def PostT (t : TR) (o : Option (List Byte × TR)) : Prop :=
  ∃ v t', o = some (v, t') ∧ t'.inp.length ≤ t.inp.length

theorem arrSuffix_ok : ∀ (f f' : Nat) (t : TR) (bs : List Byte), t.keep = false →
    t.inp.length < f → t.inp.length < f' →
    formatType.arrSuffix f t bs = formatType.arrSuffix f' t bs ∧ PostT t (formatType.arrSuffix f t bs)
  | 0, _, _, _, _, h, _ => by omega
  | _+1, 0, _, _, _, _, h => by omega
  | f+1, f'+1, t, bs, hk, hf, hf' => by
    simp only [formatType.arrSuffix]
    obtain ⟨ok, t2, hn⟩ : ∃ ok t2, next t = (ok, t2) := ⟨_, _, rfl⟩
    obtain ⟨hk2, _, _, hlt⟩ := next_facts hn
    have hle2 : t2.inp.length ≤ t.inp.length := by have := next_len_le t; rw [hn] at this; exact this
    rw [hn]
    simp only
    split
    · rename_i hcond
      have hok : ok = true := by
        cases ok
        · simp at hcond
        · rfl
      have hlt := hlt hok hk
      have a3 := adv_next t2
      obtain ⟨ok3, t3, hn3⟩ : ∃ ok3 t3, next t2 = (ok3, t3) := ⟨_, _, rfl⟩
      rw [hn3] at a3 ⊢
      simp only at a3 ⊢
      have hl3 := a3.len_le
      have ih := arrSuffix_ok f f' t3 (bs ++ formatType.strOfAscii "[]") a3.keep (by omega) (by omega)
      refine ⟨ih.1, ?_⟩
      obtain ⟨v, t', he, hle⟩ := ih.2
      exact ⟨v, t', he, by omega⟩
    · exact ⟨rfl, _, _, rfl, hle2⟩

theorem formatType_ok : ∀ (f f' : Nat) (t : TR), t.keep = false →
    t.inp.length + 2 ≤ f → t.inp.length + 2 ≤ f' →
    formatType f t = formatType f' t ∧ PostT t (formatType f t)
  | 0, _, _, _, h, _ => by omega
  | _+1, 0, _, _, _, h => by omega
  | f+1, f'+1, t, hk, hf, hf' => by
    -- the two recursive cases share everything but the number of tokens taken first and the glue
    have rec_case : ∀ (n : Nat) (e : List Byte → List Byte) (g : List Byte → List Byte → List Byte → List Byte),
        (match
          (match takeToks [] (n+1) t t.nextTok.concrete with
          | (a, t1) =>
            match next t1 with
            | (false, t2) => some (Sum.inl (e a, t2))
            | (true, t2) =>
              match formatType f t2 with
              | none => none
              | some (v, t3) =>
                match nextConc t3 with
                | (c, t4) => some (Sum.inr (g a v c, t4)) : Option ((List Byte × TR) ⊕ (List Byte × TR))) with
        | none => none
        | some (Sum.inl r) => some r
        | some (Sum.inr (bs, t1)) => formatType.arrSuffix f t1 bs) =
        (match
          (match takeToks [] (n+1) t t.nextTok.concrete with
          | (a, t1) =>
            match next t1 with
            | (false, t2) => some (Sum.inl (e a, t2))
            | (true, t2) =>
              match formatType f' t2 with
              | none => none
              | some (v, t3) =>
                match nextConc t3 with
                | (c, t4) => some (Sum.inr (g a v c, t4)) : Option ((List Byte × TR) ⊕ (List Byte × TR))) with
        | none => none
        | some (Sum.inl r) => some r
        | some (Sum.inr (bs, t1)) => formatType.arrSuffix f' t1 bs) ∧
        PostT t
        (match
          (match takeToks [] (n+1) t t.nextTok.concrete with
          | (a, t1) =>
            match next t1 with
            | (false, t2) => some (Sum.inl (e a, t2))
            | (true, t2) =>
              match formatType f t2 with
              | none => none
              | some (v, t3) =>
                match nextConc t3 with
                | (c, t4) => some (Sum.inr (g a v c, t4)) : Option ((List Byte × TR) ⊕ (List Byte × TR))) with
        | none => none
        | some (Sum.inl r) => some r
        | some (Sum.inr (bs, t1)) => formatType.arrSuffix f t1 bs) := by
      intro n e g
      have a1 := adv_takeToks [] n t t.nextTok.concrete
      obtain ⟨a, t1, h1⟩ : ∃ a t1, takeToks [] (n+1) t t.nextTok.concrete = (a, t1) := ⟨_, _, rfl⟩
      rw [h1] at a1 ⊢
      simp only at a1 ⊢
      have hl1 := a1.len_le
      obtain ⟨o2, t2, h2⟩ : ∃ o2 t2, next t1 = (o2, t2) := ⟨_, _, rfl⟩
      obtain ⟨hk2, _, _, hlt2⟩ := next_facts h2
      have hle2 : t2.inp.length ≤ t1.inp.length := by have := next_len_le t1; rw [h2] at this; exact this
      rw [h2]
      cases o2
      · -- the input ends inside the type: early return
        simp only
        exact ⟨trivial, _, _, rfl, by omega⟩
      · simp only
        have hlt2 := hlt2 rfl a1.keep
        have ih := formatType_ok f f' t2 hk2 (by omega) (by omega)
        rw [← ih.1]
        obtain ⟨v, t3, he, hl3⟩ := ih.2
        rw [he]
        simp only
        have a4 := adv_nextConc t3
        obtain ⟨c, t4, h4⟩ : ∃ c t4, nextConc t3 = (c, t4) := ⟨_, _, rfl⟩
        rw [h4] at a4 ⊢
        simp only at a4 ⊢
        have hl4 := a4.len_le
        have ha := arrSuffix_ok f f' t4 (g a v c) a4.keep (by omega) (by omega)
        refine ⟨ha.1, ?_⟩
        obtain ⟨w, t', hw, hl'⟩ := ha.2
        exact ⟨w, t', hw, by omega⟩
    simp only [formatType]
    cases hkind : t.nextTok.kind
    case ident =>
      simp only
      exact arrSuffix_ok f f' t t.nextTok.concrete hk (by omega) (by omega)
    case kMap =>
      simp only
      exact rec_case 2 (fun a => a ++ [32]) (fun a v c => a ++ [32] ++ v ++ c)
    case kArray =>
      simp only
      exact rec_case 0 (fun a => a) (fun a v c => a ++ v ++ c)
    all_goals
      simp only
      exact arrSuffix_ok f f' t [] hk (by omega) (by omega)

/-! ## The nested loops -/

/-- Result of a nested formatter (pair form): measure not raised. -/
def PostP (t : TR) (r : List Byte × TR) : Prop := mu r.2 ≤ mu t

/-- Result of a nested formatter (`Option` form): it did not run out of fuel, measure not raised. -/
def PostL (t : TR) (o : Option (List Byte × TR)) : Prop :=
  ∃ r t', o = some (r, t') ∧ mu t' ≤ mu t

theorem PostP.mono {t1 t : TR} {r : List Byte × TR} (h : PostP t1 r) (hle : mu t1 ≤ mu t) : PostP t r :=
  Nat.le_trans h hle

theorem PostL.mono {t1 t : TR} {o : Option (List Byte × TR)} (h : PostL t1 o) (hle : mu t1 ≤ mu t) : PostL t o := by
  obtain ⟨r, t', he, h2⟩ := h
  exact ⟨r, t', he, Nat.le_trans h2 hle⟩

theorem optValue_ok : ∀ (f f' : Nat) (t : TR) (prev : TK) (acc : List Byte), mu t < f → mu t < f' →
    formatEnum.optValue f t prev acc = formatEnum.optValue f' t prev acc ∧
    PostP t (formatEnum.optValue f t prev acc)
  | 0, _, _, _, _, h, _ => by omega
  | _+1, 0, _, _, _, _, h => by omega
  | f+1, f'+1, t, prev, acc, hf, hf' => by
    simp only [formatEnum.optValue]
    obtain ⟨ok, t1, hn⟩ : ∃ ok t1, next t = (ok, t1) := ⟨_, _, rfl⟩
    obtain ⟨_, hle, hlt, _⟩ := next_facts hn
    rw [hn]
    cases ok
    · exact ⟨rfl, hle⟩
    · have hlt := hlt rfl
      simp only
      split
      · exact ⟨rfl, hle⟩
      · have ih := optValue_ok f f' t1 t1.nextTok.kind
          (acc ++ (if (prev != TK.openParen && t1.nextTok.kind != TK.closeParen) = true then [32] else []) ++
            t1.nextTok.concrete) (by omega) (by omega)
        exact ⟨ih.1, ih.2.mono hle⟩

theorem enumLoop_ok : ∀ (f f' F F' : Nat) (t : TR) (acc : List Byte), mu t < f → mu t < f' →
    mu t + 3 ≤ F → mu t + 3 ≤ F' →
    formatEnum.loop F f t acc = formatEnum.loop F' f' t acc ∧ PostL t (formatEnum.loop F f t acc)
  | 0, _, _, _, _, _, h, _, _, _ => by omega
  | _+1, 0, _, _, _, _, _, h, _, _ => by omega
  | f+1, f'+1, F, F', t, acc, hf, hf', hF, hF' => by
    simp only [formatEnum.loop]
    obtain ⟨ok, t1, hn⟩ : ∃ ok t1, next t = (ok, t1) := ⟨_, _, rfl⟩
    obtain ⟨_, hle, hlt, _⟩ := next_facts hn
    rw [hn]
    cases ok
    · exact ⟨rfl, _, _, rfl, hle⟩
    · have hlt := hlt rfl
      have tail : ∀ acc', formatEnum.loop F f t1 acc' = formatEnum.loop F' f' t1 acc' ∧
          PostL t (formatEnum.loop F f t1 acc') := fun acc' =>
        have ih := enumLoop_ok f f' F F' t1 acc' (by omega) (by omega) (by omega) (by omega)
        ⟨ih.1, ih.2.mono hle⟩
      simp only
      cases hkind : t1.nextTok.kind
      case lineComment => exact tail _
      case blockComment => exact tail _
      case openSquare =>
        simp only
        have a2 := adv_fmtAttr [9] t1
        obtain ⟨a, t2, h2⟩ : ∃ a t2, fmtAttr [9] t1 = (a, t2) := ⟨_, _, rfl⟩
        rw [h2] at a2 ⊢
        simp only at a2 ⊢
        have hle2 := a2.le
        have ih := enumLoop_ok f f' F F' t2 (acc ++ a) (by omega) (by omega) (by omega) (by omega)
        exact ⟨ih.1, ih.2.mono (by omega)⟩
      case ident =>
        simp only
        have hov := optValue_ok F F' t1 TK.ident ([9] ++ t1.nextTok.concrete) (by omega) (by omega)
        rw [← hov.1]
        obtain ⟨o, t2, h2⟩ : ∃ o t2, formatEnum.optValue F t1 TK.ident ([9] ++ t1.nextTok.concrete) = (o, t2) :=
          ⟨_, _, rfl⟩
        have hp := hov.2
        rw [h2] at hp ⊢
        simp only
        have hle2 : mu t2 ≤ mu t1 := hp
        have ih := enumLoop_ok f f' F F' t2 (acc ++ o ++ sq ";\n") (by omega) (by omega) (by omega) (by omega)
        exact ⟨ih.1, ih.2.mono (by omega)⟩
      case closeCurly => exact ⟨rfl, _, _, rfl, hle⟩
      all_goals exact tail _

theorem formatEnum_ok (F F' : Nat) (t : TR) (hF : mu t + 3 ≤ F) (hF' : mu t + 3 ≤ F') :
    formatEnum F t = formatEnum F' t ∧ PostL t (formatEnum F t) := by
  simp only [formatEnum]
  have a1 := adv_takeToks [32] 1 t t.nextTok.concrete
  obtain ⟨hd, t1, h1⟩ : ∃ hd t1, takeToks [32] 2 t t.nextTok.concrete = (hd, t1) := ⟨_, _, rfl⟩
  rw [h1] at a1 ⊢
  simp only at a1 ⊢
  have hle1 := a1.le
  split
  · have a2 := adv_takeToks [32] 1 t1 hd
    obtain ⟨hd2, t2, h2⟩ : ∃ hd2 t2, takeToks [32] 2 t1 hd = (hd2, t2) := ⟨_, _, rfl⟩
    rw [h2] at a2 ⊢
    simp only at a2 ⊢
    have hle2 := a2.le
    have ih := enumLoop_ok F F' F F' t2 (hd2 ++ [10]) (by omega) (by omega) (by omega) (by omega)
    exact ⟨ih.1, ih.2.mono (by omega)⟩
  · have ih := enumLoop_ok F F' F F' t1 (hd ++ [10]) (by omega) (by omega) (by omega) (by omega)
    exact ⟨ih.1, ih.2.mono (by omega)⟩

theorem formatConst_ok (t : TR) : PostP t (formatConst t) := by
  simp only [formatConst]
  have a1 := adv_takeToks [32] 3 t t.nextTok.concrete
  obtain ⟨c, t1, h1⟩ : ∃ c t1, takeToks [32] 4 t t.nextTok.concrete = (c, t1) := ⟨_, _, rfl⟩
  rw [h1] at a1 ⊢
  simp only at a1 ⊢
  have a2 := adv_next t1
  obtain ⟨o2, t2, h2⟩ : ∃ o2 t2, next t1 = (o2, t2) := ⟨_, _, rfl⟩
  rw [h2] at a2 ⊢
  simp only at a2 ⊢
  exact Nat.le_trans a2.le a1.le

theorem structLoop_ok (pre : List Byte) : ∀ (f f' F F' : Nat) (t : TR) (acc : List Byte),
    mu t < f → mu t < f' → mu t + 3 ≤ F → mu t + 3 ≤ F' →
    formatStruct.loop F pre f t acc = formatStruct.loop F' pre f' t acc ∧
    PostL t (formatStruct.loop F pre f t acc)
  | 0, _, _, _, _, _, h, _, _, _ => by omega
  | _+1, 0, _, _, _, _, _, h, _, _ => by omega
  | f+1, f'+1, F, F', t, acc, hf, hf', hF, hF' => by
    simp only [formatStruct.loop]
    obtain ⟨ok, t1, hn⟩ : ∃ ok t1, next t = (ok, t1) := ⟨_, _, rfl⟩
    obtain ⟨hk1, hle, hlt, _⟩ := next_facts hn
    rw [hn]
    cases ok
    · exact ⟨rfl, _, _, rfl, hle⟩
    · have hlt := hlt rfl
      have tail : ∀ acc', formatStruct.loop F pre f t1 acc' = formatStruct.loop F' pre f' t1 acc' ∧
          PostL t (formatStruct.loop F pre f t1 acc') := fun acc' =>
        have ih := structLoop_ok pre f f' F F' t1 acc' (by omega) (by omega) (by omega) (by omega)
        ⟨ih.1, ih.2.mono hle⟩
      simp only
      cases hkind : t1.nextTok.kind
      case lineComment => exact tail _
      case blockComment => exact tail _
      case openSquare =>
        simp only
        have a2 := adv_fmtAttr pre t1
        obtain ⟨a, t2, h2⟩ : ∃ a t2, fmtAttr pre t1 = (a, t2) := ⟨_, _, rfl⟩
        rw [h2] at a2 ⊢
        simp only at a2 ⊢
        have hle2 := a2.le
        have ih := structLoop_ok pre f f' F F' t2 (acc ++ a) (by omega) (by omega) (by omega) (by omega)
        exact ⟨ih.1, ih.2.mono (by omega)⟩
      case ident | kMap | kArray =>
        simp only
        have hm1 := mu_keep_false hk1
        have hft := formatType_ok F F' t1 hk1 (by omega) (by omega)
        rw [← hft.1]
        obtain ⟨ty, t2, he, hl2⟩ := hft.2
        rw [he]
        simp only
        have a3 := adv_nextConc t2
        obtain ⟨nm, t3, h3⟩ : ∃ nm t3, nextConc t2 = (nm, t3) := ⟨_, _, rfl⟩
        rw [h3] at a3 ⊢
        simp only at a3 ⊢
        have a4 := adv_next t3
        obtain ⟨o4, t4, h4⟩ : ∃ o4 t4, next t3 = (o4, t4) := ⟨_, _, rfl⟩
        rw [h4] at a4 ⊢
        simp only at a4 ⊢
        have a34 := a3.trans a4
        have hl4 := a34.len_le
        obtain ⟨o5, t5, h5⟩ : ∃ o5 t5, next t4 = (o5, t5) := ⟨_, _, rfl⟩
        obtain ⟨hk5, _, _, hlt5⟩ := next_facts h5
        have hle5 : t5.inp.length ≤ t4.inp.length := by have := next_len_le t4; rw [h5] at this; exact this
        have hm5 := mu_keep_false hk5
        rw [h5]
        cases o5
        · -- the input ends after the field: break
          simp only
          exact ⟨trivial, _, _, rfl, by omega⟩
        · simp only
          have hlt5 := hlt5 rfl a34.keep
          split
          · have ih := structLoop_ok pre f f' F F' t5 (acc ++ (pre ++ ty ++ [32] ++ nm ++ sq ";") ++ [32] ++ t5.nextTok.concrete)
              (by omega) (by omega) (by omega) (by omega)
            exact ⟨ih.1, ih.2.mono (by omega)⟩
          · have ih := structLoop_ok pre f f' F F' { t5 with keep := true } (acc ++ (pre ++ ty ++ [32] ++ nm ++ sq ";") ++ [10])
              (by rw [mu_unNext]; omega) (by rw [mu_unNext]; omega)
              (by rw [mu_unNext]; omega) (by rw [mu_unNext]; omega)
            exact ⟨ih.1, ih.2.mono (by rw [mu_unNext]; omega)⟩
      case closeCurly => exact ⟨rfl, _, _, rfl, hle⟩
      all_goals exact tail _

theorem formatStruct_ok (F F' : Nat) (t : TR) (ro : Bool) (pre : List Byte)
    (hF : mu t + 3 ≤ F) (hF' : mu t + 3 ≤ F') :
    formatStruct F t ro pre = formatStruct F' t ro pre ∧ PostL t (formatStruct F t ro pre) := by
  simp only [formatStruct]
  have a1 := adv_takeToks [32] 1 t ((if ro = true then sq "readonly " else []) ++ t.nextTok.concrete)
  obtain ⟨hd, t1, h1⟩ : ∃ hd t1, takeToks [32] 2 t ((if ro = true then sq "readonly " else []) ++ t.nextTok.concrete)
    = (hd, t1) := ⟨_, _, rfl⟩
  rw [h1] at a1 ⊢
  simp only at a1 ⊢
  have hle1 := a1.le
  have ih := structLoop_ok pre F F' F F' t1 (hd ++ [10]) (by omega) (by omega) (by omega) (by omega)
  exact ⟨ih.1, ih.2.mono hle1⟩

theorem messageLoop_ok (pre : List Byte) : ∀ (f f' F F' : Nat) (t : TR) (acc : List Byte),
    mu t < f → mu t < f' → mu t + 3 ≤ F → mu t + 3 ≤ F' →
    formatMessage.loop F pre f t acc = formatMessage.loop F' pre f' t acc ∧
    PostL t (formatMessage.loop F pre f t acc)
  | 0, _, _, _, _, _, h, _, _, _ => by omega
  | _+1, 0, _, _, _, _, _, h, _, _ => by omega
  | f+1, f'+1, F, F', t, acc, hf, hf', hF, hF' => by
    simp only [formatMessage.loop]
    obtain ⟨ok, t1, hn⟩ : ∃ ok t1, next t = (ok, t1) := ⟨_, _, rfl⟩
    obtain ⟨hk1, hle, hlt, _⟩ := next_facts hn
    rw [hn]
    cases ok
    · exact ⟨rfl, _, _, rfl, hle⟩
    · have hlt := hlt rfl
      have tail : ∀ acc', formatMessage.loop F pre f t1 acc' = formatMessage.loop F' pre f' t1 acc' ∧
          PostL t (formatMessage.loop F pre f t1 acc') := fun acc' =>
        have ih := messageLoop_ok pre f f' F F' t1 acc' (by omega) (by omega) (by omega) (by omega)
        ⟨ih.1, ih.2.mono hle⟩
      simp only
      cases hkind : t1.nextTok.kind
      case lineComment => exact tail _
      case blockComment => exact tail _
      case openSquare =>
        simp only
        have a2 := adv_fmtAttr pre t1
        obtain ⟨a, t2, h2⟩ : ∃ a t2, fmtAttr pre t1 = (a, t2) := ⟨_, _, rfl⟩
        rw [h2] at a2 ⊢
        simp only at a2 ⊢
        have hle2 := a2.le
        have ih := messageLoop_ok pre f f' F F' t2 (acc ++ a) (by omega) (by omega) (by omega) (by omega)
        exact ⟨ih.1, ih.2.mono (by omega)⟩
      case intLit =>
        simp only
        have hm1 := mu_keep_false hk1
        have a2 := adv_nextConc t1
        obtain ⟨arrow, t2, h2⟩ : ∃ arrow t2, nextConc t1 = (arrow, t2) := ⟨_, _, rfl⟩
        rw [h2] at a2 ⊢
        simp only at a2 ⊢
        have a3 := adv_next t2
        obtain ⟨o3, t3, h3⟩ : ∃ o3 t3, next t2 = (o3, t3) := ⟨_, _, rfl⟩
        rw [h3] at a3 ⊢
        simp only at a3 ⊢
        have a13 := a2.trans a3
        have hl3 := a13.len_le
        have hft := formatType_ok F F' t3 a13.keep (by omega) (by omega)
        rw [← hft.1]
        obtain ⟨ty, t4, he, hl4⟩ := hft.2
        rw [he]
        simp only
        have a5 := adv_nextConc t4
        obtain ⟨nm, t5, h5⟩ : ∃ nm t5, nextConc t4 = (nm, t5) := ⟨_, _, rfl⟩
        rw [h5] at a5 ⊢
        simp only at a5 ⊢
        have a6 := adv_next t5
        obtain ⟨o6, t6, h6⟩ : ∃ o6 t6, next t5 = (o6, t6) := ⟨_, _, rfl⟩
        rw [h6] at a6 ⊢
        simp only at a6 ⊢
        have a46 := a5.trans a6
        have hl6 := a46.len_le
        have hm6 := mu_keep_false a46.keep
        have ih := messageLoop_ok pre f f' F F' t6
          (acc ++ pre ++ t1.nextTok.concrete ++ [32] ++ arrow ++ [32] ++ ty ++ [32] ++ nm ++ sq ";\n")
          (by omega) (by omega) (by omega) (by omega)
        exact ⟨ih.1, ih.2.mono (by omega)⟩
      case closeCurly => exact ⟨rfl, _, _, rfl, hle⟩
      all_goals exact tail _

theorem formatMessage_ok (F F' : Nat) (t : TR) (pre : List Byte)
    (hF : mu t + 3 ≤ F) (hF' : mu t + 3 ≤ F') :
    formatMessage F t pre = formatMessage F' t pre ∧ PostL t (formatMessage F t pre) := by
  simp only [formatMessage]
  have a1 := adv_takeToks [32] 1 t t.nextTok.concrete
  obtain ⟨hd, t1, h1⟩ : ∃ hd t1, takeToks [32] 2 t t.nextTok.concrete = (hd, t1) := ⟨_, _, rfl⟩
  rw [h1] at a1 ⊢
  simp only at a1 ⊢
  have hle1 := a1.le
  have ih := messageLoop_ok pre F F' F F' t1 (hd ++ [10]) (by omega) (by omega) (by omega) (by omega)
  exact ⟨ih.1, ih.2.mono hle1⟩

theorem unionLoop_ok (pre : List Byte) : ∀ (f f' F F' : Nat) (t : TR) (acc : List Byte),
    mu t < f → mu t < f' → mu t + 3 ≤ F → mu t + 3 ≤ F' →
    formatUnion.loop F pre f t acc = formatUnion.loop F' pre f' t acc ∧
    PostL t (formatUnion.loop F pre f t acc)
  | 0, _, _, _, _, _, h, _, _, _ => by omega
  | _+1, 0, _, _, _, _, _, h, _, _ => by omega
  | f+1, f'+1, F, F', t, acc, hf, hf', hF, hF' => by
    simp only [formatUnion.loop]
    obtain ⟨ok, t1, hn⟩ : ∃ ok t1, next t = (ok, t1) := ⟨_, _, rfl⟩
    obtain ⟨hk1, hle, hlt, _⟩ := next_facts hn
    rw [hn]
    cases ok
    · exact ⟨rfl, _, _, rfl, hle⟩
    · have hlt := hlt rfl
      have tail : ∀ acc', formatUnion.loop F pre f t1 acc' = formatUnion.loop F' pre f' t1 acc' ∧
          PostL t (formatUnion.loop F pre f t1 acc') := fun acc' =>
        have ih := unionLoop_ok pre f f' F F' t1 acc' (by omega) (by omega) (by omega) (by omega)
        ⟨ih.1, ih.2.mono hle⟩
      simp only
      cases hkind : t1.nextTok.kind
      case lineComment => exact tail _
      case blockComment => exact tail _
      case openSquare =>
        simp only
        have a2 := adv_fmtAttr pre t1
        obtain ⟨a, t2, h2⟩ : ∃ a t2, fmtAttr pre t1 = (a, t2) := ⟨_, _, rfl⟩
        rw [h2] at a2 ⊢
        simp only at a2 ⊢
        have hle2 := a2.le
        have ih := unionLoop_ok pre f f' F F' t2 (acc ++ a) (by omega) (by omega) (by omega) (by omega)
        exact ⟨ih.1, ih.2.mono (by omega)⟩
      case intLit =>
        simp only
        have a2 := adv_nextConc t1
        obtain ⟨arrow, t2, h2⟩ : ∃ arrow t2, nextConc t1 = (arrow, t2) := ⟨_, _, rfl⟩
        rw [h2] at a2 ⊢
        simp only at a2 ⊢
        have a3 := adv_next t2
        obtain ⟨o3, t3, h3⟩ : ∃ o3 t3, next t2 = (o3, t3) := ⟨_, _, rfl⟩
        rw [h3] at a3 ⊢
        simp only at a3 ⊢
        have a13 := a2.trans a3
        have hle3 := a13.le
        cases hk3 : t3.nextTok.kind
        case kMessage =>
          simp only
          have hm := formatMessage_ok F F' t3 (pre ++ [9]) (by omega) (by omega)
          rw [← hm.1]
          obtain ⟨m, t4, he, hle4⟩ := hm.2
          rw [he]
          simp only
          have ih := unionLoop_ok pre f f' F F' t4
            (acc ++ (pre ++ t1.nextTok.concrete ++ [32] ++ arrow ++ [32]) ++ m)
            (by omega) (by omega) (by omega) (by omega)
          exact ⟨ih.1, ih.2.mono (by omega)⟩
        case kStruct =>
          simp only
          have hm := formatStruct_ok F F' t3 false (pre ++ [9]) (by omega) (by omega)
          rw [← hm.1]
          obtain ⟨m, t4, he, hle4⟩ := hm.2
          rw [he]
          simp only
          have ih := unionLoop_ok pre f f' F F' t4
            (acc ++ (pre ++ t1.nextTok.concrete ++ [32] ++ arrow ++ [32]) ++ m)
            (by omega) (by omega) (by omega) (by omega)
          exact ⟨ih.1, ih.2.mono (by omega)⟩
        all_goals
          simp only
          have ih := unionLoop_ok pre f f' F F' t3
            (acc ++ (pre ++ t1.nextTok.concrete ++ [32] ++ arrow ++ [32]))
            (by omega) (by omega) (by omega) (by omega)
          exact ⟨ih.1, ih.2.mono (by omega)⟩
      case closeCurly => exact ⟨rfl, _, _, rfl, hle⟩
      all_goals exact tail _

theorem formatUnion_ok (F F' : Nat) (t : TR) (pre : List Byte)
    (hF : mu t + 3 ≤ F) (hF' : mu t + 3 ≤ F') :
    formatUnion F t pre = formatUnion F' t pre ∧ PostL t (formatUnion F t pre) := by
  simp only [formatUnion]
  have a1 := adv_takeToks [32] 1 t t.nextTok.concrete
  obtain ⟨hd, t1, h1⟩ : ∃ hd t1, takeToks [32] 2 t t.nextTok.concrete = (hd, t1) := ⟨_, _, rfl⟩
  rw [h1] at a1 ⊢
  simp only at a1 ⊢
  have hle1 := a1.le
  have ih := unionLoop_ok pre F F' F F' t1 (hd ++ [10]) (by omega) (by omega) (by omega) (by omega)
  exact ⟨ih.1, ih.2.mono hle1⟩

/-! ## The top-level loop -/

theorem formatLoop_ok : ∀ (f f' F F' : Nat) (t : TR) (out : List Byte) (ro nl : Bool),
    mu t < f → mu t < f' → mu t + 3 ≤ F → mu t + 3 ≤ F' →
    formatLoop F f t out ro nl = formatLoop F' f' t out ro nl ∧ (formatLoop F f t out ro nl).isSome = true
  | 0, _, _, _, _, _, _, _, h, _, _, _ => by omega
  | _+1, 0, _, _, _, _, _, _, _, h, _, _ => by omega
  | f+1, f'+1, F, F', t, out, ro, nl, hf, hf', hF, hF' => by
    simp only [formatLoop]
    obtain ⟨ok, t1, hn⟩ : ∃ ok t1, next t = (ok, t1) := ⟨_, _, rfl⟩
    obtain ⟨hk1, hle, hlt, _⟩ := next_facts hn
    rw [hn]
    cases ok
    · exact ⟨rfl, rfl⟩
    · have hlt := hlt rfl
      have tail : ∀ (t2 : TR) out' ro' nl', mu t2 ≤ mu t1 →
          formatLoop F f t2 out' ro' nl' = formatLoop F' f' t2 out' ro' nl' ∧
          (formatLoop F f t2 out' ro' nl').isSome = true := fun t2 out' ro' nl' hle2 =>
        formatLoop_ok f f' F F' t2 out' ro' nl' (by omega) (by omega) (by omega) (by omega)
      simp only
      cases hkind : t1.nextTok.kind
      case openSquare =>
        simp only
        have a2 := adv_takeToks [] 0 t1 t1.nextTok.concrete
        obtain ⟨a, t2, h2⟩ : ∃ a t2, takeToks [] 1 t1 t1.nextTok.concrete = (a, t2) := ⟨_, _, rfl⟩
        rw [h2] at a2 ⊢
        simp only at a2 ⊢
        have a3 := adv_takeToks_ite [] ((t2.nextTok.kind == TK.kFlags) = true) t2 a
        obtain ⟨a', t3, h3⟩ : ∃ a' t3, takeToks [] (if (t2.nextTok.kind == TK.kFlags) = true then 1 else 4) t2 a
          = (a', t3) := ⟨_, _, rfl⟩
        rw [h3] at a3 ⊢
        simp only at a3 ⊢
        exact tail t3 _ _ _ (Nat.le_trans a3.le a2.le)
      case kImport =>
        simp only
        have a2 := adv_takeToks [32] 0 t1 t1.nextTok.concrete
        obtain ⟨a, t2, h2⟩ : ∃ a t2, takeToks [32] 1 t1 t1.nextTok.concrete = (a, t2) := ⟨_, _, rfl⟩
        rw [h2] at a2 ⊢
        simp only at a2 ⊢
        exact tail t2 _ _ _ a2.le
      case lineComment => exact tail t1 _ _ _ (Nat.le_refl _)
      case blockComment => exact tail t1 _ _ _ (Nat.le_refl _)
      case kReadOnly => exact tail t1 _ _ _ (Nat.le_refl _)
      case kEnum =>
        simp only
        have hm := formatEnum_ok F F' t1 (by omega) (by omega)
        rw [← hm.1]
        obtain ⟨m, t2, he, hle2⟩ := hm.2
        rw [he]
        simp only
        exact tail t2 _ _ _ hle2
      case kConst =>
        simp only
        have hp := formatConst_ok t1
        obtain ⟨c, t2, h2⟩ : ∃ c t2, formatConst t1 = (c, t2) := ⟨_, _, rfl⟩
        rw [h2] at hp ⊢
        simp only
        exact tail t2 _ _ _ hp
      case kStruct =>
        simp only
        have hm := formatStruct_ok F F' t1 ro [9] (by omega) (by omega)
        rw [← hm.1]
        obtain ⟨m, t2, he, hle2⟩ := hm.2
        rw [he]
        simp only
        exact tail t2 _ _ _ hle2
      case kMessage =>
        simp only
        have hm := formatMessage_ok F F' t1 [9] (by omega) (by omega)
        rw [← hm.1]
        obtain ⟨m, t2, he, hle2⟩ := hm.2
        rw [he]
        simp only
        exact tail t2 _ _ _ hle2
      case kUnion =>
        simp only
        have hm := formatUnion_ok F F' t1 [9] (by omega) (by omega)
        rw [← hm.1]
        obtain ⟨m, t2, he, hle2⟩ := hm.2
        rw [he]
        simp only
        exact tail t2 _ _ _ hle2
      all_goals exact tail t1 _ _ _ (Nat.le_refl _)

theorem mu_mkTR (inp : List Byte) : mu (mkTR inp) = 2 * inp.length := by simp [mu, mkTR]

/-- **The formatter does not depend on its fuel**: for every input there is one result, and every fuel
    `F ≥ 2 * |inp| + 4` (the fuel `format` supplies, or more) yields it.  Since every loop of the model —
    the top-level loop, `formatType`'s recursion and `[]` loop, and the enum / struct / message / union body
    loops — answers `none` when its fuel runs out, this says that none of them ever does: `bebop.Format`
    terminates on every input, well-formed or not. -/
theorem format_fuel_stable (inp : List Byte) :
    ∃ out, ∀ F, 2 * inp.length + 4 ≤ F → formatLoop F F (mkTR inp) [] false false = some out := by
  have hmu := mu_mkTR inp
  have h0 := formatLoop_ok (2 * inp.length + 4) (2 * inp.length + 4) (2 * inp.length + 4) (2 * inp.length + 4)
    (mkTR inp) [] false false (by omega) (by omega) (by omega) (by omega)
  obtain ⟨out, hout⟩ := Option.isSome_iff_exists.mp h0.2
  refine ⟨out, fun F hF => ?_⟩
  rw [← hout]
  exact ((formatLoop_ok (2 * inp.length + 4) F (2 * inp.length + 4) F (mkTR inp) [] false false
    (by omega) (by omega) (by omega) (by omega)).1).symm

/-- **The formatter terminates on every input**: with the fuel `format` itself supplies, no loop runs out. -/
theorem format_total (inp : List Byte) : (format inp).isSome = true := by
  obtain ⟨out, hout⟩ := format_fuel_stable inp
  have := hout (2 * inp.length + 4) (Nat.le_refl _)
  simp only [format]
  rw [this]; rfl

end Bebop.Text
