/-
  Helper lemmas: the fuel argument of the byte-slice decoder model is an artefact.

  Go's generated decoders have no fuel; the model's `dec`, `decMsgBody`, `decUnionBody` take one only so
  that Lean accepts the mutual recursion structurally.  `Ext r r'` says: `r'` is `r` unless `r` is the
  out-of-fuel answer.  Giving the decoder one more unit of fuel only ever extends its answer in that
  sense (`dec_ext_succ`), hence every answer other than `.fuel` is the answer for every larger fuel
  (`dec_fuel_mono`).  The theorems stated "for any fuel" therefore talk about ONE function of
  (schema, bytes), which is the thing the correspondence run compares with the generated Go code.
-/
import Bebop.Slice

namespace Bebop

def Res.isFuel {α} : Res α → Bool | .fuel => true | _ => false

/-- `r'` extends `r`: equal unless `r` ran out of fuel. -/
def Ext {α} (r r' : Res α) : Prop := r = .fuel ∨ r' = r

theorem Ext.rfl' {α} (r : Res α) : Ext r r := Or.inr rfl

theorem Ext.trans {α} {a b c : Res α} (h1 : Ext a b) (h2 : Ext b c) : Ext a c := by
  rcases h1 with h1 | h1
  · exact Or.inl h1
  · rcases h2 with h2 | h2
    · exact Or.inl (by rw [← h1, h2])
    · exact Or.inr (by rw [h2, h1])

theorem bind_ext {α β} {r r' : Res α} {k k' : α → Res β} (h : Ext r r') (hk : ∀ a, Ext (k a) (k' a)) :
    Ext (r >>= k) (r' >>= k') := by
  rcases h with h | h
  · exact Or.inl (by rw [h]; rfl)
  · subst h
    cases r' with
    | ok a => exact hk a
    | err => exact Or.inr rfl
    | panic => exact Or.inr rfl
    | fuel => exact Or.inl rfl

theorem decN_ext (d d' : Dec) (h : ∀ buf, Ext (d buf) (d' buf)) :
    ∀ n buf, Ext (decN d n buf) (decN d' n buf)
  | 0, buf => Or.inr rfl
  | n+1, buf => by
    simp only [decN]
    refine bind_ext (h buf) ?_
    rintro ⟨v, rest⟩
    simp only
    split
    · exact Or.inl rfl
    · refine bind_ext (decN_ext d d' h n rest) ?_
      rintro ⟨vs, rest'⟩
      exact Or.inr rfl

theorem decEntries_ext (kt : Ty) (dk dk' dv dv' : Dec) (hk : ∀ buf, Ext (dk buf) (dk' buf))
    (hv : ∀ buf, Ext (dv buf) (dv' buf)) :
    ∀ n buf acc, Ext (decEntries kt dk dv n buf acc) (decEntries kt dk' dv' n buf acc)
  | 0, buf, acc => Or.inr rfl
  | n+1, buf, acc => by
    simp only [decEntries]
    refine bind_ext (hk buf) ?_
    rintro ⟨k, rest⟩
    refine bind_ext (hv rest) ?_
    rintro ⟨v, rest'⟩
    exact decEntries_ext kt dk dk' dv dv' hk hv n rest' _

theorem decFields_ext (d d' : Ty → Dec) (h : ∀ t buf, Ext (d t buf) (d' t buf)) :
    ∀ tys buf, Ext (decFields d tys buf) (decFields d' tys buf)
  | [], buf => Or.inr rfl
  | t :: ts, buf => by
    simp only [decFields]
    refine bind_ext (h t buf) ?_
    rintro ⟨v, rest⟩
    refine bind_ext (decFields_ext d d' h ts rest) ?_
    rintro ⟨vs, rest'⟩
    exact Or.inr rfl

theorem decMsgLoop_ext (safe : Bool) (d d' : Ty → Dec) (h : ∀ t buf, Ext (d t buf) (d' t buf))
    (fds : List MsgField) :
    ∀ n buf acc, Ext (decMsgLoop safe d fds n buf acc) (decMsgLoop safe d' fds n buf acc)
  | 0, buf, acc => Or.inl rfl
  | n+1, buf, acc => by
    simp only [decMsgLoop]
    cases buf with
    | nil => exact Or.inr rfl
    | cons b rest =>
      simp only
      cases fds.find? (fun fd => fd.idx == b.toNat) with
      | none => exact Or.inr rfl
      | some fd =>
        simp only
        refine bind_ext (h fd.ty rest) ?_
        rintro ⟨v, rest'⟩
        exact decMsgLoop_ext safe d d' h fds n rest' _

/-- The three mutually recursive decoders at fuel `g` extend those at fuel `f`. -/
def ExtAt (env : Env) (f g : Nat) : Prop :=
  (∀ safe ty buf, Ext (dec f env safe ty buf) (dec g env safe ty buf)) ∧
  (∀ safe fds buf, Ext (decMsgBody f env safe fds buf) (decMsgBody g env safe fds buf)) ∧
  (∀ safe brs buf, Ext (decUnionBody f env safe brs buf) (decUnionBody g env safe brs buf))

theorem extAt_step (env : Env) (f g : Nat) (ih : ExtAt env f g) : ExtAt env (f+1) (g+1) := by
  obtain ⟨ihd, ihm, ihu⟩ := ih
  refine ⟨?_, ?_, ?_⟩
  · intro safe ty buf
    cases ty with
    | bool => simp only [dec]; exact Or.inr rfl
    | scalar w => simp only [dec]; exact Or.inr rfl
    | f32 => simp only [dec]; exact Or.inr rfl
    | f64 => simp only [dec]; exact Or.inr rfl
    | date => simp only [dec]; exact Or.inr rfl
    | guid => simp only [dec]; exact Or.inr rfl
    | str => simp only [dec]; exact Or.inr rfl
    | arr t =>
      simp only [dec]
      refine bind_ext (Ext.rfl' _) ?_
      rintro ⟨n, rest⟩
      simp only
      split
      · split
        · exact Or.inr rfl
        · refine bind_ext (decN_ext _ _ (ihd false t) n rest) ?_
          rintro ⟨vs, rest'⟩
          exact Or.inr rfl
      · refine bind_ext (decN_ext _ _ (ihd safe t) n rest) ?_
        rintro ⟨vs, rest'⟩
        exact Or.inr rfl
    | map k v =>
      simp only [dec]
      refine bind_ext (Ext.rfl' _) ?_
      rintro ⟨n, rest⟩
      refine bind_ext (decEntries_ext k _ _ _ _ (ihd safe k) (ihd safe v) n rest []) ?_
      rintro ⟨kvs, rest'⟩
      exact Or.inr rfl
    | ref n =>
      simp only [dec]
      cases env[n]? with
      | none => exact Or.inr rfl
      | some d =>
        cases d with
        | struct tys =>
          simp only
          refine bind_ext (decFields_ext _ _ (ihd safe) tys buf) ?_
          rintro ⟨vs, rest⟩
          exact Or.inr rfl
        | msg fds =>
          simp only
          refine bind_ext (ihm safe fds buf) ?_
          rintro ⟨v, rest⟩
          exact Or.inr rfl
        | union brs =>
          simp only
          refine bind_ext (ihu safe brs buf) ?_
          rintro ⟨v, rest⟩
          exact Or.inr rfl
  · intro safe fds buf
    simp only [decMsgBody]
    refine bind_ext (Ext.rfl' _) ?_
    rintro ⟨hd, body⟩
    refine bind_ext (decMsgLoop_ext safe _ _ (ihd safe) fds _ body []) ?_
    rintro ⟨fs, rest⟩
    exact Or.inr rfl
  · intro safe brs buf
    simp only [decUnionBody]
    refine bind_ext (Ext.rfl' _) ?_
    rintro ⟨hd, body⟩
    cases body with
    | nil => exact Or.inr rfl
    | cons b rest =>
      simp only
      cases brs.lookup b.toNat with
      | none => exact Or.inr rfl
      | some m =>
        simp only
        refine bind_ext (ihd safe (.ref m) rest) ?_
        rintro ⟨v, rest'⟩
        exact Or.inr rfl

theorem extAt_succ (env : Env) : ∀ f, ExtAt env f (f+1)
  | 0 => by
    refine ⟨?_, ?_, ?_⟩ <;> intros <;> exact Or.inl (by simp [dec, decMsgBody, decUnionBody])
  | f+1 => extAt_step env f (f+1) (extAt_succ env f)

theorem extAt_le (env : Env) (f : Nat) : ∀ k, ExtAt env f (f+k)
  | 0 => ⟨fun _ _ _ => Or.inr rfl, fun _ _ _ => Or.inr rfl, fun _ _ _ => Or.inr rfl⟩
  | k+1 => by
    obtain ⟨a, b, c⟩ := extAt_le env f k
    obtain ⟨a', b', c'⟩ := extAt_succ env (f+k)
    exact ⟨fun s t u => (a s t u).trans (a' s t u), fun s t u => (b s t u).trans (b' s t u),
           fun s t u => (c s t u).trans (c' s t u)⟩

/-- An answer other than out-of-fuel is the answer at every larger fuel. -/
theorem dec_fuel_mono (env : Env) (f g : Nat) (hfg : f ≤ g) (safe : Bool) (ty : Ty) (buf : List Byte)
    (h : dec f env safe ty buf ≠ .fuel) : dec g env safe ty buf = dec f env safe ty buf := by
  obtain ⟨k, rfl⟩ := Nat.exists_eq_add_of_le hfg
  rcases (extAt_le env f k).1 safe ty buf with h' | h'
  · exact absurd h' h
  · exact h'

theorem unmarshal_fuel_mono (env : Env) (f g : Nat) (hfg : f ≤ g) (safe : Bool) (n : Nat) (buf : List Byte)
    (h : unmarshal f env safe n buf ≠ .fuel) : unmarshal g env safe n buf = unmarshal f env safe n buf := by
  obtain ⟨k, rfl⟩ := Nat.exists_eq_add_of_le hfg
  obtain ⟨hd, hm, hu⟩ := extAt_le env f k
  have key : Ext (unmarshal f env safe n buf) (unmarshal (f+k) env safe n buf) := by
    simp only [unmarshal]
    cases env[n]? with
    | none => exact Or.inr rfl
    | some d =>
      cases d with
      | struct tys =>
        simp only
        refine bind_ext (decFields_ext _ _ (hd safe) tys buf) ?_
        rintro ⟨vs, rest⟩
        exact Or.inr rfl
      | msg fds =>
        simp only
        refine bind_ext (hm safe fds buf) ?_
        rintro ⟨v, rest⟩
        exact Or.inr rfl
      | union brs =>
        simp only
        refine bind_ext (hu safe brs buf) ?_
        rintro ⟨v, rest⟩
        exact Or.inr rfl
  rcases key with h' | h'
  · exact absurd h' h
  · exact h'

end Bebop
