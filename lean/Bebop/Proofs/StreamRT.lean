/-
  Helper lemmas: the stream decoder reads back exactly the encoded value, consumes exactly its bytes
  from the underlying reader (through any stack of limited readers that leave room for them), and leaves
  the error latch clear.
-/
import Bebop.Stream
import Bebop.Proofs.RoundTrip

namespace Bebop

/-- The reader is healthy and will deliver `bs` next, within every installed limit. -/
def Reads (s : RState) (bs : List Byte) : Prop :=
  s.err = false ∧ (∃ rest, s.data = bs ++ rest) ∧ ∀ l ∈ s.limits, bs.length ≤ l

theorem foldl_min_le_init (ls : List Nat) (a : Nat) : ls.foldl min a ≤ a := by
  induction ls generalizing a with
  | nil => simp
  | cons l ls ih => simp only [List.foldl_cons]; exact Nat.le_trans (ih _) (Nat.min_le_left _ _)

theorem foldl_min_le_mem (ls : List Nat) (a l : Nat) (h : l ∈ ls) : ls.foldl min a ≤ l := by
  induction ls generalizing a with
  | nil => simp at h
  | cons x ls ih =>
    simp only [List.foldl_cons]
    rcases List.mem_cons.mp h with rfl | h
    · exact Nat.le_trans (foldl_min_le_init _ _) (Nat.min_le_right _ _)
    · exact ih _ h

theorem le_foldl_min (ls : List Nat) (a n : Nat) (ha : n ≤ a) (hl : ∀ l ∈ ls, n ≤ l) : n ≤ ls.foldl min a := by
  induction ls generalizing a with
  | nil => simpa
  | cons x ls ih =>
    simp only [List.foldl_cons]
    exact ih _ (Nat.le_min.mpr ⟨ha, hl x (by simp)⟩) (fun l h => hl l (by simp [h]))

theorem Reads.le_avail {s : RState} {bs : List Byte} (h : Reads s bs) : bs.length ≤ s.avail := by
  obtain ⟨_, ⟨rest, hd⟩, hl⟩ := h
  exact le_foldl_min _ _ _ (by simp [hd]) hl

theorem sread_reads (s : RState) (bs : List Byte) (h : Reads s bs) :
    sread bs.length s = (some bs, s.consume bs.length) := by
  have hle := h.le_avail
  obtain ⟨_, ⟨rest, hd⟩, _⟩ := h
  simp [sread, hle, hd]

theorem sread_reads' (s : RState) (n : Nat) (bs : List Byte) (hn : bs.length = n) (h : Reads s bs) :
    sread n s = (some bs, s.consume n) := by
  subst hn; exact sread_reads s bs h

theorem Reads.split {s : RState} {a b : List Byte} (h : Reads s (a ++ b)) :
    Reads s a ∧ Reads (s.consume a.length) b := by
  obtain ⟨he, ⟨rest, hd⟩, hl⟩ := h
  refine ⟨⟨he, ⟨b ++ rest, by simp [hd]⟩, fun l hl' => ?_⟩, ⟨he, ⟨rest, ?_⟩, ?_⟩⟩
  · have := hl l hl'; simp at this; omega
  · simp [RState.consume, hd]
  · intro l hl'
    simp only [RState.consume, List.mem_map] at hl'
    obtain ⟨l0, hl0, rfl⟩ := hl'
    have := hl l0 hl0; simp at this; omega

theorem Reads.data_length {s : RState} {bs : List Byte} (h : Reads s bs) :
    (s.consume bs.length).data.length + bs.length = s.data.length := by
  obtain ⟨_, ⟨rest, hd⟩, _⟩ := h
  simp [RState.consume, hd]; omega

theorem consume_consume (s : RState) (a b : Nat) : (s.consume a).consume b = s.consume (a + b) := by
  cases s with
  | mk d l e =>
    have h1 : (d.drop a).drop b = d.drop (a + b) := by rw [List.drop_drop]
    have h2 : (l.map (· - a)).map (· - b) = l.map (· - (a + b)) := by
      rw [List.map_map]; apply List.map_congr_left; intro x _; simp; omega
    simp only [RState.consume, h1, h2]

theorem consume_zero (s : RState) : s.consume 0 = s := by
  cases s; simp [RState.consume]

theorem sreadU32_reads (s : RState) (n : Nat) (hn : n < 2^32) (h : Reads s (leBytes 4 n)) :
    sreadU32 s = (n, s.consume 4) := by
  have h' : n < 256 ^ 4 := by simpa using hn
  simp [sreadU32, sread_reads' s 4 (leBytes 4 n) (by simp) h, ofLe_leBytes 4 n h']

theorem sreadByte_reads (s : RState) (b : Byte) (h : Reads s [b]) :
    sreadByte s = (b.toNat, s.consume 1) := by
  simp [sreadByte, sread_reads' s 1 [b] (by simp) h, ofLe]

/-- Pushing a limit, consuming exactly that many bytes and popping it is consuming those bytes. -/
theorem sleave_exact (v : Val) (s : RState) (n : Nat) (he : s.err = false) :
    sleave v ({ s with limits := n :: s.limits }.consume n) = (.val v, s.consume n) := by
  cases s with
  | mk data limits err =>
    simp only at he; subst he
    have hav : ({ data := data, limits := n :: limits, err := false : RState }.consume n).avail = 0 := by
      simp only [RState.consume, RState.avail, List.map_cons, Nat.sub_self]
      have := foldl_min_le_mem (0 :: limits.map (· - n)) (data.drop n).length 0 (by simp)
      omega
    simp only [sleave, sdrain, hav, consume_zero]
    simp [RState.consume]

mutual
theorem sdec_enc (env : Env) (hE : EnvOk env) :
    (v : Val) → ∀ (ty : Ty) (f : Nat) (s : RState), wt env ty v → rank v < f → Reads s (enc v) →
      sdec f env ty s = (.val v, s.consume (enc v).length)
  | .scalar w n, ty, f, s, h, hf, hr => by
      match f, hf with
      | f+1, _ =>
      simp only [wt] at h
      obtain ⟨hn, h⟩ := h
      simp only [enc] at hr
      have hs := sread_reads' s w (leBytes w n) (by simp) hr
      rcases h with h | h | h | h | h
      · obtain ⟨h, _⟩ := h; subst h; simp [sdec, enc, hs, ofLe_leBytes w n hn]
      · obtain ⟨rfl, rfl, h1⟩ := h
        have : n = 0 ∨ n = 1 := by omega
        rcases this with rfl | rfl <;> simp [sdec, enc, Facts.szBool, hs, ofLe_leBytes 1 _ hn]
      · obtain ⟨rfl, rfl⟩ := h; simp [sdec, enc, Facts.szFloat32, hs, ofLe_leBytes 4 n hn]
      · obtain ⟨rfl, rfl⟩ := h; simp [sdec, enc, Facts.szFloat64, hs, ofLe_leBytes 8 n hn]
      · obtain ⟨rfl, rfl, hd⟩ := h
        simp [sdec, enc, Facts.szDate, hs, ofLe_leBytes 8 n hn, dateNorm_of_ok n hd]
  | .str bs, ty, f, s, h, hf, hr => by
      match f, hf with
      | f+1, _ =>
      simp only [wt] at h
      obtain ⟨rfl, hl⟩ := h
      simp only [enc] at hr
      obtain ⟨h1, h2⟩ := hr.split
      simp only [length_leBytes] at h2
      simp [sdec, enc, sreadU32_reads s bs.length hl h1, sread_reads _ bs h2, consume_consume]
  | .guid bs, ty, f, s, h, hf, hr => by
      match f, hf with
      | f+1, _ =>
      simp only [wt] at h
      obtain ⟨rfl, hl⟩ := h
      simp only [enc] at hr
      simp [sdec, enc, Facts.szGuid, sread_reads' s 16 (guidWire bs) (by simp) hr, guidRead_guidWire bs hl]
  | .arr vs, ty, f, s, h, hf, hr => by
      match f, hf with
      | f+1, hf =>
      simp only [wt] at h
      obtain ⟨t, rfl, hl, hw, hp⟩ := h
      simp only [rank] at hf
      have hf' : rankList vs < f := by omega
      simp only [enc] at hr
      obtain ⟨h1, h2⟩ := hr.split
      simp only [length_leBytes] at h2
      simp only [sdec, sreadU32_reads s vs.length hl h1, sdecN_enc env hE vs t f _ hw hp hf' h2, enc,
        consume_consume, List.length_append, length_leBytes]
  | .map kvs, ty, f, s, h, hf, hr => by
      match f, hf with
      | f+1, hf =>
      simp only [wt] at h
      obtain ⟨k, t, rfl, hkt, hl, hw, hd⟩ := h
      simp only [rank] at hf
      have hf' : rankKVs kvs < f := by omega
      simp only [enc] at hr
      obtain ⟨h1, h2⟩ := hr.split
      simp only [length_leBytes] at h2
      simp only [sdec, sreadU32_reads s kvs.length hl h1,
        sdecEntries_enc env hE kvs k t f _ [] hkt hw hd (by simp) hf' h2, enc, List.nil_append,
        consume_consume, List.length_append, length_leBytes]
  | .struct fs, ty, f, s, h, hf, hr => by
      match f, hf with
      | 0, hf => simp [rank] at hf
      | 1, hf => simp [rank] at hf
      | f+2, hf =>
      simp only [wt] at h
      obtain ⟨n, tys, rfl, hn, hw⟩ := h
      simp only [rank] at hf
      have hf' : rankList fs < f := by omega
      simp only [enc] at hr
      have he : (s.consume (encList fs).length).err = false := by simp [RState.consume, hr.1]
      cases tys with
      | nil =>
        cases fs with
        | nil => simp [sdec, sdecRecord, hn, enc, encList, consume_zero]
        | cons _ _ => simp [wtStruct] at hw
      | cons t tys =>
        simp only [sdec, sdecRecord, hn, sdecFields_enc env hE fs (t :: tys) f s hw hf' hr, he, enc]
        simp
  | .msg fs, ty, f, s, h, hf, hr => by
      match f, hf with
      | 0, hf => simp [rank] at hf
      | 1, hf => simp [rank] at hf
      | f+2, hf =>
      simp only [wt] at h
      obtain ⟨n, fds, rfl, hn, hw, hsz⟩ := h
      simp only [rank] at hf
      have hf' : rankFields fs < f := by omega
      have hok : DefOk (.msg fds) := hE _ (List.mem_of_getElem? hn)
      have hlen : (encFields fs).length + 1 < 2^32 := by rw [length_encFields]; exact hsz
      have henc : enc (.msg fs) = leBytes 4 ((encFields fs).length + 1) ++ (encFields fs ++ [0]) := by
        simp [enc]
      rw [henc] at hr ⊢
      obtain ⟨h1, h2⟩ := hr.split
      simp only [length_leBytes] at h2
      simp only [sdec, sdecRecord, hn, sreadU32_reads s _ hlen h1, Facts.msgLimitExtra, Nat.add_zero]
      -- the limited reader is installed
      have h3 : Reads { (s.consume 4) with limits := ((encFields fs).length + 1) :: (s.consume 4).limits }
          (encFields fs ++ [0]) := by
        obtain ⟨he, hd, hl⟩ := h2
        refine ⟨he, hd, fun l hl' => ?_⟩
        rcases List.mem_cons.mp hl' with rfl | hl'
        · simp
        · exact hl l hl'
      have hav := h3.le_avail
      have hfl := length_le_encFields fs
      rw [sdecMsgLoop_enc env hE fs fds f _ 0 [] _ hok hw (by simp) hf' h3
        (by simp only [List.length_append, List.length_singleton] at hav; omega)]
      have he : (s.consume 4).err = false := h2.1
      have := sleave_exact (.msg fs) (s.consume 4) ((encFields fs).length + 1) he
      simp only [List.length_append, List.length_singleton, length_leBytes, List.nil_append] at this ⊢
      rw [this, consume_consume]
  | .union d v, ty, f, s, h, hf, hr => by
      match f, hf with
      | 0, hf => simp [rank] at hf
      | 1, hf => simp [rank] at hf
      | f+2, hf =>
      simp only [wt] at h
      obtain ⟨n, brs, m, rfl, hn, hd, hm, hw, hsz⟩ := h
      simp only [rank] at hf
      have hf' : rank v < f := by omega
      have hlen : (enc v).length < 2^32 := by rw [length_enc]; exact hsz
      have henc : enc (.union d v) = leBytes 4 (enc v).length ++ ([UInt8.ofNat d] ++ enc v) := by
        simp [enc]
      rw [henc] at hr ⊢
      obtain ⟨h1, h2⟩ := hr.split
      simp only [length_leBytes] at h2
      simp only [sdec, sdecRecord, hn, sreadU32_reads s _ hlen h1]
      have h3 : Reads { (s.consume 4) with limits := ((enc v).length + Facts.unionLimitExtra) :: (s.consume 4).limits }
          ([UInt8.ofNat d] ++ enc v) := by
        obtain ⟨he, hd, hl⟩ := h2
        refine ⟨he, hd, fun l hl' => ?_⟩
        rcases List.mem_cons.mp hl' with rfl | hl'
        · simp [Facts.unionLimitExtra]
        · exact hl l hl'
      obtain ⟨h4, h5⟩ := h3.split
      simp only [sreadByte_reads _ _ h4, toNat_ofNat_lt d hd, hm]
      simp only [List.length_singleton] at h5
      rw [sdec_enc env hE v (.ref m) f _ hw hf' h5]
      have he : (s.consume 4).err = false := h2.1
      have := sleave_exact (.union d v) (s.consume 4) ((enc v).length + Facts.unionLimitExtra) he
      simp only [consume_consume, Facts.unionLimitExtra] at this ⊢
      rw [show 1 + (enc v).length = (enc v).length + 1 by omega, this]
      simp only [List.length_append, length_leBytes, List.length_singleton]
      congr 2; omega

theorem sdecN_enc (env : Env) (hE : EnvOk env) :
    (vs : List Val) → ∀ (t : Ty) (f : Nat) (s : RState), wtList env t vs → Progress vs → rankList vs < f →
      Reads s (encList vs) →
      sdecN (sdec f env t) vs.length s = (.val vs, s.consume (encList vs).length)
  | [], _, _, s, _, _, _, _ => by simp [sdecN, encList, consume_zero]
  | v :: vs, t, f, s, h, hp, hf, hr => by
      simp only [wtList] at h
      simp only [rankList] at hf
      have h1 : rank v < f := by omega
      have h2 : rankList vs < f := by omega
      simp only [encList] at hr
      obtain ⟨hr1, hr2⟩ := hr.split
      have hg : ¬ ((s.consume (enc v).length).data.length = s.data.length ∧ loopSlack ≤ vs.length) := by
        intro ⟨hl, hs⟩
        have := hr1.data_length
        exact hp.head_guard ⟨by omega, hs⟩
      simp only [List.length_cons, sdecN, sdec_enc env hE v t f s h.1 h1 hr1, hg, if_false,
        sdecN_enc env hE vs t f _ h.2 hp.tail h2 hr2, consume_consume, encList, List.length_append]

theorem sdecEntries_enc (env : Env) (hE : EnvOk env) :
    (kvs : List (Val × Val)) → ∀ (k t : Ty) (f : Nat) (s : RState) (acc : List (Val × Val)),
      isKeyTy k = true → wtKVs env k t kvs → keysDistinct k kvs → (∀ a ∈ acc, ∀ kv ∈ kvs, keyEq k a.1 kv.1 = false) →
      rankKVs kvs < f → Reads s (encKVs kvs) →
      sdecEntries k (sdec f env k) (sdec f env t) kvs.length s acc = (.val (acc ++ kvs), s.consume (encKVs kvs).length)
  | [], _, _, _, s, _, _, _, _, _, _, _ => by simp [sdecEntries, encKVs, consume_zero]
  | (a, b) :: kvs, k, t, f, s, acc, hkt, h, hd, hacc, hf, hr => by
      simp only [wtKVs] at h
      simp only [keysDistinct] at hd
      simp only [rankKVs] at hf
      have h1 : rank a < f := by omega
      have h2 : rank b < f := by omega
      have h3 : rankKVs kvs < f := by omega
      have hfresh : ∀ x ∈ acc, keyEq k x.1 a = false := fun x hx => hacc x hx (a, b) (by simp)
      have hacc' : ∀ x ∈ acc ++ [(a, b)], ∀ kv ∈ kvs, keyEq k x.1 kv.1 = false := by
        intro x hx kv hkv
        rcases List.mem_append.mp hx with hx | hx
        · exact hacc x hx kv (by simp [hkv])
        · simp at hx; subst hx; exact hd.1 kv hkv
      simp only [encKVs, List.append_assoc] at hr
      obtain ⟨hr1, hr23⟩ := hr.split
      obtain ⟨hr2, hr3⟩ := hr23.split
      have hg : ¬ (((s.consume (enc a).length).consume (enc b).length).data.length = s.data.length ∧
          loopSlack ≤ kvs.length) := by
        intro ⟨hl, _⟩
        have e1 := hr1.data_length
        have e2 := hr2.data_length
        have := key_enc_pos env k hkt a h.1
        omega
      simp only [List.length_cons, sdecEntries, sdec_enc env hE a k f s h.1 h1 hr1,
        sdec_enc env hE b t f _ h.2.1 h2 hr2, mapInsert_fresh k a b acc hfresh, hg, if_false]
      rw [sdecEntries_enc env hE kvs k t f _ (acc ++ [(a, b)]) hkt h.2.2 hd.2 hacc' h3 hr3]
      simp only [consume_consume, encKVs, List.length_append, List.append_assoc, List.singleton_append, Nat.add_assoc]

theorem sdecFields_enc (env : Env) (hE : EnvOk env) :
    (fs : List Val) → ∀ (tys : List Ty) (f : Nat) (s : RState), wtStruct env tys fs → rankList fs < f →
      Reads s (encList fs) →
      sdecFields (sdec f env) tys s = (.val fs, s.consume (encList fs).length)
  | [], [], _, s, _, _, _ => by simp [sdecFields, encList, consume_zero]
  | [], _ :: _, _, _, h, _, _ => by simp [wtStruct] at h
  | _ :: _, [], _, _, h, _, _ => by simp [wtStruct] at h
  | v :: vs, t :: tys, f, s, h, hf, hr => by
      simp only [wtStruct] at h
      simp only [rankList] at hf
      have h1 : rank v < f := by omega
      have h2 : rankList vs < f := by omega
      simp only [encList] at hr
      obtain ⟨hr1, hr2⟩ := hr.split
      simp only [sdecFields, sdec_enc env hE v t f s h.1 h1 hr1,
        sdecFields_enc env hE vs tys f _ h.2 h2 hr2, consume_consume, encList, List.length_append]

theorem sdecMsgLoop_enc (env : Env) (hE : EnvOk env) :
    (fs : List (Nat × Val)) → ∀ (fds : List MsgField) (f : Nat) (s : RState) (lo : Nat)
      (acc : List (Nat × Val)) (n : Nat), DefOk (.msg fds) → wtMsg env fds lo fs → (∀ a ∈ acc, a.1 ≤ lo) →
      rankFields fs < f → Reads s (encFields fs ++ [0]) → fs.length < n →
      sdecMsgLoop (sdec f env) fds n s acc = sleave (.msg (acc ++ fs)) (s.consume ((encFields fs).length + 1))
  | [], fds, f, s, lo, acc, n, hok, _, _, _, hr, hn => by
      match n, hn with
      | n+1, _ =>
      have : fds.find? (fun fd => fd.idx == 0) = none := by
        rw [List.find?_eq_none]
        intro fd hfd
        have := (hok fd hfd).1
        simp; omega
      simp only [encFields, List.nil_append] at hr
      simp [sdecMsgLoop, sreadByte_reads s 0 hr, this, encFields]
  | (i, v) :: fs, fds, f, s, lo, acc, n, hok, h, hacc, hf, hr, hn => by
      match n, hn with
      | n+1, hn =>
      simp only [wtMsg] at h
      obtain ⟨hlo, hi, ⟨fd, hfd, _, hwv⟩, hrest⟩ := h
      simp only [rankFields] at hf
      have h1 : rank v < f := by omega
      have h2 : rankFields fs < f := by omega
      have hidx : fd.idx = i := find_msgField fds i fd hfd
      have hacc1 : ∀ a ∈ acc, a.1 < i := fun a ha => by have := hacc a ha; omega
      have hacc' : ∀ a ∈ acc ++ [(i, v)], a.1 ≤ i := by
        intro a ha
        rcases List.mem_append.mp ha with ha | ha
        · have := hacc1 a ha; omega
        · simp at ha; subst ha; simp
      simp only [List.length_cons] at hn
      have henc : encFields ((i, v) :: fs) ++ [0] = [UInt8.ofNat i] ++ (enc v ++ (encFields fs ++ [0])) := by
        simp [encFields]
      rw [henc] at hr
      obtain ⟨hr1, hr23⟩ := hr.split
      obtain ⟨hr2, hr3⟩ := hr23.split
      simp only [List.length_singleton] at hr2 hr3
      simp only [sdecMsgLoop, sreadByte_reads s _ hr1, toNat_ofNat_lt i hi, hfd,
        sdec_enc env hE v fd.ty f _ hwv h1 hr2, hidx, msgSet_fresh i v acc hacc1]
      rw [sdecMsgLoop_enc env hE fs fds f _ i (acc ++ [(i, v)]) n hok hrest hacc' h2 hr3 (by omega)]
      simp only [consume_consume, encFields, List.length_cons, List.length_append, List.append_assoc,
        List.singleton_append]
      congr 2; omega
end

end Bebop
