/-
  C18 — import handling: the worklist of File.Generate imports every transitively imported file exactly
  once (combined mode = inlining each of them once), the only worklist error is a missing file, and the
  package-graph cycle search (internal/importgraph) answers `true` exactly when the recorded edge list
  has a cycle.

  Model: Bebop/Text/Imports.lean. Specification notions (`Imports`, `Reachable`, `Edge`, `Path`,
  `HasCycle`) and the invariant lemmas: Bebop/Proofs/Imports.lean.
-/
import Bebop.Proofs.Imports

namespace Bebop.Text

/-! ## A. The worklist -/

/-- (1),(2) hold for every fuel value: whatever the worklist has imported so far is duplicate free,
    transitively imported by the root, and exists. -/
theorem C18_worklist_sound_anyfuel (fs : FS) (root : SrcInfo) (fuel : Nat)
    (imported : List Nat) (edges : List (Option Nat × Option Nat))
    (h0 : fs[0]? = some root)
    (h : worklist fs fuel (root.imports.map (fun t => (root.pkg, t))) [] [] = .ok (imported, edges)) :
    imported.Nodup ∧ (∀ t ∈ imported, Reachable fs t ∧ fs[t]?.isSome) :=
  worklist_sound_gen fs fuel _ [] [] imported edges (WInv.init h0) h

/-- With the fuel `resolveImports` supplies, a successful worklist run returns exactly the files
    transitively imported by the root, each once, and all of them exist. -/
theorem C18_worklist_sound (fs : FS) (root : SrcInfo) (fuel : Nat)
    (imported : List Nat) (edges : List (Option Nat × Option Nat))
    (h0 : fs[0]? = some root)
    (hfuel : fuel = fs.foldl (fun n i => n + i.imports.length) 0 + root.imports.length + 1)
    (h : worklist fs fuel (root.imports.map (fun t => (root.pkg, t))) [] [] = .ok (imported, edges)) :
    imported.Nodup ∧
    (∀ t ∈ imported, Reachable fs t ∧ fs[t]?.isSome) ∧
    (∀ t, Reachable fs t → t ∈ imported) := by
  obtain ⟨h1, h2⟩ := C18_worklist_sound_anyfuel fs root fuel imported edges h0 h
  refine ⟨h1, h2, ?_⟩
  have hf : (rootWork root).length + pend fs 0 [] < fuel := by
    rw [hfuel]; exact worklistFuel_sufficient fs root
  have hcl : WClosed fs (rootWork root) [] := fun a ha => absurd ha List.not_mem_nil
  obtain ⟨_, hwl, hclosed⟩ := worklist_complete_gen fs fuel (rootWork root) [] [] imported edges hf hcl h
  intro t ht
  induction ht with
  | root hr ht =>
    rw [h0] at hr
    injection hr with hr
    subst hr
    exact hwl (root.pkg, _) (List.mem_map.mpr ⟨_, ht, rfl⟩)
  | step _ hab ih => exact hclosed _ ih _ hab

/-- (4) The only error the worklist can produce is `notFound`, and only because some transitively
    imported target does not exist (any fuel). -/
theorem C18_worklist_error (fs : FS) (root : SrcInfo) (fuel : Nat) (e : ImpErr)
    (h0 : fs[0]? = some root)
    (h : worklist fs fuel (root.imports.map (fun t => (root.pkg, t))) [] [] = .error e) :
    e = .notFound ∧ ∃ t, Reachable fs t ∧ fs[t]? = none :=
  worklist_error_gen fs fuel _ [] [] e (WInv.init h0) h

/-- With the fuel of `resolveImports`: the worklist succeeds iff every transitively imported target exists. -/
theorem C18_worklist_ok_iff (fs : FS) (root : SrcInfo) (fuel : Nat)
    (h0 : fs[0]? = some root)
    (hfuel : fuel = fs.foldl (fun n i => n + i.imports.length) 0 + root.imports.length + 1) :
    (∃ imported edges,
        worklist fs fuel (root.imports.map (fun t => (root.pkg, t))) [] [] = .ok (imported, edges)) ↔
      ∀ t, Reachable fs t → fs[t]?.isSome := by
  constructor
  · rintro ⟨imported, edges, h⟩ t ht
    obtain ⟨_, h2, h3⟩ := C18_worklist_sound fs root fuel imported edges h0 hfuel h
    exact (h2 t (h3 t ht)).2
  · intro hall
    cases hw : worklist fs fuel (root.imports.map (fun t => (root.pkg, t))) [] [] with
    | ok r => exact ⟨r.1, r.2, rfl⟩
    | error e =>
      obtain ⟨_, t, ht, hn⟩ := C18_worklist_error fs root fuel e h0 hw
      have := hall t ht
      rw [hn] at this
      cases this

/-- Combined mode: a successful result is the root followed by exactly the transitively imported files,
    without repetition. -/
theorem C18_combined_ok (fs : FS) (files : List Nat) (h : resolveImports fs false = .ok files) :
    files.head? = some 0 ∧ files.Nodup ∧ ∀ t, t ∈ files ↔ (t = 0 ∨ Reachable fs t) := by
  unfold resolveImports at h
  split at h
  · cases h
  · rename_i root h0
    split at h
    · rename_i hemp
      injection h with h
      subst h
      have hnil : root.imports = [] := List.isEmpty_iff.mp hemp
      have hno : ∀ t, ¬ Reachable fs t := by
        intro t ht
        induction ht with
        | root hr hm =>
          rw [h0] at hr; injection hr with hr; subst hr
          rw [hnil] at hm; exact absurd hm List.not_mem_nil
        | step _ _ ih => exact ih
      refine ⟨rfl, by simp, ?_⟩
      intro t
      simp only [List.mem_singleton]
      exact ⟨Or.inl, fun h => h.elim id (fun hr => absurd hr (hno t))⟩
    · simp only at h
      split at h
      · cases h
      · rename_i imported edges hw
        simp only [Bool.false_eq_true, if_false] at h
        split at h
        · cases h
        · rename_i hc
          injection h with h
          subst h
          obtain ⟨h1, h2, h3⟩ := C18_worklist_sound fs root _ imported edges h0 rfl hw
          have hc' : 0 ∉ imported := fun hm => hc (List.contains_iff_mem.mpr hm)
          refine ⟨rfl, List.nodup_cons.mpr ⟨hc', h1⟩, ?_⟩
          intro t
          simp only [List.mem_cons]
          constructor
          · rintro (h | h)
            · exact Or.inl h
            · exact Or.inr (h2 t h).1
          · rintro (h | h)
            · exact Or.inl h
            · exact Or.inr (h3 t h)

/-! ## B. The cycle search -/

/-- What a `true` answer of `dfs` means for an arbitrary recursion stack: from `node` one can walk back
    into `node :: stack`, or to a node lying on a cycle. -/
theorem C18_dfs_true (edges : List (Option Nat × Option Nat)) (fuel : Nat) (node : Option Nat)
    (stack : List (Option Nat)) (h : dfs edges fuel node stack = some true) :
    (∃ t ∈ node :: stack, Path edges node t) ∨ (∃ t, Path edges node t ∧ Path edges t t) :=
  dfs_true_gen edges fuel node stack h

/-- Soundness: when the recursion stack is a path leading to `node` (as it is in every call made by
    `findCycle`), a `true` answer of `dfs` is a cycle; hence so is a `true` answer of `findCycle`. -/
theorem C18_dfs_sound (edges : List (Option Nat × Option Nat)) :
    (∀ fuel node stack, (∀ s ∈ stack, Path edges s node) →
        dfs edges fuel node stack = some true → HasCycle edges) ∧
    (findCycle edges = some true → HasCycle edges) := by
  refine ⟨fun fuel node stack hst h => dfs_true_cycle edges fuel node stack hst h, ?_⟩
  intro h
  unfold findCycle at h
  exact scan_true edges _ _ _ h

/-- Completeness: a `false` answer of `dfs` from a root (empty stack) means that no cycle is reachable
    from that root, and a `false` answer of `findCycle` means that the edge list has no cycle at all. -/
theorem C18_dfs_complete (edges : List (Option Nat × Option Nat)) :
    (∀ fuel r, dfs edges fuel r [] = some false → ∀ m, Reaches edges r m → ¬ Path edges m m) ∧
    (findCycle edges = some false → ¬ HasCycle edges) := by
  refine ⟨fun fuel r h => dfs_false_good edges fuel r h, ?_⟩
  intro h
  unfold findCycle at h
  have hg := scan_false edges _ _ [] (fun v hv => absurd hv List.not_mem_nil) h
  rintro ⟨n, hn⟩
  obtain ⟨c, hc⟩ := hn.head_edge
  have hmem : n ∈ sortNodes (edges.map (·.1)).eraseDups := by
    rw [mem_sortNodes, List.mem_eraseDups]
    exact List.mem_map.mpr ⟨(n, c), hc, rfl⟩
  exact hg n hmem n (Or.inl rfl) hn

/-- Whenever `findCycle` answers, the answer is right. -/
theorem C18_findCycle_iff (edges : List (Option Nat × Option Nat)) (b : Bool)
    (h : findCycle edges = some b) : b = true ↔ HasCycle edges := by
  cases b with
  | true => exact ⟨fun _ => (C18_dfs_sound edges).2 h, fun _ => rfl⟩
  | false =>
    constructor
    · intro hb; cases hb
    · intro hc; exact absurd hc ((C18_dfs_complete edges).2 h)

/-! ## The recorded edges and separate mode -/

/-- With the fuel of `resolveImports`, the edge list handed to the cycle search is exactly the package
    graph of the import statements of the root and of the transitively imported files. -/
theorem C18_edges_exact (fs : FS) (root : SrcInfo) (fuel : Nat)
    (imported : List Nat) (edges : List (Option Nat × Option Nat))
    (h0 : fs[0]? = some root)
    (hfuel : fuel = fs.foldl (fun n i => n + i.imports.length) 0 + root.imports.length + 1)
    (h : worklist fs fuel (root.imports.map (fun t => (root.pkg, t))) [] [] = .ok (imported, edges)) :
    ∀ a b, (a, b) ∈ edges ↔ PkgEdge fs a b := by
  intro a b
  constructor
  · intro hab
    exact edges_sound_gen fs fuel _ [] [] imported edges (EInv.init h0) h (a, b) hab
  · rintro ⟨x, y, ix, iy, hl, hx, hy, hiy, rfl, rfl⟩
    have hf : (rootWork root).length + pend fs 0 [] < fuel := by
      rw [hfuel]; exact worklistFuel_sufficient fs root
    have hcl := edges_complete_gen fs fuel (rootWork root) [] [] imported edges hf (ECl.init fs root h0) h
    have hx' : x = 0 ∨ x ∈ imported := by
      rcases hl with hl | hl
      · exact Or.inl hl
      · exact Or.inr ((C18_worklist_sound fs root fuel imported edges h0 hfuel h).2.2 x hl)
    rcases hcl x ix hx' hx y hy with hw | ⟨iy', hiy', he⟩
    · exact absurd hw List.not_mem_nil
    · rw [hiy] at hiy'
      injection hiy' with hiy'
      subst hiy'
      exact he

/-- `findCycle` always answers (the recursion depth it allows is never exceeded). -/
theorem C18_findCycle_terminates (edges : List (Option Nat × Option Nat)) : findCycle edges ≠ none :=
  findCycle_ne_none edges

/-- `findCycle` decides `HasCycle`. -/
theorem C18_findCycle_correct (edges : List (Option Nat × Option Nat)) :
    (findCycle edges = some true ↔ HasCycle edges) ∧ (findCycle edges = some false ↔ ¬ HasCycle edges) := by
  cases h : findCycle edges with
  | none => exact absurd h (findCycle_ne_none edges)
  | some b =>
    have hiff := C18_findCycle_iff edges b h
    cases b with
    | true =>
      have hc : HasCycle edges := hiff.mp rfl
      exact ⟨⟨fun _ => hc, fun _ => rfl⟩, ⟨fun hb => (nomatch hb), fun hn => absurd hc hn⟩⟩
    | false =>
      have hn : ¬ HasCycle edges := fun hc => nomatch hiff.mpr hc
      exact ⟨⟨fun hb => (nomatch hb), fun hc => absurd hc hn⟩, ⟨fun _ => hn, fun _ => rfl⟩⟩

/-- A missing file is reported (in both modes) exactly when the root or a transitively imported target
    does not exist. -/
theorem C18_notFound_iff (fs : FS) (sep : Bool) :
    resolveImports fs sep = .err .notFound ↔ (fs[0]? = none ∨ ∃ t, Reachable fs t ∧ fs[t]? = none) := by
  cases h0 : fs[0]? with
  | none => exact ⟨fun _ => Or.inl rfl, fun _ => resolve_root_none fs sep h0⟩
  | some root =>
    by_cases he : root.imports = []
    · rw [resolve_no_imports fs sep root h0 he]
      constructor
      · intro h; cases h
      · rintro (h | ⟨t, ht, _⟩)
        · cases h
        · exact absurd ht (no_reachable fs root h0 he t)
    · cases hw : worklist fs (fs.foldl (fun n i => n + i.imports.length) 0 + root.imports.length + 1)
          (root.imports.map (fun t => (root.pkg, t))) [] [] with
      | error e =>
        obtain ⟨he1, t, ht, hn⟩ := C18_worklist_error fs root _ e h0 hw
        rw [resolve_wl_error fs sep root e h0 he hw, he1]
        exact ⟨fun _ => Or.inr ⟨t, ht, hn⟩, fun _ => rfl⟩
      | ok r =>
        obtain ⟨imported, edges⟩ := r
        obtain ⟨_, h2, h3⟩ := C18_worklist_sound fs root _ imported edges h0 rfl hw
        constructor
        · intro h
          exfalso
          cases sep with
          | true =>
            cases hc : findCycle edges with
            | none => exact findCycle_ne_none edges hc
            | some b =>
              cases b with
              | true => rw [resolve_sep_cycle fs root imported edges h0 he hw hc] at h; cases h
              | false =>
                rw [resolve_sep_nocycle fs root imported edges h0 he hw hc] at h
                split at h <;> cases h
          | false =>
            unfold resolveImports at h
            have he' : root.imports.isEmpty = false := by
              cases hh : root.imports with
              | nil => exact absurd hh he
              | cons _ _ => rfl
            simp only [h0, he', hw] at h
            simp only [Bool.false_eq_true, if_false] at h
            split at h <;> cases h
        · rintro (h | ⟨t, ht, hn⟩)
          · cases h
          · have := (h2 t (h3 t ht)).2
            rw [hn] at this
            cases this

/-- Separate mode reports an import cycle exactly when everything resolves and the package graph of the
    live files has a cycle. -/
theorem C18_separate_cycle_iff (fs : FS) :
    resolveImports fs true = .err .cycle ↔
      (fs[0]?.isSome ∧ (∀ t, Reachable fs t → fs[t]?.isSome) ∧ ∃ n, PkgPath fs n n) := by
  cases h0 : fs[0]? with
  | none =>
    rw [resolve_root_none fs true h0]
    constructor
    · intro h; cases h
    · rintro ⟨h, _⟩; cases h
  | some root =>
    by_cases he : root.imports = []
    · rw [resolve_no_imports fs true root h0 he]
      constructor
      · intro h; cases h
      · rintro ⟨_, _, n, hn⟩
        exfalso
        obtain ⟨c, x, y, ix, iy, hl, hx, hy, _⟩ := hn.head_edge
        rcases hl with hl | hl
        · subst hl
          rw [h0] at hx; injection hx with hx; subst hx
          rw [he] at hy; exact absurd hy List.not_mem_nil
        · exact no_reachable fs root h0 he x hl
    · cases hw : worklist fs (fs.foldl (fun n i => n + i.imports.length) 0 + root.imports.length + 1)
          (root.imports.map (fun t => (root.pkg, t))) [] [] with
      | error e =>
        obtain ⟨he1, t, ht, hn⟩ := C18_worklist_error fs root _ e h0 hw
        rw [resolve_wl_error fs true root e h0 he hw, he1]
        constructor
        · intro h; cases h
        · rintro ⟨_, hall, _⟩
          have := hall t ht
          rw [hn] at this
          cases this
      | ok r =>
        obtain ⟨imported, edges⟩ := r
        obtain ⟨_, h2, h3⟩ := C18_worklist_sound fs root _ imported edges h0 rfl hw
        have hex := C18_edges_exact fs root _ imported edges h0 rfl hw
        have hcyc : HasCycle edges ↔ ∃ n, PkgPath fs n n :=
          ⟨fun ⟨n, hn⟩ => ⟨n, (path_iff_pkgPath hex n n).mp hn⟩,
           fun ⟨n, hn⟩ => ⟨n, (path_iff_pkgPath hex n n).mpr hn⟩⟩
        obtain ⟨hct, hcf⟩ := C18_findCycle_correct edges
        cases hc : findCycle edges with
        | none => exact absurd hc (findCycle_ne_none edges)
        | some b =>
          cases b with
          | true =>
            rw [resolve_sep_cycle fs root imported edges h0 he hw hc]
            exact ⟨fun _ => ⟨rfl, fun t ht => (h2 t (h3 t ht)).2, hcyc.mp (hct.mp hc)⟩, fun _ => rfl⟩
          | false =>
            rw [resolve_sep_nocycle fs root imported edges h0 he hw hc]
            constructor
            · intro h; split at h <;> cases h
            · rintro ⟨_, _, hn⟩
              exact absurd (hcyc.mpr hn) (hcf.mp hc)

/-- Separate mode: a successful result is the root followed by exactly the transitively imported files,
    without repetition; the package graph has no cycle and every imported file has a go_package. -/
theorem C18_separate_ok (fs : FS) (files : List Nat) (h : resolveImports fs true = .ok files) :
    files.head? = some 0 ∧ files.Nodup ∧ (∀ t, t ∈ files ↔ (t = 0 ∨ Reachable fs t)) ∧
    (¬ ∃ n, PkgPath fs n n) ∧
    (∀ t, Reachable fs t → ∃ i p, fs[t]? = some i ∧ i.pkg = some p) := by
  cases h0 : fs[0]? with
  | none => rw [resolve_root_none fs true h0] at h; cases h
  | some root =>
    by_cases he : root.imports = []
    · rw [resolve_no_imports fs true root h0 he] at h
      injection h with h
      subst h
      have hno := no_reachable fs root h0 he
      refine ⟨rfl, by simp, ?_, ?_, fun t ht => absurd ht (hno t)⟩
      · intro t
        simp only [List.mem_singleton]
        exact ⟨Or.inl, fun h => h.elim id (fun hr => absurd hr (hno t))⟩
      · rintro ⟨n, hn⟩
        obtain ⟨c, x, y, ix, iy, hl, hx, hy, _⟩ := hn.head_edge
        rcases hl with hl | hl
        · subst hl
          rw [h0] at hx; injection hx with hx; subst hx
          rw [he] at hy; exact absurd hy List.not_mem_nil
        · exact hno x hl
    · cases hw : worklist fs (fs.foldl (fun n i => n + i.imports.length) 0 + root.imports.length + 1)
          (root.imports.map (fun t => (root.pkg, t))) [] [] with
      | error e => rw [resolve_wl_error fs true root e h0 he hw] at h; cases h
      | ok r =>
        obtain ⟨imported, edges⟩ := r
        obtain ⟨h1, h2, h3⟩ := C18_worklist_sound fs root _ imported edges h0 rfl hw
        have hex := C18_edges_exact fs root _ imported edges h0 rfl hw
        cases hc : findCycle edges with
        | none => exact absurd hc (findCycle_ne_none edges)
        | some b =>
          cases b with
          | true => rw [resolve_sep_cycle fs root imported edges h0 he hw hc] at h; cases h
          | false =>
            rw [resolve_sep_nocycle fs root imported edges h0 he hw hc] at h
            have hnc : ¬ ∃ n, PkgPath fs n n := by
              rintro ⟨n, hn⟩
              exact (C18_dfs_complete edges).2 hc ⟨n, (path_iff_pkgPath hex n n).mpr hn⟩
            split at h
            · cases h
            · rename_i hany
              injection h with h
              subst h
              have h0n : 0 ∉ imported := by
                intro hm
                exact hnc ⟨root.pkg, reachable_pkgPath fs root h0 0 (h2 0 hm).1 root h0⟩
              refine ⟨rfl, List.nodup_cons.mpr ⟨h0n, h1⟩, ?_, hnc, ?_⟩
              · intro t
                simp only [List.mem_cons]
                constructor
                · rintro (h | h)
                  · exact Or.inl h
                  · exact Or.inr (h2 t h).1
                · rintro (h | h)
                  · exact Or.inl h
                  · exact Or.inr (h3 t h)
              · intro t ht
                have htm := h3 t ht
                have hany' : imported.any (fun i => (fs[i]?.bind (·.pkg)).isNone) = false := by
                  cases hb : imported.any (fun i => (fs[i]?.bind (·.pkg)).isNone) with
                  | false => rfl
                  | true => exact absurd hb hany
                rw [List.any_eq_false] at hany'
                have hp := hany' t htm
                cases hi : fs[t]? with
                | none => rw [hi] at hp; simp at hp
                | some i =>
                  cases hpk : i.pkg with
                  | none => rw [hi] at hp; simp [hpk] at hp
                  | some p => exact ⟨i, p, rfl, hpk⟩

/-! ## C. Termination -/

/-- Combined mode never runs out of fuel; immediate from the definition (only the cycle search of separate
    mode can produce `.fuel`). Superseded by `C18_terminates` below, which covers both modes. -/
theorem C18_terminates_partial (fs : FS) : resolveImports fs false ≠ .fuel := by
  unfold resolveImports
  split
  · intro h; cases h
  · split
    · intro h; cases h
    · simp only
      split
      · intro h; cases h
      · simp only [Bool.false_eq_true, if_false]
        split <;> (intro h; cases h)

/-- `resolveImports` never reports that the model ran out of fuel, in either mode. (That the worklist
    fuel is also *sufficient*, i.e. the worklist really ran to completion, is part of
    `C18_worklist_sound`.) -/
theorem C18_terminates (fs : FS) (sep : Bool) : resolveImports fs sep ≠ .fuel := by
  cases sep with
  | false => exact C18_terminates_partial fs
  | true =>
    unfold resolveImports
    split
    · intro h; cases h
    · split
      · intro h; cases h
      · simp only
        split
        · intro h; cases h
        · simp only [if_true]
          split
          · rename_i hc; exact absurd hc (findCycle_ne_none _)
          · intro h; cases h
          · split <;> (intro h; cases h)

/-! ## D. Non-vacuity -/

section Examples

/-- A diamond: 0 imports 1 and 2, both import 3. -/
def c18Diamond : FS := [⟨some 0, [1, 2]⟩, ⟨some 1, [3]⟩, ⟨some 2, [3]⟩, ⟨some 3, []⟩]

/-- Two files importing each other. -/
def c18Cycle : FS := [⟨some 0, [1]⟩, ⟨some 1, [0]⟩]

example : resolveImports c18Diamond false = .ok [0, 1, 2, 3] := by rfl
example : resolveImports c18Cycle false = .err .validate := by rfl
example : resolveImports [⟨some 0, [1, 5]⟩, ⟨some 1, []⟩] false = .err .notFound := by rfl

example : worklist c18Diamond 5 [(some 0, 1), (some 0, 2)] [] [] =
    .ok ([1, 2, 3], [(some 0, some 1), (some 0, some 2), (some 1, some 3), (some 2, some 3)]) := by rfl

example : worklist c18Cycle 4 [(some 0, 1)] [] [] =
    .ok ([1, 0], [(some 0, some 1), (some 1, some 0), (some 0, some 1)]) := by rfl

/-- Separate mode on the 2-cycle: the cycle search finds `some 0 → some 1 → some 0`. -/
example : resolveImports c18Cycle true = .err .cycle := by
  apply resolve_sep_cycle c18Cycle ⟨some 0, [1]⟩ [1, 0]
    [(some 0, some 1), (some 1, some 0), (some 0, some 1)] rfl (by simp) rfl
  exact (C18_findCycle_correct _).1.mpr
    ⟨some 0, Path.cons (b := some 1) (by simp [Edge]) (Path.single (by simp [Edge]))⟩

/-- Separate mode on the diamond: no cycle, every file has a package. -/
example : resolveImports c18Diamond true = .ok [0, 1, 2, 3] := by
  rw [resolve_sep_nocycle c18Diamond ⟨some 0, [1, 2]⟩ [1, 2, 3]
    [(some 0, some 1), (some 0, some 2), (some 1, some 3), (some 2, some 3)] rfl (by simp) rfl]
  · rfl
  · exact (C18_findCycle_correct _).2.mpr (no_cycle_of_rank _ (fun o => o.getD 0) (by decide))

/-- A transitively imported file without go_package is rejected in separate mode. -/
example : resolveImports [⟨some 0, [1]⟩, ⟨none, []⟩] true = .err .noPkg := by
  rw [resolve_sep_nocycle _ ⟨some 0, [1]⟩ [1] [(some 0, none)] rfl (by simp) rfl]
  · rfl
  · exact (C18_findCycle_correct _).2.mpr
      (no_cycle_of_rank _ (fun o => match o with | none => 1 | some _ => 0) (by decide))

end Examples

end Bebop.Text
