// Command selftest exercises the harness without the Lean model: it generates a random schema
// and the grid, builds them under two option sets and checks real marshal -> unmarshal / decode
// round trips and truncations through the driver.
package main

import (
	"flag"
	"fmt"
	"math/rand"
	"os"
	"path/filepath"
	"sort"
	"sync"
	"time"

	"verif/harness/internal/pkgbuild"
	"verif/harness/internal/schema"
	"verif/harness/internal/session"
	"verif/harness/internal/val"
)

type job struct {
	id   string
	file schema.File
	env  *schema.Env
	text string
	opts pkgbuild.Options
}

type tally struct {
	mu       sync.Mutex
	counts   map[string]int
	examples map[string][]string
}

func (t *tally) add(key string) {
	t.mu.Lock()
	t.counts[key]++
	t.mu.Unlock()
}

func (t *tally) fail(key, example string) {
	t.mu.Lock()
	t.counts["FAIL "+key]++
	if len(t.examples[key]) < 4 {
		t.examples[key] = append(t.examples[key], example)
	}
	t.mu.Unlock()
}

func main() {
	seed := flag.Int64("seed", 1, "seed")
	work := flag.String("work", "/verif/.work/selftest", "work directory")
	nvals := flag.Int("n", 200, "values per record")
	keep := flag.Bool("keep", false, "keep the work directory")
	floatKeys := flag.Bool("floatkeys", false, "include float-keyed maps of containers")
	nrandom := flag.Int("random", 1, "number of random schemas")
	flag.Parse()

	builder, err := pkgbuild.NewBuilder(filepath.Join(*work, "pkgs"), 0)
	if err != nil {
		fmt.Fprintln(os.Stderr, "selftest:", err)
		os.Exit(2)
	}
	if !*keep {
		defer os.RemoveAll(*work)
	}
	rng := rand.New(rand.NewSource(*seed))
	var files []schema.File
	var names []string
	for i := 0; i < *nrandom; i++ {
		files = append(files, schema.Random(rng, schema.Config{FloatKeyContainers: *floatKeys}))
		names = append(names, fmt.Sprintf("rand%d", i))
	}
	for i, g := range schema.Grid(schema.GridOptions{FloatKeyContainers: *floatKeys}) {
		files = append(files, g)
		names = append(names, fmt.Sprintf("grid%d", i))
	}
	files = append(files, schema.EvolveBase())
	names = append(names, "evolvebase")
	optSets := []pkgbuild.Options{{}, pkgbuild.OptionsFromBits(31)}
	var jobs []job
	for i, f := range files {
		for _, o := range optSets {
			jobs = append(jobs, job{id: fmt.Sprintf("%s_o%d", names[i], o.Bits()), file: f, env: schema.Compile(f), text: schema.Render(f), opts: o})
		}
	}
	t := &tally{counts: map[string]int{}, examples: map[string][]string{}}
	start := time.Now()
	var wg sync.WaitGroup
	for ji, j := range jobs {
		wg.Add(1)
		go func(ji int, j job) {
			defer wg.Done()
			pkg := builder.Build(j.id, j.text, j.env, j.opts)
			if !pkg.BuildOK {
				t.fail("build", fmt.Sprintf("%s [%s] stage=%s: %s", j.id, j.opts, pkg.Stage, pkg.FirstErrorLine()))
				fmt.Printf("BUILD FAILURE %s options=%s stage=%s\n%s\n", j.id, j.opts, pkg.Stage, session.Abbrev(pkg.BuildErr, 2000))
				return
			}
			t.add("packages built")
			runPackage(t, pkg, j, *seed+int64(ji), *nvals)
		}(ji, j)
	}
	wg.Wait()
	fmt.Printf("selftest: %d packages, %.1fs\n", len(jobs), time.Since(start).Seconds())
	var keys []string
	for k := range t.counts {
		keys = append(keys, k)
	}
	sort.Strings(keys)
	for _, k := range keys {
		fmt.Printf("  %-40s %d\n", k, t.counts[k])
	}
	for k, ex := range t.examples {
		fmt.Printf("examples of %s:\n", k)
		for _, e := range ex {
			fmt.Printf("    %s\n", e)
		}
	}
}

func runPackage(t *tally, pkg *pkgbuild.Package, j job, seed int64, nvals int) {
	s, err := session.OpenDriver(pkg, j.env, 20*time.Second)
	if err != nil {
		t.fail("driver-start", fmt.Sprintf("%s: %v", j.id, err))
		return
	}
	defer s.Close()
	rng := rand.New(rand.NewSource(seed))
	do := func(line string) session.Resp {
		r, err := s.Do(line)
		if err != nil {
			t.fail("driver-io", fmt.Sprintf("%s: %v", j.id, err))
		}
		return r
	}
	for di, d := range j.env.Defs {
		ctx := fmt.Sprintf("%s[%s] def %d %s(%s)", j.id, j.opts, di, d.Name, d.Kind)
		for n := 0; n < nvals; n++ {
			v := val.RandomRecord(rng, j.env, di, val.GenConfig{NoBig: n%8 != 0})
			vs := v.String()
			want := v.CanonString()
			t.add("values")
			rm := do(fmt.Sprintf("marshal %d %s", di, vs))
			if rm.Class != "ok" || len(rm.Fields) != 1 {
				t.fail("marshal", fmt.Sprintf("%s: marshal %s -> %s", ctx, session.Abbrev(vs, 200), rm.Short()))
				continue
			}
			hexB := rm.Fields[0]
			b, _ := val.Unhex(hexB)
			rs := do(fmt.Sprintf("size %d %s", di, vs))
			if sz, err := rs.Int(0); rs.Class != "ok" || err != nil || sz != len(b) {
				t.fail("size", fmt.Sprintf("%s: size %s != len(marshal) %d for %s", ctx, rs.Short(), len(b), session.Abbrev(vs, 200)))
			}
			re := do(fmt.Sprintf("encode %d %s", di, vs))
			if re.Class != "ok" {
				t.fail("encode", fmt.Sprintf("%s: encode -> %s", ctx, re.Short()))
			} else if !v.HasMultiMap() && re.Fields[0] != hexB {
				t.fail("encode-bytes", fmt.Sprintf("%s: encode %s != marshal %s", ctx, session.Abbrev(re.Fields[0], 120), session.Abbrev(hexB, 120)))
			}
			rt := do(fmt.Sprintf("marshalto %d 255 7 %s", di, vs))
			if nn, err := rt.Int(1); rt.Class != "ok" || err != nil || nn != len(b) {
				t.fail("marshalto", fmt.Sprintf("%s: marshalto -> %s (len %d)", ctx, rt.Short(), len(b)))
			}
			for _, op := range []string{"unmarshal", "mustunmarshal", "makefrombytes", "mustmakefrombytes"} {
				ru := do(fmt.Sprintf("%s %d %s", op, di, hexB))
				if ru.Class == "absent" {
					continue
				}
				got, err := ru.Val()
				if err != nil {
					t.fail(op, fmt.Sprintf("%s: %s of %s -> %s", ctx, op, session.Abbrev(hexB, 120), ru.Short()))
					continue
				}
				t.add("roundtrips " + op)
				if got.CanonString() != want {
					t.fail(op+"-value", fmt.Sprintf("%s: value %s bytes %s decoded %s", ctx, session.Abbrev(want, 300), session.Abbrev(hexB, 200), session.Abbrev(got.CanonString(), 300)))
				}
			}
			for _, op := range []string{"decode", "make"} {
				for _, chunk := range []string{"all", "one", fmt.Sprintf("rnd%d", n)} {
					rd := do(fmt.Sprintf("%s %d %s %s", op, di, chunk, hexB))
					got, consumed, err := rd.ValConsumed()
					if err != nil {
						t.fail(op, fmt.Sprintf("%s: %s %s of %s -> %s", ctx, op, chunk, session.Abbrev(hexB, 120), rd.Short()))
						continue
					}
					t.add("roundtrips " + op)
					if got.CanonString() != want {
						t.fail(op+"-value", fmt.Sprintf("%s: value %s bytes %s decoded %s", ctx, session.Abbrev(want, 300), session.Abbrev(hexB, 200), session.Abbrev(got.CanonString(), 300)))
					}
					if consumed != len(b) {
						t.fail(op+"-consumed", fmt.Sprintf("%s: %s consumed %d of %d bytes (%s)", ctx, chunk, consumed, len(b), session.Abbrev(hexB, 120)))
					}
				}
			}
			if n < 12 && len(b) <= 400 {
				for k := 0; k < len(b); k++ {
					cut := val.Hex(b[:k])
					ru := do(fmt.Sprintf("unmarshal %d %s", di, cut))
					t.add("truncations unmarshal " + ru.Class)
					if ru.Class != "err" {
						t.fail("trunc-unmarshal-"+ru.Class, fmt.Sprintf("%s: unmarshal of %s cut at %d -> %s", ctx, session.Abbrev(hexB, 120), k, ru.Short()))
					}
					rd := do(fmt.Sprintf("decode %d all %s", di, cut))
					t.add("truncations decode " + rd.Class)
					if rd.Class != "err" {
						t.fail("trunc-decode-"+rd.Class, fmt.Sprintf("%s: decode of %s cut at %d -> %s", ctx, session.Abbrev(hexB, 120), k, rd.Short()))
					}
				}
			}
		}
	}
	t.mu.Lock()
	t.counts["driver restarts (crash/timeout)"] += s.P.Restarts
	t.mu.Unlock()
}
