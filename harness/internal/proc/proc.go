// Package proc runs a subprocess that speaks the line protocol of PROTOCOL.md.
package proc

import (
	"bufio"
	"fmt"
	"io"
	"os/exec"
	"strings"
	"sync"
	"syscall"
	"time"
)

// Proc is a line-protocol subprocess with automatic restart.
type Proc struct {
	Name     string
	Argv     []string
	Env      []string // nil = inherit
	Dir      string
	Timeout  time.Duration // per request
	Restarts int           // number of restarts so far
	Stderr   func() string // tail of stderr of the current/last child

	mu       sync.Mutex
	preamble []string
	cmd      *exec.Cmd
	stdin    io.WriteCloser
	lines    chan string
	errTail  *tailBuf
}

// tailBuf keeps the first bytes of stderr (where the Go runtime names a fatal error).
type tailBuf struct {
	mu sync.Mutex
	b  []byte
}

func (t *tailBuf) Write(p []byte) (int, error) {
	t.mu.Lock()
	defer t.mu.Unlock()
	if room := 4096 - len(t.b); room > 0 {
		if room > len(p) {
			room = len(p)
		}
		t.b = append(t.b, p[:room]...)
	}
	return len(p), nil
}

func (t *tailBuf) String() string {
	t.mu.Lock()
	defer t.mu.Unlock()
	return string(t.b)
}

// Driver returns a Proc for an emitted driver binary: started under `ulimit -v` and
// GOMEMLIMIT so that a runaway allocation only kills that child.
func Driver(bin string, env []string, timeout time.Duration) *Proc {
	e := append(append([]string(nil), env...), "GOMEMLIMIT=1GiB", "GOMAXPROCS=2")
	return &Proc{
		Name:    bin,
		Argv:    []string{"sh", "-c", `ulimit -v 1500000; exec "$0"`, bin},
		Env:     e,
		Timeout: timeout,
	}
}

// Command returns a Proc for an arbitrary command (the model).
func Command(argv []string, env []string, timeout time.Duration) *Proc {
	return &Proc{Name: argv[0], Argv: argv, Env: env, Timeout: timeout}
}

func (p *Proc) start() error {
	cmd := exec.Command(p.Argv[0], p.Argv[1:]...)
	cmd.Env = p.Env
	cmd.Dir = p.Dir
	cmd.SysProcAttr = &syscall.SysProcAttr{Setpgid: true}
	stdin, err := cmd.StdinPipe()
	if err != nil {
		return err
	}
	stdout, err := cmd.StdoutPipe()
	if err != nil {
		return err
	}
	p.errTail = &tailBuf{}
	cmd.Stderr = p.errTail
	if err := cmd.Start(); err != nil {
		return err
	}
	lines := make(chan string, 1)
	go func() {
		r := bufio.NewReaderSize(stdout, 1<<20)
		for {
			l, err := r.ReadString('\n')
			if err != nil {
				close(lines)
				return
			}
			lines <- strings.TrimRight(l, "\r\n")
		}
	}()
	p.cmd, p.stdin, p.lines = cmd, stdin, lines
	tail := p.errTail
	p.Stderr = tail.String
	return nil
}

func (p *Proc) kill() {
	if p.cmd == nil {
		return
	}
	if p.cmd.Process != nil {
		_ = syscall.Kill(-p.cmd.Process.Pid, syscall.SIGKILL)
		_ = p.cmd.Process.Kill()
	}
	_ = p.stdin.Close()
	go func(c *exec.Cmd, lines chan string) {
		for range lines {
		}
		_ = c.Wait()
	}(p.cmd, p.lines)
	p.cmd, p.stdin, p.lines = nil, nil, nil
}

// exchange sends one line and waits for one response line. class is "", "crash" or "timeout".
func (p *Proc) exchange(line string) (resp string, class string) {
	if _, err := io.WriteString(p.stdin, line+"\n"); err != nil {
		return "", "crash"
	}
	timer := time.NewTimer(p.Timeout)
	defer timer.Stop()
	select {
	case l, ok := <-p.lines:
		if !ok {
			return "", "crash"
		}
		return l, ""
	case <-timer.C:
		return "", "timeout"
	}
}

func (p *Proc) ensure() error {
	if p.cmd != nil {
		return nil
	}
	if err := p.start(); err != nil {
		return fmt.Errorf("proc %s: start: %w", p.Name, err)
	}
	for _, l := range p.preamble {
		resp, class := p.exchange(l)
		if class != "" || resp != "ok" {
			tail := p.errTail.String()
			p.kill()
			return fmt.Errorf("proc %s: preamble line %q answered %q %s (stderr: %s)", p.Name, l, resp, class, tail)
		}
	}
	return nil
}

// SetPreamble stores the environment lines; they are sent now and again after every restart.
// Every preamble line must be answered `ok`.
func (p *Proc) SetPreamble(lines []string) error {
	p.mu.Lock()
	defer p.mu.Unlock()
	p.preamble = append([]string(nil), lines...)
	p.kill()
	return p.ensure()
}

// Send performs one request. A crash or timeout of the child is reported as the response
// ("crash <stderr tail>" / "timeout") with a nil error, after the child has been killed and
// restarted (environment re-sent). An error means the child cannot be (re)started.
func (p *Proc) Send(line string) (string, error) {
	p.mu.Lock()
	defer p.mu.Unlock()
	if err := p.ensure(); err != nil {
		return "", err
	}
	resp, class := p.exchange(line)
	if class == "" {
		return resp, nil
	}
	out := class
	if class == "crash" {
		// give the child a moment to finish writing its last words
		time.Sleep(20 * time.Millisecond)
		out = "crash " + summarize(p.errTail.String())
	}
	p.kill()
	p.Restarts++
	// the binary may be momentarily missing (e.g. the model being rebuilt): retry for a while
	var err error
	for try := 0; try < 8; try++ {
		if err = p.ensure(); err == nil {
			return out, nil
		}
		time.Sleep(500 * time.Millisecond)
	}
	return out, err
}

func summarize(stderr string) string {
	for _, l := range strings.Split(stderr, "\n") {
		l = strings.TrimSpace(l)
		if l != "" {
			if len(l) > 160 {
				l = l[:160]
			}
			return strings.ReplaceAll(l, " ", "_")
		}
	}
	return "no_stderr"
}

// Close kills the child.
func (p *Proc) Close() {
	p.mu.Lock()
	defer p.mu.Unlock()
	p.kill()
}
