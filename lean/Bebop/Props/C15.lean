/-
  C15  Constants, enum members and opcodes carry the schema's values into Go.

  Integer literals are copied into the Go source as text and are read by the parser with Go's strconv
  (base 0); [flags] expressions are evaluated at parse time in the enum's width-specific integer type;
  opcodes are integers or four ASCII characters. The theorems say that on the model these agree with the
  Spec (Bebop.Text.Grammar: `litValue`, `specEval`, `opCodeOf`), whose definitions do not mention widths.
  What a theorem cannot carry: that the Go compiler gives the copied text the same value (it is the same
  strconv / constant arithmetic, observed exactly through go/constant by the gencheck engine), floats and
  string escapes (observed), and that members are typed constants of an enum with the declared base type
  (observed through go/types).
-/
import Bebop.Proofs.Flags
import Bebop.Text.Grammar

namespace Bebop.Text

/-- Whatever Go's ParseUint (base 0) accepts of a literal without a leading zero has the Spec's value and
    fits the width. -/
theorem C15_uint_literal_value (t : Str) (bits n : Nat) (hc : CanonicalLit t) (h : parseUint t true bits = some n) :
    litValue t = some (n : Int) ∧ n < 2 ^ bits := parseUint_litValue t bits n hc h

/-- … and ParseInt, for every width, including the most negative value. -/
theorem C15_int_literal_value (t : Str) (bits : Nat) (v : Int) (hc : CanonicalLit t) (hp : NoPlus t)
    (h : parseInt t true bits = some v) :
    litValue t = some v ∧ -((2 ^ (bits - 1) : Nat) : Int) ≤ v ∧ v < ((2 ^ (bits - 1) : Nat) : Int) :=
  parseInt_litValue t bits v hc hp h

/-- Conversely every in-range literal the Spec gives a value is accepted with that value (so no legal
    decimal or hex form, positive or negative, up to the full 64-bit range, is refused or changed). -/
theorem C15_literal_accepted (t : Str) (bits : Nat) (v : Int) (hc : CanonicalLit t) (hd : HasDigits (litBody t))
    (h : litValue t = some v) :
    (inRange bits false v = true → parseInt t true bits = some v) ∧
    (litNeg t = false → inRange bits true v = true → parseUint t true bits = some v.toNat) :=
  ⟨fun hr => litValue_parseInt t bits v hc hd h hr, fun hn hr => litValue_parseUint t bits v hc hd hn h hr⟩

/-- [flags] members are the value of their expression: for each of the eight base types, every expression
    tree over | & << >>, parentheses, literals and earlier members, whenever the Spec's unbounded evaluation
    stays inside the base type at every node (and shift counts are below the width), the width-specific
    evaluator of eval_expr.go returns exactly the Spec's value. -/
theorem C15_flags_value_partial (bits : Nat) (unsigned : Bool) (hb : bits ∈ [8, 16, 32, 64])
    (opts : List EnumOption) (env : List (Str × Int)) (ha : EnvAgrees unsigned opts env)
    (e : Expr) (ho : OpsOk e) (hr : AllInRange bits unsigned env (toSpec e)) (v : Int)
    (hv : specEval env (toSpec e) = some v) : evalExpr bits unsigned opts e = some v :=
  evalExpr_eq_specEval bits unsigned hb opts env ha e ho hr v hv

/-- What lies outside the guard is rejected, not silently wrapped (after repairs f9093a2 and ca3f397):
    a shift past the width, and an intermediate value that leaves the base type. -/
theorem C15_flags_overflow_rejected :
    evalExpr 32 true [] (.bin .dblLeft (.num (strOf "1")) (.num (strOf "40"))) = none ∧
    evalExpr 8 true [] (.bin .dblRight (.paren (.bin .dblLeft (.num (strOf "255")) (.num (strOf "4")))) (.num (strOf "4"))) = none :=
  ⟨shift_guard_needed.1, inner_range_needed.1⟩

/-- Every operator tree the parser builds uses only the four operators. -/
theorem C15_parsed_expressions_wellformed (f : Nat) (toks : List Token) (e : Expr) (h : parseExpr f toks = some e) :
    OpsOk e := parseExpr_opsOk f toks e h

/-- A four-character opcode is the little-endian u32 of its bytes. -/
theorem C15_opcode_four_chars_little_endian (a b c d : Byte) :
    ofLe [a, b, c, d] = a.toNat + 256 * b.toNat + 65536 * c.toNat + 16777216 * d.toNat := by
  simp only [ofLe]; omega

/-- non-vacuity: "ABCD" is 0x44434241, and a concrete [flags] expression meets the guard -/
example : opCodeOf (some (strOf "\"ABCD\"")) = some 0x44434241 := by decide
example : litValue (strOf "-0x10") = some (-16) ∧ litValue (strOf "18446744073709551615") = some 18446744073709551615 := by decide

/-- A leading zero is read as octal by Go and has no value in the Spec: literals are guarded by `CanonicalLit`. -/
theorem C15_leading_zero_is_outside_the_spec :
    evalExpr 32 true [] (.num (strOf "010")) = some 8 ∧ litValue (strOf "010") = none := by
  refine ⟨canonical_guard_needed.1, by decide⟩

end Bebop.Text
