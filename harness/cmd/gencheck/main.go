// Command gencheck is the correspondence engine for properties C12 and C15.
//
// C12: every schema that ReadFile + Generate accept, under every option set, must be a Go source file that
// parses and type-checks (go/types with the source importer: unused variables / imports, undefined names and
// missing template entries are type errors) against the real bebop and iohelp packages of /repo, and whose
// record types implement bebop.Record.
//
// C15: the constants of the generated package (read exactly, as go/constant values, from the type-checked
// package -- no floating point printing in between) must equal the schema's: consts in every literal form,
// enum members over all base types, [flags] expressions, opcodes. The schema's values are known by
// construction (this engine's own generator builds the value first and renders a literal afterwards) and,
// for the Lean-generated stream, from the Spec (Bebop.Text.Grammar: litValue / specEval / opCodeOf).
package main

import (
	"bytes"
	"encoding/hex"
	"encoding/json"
	"flag"
	"fmt"
	"go/ast"
	"go/constant"
	"go/importer"
	"go/parser"
	"go/token"
	"go/types"
	"math"
	"math/big"
	"math/rand"
	"os"
	"path/filepath"
	"sort"
	"strconv"
	"strings"
	"time"

	"github.com/200sc/bebop"
	"verif/harness/internal/filedump"
	"verif/harness/internal/proc"
)

type failure struct {
	Property string `json:"property"`
	Kind     string `json:"kind"`
	Class    string `json:"class"`
	Stream   string `json:"stream"`
	Options  string `json:"options"`
	Text     string `json:"text"`
	TextHex  string `json:"text_hex"`
	Op       string `json:"op"`
	Expected string `json:"expected"`
	Observed string `json:"observed"`
	Model    string `json:"model"`
	Note     string `json:"note"`
}

type stat struct {
	Evaluations        int            `json:"evaluations"`
	DistinctNontrivial int            `json:"distinct_nontrivial"`
	Rule               string         `json:"rule"`
	Samples            []string       `json:"samples"`
	Distribution       map[string]int `json:"distribution"`
	FailuresTotal      int            `json:"failures_total"`
	distinct           map[string]struct{}
}

var (
	stats = map[string]*stat{}
	fails = []failure{}
	ask   func(string) string
)

func st(p string) *stat {
	s := stats[p]
	if s == nil {
		s = &stat{Distribution: map[string]int{}, distinct: map[string]struct{}{}}
		stats[p] = s
	}
	return s
}

func fail(p, kind, class, stream, opts string, text []byte, op, exp, obs, note string) {
	st(p).FailuresTotal++
	if len(fails) < 400 {
		t := text
		if len(t) > 900 {
			t = t[:900]
		}
		if len(obs) > 600 {
			obs = obs[:600]
		}
		fails = append(fails, failure{p, kind, class, stream, opts, fmt.Sprintf("%q", t), hex.EncodeToString(text), op, exp, obs, "", note})
	}
}

// ---- options ----------------------------------------------------------------------------------------

type options struct{ unsafeM, shared, tags, private, ptr bool }

func optsFromBits(m int) options {
	return options{m&1 != 0, m&2 != 0, m&4 != 0, m&8 != 0, m&16 != 0}
}
func (o options) String() string {
	return fmt.Sprintf("unsafe=%v shared=%v tags=%v private=%v ptr=%v", o.unsafeM, o.shared, o.tags, o.private, o.ptr)
}
func (o options) settings() bebop.GenerateSettings {
	return bebop.GenerateSettings{PackageName: "p", GenerateUnsafeMethods: o.unsafeM, SharedMemoryStrings: o.shared,
		GenerateFieldTags: o.tags, PrivateDefinitions: o.private, AlwaysUsePointerReceivers: o.ptr}
}

// ---- expected constants -------------------------------------------------------------------------------

type expConst struct {
	name  string // schema-level name: const name, Enum.Member, Record (opcode)
	kind  string // int | float | inf | -inf | nan | string | bool | enum | opcode
	i     *big.Int
	f     float64
	s     string
	b     bool
	base  string // enum base type
	enumT string
}

type schemaCase struct {
	stream string
	text   []byte
	exp    []expConst // nil: values are taken from the parsed File (Lean / fixture streams)
	class  string
}

func exposed(name string, private bool) string {
	if name == "" {
		return name
	}
	if private {
		return strings.ToLower(name[:1]) + name[1:]
	}
	return strings.ToUpper(name[:1]) + name[1:]
}

// expectedFromFile derives the expected constants from the parsed File (whose agreement with the Spec is
// checked separately against the Spec dump).
func expectedFromFile(f bebop.File) []expConst {
	var out []expConst
	for _, c := range f.Consts {
		e := expConst{name: c.Name}
		v := c.Value
		switch {
		case v == "math.Inf(1)":
			e.kind = "inf"
		case v == "math.Inf(-1)":
			e.kind = "-inf"
		case v == "math.NaN()":
			e.kind = "nan"
		case c.SimpleType == "bool":
			e.kind, e.b = "bool", v == "true"
		case c.SimpleType == "string" || c.SimpleType == "guid":
			e.kind = "string"
			u, err := strconv.Unquote(v)
			if err != nil {
				e.kind = "string-unquotable"
			}
			e.s = u
		case c.SimpleType == "float32" || c.SimpleType == "float64":
			e.kind = "float"
			fl, err := strconv.ParseFloat(v, 64)
			if err != nil {
				if bi, ok := new(big.Int).SetString(v, 0); ok {
					fl, _ = new(big.Float).SetInt(bi).Float64()
				}
			}
			e.f = fl
		default:
			e.kind = "int"
			bi, ok := litInt(v)
			if !ok {
				e.kind = "int-unparsable"
			}
			e.i = bi
		}
		out = append(out, e)
	}
	for _, en := range f.Enums {
		for _, o := range en.Options {
			e := expConst{name: en.Name + "_" + o.Name, kind: "enum", base: en.SimpleType, enumT: en.Name}
			if en.Unsigned {
				e.i = new(big.Int).SetUint64(o.UintValue)
			} else {
				e.i = big.NewInt(o.Value)
			}
			out = append(out, e)
		}
	}
	add := func(name string, oc uint32) {
		if oc != 0 {
			out = append(out, expConst{name: name + "OpCode", kind: "opcode", i: new(big.Int).SetUint64(uint64(oc))})
		}
	}
	for _, s := range f.Structs {
		add(s.Name, s.OpCode)
	}
	for _, m := range f.Messages {
		add(m.Name, m.OpCode)
	}
	for _, u := range f.Unions {
		add(u.Name, u.OpCode)
	}
	return out
}

// litInt: the schema language's integer literals: optional '-', decimal or 0x hex.
func litInt(s string) (*big.Int, bool) {
	neg := strings.HasPrefix(s, "-")
	body := strings.TrimPrefix(s, "-")
	bi := new(big.Int)
	var ok bool
	if strings.HasPrefix(body, "0x") || strings.HasPrefix(body, "0X") {
		_, ok = bi.SetString(body[2:], 16)
	} else {
		_, ok = bi.SetString(body, 10)
	}
	if neg {
		bi.Neg(bi)
	}
	return bi, ok
}

// ---- type checking ------------------------------------------------------------------------------------

type checker struct {
	fset *token.FileSet
	imp  types.Importer
	rec  *types.Interface
}

func newChecker(harnessDir string) (*checker, error) {
	fset := token.NewFileSet()
	old, _ := os.Getwd()
	if err := os.Chdir(harnessDir); err != nil {
		return nil, err
	}
	defer os.Chdir(old)
	imp := importer.ForCompiler(fset, "source", nil)
	pkg, err := imp.Import("github.com/200sc/bebop")
	if err != nil {
		return nil, fmt.Errorf("cannot import bebop from source: %w", err)
	}
	obj := pkg.Scope().Lookup("Record")
	if obj == nil {
		return nil, fmt.Errorf("bebop.Record not found")
	}
	iface, ok := obj.Type().Underlying().(*types.Interface)
	if !ok {
		return nil, fmt.Errorf("bebop.Record is not an interface")
	}
	return &checker{fset, imp, iface}, nil
}

type genConst struct {
	val   constant.Value
	typ   types.Type
	isVar bool
	init  string
}

func (c *checker) check(src []byte, more ...[]byte) (consts map[string]genConst, records []string, errs []string) {
	f, err := parser.ParseFile(c.fset, "gen.go", src, parser.AllErrors)
	if err != nil {
		return nil, nil, []string{"parse: " + err.Error()}
	}
	files := []*ast.File{f}
	for i, m := range more {
		mf, err := parser.ParseFile(c.fset, fmt.Sprintf("sibling%d.go", i), m, parser.AllErrors)
		if err != nil {
			return nil, nil, []string{"parse (sibling): " + err.Error()}
		}
		files = append(files, mf)
	}
	conf := types.Config{Importer: c.imp, Error: func(e error) { errs = append(errs, e.Error()) }}
	info := &types.Info{}
	pkg, _ := conf.Check("p", c.fset, files, info)
	if len(errs) > 0 || pkg == nil {
		return nil, nil, errs
	}
	consts = map[string]genConst{}
	inits := map[string]string{}
	for _, d := range f.Decls {
		gd, ok := d.(*ast.GenDecl)
		if !ok || gd.Tok != token.VAR {
			continue
		}
		for _, sp := range gd.Specs {
			vs := sp.(*ast.ValueSpec)
			for i, n := range vs.Names {
				if i < len(vs.Values) {
					var b bytes.Buffer
					start, end := c.fset.Position(vs.Values[i].Pos()).Offset, c.fset.Position(vs.Values[i].End()).Offset
					b.Write(src[start:end])
					inits[n.Name] = b.String()
				}
			}
		}
	}
	sc := pkg.Scope()
	for _, n := range sc.Names() {
		switch o := sc.Lookup(n).(type) {
		case *types.Const:
			consts[n] = genConst{val: o.Val(), typ: o.Type()}
		case *types.Var:
			if in, ok := inits[n]; ok {
				consts[n] = genConst{isVar: true, init: in, typ: o.Type()}
			}
		case *types.TypeName:
			if _, isStruct := o.Type().Underlying().(*types.Struct); isStruct {
				if !types.Implements(types.NewPointer(o.Type()), c.rec) {
					errs = append(errs, fmt.Sprintf("*%s does not implement bebop.Record", n))
				}
				records = append(records, n)
			}
		}
	}
	return consts, records, errs
}

// ---- one schema -----------------------------------------------------------------------------------------

// siblings: other schema files generated into the same package (the repository's fixtures refer to each
// other's types across files)
func runCase(c *checker, sc schemaCase, optBits []int, specDump string, siblings ...[]byte) {
	f, _, err := func() (f bebop.File, w []string, err error) {
		defer func() {
			if p := recover(); p != nil {
				err = fmt.Errorf("panic: %v", p)
			}
		}()
		return bebop.ReadFile(bytes.NewReader(sc.text))
	}()
	key := hex.EncodeToString(sc.text)
	if err != nil {
		st("C12").Distribution[sc.stream+"/rejected-by-ReadFile"]++
		if sc.exp != nil && !strings.Contains(sc.class, "string-stress") {
			// the generator only builds well-formed schemas: a rejection is a C15 failure (a legal literal form refused)
			st("C15").Evaluations++
			fail("C15", "oracle", sc.class, sc.stream, "", sc.text, "ReadFile", "accepted", "error: "+err.Error(), "a well-formed const / enum / opcode schema is rejected")
		}
		return
	}
	if specDump != "" {
		if got := filedump.File(f); got != specDump {
			fail("C15", "oracle", sc.class, sc.stream, "", sc.text, "ReadFile vs Spec", specDump, got, "the parsed File does not carry the Spec's values")
		}
	}
	exp := sc.exp
	fromFile := expectedFromFile(f)
	if exp == nil {
		exp = fromFile
	} else {
		// the parsed File itself must already carry the intended enum / opcode values
		want := map[string]*big.Int{}
		for _, e := range exp {
			if e.kind == "enum" || e.kind == "opcode" {
				want[e.name] = e.i
			}
		}
		for _, e := range fromFile {
			if w, ok := want[e.name]; ok && (e.kind == "enum" || e.kind == "opcode") && w.Cmp(e.i) != 0 {
				st("C15").Evaluations++
				fail("C15", "oracle", sc.class, sc.stream, "", sc.text, "ReadFile: value of "+e.name, w.String(), e.i.String(), "the parsed File carries a different value than the schema states")
			}
		}
	}
	for _, ob := range optBits {
		o := optsFromBits(ob)
		var out bytes.Buffer
		gerr := func() (err error) {
			defer func() {
				if p := recover(); p != nil {
					err = fmt.Errorf("panic: %v", p)
				}
			}()
			return f.Generate(&out, o.settings())
		}()
		st("C12").Evaluations++
		st("C12").distinct[key+o.String()] = struct{}{}
		if gerr != nil {
			st("C12").Distribution[sc.stream+"/rejected-by-Generate"]++
			if strings.HasPrefix(gerr.Error(), "panic") {
				fail("C12", "panic", sc.class, sc.stream, o.String(), sc.text, "Generate", "returns", gerr.Error(), "Generate panicked")
			} else if sc.exp != nil {
				st("C15").Evaluations++
				fail("C15", "oracle", sc.class, sc.stream, o.String(), sc.text, "Generate", "accepted", "error: "+gerr.Error(), "a well-formed const / enum / opcode schema is rejected")
			}
			if sc.stream == "names" {
				continue // whether a name collides can depend on the option set
			}
			return
		}
		var sibSrc [][]byte
		sibOK := true
		for _, sb := range siblings {
			sf, _, err := bebop.ReadFile(bytes.NewReader(sb))
			var so bytes.Buffer
			if err != nil || sf.Generate(&so, o.settings()) != nil {
				sibOK = false
				break
			}
			sibSrc = append(sibSrc, so.Bytes())
		}
		if !sibOK {
			continue
		}
		consts, records, errs := c.check(out.Bytes(), sibSrc...)
		st("C12").Distribution[sc.stream+"/generated"]++
		if len(errs) > 0 {
			cl := classifyGoError(errs[0])
			fail("C12", "oracle", cl, sc.stream, o.String(), sc.text, "go/types check of the generated source", "no error", strings.Join(errs[:min(len(errs), 3)], " | "), "accepted schema, generated code does not build")
			continue
		}
		_ = records
		// C15
		for _, e := range exp {
			st("C15").Evaluations++
			st("C15").distinct[key+e.name] = struct{}{}
			st("C15").Distribution[sc.stream+"/"+e.kind]++
			goName := exposed(e.name, o.private)
			g, ok := consts[goName]
			if !ok && e.kind == "enum" && strings.HasPrefix(e.name, e.enumT+"_") {
				// an unexported type whose name would be a Go keyword / predeclared identifier / imported package gets
				// an underscore appended by the generator (Len -> len_), and so do its constants (len__A)
				alt := exposed(e.enumT, o.private) + "_" + strings.TrimPrefix(e.name, e.enumT)
				if g, ok = consts[alt]; ok {
					goName = alt
				}
			}
			if !ok {
				fail("C15", "oracle", e.kind, sc.stream, o.String(), sc.text, "constant "+goName, "declared", "missing", "the schema's constant does not appear in the generated package")
				continue
			}
			bad := func(want, got string) {
				fail("C15", "oracle", e.kind, sc.stream, o.String(), sc.text, "value of "+goName, want, got, "the Go constant does not carry the schema's value")
			}
			switch e.kind {
			case "int", "enum", "opcode":
				if g.isVar || g.val.Kind() != constant.Int {
					bad(e.i.String(), fmt.Sprintf("not an integer constant (%v)", g.val))
					continue
				}
				got, _ := new(big.Int).SetString(g.val.ExactString(), 10)
				if got == nil || got.Cmp(e.i) != 0 {
					bad(e.i.String(), g.val.ExactString())
				}
				if e.kind == "enum" {
					named, isNamed := g.typ.(*types.Named)
					if !isNamed || (named.Obj().Name() != exposed(e.enumT, o.private) && named.Obj().Name() != exposed(e.enumT, o.private)+"_") {
						bad("typed constant of "+e.enumT, g.typ.String())
					} else if b, ok := named.Underlying().(*types.Basic); !ok || b.Kind() != basicKind[goBase(e.base)] {
						bad("base type "+e.base, named.Underlying().String())
					}
				}
			case "float":
				if g.isVar {
					bad(fmt.Sprint(e.f), "a variable: "+g.init)
					continue
				}
				got, _ := constant.Float64Val(constant.ToFloat(g.val))
				if got != e.f {
					bad(strconv.FormatFloat(e.f, 'g', -1, 64), g.val.ExactString())
				}
			case "inf", "-inf", "nan":
				want := map[string]string{"inf": "math.Inf(1)", "-inf": "math.Inf(-1)", "nan": "math.NaN()"}[e.kind]
				if !g.isVar || strings.ReplaceAll(g.init, " ", "") != want {
					bad("variable initialised with "+want, fmt.Sprintf("isVar=%v init=%q val=%v", g.isVar, g.init, g.val))
				}
			case "string":
				if g.isVar || g.val.Kind() != constant.String || constant.StringVal(g.val) != e.s {
					bad(strconv.Quote(e.s), fmt.Sprint(g.val))
				}
			case "bool":
				if g.isVar || g.val.Kind() != constant.Bool || constant.BoolVal(g.val) != e.b {
					bad(fmt.Sprint(e.b), fmt.Sprint(g.val))
				}
			case "string-unquotable", "int-unparsable":
				// no defined value to compare with
			default:
				bad("a value of a known kind", e.kind)
			}
		}
	}
}

var basicKind = map[string]types.BasicKind{"uint8": types.Uint8, "uint16": types.Uint16, "uint32": types.Uint32, "uint64": types.Uint64,
	"int16": types.Int16, "int32": types.Int32, "int64": types.Int64}

func goBase(b string) string {
	if b == "byte" {
		return "uint8"
	}
	return b
}

func classifyGoError(e string) string {
	switch {
	case strings.Contains(e, "declared and not used") || strings.Contains(e, "declared but not used"):
		return "unused-variable"
	case strings.Contains(e, "imported and not used"):
		return "unused-import"
	case strings.Contains(e, "undefined") || strings.Contains(e, "undeclared"):
		return "undefined-name"
	case strings.HasPrefix(e, "parse:"):
		return "syntax"
	case strings.Contains(e, "redeclared"):
		return "redeclared"
	case strings.Contains(e, "overflows") || strings.Contains(e, "cannot use") || strings.Contains(e, "truncated"):
		return "constant-type"
	}
	return "other"
}

// ---- this engine's own generator: consts, enums, [flags], opcodes in every literal form -----------------------

var intTypes = []struct {
	name     string
	bits     int
	unsigned bool
}{{"byte", 8, true}, {"uint8", 8, true}, {"uint16", 16, true}, {"uint32", 32, true}, {"uint64", 64, true},
	{"int16", 16, false}, {"int32", 32, false}, {"int64", 64, false}}

func randInRange(rng *rand.Rand, bits int, unsigned bool) *big.Int {
	lo, hi := new(big.Int), new(big.Int)
	if unsigned {
		hi.Lsh(big.NewInt(1), uint(bits)).Sub(hi, big.NewInt(1))
	} else {
		hi.Lsh(big.NewInt(1), uint(bits-1)).Sub(hi, big.NewInt(1))
		lo.Lsh(big.NewInt(1), uint(bits-1)).Neg(lo)
	}
	switch rng.Intn(6) {
	case 0:
		return lo
	case 1:
		return hi
	case 2:
		return big.NewInt(0)
	case 3:
		return big.NewInt(int64(rng.Intn(10)))
	}
	span := new(big.Int).Sub(hi, lo)
	span.Add(span, big.NewInt(1))
	r := new(big.Int).Rand(rng, span)
	return r.Add(r, lo)
}

func renderInt(rng *rand.Rand, v *big.Int) string {
	if v.Sign() >= 0 && rng.Intn(3) == 0 {
		if rng.Intn(2) == 0 {
			return "0x" + v.Text(16)
		}
		return "0x" + strings.ToUpper(v.Text(16))
	}
	return v.String()
}

var stringPieces = []string{"a", "Z", " ", "0", `\n`, `\t`, `\\`, `\"`, `\r`, "é", `\u00e9`, `\x41`, "//", "/*", "*/", ";", "{", "'", "%", "%d", "`", `\a`, "\t"}

var stressPieces = []string{`\'`, `\0`, `\q`, "\n", "\r\n", `\x4`, `\u12`, "\x00", "\xff"}

func genOwn(rng *rand.Rand, idx int) schemaCase {
	var b strings.Builder
	var exp []expConst
	class := []string{}
	nConst := rng.Intn(5)
	for i := 0; i < nConst; i++ {
		name := fmt.Sprintf("c%d_%d", idx, i)
		switch k := rng.Intn(7); k {
		case 0, 1:
			t := intTypes[rng.Intn(len(intTypes))]
			v := randInRange(rng, t.bits, t.unsigned)
			fmt.Fprintf(&b, "const %s %s = %s;\n", t.name, name, renderInt(rng, v))
			exp = append(exp, expConst{name: name, kind: "int", i: v})
			class = append(class, "const-int")
		case 2:
			ft := []string{"float32", "float64"}[rng.Intn(2)]
			switch rng.Intn(5) {
			case 0:
				lit := []string{"inf", "-inf", "nan"}[rng.Intn(3)]
				fmt.Fprintf(&b, "const %s %s = %s;\n", ft, name, lit)
				exp = append(exp, expConst{name: name, kind: lit})
			case 1:
				v := int64(rng.Intn(2000) - 1000)
				fmt.Fprintf(&b, "const %s %s = %d;\n", ft, name, v)
				exp = append(exp, expConst{name: name, kind: "float", f: float64(v)})
			default:
				v := (rng.Float64() - 0.5) * math.Pow(10, float64(rng.Intn(12)-4))
				// the schema language's float literals: digits '.' digits, optionally e<digits> (no sign)
				lit := strconv.FormatFloat(v, 'f', -1, 64)
				if rng.Intn(3) == 0 {
					lit = strconv.FormatFloat(v/1000, 'f', -1, 64)
					if !strings.Contains(lit, ".") {
						lit += ".0"
					}
					lit += "e3"
				}
				pv, _ := strconv.ParseFloat(lit, 64)
				fmt.Fprintf(&b, "const %s %s = %s;\n", ft, name, lit)
				exp = append(exp, expConst{name: name, kind: "float", f: pv})
			}
			class = append(class, "const-float")
		case 3:
			var lit strings.Builder
			lit.WriteByte('"')
			stress := rng.Intn(8) == 0
			for j := rng.Intn(6); j > 0; j-- {
				if stress && rng.Intn(2) == 0 {
					// escapes and raw bytes the tokenizer accepts inside a string literal; what they MEAN is not
					// defined by this repository, so only "the output still compiles" (C12) is checked for them
					lit.WriteString(stressPieces[rng.Intn(len(stressPieces))])
				} else {
					lit.WriteString(stringPieces[rng.Intn(len(stringPieces))])
				}
			}
			lit.WriteByte('"')
			if stress {
				class = append(class, "string-stress")
			}
			fmt.Fprintf(&b, "const string %s = %s;\n", name, lit.String())
			u, err := strconv.Unquote(lit.String())
			e := expConst{name: name, kind: "string", s: u}
			if err != nil {
				e.kind = "string-unquotable"
			}
			exp = append(exp, e)
			class = append(class, "const-string")
		case 4:
			v := rng.Intn(2) == 0
			fmt.Fprintf(&b, "const bool %s = %v;\n", name, v)
			exp = append(exp, expConst{name: name, kind: "bool", b: v})
			class = append(class, "const-bool")
		case 5:
			g := fmt.Sprintf("%08x-%04x-%04x-%04x-%012x", rng.Uint32(), rng.Intn(1<<16), rng.Intn(1<<16), rng.Intn(1<<16), rng.Int63n(1<<48))
			fmt.Fprintf(&b, "const guid %s = \"%s\";\n", name, g)
			exp = append(exp, expConst{name: name, kind: "string", s: g})
			class = append(class, "const-guid")
		default:
			// a record with an opcode
			rec := fmt.Sprintf("R%d_%d", idx, i)
			var oc uint32
			var lit string
			switch rng.Intn(3) {
			case 0:
				oc = rng.Uint32() | 1
				lit = fmt.Sprintf("0x%x", oc)
			case 1:
				oc = uint32(rng.Intn(100000) + 1)
				lit = fmt.Sprint(oc)
			default:
				chars := "ABCDEFGHIJKLMNOPQRSTUVWXYZabcdefghijklmnopqrstuvwxyz0123456789"
				var s [4]byte
				for j := range s {
					s[j] = chars[rng.Intn(len(chars))]
				}
				oc = uint32(s[0]) | uint32(s[1])<<8 | uint32(s[2])<<16 | uint32(s[3])<<24
				lit = strconv.Quote(string(s[:]))
			}
			kw := []string{"struct", "message", "union"}[rng.Intn(3)]
			body := "{\n\tint32 x;\n}"
			if kw == "message" {
				body = "{\n\t1 -> int32 x;\n}"
			} else if kw == "union" {
				body = fmt.Sprintf("{\n\t1 -> struct B%d_%d {\n\t\tint32 x;\n\t}\n}", idx, i)
			}
			fmt.Fprintf(&b, "[opcode(%s)]\n%s %s %s\n", lit, kw, rec, body)
			exp = append(exp, expConst{name: rec + "OpCode", kind: "opcode", i: new(big.Int).SetUint64(uint64(oc))})
			class = append(class, "opcode")
		}
	}
	// enums
	for i := rng.Intn(3); i > 0; i-- {
		t := intTypes[rng.Intn(len(intTypes))]
		en := fmt.Sprintf("E%d_%d", idx, i)
		flags := rng.Intn(2) == 0
		if flags {
			b.WriteString("[flags]\n")
			class = append(class, "flags")
		} else {
			class = append(class, "enum")
		}
		if t.name == "uint32" && rng.Intn(2) == 0 {
			fmt.Fprintf(&b, "enum %s {\n", en)
		} else {
			fmt.Fprintf(&b, "enum %s : %s {\n", en, t.name)
		}
		used := map[string]bool{}
		type member struct {
			name string
			v    *big.Int
		}
		var members []member
		for j := 0; j < 1+rng.Intn(5); j++ {
			mn := fmt.Sprintf("M%d", j)
			var v *big.Int
			var lit string
			if !flags {
				v = randInRange(rng, t.bits, t.unsigned)
				lit = renderInt(rng, v)
			} else {
				var ok bool
				for tries := 0; tries < 20 && !ok; tries++ {
					lit, v, ok = genExpr(rng, 1+rng.Intn(3), t.bits, t.unsigned, func() (string, *big.Int, bool) {
						if len(members) == 0 {
							return "", nil, false
						}
						m := members[rng.Intn(len(members))]
						return m.name, m.v, true
					})
				}
				if !ok {
					v = big.NewInt(int64(j))
					lit = v.String()
				}
			}
			if used[v.String()] {
				continue // enum values must be distinct
			}
			used[v.String()] = true
			members = append(members, member{mn, v})
			fmt.Fprintf(&b, "\t%s = %s;\n", mn, lit)
			exp = append(exp, expConst{name: en + "_" + mn, kind: "enum", i: v, base: t.name, enumT: en})
		}
		b.WriteString("}\n")
	}
	sort.Strings(class)
	return schemaCase{stream: "own", text: []byte(b.String()), exp: exp, class: strings.Join(uniq(class), ",")}
}

func uniq(s []string) []string {
	var o []string
	for i, x := range s {
		if i == 0 || s[i-1] != x {
			o = append(o, x)
		}
	}
	return o
}

// genExpr: a [flags] expression whose every intermediate value, evaluated in unbounded arithmetic, is a value
// of the base type (so that "the value of the expression" is unambiguous); returns its text and value.
func genExpr(rng *rand.Rand, depth, bits int, unsigned bool, ref func() (string, *big.Int, bool)) (string, *big.Int, bool) {
	inRange := func(v *big.Int) bool {
		lo, hi := new(big.Int), new(big.Int)
		if unsigned {
			hi.Lsh(big.NewInt(1), uint(bits))
		} else {
			hi.Lsh(big.NewInt(1), uint(bits-1))
			lo.Neg(hi)
		}
		return v.Cmp(lo) >= 0 && v.Cmp(hi) < 0
	}
	if depth == 0 || rng.Intn(4) == 0 {
		if rng.Intn(3) == 0 {
			if n, v, ok := ref(); ok {
				return n, v, true
			}
		}
		v := big.NewInt(int64(rng.Intn(16)))
		if rng.Intn(4) == 0 {
			v = randInRange(rng, bits, unsigned)
			if v.Sign() < 0 {
				v.Neg(v)
				if !inRange(v) {
					return "", nil, false
				}
			}
		}
		return renderInt(rng, v), v, true
	}
	if rng.Intn(5) == 0 {
		s, v, ok := genExpr(rng, depth-1, bits, unsigned, ref)
		return "(" + s + ")", v, ok
	}
	// the grammar is right-associative without precedence: lhs is an atom or a parenthesised expression
	ls, lv, ok := genExpr(rng, 0, bits, unsigned, ref)
	if !ok {
		return "", nil, false
	}
	if rng.Intn(3) == 0 {
		s, v, ok2 := genExpr(rng, depth-1, bits, unsigned, ref)
		if !ok2 {
			return "", nil, false
		}
		ls, lv = "("+s+")", v
	}
	rs, rv, ok := genExpr(rng, depth-1, bits, unsigned, ref)
	if !ok {
		return "", nil, false
	}
	op := []string{"|", "&", "<<", ">>"}[rng.Intn(4)]
	res := new(big.Int)
	switch op {
	case "|":
		if lv.Sign() < 0 || rv.Sign() < 0 {
			return "", nil, false
		}
		res.Or(lv, rv)
	case "&":
		if lv.Sign() < 0 || rv.Sign() < 0 {
			return "", nil, false
		}
		res.And(lv, rv)
	case "<<":
		if rv.Sign() < 0 || rv.Cmp(big.NewInt(int64(bits))) >= 0 || lv.Sign() < 0 {
			return "", nil, false
		}
		res.Lsh(lv, uint(rv.Int64()))
	default:
		if rv.Sign() < 0 || rv.Cmp(big.NewInt(int64(bits))) >= 0 || lv.Sign() < 0 {
			return "", nil, false
		}
		res.Rsh(lv, uint(rv.Int64()))
	}
	if !inRange(res) {
		return "", nil, false
	}
	sp := []string{" ", ""}[rng.Intn(2)]
	return ls + sp + op + sp + rs, res, true
}

// genWildExpr: a [flags] expression with NO restriction on intermediate values: overflowing shifts, shift
// counts at and beyond the width, operands at the extremes. What such an expression means is decided by
// the Lean model of eval_expr.go (which rejects everything the Spec gives no in-range value to); the real
// parser must give the same verdict and the same values.
func genWildExpr(rng *rand.Rand, depth, bits int, unsigned bool, names []string) string {
	atom := func() string {
		switch rng.Intn(6) {
		case 0:
			if len(names) > 0 {
				return names[rng.Intn(len(names))]
			}
		case 1:
			return renderInt(rng, randInRange(rng, bits, true))
		case 2:
			return fmt.Sprint([]int{bits - 1, bits, bits + 1, 63, 64, 65, 100}[rng.Intn(7)])
		case 3:
			if !unsigned {
				// negative operands: arithmetic right shifts, sign handling of << | &
				v := randInRange(rng, bits, false)
				if v.Sign() > 0 {
					v.Neg(v)
				}
				return v.String()
			}
		}
		return renderInt(rng, big.NewInt(int64(rng.Intn(300))))
	}
	if depth == 0 {
		return atom()
	}
	l := atom()
	if rng.Intn(3) == 0 {
		l = "(" + genWildExpr(rng, depth-1, bits, unsigned, names) + ")"
	}
	return l + " " + []string{"|", "&", "<<", ">>"}[rng.Intn(4)] + " " + genWildExpr(rng, depth-1, bits, unsigned, names)
}

func genWild(rng *rand.Rand, idx int) []byte {
	var b strings.Builder
	t := intTypes[rng.Intn(len(intTypes))]
	fmt.Fprintf(&b, "[flags]\nenum W%d : %s {\n", idx, t.name)
	var names []string
	for j := 0; j < 1+rng.Intn(4); j++ {
		n := fmt.Sprintf("M%d", j)
		fmt.Fprintf(&b, "\t%s = %s;\n", n, genWildExpr(rng, rng.Intn(3), t.bits, t.unsigned, names))
		names = append(names, n)
	}
	b.WriteString("}\n")
	return []byte(b.String())
}

// runWild compares the real ReadFile with the model's parse on the same text: same verdict, same File.
func runWild(text []byte) {
	st("C15").Evaluations++
	st("C15").distinct["wild"+hex.EncodeToString(text)] = struct{}{}
	f, _, err := func() (f bebop.File, w []string, err error) {
		defer func() {
			if p := recover(); p != nil {
				err = fmt.Errorf("panic: %v", p)
			}
		}()
		return bebop.ReadFile(bytes.NewReader(text))
	}()
	real := "err"
	if err == nil {
		real = "ok " + filedump.File(f)
	} else if strings.HasPrefix(err.Error(), "panic") {
		real = "panic"
	}
	h := hex.EncodeToString(text)
	m := ask("parse " + h + " 0")
	st("C15").Distribution["wild/"+strings.Fields(real)[0]]++
	if m == "declined" || strings.HasPrefix(m, "bad-op") {
		return
	}
	if m != real {
		fail("C15", "mismatch", "flags-wild", "wild", "", text, "ReadFile", abbrevS(m, 300), abbrevS(real, 300), "model and implementation disagree on a [flags] expression outside the in-range guard")
	}
}

func abbrevS(s string, n int) string {
	if len(s) > n {
		return s[:n]
	}
	return s
}

// depImporter resolves the go_package of an imported schema to the package type-checked from its own
// generated source; everything else goes to the source importer.
type depImporter struct {
	base types.Importer
	deps map[string]*types.Package
}

func (d depImporter) Import(path string) (*types.Package, error) {
	if p, ok := d.deps[path]; ok {
		return p, nil
	}
	return d.base.Import(path)
}

// checkWith type-checks one generated file as package `name` with extra importable packages.
func (c *checker) checkWith(name string, src []byte, deps map[string]*types.Package) (*types.Package, []string) {
	f, err := parser.ParseFile(c.fset, name+".go", src, parser.AllErrors)
	if err != nil {
		return nil, []string{"parse: " + err.Error()}
	}
	var errs []string
	conf := types.Config{Importer: depImporter{c.imp, deps}, Error: func(e error) { errs = append(errs, e.Error()) }}
	pkg, _ := conf.Check(name, c.fset, []*ast.File{f}, &types.Info{})
	return pkg, errs
}

// importCases: a schema split over two files. What the importing file uses from the imported one varies:
// the import list of the generated file (time, the dependency's package, iohelp ...) must follow from the
// types that are actually emitted, in both import modes.
func runImportCases(c *checker, work string, rng *rand.Rand, n int) {
	depFields := []string{"date when;", "guid id;", "Colour c;", "map[date, string] log;", "date[] times;", "string name;", "int64 n;", "map[string, Colour[]] pal;"}
	mainUses := []string{"Dep d;", "Dep[] ds;", "map[string, Dep] dm;", "Colour c;", "Colour[] cs;", "DepMsg m;", "map[guid, DepMsg] mm;"}
	for i := 0; i < n; i++ {
		dir, err := os.MkdirTemp(work, "imp")
		if err != nil {
			return
		}
		var dep, main strings.Builder
		dep.WriteString("const string go_package = \"example.com/bebopdep\";\nenum Colour : uint16 {\n\tRed = 1;\n\tBlue = 2;\n}\n")
		// constants of the imported file (C15): ordinary ones and the three that are emitted as variables
		depConsts := map[string]string{"DepCount": "int32 DepCount = 7;", "DepName": "string DepName = \"dep\";"}
		for _, c := range [][2]string{{"DepCeiling", "float64 DepCeiling = inf;"}, {"DepFloor", "float32 DepFloor = -inf;"}, {"DepUnknown", "float64 DepUnknown = nan;"}, {"DepScale", "float64 DepScale = 1.5;"}} {
			if rng.Intn(2) == 0 {
				depConsts[c[0]] = c[1]
			}
		}
		var depConstNames []string
		for k := range depConsts {
			depConstNames = append(depConstNames, k)
		}
		sort.Strings(depConstNames)
		for _, k := range depConstNames {
			dep.WriteString("const " + depConsts[k] + "\n")
		}
		dep.WriteString("struct Dep {\n")
		for k, j := 0, 1+rng.Intn(3); k < j; k++ {
			fmt.Fprintf(&dep, "\t%s\n", strings.Replace(depFields[rng.Intn(len(depFields))], ";", fmt.Sprint(k)+";", 1))
		}
		dep.WriteString("}\nmessage DepMsg {\n")
		for k, j := 0, 1+rng.Intn(2); k < j; k++ {
			fmt.Fprintf(&dep, "\t%d -> %s\n", k+1, strings.Replace(depFields[rng.Intn(len(depFields))], ";", fmt.Sprint(k)+";", 1))
		}
		dep.WriteString("}\n")
		main.WriteString("import \"./dep.bop\"\nconst string go_package = \"example.com/bebopmain\";\n")
		kind := []string{"struct", "message"}[rng.Intn(2)]
		fmt.Fprintf(&main, "%s Main {\n", kind)
		for k, j := 0, 1+rng.Intn(3); k < j; k++ {
			u := strings.Replace(mainUses[rng.Intn(len(mainUses))], ";", fmt.Sprint(k)+";", 1)
			if kind == "message" {
				fmt.Fprintf(&main, "\t%d -> %s\n", k+1, u)
			} else {
				fmt.Fprintf(&main, "\t%s\n", u)
			}
		}
		main.WriteString("}\n")
		os.WriteFile(filepath.Join(dir, "dep.bop"), []byte(dep.String()), 0o644)
		os.WriteFile(filepath.Join(dir, "main.bop"), []byte(main.String()), 0o644)
		// combined mode merges both files into one package, where two go_package constants would clash:
		// the dependency of the combined variant carries none
		os.WriteFile(filepath.Join(dir, "depc.bop"), []byte(strings.Replace(dep.String(), "const string go_package = \"example.com/bebopdep\";\n", "", 1)), 0o644)
		os.WriteFile(filepath.Join(dir, "mainc.bop"), []byte(strings.Replace(main.String(), "./dep.bop", "./depc.bop", 1)), 0o644)
		text := []byte("// main.bop\n" + main.String() + "// dep.bop\n" + dep.String())
		gen := func(file string, mode bebop.ImportGenerationMode, o options) ([]byte, error) {
			fh, err := os.Open(filepath.Join(dir, file))
			if err != nil {
				return nil, err
			}
			defer fh.Close()
			f, _, err := bebop.ReadFile(fh)
			if err != nil {
				return nil, err
			}
			st := o.settings()
			st.PackageName = ""
			st.ImportGenerationMode = mode
			var out bytes.Buffer
			err = f.Generate(&out, st)
			return out.Bytes(), err
		}
		for _, ob := range []int{0, 31, rng.Intn(32)} {
			o := optsFromBits(ob)
			if o.private {
				continue // private definitions cannot be used across packages
			}
			for _, mode := range []bebop.ImportGenerationMode{bebop.ImportGenerationModeCombined, bebop.ImportGenerationModeSeparate} {
				mname := map[bebop.ImportGenerationMode]string{bebop.ImportGenerationModeCombined: "combined", bebop.ImportGenerationModeSeparate: "separate"}[mode]
				st("C12").Evaluations++
				st("C12").distinct[hex.EncodeToString(text)+mname+o.String()] = struct{}{}
				mainFile := "main.bop"
				if mode == bebop.ImportGenerationModeCombined {
					mainFile = "mainc.bop"
				}
				src, err := gen(mainFile, mode, o)
				if err != nil {
					st("C12").Distribution["imports/"+mname+"/rejected"]++
					continue
				}
				st("C12").Distribution["imports/"+mname+"/generated"]++
				deps := map[string]*types.Package{}
				if mode == bebop.ImportGenerationModeSeparate {
					dsrc, err := gen("dep.bop", mode, o)
					if err != nil {
						continue
					}
					dp, derrs := c.checkWith("bebopdep", dsrc, nil)
					if len(derrs) > 0 {
						fail("C12", "oracle", classifyGoError(derrs[0]), "imports", o.String()+" mode="+mname, text, "go/types check of the generated dependency", "no error", strings.Join(derrs[:min(len(derrs), 3)], " | "), "accepted schema, generated code does not build")
						continue
					}
					deps["example.com/bebopdep"] = dp
				}
				mp, errs := c.checkWith("bebopmain", src, deps)
				if len(errs) > 0 {
					fail("C12", "oracle", classifyGoError(errs[0]), "imports", o.String()+" mode="+mname, text, "go/types check of the generated source", "no error", strings.Join(errs[:min(len(errs), 3)], " | "), "accepted schema with an import, generated code does not build")
					continue
				}
				// C15: every constant of the imported file is declared by the package that holds the imported definitions
				holder := mp
				if mode == bebop.ImportGenerationModeSeparate {
					holder = deps["example.com/bebopdep"]
				}
				for _, k := range depConstNames {
					st("C15").Evaluations++
					st("C15").distinct[hex.EncodeToString(text)+mname+o.String()+k] = struct{}{}
					st("C15").Distribution["imports/"+mname+"/const"]++
					if holder == nil || holder.Scope().Lookup(k) == nil {
						fail("C15", "oracle", "imported-const", "imports", o.String()+" mode="+mname, text, "constant "+k+" of the imported file", "declared in the generated package", "not declared", "a constant of an imported file is missing from the generated code")
					}
				}
			}
		}
		os.RemoveAll(dir)
	}
}

// nameCorners: small schemas whose names or strings meet what the generator itself writes.
func nameCorners() []string {
	var out []string
	for _, n := range []string{"size", "Size", "marshalBebop", "MarshalBebopTo", "unmarshalBebop", "mustUnmarshalBebop", "encodeBebop", "DecodeBebop", "opCode", "getA", "bbp", "buf", "at", "err", "r", "w", "ln1", "i1", "k1", "v1", "iohelp", "io", "bebop", "time", "string", "len", "type", "func", "range", "map", "nil", "true", "int", "byte", "error", "any", "new", "make", "copy", "panic", "init", "main", "_"} {
		out = append(out,
			"struct A {\n\tint32 "+n+";\n\tstring[] other;\n\tmap[string, int32] m;\n}\n",
			"readonly struct A {\n\tint32 "+n+";\n\tdate d;\n}\n",
			"message A {\n\t1 -> int32 "+n+";\n\t2 -> string[] other;\n}\n",
			"union U {\n\t1 -> struct A {\n\t\tint32 "+n+";\n\t}\n\t2 -> message B {\n\t\t1 -> guid "+n+";\n\t}\n}\n")
	}
	out = append(out,
		"struct A {\n\tint32 x;\n\tint32 X;\n}\n",
		"readonly struct A {\n\tint32 size;\n\tint32 Size;\n}\n",
		"message A {\n\t1 -> int32 val;\n\t2 -> string Val;\n}\n")
	for _, n := range []string{"Len", "Make", "New", "Copy", "Panic", "Print", "Cap", "Append", "Error", "String", "Type", "Func", "Nil", "True", "Int", "Any", "Bebop", "Iohelp", "Io", "Time", "Record", "Size", "Init", "Main"} {
		out = append(out,
			"struct "+n+" {\n\tint32 x;\n}\nstruct Holder {\n\t"+n+" one;\n\t"+n+"[] many;\n\tmap[string, "+n+"] byName;\n\tdate d;\n}\n",
			"message "+n+" {\n\t1 -> int32 x;\n}\nmessage Holder {\n\t1 -> "+n+" one;\n\t2 -> "+n+"[] many;\n}\n",
			"enum "+n+" {\n\tA = 1;\n}\nstruct Holder {\n\t"+n+" e;\n\t"+n+"[] es;\n}\n")
	}
	// helper names of one definition that are the names of another
	out = append(out,
		"struct A {\n\tint32 x;\n}\nstruct MakeA {\n\tA a;\n}\n",
		"struct A {\n\tint32 x;\n}\nstruct MakeAFromBytes {\n\tA a;\n}\n",
		"readonly struct A {\n\tint32 x;\n}\nstruct NewA {\n\tA a;\n}\n",
		"enum E {\n\tA = 1;\n}\nstruct E_A {\n\tE e;\n}\n",
		"const int32 A = 1;\nstruct A {\n\tint32 x;\n}\n",
		"[opcode(0x1)]\nstruct A {\n\tint32 x;\n}\nconst uint32 AOpCode = 2;\n")
	// strings that end up in generated comments, tags and literals
	for _, m := range []string{`a\nb`, `a\rb`, `say \"hi\"`, "back`quote", `*/ x /*`, `%d %s %%`, `tab\there`, ``} {
		out = append(out,
			"message A {\n\t[deprecated(\""+m+"\")]\n\t1 -> int32 x;\n}\nenum E {\n\t[deprecated(\""+m+"\")]\n\tA = 1;\n}\nstruct S {\n\t[deprecated(\""+m+"\")]\n\tint32 y;\n}\n",
			"struct A {\n\t//[tag(json:\""+m+"\")]\n\tint32 x;\n\t//[tag(db:\""+m+"\")]\n\t//[tag(other)]\n\tstring y;\n}\n",
			"const string s = \""+m+"\";\n")
	}
	return out
}

func fixtures(repo string, dirs ...string) [][]byte {
	var out [][]byte
	for _, d := range dirs {
		ents, _ := os.ReadDir(filepath.Join(repo, d))
		for _, e := range ents {
			if strings.HasSuffix(e.Name(), ".bop") {
				if b, err := os.ReadFile(filepath.Join(repo, d, e.Name())); err == nil && !bytes.Contains(b, []byte("import ")) {
					out = append(out, b)
				}
			}
		}
	}
	return out
}

func main() {
	seed := flag.Int64("seed", 1, "")
	tier := flag.String("tier", "quick", "")
	modelPath := flag.String("model", "", "")
	work := flag.String("work", "", "")
	repo := flag.String("repo", "/repo", "")
	out := flag.String("out", "", "")
	replay := flag.String("replay", "", "")
	flag.Parse()
	model := proc.Command([]string{*modelPath}, nil, 60*time.Second)
	defer model.Close()
	ask = func(l string) string {
		r, err := model.Send(l)
		if err != nil {
			fmt.Fprintln(os.Stderr, "gencheck engine: model:", err)
			os.Exit(2)
		}
		return r
	}
	wd, _ := os.Getwd()
	c, err := newChecker(wd)
	if err != nil {
		fmt.Fprintln(os.Stderr, "gencheck engine:", err)
		os.Exit(2)
	}
	allOpts := make([]int, 32)
	for i := range allOpts {
		allOpts[i] = i
	}

	if *replay != "" {
		b, _ := os.ReadFile(*replay)
		var f failure
		_ = json.Unmarshal(b, &f)
		text, _ := hex.DecodeString(f.TextHex)
		fmt.Printf("replaying %s on:\n%s\n", f.Property, text)
		if f.Stream == "wild" {
			runWild(text)
		} else {
			runCase(c, schemaCase{stream: f.Stream, text: text, class: f.Class}, allOpts, "")
		}
		for _, x := range fails {
			fmt.Printf("FAIL %s %s [%s]: %s: expected %s observed %s (%s)\n", x.Property, x.Kind, x.Options, x.Op, x.Expected, x.Observed, x.Note)
		}
		if len(fails) > 0 {
			os.Exit(1)
		}
		fmt.Println("no failure on this schema with the current tree")
		return
	}

	rng := rand.New(rand.NewSource(*seed))
	nLean, nOwn, nOpt := 60, 400, 3
	if *tier == "thorough" {
		nLean, nOwn, nOpt = 500, 4000, 8
	}
	pickOpts := func() []int {
		if nOpt >= 32 {
			return allOpts
		}
		o := []int{0, 31}
		for len(o) < nOpt+1 {
			o = append(o, rng.Intn(32))
		}
		return o
	}
	// 1. Lean-generated schemas (all constructs, random layout) with the Spec's File
	for i := 0; i < nLean; i++ {
		s := *seed*15485863 + int64(i)
		r := ask(fmt.Sprintf("gen %d %d 0", s, 1+rng.Intn(7)))
		parts := strings.SplitN(r, " ", 3)
		if len(parts) != 3 || parts[0] != "ok" {
			continue
		}
		text, _ := hex.DecodeString(strings.TrimPrefix(parts[1], "-"))
		runCase(c, schemaCase{stream: "spec", text: text, class: "spec"}, pickOpts(), parts[2])
		if i < 2 {
			st("C12").Samples = append(st("C12").Samples, fmt.Sprintf("%q", abbrev(text, 300)))
		}
	}
	// 2. the repository's fixtures
	for _, dir := range []string{"testdata/base", "testdata/incompatible"} {
		fx := fixtures(*repo, dir)
		for i, t := range fx {
			var sib [][]byte
			if dir == "testdata/base" {
				// generated into one package by the repository's own tests
				sib = append(append(sib, fx[:i]...), fx[i+1:]...)
			}
			fo := allOpts
			if *tier != "thorough" {
				fo = []int{0, 8, 31, (i * 7) % 32}
			}
			runCase(c, schemaCase{stream: "fixture", text: t, class: "fixture"}, fo, "", sib...)
		}
	}
	// 2b. names and texts that meet the generator's own identifiers and literals: fields named like generated methods,
	// fields that differ only in the case of their first letter, definitions named like Go builtins, keywords and the
	// generator's helper prefixes, tags and deprecation messages with quotes / backquotes / line breaks. Each must be
	// rejected or compile, under every option set (five of them in the quick tier).
	nameOpts := allOpts
	if *tier != "thorough" {
		nameOpts = []int{0, 4, 8, 12, 31} // none; tags; private; private + tags; all
	}
	for _, t := range nameCorners() {
		runCase(c, schemaCase{stream: "names", text: []byte(t), class: "names"}, nameOpts, "")
	}
	// 3. consts / enums / [flags] / opcodes in every literal form
	for i := 0; i < nOwn; i++ {
		sc := genOwn(rng, i)
		if len(sc.exp) == 0 {
			continue
		}
		runCase(c, sc, pickOpts()[:2], "")
		if i < 3 {
			st("C15").Samples = append(st("C15").Samples, fmt.Sprintf("%q", abbrev(sc.text, 300)))
		}
	}
	// 3b. schemas split over two files, both import modes
	nImp := 40
	if *tier == "thorough" {
		nImp = 400
	}
	if *work == "" {
		*work = os.TempDir()
	}
	os.MkdirAll(*work, 0o755)
	runImportCases(c, *work, rng, nImp)
	// 4. [flags] expressions with overflowing intermediates: real parser vs the model of eval_expr.go
	for i := 0; i < nOwn; i++ {
		runWild(genWild(rng, i))
	}
	rules := map[string]string{
		"C12": "streams: imports (a schema split over two files, what the importer uses from the imported file varies; combined and separate mode; the dependency is type-checked first and offered to the importer), spec (Lean-generated schemas, all constructs, random layout), fixture (testdata/base, testdata/incompatible without imports; all 32 option sets), own (consts / enums / flags / opcodes). Each accepted schema x option set: the generated source must parse and type-check with go/types (source importer on /repo's bebop and iohelp), and every struct type's pointer must implement bebop.Record. distinct = distinct (schema, option set)",
		"C15": "own stream: values built first (all 8 integer base types incl. extremes, hex and decimal, negative; floats in f/g/e form, integers, inf / -inf / nan; strings from escape pieces; bools; guids; [flags] expression trees to depth 3 over | & << >> with every intermediate in range; opcodes as hex / decimal / 4 characters), then rendered; the parsed File and the go/constant values of the type-checked generated package must equal them exactly; enum members must be typed constants of an enum type with the declared base type. spec stream: expected from the parsed File, whose dump must equal the Lean Spec's. wild stream: [flags] expression trees with overflowing shifts / out-of-range intermediates: real ReadFile vs the Lean model of eval_expr.go, same verdict and same File. distinct = distinct (schema, constant)",
	}
	res := map[string]interface{}{"engine": "gencheck", "seed": *seed, "tier": *tier}
	outStats := map[string]*stat{}
	for p, s := range stats {
		s.DistinctNontrivial = len(s.distinct)
		s.Rule = rules[p]
		outStats[p] = s
	}
	res["stats"] = outStats
	res["failures"] = fails
	b, _ := json.MarshalIndent(res, "", " ")
	if *out != "" {
		if err := os.WriteFile(*out, b, 0o644); err != nil {
			fmt.Fprintln(os.Stderr, err)
			os.Exit(2)
		}
	}
	for _, p := range []string{"C12", "C15"} {
		if s := stats[p]; s != nil {
			fmt.Printf("%s: evaluations=%d distinct=%d failures=%d\n", p, s.Evaluations, s.DistinctNontrivial, s.FailuresTotal)
		}
	}
}

func abbrev(b []byte, n int) []byte {
	if len(b) > n {
		return b[:n]
	}
	return b
}
