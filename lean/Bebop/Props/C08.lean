/-
  C08 — I/O failures during encode or decode always surface as errors.
-/
import Bebop.Props.C06
import Bebop.Proofs.Writer

namespace Bebop

/-- For every pattern of failing Write calls (`okAt j = false`: the j-th call of the underlying writer
    returns an error): EncodeBebop returns nil if and only if none of the calls it made failed. -/
theorem C08_encode_nil_iff_no_failure (okAt : Nat → Bool) (v : Val) :
    (encodeStream okAt v).2 = false ↔ ∀ j, j < (encodeStream okAt v).1.k → okAt j = true := by
  have h := senc_step okAt v { k := 0, err := false, out := [] }
  simp only [encodeStream]
  constructor
  · intro hnil j hj
    have herr : (senc okAt v { k := 0, err := false, out := [] }).1.err = false := by
      cases he : (senc okAt v { k := 0, err := false, out := [] }).1.err with
      | false => rfl
      | true => simp [he] at hnil
    cases hok : okAt j with
    | true => rfl
    | false =>
      have := h.errIff.mpr (Or.inr ⟨j, Nat.zero_le _, hj, hok⟩)
      rw [herr] at this; cases this
  · intro hall
    have herr : (senc okAt v { k := 0, err := false, out := [] }).1.err = false := by
      cases he : (senc okAt v { k := 0, err := false, out := [] }).1.err with
      | false => rfl
      | true =>
        rcases h.errIff.mp he with h0 | ⟨j, _, hj, hjf⟩
        · cases h0
        · rw [hall j hj] at hjf; cases hjf
    cases hr : (senc okAt v { k := 0, err := false, out := [] }).2 with
    | false => simp [herr]
    | true => have := h.retErr hr; rw [herr] at this; cases this

/-- An EncodeBebop that returns nil has written exactly the bytes of MarshalBebop. -/
theorem C08_encode_nil_wrote_everything (okAt : Nat → Bool) (v : Val)
    (hnil : (encodeStream okAt v).2 = false) :
    some (encodeStream okAt v).1.out = marshal v := by
  have h := senc_step okAt v { k := 0, err := false, out := [] }
  have herr : (senc okAt v { k := 0, err := false, out := [] }).1.err = false := by
    cases he : (senc okAt v { k := 0, err := false, out := [] }).1.err with
    | false => rfl
    | true => simp [encodeStream, he] at hnil
  rw [C02_marshal_eq_enc]
  have := h.out herr
  simpa [encodeStream] using this

/-- Reader side: whatever the byte offset `k` inside the record at which the reader fails, and whatever
    the error (EOF and I/O errors are the same to io.ReadFull: the read that hits it fails), DecodeBebop
    does not return a value. -/
theorem C08_decode_reader_failure (env : Env) (hE : EnvOk env) (n : Nat) (v : Val) (fuel : Nat)
    (h : wt env (.ref n) v) (hf : rank v < fuel + 1) (k : Nat) (hk : k < (enc v).length) :
    ∀ w c, decodeStream (fuel+1) env n ((enc v).take k) ≠ .ok w c :=
  C06_decode_prefix_not_ok env hE n v fuel h hf k hk

/-- The latch is sticky: once a read has failed nothing the decoders do clears it. -/
theorem C08_latch_sticky (env : Env) (f : Nat) (ty : Ty) (s : RState) (h : s.err = true) :
    (sdec f env ty s).2.err = true := (sdec_sticky_all env f).1 ty s h

/-- Non-vacuity: the third Write call fails → non-nil; no call fails → nil with all 94 bytes. -/
example : (encodeStream (fun j => j != 2) exVal).2 = true := by decide
example : (encodeStream (fun _ => true) exVal).2 = false ∧ (encodeStream (fun _ => true) exVal).1.out.length = 94 := by
  decide

end Bebop
