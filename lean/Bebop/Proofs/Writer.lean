/-
  Helper lemmas: EncodeBebop over an ErrorWriter.  The error latch is only ever set, every exit returns
  it (or an error a nested call returned, which implies it), and if it is still clear at the end then
  every byte of the reference encoding was accepted, in order.
-/
import Bebop.Stream
import Bebop.Proofs.Enc

namespace Bebop

/-- What a stretch of encoder code that is supposed to write `bs` does to the writer state. -/
structure Step (okAt : Nat → Bool) (bs : List Byte) (st st' : WState) (r : Bool) : Prop where
  mono : st.k ≤ st'.k
  errIff : st'.err = true ↔ (st.err = true ∨ ∃ j, st.k ≤ j ∧ j < st'.k ∧ okAt j = false)
  retErr : r = true → st'.err = true
  out : st'.err = false → st'.out = st.out ++ bs

theorem step_nil (okAt : Nat → Bool) (st : WState) : Step okAt [] st st false where
  mono := Nat.le_refl _
  errIff := by
    constructor
    · intro h; exact Or.inl h
    · rintro (h | ⟨j, h1, h2, _⟩)
      · exact h
      · omega
  retErr := by simp
  out := by simp

theorem step_write (okAt : Nat → Bool) (bs : List Byte) (st : WState) :
    Step okAt bs st (swrite okAt bs st) false := by
  unfold swrite
  by_cases h : okAt st.k = true
  · simp only [h, if_true]
    refine ⟨by simp, ?_, by simp, by simp⟩
    constructor
    · intro he; exact Or.inl he
    · rintro (he | ⟨j, h1, h2, h3⟩)
      · exact he
      · have : j = st.k := by simp at h2; omega
        subst this; simp [h] at h3
  · have h' : okAt st.k = false := by simpa using h
    simp only [h', Bool.false_eq_true, if_false]
    refine ⟨by simp, ?_, by simp, by simp⟩
    constructor
    · intro _; exact Or.inr ⟨st.k, Nat.le_refl _, by simp, h'⟩
    · intro _; rfl

/-- Sequencing, when the first part did not unwind. -/
theorem step_seq {okAt : Nat → Bool} {a b : List Byte} {st st1 st2 : WState} {r1 r2 : Bool}
    (h1 : Step okAt a st st1 r1) (h2 : Step okAt b st1 st2 r2) : Step okAt (a ++ b) st st2 r2 where
  mono := Nat.le_trans h1.mono h2.mono
  errIff := by
    rw [h2.errIff, h1.errIff]
    have m1 := h1.mono
    have m2 := h2.mono
    constructor
    · rintro ((h | ⟨j, a1, a2, a3⟩) | ⟨j, a1, a2, a3⟩)
      · exact Or.inl h
      · exact Or.inr ⟨j, a1, by omega, a3⟩
      · exact Or.inr ⟨j, by omega, a2, a3⟩
    · rintro (h | ⟨j, a1, a2, a3⟩)
      · exact Or.inl (Or.inl h)
      · by_cases hj : j < st1.k
        · exact Or.inl (Or.inr ⟨j, a1, hj, a3⟩)
        · exact Or.inr ⟨j, by omega, a2, a3⟩
  retErr := h2.retErr
  out := by
    intro he
    have he1 : st1.err = false := by
      cases hh : st1.err with
      | false => rfl
      | true =>
        have := h2.errIff.mpr (Or.inl hh)
        rw [he] at this; cases this
    rw [h2.out he, h1.out he1, List.append_assoc]

/-- Sequencing, when the first part unwound with an error: the rest is not executed. -/
theorem step_abort {okAt : Nat → Bool} {a : List Byte} (b : List Byte) {st st1 : WState}
    (h1 : Step okAt a st st1 true) : Step okAt (a ++ b) st st1 true where
  mono := h1.mono
  errIff := h1.errIff
  retErr := fun _ => h1.retErr rfl
  out := by
    intro he
    have := h1.retErr rfl
    rw [he] at this; cases this

/-- `return w.Err` at the end of a method. -/
theorem step_ret {okAt : Nat → Bool} {a : List Byte} {st st1 : WState} {r : Bool}
    (h1 : Step okAt a st st1 r) : Step okAt a st st1 (r || st1.err) where
  mono := h1.mono
  errIff := h1.errIff
  retErr := by
    intro h
    cases hr : r with
    | true => exact h1.retErr hr
    | false => simpa [hr] using h
  out := h1.out

theorem step_congr {okAt : Nat → Bool} {a b : List Byte} {st st1 : WState} {r : Bool}
    (h : a = b) (h1 : Step okAt a st st1 r) : Step okAt b st st1 r := h ▸ h1

mutual
theorem senc_step (okAt : Nat → Bool) :
    (v : Val) → ∀ st : WState, Step okAt (enc v) st (senc okAt v st).1 (senc okAt v st).2
  | .scalar w n, st => by simpa [senc, enc] using step_write okAt (leBytes w n) st
  | .str bs, st => by
      simpa [senc, enc] using step_seq (step_write okAt (leBytes 4 bs.length) st) (step_write okAt bs _)
  | .guid bs, st => by simpa [senc, enc] using step_write okAt (guidWire bs) st
  | .arr vs, st => by
      simpa [senc, enc] using step_seq (step_write okAt (leBytes 4 vs.length) st) (sencList_step okAt vs _)
  | .map kvs, st => by
      simpa [senc, enc] using step_seq (step_write okAt (leBytes 4 kvs.length) st) (sencKVs_step okAt kvs _)
  | .struct [], st => by simpa [senc, enc, encList] using step_nil okAt st
  | .struct (f :: fs), st => by
      have h := step_ret (sencList_step okAt (f :: fs) st)
      simpa [senc, enc] using h
  | .msg fs, st => by
      have hlen : vsize (.msg fs) - Facts.msgLenAdjust = (encFields fs).length + 1 := by
        simp [vsize, Facts.msgSizeBase, Facts.msgLenAdjust, length_encFields]; omega
      have h1 := step_write okAt (leBytes 4 ((encFields fs).length + 1)) st
      have h2 := sencFields_step okAt fs (swrite okAt (leBytes 4 ((encFields fs).length + 1)) st)
      simp only [senc, enc, hlen]
      cases hr : (sencFields okAt fs (swrite okAt (leBytes 4 ((encFields fs).length + 1)) st)).2 with
      | true =>
        rw [hr] at h2
        have := step_abort [0] (step_seq h1 h2)
        simpa [hr, List.append_assoc] using this
      | false =>
        rw [hr] at h2
        have h3 := step_ret (step_seq (step_seq h1 h2) (step_write okAt [0] _))
        simpa [hr, List.append_assoc] using h3
  | .union d v, st => by
      have hlen : vsize (.union d v) - Facts.unionLenAdjust = (enc v).length := by
        simp [vsize, Facts.unionSizeBase, Facts.unionLenAdjust, length_enc]
      have h1 := step_write okAt (leBytes 4 (enc v).length) st
      have h2 := step_write okAt [UInt8.ofNat d] (swrite okAt (leBytes 4 (enc v).length) st)
      have h3 := senc_step okAt v (swrite okAt [UInt8.ofNat d] (swrite okAt (leBytes 4 (enc v).length) st))
      have h4 := step_ret (step_seq (step_seq h1 h2) h3)
      simpa [senc, enc, hlen, List.append_assoc] using h4
theorem sencList_step (okAt : Nat → Bool) :
    (vs : List Val) → ∀ st : WState, Step okAt (encList vs) st (sencList okAt vs st).1 (sencList okAt vs st).2
  | [], st => by simpa [sencList, encList] using step_nil okAt st
  | v :: vs, st => by
      have h1 := senc_step okAt v st
      simp only [sencList, encList]
      cases hr : (senc okAt v st).2 with
      | true => rw [hr] at h1; simpa [hr] using step_abort (encList vs) h1
      | false => simpa [hr] using step_seq h1 (sencList_step okAt vs _)
theorem sencKVs_step (okAt : Nat → Bool) :
    (kvs : List (Val × Val)) → ∀ st : WState, Step okAt (encKVs kvs) st (sencKVs okAt kvs st).1 (sencKVs okAt kvs st).2
  | [], st => by simpa [sencKVs, encKVs] using step_nil okAt st
  | (k, v) :: kvs, st => by
      have h1 := senc_step okAt k st
      simp only [sencKVs, encKVs]
      cases hr : (senc okAt k st).2 with
      | true =>
        rw [hr] at h1
        simpa [hr, List.append_assoc] using step_abort (enc v ++ encKVs kvs) h1
      | false =>
        have h2 := senc_step okAt v (senc okAt k st).1
        cases hr2 : (senc okAt v (senc okAt k st).1).2 with
        | true =>
          rw [hr2] at h2
          simpa [hr, hr2, List.append_assoc] using step_abort (encKVs kvs) (step_seq h1 h2)
        | false =>
          simpa [hr, hr2, List.append_assoc] using step_seq (step_seq h1 h2) (sencKVs_step okAt kvs _)
theorem sencFields_step (okAt : Nat → Bool) :
    (fs : List (Nat × Val)) → ∀ st : WState, Step okAt (encFields fs) st (sencFields okAt fs st).1 (sencFields okAt fs st).2
  | [], st => by simpa [sencFields, encFields] using step_nil okAt st
  | (i, v) :: fs, st => by
      have h1 := step_write okAt [UInt8.ofNat i] st
      have h2 := senc_step okAt v (swrite okAt [UInt8.ofNat i] st)
      simp only [sencFields, encFields]
      cases hr : (senc okAt v (swrite okAt [UInt8.ofNat i] st)).2 with
      | true =>
        rw [hr] at h2
        have := step_abort (encFields fs) (step_seq h1 h2)
        simpa [hr, List.append_assoc] using this
      | false =>
        have := step_seq (step_seq h1 h2) (sencFields_step okAt fs _)
        simpa [hr, List.append_assoc] using this
end

end Bebop
