/-
  Canon/Fmt: the Format model on a token source that delivers `fileToks ss` emits `canonText ss`.
-/
import Bebop.Text.Format
import Bebop.Proofs.Canon.Parse

namespace Bebop.Text
namespace Canon

theorem nextConc_ok {tok : Token} {l : List Token} {t : TR} (h : Src (tok :: l) t) :
    ∃ t', nextConc t = (tok.concrete, t') ∧ Lex l t' ∧ t'.nextTok = tok := by
  obtain ⟨t1, hn, htok, hl⟩ := h.step
  refine ⟨t1, ?_, hl, htok⟩
  simp only [nextConc, hn, htok]

theorem takeToks2_ok (sep : List Byte) {a c : Token} {l : List Token} {t : TR} (h : Src (a :: c :: l) t)
    (acc : List Byte) :
    ∃ t', takeToks sep 2 t acc = (acc ++ sep ++ a.concrete ++ sep ++ c.concrete, t') ∧ Lex l t' ∧
      t'.nextTok = c := by
  obtain ⟨t1, h1, hl1, _⟩ := nextConc_ok h
  obtain ⟨t2, h2, hl2, htok2⟩ := nextConc_ok hl1.src
  refine ⟨t2, ?_, hl2, htok2⟩
  simp only [takeToks, h1, h2]

theorem sq_semi : sq ";" = [59] := by decide

/-- formatType on a plain type name followed by something that is not `[` -/
theorem formatType_ok (f : Nat) {nm : Token} (hnm : nm.kind = .ident) {l : List Token} {t : TR}
    (hty : t.nextTok.kind = .ident) (h : Lex (nm :: l) t) :
    ∃ t', formatType (f + 2) t = some (t.nextTok.concrete, t') ∧ Src (nm :: l) t' := by
  obtain ⟨t1, hn, htok, hl⟩ := h.src.step
  refine ⟨{ t1 with keep := true }, ?_, hl.unNext' htok⟩
  have hk1 : t1.nextTok.kind = .ident := by rw [htok, hnm]
  have hne : (TK.ident == TK.openSquare) = false := by decide
  simp only [formatType, hty, formatType.arrSuffix, hn, hk1, hne, Bool.and_false, Bool.false_eq_true, if_false]

theorem fmtLoop_ok (fuel : Nat) : ∀ (fs : List (Str × Str)) (f : Nat), 2 * fs.length + 1 ≤ f →
    ∀ (acc : List Byte) (rest : List Token) (t : TR), Src (fieldToks fs rest) t →
    ∃ t', formatStruct.loop (fuel + 2) [9] f t acc = some (acc ++ (fs.map fieldText).flatten ++ [125, 10], t') ∧
      Lex (nlTok :: rest) t'
  | [], f, hf, acc, rest, t, h => by
    obtain ⟨f, rfl⟩ : ∃ g, f = g + 1 := ⟨f - 1, by omega⟩
    simp only [fieldToks] at h
    obtain ⟨t1, hn, htok, hl⟩ := h.step
    refine ⟨t1, ?_, hl⟩
    have hk1 : t1.nextTok.kind = .closeCurly := by rw [htok]
    rw [formatStruct.loop]
    simp only [hn, htok]
    simp
  | fd :: fs, f, hf, acc, rest, t, h => by
    obtain ⟨f, rfl⟩ : ∃ g, f = g + 2 := ⟨f - 2, by simp at hf; omega⟩
    simp only [fieldToks] at h
    obtain ⟨t1, hn, htok, hl⟩ := h.step
    have hk1 : t1.nextTok.kind = .ident := by rw [htok]
    obtain ⟨t2, h2, hsrc2⟩ := formatType_ok fuel (nm := { kind := .ident, concrete := fd.2 }) rfl hk1 hl
    obtain ⟨t3, h3, hl3, _⟩ := nextConc_ok hsrc2
    obtain ⟨t4, hn4, _, hl4⟩ := hl3.src.step
    obtain ⟨t5, hn5, htok5, hl5⟩ := hl4.src.step
    have hk5 : t5.nextTok.kind = .newline := by rw [htok5]
    have hsrc5 := hl5.unNext' htok5
    obtain ⟨t6, hn6, htok6, hl6⟩ := hsrc5.step
    have hk6 : t6.nextTok.kind = .newline := by rw [htok6]
    obtain ⟨t', h7, hl7⟩ := fmtLoop_ok fuel fs f (by simp at hf; omega)
      (acc ++ fieldText fd) rest t6 hl6.src
    refine ⟨t', ?_, hl7⟩
    have hne : (TK.newline == TK.lineComment) = false := by decide
    rw [show f + 2 = (f + 1) + 1 from rfl, formatStruct.loop]
    simp only [hn, hk1, h2, h3, hn4, hn5, hk5, hne, Bool.false_eq_true, if_false]
    rw [formatStruct.loop]
    simp only [hn6, hk6]
    rw [htok, sq_semi]
    simp only [List.map_cons, List.flatten_cons, fieldText, List.append_assoc, List.cons_append,
      List.nil_append] at h7 ⊢
    exact h7

theorem formatStruct_ok (fuel : Nat) (s : CStruct) (hf : 2 * s.fields.length ≤ fuel) (rest : List Token) (t : TR)
    (htok : t.nextTok = { kind := .kStruct, concrete := kwStruct })
    (h : Lex ({ kind := .ident, concrete := s.name } :: { kind := .openCurly, concrete := [123] } ::
      { kind := .newline, concrete := [10] } :: fieldToks s.fields rest) t) :
    ∃ t', formatStruct (fuel + 2) t false [9] = some (structText s, t') ∧ Lex (nlTok :: rest) t' := by
  obtain ⟨t1, h1, hl1, _⟩ := takeToks2_ok [32] h.src ([] ++ kwStruct)
  obtain ⟨t2, hn2, htok2, hl2⟩ := hl1.src.step
  have hk2 : t2.nextTok.kind = .newline := by rw [htok2]
  obtain ⟨t', h3, hl3⟩ := fmtLoop_ok fuel s.fields (fuel + 1) (by omega)
    ([] ++ kwStruct ++ [32] ++ s.name ++ [32] ++ [123] ++ [10]) rest t2 hl2.src
  refine ⟨t', ?_, hl3⟩
  simp only [formatStruct, Bool.false_eq_true, if_false, htok, h1]
  rw [formatStruct.loop]
  simp only [hn2, hk2, h3]
  simp [structText]

theorem fmt_nl (fuel f : Nat) (out : List Byte) (nl : Bool) {rest : List Token} {t : TR}
    (h : Src (nlTok :: rest) t) :
    ∃ t', Lex rest t' ∧ formatLoop fuel (f + 1) t out false nl = formatLoop fuel f t' out false nl := by
  obtain ⟨t1, hn, htok, hl⟩ := h.step
  refine ⟨t1, hl, ?_⟩
  have hk : t1.nextTok.kind = .newline := by rw [htok]
  rw [formatLoop]
  simp only [hn, hk]

theorem fmt_end (fuel f : Nat) (out : List Byte) (ro nl : Bool) {t : TR} (h : Src [] t) :
    formatLoop fuel (f + 1) t out ro nl = some out := by
  obtain ⟨t1, hn, _, _, _⟩ := h.stop
  rw [formatLoop]
  simp only [hn]

theorem fmt_struct (fuel f : Nat) (out : List Byte) (nl : Bool) (s : CStruct) (hf : 2 * s.fields.length ≤ fuel)
    {rest : List Token} {t : TR} (h : Src (structToks s rest) t) :
    ∃ t', Lex rest t' ∧ formatLoop (fuel + 2) (f + 2) t out false nl =
      formatLoop (fuel + 2) f t' (out ++ (if nl then [10] else []) ++ structText s) false true := by
  simp only [structToks] at h
  obtain ⟨t1, hn, htok, hl⟩ := h.step
  obtain ⟨t2, h2, hl2⟩ := formatStruct_ok fuel s hf rest t1 htok hl
  obtain ⟨t3, hl3, h3⟩ := fmt_nl (fuel + 2) f (out ++ (if nl then [10] else []) ++ structText s) true hl2.src
  refine ⟨t3, hl3, ?_⟩
  have hk : t1.nextTok.kind = .kStruct := by rw [htok]
  rw [← h3, show f + 2 = (f + 1) + 1 from rfl, formatLoop]
  simp only [hn, hk, h2]

theorem fmt_tail (fuel : Nat) : ∀ (ss : List CStruct) (f : Nat) (out : List Byte) (t : TR), 3 * ss.length + 1 ≤ f →
    (∀ s ∈ ss, 2 * s.fields.length ≤ fuel) → Src (tailToks ss) t →
    formatLoop (fuel + 2) f t out false true = some (out ++ layTail canonLay ss)
  | [], f, out, t, hf, _, h => by
    obtain ⟨f, rfl⟩ : ∃ g, f = g + 1 := ⟨f - 1, by omega⟩
    rw [fmt_end _ _ _ _ _ h]; simp [layTail]
  | s :: ss, f, out, t, hf, hfu, h => by
    obtain ⟨f, rfl⟩ : ∃ g, f = g + 3 := ⟨f - 3, by simp at hf; omega⟩
    simp only [tailToks] at h
    obtain ⟨t1, hl1, h1⟩ := fmt_nl (fuel + 2) (f + 2) out true h
    obtain ⟨t2, hl2, h2⟩ := fmt_struct fuel f out true s (hfu s (List.mem_cons_self)) hl1.src
    have h3 := fmt_tail fuel ss f (out ++ (if true = true then [10] else []) ++ structText s) t2
      (by simp at hf; omega) (fun x hx => hfu x (List.mem_cons_of_mem _ hx)) hl2.src
    rw [h1, h2, h3]
    simp [layTail, canonLay_shift, layStruct_canon, canonLay]

theorem fmt_file (fuel : Nat) (ss : List CStruct) (f : Nat) (t : TR) (hf : 3 * ss.length + 1 ≤ f)
    (hfu : ∀ s ∈ ss, 2 * s.fields.length ≤ fuel) (h : Src (fileToks ss) t) :
    formatLoop (fuel + 2) f t [] false false = some (canonText ss) := by
  cases ss with
  | nil =>
    obtain ⟨f, rfl⟩ : ∃ g, f = g + 1 := ⟨f - 1, by omega⟩
    rw [fmt_end _ _ _ _ _ h]; rfl
  | cons s ss =>
    obtain ⟨f, rfl⟩ : ∃ g, f = g + 2 := ⟨f - 2, by simp at hf; omega⟩
    simp only [fileToks] at h
    obtain ⟨t2, hl2, h2⟩ := fmt_struct fuel f [] false s (hfu s (List.mem_cons_self)) h
    have h3 := fmt_tail fuel ss f ([] ++ (if false = true then [10] else []) ++ structText s) t2
      (by simp at hf; omega) (fun x hx => hfu x (List.mem_cons_of_mem _ hx)) hl2.src
    rw [h2, h3]
    simp [layTail_canon]

/-- Format emits the canonical text on every laid-out text of a well-formed schema. -/
theorem format_laidOut (ss : List CStruct) (w : CLay) (hw : LayOk w) (hs : ∀ s ∈ ss, CStructOk s) :
    format (laidOut w ss) = some (canonText ss) := by
  have hlex := lex_file ss w hw hs (mkTR (laidOut w ss)) (mkTR_ok _) rfl
  have hlen := laidOut_len ss w
  have hl2 := wt_len ss
  unfold format
  exact fmt_file (2 * (laidOut w ss).length + 2) ss (2 * (laidOut w ss).length + 4)
    (mkTR (laidOut w ss)) (by omega) (fun s hs' => by have := wt_mem hs'; omega) hlex.src

end Canon
end Bebop.Text
