/-
  C07 — Decoding arbitrary bytes never panics or runs away.

  Proved: on ANY byte string, for ANY schema, the checked byte-slice decoder does not panic (every read is
  covered by a length check, and every cursor jump `at += Size()` / `at += length prefix` stays inside
  the buffer — the invariant is that a decoder that returns a value has advanced by at least Size() of
  it, where Size() is the generated one, `gsize`, which does not count the fields marked deprecated).  The stream decoder has no unchecked access at all: every read goes through io.ReadFull, and the
  model is a total function of the stream.
  NOT proved (observed by the harness, listed findings): the memory requested by make() from an
  unchecked count, and loops whose length is a count of zero-size elements (DESIGN §8 #4, #5).
  The model is not faithful to Go for maps keyed by float32/float64 whose values are arrays, maps or
  records (Go's m[NaN] lookup); such schemas are outside this theorem's tie (DESIGN §8 #20).
-/
import Bebop.Props.C01
import Bebop.Proofs.FuelMono
import Bebop.Proofs.StreamFuelMono

namespace Bebop

/-- UnmarshalBebop never panics: any schema, any record, any bytes, any fuel. -/
theorem C07_unmarshal_never_panics (env : Env) (fuel n : Nat) (buf : List Byte) :
    unmarshal fuel env true n buf ≠ .panic := unmarshal_no_panic env fuel n buf

/-- The same for a record decoded in nested position (array element, field, map value). -/
theorem C07_nested_never_panics (env : Env) (fuel : Nat) (ty : Ty) (buf : List Byte) :
    dec fuel env true ty buf ≠ .panic := by
  have := (dec_adv_all env fuel).1 ty buf
  intro h; rw [h] at this; exact this

/-- and whenever it returns a value, the bytes it consumed cover that value's Size() — the generated
    `Size()`, `gsize env ty`, which skips deprecated fields (a decoded value may hold some: the bytes
    consumed then exceed `Size()`, they are never fewer). -/
theorem C07_advance_covers_size (env : Env) (fuel : Nat) (ty : Ty) (buf rest : List Byte) (v : Val)
    (h : dec fuel env true ty buf = .ok (v, rest)) : rest.length + gsize env ty v ≤ buf.length := by
  have := (dec_adv_all env fuel).1 ty buf
  rw [h] at this; exact this

/-- The fuel argument is an artefact of the model (Go's decoders have none): two runs that both finish
    — with a value, an error, or a panic — give the same answer, whatever fuel each was given.  So the
    theorems above, stated for any fuel, describe one function of (schema, bytes). -/
theorem C07_answer_independent_of_fuel (env : Env) (f g : Nat) (safe : Bool) (n : Nat) (buf : List Byte)
    (hf : unmarshal f env safe n buf ≠ .fuel) (hg : unmarshal g env safe n buf ≠ .fuel) :
    unmarshal f env safe n buf = unmarshal g env safe n buf := by
  rcases Nat.le_total f g with h | h
  · exact (unmarshal_fuel_mono env f g h safe n buf hf).symm
  · exact unmarshal_fuel_mono env g f h safe n buf hg

/-- and an answer reached with some fuel is the answer for every larger fuel (nested position too). -/
theorem C07_more_fuel_same_answer (env : Env) (f g : Nat) (hfg : f ≤ g) (safe : Bool) (ty : Ty)
    (buf : List Byte) (h : dec f env safe ty buf ≠ .fuel) :
    dec g env safe ty buf = dec f env safe ty buf := dec_fuel_mono env f g hfg safe ty buf h

/-- Non-vacuity: the hostile buffer below is answered at fuel 20 (and hence at every larger fuel), while
    fuel 3 is not enough — the hypothesis is needed. -/
example : (unmarshal 3 exEnv true 3 [255, 255, 255, 255, 2, 0, 0, 0, 0, 2, 255, 255, 255, 127]).isFuel = true := by
  decide
example : (unmarshal 20 exEnv true 3 [255, 255, 255, 255, 2, 0, 0, 0, 0, 2, 255, 255, 255, 127]).isFuel = false := by
  decide

/-- The same for the stream decoder (`DecodeBebop`): the model's fuel never changes an answer — a value with
    the bytes consumed, or an error with the bytes consumed — other than out-of-fuel. -/
theorem C07_stream_answer_independent_of_fuel (env : Env) (f g : Nat) (n : Nat) (data : List Byte)
    (hf : (decodeStream f env n data).isFuel = false) (hg : (decodeStream g env n data).isFuel = false) :
    decodeStream f env n data = decodeStream g env n data := by
  rcases Nat.le_total f g with h | h
  · exact (decodeStream_fuel_mono env f g h n data hf).symm
  · exact decodeStream_fuel_mono env g f h n data hg

/-- Non-vacuity: the stream decoder answers the hostile buffer at fuel 20, not at fuel 1. -/
example : (decodeStream 20 exEnv 3 [255, 255, 255, 255, 2, 0, 0, 0, 0, 2, 255, 255, 255, 127]).isFuel = false := by
  decide
example : (decodeStream 1 exEnv 3 [255, 255, 255, 255, 2, 0, 0, 0, 0, 2, 255, 255, 255, 127]).isFuel = true := by
  decide

/-- The unchecked variant is exempt; and it really does panic, e.g. on the empty buffer. -/
example : (unmarshal 5 exEnv false 0 []).isPanic = true := by decide

/-- Non-vacuity: a hostile buffer for the example schema (huge counts, lying length prefixes). -/
example : unmarshal 20 exEnv true 3 [255, 255, 255, 255, 2, 0, 0, 0, 0, 2, 255, 255, 255, 127] ≠ .panic :=
  C07_unmarshal_never_panics _ _ _ _

end Bebop
