/-
  Canon/Lexer: one-step lemmas for the tokenizer model on "clean" reader states, and the token-level
  abstraction `Lex`: `Lex l t` says that the reader state `t` delivers exactly the token list `l` through
  successive `next` calls and then ends cleanly (`next` returns false, no error, no panic, no decline).

  Everything the parser / formatter proofs of the canonical sub-language need from the byte level is
  packaged in the three constructors `LexI.ident`, `LexI.single`, `LexI.eof`.
-/
import Bebop.Text.Tokenizer

namespace Bebop.Text

/-- The bytes `findFirst` skips at the root of the token tree. -/
def isBlank (c : Byte) : Bool := c.toNat == 32 || c.toNat == 9 || c.toNat == 13

/-- A byte that continues an identifier (the test of `identLoop`). -/
def identCont (c : Byte) : Bool := isAsciiLetter c || isNumeric c || c == b '_'

/-- Identifier bytes: an ASCII letter followed by ASCII letters, digits, underscores. -/
def identBytes : List Byte → Bool
  | [] => false
  | c :: r => isAsciiLetter c && r.all identCont

/-- What may follow an identifier in the input so that `identLoop` stops right there without declining:
    the end of the input, or an ASCII byte that does not continue an identifier. -/
def idStop : List Byte → Bool
  | [] => true
  | c :: _ => decide (c.toNat < 0x80) && !identCont c

namespace Canon

def Blanks (u : List Byte) : Prop := ∀ c ∈ u, isBlank c = true

theorem Blanks.nil : Blanks [] := fun _ h => by cases h
theorem Blanks.tail {c : Byte} {u : List Byte} (h : Blanks (c :: u)) : Blanks u :=
  fun x hx => h x (List.mem_cons_of_mem _ hx)
theorem Blanks.head {c : Byte} {u : List Byte} (h : Blanks (c :: u)) : isBlank c = true :=
  h c (List.mem_cons_self)
theorem Blanks.append {u v : List Byte} (hu : Blanks u) (hv : Blanks v) : Blanks (u ++ v) := by
  intro c hc
  rcases List.mem_append.1 hc with h | h
  · exact hu c h
  · exact hv c h

theorem skips_contains (c : Byte) : Facts.tokenTreeSkips.contains c.toNat = isBlank c := by
  simp [Facts.tokenTreeSkips, isBlank, List.contains, List.elem]
  cases h1 : c.toNat == 32 <;> cases h2 : c.toNat == 9 <;> cases h3 : c.toNat == 13 <;> simp_all

/-! ### byte facts -/

theorem b_toNat_quote : (b '"').toNat = 34 := by decide
theorem b_toNat_gt : (b '>').toNat = 62 := by decide
theorem b_toNat_lt : (b '<').toNat = 60 := by decide
theorem b_toNat_slash : (b '/').toNat = 47 := by decide
theorem b_toNat_minus : (b '-').toNat = 45 := by decide
theorem b_toNat_us : (b '_').toNat = 95 := by decide

theorem beq_false_of_toNat {c d : Byte} (h : c.toNat ≠ d.toNat) : (c == d) = false := by
  cases hcd : c == d with
  | false => rfl
  | true => exact absurd (by rw [eq_of_beq hcd]) h

theorem letter_range {c : Byte} (h : isAsciiLetter c = true) :
    (0x61 ≤ c.toNat ∧ c.toNat ≤ 0x7a) ∨ (0x41 ≤ c.toNat ∧ c.toNat ≤ 0x5a) := by
  simpa [isAsciiLetter] using h

theorem sbk_letter {c : Byte} (h : isAsciiLetter c = true) : singleByteKind c = none := by
  have : Facts.tokenTreeAdds.find? (fun e => e.1 == [c.toNat]) = none := by
    have h' := letter_range h
    simp [Facts.tokenTreeAdds]
    omega
  simp [singleByteKind, this]

theorem letter_not_blank {c : Byte} (h : isAsciiLetter c = true) : isBlank c = false := by
  have h' := letter_range h
  simp [isBlank]; omega

theorem letter_not_numeric {c : Byte} (h : isAsciiLetter c = true) : isNumeric c = false := by
  have h' := letter_range h
  simp [isNumeric]; omega

theorem letter_lt {c : Byte} (h : isAsciiLetter c = true) : ¬ (c.toNat ≥ 0x80) := by
  have h' := letter_range h; omega

theorem identCont_lt {c : Byte} (h : identCont c = true) : ¬ (c.toNat ≥ 0x80) := by
  simp only [identCont, Bool.or_eq_true] at h
  rcases h with (h | h) | h
  · exact letter_lt h
  · simp [isNumeric] at h; omega
  · have := eq_of_beq h; rw [this, b_toNat_us]; omega

theorem sbk_open : singleByteKind 123 = some .openCurly := by decide
theorem sbk_close : singleByteKind 125 = some .closeCurly := by decide
theorem sbk_semi : singleByteKind 59 = some .semicolon := by decide
theorem sbk_nl : singleByteKind 10 = some .newline := by decide
theorem kw_struct : keywordKind [115, 116, 114, 117, 99, 116] = some .kStruct := by decide

/-! ### findFirst -/

theorem ff_blanks (rest : List Byte) : ∀ (u : List Byte), Blanks u → ∀ (fuel : Nat) (t : TR),
    ∃ l, findFirst (u.length + fuel) { t with inp := u ++ rest } = findFirst fuel { t with inp := rest, last := l }
  | [], _, fuel, t => ⟨t.last, by simp⟩
  | c :: u, hu, fuel, t => by
    obtain ⟨l, hl⟩ := ff_blanks rest u hu.tail fuel { t with last := some c }
    refine ⟨l, ?_⟩
    have hf : (c :: u).length + fuel = (u.length + fuel) + 1 := by simp; omega
    rw [hf]
    simp only [findFirst, readByte, List.cons_append, skips_contains, hu.head, if_true]
    exact hl

theorem ff_letter {c : Byte} (hc : isAsciiLetter c = true) (fuel : Nat) (t : TR) (rest : List Byte) :
    findFirst (fuel + 1) { t with inp := c :: rest } = ({}, .no, { t with inp := rest, last := some c }) := by
  have h' := letter_range hc
  have h1 : (c == b '"') = false := beq_false_of_toNat (by rw [b_toNat_quote]; omega)
  have h2 : (c == b '>') = false := beq_false_of_toNat (by rw [b_toNat_gt]; omega)
  have h3 : (c == b '<') = false := beq_false_of_toNat (by rw [b_toNat_lt]; omega)
  have h4 : (c == b '/') = false := beq_false_of_toNat (by rw [b_toNat_slash]; omega)
  have h5 : (c == b '-') = false := beq_false_of_toNat (by rw [b_toNat_minus]; omega)
  simp only [findFirst, readByte, skips_contains, letter_not_blank hc, sbk_letter hc, h1, h2, h3, h4, h5,
    letter_not_numeric hc, Bool.false_eq_true, if_false]

theorem ff_single {c : Byte} {k : TK} (hb : isBlank c = false) (hk : singleByteKind c = some k)
    (fuel : Nat) (t : TR) (rest : List Byte) :
    findFirst (fuel + 1) { t with inp := c :: rest } =
      ({ kind := k, concrete := [c] }, .tok, { t with inp := rest, last := some c }) := by
  simp only [findFirst, readByte, skips_contains, hb, hk, Bool.false_eq_true, if_false, simple]

theorem ff_eof (fuel : Nat) (t : TR) (hio : t.ioFail = false) :
    findFirst (fuel + 1) { t with inp := [] } = ({}, .eof, { t with inp := [] }) := by
  simp only [findFirst, readByte, hio, Bool.false_eq_true, if_false]

/-! ### identLoop -/

/-- The fields of the reader state that the canonical-language proofs track are unchanged. -/
structure Same (t t' : TR) : Prop where
  errs : t'.errs = t.errs
  pan : t'.panicked = t.panicked
  na : t'.nonAscii = t.nonAscii
  io : t'.ioFail = t.ioFail
  keep : t'.keep = t.keep

theorem identLoop_run : ∀ (s : List Byte), s.all identCont = true → ∀ (rest : List Byte), idStop rest = true →
    ∀ (fuel : Nat) (t : TR) (conc : List Byte), t.ioFail = false → s.length < fuel →
    ∃ t', identLoop fuel { t with inp := s ++ rest } conc = (true, t') ∧ Same t t' ∧ t'.inp = rest ∧
      t'.nextTok = { kind := (keywordKind (conc ++ s)).getD .ident, concrete := conc ++ s }
  | [], _, rest, hstop, fuel, t, conc, hio, hf => by
    obtain ⟨f, rfl⟩ : ∃ f, fuel = f + 1 := ⟨fuel - 1, by simp at hf; omega⟩
    cases rest with
    | nil =>
      refine ⟨?w, ?h1, ?h2, ?h3, ?h4⟩
      case h1 => simp only [identLoop, List.append_nil, hio, Bool.false_eq_true, if_false]; rfl
      case h2 => exact ⟨rfl, rfl, rfl, by simp [setNext, hio], rfl⟩
      case h3 => rfl
      case h4 => simp [setNext]
    | cons c r =>
      simp only [idStop, Bool.and_eq_true, decide_eq_true_eq, Bool.not_eq_true'] at hstop
      have hc : identCont c = false := hstop.2
      simp only [identCont] at hc
      have hlt : ¬ (c.toNat ≥ 0x80) := by omega
      refine ⟨?w', ?g1, ?g2, ?g3, ?g4⟩
      case g1 => simp only [identLoop, List.nil_append, hlt, hc, Bool.false_eq_true, if_false]; rfl
      case g2 => exact ⟨rfl, rfl, rfl, rfl, rfl⟩
      case g3 => rfl
      case g4 => simp [setNext]
  | c :: s, hs, rest, hstop, fuel, t, conc, hio, hf => by
    obtain ⟨f, rfl⟩ : ∃ f, fuel = f + 1 := ⟨fuel - 1, by simp at hf; omega⟩
    simp only [List.all_cons, Bool.and_eq_true] at hs
    have hc : identCont c = true := hs.1
    have hlt := identCont_lt hc
    simp only [identCont] at hc
    obtain ⟨t', h1, h2, h3, h4⟩ := identLoop_run s hs.2 rest hstop f { t with last := some c } (conc ++ [c]) hio
      (by simp at hf; omega)
    refine ⟨t', ?_, ⟨h2.errs, h2.pan, h2.na, h2.io, h2.keep⟩, h3, ?_⟩
    · simp only [identLoop, List.cons_append, hlt, hc, if_true, if_false]
      exact h1
    · rw [h4]; simp

/-! ### next on clean states -/

/-- A clean reader state: nothing recorded, nothing declined, the reader will end with EOF, and no token
    is held back. -/
structure Ok (t : TR) : Prop where
  errs : t.errs = []
  pan : t.panicked = false
  na : t.nonAscii = false
  io : t.ioFail = false
  keep : t.keep = false

theorem Ok.of_same {t t' : TR} (h : Ok t) (s : Same t t') : Ok t' :=
  ⟨by rw [s.errs, h.errs], by rw [s.pan, h.pan], by rw [s.na, h.na], by rw [s.io, h.io], by rw [s.keep, h.keep]⟩

theorem eta_inp (t : TR) (x : List Byte) (h : t.inp = x) : t = { t with inp := x } := by
  cases t; simp_all

theorem next_single {c : Byte} {k : TK} (hb : isBlank c = false) (hk : singleByteKind c = some k)
    {u : List Byte} (hu : Blanks u) (rest : List Byte) (t : TR) (ht : Ok t) (hi : t.inp = u ++ c :: rest) :
    ∃ t', next t = (true, t') ∧ Ok t' ∧ t'.inp = rest ∧ t'.nextTok = { kind := k, concrete := [c] } := by
  obtain ⟨l, hl⟩ := ff_blanks (c :: rest) u hu ((c :: rest).length + 1) t
  rw [← eta_inp t _ hi] at hl
  replace hl := hl.trans (ff_single hb hk _ { t with last := l } rest)
  have hfuel : t.inp.length + 1 = u.length + ((c :: rest).length + 1) := by rw [hi]; simp; omega
  refine ⟨?w, ?h1, ?h2, ?h3, ?h4⟩
  case h1 =>
    unfold next
    rw [hfuel, hl]
    simp only [ht.keep, ht.errs, Bool.false_eq_true, if_false]
    simp
    rfl
  case h2 => constructor <;> simp [setNext, ht.pan, ht.na, ht.io]
  case h3 => rfl
  case h4 => rfl

theorem ff_at_letter {u : List Byte} (hu : Blanks u) {c : Byte} (hc : isAsciiLetter c = true) (t : TR)
    (rest : List Byte) (fuel : Nat) (hf : u.length < fuel) :
    findFirst fuel { t with inp := u ++ c :: rest } = ({}, .no, { t with inp := rest, last := some c }) := by
  obtain ⟨k, rfl⟩ : ∃ k, fuel = u.length + (k + 1) := ⟨fuel - u.length - 1, by omega⟩
  obtain ⟨l, hl⟩ := ff_blanks (c :: rest) u hu (k + 1) t
  exact hl.trans (ff_letter hc k { t with last := l } rest)

theorem ff_at_eof {u : List Byte} (hu : Blanks u) (t : TR) (hio : t.ioFail = false) (fuel : Nat)
    (hf : u.length < fuel) :
    ∃ l, findFirst fuel { t with inp := u } = ({}, .eof, { t with inp := [], last := l }) := by
  obtain ⟨k, rfl⟩ : ∃ k, fuel = u.length + (k + 1) := ⟨fuel - u.length - 1, by omega⟩
  obtain ⟨l, hl⟩ := ff_blanks [] u hu (k + 1) t
  rw [List.append_nil] at hl
  exact ⟨l, hl.trans (ff_eof k { t with last := l } hio)⟩

theorem next_ident {c : Byte} (hc : isAsciiLetter c = true) {s : List Byte} (hs : s.all identCont = true)
    {rest : List Byte} (hstop : idStop rest = true) {u : List Byte} (hu : Blanks u)
    (t : TR) (ht : Ok t) (hi : t.inp = u ++ c :: (s ++ rest)) :
    ∃ t', next t = (true, t') ∧ Ok t' ∧ t'.inp = rest ∧
      t'.nextTok = { kind := (keywordKind (c :: s)).getD .ident, concrete := c :: s } := by
  obtain ⟨inp, io, last, errs, nt, lt, keep, pan, na⟩ := t
  obtain ⟨he, hp, hn, hio, hk⟩ := ht
  simp only at he hp hn hio hk hi
  subst he hp hn hio hk hi
  have hff := ff_at_letter hu hc
    { inp := [], ioFail := false, last := last, errs := [], nextTok := nt, lastTok := lt, keep := false,
      panicked := false, nonAscii := false } (s ++ rest) ((u ++ c :: (s ++ rest)).length + 1) (by simp; omega)
  obtain ⟨t', h1, h2, h3, h4⟩ := identLoop_run s hs rest hstop ((s ++ rest).length + 1)
    { inp := [], ioFail := false, last := some c, errs := [], nextTok := nt, lastTok := lt, keep := false,
      panicked := false, nonAscii := false } [c] rfl (by simp; omega)
  refine ⟨t', ?_, ?_, h3, ?_⟩
  · unfold next
    simp only [Bool.false_eq_true, if_false]
    simp only at hff
    rw [hff]
    simp [unreadByte, letter_lt hc, hc]
    simp only [List.length_append] at h1
    exact h1
  · exact ⟨by rw [h2.errs], by rw [h2.pan], by rw [h2.na], by rw [h2.io], by rw [h2.keep]⟩
  · rw [h4]; rfl

theorem next_eof {u : List Byte} (hu : Blanks u) (t : TR) (ht : Ok t) (hi : t.inp = u) :
    ∃ t', next t = (false, t') ∧ Ok t' ∧ t'.inp = [] ∧ t'.nextTok = t.nextTok := by
  obtain ⟨inp, io, last, errs, nt, lt, keep, pan, na⟩ := t
  obtain ⟨he, hp, hn, hio, hk⟩ := ht
  simp only at he hp hn hio hk hi
  subst he hp hn hio hk hi
  obtain ⟨l, hff⟩ := ff_at_eof hu
    { inp := [], ioFail := false, last := last, errs := [], nextTok := nt, lastTok := lt, keep := false,
      panicked := false, nonAscii := false } rfl (inp.length + 1) (by omega)
  refine ⟨?w, ?h1, ?h2, ?h3, ?h4⟩
  case h1 =>
    unfold next
    simp only [Bool.false_eq_true, if_false]
    simp only at hff
    rw [hff]
    simp
    rfl
  case h2 => exact ⟨rfl, rfl, rfl, rfl, rfl⟩
  case h3 => rfl
  case h4 => rfl

theorem next_of_keep' (t : TR) (h : t.keep = true) : next t = (true, { t with keep := false }) := by
  unfold next; simp [h]

/-- `next` right after `UnNext` on a state that holds no token back: the state is restored. -/
theorem next_unNext (t : TR) (h : t.keep = false) : next { t with keep := true } = (true, t) := by
  rw [next_of_keep' _ rfl]
  cases t; simp_all

/-- at the clean end of the input `next` changes nothing -/
theorem next_at_end (t : TR) (ht : Ok t) (hi : t.inp = []) : next t = (false, t) := by
  obtain ⟨inp, io, last, errs, nt, lt, keep, pan, na⟩ := t
  obtain ⟨he, hp, hn, hio, hk⟩ := ht
  simp only at he hp hn hio hk hi
  subst he hp hn hio hk hi
  unfold next
  simp [findFirst, readByte]

/-! ### the token-level view -/

/-- `Lex l t`: from the clean state `t`, successive `next` calls deliver exactly the tokens `l`, landing in
    a clean state each time, and then `next` returns false, again in a clean state. -/
def Lex : List Token → TR → Prop
  | [], t => Ok t ∧ ∃ t', next t = (false, t') ∧ Ok t' ∧ t'.inp = [] ∧ t'.nextTok = t.nextTok
  | tok :: l, t => Ok t ∧ ∃ t', next t = (true, t') ∧ t'.nextTok = tok ∧ Lex l t'

theorem Lex.ok : ∀ {l : List Token} {t : TR}, Lex l t → Ok t
  | [], _, h => h.1
  | _ :: _, _, h => h.1

/-- Every clean reader state whose remaining input is `inp` delivers the tokens `l` and ends cleanly. -/
def LexI (l : List Token) (inp : List Byte) : Prop := ∀ t, Ok t → t.inp = inp → Lex l t

theorem LexI.eof {u : List Byte} (hu : Blanks u) : LexI [] u := by
  intro t ht hi
  obtain ⟨t', h1, h2, h3, h4⟩ := next_eof hu t ht hi
  exact ⟨ht, t', h1, h2, h3, h4⟩

theorem LexI.single {c : Byte} {k : TK} (hb : isBlank c = false) (hk : singleByteKind c = some k)
    {u : List Byte} (hu : Blanks u) {l : List Token} {rest : List Byte} (hl : LexI l rest) :
    LexI ({ kind := k, concrete := [c] } :: l) (u ++ c :: rest) := by
  intro t ht hi
  obtain ⟨t', h1, h2, h3, h4⟩ := next_single hb hk hu rest t ht hi
  exact ⟨ht, t', h1, h4, hl t' h2 h3⟩

theorem LexI.ident {id : List Byte} (hid : identBytes id = true) {rest : List Byte} (hstop : idStop rest = true)
    {u : List Byte} (hu : Blanks u) {l : List Token} (hl : LexI l rest) :
    LexI ({ kind := (keywordKind id).getD .ident, concrete := id } :: l) (u ++ (id ++ rest)) := by
  intro t ht hi
  cases id with
  | nil => simp [identBytes] at hid
  | cons c s =>
    simp only [identBytes, Bool.and_eq_true] at hid
    obtain ⟨t', h1, h2, h3, h4⟩ := next_ident hid.1 hid.2 hstop hu t ht (by rw [hi]; rfl)
    exact ⟨ht, t', h1, h4, hl t' h2 h3⟩

/-- A blank, or any of the one-byte terminals, stops an identifier. -/
theorem idStop_blank {c : Byte} (h : isBlank c = true) (r : List Byte) : idStop (c :: r) = true := by
  simp only [isBlank, Bool.or_eq_true, beq_iff_eq] at h
  have hus : (b '_').toNat = 95 := b_toNat_us
  have h3 : (c == b '_') = false := beq_false_of_toNat (by omega)
  simp [idStop, identCont, isAsciiLetter, isNumeric, h3]
  omega

theorem idStop_append {u : List Byte} (hu : Blanks u) {r : List Byte} (hr : idStop r = true) :
    idStop (u ++ r) = true := by
  cases u with
  | nil => exact hr
  | cons c u => exact idStop_blank hu.head _

theorem idStop_open (r : List Byte) : idStop (123 :: r) = true := by
  show (decide ((123 : Byte).toNat < 0x80) && !identCont 123) = true; decide
theorem idStop_semi (r : List Byte) : idStop (59 :: r) = true := by
  show (decide ((59 : Byte).toNat < 0x80) && !identCont 59) = true; decide

end Canon
end Bebop.Text
