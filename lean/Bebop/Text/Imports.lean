/-
  Imports: operational model of the import handling of File.Generate (gen.go) and of
  internal/importgraph (the DFS cycle search), over an abstract file system.

  Files are numbered; file 0 is the root. `imports` of a file are the ids its import paths resolve to
  (relative to the importing file's own directory — the harness materialises real directory trees, so a
  wrong resolution shows up as a different outcome); an id ≥ the number of files is a path that does not
  exist. `pkg`: the file's go_package, `none` when it has no such const.
-/
import Bebop.Text.Ast

namespace Bebop.Text

structure SrcInfo where
  pkg : Option Nat          -- go_package (as a package id), or none
  imports : List Nat        -- resolved targets
  deriving Repr, Inhabited

abbrev FS := List SrcInfo

inductive ImpErr where
  | notFound | cycle | noPkg | validate
  deriving Repr, DecidableEq, Inhabited

/-- The worklist of Generate: `imports[i]` are (from-package, target); `imported` the files expanded so
    far in order; `edges` the AddEdge calls. One step per worklist entry. -/
def worklist (fs : FS) : Nat → List (Option Nat × Nat) → List Nat → List (Option Nat × Option Nat) →
    Except ImpErr (List Nat × List (Option Nat × Option Nat))
  | 0, _, imported, edges => .ok (imported, edges)      -- unreachable for the fuel supplied
  | _+1, [], imported, edges => .ok (imported, edges)
  | f+1, (src, tgt) :: rest, imported, edges =>
    match fs[tgt]? with
    | none => .error .notFound
    | some info =>
      let edges' := edges ++ [(src, info.pkg)]
      if imported.contains tgt then worklist fs f rest imported edges'
      else worklist fs f (rest ++ info.imports.map (fun t => (info.pkg, t))) (imported ++ [tgt]) edges'

/-- dgraph.findCycle from node `from` with recursion stack `stack` (the `visited` set is only consulted by
    FindCycle's outer loop). `none`: no cycle below; fuel bounds the recursion depth. -/
def dfs (edges : List (Option Nat × Option Nat)) : Nat → Option Nat → List (Option Nat) → Option Bool
  | 0, _, _ => none                                   -- out of fuel (depth exceeded the number of nodes)
  | f+1, node, stack =>
    let succs := (edges.filter (·.1 == node)).map (·.2)
    let stack' := node :: stack
    let rec go : List (Option Nat) → Option Bool
      | [] => some false
      | t :: ts =>
        if stack'.contains t then some true
        else
          match dfs edges f t stack' with
          | some true => some true
          | some false => go ts
          | none => none
    go succs

/-- All nodes a DFS from `node` marks visited (every node reachable from it). -/
def reach (edges : List (Option Nat × Option Nat)) : Nat → List (Option Nat) → List (Option Nat) → List (Option Nat)
  | 0, _, seen => seen
  | _+1, [], seen => seen
  | f+1, n :: todo, seen =>
    if seen.contains n then reach edges f todo seen
    else reach edges f (todo ++ (edges.filter (·.1 == n)).map (·.2)) (seen ++ [n])

def sortNodes (ns : List (Option Nat)) : List (Option Nat) :=
  -- sort.Strings over package names; package ids are assigned in name order, "" (none) first
  let key := fun (n : Option Nat) => match n with | none => 0 | some k => k + 1
  (ns.toArray.qsort (fun a b => key a < key b)).toList

/-- dgraph.FindCycle: scan the nodes that have outgoing edges in sorted order, skipping visited ones. -/
def findCycle (edges : List (Option Nat × Option Nat)) : Option Bool :=
  let nodes := sortNodes (edges.map (·.1)).eraseDups
  let depth := (edges.map (·.1) ++ edges.map (·.2)).eraseDups.length + 2
  let rec scan : List (Option Nat) → List (Option Nat) → Option Bool
    | [], _ => some false
    | n :: ns, visited =>
      if visited.contains n then scan ns visited
      else
        match dfs edges depth n [] with
        | some true => some true
        | some false => scan ns (reach edges (edges.length * edges.length + edges.length + 2) [n] visited)
        | none => none
  scan nodes []

inductive ImpOutcome where
  | ok (files : List Nat)          -- the files whose definitions end up in the output (root first)
  | err (e : ImpErr)
  | fuel
  deriving Repr, Inhabited

/-- Generate's import phase and what follows from it. `separate`: ImportGenerationModeSeparate. -/
def resolveImports (fs : FS) (separate : Bool) : ImpOutcome :=
  match fs[0]? with
  | none => .err .notFound
  | some root =>
    if root.imports.isEmpty then .ok [0]
    else
      let total := fs.foldl (fun n i => n + i.imports.length) 0 + root.imports.length + 1
      match worklist fs total (root.imports.map (fun t => (root.pkg, t))) [] [] with
      | .error e => .err e
      | .ok (imported, edges) =>
        if separate then
          match findCycle edges with
          | none => .fuel
          | some true => .err .cycle
          | some false =>
            if imported.any (fun i => (fs[i]?.bind (·.pkg)).isNone) then .err .noPkg
            else .ok (0 :: imported)
        else
          -- combined: every imported file's definitions are appended; a file appended twice (the root,
          -- reached again through a cycle) duplicates its definitions and Validate rejects
          if imported.contains 0 then .err .validate else .ok (0 :: imported)

end Bebop.Text
