/-
  Helper lemmas for schema evolution (C04): decoding under the OLDER schema `env1` what was encoded under a
  newer schema `env2` yields the value restricted to what `env1` knows.  Generalises `sdec_enc` (stream,
  unconditionally) and `dec_enc` (byte slice, under `StructsStable`).
-/
import Bebop.Evolve
import Bebop.Proofs.StreamRT
import Bebop.Proofs.Top

namespace Bebop

/-! ### The extension relation -/

theorem DefExtends.refl : (d : Def) → DefExtends d d
  | .struct _ => rfl
  | .union _ => rfl
  | .msg _ => fun _ => ⟨fun a ha => ⟨a, ha, rfl⟩, fun b hb => Or.inl ⟨b, hb, rfl⟩⟩

theorem Extends.refl : (env : Env) → Extends env env
  | [] => trivial
  | d :: env => ⟨DefExtends.refl d, Extends.refl env⟩

theorem Extends.get : (e1 e2 : Env) → Extends e1 e2 → (n : Nat) → (d2 : Def) → e2[n]? = some d2 →
    ∃ d1, e1[n]? = some d1 ∧ DefExtends d1 d2
  | [], [], _, n, d2, h => by simp at h
  | [], _ :: _, hx, _, _, _ => by simp [Extends] at hx
  | _ :: _, [], hx, _, _, _ => by simp [Extends] at hx
  | d1 :: e1, d2' :: e2, hx, 0, d2, h => by
      simp only [Extends] at hx
      simp only [List.getElem?_cons_zero, Option.some.injEq] at h
      subst h
      exact ⟨d1, by simp, hx.1⟩
  | d1 :: e1, d2' :: e2, hx, n+1, d2, h => by
      simp only [Extends] at hx
      simp only [List.getElem?_cons_succ] at h ⊢
      exact Extends.get e1 e2 hx.2 n d2 h

theorem Extends.get_struct {e1 e2 : Env} (hx : Extends e1 e2) {n : Nat} {tys : List Ty}
    (h : e2[n]? = some (.struct tys)) : e1[n]? = some (.struct tys) := by
  obtain ⟨d1, h1, hd⟩ := Extends.get e1 e2 hx n _ h
  cases d1 with
  | struct t1 => simp only [DefExtends] at hd; rw [h1, hd]
  | msg _ => simp [DefExtends] at hd
  | union _ => simp [DefExtends] at hd

theorem Extends.get_union {e1 e2 : Env} (hx : Extends e1 e2) {n : Nat} {brs : List (Nat × Nat)}
    (h : e2[n]? = some (.union brs)) : e1[n]? = some (.union brs) := by
  obtain ⟨d1, h1, hd⟩ := Extends.get e1 e2 hx n _ h
  cases d1 with
  | struct _ => simp [DefExtends] at hd
  | msg _ => simp [DefExtends] at hd
  | union b1 => simp only [DefExtends] at hd; rw [h1, hd]

theorem Extends.get_msg {e1 e2 : Env} (hx : Extends e1 e2) {n : Nat} {f2 : List MsgField}
    (h : e2[n]? = some (.msg f2)) : ∃ f1, e1[n]? = some (.msg f1) ∧ DefExtends (.msg f1) (.msg f2) := by
  obtain ⟨d1, h1, hd⟩ := Extends.get e1 e2 hx n _ h
  cases d1 with
  | struct _ => simp [DefExtends] at hd
  | msg f1 => exact ⟨f1, h1, hd⟩
  | union _ => simp [DefExtends] at hd

theorem find_none_of_lt (fds : List MsgField) (i : Nat) (h : ∀ a ∈ fds, a.idx < i) :
    fds.find? (fun fd => fd.idx == i) = none := by
  rw [List.find?_eq_none]
  intro a ha
  have := h a ha
  simp; omega

/-- What the decoder needs of `DefExtends` at a field the sender transmitted: either the reader knows the
    index, with the same type, or the index is above everything the reader knows. -/
theorem DefExtends.at_field {f1 f2 : List MsgField} (hd : DefExtends (.msg f1) (.msg f2)) {i : Nat} {b : MsgField}
    (hb : f2.find? (fun fd => fd.idx == i) = some b) :
    (∃ a, f1.find? (fun fd => fd.idx == i) = some a ∧ a.ty = b.ty) ∨
    (f1.find? (fun fd => fd.idx == i) = none ∧ ∀ a ∈ f1, a.idx < i) := by
  rcases (hd i).2 b hb with h | h
  · exact Or.inl h
  · exact Or.inr ⟨find_none_of_lt f1 i h, h⟩

/-- The membership formulation implies the lookup formulation. -/
theorem DefExtends.msg_of_mem {f1 f2 : List MsgField} (h : MsgExtendsMem f1 f2) :
    DefExtends (.msg f1) (.msg f2) := by
  obtain ⟨hu1, hu2, hold, hnew⟩ := h
  intro i
  constructor
  · intro a ha
    have hai : a.idx = i := find_msgField f1 i a ha
    have ham : a ∈ f1 := List.mem_of_find?_eq_some ha
    obtain ⟨b, hb, hbi, hbt⟩ := hold a ham
    cases hf : f2.find? (fun fd => fd.idx == i) with
    | none =>
      rw [List.find?_eq_none] at hf
      have := hf b hb
      simp [hbi, hai] at this
    | some b' =>
      have hb'i : b'.idx = i := find_msgField f2 i b' hf
      have hb'm : b' ∈ f2 := List.mem_of_find?_eq_some hf
      exact ⟨b', rfl, by rw [hu2 b' hb'm b hb (by omega), hbt]⟩
  · intro b hb
    have hbi : b.idx = i := find_msgField f2 i b hb
    have hbm : b ∈ f2 := List.mem_of_find?_eq_some hb
    rcases hnew b hbm with ⟨a, ha, hai, hat⟩ | h
    · left
      cases hf : f1.find? (fun fd => fd.idx == i) with
      | none =>
        rw [List.find?_eq_none] at hf
        have := hf a ha
        simp [hbi, hai] at this
      | some a' =>
        have ha'i : a'.idx = i := find_msgField f1 i a' hf
        have ha'm : a' ∈ f1 := List.mem_of_find?_eq_some hf
        exact ⟨a', rfl, by rw [hu1 a' ha'm a ha (by omega), hat]⟩
    · right
      intro a ha
      have := h a ha
      omega

/-! ### Restriction -/

theorem wtMsg_lo (env : Env) (fds : List MsgField) :
    (fs : List (Nat × Val)) → ∀ lo, wtMsg env fds lo fs → ∀ p ∈ fs, lo < p.1
  | [], _, _, p, hp => by simp at hp
  | (i, v) :: fs, lo, h, p, hp => by
      simp only [wtMsg] at h
      rcases List.mem_cons.mp hp with rfl | hp
      · exact h.1
      · have := wtMsg_lo env fds fs i h.2.2.2 p hp
        omega

theorem restrictFields_nil (env1 : Env) (fds : List MsgField) :
    (fs : List (Nat × Val)) → (∀ p ∈ fs, fds.find? (fun fd => fd.idx == p.1) = none) →
      restrictFields env1 fds fs = []
  | [], _ => by simp [restrictFields]
  | (i, v) :: fs, h => by
      have h1 := h (i, v) (by simp)
      simp only at h1
      simp only [restrictFields, h1]
      exact restrictFields_nil env1 fds fs (fun p hp => h p (by simp [hp]))

/-- Once an index above everything the reader knows has been seen, nothing that follows is kept. -/
theorem restrictFields_above (env1 env2 : Env) (f1 f2 : List MsgField) (i : Nat) (v : Val) (fs : List (Nat × Val))
    (lo : Nat) (hw : wtMsg env2 f2 lo ((i, v) :: fs)) (hi : ∀ a ∈ f1, a.idx < i) :
    restrictFields env1 f1 ((i, v) :: fs) = [] := by
  apply restrictFields_nil
  intro p hp
  apply find_none_of_lt
  intro a ha
  have h1 := hi a ha
  rcases List.mem_cons.mp hp with rfl | hp
  · exact h1
  · simp only [wtMsg] at hw
    have := wtMsg_lo env2 f2 fs i hw.2.2.2 p hp
    omega

mutual
/-- Restriction never grows `Size()`. -/
theorem vsize_restrict_le (env1 : Env) : (v : Val) → ∀ ty, vsize (restrict env1 ty v) ≤ vsize v
  | .scalar _ _, _ => by simp [restrict]
  | .str _, _ => by simp [restrict]
  | .guid _, _ => by simp [restrict]
  | .arr vs, ty => by
      cases ty with
      | arr t => simp only [restrict, vsize]; have := vsizeList_restrict_le env1 vs t; omega
      | _ => simp [restrict]
  | .map kvs, ty => by
      cases ty with
      | map k t => simp only [restrict, vsize]; have := vsizeKVs_restrict_le env1 kvs t; omega
      | _ => simp [restrict]
  | .struct fs, ty => by
      simp only [restrict]
      split
      · split
        · simp only [vsize]; exact vsizeStruct_restrict_le env1 fs _
        · exact Nat.le_refl _
      · exact Nat.le_refl _
  | .msg fs, ty => by
      simp only [restrict]
      split
      · split
        · simp only [vsize]; have := vsizeFields_restrict_le env1 fs ‹_›; omega
        · exact Nat.le_refl _
      · exact Nat.le_refl _
  | .union d v, ty => by
      simp only [restrict]
      split
      · split
        · split
          · simp only [vsize]; have := vsize_restrict_le env1 v (.ref ‹_›); omega
          · exact Nat.le_refl _
        · exact Nat.le_refl _
      · exact Nat.le_refl _
theorem vsizeList_restrict_le (env1 : Env) : (vs : List Val) → ∀ t, vsizeList (restrictList env1 t vs) ≤ vsizeList vs
  | [], _ => by simp [restrictList]
  | v :: vs, t => by
      simp only [restrictList, vsizeList]
      have := vsize_restrict_le env1 v t
      have := vsizeList_restrict_le env1 vs t
      omega
theorem vsizeKVs_restrict_le (env1 : Env) : (kvs : List (Val × Val)) → ∀ t, vsizeKVs (restrictKVs env1 t kvs) ≤ vsizeKVs kvs
  | [], _ => by simp [restrictKVs]
  | (k, v) :: kvs, t => by
      simp only [restrictKVs, vsizeKVs]
      have := vsize_restrict_le env1 v t
      have := vsizeKVs_restrict_le env1 kvs t
      omega
theorem vsizeStruct_restrict_le (env1 : Env) : (vs : List Val) → ∀ tys, vsizeList (restrictStruct env1 tys vs) ≤ vsizeList vs
  | [], tys => by cases tys <;> simp [restrictStruct]
  | v :: vs, [] => by simp [restrictStruct]
  | v :: vs, t :: tys => by
      simp only [restrictStruct, vsizeList]
      have := vsize_restrict_le env1 v t
      have := vsizeStruct_restrict_le env1 vs tys
      omega
theorem vsizeFields_restrict_le (env1 : Env) : (fs : List (Nat × Val)) → ∀ fds, vsizeFields (restrictFields env1 fds fs) ≤ vsizeFields fs
  | [], _ => by simp [restrictFields]
  | (i, v) :: fs, fds => by
      have h2 := vsizeFields_restrict_le env1 fs fds
      simp only [restrictFields]
      split
      · simp only [vsizeFields]
        have := vsize_restrict_le env1 v ‹MsgField›.ty
        omega
      · simp only [vsizeFields]; omega
end

/-- Map keys are primitives: restriction leaves them alone. -/
theorem restrict_key (env1 env : Env) (k : Ty) (hk : isKeyTy k = true) : (a : Val) → wt env k a → restrict env1 k a = a
  | .scalar _ _, _ => by simp [restrict]
  | .str _, _ => by simp [restrict]
  | .guid _, _ => by simp [restrict]
  | .arr _, h => by simp only [wt] at h; obtain ⟨_, rfl, _⟩ := h; simp [isKeyTy] at hk
  | .map _, h => by simp only [wt] at h; obtain ⟨_, _, rfl, _⟩ := h; simp [isKeyTy] at hk
  | .struct _, h => by simp only [wt] at h; obtain ⟨_, _, rfl, _⟩ := h; simp [isKeyTy] at hk
  | .msg _, h => by simp only [wt] at h; obtain ⟨_, _, rfl, _⟩ := h; simp [isKeyTy] at hk
  | .union _ _, h => by simp only [wt] at h; obtain ⟨_, _, _, rfl, _⟩ := h; simp [isKeyTy] at hk

theorem stable_key (env1 env : Env) (k : Ty) (hk : isKeyTy k = true) : (a : Val) → wt env k a → StructsStable env1 k a
  | .scalar _ _, _ => by simp [StructsStable]
  | .str _, _ => by simp [StructsStable]
  | .guid _, _ => by simp [StructsStable]
  | .arr _, h => by simp only [wt] at h; obtain ⟨_, rfl, _⟩ := h; simp [isKeyTy] at hk
  | .map _, h => by simp only [wt] at h; obtain ⟨_, _, rfl, _⟩ := h; simp [isKeyTy] at hk
  | .struct _, h => by simp only [wt] at h; obtain ⟨_, _, rfl, _⟩ := h; simp [isKeyTy] at hk
  | .msg _, h => by simp only [wt] at h; obtain ⟨_, _, rfl, _⟩ := h; simp [isKeyTy] at hk
  | .union _ _, h => by simp only [wt] at h; obtain ⟨_, _, _, rfl, _⟩ := h; simp [isKeyTy] at hk

/-! ### Stream path -/

/-- With the innermost limited reader ending exactly where `bs` ends, what is left after `k` bytes is
    exactly the rest of `bs`. -/
theorem avail_consume_of_limit (s : RState) (bs : List Byte) (ls : List Nat) (k : Nat)
    (hr : Reads s bs) (hl : s.limits = bs.length :: ls) (hk : k ≤ bs.length) :
    (s.consume k).avail = bs.length - k := by
  obtain ⟨_, ⟨rest, hd⟩, hlim⟩ := hr
  unfold RState.avail
  apply Nat.le_antisymm
  · apply foldl_min_le_mem
    simp [RState.consume, hl]
  · apply le_foldl_min
    · simp [RState.consume, hd]; omega
    · intro l hl'
      simp only [RState.consume, List.mem_map] at hl'
      obtain ⟨l0, hl0, rfl⟩ := hl'
      have := hlim l0 hl0
      omega

/-- `Drain` from anywhere inside the message body reads to exactly the end of the message. -/
theorem sleave_drain (v : Val) (s : RState) (bs : List Byte) (ls : List Nat) (k : Nat)
    (hr : Reads s bs) (hl : s.limits = bs.length :: ls) (hk : k ≤ bs.length) :
    sleave v (s.consume k) = sleave v (s.consume bs.length) := by
  have h1 : sdrain (s.consume k) = s.consume bs.length := by
    simp only [sdrain, avail_consume_of_limit s bs ls k hr hl hk, consume_consume]
    congr 1; omega
  have h2 : sdrain (s.consume bs.length) = s.consume bs.length := by
    simp only [sdrain, avail_consume_of_limit s bs ls bs.length hr hl (Nat.le_refl _), consume_consume]
    congr 1; omega
  simp only [sleave, h1, h2]

mutual
/-- The stream decoder of the older schema returns the restriction of what the newer schema encoded, and
    consumes exactly the encoding. No guard. -/
theorem sdec_evo (env1 env2 : Env) (hE1 : EnvOk env1) (hx : Extends env1 env2) :
    (v : Val) → ∀ (ty : Ty) (f : Nat) (s : RState), wt env2 ty v → rank v < f → Reads s (enc v) →
      sdec f env1 ty s = (.val (restrict env1 ty v), s.consume (enc v).length)
  | .scalar w n, ty, f, s, h, hf, hr => by
      match f, hf with
      | f+1, _ =>
      simp only [wt] at h
      obtain ⟨hn, h⟩ := h
      simp only [enc] at hr
      have hs := sread_reads' s w (leBytes w n) (by simp) hr
      rcases h with h | h | h | h | h
      · obtain ⟨h, _⟩ := h; subst h; simp [sdec, enc, restrict, hs, ofLe_leBytes w n hn]
      · obtain ⟨rfl, rfl, h1⟩ := h
        have : n = 0 ∨ n = 1 := by omega
        rcases this with rfl | rfl <;> simp [sdec, enc, restrict, Facts.szBool, hs, ofLe_leBytes 1 _ hn]
      · obtain ⟨rfl, rfl⟩ := h; simp [sdec, enc, restrict, Facts.szFloat32, hs, ofLe_leBytes 4 n hn]
      · obtain ⟨rfl, rfl⟩ := h; simp [sdec, enc, restrict, Facts.szFloat64, hs, ofLe_leBytes 8 n hn]
      · obtain ⟨rfl, rfl, hd⟩ := h
        simp [sdec, enc, restrict, Facts.szDate, hs, ofLe_leBytes 8 n hn, dateNorm_of_ok n hd]
  | .str bs, ty, f, s, h, hf, hr => by
      match f, hf with
      | f+1, _ =>
      simp only [wt] at h
      obtain ⟨rfl, hl⟩ := h
      simp only [enc] at hr
      obtain ⟨h1, h2⟩ := hr.split
      simp only [length_leBytes] at h2
      simp [sdec, enc, restrict, sreadU32_reads s bs.length hl h1, sread_reads _ bs h2, consume_consume]
  | .guid bs, ty, f, s, h, hf, hr => by
      match f, hf with
      | f+1, _ =>
      simp only [wt] at h
      obtain ⟨rfl, hl⟩ := h
      simp only [enc] at hr
      simp [sdec, enc, restrict, Facts.szGuid, sread_reads' s 16 (guidWire bs) (by simp) hr, guidRead_guidWire bs hl]
  | .arr vs, ty, f, s, h, hf, hr => by
      match f, hf with
      | f+1, hf =>
      simp only [wt] at h
      obtain ⟨t, rfl, hl, hw, hp⟩ := h
      simp only [rank] at hf
      have hf' : rankList vs < f := by omega
      simp only [enc] at hr
      obtain ⟨h1, h2⟩ := hr.split
      simp only [length_leBytes] at h2
      simp only [sdec, sreadU32_reads s vs.length hl h1, sdecN_evo env1 env2 hE1 hx vs t f _ hw hp hf' h2, enc,
        restrict, consume_consume, List.length_append, length_leBytes]
  | .map kvs, ty, f, s, h, hf, hr => by
      match f, hf with
      | f+1, hf =>
      simp only [wt] at h
      obtain ⟨k, t, rfl, hkt, hl, hw, hd⟩ := h
      simp only [rank] at hf
      have hf' : rankKVs kvs < f := by omega
      simp only [enc] at hr
      obtain ⟨h1, h2⟩ := hr.split
      simp only [length_leBytes] at h2
      simp only [sdec, sreadU32_reads s kvs.length hl h1,
        sdecEntries_evo env1 env2 hE1 hx kvs k t f _ [] hkt hw hd (by simp) hf' h2, enc, restrict, List.nil_append,
        consume_consume, List.length_append, length_leBytes]
  | .struct fs, ty, f, s, h, hf, hr => by
      match f, hf with
      | 0, hf => simp [rank] at hf
      | 1, hf => simp [rank] at hf
      | f+2, hf =>
      simp only [wt] at h
      obtain ⟨n, tys, rfl, hn, hw⟩ := h
      have hn1 := hx.get_struct hn
      simp only [rank] at hf
      have hf' : rankList fs < f := by omega
      simp only [enc] at hr
      have he : (s.consume (encList fs).length).err = false := by simp [RState.consume, hr.1]
      cases tys with
      | nil =>
        cases fs with
        | nil => simp [sdec, sdecRecord, hn1, enc, encList, restrict, restrictStruct, consume_zero]
        | cons _ _ => simp [wtStruct] at hw
      | cons t tys =>
        simp only [sdec, sdecRecord, hn1, sdecFields_evo env1 env2 hE1 hx fs (t :: tys) f s hw hf' hr, he, enc,
          restrict]
        simp
  | .msg fs, ty, f, s, h, hf, hr => by
      match f, hf with
      | 0, hf => simp [rank] at hf
      | 1, hf => simp [rank] at hf
      | f+2, hf =>
      simp only [wt] at h
      obtain ⟨n, fds2, rfl, hn, hw, hsz⟩ := h
      obtain ⟨fds, hn1, hd⟩ := hx.get_msg hn
      simp only [rank] at hf
      have hf' : rankFields fs < f := by omega
      have hok : DefOk (.msg fds) := hE1 _ (List.mem_of_getElem? hn1)
      have hlen : (encFields fs).length + 1 < 2^32 := by rw [length_encFields]; exact hsz
      have henc : enc (.msg fs) = leBytes 4 ((encFields fs).length + 1) ++ (encFields fs ++ [0]) := by
        simp [enc]
      rw [henc] at hr ⊢
      obtain ⟨h1, h2⟩ := hr.split
      simp only [length_leBytes] at h2
      simp only [sdec, sdecRecord, hn1, restrict, sreadU32_reads s _ hlen h1, Facts.msgLimitExtra, Nat.add_zero]
      -- the limited reader is installed
      have h3 : Reads { (s.consume 4) with limits := ((encFields fs).length + 1) :: (s.consume 4).limits }
          (encFields fs ++ [0]) := by
        obtain ⟨he, hd, hl⟩ := h2
        refine ⟨he, hd, fun l hl' => ?_⟩
        rcases List.mem_cons.mp hl' with rfl | hl'
        · simp
        · exact hl l hl'
      have hav := h3.le_avail
      have hfl := length_le_encFields fs
      rw [sdecMsgLoop_evo env1 env2 hE1 hx fs fds fds2 f _ 0 [] _ (s.consume 4).limits hok hd hw (by simp) hf' h3 rfl
        (by simp only [List.length_append, List.length_singleton] at hav; omega)]
      have he : (s.consume 4).err = false := h2.1
      have := sleave_exact (.msg (restrictFields env1 fds fs)) (s.consume 4) ((encFields fs).length + 1) he
      simp only [List.length_append, List.length_singleton, length_leBytes, List.nil_append] at this ⊢
      rw [this, consume_consume]
  | .union d v, ty, f, s, h, hf, hr => by
      match f, hf with
      | 0, hf => simp [rank] at hf
      | 1, hf => simp [rank] at hf
      | f+2, hf =>
      simp only [wt] at h
      obtain ⟨n, brs, m, rfl, hn, hd, hm, hw, hsz⟩ := h
      have hn1 := hx.get_union hn
      simp only [rank] at hf
      have hf' : rank v < f := by omega
      have hlen : (enc v).length < 2^32 := by rw [length_enc]; exact hsz
      have henc : enc (.union d v) = leBytes 4 (enc v).length ++ ([UInt8.ofNat d] ++ enc v) := by
        simp [enc]
      rw [henc] at hr ⊢
      obtain ⟨h1, h2⟩ := hr.split
      simp only [length_leBytes] at h2
      simp only [sdec, sdecRecord, hn1, restrict, hm, sreadU32_reads s _ hlen h1]
      have h3 : Reads { (s.consume 4) with limits := ((enc v).length + Facts.unionLimitExtra) :: (s.consume 4).limits }
          ([UInt8.ofNat d] ++ enc v) := by
        obtain ⟨he, hd, hl⟩ := h2
        refine ⟨he, hd, fun l hl' => ?_⟩
        rcases List.mem_cons.mp hl' with rfl | hl'
        · simp [Facts.unionLimitExtra]
        · exact hl l hl'
      obtain ⟨h4, h5⟩ := h3.split
      simp only [sreadByte_reads _ _ h4, toNat_ofNat_lt d hd, hm]
      simp only [List.length_singleton] at h5
      rw [sdec_evo env1 env2 hE1 hx v (.ref m) f _ hw hf' h5]
      have he : (s.consume 4).err = false := h2.1
      have := sleave_exact (.union d (restrict env1 (.ref m) v)) (s.consume 4) ((enc v).length + Facts.unionLimitExtra) he
      simp only [consume_consume, Facts.unionLimitExtra] at this ⊢
      rw [show 1 + (enc v).length = (enc v).length + 1 by omega, this]
      simp only [List.length_append, length_leBytes, List.length_singleton]
      congr 2; omega

theorem sdecN_evo (env1 env2 : Env) (hE1 : EnvOk env1) (hx : Extends env1 env2) :
    (vs : List Val) → ∀ (t : Ty) (f : Nat) (s : RState), wtList env2 t vs → Progress vs → rankList vs < f →
      Reads s (encList vs) →
      sdecN (sdec f env1 t) vs.length s = (.val (restrictList env1 t vs), s.consume (encList vs).length)
  | [], _, _, s, _, _, _, _ => by simp [sdecN, encList, restrictList, consume_zero]
  | v :: vs, t, f, s, h, hp, hf, hr => by
      simp only [wtList] at h
      simp only [rankList] at hf
      have h1 : rank v < f := by omega
      have h2 : rankList vs < f := by omega
      simp only [encList] at hr
      obtain ⟨hr1, hr2⟩ := hr.split
      have hg : ¬ ((s.consume (enc v).length).data.length = s.data.length ∧ loopSlack ≤ vs.length) := by
        intro ⟨hl, hs⟩
        have := hr1.data_length
        exact hp.head_guard ⟨by omega, hs⟩
      simp only [List.length_cons, sdecN, sdec_evo env1 env2 hE1 hx v t f s h.1 h1 hr1, hg, if_false,
        sdecN_evo env1 env2 hE1 hx vs t f _ h.2 hp.tail h2 hr2, consume_consume, encList, restrictList,
        List.length_append]

theorem sdecEntries_evo (env1 env2 : Env) (hE1 : EnvOk env1) (hx : Extends env1 env2) :
    (kvs : List (Val × Val)) → ∀ (k t : Ty) (f : Nat) (s : RState) (acc : List (Val × Val)),
      isKeyTy k = true → wtKVs env2 k t kvs → keysDistinct k kvs → (∀ a ∈ acc, ∀ kv ∈ kvs, keyEq k a.1 kv.1 = false) →
      rankKVs kvs < f → Reads s (encKVs kvs) →
      sdecEntries k (sdec f env1 k) (sdec f env1 t) kvs.length s acc
        = (.val (acc ++ restrictKVs env1 t kvs), s.consume (encKVs kvs).length)
  | [], _, _, _, s, _, _, _, _, _, _, _ => by simp [sdecEntries, encKVs, restrictKVs, consume_zero]
  | (a, b) :: kvs, k, t, f, s, acc, hkt, h, hd, hacc, hf, hr => by
      simp only [wtKVs] at h
      simp only [keysDistinct] at hd
      simp only [rankKVs] at hf
      have h1 : rank a < f := by omega
      have h2 : rank b < f := by omega
      have h3 : rankKVs kvs < f := by omega
      have hfresh : ∀ x ∈ acc, keyEq k x.1 a = false := fun x hx => hacc x hx (a, b) (by simp)
      have hacc' : ∀ x ∈ acc ++ [(a, restrict env1 t b)], ∀ kv ∈ kvs, keyEq k x.1 kv.1 = false := by
        intro x hx kv hkv
        rcases List.mem_append.mp hx with hx | hx
        · exact hacc x hx kv (by simp [hkv])
        · simp at hx; subst hx; exact hd.1 kv hkv
      simp only [encKVs, List.append_assoc] at hr
      obtain ⟨hr1, hr23⟩ := hr.split
      obtain ⟨hr2, hr3⟩ := hr23.split
      have hg : ¬ (((s.consume (enc a).length).consume (enc b).length).data.length = s.data.length ∧
          loopSlack ≤ kvs.length) := by
        intro ⟨hl, _⟩
        have e1 := hr1.data_length
        have e2 := hr2.data_length
        have := key_enc_pos env2 k hkt a h.1
        omega
      simp only [List.length_cons, sdecEntries, sdec_evo env1 env2 hE1 hx a k f s h.1 h1 hr1,
        restrict_key env1 env2 k hkt a h.1,
        sdec_evo env1 env2 hE1 hx b t f _ h.2.1 h2 hr2, mapInsert_fresh k a _ acc hfresh, hg, if_false]
      rw [sdecEntries_evo env1 env2 hE1 hx kvs k t f _ (acc ++ [(a, restrict env1 t b)]) hkt h.2.2 hd.2 hacc' h3 hr3]
      simp only [consume_consume, encKVs, restrictKVs, List.length_append, List.append_assoc, List.singleton_append,
        Nat.add_assoc]

theorem sdecFields_evo (env1 env2 : Env) (hE1 : EnvOk env1) (hx : Extends env1 env2) :
    (fs : List Val) → ∀ (tys : List Ty) (f : Nat) (s : RState), wtStruct env2 tys fs → rankList fs < f →
      Reads s (encList fs) →
      sdecFields (sdec f env1) tys s = (.val (restrictStruct env1 tys fs), s.consume (encList fs).length)
  | [], [], _, s, _, _, _ => by simp [sdecFields, encList, restrictStruct, consume_zero]
  | [], _ :: _, _, _, h, _, _ => by simp [wtStruct] at h
  | _ :: _, [], _, _, h, _, _ => by simp [wtStruct] at h
  | v :: vs, t :: tys, f, s, h, hf, hr => by
      simp only [wtStruct] at h
      simp only [rankList] at hf
      have h1 : rank v < f := by omega
      have h2 : rankList vs < f := by omega
      simp only [encList] at hr
      obtain ⟨hr1, hr2⟩ := hr.split
      simp only [sdecFields, sdec_evo env1 env2 hE1 hx v t f s h.1 h1 hr1,
        sdecFields_evo env1 env2 hE1 hx vs tys f _ h.2 h2 hr2, consume_consume, encList, restrictStruct,
        List.length_append]

/-- The message loop: known fields are decoded; at the first index the reader does not know — which is
    above every index it knows, so nothing it knows can follow — `Drain` reads to exactly the end of the
    message, which is where the innermost limited reader ends. -/
theorem sdecMsgLoop_evo (env1 env2 : Env) (hE1 : EnvOk env1) (hx : Extends env1 env2) :
    (fs : List (Nat × Val)) → ∀ (fds fds2 : List MsgField) (f : Nat) (s : RState) (lo : Nat)
      (acc : List (Nat × Val)) (n : Nat) (ls : List Nat), DefOk (.msg fds) → DefExtends (.msg fds) (.msg fds2) →
      wtMsg env2 fds2 lo fs → (∀ a ∈ acc, a.1 ≤ lo) →
      rankFields fs < f → Reads s (encFields fs ++ [0]) → s.limits = ((encFields fs).length + 1) :: ls →
      fs.length < n →
      sdecMsgLoop (sdec f env1) fds n s acc
        = sleave (.msg (acc ++ restrictFields env1 fds fs)) (s.consume ((encFields fs).length + 1))
  | [], fds, fds2, f, s, lo, acc, n, ls, hok, _, _, _, _, hr, _, hn => by
      match n, hn with
      | n+1, _ =>
      have : fds.find? (fun fd => fd.idx == 0) = none := by
        rw [List.find?_eq_none]
        intro fd hfd
        have := (hok fd hfd).1
        simp; omega
      simp only [encFields, List.nil_append] at hr
      simp [sdecMsgLoop, sreadByte_reads s 0 hr, this, encFields, restrictFields]
  | (i, v) :: fs, fds, fds2, f, s, lo, acc, n, ls, hok, hd, h, hacc, hf, hr, hlim, hn => by
      match n, hn with
      | n+1, hn =>
      have hwhole := h
      simp only [wtMsg] at h
      obtain ⟨hlo, hi, ⟨fd2, hfd2, _, hwv⟩, hrest⟩ := h
      simp only [rankFields] at hf
      have h1 : rank v < f := by omega
      have h2 : rankFields fs < f := by omega
      simp only [List.length_cons] at hn
      have henc : encFields ((i, v) :: fs) ++ [0] = [UInt8.ofNat i] ++ (enc v ++ (encFields fs ++ [0])) := by
        simp [encFields]
      have hrw := hr
      rw [henc] at hr
      obtain ⟨hr1, hr23⟩ := hr.split
      obtain ⟨hr2, hr3⟩ := hr23.split
      simp only [List.length_singleton] at hr2 hr3
      rcases hd.at_field hfd2 with ⟨fd, hfd, hty⟩ | ⟨hnone, habove⟩
      · -- the reader knows the field
        have hidx : fd.idx = i := find_msgField fds i fd hfd
        have hacc1 : ∀ a ∈ acc, a.1 < i := fun a ha => by have := hacc a ha; omega
        have hacc' : ∀ a ∈ acc ++ [(i, restrict env1 fd.ty v)], a.1 ≤ i := by
          intro a ha
          rcases List.mem_append.mp ha with ha | ha
          · have := hacc1 a ha; omega
          · simp at ha; subst ha; simp
        rw [← hty] at hwv
        have hlim' : ((s.consume 1).consume (enc v).length).limits
            = ((encFields fs).length + 1) :: (ls.map (· - 1)).map (· - (enc v).length) := by
          simp only [RState.consume, hlim, List.map_cons, encFields, List.length_cons, List.length_append]
          congr 1; omega
        simp only [sdecMsgLoop, sreadByte_reads s _ hr1, toNat_ofNat_lt i hi, hfd,
          sdec_evo env1 env2 hE1 hx v fd.ty f _ hwv h1 hr2, hidx, msgSet_fresh i _ acc hacc1]
        rw [sdecMsgLoop_evo env1 env2 hE1 hx fs fds fds2 f _ i (acc ++ [(i, restrict env1 fd.ty v)]) n _ hok hd hrest
          hacc' h2 hr3 hlim' (by omega)]
        simp only [consume_consume, encFields, restrictFields, hfd, List.length_cons, List.length_append,
          List.append_assoc, List.singleton_append]
        congr 2; omega
      · -- first unknown index: drain to the end of the message
        have hnil := restrictFields_above env1 env2 fds fds2 i v fs lo hwhole habove
        have hlim2 : s.limits = (encFields ((i, v) :: fs) ++ [0]).length :: ls := by
          rw [hlim]; simp
        have := sleave_drain (.msg acc) s (encFields ((i, v) :: fs) ++ [0]) ls 1 hrw hlim2 (by simp)
        simp only [sdecMsgLoop, sreadByte_reads s _ hr1, toNat_ofNat_lt i hi, hnone, hnil, List.append_nil]
        rw [this]
        simp
end

/-! ### Byte-slice path -/

/-- The reader's `Size()` of what it decodes never exceeds the bytes on the wire: restriction only drops
    fields, and `Size()` only skips some. -/
theorem gsize_restrict_le (env1 : Env) (v : Val) (ty : Ty) : gsize env1 ty (restrict env1 ty v) ≤ vsize v :=
  Nat.le_trans (gsize_le_vsize env1 _ ty) (vsize_restrict_le env1 v ty)

/-- A struct decoded as the MEMBER of a union (or anywhere its remaining buffer is discarded): once its
    fields are decoded, the only use of its `Size()` is the bounds check of the slice expression, and that
    holds because the reader's `Size()` never exceeds the bytes on the wire (`gsize_restrict_le`).  Where
    the cursor ends up is of no concern. -/
theorem dec_struct_discard (env1 : Env) (safe : Bool) (f m : Nat) (tys : List Ty) (fs : List Val) (rest : List Byte)
    (hn1 : env1[m]? = some (.struct tys))
    (hfields : decFields (dec f env1 safe) tys (encList fs ++ rest) = .ok (restrictStruct env1 tys fs, rest)) :
    ∃ r, dec (f+1) env1 safe (.ref m) (enc (.struct fs) ++ rest) = .ok (restrict env1 (.ref m) (.struct fs), r) := by
  have hle : gsize env1 (.ref m) (.struct (restrictStruct env1 tys fs)) ≤ (encList fs ++ rest).length := by
    have h1 := gsize_restrict_le env1 (.struct fs) (.ref m)
    simp only [restrict, hn1] at h1
    have h2 : vsize (.struct fs) = (encList fs).length := by simp [vsize, length_encList]
    rw [List.length_append]; omega
  refine ⟨(encList fs ++ rest).drop (gsize env1 (.ref m) (.struct (restrictStruct env1 tys fs))), ?_⟩
  simp only [dec, hn1, enc, restrict, hfields, Res.ok_bind, hle, if_true, Res.pure_eq]

mutual
/-- The byte-slice decoders (checked and unchecked) of the older schema return the restriction and stop
    exactly at the end of the encoding, provided nested structs keep their size (`StructsStable`).  A struct
    that is the member of a union need not: the cursor behind the member is discarded (`dec_struct_discard`). -/
theorem dec_evo (env1 env2 : Env) (hE1 : EnvOk env1) (hx : Extends env1 env2) :
    (v : Val) → ∀ (ty : Ty) (safe : Bool) (f : Nat) (rest : List Byte), wt env2 ty v → StructsStable env1 ty v →
      rank v < f → dec f env1 safe ty (enc v ++ rest) = .ok (restrict env1 ty v, rest)
  | .scalar w n, ty, safe, f, rest, h, _, hf => by
      match f, hf with
      | f+1, _ =>
      simp only [wt] at h
      obtain ⟨hn, h⟩ := h
      have hr := readN_append' safe w (leBytes w n) rest (by simp)
      rcases h with h | h | h | h | h
      · obtain ⟨h, _⟩ := h; subst h; simp [dec, enc, restrict, hr, ofLe_leBytes w n hn]
      · obtain ⟨rfl, rfl, h1⟩ := h
        have : n = 0 ∨ n = 1 := by omega
        rcases this with rfl | rfl <;> simp [dec, enc, restrict, Facts.szBool, hr, ofLe_leBytes 1 _ hn]
      · obtain ⟨rfl, rfl⟩ := h; simp [dec, enc, restrict, Facts.szFloat32, hr, ofLe_leBytes 4 n hn]
      · obtain ⟨rfl, rfl⟩ := h; simp [dec, enc, restrict, Facts.szFloat64, hr, ofLe_leBytes 8 n hn]
      · obtain ⟨rfl, rfl, hd⟩ := h
        simp [dec, enc, restrict, Facts.szDate, hr, ofLe_leBytes 8 n hn, dateNorm_of_ok n hd]
  | .str bs, ty, safe, f, rest, h, _, hf => by
      match f, hf with
      | f+1, _ =>
      simp only [wt] at h
      obtain ⟨rfl, hl⟩ := h
      simp [dec, enc, restrict, List.append_assoc, readU32_append safe bs.length _ hl, readN_append]
  | .guid bs, ty, safe, f, rest, h, _, hf => by
      match f, hf with
      | f+1, _ =>
      simp only [wt] at h
      obtain ⟨rfl, hl⟩ := h
      simp [dec, enc, restrict, Facts.szGuid, readN_append' safe 16 (guidWire bs) rest (by simp), guidRead_guidWire bs hl]
  | .arr vs, ty, safe, f, rest, h, hs, hf => by
      match f, hf with
      | f+1, hf =>
      simp only [wt] at h
      obtain ⟨t, rfl, hl, hw, hp⟩ := h
      simp only [StructsStable] at hs
      simp only [rank] at hf
      have hf' : rankList vs < f := by omega
      simp only [dec, enc, restrict, List.append_assoc, readU32_append safe vs.length _ hl, Res.ok_bind]
      cases hfs : (if safe then fixedSize t else none) with
      | none =>
        simp only [decN_evo env1 env2 hE1 hx vs t safe f rest hw hs hp hf', Res.ok_bind, Res.pure_eq]
      | some s =>
        have hs' : fixedSize t = some s := by
          cases safe <;> simp at hfs; exact hfs
        have hlen : ¬ (encList vs ++ rest).length < vs.length * s := by
          simp [length_encList, vsizeList_of_fixed env2 t s hs' vs hw]
        simp only [hlen, if_false, decN_evo env1 env2 hE1 hx vs t false f rest hw hs hp hf', Res.ok_bind, Res.pure_eq]
  | .map kvs, ty, safe, f, rest, h, hs, hf => by
      match f, hf with
      | f+1, hf =>
      simp only [wt] at h
      obtain ⟨k, t, rfl, hkt, hl, hw, hd⟩ := h
      simp only [StructsStable] at hs
      simp only [rank] at hf
      have hf' : rankKVs kvs < f := by omega
      simp only [dec, enc, restrict, List.append_assoc, readU32_append safe kvs.length _ hl, Res.ok_bind]
      rw [decEntries_evo env1 env2 hE1 hx kvs k t safe f rest [] hkt hw hs hd (by simp) hf']
      simp
  | .struct fs, ty, safe, f, rest, h, hs, hf => by
      match f, hf with
      | f+1, hf =>
      simp only [wt] at h
      obtain ⟨n, tys, rfl, hn, hw⟩ := h
      have hn1 := hx.get_struct hn
      simp only [StructsStable, restrict, hn1] at hs
      obtain ⟨hsz, hst⟩ := hs
      simp only [rank] at hf
      have hf' : rankList fs < f := by omega
      simp only [dec, hn1, enc, restrict, decFields_evo env1 env2 hE1 hx fs tys safe f rest hw hst hf', Res.ok_bind]
      -- the reader's Size() of what it decoded is the number of bytes the struct occupies
      rw [hsz]
      have hle : vsize (.struct fs) ≤ (encList fs ++ rest).length := by
        simp [vsize, length_encList]
      simp only [hle, if_true, Res.pure_eq]
      have : vsize (.struct fs) = (encList fs).length := by simp [vsize, length_encList]
      rw [this, List.drop_left]
  | .msg fs, ty, safe, f, rest, h, hs, hf => by
      match f, hf with
      | 0, hf => simp [rank] at hf
      | 1, hf => simp [rank] at hf
      | f+2, hf =>
      simp only [wt] at h
      obtain ⟨n, fds2, rfl, hn, hw, hsz⟩ := h
      obtain ⟨fds, hn1, hd⟩ := hx.get_msg hn
      simp only [StructsStable, hn1] at hs
      simp only [rank] at hf
      have hf' : rankFields fs < f := by omega
      have hok : DefOk (.msg fds) := hE1 _ (List.mem_of_getElem? hn1)
      have hlen : (encFields fs).length + 1 < 2^32 := by rw [length_encFields]; exact hsz
      obtain ⟨r, hloop⟩ := decMsgLoop_evo env1 env2 hE1 hx fs fds fds2 safe f rest 0 [] ((encFields fs ++ 0 :: rest).length + 1)
        hok hd hw hs (by simp) hf' (by have := length_le_encFields fs; simp; omega)
      have hbody : enc (.msg fs) ++ rest = leBytes 4 ((encFields fs).length + 1) ++ (encFields fs ++ 0 :: rest) := by
        simp [enc, List.append_assoc]
      have htake : (enc (.msg fs) ++ rest).take 4 = leBytes 4 ((encFields fs).length + 1) := by
        rw [hbody, List.take_left' (by simp)]
      simp only [dec, hn1, restrict, decMsgBody]
      rw [htake, hbody, readN_append' safe 4 _ _ (by simp)]
      simp only [Res.ok_bind, hloop, List.nil_append, Res.pure_eq, ofLe_leBytes 4 _ (by simpa using hlen)]
      have hvs : gsize env1 (.ref n) (.msg (restrictFields env1 fds fs))
          ≤ Facts.msgHeaderLen + ((encFields fs).length + 1) := by
        have h1 := gsize_le_vsize env1 (.msg (restrictFields env1 fds fs)) (.ref n)
        have h2 := vsizeFields_restrict_le env1 fs fds
        simp only [vsize, Facts.msgSizeBase] at h1
        simp only [Facts.msgHeaderLen, length_encFields]; omega
      have hln : (if safe = true then max (Facts.msgHeaderLen + ((encFields fs).length + 1)) (gsize env1 (.ref n) (.msg (restrictFields env1 fds fs)))
          else Facts.msgHeaderLen + ((encFields fs).length + 1)) = Facts.msgHeaderLen + ((encFields fs).length + 1) := by
        cases safe
        · simp
        · simp only [if_true]; exact Nat.max_eq_left hvs
      rw [hln]
      have hl2 : Facts.msgHeaderLen + ((encFields fs).length + 1)
          ≤ (leBytes 4 ((encFields fs).length + 1) ++ (encFields fs ++ 0 :: rest)).length := by
        simp [Facts.msgHeaderLen]
      simp only [hl2, if_true]
      have : Facts.msgHeaderLen + ((encFields fs).length + 1)
          = (leBytes 4 ((encFields fs).length + 1) ++ (encFields fs ++ [0])).length := by
        simp [Facts.msgHeaderLen]
      rw [this, show (leBytes 4 ((encFields fs).length + 1) ++ (encFields fs ++ 0 :: rest))
          = (leBytes 4 ((encFields fs).length + 1) ++ (encFields fs ++ [0])) ++ rest by simp, List.drop_left]
  | .union d v, ty, safe, f, rest, h, hs, hf => by
      match f, hf with
      | 0, hf => simp [rank] at hf
      | 1, hf => simp [rank] at hf
      | f+2, hf =>
      simp only [wt] at h
      obtain ⟨n, brs, m, rfl, hn, hd, hm, hw, hsz⟩ := h
      have hn1 := hx.get_union hn
      rw [structsStable_union env1 v hn1 hm] at hs
      simp only [rank] at hf
      have hf' : rank v < f := by omega
      -- the member: a struct member need not keep its size, the cursor behind it is discarded
      have hbr : ∃ r, dec f env1 safe (.ref m) (enc v ++ rest) = .ok (restrict env1 (.ref m) v, r) := by
        match v, hw, hs, hf' with
        | .struct fs, hw, hs, hf' =>
          match f, hf' with
          | 0, hf' => simp [rank] at hf'
          | f+1, hf' =>
          simp only [wt] at hw
          obtain ⟨m', tys, hm', hnm, hws⟩ := hw
          cases hm'
          have hnm1 := hx.get_struct hnm
          simp only [TopStable, hnm1] at hs
          simp only [rank] at hf'
          exact dec_struct_discard env1 safe f m tys fs rest hnm1
            (decFields_evo env1 env2 hE1 hx fs tys safe f rest hws hs (by omega))
        | .msg fs, hw, hs, hf' => exact ⟨rest, dec_evo env1 env2 hE1 hx (.msg fs) (.ref m) safe f rest hw hs hf'⟩
        | .union d' v', hw, hs, hf' =>
          exact ⟨rest, dec_evo env1 env2 hE1 hx (.union d' v') (.ref m) safe f rest hw hs hf'⟩
        | .scalar _ _, hw, _, _ => simp [wt] at hw
        | .str _, hw, _, _ => simp [wt] at hw
        | .guid _, hw, _, _ => simp [wt] at hw
        | .arr _, hw, _, _ => simp [wt] at hw
        | .map _, hw, _, _ => simp [wt] at hw
      obtain ⟨r, hbr⟩ := hbr
      have hlen : (enc v).length < 2^32 := by rw [length_enc]; exact hsz
      have hbody : enc (.union d v) ++ rest = leBytes 4 (enc v).length ++ (UInt8.ofNat d :: (enc v ++ rest)) := by
        simp [enc, List.append_assoc]
      have htake : (enc (.union d v) ++ rest).take 4 = leBytes 4 (enc v).length := by
        rw [hbody, List.take_left' (by simp)]
      simp only [dec, hn1, restrict, hm, decUnionBody]
      rw [htake, hbody, readN_append' safe 4 _ _ (by simp)]
      simp only [Res.ok_bind, toNat_ofNat_lt d hd, hm, hbr,
        Res.pure_eq, ofLe_leBytes 4 _ (by simpa using hlen)]
      have hvs : gsize env1 (.ref n) (.union d (restrict env1 (.ref m) v)) ≤ Facts.unionHeaderLen + (enc v).length := by
        have h1 := gsize_le_vsize env1 (.union d (restrict env1 (.ref m) v)) (.ref n)
        have h2 := vsize_restrict_le env1 v (.ref m)
        simp only [vsize, Facts.unionSizeBase] at h1
        simp only [Facts.unionHeaderLen, length_enc]; omega
      have hln : (if safe = true then max (Facts.unionHeaderLen + (enc v).length) (gsize env1 (.ref n) (.union d (restrict env1 (.ref m) v)))
          else Facts.unionHeaderLen + (enc v).length) = Facts.unionHeaderLen + (enc v).length := by
        cases safe
        · simp
        · simp only [if_true]; exact Nat.max_eq_left hvs
      rw [hln]
      have hl2 : Facts.unionHeaderLen + (enc v).length
          ≤ (leBytes 4 (enc v).length ++ UInt8.ofNat d :: (enc v ++ rest)).length := by
        simp [Facts.unionHeaderLen]; omega
      simp only [hl2, if_true]
      have : Facts.unionHeaderLen + (enc v).length
          = (leBytes 4 (enc v).length ++ UInt8.ofNat d :: enc v).length := by
        simp [Facts.unionHeaderLen]; omega
      rw [this, show (leBytes 4 (enc v).length ++ UInt8.ofNat d :: (enc v ++ rest))
          = (leBytes 4 (enc v).length ++ UInt8.ofNat d :: enc v) ++ rest by simp, List.drop_left]

theorem decN_evo (env1 env2 : Env) (hE1 : EnvOk env1) (hx : Extends env1 env2) :
    (vs : List Val) → ∀ (t : Ty) (safe : Bool) (f : Nat) (rest : List Byte), wtList env2 t vs → stableList env1 t vs →
      Progress vs → rankList vs < f →
      decN (dec f env1 safe t) vs.length (encList vs ++ rest) = .ok (restrictList env1 t vs, rest)
  | [], _, _, _, _, _, _, _, _ => by simp [decN, encList, restrictList]
  | v :: vs, t, safe, f, rest, h, hs, hp, hf => by
      simp only [wtList] at h
      simp only [stableList] at hs
      simp only [rankList] at hf
      have h1 : rank v < f := by omega
      have h2 : rankList vs < f := by omega
      have hg : ¬ ((encList vs ++ rest).length = (enc v ++ (encList vs ++ rest)).length ∧ loopSlack ≤ vs.length) := by
        intro ⟨hl, hs⟩
        simp only [List.length_append] at hl
        exact hp.head_guard ⟨by omega, hs⟩
      simp only [List.length_cons, decN, encList, restrictList, List.append_assoc,
        dec_evo env1 env2 hE1 hx v t safe f _ h.1 hs.1 h1,
        Res.ok_bind, hg, if_false, decN_evo env1 env2 hE1 hx vs t safe f rest h.2 hs.2 hp.tail h2, Res.pure_eq]

theorem decEntries_evo (env1 env2 : Env) (hE1 : EnvOk env1) (hx : Extends env1 env2) :
    (kvs : List (Val × Val)) → ∀ (k t : Ty) (safe : Bool) (f : Nat) (rest : List Byte) (acc : List (Val × Val)),
      isKeyTy k = true → wtKVs env2 k t kvs → stableKVs env1 t kvs → keysDistinct k kvs →
      (∀ a ∈ acc, ∀ kv ∈ kvs, keyEq k a.1 kv.1 = false) → rankKVs kvs < f →
      decEntries k (dec f env1 safe k) (dec f env1 safe t) kvs.length (encKVs kvs ++ rest) acc
        = .ok (acc ++ restrictKVs env1 t kvs, rest)
  | [], _, _, _, _, _, _, _, _, _, _, _, _ => by simp [decEntries, encKVs, restrictKVs]
  | (a, b) :: kvs, k, t, safe, f, rest, acc, hkt, h, hs, hd, hacc, hf => by
      simp only [wtKVs] at h
      simp only [stableKVs] at hs
      simp only [keysDistinct] at hd
      simp only [rankKVs] at hf
      have h1 : rank a < f := by omega
      have h2 : rank b < f := by omega
      have h3 : rankKVs kvs < f := by omega
      have hfresh : ∀ x ∈ acc, keyEq k x.1 a = false := fun x hx => hacc x hx (a, b) (by simp)
      have hacc' : ∀ x ∈ acc ++ [(a, restrict env1 t b)], ∀ kv ∈ kvs, keyEq k x.1 kv.1 = false := by
        intro x hx kv hkv
        rcases List.mem_append.mp hx with hx | hx
        · exact hacc x hx kv (by simp [hkv])
        · simp at hx; subst hx; exact hd.1 kv hkv
      have hka : StructsStable env1 k a := stable_key env1 env2 k hkt a h.1
      have hdk := dec_evo env1 env2 hE1 hx a k safe f (enc b ++ (encKVs kvs ++ rest)) h.1 hka h1
      rw [restrict_key env1 env2 k hkt a h.1] at hdk
      simp only [List.length_cons, decEntries, encKVs, List.append_assoc, hdk,
        dec_evo env1 env2 hE1 hx b t safe f _ h.2.1 hs.1 h2, Res.ok_bind,
        mapInsert_fresh k a _ acc hfresh]
      rw [decEntries_evo env1 env2 hE1 hx kvs k t safe f rest (acc ++ [(a, restrict env1 t b)]) hkt h.2.2 hs.2 hd.2 hacc' h3]
      simp [restrictKVs]

theorem decFields_evo (env1 env2 : Env) (hE1 : EnvOk env1) (hx : Extends env1 env2) :
    (fs : List Val) → ∀ (tys : List Ty) (safe : Bool) (f : Nat) (rest : List Byte), wtStruct env2 tys fs →
      stableStruct env1 tys fs → rankList fs < f →
      decFields (dec f env1 safe) tys (encList fs ++ rest) = .ok (restrictStruct env1 tys fs, rest)
  | [], [], _, _, _, _, _, _ => by simp [decFields, encList, restrictStruct]
  | [], _ :: _, _, _, _, h, _, _ => by simp [wtStruct] at h
  | _ :: _, [], _, _, _, h, _, _ => by simp [wtStruct] at h
  | v :: vs, t :: tys, safe, f, rest, h, hs, hf => by
      simp only [wtStruct] at h
      simp only [stableStruct] at hs
      simp only [rankList] at hf
      have h1 : rank v < f := by omega
      have h2 : rankList vs < f := by omega
      simp [decFields, encList, restrictStruct, List.append_assoc, dec_evo env1 env2 hE1 hx v t safe f _ h.1 hs.1 h1,
        decFields_evo env1 env2 hE1 hx vs tys safe f rest h.2 hs.2 h2]

/-- The byte-slice message loop stops at the first index the reader does not know and returns; what it
    leaves unread is of no concern — the caller positions the cursor by the length prefix. -/
theorem decMsgLoop_evo (env1 env2 : Env) (hE1 : EnvOk env1) (hx : Extends env1 env2) :
    (fs : List (Nat × Val)) → ∀ (fds fds2 : List MsgField) (safe : Bool) (f : Nat) (rest : List Byte) (lo : Nat)
      (acc : List (Nat × Val)) (n : Nat), DefOk (.msg fds) → DefExtends (.msg fds) (.msg fds2) →
      wtMsg env2 fds2 lo fs → stableFields env1 fds fs → (∀ a ∈ acc, a.1 ≤ lo) →
      rankFields fs < f → fs.length < n →
      ∃ r, decMsgLoop safe (dec f env1 safe) fds n (encFields fs ++ 0 :: rest) acc
        = .ok (acc ++ restrictFields env1 fds fs, r)
  | [], fds, fds2, safe, f, rest, lo, acc, n, hok, _, _, _, _, _, hn => by
      match n, hn with
      | n+1, _ =>
      have : fds.find? (fun fd => fd.idx == 0) = none := by
        rw [List.find?_eq_none]
        intro fd hfd
        have := (hok fd hfd).1
        simp; omega
      exact ⟨0 :: rest, by simp [decMsgLoop, encFields, restrictFields, this]⟩
  | (i, v) :: fs, fds, fds2, safe, f, rest, lo, acc, n, hok, hd, h, hs, hacc, hf, hn => by
      match n, hn with
      | n+1, hn =>
      have hwhole := h
      simp only [wtMsg] at h
      obtain ⟨hlo, hi, ⟨fd2, hfd2, _, hwv⟩, hrest⟩ := h
      simp only [rankFields] at hf
      have h1 : rank v < f := by omega
      have h2 : rankFields fs < f := by omega
      simp only [List.length_cons] at hn
      rcases hd.at_field hfd2 with ⟨fd, hfd, hty⟩ | ⟨hnone, habove⟩
      · have hidx : fd.idx = i := find_msgField fds i fd hfd
        have hacc1 : ∀ a ∈ acc, a.1 < i := fun a ha => by have := hacc a ha; omega
        have hacc' : ∀ a ∈ acc ++ [(i, restrict env1 fd.ty v)], a.1 ≤ i := by
          intro a ha
          rcases List.mem_append.mp ha with ha | ha
          · have := hacc1 a ha; omega
          · simp at ha; subst ha; simp
        rw [← hty] at hwv
        simp only [stableFields, hfd] at hs
        obtain ⟨r, hrec⟩ := decMsgLoop_evo env1 env2 hE1 hx fs fds fds2 safe f rest i (acc ++ [(i, restrict env1 fd.ty v)]) n
          hok hd hrest hs.2 hacc' h2 (by omega)
        refine ⟨r, ?_⟩
        simp only [decMsgLoop, encFields, List.cons_append, List.append_assoc, toNat_ofNat_lt i hi, hfd,
          dec_evo env1 env2 hE1 hx v fd.ty safe f _ hwv hs.1 h1, Res.ok_bind, hidx, msgSet_fresh i _ acc hacc1, hrec,
          restrictFields]
        simp
      · have hnil := restrictFields_above env1 env2 fds fds2 i v fs lo hwhole habove
        exact ⟨UInt8.ofNat i :: (enc v ++ encFields fs ++ 0 :: rest), by
          simp only [decMsgLoop, encFields, List.cons_append, toNat_ofNat_lt i hi, hnone, hnil, List.append_nil]⟩
end

/-- The guard for a top-level record, from which `UnmarshalBebop` follows. -/
theorem unmarshal_evo (env1 env2 : Env) (hE1 : EnvOk env1) (hx : Extends env1 env2) (n : Nat) (v : Val) (safe : Bool)
    (f : Nat) (h : wt env2 (.ref n) v) (hs : TopStable env1 n v) (hf : rank v < f + 1) (rest : List Byte) :
    unmarshal f env1 safe n (enc v ++ rest) = .ok (restrict env1 (.ref n) v) := by
  cases v with
  | scalar w x => simp [wt] at h
  | str _ => simp [wt] at h
  | guid _ => simp [wt] at h
  | arr _ => simp [wt] at h
  | map _ => simp [wt] at h
  | struct fs =>
    simp only [wt] at h
    obtain ⟨n', tys, hn', hn, hw⟩ := h
    cases hn'
    have hn1 := hx.get_struct hn
    simp only [TopStable, hn1] at hs
    simp only [rank] at hf
    simp only [unmarshal, hn1, enc, restrict,
      decFields_evo env1 env2 hE1 hx fs tys safe f rest hw hs (by omega), Res.ok_bind, Res.pure_eq]
  | msg fs =>
    exact unmarshal_of_dec f env1 safe n _ _ rest
      (dec_evo env1 env2 hE1 hx (.msg fs) (.ref n) safe (f+1) rest h hs hf)
  | union d w =>
    exact unmarshal_of_dec f env1 safe n _ _ rest
      (dec_evo env1 env2 hE1 hx (.union d w) (.ref n) safe (f+1) rest h hs hf)

/-! ### When restriction is the identity -/

theorem Extends.get_old : (e1 e2 : Env) → Extends e1 e2 → (n : Nat) → (d1 : Def) → e1[n]? = some d1 →
    ∃ d2, e2[n]? = some d2 ∧ DefExtends d1 d2
  | [], [], _, n, d1, h => by simp at h
  | [], _ :: _, hx, _, _, _ => by simp [Extends] at hx
  | _ :: _, [], hx, _, _, _ => by simp [Extends] at hx
  | d1' :: e1, d2 :: e2, hx, 0, d1, h => by
      simp only [Extends] at hx
      simp only [List.getElem?_cons_zero, Option.some.injEq] at h
      subst h
      exact ⟨d2, by simp, hx.1⟩
  | d1' :: e1, d2 :: e2, hx, n+1, d1, h => by
      simp only [Extends] at hx
      simp only [List.getElem?_cons_succ] at h ⊢
      exact Extends.get_old e1 e2 hx.2 n d1 h

mutual
/-- If the reader's schema `env1` knows every field of the sender's schema `env2` (`Extends env2 env1`: in
    particular `env1 = env2`, or the two differ only in `deprecated` flags), nothing is dropped. -/
theorem restrict_id_of_known (env1 env2 : Env) (hx : Extends env2 env1) :
    (v : Val) → ∀ ty, wt env2 ty v → restrict env1 ty v = v
  | .scalar _ _, _, _ => by simp [restrict]
  | .str _, _, _ => by simp [restrict]
  | .guid _, _, _ => by simp [restrict]
  | .arr vs, ty, h => by
      simp only [wt] at h
      obtain ⟨t, rfl, _, hw, _⟩ := h
      simp only [restrict, restrictList_id env1 env2 hx vs t hw]
  | .map kvs, ty, h => by
      simp only [wt] at h
      obtain ⟨k, t, rfl, _, _, hw, _⟩ := h
      simp only [restrict, restrictKVs_id env1 env2 hx kvs k t hw]
  | .struct fs, ty, h => by
      simp only [wt] at h
      obtain ⟨n, tys, rfl, hn, hw⟩ := h
      obtain ⟨d1, hn1, hd⟩ := Extends.get_old env2 env1 hx n _ hn
      cases d1 with
      | struct t1 =>
        simp only [DefExtends] at hd; subst hd
        simp only [restrict, hn1, restrictStruct_id env1 env2 hx fs tys hw]
      | msg _ => simp [DefExtends] at hd
      | union _ => simp [DefExtends] at hd
  | .msg fs, ty, h => by
      simp only [wt] at h
      obtain ⟨n, fds2, rfl, hn, hw, _⟩ := h
      obtain ⟨d1, hn1, hd⟩ := Extends.get_old env2 env1 hx n _ hn
      cases d1 with
      | struct _ => simp [DefExtends] at hd
      | msg fds => simp only [restrict, hn1, restrictFields_id env1 env2 hx fs fds fds2 0 hd hw]
      | union _ => simp [DefExtends] at hd
  | .union d v, ty, h => by
      simp only [wt] at h
      obtain ⟨n, brs, m, rfl, hn, _, hm, hw, _⟩ := h
      obtain ⟨d1, hn1, hd⟩ := Extends.get_old env2 env1 hx n _ hn
      cases d1 with
      | struct _ => simp [DefExtends] at hd
      | msg _ => simp [DefExtends] at hd
      | union b1 =>
        simp only [DefExtends] at hd; subst hd
        simp only [restrict, hn1, hm, restrict_id_of_known env1 env2 hx v (.ref m) hw]
theorem restrictList_id (env1 env2 : Env) (hx : Extends env2 env1) :
    (vs : List Val) → ∀ t, wtList env2 t vs → restrictList env1 t vs = vs
  | [], _, _ => by simp [restrictList]
  | v :: vs, t, h => by
      simp only [wtList] at h
      simp only [restrictList, restrict_id_of_known env1 env2 hx v t h.1, restrictList_id env1 env2 hx vs t h.2]
theorem restrictKVs_id (env1 env2 : Env) (hx : Extends env2 env1) :
    (kvs : List (Val × Val)) → ∀ k t, wtKVs env2 k t kvs → restrictKVs env1 t kvs = kvs
  | [], _, _, _ => by simp [restrictKVs]
  | (a, b) :: kvs, k, t, h => by
      simp only [wtKVs] at h
      simp only [restrictKVs, restrict_id_of_known env1 env2 hx b t h.2.1, restrictKVs_id env1 env2 hx kvs k t h.2.2]
theorem restrictStruct_id (env1 env2 : Env) (hx : Extends env2 env1) :
    (vs : List Val) → ∀ tys, wtStruct env2 tys vs → restrictStruct env1 tys vs = vs
  | [], tys, _ => by cases tys <;> simp [restrictStruct]
  | v :: vs, [], h => by simp [wtStruct] at h
  | v :: vs, t :: tys, h => by
      simp only [wtStruct] at h
      simp only [restrictStruct, restrict_id_of_known env1 env2 hx v t h.1, restrictStruct_id env1 env2 hx vs tys h.2]
theorem restrictFields_id (env1 env2 : Env) (hx : Extends env2 env1) :
    (fs : List (Nat × Val)) → ∀ (fds fds2 : List MsgField) (lo : Nat), DefExtends (.msg fds2) (.msg fds) →
      wtMsg env2 fds2 lo fs → restrictFields env1 fds fs = fs
  | [], _, _, _, _, _ => by simp [restrictFields]
  | (i, v) :: fs, fds, fds2, lo, hd, h => by
      simp only [wtMsg] at h
      obtain ⟨_, _, ⟨b, hb, _, hwv⟩, hrest⟩ := h
      obtain ⟨a, ha, hty⟩ := (hd i).1 b hb
      rw [← hty] at hwv
      simp only [restrictFields, ha, restrict_id_of_known env1 env2 hx v a.ty hwv,
        restrictFields_id env1 env2 hx fs fds fds2 i hd hrest]
end

/-- In particular a value of the reader's own schema is untouched. -/
theorem restrict_self (env : Env) (ty : Ty) (v : Val) (h : wt env ty v) : restrict env ty v = v :=
  restrict_id_of_known env env (Extends.refl env) v ty h

mutual
/-- For a value of the reader's own schema the slice guard holds: nothing is dropped (`restrict_self`) and
    no present field is deprecated (`wt`), so `Size()` is the length of the encoding.

    (Before the model counted deprecated fields out of `Size()`, this was stated for any reader schema
    `env1` that knows every field of the writer's, `Extends env2 env1`.  That is no longer true: a reader
    that marks a field deprecated which the writer still sends has a smaller `Size()` than the wire —
    see `C04_deprecated_nested_struct_counterexample`.) -/
theorem stable_self (env : Env) : (v : Val) → ∀ ty, wt env ty v → StructsStable env ty v
  | .scalar _ _, _, _ => by simp [StructsStable]
  | .str _, _, _ => by simp [StructsStable]
  | .guid _, _, _ => by simp [StructsStable]
  | .arr vs, ty, h => by
      simp only [wt] at h
      obtain ⟨t, rfl, _, hw, _⟩ := h
      simp only [StructsStable]; exact stableList_self env vs t hw
  | .map kvs, ty, h => by
      simp only [wt] at h
      obtain ⟨k, t, rfl, _, _, hw, _⟩ := h
      simp only [StructsStable]; exact stableKVs_self env kvs k t hw
  | .struct fs, ty, h => by
      have hid := restrict_self env ty (.struct fs) h
      have hg := gsize_eq_vsize_of_wt env (.struct fs) ty h
      simp only [wt] at h
      obtain ⟨n, tys, rfl, hn, hw⟩ := h
      simp only [StructsStable, hid, hn]
      exact ⟨hg, stableStruct_self env fs tys hw⟩
  | .msg fs, ty, h => by
      simp only [wt] at h
      obtain ⟨n, fds, rfl, hn, hw, _⟩ := h
      simp only [StructsStable, hn]; exact stableFields_self env fs fds 0 hw
  | .union d v, ty, h => by
      simp only [wt] at h
      obtain ⟨n, brs, m, rfl, hn, _, hm, hw, _⟩ := h
      rw [structsStable_union env v hn hm]
      match v, hw with
      | .struct fs, hw =>
        simp only [wt] at hw
        obtain ⟨m', tys, hm', hnm, hws⟩ := hw
        cases hm'
        simp only [TopStable, hnm]; exact stableStruct_self env fs tys hws
      | .msg fs, hw => exact stable_self env (.msg fs) (.ref m) hw
      | .union d' v', hw => exact stable_self env (.union d' v') (.ref m) hw
      | .scalar _ _, hw => simp [wt] at hw
      | .str _, hw => simp [wt] at hw
      | .guid _, hw => simp [wt] at hw
      | .arr _, hw => simp [wt] at hw
      | .map _, hw => simp [wt] at hw
theorem stableList_self (env : Env) : (vs : List Val) → ∀ t, wtList env t vs → stableList env t vs
  | [], _, _ => by simp [stableList]
  | v :: vs, t, h => by
      simp only [wtList] at h
      exact ⟨stable_self env v t h.1, stableList_self env vs t h.2⟩
theorem stableKVs_self (env : Env) : (kvs : List (Val × Val)) → ∀ k t, wtKVs env k t kvs → stableKVs env t kvs
  | [], _, _, _ => by simp [stableKVs]
  | (a, b) :: kvs, k, t, h => by
      simp only [wtKVs] at h
      exact ⟨stable_self env b t h.2.1, stableKVs_self env kvs k t h.2.2⟩
theorem stableStruct_self (env : Env) : (vs : List Val) → ∀ tys, wtStruct env tys vs → stableStruct env tys vs
  | [], tys, _ => by cases tys <;> simp [stableStruct]
  | v :: vs, [], h => by simp [wtStruct] at h
  | v :: vs, t :: tys, h => by
      simp only [wtStruct] at h
      exact ⟨stable_self env v t h.1, stableStruct_self env vs tys h.2⟩
theorem stableFields_self (env : Env) :
    (fs : List (Nat × Val)) → ∀ (fds : List MsgField) (lo : Nat), wtMsg env fds lo fs → stableFields env fds fs
  | [], _, _, _ => by simp [stableFields]
  | (i, v) :: fs, fds, lo, h => by
      simp only [wtMsg] at h
      obtain ⟨_, _, ⟨a, ha, _, hwv⟩, hrest⟩ := h
      simp only [stableFields, ha]
      exact ⟨stable_self env v a.ty hwv, stableFields_self env fs fds i hrest⟩
end

theorem topStable_self (env : Env) (n : Nat) (v : Val) (h : wt env (.ref n) v) : TopStable env n v := by
  have hs := stable_self env v (.ref n) h
  cases v with
  | struct fs =>
    simp only [StructsStable] at hs
    simp only [TopStable]
    exact hs.2
  | _ => exact hs

end Bebop
