/-
  Helper lemma: io.ReadFull over a reader that fragments its data arbitrarily returns the same bytes, and
  leaves the same bytes unread, as over the unfragmented data.
-/
import Bebop.Stream

namespace Bebop

theorem readFullChunks_flat : ∀ (n : Nat) (cs : List (List Byte)),
    (readFullChunks n cs).1 = cs.flatten.take n ∧ (readFullChunks n cs).2.flatten = cs.flatten.drop n
  | 0, cs => by simp [readFullChunks]
  | n+1, [] => by simp [readFullChunks]
  | n+1, [] :: cs => by
      have := readFullChunks_flat (n+1) cs
      simpa [readFullChunks] using this
  | n+1, (b :: c) :: cs => by
      have := readFullChunks_flat n (c :: cs)
      simp only [readFullChunks, List.flatten_cons, List.cons_append, List.take_succ_cons,
        List.drop_succ_cons] at this ⊢
      exact ⟨by rw [this.1], this.2⟩
termination_by n cs => (n, cs.length)

end Bebop
