// Package pkgbuild emits one Go package per (schema, option set): gen.go produced in-process by
// the real bebop.ReadFile + File.Generate from /repo's current sources, the generic driver,
// a registry and a go.mod; then compiles it with `go build`.
package pkgbuild

import (
	"bytes"
	"fmt"
	"os"
	"os/exec"
	"path/filepath"
	"runtime"
	"strings"
	"time"

	"github.com/200sc/bebop"

	"verif/harness/driver"
	"verif/harness/internal/schema"
)

// Options are the five generator booleans.
type Options struct {
	Unsafe       bool `json:"GenerateUnsafeMethods"`
	SharedString bool `json:"SharedMemoryStrings"`
	FieldTags    bool `json:"GenerateFieldTags"`
	Private      bool `json:"PrivateDefinitions"`
	PtrReceivers bool `json:"AlwaysUsePointerReceivers"`
}

// OptionsFromBits decodes a 5-bit mask (bit 0 = Unsafe ... bit 4 = PtrReceivers).
func OptionsFromBits(m int) Options {
	return Options{m&1 != 0, m&2 != 0, m&4 != 0, m&8 != 0, m&16 != 0}
}

// Bits is the inverse of OptionsFromBits.
func (o Options) Bits() int {
	m := 0
	for i, b := range []bool{o.Unsafe, o.SharedString, o.FieldTags, o.Private, o.PtrReceivers} {
		if b {
			m |= 1 << uint(i)
		}
	}
	return m
}

func (o Options) String() string {
	s := ""
	for i, b := range []bool{o.Unsafe, o.SharedString, o.FieldTags, o.Private, o.PtrReceivers} {
		if b {
			s += string("USTPR"[i])
		} else {
			s += "-"
		}
	}
	return s
}

// Settings converts to the real generator settings.
func (o Options) Settings() bebop.GenerateSettings {
	return bebop.GenerateSettings{
		PackageName:               "main",
		GenerateUnsafeMethods:     o.Unsafe,
		SharedMemoryStrings:       o.SharedString,
		GenerateFieldTags:         o.FieldTags,
		PrivateDefinitions:        o.Private,
		AlwaysUsePointerReceivers: o.PtrReceivers,
	}
}

// Package is the result of emitting and building one package.
type Package struct {
	ID       string
	Dir      string
	Bin      string // path of the driver binary when BuildOK
	Options  Options
	BuildOK  bool
	BuildErr string // generator error or compiler output
	Stage    string // "read", "generate", "compile" when !BuildOK
	Elapsed  time.Duration
}

// FirstErrorLine extracts the first compiler error line.
func (p *Package) FirstErrorLine() string {
	for _, l := range strings.Split(p.BuildErr, "\n") {
		l = strings.TrimSpace(l)
		if l == "" || strings.HasPrefix(l, "#") {
			continue
		}
		return l
	}
	return strings.TrimSpace(p.BuildErr)
}

// Builder emits packages under Dir. Builds may be requested from many goroutines; at most
// Parallel `go build` processes run at once.
type Builder struct {
	Dir string
	sem chan struct{}
}

// NewBuilder creates the directory. parallel <= 0 means NumCPU/2 (each go build is itself parallel).
func NewBuilder(dir string, parallel int) (*Builder, error) {
	if parallel <= 0 {
		parallel = runtime.NumCPU() / 2
		if parallel < 1 {
			parallel = 1
		}
	}
	if err := os.MkdirAll(dir, 0o755); err != nil {
		return nil, err
	}
	return &Builder{Dir: dir, sem: make(chan struct{}, parallel)}, nil
}

// GoEnv is the environment of child go commands.
func GoEnv() []string {
	env := os.Environ()
	return append(env, "GOFLAGS=-mod=mod", "GOPROXY=off", "GOSUMDB=off", "GOTOOLCHAIN=local")
}

// repoPath is where the module under test lives: /repo, or $VERIF_REPO (a scratch copy while developing the harness).
func repoPath() string {
	if p := os.Getenv("VERIF_REPO"); p != "" {
		return p
	}
	return "/repo"
}

func goMod() string {
	return "module drvpkg\n\ngo 1.21\n\nrequire github.com/200sc/bebop v0.0.0\n\nreplace github.com/200sc/bebop => " + repoPath() + "\n"
}

// Generate runs the real ReadFile + Generate in-process.
func Generate(schemaText string, opts Options) (src []byte, stage string, err error) {
	defer func() {
		if r := recover(); r != nil {
			err = fmt.Errorf("panic: %v", r)
		}
	}()
	stage = "read"
	bf, _, err := bebop.ReadFile(strings.NewReader(schemaText))
	if err != nil {
		return nil, stage, err
	}
	stage = "generate"
	var out bytes.Buffer
	if err := bf.Generate(&out, opts.Settings()); err != nil {
		return nil, stage, err
	}
	return out.Bytes(), "", nil
}

// generateFromFile runs ReadFile + Generate on a schema file on disk (imports are resolved relative to it).
func generateFromFile(file string, st bebop.GenerateSettings) (src []byte, stage string, err error) {
	defer func() {
		if r := recover(); r != nil {
			err = fmt.Errorf("panic: %v", r)
		}
	}()
	stage = "read"
	fh, err := os.Open(file)
	if err != nil {
		return nil, stage, err
	}
	defer fh.Close()
	bf, _, err := bebop.ReadFile(fh)
	if err != nil {
		return nil, stage, err
	}
	stage = "generate"
	var out bytes.Buffer
	if err := bf.Generate(&out, st); err != nil {
		return nil, stage, err
	}
	return out.Bytes(), "", nil
}

// Build emits and compiles one package.
func (b *Builder) Build(id, schemaText string, env *schema.Env, opts Options) *Package {
	start := time.Now()
	p := &Package{ID: id, Dir: filepath.Join(b.Dir, id), Options: opts}
	defer func() { p.Elapsed = time.Since(start) }()
	fail := func(stage string, err error) *Package {
		p.Stage, p.BuildErr = stage, err.Error()
		return p
	}
	if err := os.MkdirAll(p.Dir, 0o755); err != nil {
		return fail("emit", err)
	}
	var src []byte
	if i := strings.Index(schemaText, schema.DepMarker); i >= 0 {
		// two files, generated separately (the bebopc-go default): the imported one is its own package drvpkg/drvdep
		mainText, depText := schemaText[:i], schemaText[i+len(schema.DepMarker)+1:]
		depDir := filepath.Join(p.Dir, "drvdep")
		if err := os.MkdirAll(depDir, 0o755); err != nil {
			return fail("emit", err)
		}
		if err := os.WriteFile(filepath.Join(depDir, "dep.bop"), []byte(depText), 0o644); err != nil {
			return fail("emit", err)
		}
		if err := os.WriteFile(filepath.Join(p.Dir, "schema.bop"), []byte(mainText), 0o644); err != nil {
			return fail("emit", err)
		}
		depSettings := opts.Settings()
		depSettings.PackageName = ""
		depSettings.ImportGenerationMode = bebop.ImportGenerationModeSeparate
		depSrc, stage, err := generateFromFile(filepath.Join(depDir, "dep.bop"), depSettings)
		if err != nil {
			return fail("dep-"+stage, err)
		}
		if err := os.WriteFile(filepath.Join(depDir, "gen.go"), depSrc, 0o644); err != nil {
			return fail("emit", err)
		}
		mainSettings := opts.Settings()
		mainSettings.ImportGenerationMode = bebop.ImportGenerationModeSeparate
		var stage2 string
		src, stage2, err = generateFromFile(filepath.Join(p.Dir, "schema.bop"), mainSettings)
		if err != nil {
			return fail(stage2, err)
		}
		schemaText = mainText
	} else {
		var stage string
		var err error
		src, stage, err = Generate(schemaText, opts)
		if err != nil {
			return fail(stage, err)
		}
	}
	files := map[string][]byte{
		"schema.bop":  []byte(schemaText),
		"gen.go":      src,
		"driver.go":   []byte(driver.Source),
		"registry.go": []byte(driver.Registry(env, opts.Private, opts.Unsafe)),
		"go.mod":      []byte(goMod()),
	}
	for name, data := range files {
		if err := os.WriteFile(filepath.Join(p.Dir, name), data, 0o644); err != nil {
			return fail("emit", err)
		}
	}
	b.sem <- struct{}{}
	defer func() { <-b.sem }()
	cmd := exec.Command("go", "build", "-o", "drv", ".")
	cmd.Dir = p.Dir
	cmd.Env = GoEnv()
	out, err := cmd.CombinedOutput()
	if err != nil {
		p.Stage = "compile"
		p.BuildErr = strings.TrimSpace(string(out))
		if p.BuildErr == "" {
			p.BuildErr = err.Error()
		}
		return p
	}
	p.BuildOK = true
	p.Bin = filepath.Join(p.Dir, "drv")
	return p
}

// Cleanup removes everything the builder wrote.
func (b *Builder) Cleanup() error { return os.RemoveAll(b.Dir) }
