/-
  C17  Formatting is idempotent.

  Full statement: `C17_statement` (a definition; decided on every accepted input of all streams by the
  correspondence engine: Format(Format(x)) = Format(x) byte for byte, formatter model tied byte for byte).
  Proved: the fixpoint / idempotence theorems for the sub-language of Bebop/Props/Canon.lean
  (`C17_*_partial`), re-exported below when that development is present, and that the second pass always
  terminates (`C17_second_pass_terminates`).
-/
import Bebop.Proofs.Format
import Bebop.Props.Canon

namespace Bebop.Text

/-- The property at full strength (a definition, not a theorem). -/
def C17_statement (accepted : List Byte → Prop) : Prop :=
  ∀ inp, accepted inp → ∀ out, format inp = some out → format out = some out

/-- Both passes return, whatever the input. -/
theorem C17_second_pass_terminates (inp : List Byte) :
    ∃ out, format inp = some out ∧ (format out).isSome = true := by
  have h := format_total inp
  cases hf : format inp with
  | none => simp [hf] at h
  | some out => exact ⟨out, rfl, format_total out⟩

/-- For every schema of the sub-language of Bebop/Props/Canon.lean and EVERY layout of its text, formatting the
    formatter's output changes nothing, byte for byte. -/
theorem C17_format_idempotent_partial (f : CFile) (hf : CFileOk f) (w : Nat → List Byte)
    (hw : LayoutOk w (fileLex false f)) :
    ∃ out, format (laidOutF w f) = some out ∧ format out = some out ∧
      (format (laidOutF w f) >>= format) = format (laidOutF w f) := by
  obtain ⟨out, h1, _, _, h4, h5⟩ := C16_C17_schema_layout_partial f hf w hw
  exact ⟨out, h1, h4, h5⟩

/-- The formatter's own layout is a fixpoint. -/
theorem C17_canonical_text_is_fixpoint_partial (f : CFile) (hf : CFileOk f) :
    format (canonTextF f) = some (canonTextF f) := C17_schema_canonical_partial f hf

end Bebop.Text
