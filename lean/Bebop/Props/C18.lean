/-
  C18 — import handling: the worklist of File.Generate imports every transitively imported file exactly
  once (combined mode = inlining each of them once), the only worklist error is a missing file, and the
  package-graph cycle search (internal/importgraph) answers `true` exactly when the recorded edge list
  has a cycle.

  Model: Bebop/Text/Imports.lean. Specification notions (`Imports`, `Reachable`, `Edge`, `Path`,
  `HasCycle`) and the invariant lemmas: Bebop/Proofs/Imports.lean.
-/
import Bebop.Proofs.Imports

namespace Bebop.Text

/-! ## A. The worklist -/

/-- (1),(2) hold for every fuel value: whatever the worklist has imported so far is duplicate free,
    transitively imported by the root, and exists. -/
theorem C18_worklist_sound_anyfuel (fs : FS) (root : SrcInfo) (fuel : Nat)
    (imported : List Nat) (edges : List (Option Nat × Option Nat))
    (h0 : fs[0]? = some root)
    (h : worklist fs fuel (root.imports.map (fun t => (root.pkg, t))) [] [] = .ok (imported, edges)) :
    imported.Nodup ∧ (∀ t ∈ imported, Reachable fs t ∧ fs[t]?.isSome) :=
  worklist_sound_gen fs fuel _ [] [] imported edges (WInv.init h0) h

/-- With the fuel `resolveImports` supplies, a successful worklist run returns exactly the files
    transitively imported by the root, each once, and all of them exist. -/
theorem C18_worklist_sound (fs : FS) (root : SrcInfo) (fuel : Nat)
    (imported : List Nat) (edges : List (Option Nat × Option Nat))
    (h0 : fs[0]? = some root)
    (hfuel : fuel = fs.foldl (fun n i => n + i.imports.length) 0 + root.imports.length + 1)
    (h : worklist fs fuel (root.imports.map (fun t => (root.pkg, t))) [] [] = .ok (imported, edges)) :
    imported.Nodup ∧
    (∀ t ∈ imported, Reachable fs t ∧ fs[t]?.isSome) ∧
    (∀ t, Reachable fs t → t ∈ imported) := by
  obtain ⟨h1, h2⟩ := C18_worklist_sound_anyfuel fs root fuel imported edges h0 h
  refine ⟨h1, h2, ?_⟩
  have hf : (rootWork root).length + pend fs 0 [] < fuel := by
    rw [hfuel]; exact worklistFuel_sufficient fs root
  have hcl : WClosed fs (rootWork root) [] := fun a ha => absurd ha List.not_mem_nil
  obtain ⟨_, hwl, hclosed⟩ := worklist_complete_gen fs fuel (rootWork root) [] [] imported edges hf hcl h
  intro t ht
  induction ht with
  | root hr ht =>
    rw [h0] at hr
    injection hr with hr
    subst hr
    exact hwl (root.pkg, _) (List.mem_map.mpr ⟨_, ht, rfl⟩)
  | step _ hab ih => exact hclosed _ ih _ hab

/-- (4) The only error the worklist can produce is `notFound`, and only because some transitively
    imported target does not exist (any fuel). -/
theorem C18_worklist_error (fs : FS) (root : SrcInfo) (fuel : Nat) (e : ImpErr)
    (h0 : fs[0]? = some root)
    (h : worklist fs fuel (root.imports.map (fun t => (root.pkg, t))) [] [] = .error e) :
    e = .notFound ∧ ∃ t, Reachable fs t ∧ fs[t]? = none :=
  worklist_error_gen fs fuel _ [] [] e (WInv.init h0) h

/-- With the fuel of `resolveImports`: the worklist succeeds iff every transitively imported target exists. -/
theorem C18_worklist_ok_iff (fs : FS) (root : SrcInfo) (fuel : Nat)
    (h0 : fs[0]? = some root)
    (hfuel : fuel = fs.foldl (fun n i => n + i.imports.length) 0 + root.imports.length + 1) :
    (∃ imported edges,
        worklist fs fuel (root.imports.map (fun t => (root.pkg, t))) [] [] = .ok (imported, edges)) ↔
      ∀ t, Reachable fs t → fs[t]?.isSome := by
  constructor
  · rintro ⟨imported, edges, h⟩ t ht
    obtain ⟨_, h2, h3⟩ := C18_worklist_sound fs root fuel imported edges h0 hfuel h
    exact (h2 t (h3 t ht)).2
  · intro hall
    cases hw : worklist fs fuel (root.imports.map (fun t => (root.pkg, t))) [] [] with
    | ok r => exact ⟨r.1, r.2, rfl⟩
    | error e =>
      obtain ⟨_, t, ht, hn⟩ := C18_worklist_error fs root fuel e h0 hw
      have := hall t ht
      rw [hn] at this
      cases this

/-- Combined mode: a successful result is the root followed by exactly the transitively imported files,
    without repetition. -/
theorem C18_combined_ok (fs : FS) (files : List Nat) (h : resolveImports fs false = .ok files) :
    files.head? = some 0 ∧ files.Nodup ∧ ∀ t, t ∈ files ↔ (t = 0 ∨ Reachable fs t) := by
  unfold resolveImports at h
  split at h
  · cases h
  · rename_i root h0
    split at h
    · rename_i hemp
      injection h with h
      subst h
      have hnil : root.imports = [] := List.isEmpty_iff.mp hemp
      have hno : ∀ t, ¬ Reachable fs t := by
        intro t ht
        induction ht with
        | root hr hm =>
          rw [h0] at hr; injection hr with hr; subst hr
          rw [hnil] at hm; exact absurd hm List.not_mem_nil
        | step _ _ ih => exact ih
      refine ⟨rfl, by simp, ?_⟩
      intro t
      simp only [List.mem_singleton]
      exact ⟨Or.inl, fun h => h.elim id (fun hr => absurd hr (hno t))⟩
    · simp only at h
      split at h
      · cases h
      · rename_i imported edges hw
        simp only [Bool.false_eq_true, if_false] at h
        split at h
        · cases h
        · rename_i hc
          injection h with h
          subst h
          obtain ⟨h1, h2, h3⟩ := C18_worklist_sound fs root _ imported edges h0 rfl hw
          have hc' : 0 ∉ imported := fun hm => hc (List.contains_iff_mem.mpr hm)
          refine ⟨rfl, List.nodup_cons.mpr ⟨hc', h1⟩, ?_⟩
          intro t
          simp only [List.mem_cons]
          constructor
          · rintro (h | h)
            · exact Or.inl h
            · exact Or.inr (h2 t h).1
          · rintro (h | h)
            · exact Or.inl h
            · exact Or.inr (h3 t h)

/-! ## B. The cycle search -/

/-- What a `true` answer of `dfs` means for an arbitrary recursion stack: from `node` one can walk back
    into `node :: stack`, or to a node lying on a cycle. -/
theorem C18_dfs_true (edges : List (Option Nat × Option Nat)) (fuel : Nat) (node : Option Nat)
    (stack : List (Option Nat)) (h : dfs edges fuel node stack = some true) :
    (∃ t ∈ node :: stack, Path edges node t) ∨ (∃ t, Path edges node t ∧ Path edges t t) :=
  dfs_true_gen edges fuel node stack h

/-- Soundness: when the recursion stack is a path leading to `node` (as it is in every call made by
    `findCycle`), a `true` answer of `dfs` is a cycle; hence so is a `true` answer of `findCycle`. -/
theorem C18_dfs_sound (edges : List (Option Nat × Option Nat)) :
    (∀ fuel node stack, (∀ s ∈ stack, Path edges s node) →
        dfs edges fuel node stack = some true → HasCycle edges) ∧
    (findCycle edges = some true → HasCycle edges) := by
  refine ⟨fun fuel node stack hst h => dfs_true_cycle edges fuel node stack hst h, ?_⟩
  intro h
  unfold findCycle at h
  exact scan_true edges _ _ _ h

/-- Completeness: a `false` answer of `dfs` from a root (empty stack) means that no cycle is reachable
    from that root, and a `false` answer of `findCycle` means that the edge list has no cycle at all. -/
theorem C18_dfs_complete (edges : List (Option Nat × Option Nat)) :
    (∀ fuel r, dfs edges fuel r [] = some false → ∀ m, Reaches edges r m → ¬ Path edges m m) ∧
    (findCycle edges = some false → ¬ HasCycle edges) := by
  refine ⟨fun fuel r h => dfs_false_good edges fuel r h, ?_⟩
  intro h
  unfold findCycle at h
  have hg := scan_false edges _ _ [] (fun v hv => absurd hv List.not_mem_nil) h
  rintro ⟨n, hn⟩
  obtain ⟨c, hc⟩ := hn.head_edge
  have hmem : n ∈ sortNodes (edges.map (·.1)).eraseDups := by
    rw [mem_sortNodes, List.mem_eraseDups]
    exact List.mem_map.mpr ⟨(n, c), hc, rfl⟩
  exact hg n hmem n (Or.inl rfl) hn

/-- Whenever `findCycle` answers, the answer is right. -/
theorem C18_findCycle_iff (edges : List (Option Nat × Option Nat)) (b : Bool)
    (h : findCycle edges = some b) : b = true ↔ HasCycle edges := by
  cases b with
  | true => exact ⟨fun _ => (C18_dfs_sound edges).2 h, fun _ => rfl⟩
  | false =>
    constructor
    · intro hb; cases hb
    · intro hc; exact absurd hc ((C18_dfs_complete edges).2 h)

/-! ## C. Termination -/

/-- Combined mode never runs out of fuel (only the cycle search of separate mode is fuel-bounded in
    a way that is visible in the outcome). Nothing is claimed here for separate mode. -/
theorem C18_terminates_partial (fs : FS) : resolveImports fs false ≠ .fuel := by
  unfold resolveImports
  split
  · intro h; cases h
  · split
    · intro h; cases h
    · simp only
      split
      · intro h; cases h
      · simp only [Bool.false_eq_true, if_false]
        split <;> (intro h; cases h)

end Bebop.Text
