/-
  C14  Parsing, validating, generating and formatting are pure and repeatable.

  What a theorem can carry here, and what it cannot:
  * "leave the File they were given unchanged": File.Generate has a value receiver, but the copy's slices
    share the caller's backing arrays. The extractor lists Generate's stores into the receiver copy
    (PurityFacts.generateEvents, regenerated from gen.go every run); `C14_generate_never_writes_callers_arrays`
    proves on the Go slice model that with that event list no backing array that existed before the call is
    written, whatever is appended.
  * "does not depend on map iteration order": the extractor lists every `range` over a map in the generator
    sources with a syntactic class; `C14_no_order_sensitive_map_range` re-checks that none is order-sensitive,
    `C14_sorted_emission_order_independent` proves that collect-then-sort yields one result for every
    iteration order.
  * byte-identical repeated / concurrent results and freedom from data races are facts of the runtime: the
    purity engine (built with -race) observes them; no theorem here speaks about them.
-/
import Bebop.Proofs.Purity

namespace Bebop.Props.C14
open Bebop.Purity

/-- The stores of File.Generate into its receiver copy are: clip each slice first, append afterwards. -/
theorem C14_generate_clips_before_appending : eventsSafe generateEvents [] = true := by decide

/-- For every field of the File, every heap of backing arrays, every slice header the caller may hold
    (spare capacity or not) and every data appended by Generate: no array that existed before the call
    changes. -/
theorem C14_generate_never_writes_callers_arrays (field : String) (data : Nat → List Nat) (h : Heap) (s : Slice) :
    ∀ i, i < h.length → (runField field generateEvents data 0 h s).1[i]? = h[i]? :=
  runField_frame field generateEvents [] data 0 h s h.length C14_generate_clips_before_appending (Nat.le_refl _)
    (by intro hc; simp at hc)

/-- Why the clip matters: with spare capacity, an unclipped append writes into the caller's array. -/
theorem C14_unclipped_append_writes_callers_array :
    ∃ (h : Heap) (s : Slice), (appendAll h s [9]).1[0]? ≠ h[0]? :=
  ⟨[[1, 2, 0]], { arr := 0, off := 0, len := 2, cap := 3 }, by decide⟩

/-- No `range` over a map in the generator, validator or tokenizer sources is order-sensitive (regenerated
    audit: each one only stores into maps / sets, collects into a slice that is sorted afterwards, or tests
    existence). -/
theorem C14_no_order_sensitive_map_range : PurityFacts.mapRanges.all rangeOk = true := by decide

/-- Collect-then-sort is independent of the iteration order: whatever order the map yields its entries in
    (any permutation), and whatever sorting algorithm is used (any function returning a sorted permutation),
    the emitted sequence is the same, provided the indices are distinct (they are keys of a Go map). -/
theorem C14_sorted_emission_order_independent {β} (entries₁ entries₂ r₁ r₂ : List (Nat × β))
    (horder : entries₁.Perm entries₂) (hkeys : (entries₁.map (·.1)).Nodup)
    (hs₁ : SortedBy r₁) (hp₁ : r₁.Perm entries₁) (hs₂ : SortedBy r₂) (hp₂ : r₂.Perm entries₂) : r₁ = r₂ := by
  apply sorted_perm_unique r₁ r₂ hs₁ hs₂ (hp₁.trans (horder.trans hp₂.symm))
  exact (hp₁.map (·.1)).nodup_iff.mpr hkeys

/-- non-vacuity: a run of the regenerated event list that really appends through a slice with spare capacity -/
example : (runField "Structs" generateEvents (fun _ => [7]) 0 [[1, 2, 0, 0]] { arr := 0, off := 0, len := 2, cap := 4 }).1[0]? = some [1, 2, 0, 0] := by
  decide

end Bebop.Props.C14
