package main

import (
	"hash/fnv"
	"sort"
	"sync"

	"verif/harness/internal/pkgbuild"
)

// AllProps lists the properties this engine serves.
var AllProps = []string{"C01", "C02", "C03", "C04", "C05", "C06", "C07", "C08", "C09", "C12"}

var rules = map[string]string{
	"C01": "for every well-typed value V (no deprecated fields set): every real decoder (UnmarshalBebop, MustUnmarshalBebop, DecodeBebop, Make*, and the model's dec/decs) applied to the output of every real encoder (MarshalBebop, MarshalBebopTo, EncodeBebop) returns V up to map entry order",
	"C02": "Size() == model vsize == len(MarshalBebop()); MarshalBebopTo into Size()+extra bytes (fill 0x00/0xFF/random, extra 0/7) returns Size(), leaves the tail untouched and writes a conformant head; EncodeBebop writes Size() conformant bytes; the model's marshalto agrees byte for byte when V has no multi-entry map",
	"C03": "MarshalBebop(V) is a conformant encoding (model dec gives V up to map order and model enc of that gives the same bytes; byte-identical to model enc V without multi-entry maps); reference encodings of permuted V decode to V with the real UnmarshalBebop and DecodeBebop",
	"C04": "bytes written by schema version v2 (messages with extra higher-index fields) decode under v1 (real UnmarshalBebop, DecodeBebop in all chunk modes, model dec/decs with env v1) to V2 restricted to the fields v1 knows, consuming exactly len(B2), in six nesting contexts",
	"C05": "DecodeBebop on B ++ trailing data consumes exactly Size() == len(B) bytes and returns V for chunk modes all/one/rnd; sequences of 2-4 records decode back to back from one reader; the model's decs agrees on value and consumed",
	"C06": "for every proper prefix B[:k] of an encoding: UnmarshalBebop and DecodeBebop return an error (not ok, not a panic), with the same outcome class as the model, allocating at most 64*len(B)+1MiB",
	"C07": "for corrupted encodings and unstructured random bytes: UnmarshalBebop and DecodeBebop answer ok or err (never panic, crash or time out); outcome class and decoded value equal the model's; allocation at most 64*len+1MiB (violations reported as kind alloc)",
	"C08": "a Write failure at any of the n Write calls of EncodeBebop surfaces as a non-nil error; a clean encode is conformant; a reader failing after k < len(B) bytes makes DecodeBebop return a non-nil error; the model's decsfail agrees on the outcome class",
	"C09": "the same (schema, record, V) under every generator option set gives identical bytes (conformant bytes when V has a multi-entry map) and identical decoded values; MustUnmarshalBebop equals UnmarshalBebop on B",
	"C12": "every accepted schema becomes Go that compiles under every option set (compile verdict of every emitted package)",
}

// Failure is one failing case.
type Failure struct {
	Property string           `json:"property"`
	Kind     string           `json:"kind"` // panic|mismatch|oracle|crash|timeout|build|alloc|model
	Package  string           `json:"package"`
	Schema   string           `json:"schema"`
	Options  pkgbuild.Options `json:"options"`
	Def      string           `json:"def"`
	DefIdx   int              `json:"defidx"`
	Env      []string         `json:"env"`
	DefNames []string         `json:"def_names"` // schema names of the defs, by index (for -replay)
	Op       string           `json:"op"`
	OpGz     string           `json:"op_gz,omitempty"` // base64(gzip(op)) when the operation is too long to keep verbatim
	Expected string           `json:"expected"`
	Observed string           `json:"observed"`
	Model    string           `json:"model"`
	Note     string           `json:"note"`
	// Class: what the case is an instance of, for matching against the committed known findings:
	// "resource:<kind>:<path>" for allocations / crashes / timeouts, "nested-struct" for C04 cases
	// whose record holds an evolved message below a nested struct, "" otherwise.
	Class string `json:"class"`
}

// PropStats are the statistics of one property.
type PropStats struct {
	Evaluations        int                       `json:"evaluations"`
	DistinctNontrivial int                       `json:"distinct_nontrivial"`
	FailuresTotal      int                       `json:"failures_total"`
	FailuresByKind     map[string]int            `json:"failures_by_kind,omitempty"`
	ModelCompared      int                       `json:"model_compared"`
	ModelSkipped       int                       `json:"model_skipped"`
	Rule               string                    `json:"rule"`
	Samples            []string                  `json:"samples"`
	Distribution       map[string]map[string]int `json:"distribution"`

	distinct map[uint64]struct{}
}

func newPropStats(prop string) *PropStats {
	return &PropStats{
		Rule:           rules[prop],
		FailuresByKind: map[string]int{},
		Distribution:   map[string]map[string]int{},
		distinct:       map[uint64]struct{}{},
	}
}

func (p *PropStats) dist(hist, key string) {
	m := p.Distribution[hist]
	if m == nil {
		m = map[string]int{}
		p.Distribution[hist] = m
	}
	m[key]++
}

func hash64(parts ...string) uint64 {
	h := fnv.New64a()
	for _, s := range parts {
		h.Write([]byte(s))
		h.Write([]byte{0})
	}
	return h.Sum64()
}

// Collector gathers statistics and failures from all goroutines.
type Collector struct {
	mu        sync.Mutex
	props     map[string]*PropStats
	failures  []Failure
	perBucket map[string]int // failure records kept per (property, kind, package, def)
}

func newCollector(props []string) *Collector {
	c := &Collector{props: map[string]*PropStats{}, perBucket: map[string]int{}}
	for _, p := range props {
		c.props[p] = newPropStats(p)
	}
	return c
}

const (
	maxFailures      = 120 // per property and class
	maxPerBucket     = 2
	maxPerPropKind   = 40
	maxSamplesStored = 5
)

// merge folds a goroutine-local statistics object into the collector.
func (c *Collector) merge(local map[string]*PropStats) {
	c.mu.Lock()
	defer c.mu.Unlock()
	for name, l := range local {
		g := c.props[name]
		if g == nil {
			continue
		}
		g.Evaluations += l.Evaluations
		g.ModelCompared += l.ModelCompared
		g.ModelSkipped += l.ModelSkipped
		for h := range l.distinct {
			g.distinct[h] = struct{}{}
		}
		for _, s := range l.Samples {
			if len(g.Samples) < maxSamplesStored {
				g.Samples = append(g.Samples, s)
			}
		}
		for hist, m := range l.Distribution {
			for k, n := range m {
				gm := g.Distribution[hist]
				if gm == nil {
					gm = map[string]int{}
					g.Distribution[hist] = gm
				}
				gm[k] += n
			}
		}
	}
}

// fail records a failure (all are counted, a bounded number is kept).
func (c *Collector) fail(f Failure) {
	c.mu.Lock()
	defer c.mu.Unlock()
	g := c.props[f.Property]
	if g == nil {
		return
	}
	g.FailuresTotal++
	g.FailuresByKind[f.Kind]++
	bucket := f.Property + "|" + f.Kind + "|" + f.Package + "|" + f.Def + "|" + f.Class // a differently classed case is never crowded out
	pk := f.Property + "|" + f.Kind + "|" + f.Class
	// bounded per property, never globally: a property checked late (C09 is compared at the very end) must
	// not lose its failing cases because earlier properties filled the list
	pp := "prop|" + f.Property + "|" + f.Class
	if c.perBucket[bucket] >= maxPerBucket || c.perBucket[pk] >= maxPerPropKind || c.perBucket[pp] >= maxFailures {
		return
	}
	c.perBucket[bucket]++
	c.perBucket[pk]++
	c.perBucket[pp]++
	c.failures = append(c.failures, f)
}

func (c *Collector) finish() (map[string]*PropStats, []Failure) {
	c.mu.Lock()
	defer c.mu.Unlock()
	for _, g := range c.props {
		g.DistinctNontrivial = len(g.distinct)
		if g.Samples == nil {
			g.Samples = []string{}
		}
	}
	fs := append([]Failure(nil), c.failures...)
	sort.SliceStable(fs, func(i, j int) bool { return fs[i].Property < fs[j].Property })
	return c.props, fs
}
