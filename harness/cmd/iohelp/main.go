// Command iohelp is the correspondence engine for property C20: the real iohelp primitives, in-process,
// against the Lean model (bebop-model) and against direct oracles.
//
// Model env: def i = struct with one field of primitive i, so `dec 1 i <hex>` is the model's
// Read<T>Bytes and `decs i <hex>` its Read<T> from a stream.
package main

import (
	"bytes"
	"encoding/hex"
	"encoding/json"
	"errors"
	"flag"
	"fmt"
	"io"
	"math"
	"math/rand"
	"os"
	"strconv"
	"strings"
	"time"

	"github.com/200sc/bebop/iohelp"
	"verif/harness/internal/proc"
)

type failure struct {
	Property string `json:"property"`
	Kind     string `json:"kind"`
	Op       string `json:"op"`
	Expected string `json:"expected"`
	Observed string `json:"observed"`
	Model    string `json:"model,omitempty"`
	Note     string `json:"note"`
}

type stat struct {
	Evaluations        int             `json:"evaluations"`
	DistinctNontrivial int             `json:"distinct_nontrivial"`
	Rule               string          `json:"rule"`
	Samples            []string        `json:"samples"`
	Distribution       map[string]int  `json:"distribution"`
	Exhaustive         map[string]bool `json:"exhaustive_domains"`
	FailuresTotal      int             `json:"failures_total"`
}

var (
	fails = []failure{}
	st    = stat{Distribution: map[string]int{}, Exhaustive: map[string]bool{},
		Rule: "every primitive x every value (exhaustive for 8- and 16-bit, boundary + seeded random beyond) through the slice and stream read/write functions, compared with each other, with the Lean model's encoding, and with the model's decoders; buffer lengths width-2..width+2; every reader failure offset with a poisoned previous read. distinct = distinct (primitive, bit pattern / length / offset) triples"}
	distinct = map[string]struct{}{}
	model    *proc.Proc
)

func fail(kind, op, exp, obs, mdl, note string) {
	st.FailuresTotal++
	if len(fails) < 200 {
		fails = append(fails, failure{"C20", kind, op, exp, obs, mdl, note})
	}
}

func count(class, key string) {
	st.Evaluations++
	st.Distribution[class]++
	distinct[class+"/"+key] = struct{}{}
}

type prim struct {
	name  string
	ty    string // model Ty token
	width int
	// writeB writes the bit pattern into a buffer with the slice writer; readB reads the pattern back.
	writeB func(b []byte, bits uint64)
	readB  func(b []byte) uint64
	writeS func(w *iohelp.ErrorWriter, bits uint64)
	readS  func(r *iohelp.ErrorReader) uint64
}

func b2u(b bool) uint64 {
	if b {
		return 1
	}
	return 0
}

var prims = []prim{
	{"bool", "bool", 1,
		func(b []byte, x uint64) { iohelp.WriteBoolBytes(b, x == 1) }, func(b []byte) uint64 { return b2u(iohelp.ReadBoolBytes(b)) },
		func(w *iohelp.ErrorWriter, x uint64) { iohelp.WriteBool(w, x == 1) }, func(r *iohelp.ErrorReader) uint64 { return b2u(iohelp.ReadBool(r)) }},
	{"byte", "s1", 1,
		func(b []byte, x uint64) { iohelp.WriteByteBytes(b, byte(x)) }, func(b []byte) uint64 { return uint64(iohelp.ReadByteBytes(b)) },
		func(w *iohelp.ErrorWriter, x uint64) { iohelp.WriteByte(w, byte(x)) }, func(r *iohelp.ErrorReader) uint64 { return uint64(iohelp.ReadByte(r)) }},
	{"uint8", "s1", 1,
		func(b []byte, x uint64) { iohelp.WriteUint8Bytes(b, uint8(x)) }, func(b []byte) uint64 { return uint64(iohelp.ReadUint8Bytes(b)) },
		func(w *iohelp.ErrorWriter, x uint64) { iohelp.WriteUint8(w, uint8(x)) }, func(r *iohelp.ErrorReader) uint64 { return uint64(iohelp.ReadUint8(r)) }},
	{"uint16", "s2", 2,
		func(b []byte, x uint64) { iohelp.WriteUint16Bytes(b, uint16(x)) }, func(b []byte) uint64 { return uint64(iohelp.ReadUint16Bytes(b)) },
		func(w *iohelp.ErrorWriter, x uint64) { iohelp.WriteUint16(w, uint16(x)) }, func(r *iohelp.ErrorReader) uint64 { return uint64(iohelp.ReadUint16(r)) }},
	{"int16", "s2", 2,
		func(b []byte, x uint64) { iohelp.WriteInt16Bytes(b, int16(x)) }, func(b []byte) uint64 { return uint64(uint16(iohelp.ReadInt16Bytes(b))) },
		func(w *iohelp.ErrorWriter, x uint64) { iohelp.WriteInt16(w, int16(x)) }, func(r *iohelp.ErrorReader) uint64 { return uint64(uint16(iohelp.ReadInt16(r))) }},
	{"uint32", "s4", 4,
		func(b []byte, x uint64) { iohelp.WriteUint32Bytes(b, uint32(x)) }, func(b []byte) uint64 { return uint64(iohelp.ReadUint32Bytes(b)) },
		func(w *iohelp.ErrorWriter, x uint64) { iohelp.WriteUint32(w, uint32(x)) }, func(r *iohelp.ErrorReader) uint64 { return uint64(iohelp.ReadUint32(r)) }},
	{"int32", "s4", 4,
		func(b []byte, x uint64) { iohelp.WriteInt32Bytes(b, int32(x)) }, func(b []byte) uint64 { return uint64(uint32(iohelp.ReadInt32Bytes(b))) },
		func(w *iohelp.ErrorWriter, x uint64) { iohelp.WriteInt32(w, int32(x)) }, func(r *iohelp.ErrorReader) uint64 { return uint64(uint32(iohelp.ReadInt32(r))) }},
	{"uint64", "s8", 8,
		func(b []byte, x uint64) { iohelp.WriteUint64Bytes(b, x) }, func(b []byte) uint64 { return iohelp.ReadUint64Bytes(b) },
		func(w *iohelp.ErrorWriter, x uint64) { iohelp.WriteUint64(w, x) }, func(r *iohelp.ErrorReader) uint64 { return iohelp.ReadUint64(r) }},
	{"int64", "s8", 8,
		func(b []byte, x uint64) { iohelp.WriteInt64Bytes(b, int64(x)) }, func(b []byte) uint64 { return uint64(iohelp.ReadInt64Bytes(b)) },
		func(w *iohelp.ErrorWriter, x uint64) { iohelp.WriteInt64(w, int64(x)) }, func(r *iohelp.ErrorReader) uint64 { return uint64(iohelp.ReadInt64(r)) }},
	{"float32", "f32", 4,
		func(b []byte, x uint64) { iohelp.WriteFloat32Bytes(b, math.Float32frombits(uint32(x))) }, func(b []byte) uint64 { return uint64(math.Float32bits(iohelp.ReadFloat32Bytes(b))) },
		func(w *iohelp.ErrorWriter, x uint64) { iohelp.WriteFloat32(w, math.Float32frombits(uint32(x))) }, func(r *iohelp.ErrorReader) uint64 { return uint64(math.Float32bits(iohelp.ReadFloat32(r))) }},
	{"float64", "f64", 8,
		func(b []byte, x uint64) { iohelp.WriteFloat64Bytes(b, math.Float64frombits(x)) }, func(b []byte) uint64 { return math.Float64bits(iohelp.ReadFloat64Bytes(b)) },
		func(w *iohelp.ErrorWriter, x uint64) { iohelp.WriteFloat64(w, math.Float64frombits(x)) }, func(r *iohelp.ErrorReader) uint64 { return math.Float64bits(iohelp.ReadFloat64(r)) }},
}

func mask(width int) uint64 {
	if width >= 8 {
		return ^uint64(0)
	}
	return (uint64(1) << (8 * uint(width))) - 1
}

func ask(line string) string {
	r, err := model.Send(line)
	if err != nil {
		fmt.Fprintln(os.Stderr, "iohelp engine: model:", err)
		os.Exit(2)
	}
	return r
}

func hexOf(b []byte) string {
	if len(b) == 0 {
		return "-"
	}
	return hex.EncodeToString(b)
}

func safely(f func()) (p string) {
	defer func() {
		if r := recover(); r != nil {
			p = fmt.Sprint(r)
		}
	}()
	f()
	return ""
}

func values(p prim, rng *rand.Rand, tier string) (vals []uint64, exhaustive bool) {
	if p.name == "bool" {
		return []uint64{0, 1}, true
	}
	if p.width <= 2 {
		n := uint64(1) << (8 * uint(p.width))
		for i := uint64(0); i < n; i++ {
			vals = append(vals, i)
		}
		return vals, true
	}
	m := mask(p.width)
	base := []uint64{0, 1, 2, 0x7f, 0x80, 0xff, 0x100, 0x7fff, 0x8000, 0xffff, 0x10000, 0x7fffffff, 0x80000000,
		0xffffffff, 0x100000000, 0x7fffffffffffffff, 0x8000000000000000, 0xffffffffffffffff,
		0x0102030405060708, 0x7ff8dead0000beef, 0x7ff0000000000001, 0xfff0000000000000, 0x7fc00001, 0x7f800001, 0xff800000, 0x80000000, 0x8000000000000000}
	for _, b := range base {
		vals = append(vals, b&m)
	}
	n := 2000
	if tier == "thorough" {
		n = 200000
	}
	for i := 0; i < n; i++ {
		vals = append(vals, rng.Uint64()&m)
	}
	return vals, false
}

type failingReader struct {
	data []byte
	pos  int
	err  error
}

func (f *failingReader) Read(p []byte) (int, error) {
	if f.pos >= len(f.data) {
		return 0, f.err
	}
	n := copy(p[:1], f.data[f.pos:]) // one byte at a time
	f.pos += n
	return n, nil
}

var errInjected = errors.New("injected read failure")

// shapedReader delivers data in one of the ways the io.Reader contract allows: 0 everything at once, 1 one byte per
// call, 2 everything at once TOGETHER with io.EOF (iotest.DataErrReader; sockets and HTTP bodies do this), 3 one byte
// per call and the last byte together with io.EOF, 4 an empty read (0, nil) before every byte.
type shapedReader struct {
	data  []byte
	pos   int
	mode  int
	empty bool
}

func (s *shapedReader) Read(p []byte) (int, error) {
	if len(p) == 0 {
		return 0, nil
	}
	if s.pos >= len(s.data) {
		return 0, io.EOF
	}
	if s.mode == 4 {
		if s.empty = !s.empty; s.empty {
			return 0, nil
		}
	}
	n := len(p)
	if s.mode == 1 || s.mode == 3 || s.mode == 4 {
		n = 1
	}
	n = copy(p[:n], s.data[s.pos:])
	s.pos += n
	if (s.mode == 2 || s.mode == 3) && s.pos == len(s.data) {
		return n, io.EOF
	}
	return n, nil
}

var shapeNames = []string{"all-at-once", "one-byte", "data+EOF", "one-byte, last with EOF", "empty reads between bytes"}

// shaped: the stream readers must return the same value, with Err == nil, however a complete value is delivered.
func shaped(data []byte, each func(shape string, er *iohelp.ErrorReader)) {
	for m := range shapeNames {
		each(shapeNames[m], iohelp.NewErrorReader(&shapedReader{data: data, mode: m}))
	}
}

func main() {
	seed := flag.Int64("seed", 1, "")
	tier := flag.String("tier", "quick", "")
	modelPath := flag.String("model", "", "")
	_ = flag.String("work", "", "")
	_ = flag.String("repo", "/repo", "")
	out := flag.String("out", "", "")
	replay := flag.String("replay", "", "")
	flag.Parse()
	if *replay != "" {
		b, _ := os.ReadFile(*replay)
		fmt.Println("iohelp engine is deterministic per seed; the failing case is:")
		fmt.Println(string(b))
		fmt.Println("re-run: ./check C20 --seed <seed in the replay file>")
		return
	}
	rng := rand.New(rand.NewSource(*seed))
	model = proc.Command([]string{*modelPath}, nil, 20*time.Second)
	defer model.Close()
	// env: def i = struct { prim_i }, then guid, date, str
	pre := []string{fmt.Sprintf("env %d", len(prims)+3)}
	for i, p := range prims {
		pre = append(pre, fmt.Sprintf("def %d struct 1 %s", i, p.ty))
	}
	gi, di, si := len(prims), len(prims)+1, len(prims)+2
	pre = append(pre, fmt.Sprintf("def %d struct 1 guid", gi), fmt.Sprintf("def %d struct 1 date", di), fmt.Sprintf("def %d struct 1 str", si))
	if err := model.SetPreamble(pre); err != nil {
		fmt.Fprintln(os.Stderr, "iohelp engine:", err)
		os.Exit(2)
	}

	for i, p := range prims {
		vals, exh := values(p, rng, *tier)
		st.Exhaustive[p.name] = exh
		modelEvery := 1
		if len(vals) > 5000 {
			modelEvery = len(vals) / 5000
		}
		for vi, x := range vals {
			count("roundtrip/"+p.name, strconv.FormatUint(x, 16))
			buf := bytes.Repeat([]byte{0xAA}, p.width+3)
			if pn := safely(func() { p.writeB(buf, x) }); pn != "" {
				fail("panic", fmt.Sprintf("Write%sBytes(%#x)", p.name, x), "no panic", pn, "", "slice writer")
				continue
			}
			enc := append([]byte(nil), buf[:p.width]...)
			for _, t := range buf[p.width:] {
				if t != 0xAA {
					fail("oracle", fmt.Sprintf("Write%sBytes(%#x)", p.name, x), "bytes after the width untouched", hexOf(buf), "", "writes beyond its width")
					break
				}
			}
			// little-endian layout (direct oracle)
			want := make([]byte, p.width)
			for k := 0; k < p.width; k++ {
				want[k] = byte(x >> (8 * uint(k)))
			}
			if !bytes.Equal(enc, want) {
				fail("oracle", fmt.Sprintf("Write%sBytes(%#x)", p.name, x), hexOf(want), hexOf(enc), "", "layout is not little-endian")
			}
			// read back, slice
			var got uint64
			if pn := safely(func() { got = p.readB(enc) }); pn != "" {
				fail("panic", fmt.Sprintf("Read%sBytes(%s)", p.name, hexOf(enc)), "no panic", pn, "", "slice reader")
				continue
			}
			if got != x {
				fail("oracle", fmt.Sprintf("Read%sBytes(Write%sBytes(%#x))", p.name, p.name, x), fmt.Sprintf("%#x", x), fmt.Sprintf("%#x", got), "", "slice round trip")
			}
			// stream writer emits the same bytes; stream reader returns the same value
			var bb bytes.Buffer
			ew := iohelp.NewErrorWriter(&bb)
			p.writeS(ew, x)
			if ew.Err != nil || !bytes.Equal(bb.Bytes(), enc) {
				fail("oracle", fmt.Sprintf("Write%s(%#x)", p.name, x), hexOf(enc), hexOf(bb.Bytes()), "", "stream writer differs from slice writer")
			}
			er := iohelp.NewErrorReader(bytes.NewReader(enc))
			gs := p.readS(er)
			if er.Err != nil || gs != x {
				fail("oracle", fmt.Sprintf("Read%s(%s)", p.name, hexOf(enc)), fmt.Sprintf("%#x", x), fmt.Sprintf("%#x err=%v", gs, er.Err), "", "stream round trip")
			}
			if vi%17 == 0 {
				shaped(enc, func(shape string, er *iohelp.ErrorReader) {
					if gs := p.readS(er); er.Err != nil || gs != x {
						fail("oracle", fmt.Sprintf("Read%s(%s) from a reader delivering %s", p.name, hexOf(enc), shape), fmt.Sprintf("%#x", x), fmt.Sprintf("%#x err=%v", gs, er.Err), "", "stream round trip depends on how the reader delivers the bytes")
					}
				})
			}
			// model agreement (sampled when the domain is large)
			if vi%modelEvery == 0 {
				m := ask(fmt.Sprintf("enc st 1 n %d %d", p.width, x))
				if m != fmt.Sprintf("ok %s %d", hexOf(enc), p.width) {
					fail("mismatch", fmt.Sprintf("enc %s %#x", p.name, x), m, "ok "+hexOf(enc), m, "model encoding differs from Write*Bytes")
				}
				wantDec := fmt.Sprintf("ok st 1 n %d %d", p.width, x)
				if m := ask(fmt.Sprintf("dec 1 %d %s", i, hexOf(enc))); m != wantDec {
					fail("mismatch", fmt.Sprintf("dec %s %s", p.name, hexOf(enc)), m, wantDec, m, "model slice decoder differs from Read*Bytes")
				}
				if m := ask(fmt.Sprintf("decs %d %s", i, hexOf(enc))); m != wantDec+fmt.Sprintf(" %d", p.width) {
					fail("mismatch", fmt.Sprintf("decs %s %s", p.name, hexOf(enc)), m, wantDec, m, "model stream decoder differs from Read*")
				}
			}
		}
		// non-canonical bool bytes: anything but 1 reads as false (model normalises the same way)
		if p.name == "bool" {
			for b := 0; b < 256; b++ {
				count("boolbyte", strconv.Itoa(b))
				got := iohelp.ReadBoolBytes([]byte{byte(b)})
				m := ask(fmt.Sprintf("dec 1 %d %02x", i, b))
				want := fmt.Sprintf("ok st 1 n 1 %d", b2u(got))
				if m != want {
					fail("mismatch", fmt.Sprintf("ReadBoolBytes(%02x)", b), m, want, m, "bool normalisation")
				}
			}
		}
		// stale data: a successful read of all-ones, then a read that fails at every offset < width
		for cut := 0; cut < p.width; cut++ {
			for _, ek := range []error{io.EOF, errInjected} {
				count("stale/"+p.name, fmt.Sprintf("%d/%v", cut, ek == io.EOF))
				data := append(bytes.Repeat([]byte{0xFF}, 8), bytes.Repeat([]byte{0xEE}, cut)...)
				er := iohelp.NewErrorReader(&failingReader{data: data, err: ek})
				if v := iohelp.ReadUint64(er); v != ^uint64(0) || er.Err != nil {
					fail("oracle", "ReadUint64 (poison)", "all ones", fmt.Sprint(v, er.Err), "", "poisoning read failed")
				}
				var got uint64
				pn := safely(func() { got = p.readS(er) })
				if pn != "" {
					fail("panic", fmt.Sprintf("Read%s after %d of %d bytes", p.name, cut, p.width), "no panic", pn, "", "stream read with a failing reader")
					continue
				}
				if er.Err == nil {
					fail("oracle", fmt.Sprintf("Read%s after %d of %d bytes then %v", p.name, cut, p.width, ek), "ErrorReader.Err != nil", "nil", "", "failed read not reflected in the error state")
				}
				if got != 0 {
					fail("oracle", fmt.Sprintf("Read%s after %d of %d bytes then %v", p.name, cut, p.width, ek), "zero value", fmt.Sprintf("%#x", got), "", "value returned after a failed read is not zero (stale scratch bytes)")
				}
				m := ask(fmt.Sprintf("decs %d %s", i, hexOf(data[8:])))
				if !strings.HasPrefix(m, "err ") {
					fail("mismatch", fmt.Sprintf("decs %s %s", p.name, hexOf(data[8:])), m, "err", m, "model accepts a short stream")
				}
			}
		}
		// short buffers for the slice reader: documented to panic (unchecked); the model agrees (dec 0)
		for l := 0; l < p.width; l++ {
			count("short/"+p.name, strconv.Itoa(l))
			m := ask(fmt.Sprintf("dec 1 %d %s", i, hexOf(bytes.Repeat([]byte{1}, l))))
			if m != "err" {
				fail("mismatch", fmt.Sprintf("dec 1 %s len %d", p.name, l), m, "err", m, "model: checked read of a short buffer")
			}
		}
	}

	// GUIDs
	nG := 300
	if *tier == "thorough" {
		nG = 20000
	}
	for k := 0; k < nG; k++ {
		var g [16]byte
		if k == 0 {
			for i := range g {
				g[i] = byte(i + 1)
			}
		} else {
			rng.Read(g[:])
		}
		count("guid", hex.EncodeToString(g[:]))
		buf := make([]byte, 16)
		iohelp.WriteGUIDBytes(buf, g)
		var bb bytes.Buffer
		iohelp.WriteGUID(iohelp.NewErrorWriter(&bb), g)
		if !bytes.Equal(bb.Bytes(), buf) {
			fail("oracle", "WriteGUID", hexOf(buf), hexOf(bb.Bytes()), "", "stream and slice GUID writers differ")
		}
		want := []byte{g[3], g[2], g[1], g[0], g[5], g[4], g[7], g[6], g[8], g[9], g[10], g[11], g[12], g[13], g[14], g[15]}
		if !bytes.Equal(buf, want) {
			fail("oracle", "WriteGUIDBytes", hexOf(want), hexOf(buf), "", "not the .NET field order")
		}
		if back := iohelp.ReadGUIDBytes(buf); back != g {
			fail("oracle", "ReadGUIDBytes(WriteGUIDBytes(g))", hexOf(g[:]), hexOf(back[:]), "", "GUID slice round trip")
		}
		if back := iohelp.ReadGUID(iohelp.NewErrorReader(bytes.NewReader(buf))); back != g {
			fail("oracle", "ReadGUID(WriteGUID(g))", hexOf(g[:]), hexOf(back[:]), "", "GUID stream round trip")
		}
		shaped(buf, func(shape string, er *iohelp.ErrorReader) {
			if back := iohelp.ReadGUID(er); er.Err != nil || back != g {
				fail("oracle", "ReadGUID from a reader delivering "+shape, hexOf(g[:]), fmt.Sprintf("%s err=%v", hexOf(back[:]), er.Err), "", "GUID stream round trip depends on how the reader delivers the bytes")
			}
		})
		if k < 200 {
			if m := ask("enc st 1 guid " + hexOf(g[:])); m != "ok "+hexOf(buf)+" 16" {
				fail("mismatch", "enc guid "+hexOf(g[:]), m, "ok "+hexOf(buf), m, "model GUID wire order")
			}
			wantDec := "ok st 1 guid " + hexOf(g[:])
			if m := ask(fmt.Sprintf("dec 1 %d %s", gi, hexOf(buf))); m != wantDec {
				fail("mismatch", "dec guid", m, wantDec, m, "model GUID read order")
			}
		}
	}
	for cut := 0; cut < 16; cut++ {
		count("stale/guid", strconv.Itoa(cut))
		data := append(bytes.Repeat([]byte{0xFF}, 8), bytes.Repeat([]byte{0xEE}, cut)...)
		er := iohelp.NewErrorReader(&failingReader{data: data, err: errInjected})
		_ = iohelp.ReadUint64(er)
		g := iohelp.ReadGUID(er)
		if er.Err == nil || g != [16]byte{} {
			fail("oracle", fmt.Sprintf("ReadGUID after %d of 16 bytes", cut), "zero GUID and Err != nil", fmt.Sprint(hexOf(g[:]), er.Err), "", "failed GUID read")
		}
	}

	// dates
	ticks := []int64{0, 1, -1, 100, -100, 1234567, 16725225600 * 1e7, math.MaxInt64 / 100, math.MinInt64 / 100, math.MaxInt64/100 + 1, math.MaxInt64, math.MinInt64, 1 << 62}
	nD := 2000
	if *tier == "thorough" {
		nD = 100000
	}
	for k := 0; k < nD; k++ {
		if k%2 == 0 {
			ticks = append(ticks, rng.Int63n(math.MaxInt64/100)*int64(1-2*(k%4/2)))
		} else {
			ticks = append(ticks, int64(rng.Uint64()))
		}
	}
	for k, t := range ticks {
		count("date", strconv.FormatInt(t, 10))
		buf := make([]byte, 8)
		iohelp.WriteInt64Bytes(buf, t)
		tm := iohelp.ReadDateBytes(buf)
		ts := iohelp.ReadDate(iohelp.NewErrorReader(bytes.NewReader(buf)))
		if !tm.Equal(ts) || tm.IsZero() != ts.IsZero() {
			fail("oracle", fmt.Sprintf("ReadDate vs ReadDateBytes ticks=%d", t), tm.String(), ts.String(), "", "stream and slice date readers differ")
		}
		shaped(buf, func(shape string, er *iohelp.ErrorReader) {
			if ts := iohelp.ReadDate(er); er.Err != nil || !tm.Equal(ts) {
				fail("oracle", fmt.Sprintf("ReadDate ticks=%d from a reader delivering %s", t, shape), tm.String(), fmt.Sprintf("%s err=%v", ts, er.Err), "", "date stream read depends on how the reader delivers the bytes")
			}
		})
		if (t == 0) != tm.IsZero() && t*100 != 0 {
			fail("oracle", fmt.Sprintf("ReadDateBytes ticks=%d", t), "zero time iff tick 0", tm.String(), "", "zero time correspondence")
		}
		if t == 0 && !tm.IsZero() {
			fail("oracle", "ReadDateBytes ticks=0", "zero time", tm.String(), "", "tick 0 must be the zero time")
		}
		// what re-encoding gives: 0 if zero else UnixNano()/100
		var re int64
		if !tm.IsZero() {
			re = tm.UnixNano() / 100
			if !tm.Equal(time.Unix(0, tm.UnixNano())) {
				// outside the range of UnixNano, which wraps silently: no tick count at all
				fail("oracle", fmt.Sprintf("date ticks=%d", t), "an instant within the range of int64 nanoseconds", tm.String(), "", "ReadDateBytes returned an instant that UnixNano cannot represent")
			}
		}
		inRange := t <= math.MaxInt64/100 && t >= math.MinInt64/100
		if inRange && re != t {
			fail("oracle", fmt.Sprintf("date ticks=%d", t), strconv.FormatInt(t, 10), strconv.FormatInt(re, 10), "", "in-range tick count does not survive")
		}
		if k < 400 {
			want := fmt.Sprintf("ok st 1 n 8 %d", uint64(re))
			if m := ask(fmt.Sprintf("dec 1 %d %s", di, hexOf(buf))); m != want {
				fail("mismatch", fmt.Sprintf("dec date ticks=%d", t), m, want, m, "model date normalisation")
			}
		}
	}
	for cut := 0; cut < 8; cut++ {
		count("stale/date", strconv.Itoa(cut))
		data := append(bytes.Repeat([]byte{0xFF}, 8), bytes.Repeat([]byte{0xEE}, cut)...)
		er := iohelp.NewErrorReader(&failingReader{data: data, err: errInjected})
		_ = iohelp.ReadUint64(er)
		d := iohelp.ReadDate(er)
		if er.Err == nil || !d.IsZero() {
			fail("oracle", fmt.Sprintf("ReadDate after %d of 8 bytes", cut), "zero time and Err != nil", fmt.Sprint(d, er.Err), "", "failed date read")
		}
	}

	// strings whose length prefix lies about the buffer: every prefix value around the arithmetic boundaries of
	// the bounds check (int / uint32 wrap-around), on short and on longer buffers -- an error, never a panic
	for _, claimed := range []uint32{1, 2, 7, 0x7FFFFFFB, 0x7FFFFFFC, 0x7FFFFFFF, 0x80000000, 0x80000001, 0xFFFFFFF0,
		0xFFFFFFFB, 0xFFFFFFFC, 0xFFFFFFFD, 0xFFFFFFFE, 0xFFFFFFFF} {
		for _, have := range []int{0, 1, 3, 4, 5, 64} {
			if uint64(have) >= uint64(claimed) {
				continue
			}
			count("string/lying-prefix", fmt.Sprintf("%#x/%d", claimed, have))
			buf := make([]byte, 4+have)
			iohelp.WriteUint32Bytes(buf, claimed)
			for i := 4; i < len(buf); i++ {
				buf[i] = 'a'
			}
			for name, fn := range map[string]func([]byte) (string, error){"ReadStringBytes": iohelp.ReadStringBytes, "ReadStringBytesSharedMemory": iohelp.ReadStringBytesSharedMemory} {
				var err error
				pn := safely(func() { _, err = fn(buf) })
				if pn != "" {
					fail("panic", fmt.Sprintf("%s(prefix %#x, %d bytes follow)", name, claimed, have), "error, not panic", pn, "", "length prefix larger than the buffer")
				} else if err == nil {
					fail("oracle", fmt.Sprintf("%s(prefix %#x, %d bytes follow)", name, claimed, have), "error", "nil", "", "accepts a string longer than the buffer")
				}
			}
			m := ask(fmt.Sprintf("dec 1 %d %s", si, hexOf(buf)))
			if strings.HasPrefix(m, "ok ") || strings.HasPrefix(m, "panic") {
				fail("mismatch", fmt.Sprintf("dec str prefix %#x, %d bytes follow", claimed, have), "err", m, m, "model string read differs")
			}
		}
	}

	// strings: every buffer length around 4+n; shared-memory variant agrees
	for _, n := range []int{0, 1, 2, 5, 255, 256, 1000} {
		body := make([]byte, n)
		rng.Read(body)
		full := make([]byte, 4+n)
		iohelp.WriteUint32Bytes(full, uint32(n))
		copy(full[4:], body)
		shaped(full, func(shape string, er *iohelp.ErrorReader) {
			count("string-shape", fmt.Sprintf("%d/%s", n, shape))
			if got := iohelp.ReadString(er); er.Err != nil || got != string(body) {
				fail("oracle", fmt.Sprintf("ReadString of %d bytes from a reader delivering %s", n, shape), fmt.Sprintf("%q", abbrevS(string(body))), fmt.Sprintf("%q err=%v", abbrevS(got), er.Err), "", "string stream read depends on how the reader delivers the bytes")
			}
		})
		for l := 0; l <= 4+n+2; l++ {
			if n > 300 && l > 8 && l < 4+n-3 {
				continue
			}
			count("string", fmt.Sprintf("%d/%d", n, l))
			buf := append(append([]byte(nil), full...), 0x55, 0x66)[:l]
			var s, s2 string
			var err, err2 error
			pn := safely(func() { s, err = iohelp.ReadStringBytes(buf); s2, err2 = iohelp.ReadStringBytesSharedMemory(buf) })
			if pn != "" {
				fail("panic", fmt.Sprintf("ReadStringBytes(len %d of %d)", l, 4+n), "error, not panic", pn, "", "reads out of bounds")
				continue
			}
			if (err == nil) != (err2 == nil) || s != s2 {
				fail("oracle", fmt.Sprintf("ReadStringBytesSharedMemory(len %d of %d)", l, 4+n), fmt.Sprint(s, err), fmt.Sprint(s2, err2), "", "shared-memory variant differs")
			}
			if l < 4+n {
				if err == nil {
					fail("oracle", fmt.Sprintf("ReadStringBytes(len %d of %d)", l, 4+n), "error", "nil", "", "accepts a short buffer")
				}
			} else if err != nil || s != string(body) {
				fail("oracle", fmt.Sprintf("ReadStringBytes(len %d of %d)", l, 4+n), "the string", fmt.Sprint(err), "", "rejects a sufficient buffer")
			}
			m := ask(fmt.Sprintf("dec 1 %d %s", si, hexOf(buf)))
			if (err == nil) != strings.HasPrefix(m, "ok ") {
				fail("mismatch", fmt.Sprintf("dec str len %d of %d", l, 4+n), m, fmt.Sprint(err), m, "model string read differs")
			}
		}
		// stream: ReadString with a failing reader returns "" and latches
		for cut := 0; cut < 4+n; cut += 1 + n/7 {
			count("stale/string", fmt.Sprintf("%d/%d", n, cut))
			er := iohelp.NewErrorReader(&failingReader{data: full[:cut], err: errInjected})
			var s string
			pn := safely(func() { s = iohelp.ReadString(er) })
			if pn != "" {
				fail("panic", fmt.Sprintf("ReadString cut %d of %d", cut, 4+n), "no panic", pn, "", "stream string read")
				continue
			}
			if er.Err == nil || s != "" {
				fail("oracle", fmt.Sprintf("ReadString cut %d of %d", cut, 4+n), `"" and Err != nil`, fmt.Sprintf("%q %v", s, er.Err), "", "failed string read returns data")
			}
		}
	}

	st.DistinctNontrivial = len(distinct)
	st.Samples = []string{
		"roundtrip/float64 0x7ff8dead0000beef (NaN payload) through Write/Read Float64Bytes, Float64, model enc/dec/decs",
		"stale/uint32 cut=2: ReadUint64 of ff*8 succeeds, then ReadUint32 gets 2 bytes and an injected error: value must be 0, Err set",
		"string n=5: ReadStringBytes on every buffer length 0..11",
		"guid 0102..10 -> 04030201 0605 0807 090a0b0c0d0e0f10",
		"date ticks=-1 -> time.Unix(0,-100).UTC(), re-encodes to -1",
	}
	res := map[string]interface{}{
		"engine": "iohelp", "seed": *seed, "tier": *tier,
		"stats":    map[string]interface{}{"C20": st},
		"failures": fails,
	}
	b, _ := json.MarshalIndent(res, "", " ")
	if *out != "" {
		if err := os.WriteFile(*out, b, 0o644); err != nil {
			fmt.Fprintln(os.Stderr, err)
			os.Exit(2)
		}
	}
	fmt.Printf("C20: evaluations=%d distinct=%d failures=%d\n", st.Evaluations, st.DistinctNontrivial, st.FailuresTotal)
}

func abbrevS(s string) string {
	if len(s) > 40 {
		return s[:40] + "..."
	}
	return s
}
