/-
  C02 — All encoders emit the same bytes and Size() is their exact length.

  `enc` is the reference encoding (Bebop.Wire); `vsize` is what Size() computes on a value without
  deprecated fields (every `wt` value; `gsize` is Size() in general, `C02_size_is_go_size`); `marshal`, `marshalTo`
  (Bebop.Slice) and `encodeStream` (Bebop.Stream) model the three generated encoders.
  Map entries: a `Val` carries its entries in the order they go on the wire, so "the same bytes up to
  the order of map entries" is "the same bytes for the same `Val`".
-/
import Bebop.Props.Common
import Bebop.Proofs.Enc
import Bebop.Proofs.Writer
import Bebop.Proofs.GSize

namespace Bebop

/-- Size() is exactly the length of the encoding. -/
theorem C02_size_exact (v : Val) : vsize v = (enc v).length := (length_enc v).symm

/-- The link to the generated `Size()` proper (`gsize`, type-directed: it skips the fields a message
    definition marks deprecated): on every well-typed value — which holds no deprecated field, the encoders
    never write one — it is `vsize`, hence the length of the encoding. -/
theorem C02_size_is_go_size (env : Env) (ty : Ty) (v : Val) (h : wt env ty v) : gsize env ty v = vsize v :=
  gsize_eq_vsize_of_wt env v ty h

/-- MarshalBebopTo into ANY buffer that is long enough, whatever it held before: the first Size() bytes
    become the encoding, every byte after them is untouched, and the returned count is Size(). It never
    panics there. This is the frame condition: nothing outside the first Size() bytes is written. -/
theorem C02_marshalTo_frame (v : Val) (buf : List Byte) (h : vsize v ≤ buf.length) :
    marshalTo v buf = some (enc v ++ buf.drop (vsize v), vsize v) := by
  have := writePieces_eq (pieces v) buf 0 (by simpa [flatten_pieces, length_enc] using h)
  simpa [marshalTo, flatten_pieces, length_enc] using this

/-- MarshalBebop() returns exactly the reference encoding. -/
theorem C02_marshal_eq_enc (v : Val) : marshal v = some (enc v) := by
  have := C02_marshalTo_frame v (List.replicate (vsize v) 0) (by simp)
  simp [marshal, this]

/-- EncodeBebop to a writer that accepts everything returns nil and has written exactly the encoding. -/
theorem C02_encodeStream_eq_enc (v : Val) :
    encodeStream (fun _ => true) v = ((encodeStream (fun _ => true) v).1, false) ∧
    (encodeStream (fun _ => true) v).1.out = enc v := by
  have h := senc_step (fun _ => true) v { k := 0, err := false, out := [] }
  have herr : (senc (fun _ => true) v { k := 0, err := false, out := [] }).1.err = false := by
    cases he : (senc (fun _ => true) v { k := 0, err := false, out := [] }).1.err with
    | false => rfl
    | true =>
      rcases h.errIff.mp he with h0 | ⟨j, _, _, hj⟩
      · cases h0
      · cases hj
  have hret : (senc (fun _ => true) v { k := 0, err := false, out := [] }).2 = false := by
    cases hr : (senc (fun _ => true) v { k := 0, err := false, out := [] }).2 with
    | false => rfl
    | true => have := h.retErr hr; rw [herr] at this; cases this
  refine ⟨?_, ?_⟩
  · simp [encodeStream, hret, herr]
  · have := h.out herr
    simpa [encodeStream] using this

/-- All three encoders agree, byte for byte. -/
theorem C02_encoders_agree (v : Val) (e : Encoder)
    (hbuf : ∀ buf, e = .marshalTo buf → vsize v ≤ buf.length) : runEnc e v = some (enc v) := by
  cases e with
  | marshal => exact C02_marshal_eq_enc v
  | marshalTo buf =>
    have := C02_marshalTo_frame v buf (hbuf buf rfl)
    simp [runEnc, this, C02_size_exact]
  | encodeStream =>
    have := C02_encodeStream_eq_enc v
    simp only [runEnc]
    rw [this.1]; simp [this.2]

/-- Different iteration orders of a Go map give encodings that are permutations of each other at the
    level of entries: the count prefix is the same and the entry encodings are permuted. -/
theorem C02_map_order (kvs kvs' : List (Val × Val)) (h : kvs.Perm kvs') :
    (enc (.map kvs)).length = (enc (.map kvs')).length ∧ (enc (.map kvs)).take 4 = (enc (.map kvs')).take 4 := by
  have hs : vsizeKVs kvs = vsizeKVs kvs' := by
    induction h with
    | nil => rfl
    | cons x _ ih => obtain ⟨k, v⟩ := x; simp [vsizeKVs, ih]
    | swap x y l => obtain ⟨k, v⟩ := x; obtain ⟨k', v'⟩ := y; simp [vsizeKVs]; omega
    | trans _ _ ih1 ih2 => exact ih1.trans ih2
  have hl : kvs.length = kvs'.length := h.length_eq
  constructor
  · simp [length_enc, vsize, hs]
  · simp [enc, hl]

/-- Non-vacuity: the example value is non-trivial, and the encoders produce its 94 bytes. -/
example : (enc exVal).length = vsize exVal ∧ vsize exVal = 94 := by
  refine ⟨(C02_size_exact exVal).symm, by decide⟩
example (buf : List Byte) (hb : buf.length = 200) : runEnc (.marshalTo buf) exVal = some (enc exVal) :=
  C02_encoders_agree exVal _ (by
    intro buf h; cases h
    have : vsize exVal = 94 := by decide
    omega)

/-- The model treats an enum as a scalar of its base width everywhere (this is what the Size() short cut for arrays of enums rests on). The
    regenerated fact says File.fixedSizes does so for EVERY enum, imported ones included (loop over f.Enums with
    the single statement `out[en.Name] = fixedSizeTypes[en.SimpleType]`). -/
theorem C02_enum_sizes_as_modelled : Facts.enumFixedSizeRule = "base-width" := by decide

end Bebop
