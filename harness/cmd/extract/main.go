// Command extract regenerates the Lean fact files from /repo's current sources (tie 1).
//
// It reads the Go sources with go/parser and writes lean/Bebop/Generated/Facts.lean: tables and
// constants the Lean model is parameterised by. A source shape it does not recognise is reported in
// the JSON report (-report) and the fact keeps the value of the committed snapshot (-snapshot); that is
// "tie 1 down for <fact>", not a violation by itself.
package main

import (
	"encoding/json"
	"flag"
	"fmt"
	"go/ast"
	"go/parser"
	"go/printer"
	"go/token"
	"os"
	"path/filepath"
	"regexp"
	"sort"
	"strconv"
	"strings"
)

type report struct {
	Facts        map[string]interface{} `json:"facts"`
	Unrecognised []string               `json:"unrecognised"`
	Sources      []string               `json:"sources"`
}

var (
	repo     = flag.String("repo", "/repo", "repository root")
	out      = flag.String("out", "", "Facts.lean to write")
	reportF  = flag.String("report", "", "JSON report to write")
	snapshot = flag.String("snapshot", "", "JSON snapshot of facts used when a shape is not recognised")
)

var rep = report{Facts: map[string]interface{}{}}
var snap = map[string]interface{}{}

func unrec(fact, why string) {
	rep.Unrecognised = append(rep.Unrecognised, fact+": "+why)
}

func parseFile(rel string) (*token.FileSet, *ast.File) {
	fset := token.NewFileSet()
	p := filepath.Join(*repo, rel)
	f, err := parser.ParseFile(fset, p, nil, parser.ParseComments)
	if err != nil {
		fmt.Fprintf(os.Stderr, "extract: cannot parse %s: %v\n", p, err)
		os.Exit(2)
	}
	rep.Sources = append(rep.Sources, rel)
	return fset, f
}

func findFunc(f *ast.File, name string) *ast.FuncDecl {
	for _, d := range f.Decls {
		if fd, ok := d.(*ast.FuncDecl); ok && fd.Name.Name == name {
			return fd
		}
	}
	return nil
}

// findMethod finds a method by receiver type name and method name.
func findMethod(f *ast.File, recv, name string) *ast.FuncDecl {
	for _, d := range f.Decls {
		fd, ok := d.(*ast.FuncDecl)
		if !ok || fd.Name.Name != name || fd.Recv == nil || len(fd.Recv.List) == 0 {
			continue
		}
		t := fd.Recv.List[0].Type
		if st, ok := t.(*ast.StarExpr); ok {
			t = st.X
		}
		if id, ok := t.(*ast.Ident); ok && id.Name == recv {
			return fd
		}
	}
	return nil
}

func stringLits(n ast.Node) []string {
	var out []string
	ast.Inspect(n, func(n ast.Node) bool {
		if bl, ok := n.(*ast.BasicLit); ok && bl.Kind == token.STRING {
			if s, err := strconv.Unquote(bl.Value); err == nil {
				out = append(out, s)
			}
		}
		return true
	})
	return out
}

func constStrings(f *ast.File) map[string]string {
	out := map[string]string{}
	for _, d := range f.Decls {
		gd, ok := d.(*ast.GenDecl)
		if !ok || gd.Tok != token.CONST {
			continue
		}
		for _, s := range gd.Specs {
			vs := s.(*ast.ValueSpec)
			for i, n := range vs.Names {
				if i < len(vs.Values) {
					if v, ok := evalString(vs.Values[i], out); ok {
						out[n.Name] = v
					}
				}
			}
		}
	}
	return out
}

func evalString(e ast.Expr, env map[string]string) (string, bool) {
	switch x := e.(type) {
	case *ast.BasicLit:
		if x.Kind == token.STRING {
			s, err := strconv.Unquote(x.Value)
			return s, err == nil
		}
	case *ast.Ident:
		v, ok := env[x.Name]
		return v, ok
	case *ast.BinaryExpr:
		if x.Op == token.ADD {
			a, ok1 := evalString(x.X, env)
			b, ok2 := evalString(x.Y, env)
			return a + b, ok1 && ok2
		}
	case *ast.ParenExpr:
		return evalString(x.X, env)
	}
	return "", false
}

func setNat(name string, v int, ok bool, why string) {
	if !ok {
		unrec(name, why)
		if sv, has := snap[name]; has {
			if fv, isf := sv.(float64); isf {
				rep.Facts[name] = int(fv)
				return
			}
		}
		rep.Facts[name] = 0
		return
	}
	rep.Facts[name] = v
}

func setList(name string, v []int, ok bool, why string) {
	if !ok {
		unrec(name, why)
		if sv, has := snap[name]; has {
			if lv, isl := sv.([]interface{}); isl {
				var r []int
				for _, x := range lv {
					r = append(r, int(x.(float64)))
				}
				rep.Facts[name] = r
				return
			}
		}
		rep.Facts[name] = []int{}
		return
	}
	rep.Facts[name] = v
}

// ---- fixedSizeTypes ---------------------------------------------------------------------------

var typeConstToFact = map[string]string{
	"typeBool": "szBool", "typeByte": "szByte", "typeUint8": "szUint8", "typeUint16": "szUint16",
	"typeInt16": "szInt16", "typeUint32": "szUint32", "typeInt32": "szInt32", "typeUint64": "szUint64",
	"typeInt64": "szInt64", "typeFloat32": "szFloat32", "typeFloat64": "szFloat64", "typeGUID": "szGuid",
	"typeDate": "szDate",
}

func extractFixedSizes(f *ast.File) {
	found := map[string]int{}
	for _, d := range f.Decls {
		gd, ok := d.(*ast.GenDecl)
		if !ok || gd.Tok != token.VAR {
			continue
		}
		for _, s := range gd.Specs {
			vs := s.(*ast.ValueSpec)
			if len(vs.Names) != 1 || vs.Names[0].Name != "fixedSizeTypes" || len(vs.Values) != 1 {
				continue
			}
			cl, ok := vs.Values[0].(*ast.CompositeLit)
			if !ok {
				continue
			}
			for _, el := range cl.Elts {
				kv, ok := el.(*ast.KeyValueExpr)
				if !ok {
					continue
				}
				k, ok1 := kv.Key.(*ast.Ident)
				v, ok2 := kv.Value.(*ast.BasicLit)
				if ok1 && ok2 && v.Kind == token.INT {
					n, _ := strconv.Atoi(v.Value)
					found[k.Name] = n
				}
			}
		}
	}
	for c, fact := range typeConstToFact {
		n, ok := found[c]
		setNat(fact, n, ok, "no entry "+c+" in fixedSizeTypes")
	}
	// an entry for a type we do not know about changes which reads are length-checked
	for c := range found {
		if _, ok := typeConstToFact[c]; !ok {
			unrec("fixedSizeTypes", "unexpected entry "+c)
		}
	}
}

// extractEnumSizeRule: File.fixedSizes must give EVERY enum the width of its base type
// (`for _, en := range f.Enums { out[en.Name] = fixedSizeTypes[en.SimpleType] }`, nothing else in the loop);
// the model treats an enum as a scalar of its base width everywhere (Size() short cut, length checks).
func extractEnumSizeRule() {
	fset, gt := parseFile("gen_types.go")
	rule := "unrecognised"
	if fd := findMethod(gt, "File", "fixedSizes"); fd != nil && fd.Body != nil {
		for _, st := range fd.Body.List {
			rs, ok := st.(*ast.RangeStmt)
			if !ok || exprText(fset, rs.X) != "f.Enums" {
				continue
			}
			v, ok := rs.Value.(*ast.Ident)
			if !ok || len(rs.Body.List) != 1 {
				rule = "unrecognised: " + exprText(fset, rs.X) + " loop has " + strconv.Itoa(len(rs.Body.List)) + " statements"
				continue
			}
			var b strings.Builder
			_ = printer.Fprint(&b, fset, rs.Body.List[0])
			if b.String() == "out["+v.Name+".Name] = fixedSizeTypes["+v.Name+".SimpleType]" {
				rule = "base-width"
			} else {
				rule = "unrecognised: " + b.String()
			}
		}
	}
	rep.Facts["enumFixedSizeRule"] = rule
	if rule != "base-width" {
		unrec("enumFixedSizeRule", rule)
	}
}

// ---- GUID tables ---------------------------------------------------------------------------------

func indexOf(e ast.Expr, base string) (int, bool) {
	ix, ok := e.(*ast.IndexExpr)
	if !ok {
		return 0, false
	}
	id, ok := ix.X.(*ast.Ident)
	if !ok || id.Name != base {
		return 0, false
	}
	bl, ok := ix.Index.(*ast.BasicLit)
	if !ok {
		return 0, false
	}
	n, err := strconv.Atoi(bl.Value)
	return n, err == nil
}

func permFromCompositeLit(fd *ast.FuncDecl, base string) ([]int, bool) {
	var res []int
	ok := false
	if fd == nil {
		return nil, false
	}
	ast.Inspect(fd, func(n ast.Node) bool {
		cl, isCl := n.(*ast.CompositeLit)
		if !isCl || len(cl.Elts) != 16 || ok {
			return true
		}
		var p []int
		for _, e := range cl.Elts {
			i, good := indexOf(e, base)
			if !good {
				return true
			}
			p = append(p, i)
		}
		res, ok = p, true
		return false
	})
	return res, ok
}

func permFromAssignments(fd *ast.FuncDecl, dst, src string) ([]int, bool) {
	if fd == nil {
		return nil, false
	}
	p := make([]int, 16)
	seen := 0
	for i := range p {
		p[i] = -1
	}
	for _, st := range fd.Body.List {
		as, ok := st.(*ast.AssignStmt)
		if !ok || len(as.Lhs) != 1 || len(as.Rhs) != 1 {
			continue
		}
		i, ok1 := indexOf(as.Lhs[0], dst)
		j, ok2 := indexOf(as.Rhs[0], src)
		if ok1 && ok2 && i >= 0 && i < 16 && p[i] == -1 {
			p[i] = j
			seen++
		}
	}
	return p, seen == 16
}

// ---- generator constants -------------------------------------------------------------------------

var reBodyLen = regexp.MustCompile(`^\s*bodyLen := (\d+)\s*$`)
var reSizeMinus = regexp.MustCompile(`uint32\(bbp\.Size\(\)-(\d+)\)`)
var reLimit = regexp.MustCompile(`N: int64\(bodyLen\)(\+(\d+))?\}`)

func natFromLits(fd *ast.FuncDecl, re *regexp.Regexp, group int) ([]int, bool) {
	if fd == nil {
		return nil, false
	}
	var res []int
	for _, s := range stringLits(fd) {
		if m := re.FindStringSubmatch(s); m != nil {
			if m[group] == "" {
				res = append(res, 0)
			} else {
				n, _ := strconv.Atoi(m[group])
				res = append(res, n)
			}
		}
	}
	return res, len(res) > 0
}

func agree(name string, vals ...[]int) (int, bool) {
	first := -1
	for _, vs := range vals {
		for _, v := range vs {
			if first == -1 {
				first = v
			} else if v != first {
				unrec(name, "the emitters disagree: "+fmt.Sprint(vals))
				return first, true // keep the first; the disagreement itself is reported
			}
		}
	}
	return first, first != -1
}

// ---- option template classes ---------------------------------------------------------------------

type classRule struct {
	class string
	re    *regexp.Regexp
}

var makeRules = []classRule{
	{"callMakeFromBytes", regexp.MustCompile(`^%ASGN, err = (%NAMESPACE\.)?[Mm]ake%(BARE)?TYPEFromBytes\(buf\[at:\]\)\n$`)},
	{"callMustMakeFromBytes", regexp.MustCompile(`^%ASGN = (%NAMESPACE\.)?[Mm]ustMake%(BARE)?TYPEFromBytes\(buf\[at:\]\)\n$`)},
	{"callMakeFromReader", regexp.MustCompile(`^\(%RECV\), err = (%NAMESPACE\.)?[Mm]ake%(BARE)?TYPE\(r\)\nif err != nil \{\n\treturn err\n\}$`)},
}

func classify(s string) string {
	for _, r := range makeRules {
		if r.re.MatchString(s) {
			return r.class
		}
	}
	return "unrecognised:" + strconv.Quote(s)
}

func main() {
	flag.Parse()
	if *snapshot != "" {
		if b, err := os.ReadFile(*snapshot); err == nil {
			_ = json.Unmarshal(b, &snap)
		}
	}

	_, tmpl := parseFile("gen_templates.go")
	extractFixedSizes(tmpl)
	extractEnumSizeRule()
	consts := constStrings(tmpl)

	_, ioh := parseFile("iohelp/iohelp.go")
	p, ok := permFromCompositeLit(findFunc(ioh, "ReadGUIDBytes"), "buf")
	setList("guidReadPerm", p, ok, "ReadGUIDBytes is not a 16-element composite literal over buf[i]")
	p, ok = permFromCompositeLit(findFunc(ioh, "WriteGUID"), "guid")
	setList("guidWriteStreamPerm", p, ok, "WriteGUID has no 16-element composite literal over guid[i]")
	p, ok = permFromAssignments(findFunc(ioh, "WriteGUIDBytes"), "b", "guid")
	setList("guidWritePerm", p, ok, "WriteGUIDBytes is not 16 assignments b[i] = guid[j]")

	_, gm := parseFile("gen_message.go")
	v1, ok1 := natFromLits(findMethod(gm, "Message", "generateSize"), reBodyLen, 1)
	n, ok := agree("msgSizeBase", v1)
	setNat("msgSizeBase", n, ok && ok1, "no `bodyLen := N` in Message.generateSize")
	a1, _ := natFromLits(findMethod(gm, "Message", "generateMarshalBebopTo"), reSizeMinus, 1)
	a2, _ := natFromLits(findMethod(gm, "Message", "generateEncodeBebop"), reSizeMinus, 1)
	n, ok = agree("msgLenAdjust", a1, a2)
	setNat("msgLenAdjust", n, ok && len(a1) > 0 && len(a2) > 0, "no `uint32(bbp.Size()-N)` in both message encoders")

	_, gu := parseFile("gen_union.go")
	v1, ok1 = natFromLits(findMethod(gu, "Union", "generateSize"), reBodyLen, 1)
	n, ok = agree("unionSizeBase", v1)
	setNat("unionSizeBase", n, ok && ok1, "no `bodyLen := N` in Union.generateSize")
	a1, _ = natFromLits(findMethod(gu, "Union", "generateMarshalBebopTo"), reSizeMinus, 1)
	a2, _ = natFromLits(findMethod(gu, "Union", "generateEncodeBebop"), reSizeMinus, 1)
	n, ok = agree("unionLenAdjust", a1, a2)
	setNat("unionLenAdjust", n, ok && len(a1) > 0 && len(a2) > 0, "no `uint32(bbp.Size()-N)` in both union encoders")
	l1, okl := natFromLits(findMethod(gu, "Union", "generateDecodeBebop"), reLimit, 2)
	n, ok = agree("unionLimitExtra", l1)
	setNat("unionLimitExtra", n, ok && okl, "no `N: int64(bodyLen)+K}` in Union.generateDecodeBebop")
	// the message decoder must NOT add anything to its limit
	l2, okl2 := natFromLits(findMethod(gm, "Message", "generateDecodeBebop"), reLimit, 2)
	n, ok = agree("msgLimitExtra", l2)
	setNat("msgLimitExtra", n, ok && okl2, "no `N: int64(bodyLen)}` in Message.generateDecodeBebop")

	for _, kv := range [][2]string{{"msgHeaderLen", "messageHeaderLen"}, {"unionHeaderLen", "unionHeaderLen"}} {
		s, has := consts[kv[1]]
		n, err := strconv.Atoi(s)
		setNat(kv[0], n, has && err == nil, "const "+kv[1]+" is not a decimal string")
	}

	// option-dependent template choices
	type choice struct {
		name string
		alts []string
	}
	choices := []choice{
		{"makeFormat", []string{"fmtMake", "fmtMakeNamespaced", "fmtMakePrivate"}},
		{"mustMakeFormat", []string{"fmtMustMake", "fmtMustMakeNamespaced", "fmtMustMakePrivate"}},
		{"makeFormatType", []string{"fmtMakeType", "fmtMakeNamespacedType", "fmtMakePrivateType"}},
	}
	var classes [][]string
	for _, c := range choices {
		var row []string
		for _, a := range c.alts {
			s, has := consts[a]
			if !has {
				row = append(row, "unrecognised:missing const "+a)
				continue
			}
			row = append(row, classify(s))
		}
		classes = append(classes, row)
	}
	// the string reader alternatives selected by SharedMemoryStrings
	strAlts := []string{}
	if fd := findMethod(tmpl, "File", "typeByteReaders"); fd != nil {
		reStr := regexp.MustCompile(`^ReadStringBytes(SharedMemory)?\(buf\[at:\]\)$`)
		for _, s := range stringLits(fd) {
			if strings.HasPrefix(s, "ReadStringBytes") {
				if reStr.MatchString(s) {
					strAlts = append(strAlts, "readString")
				} else {
					strAlts = append(strAlts, "unrecognised:"+strconv.Quote(s))
				}
			}
		}
	}
	if len(strAlts) != 2 {
		strAlts = append(strAlts, "unrecognised:expected two string reader alternatives")
	}
	classes = append(classes, strAlts)
	rep.Facts["optionTemplateClasses"] = classes

	writeLean(classes)
	if *out != "" {
		extractCli(filepath.Dir(*out))
		extractPurity(filepath.Dir(*out))
		extractText(filepath.Dir(*out))
	}
	if *reportF != "" {
		sort.Strings(rep.Unrecognised)
		b, _ := json.MarshalIndent(rep, "", " ")
		if err := os.WriteFile(*reportF, b, 0o644); err != nil {
			fmt.Fprintln(os.Stderr, "extract:", err)
			os.Exit(2)
		}
	}
}

func leanList(v []int) string {
	parts := make([]string, len(v))
	for i, x := range v {
		parts[i] = strconv.Itoa(x)
	}
	return "[" + strings.Join(parts, ", ") + "]"
}

func writeLean(classes [][]string) {
	var b strings.Builder
	b.WriteString("/- REGENERATED by /verif/harness/cmd/extract from /repo on every check run. Do not edit. -/\n")
	b.WriteString("namespace Bebop.Facts\n\n")
	natNames := []string{"szBool", "szByte", "szUint8", "szUint16", "szInt16", "szUint32", "szInt32", "szUint64",
		"szInt64", "szFloat32", "szFloat64", "szGuid", "szDate", "msgSizeBase", "msgLenAdjust", "unionSizeBase",
		"unionLenAdjust", "unionLimitExtra", "msgLimitExtra", "msgHeaderLen", "unionHeaderLen"}
	for _, n := range natNames {
		fmt.Fprintf(&b, "def %s : Nat := %v\n", n, rep.Facts[n])
	}
	b.WriteString("\n")
	for _, n := range []string{"guidWritePerm", "guidWriteStreamPerm", "guidReadPerm"} {
		fmt.Fprintf(&b, "def %s : List Nat := %s\n", n, leanList(rep.Facts[n].([]int)))
	}
	fmt.Fprintf(&b, "\n/-- how File.fixedSizes sizes an enum: \"base-width\" = every enum gets the width of its base type -/\ndef enumFixedSizeRule : String := %s\n", strconv.Quote(fmt.Sprint(rep.Facts["enumFixedSizeRule"])))
	b.WriteString("\n/-- For each option-dependent template choice: (class of the default alternative, classes of all alternatives). -/\n")
	b.WriteString("def optionTemplateClasses : List (String × List String) := [\n")
	for i, row := range classes {
		quoted := make([]string, len(row))
		for j, s := range row {
			quoted[j] = strconv.Quote(s)
		}
		first := `""`
		if len(row) > 0 {
			first = quoted[0]
		}
		sep := ","
		if i == len(classes)-1 {
			sep = ""
		}
		fmt.Fprintf(&b, "  (%s, [%s])%s\n", first, strings.Join(quoted, ", "), sep)
	}
	b.WriteString("]\n\nend Bebop.Facts\n")
	if *out == "" {
		fmt.Print(b.String())
		return
	}
	old, _ := os.ReadFile(*out)
	if string(old) == b.String() {
		return // unchanged: keep the timestamp so lake does not rebuild
	}
	if err := os.WriteFile(*out, []byte(b.String()), 0o644); err != nil {
		fmt.Fprintln(os.Stderr, "extract:", err)
		os.Exit(2)
	}
}
