#!/usr/bin/env python3
"""Run the registered checks against the seeded breaking changes kept under /verif/seeded/<id>/.

  tools/seedrun.py [--import /tmp/mutout_*] [--only C01-m1,...] [--tier quick]

--import copies freshly produced mutations (patch.diff, demo*, meta.json) into /verif/seeded/<PID>-<mN>/.
For every seeded change: `git -C /repo apply patch.diff`, run `./check <PID>` (and the checks of the other
properties listed in meta.json["also"]), record exit status and VIOLATION lines, then `git -C /repo checkout -- .`.
Results go to /verif/seeded/results.json. /repo must be clean when this starts and is left clean.
"""
import argparse, glob, json, os, shutil, subprocess, sys, time

ROOT = os.path.dirname(os.path.dirname(os.path.abspath(__file__)))
SEEDED = os.path.join(ROOT, "seeded")

def sh(cmd, cwd=None, timeout=3600):
    p = subprocess.run(cmd, cwd=cwd, stdout=subprocess.PIPE, stderr=subprocess.STDOUT, text=True, timeout=timeout)
    return p.returncode, p.stdout

def repo_clean():
    rc, out = sh(["git", "-C", "/repo", "status", "--porcelain"])
    return out.strip() == ""

def main():
    ap = argparse.ArgumentParser()
    ap.add_argument("--import", dest="imp", nargs="*", default=[])
    ap.add_argument("--only", default="")
    ap.add_argument("--tier", default="quick")
    a = ap.parse_args()
    os.makedirs(SEEDED, exist_ok=True)
    for d in a.imp:
        for m in sorted(glob.glob(os.path.join(d, "m*"))):
            meta_p = os.path.join(m, "meta.json")
            if not os.path.exists(os.path.join(m, "patch.diff")) or not os.path.exists(meta_p):
                continue
            try:
                meta = json.load(open(meta_p))
            except Exception:
                meta = {}
            pid = meta.get("property") or os.path.basename(d).replace("mutout_", "")
            dst = os.path.join(SEEDED, "%s-%s" % (pid, os.path.basename(m)))
            os.makedirs(dst, exist_ok=True)
            for f in os.listdir(m):
                shutil.copy(os.path.join(m, f), os.path.join(dst, f))
    reg = json.load(open(os.path.join(ROOT, "registry.json")))
    only = set(x for x in a.only.split(",") if x)
    res_p = os.path.join(SEEDED, "results.json")
    results = json.load(open(res_p)) if os.path.exists(res_p) else {}
    if not repo_clean():
        print("seedrun: /repo is not clean; refusing to run")
        return 2
    for d in sorted(os.listdir(SEEDED)):
        p = os.path.join(SEEDED, d)
        if not os.path.isdir(p) or (only and d not in only):
            continue
        pid = d.split("-")[0]
        patch = os.path.join(p, "patch.diff")
        rc, out = sh(["git", "-C", "/repo", "apply", "--check", patch])
        entry = {"property": pid, "applies": rc == 0}
        if rc != 0:
            entry["apply_error"] = out.strip()[:300]
            results[d] = entry
            print(d, "patch does not apply to the current tree:", out.strip()[:120])
            continue
        sh(["git", "-C", "/repo", "apply", patch])
        try:
            props = [pid] + [x for x in (json.load(open(os.path.join(p, "meta.json"))).get("also") or []) if x != pid]
            entry["checks"] = {}
            for q in props:
                if q not in reg:
                    entry["checks"][q] = {"claimed": False}
                    continue
                t0 = time.time()
                rc, out = sh([os.path.join(ROOT, "check"), q, "--tier", a.tier], cwd=ROOT, timeout=7200)
                lines = [l for l in out.split("\n") if l.startswith("VIOLATION") or l.startswith("KNOWN-FINDING")]
                summ = [l for l in out.split("\n") if " obligations=" in l]
                entry["checks"][q] = {"claimed": True, "exit": rc, "caught": rc == 1 and any(l.startswith("VIOLATION") for l in lines),
                                      "violation_lines": [l for l in lines if l.startswith("VIOLATION")][:4],
                                      "no_failing_input": any("no-failing-input-found" in l for l in lines),
                                      "summary": summ[-1] if summ else out.strip()[-300:], "wall_s": round(time.time() - t0, 1)}
                # keep one replay file per caught mutation as evidence
                for l in lines:
                    if l.startswith("VIOLATION") and "replay=" in l:
                        rp = l.split("replay=")[1].split()[0]
                        if os.path.exists(rp):
                            shutil.copy(rp, os.path.join(p, "replay-%s.json" % q))
                        break
                print(d, q, "caught" if entry["checks"][q]["caught"] else "MISSED (exit %d)" % rc, entry["checks"][q]["summary"][:140])
        finally:
            sh(["git", "-C", "/repo", "checkout", "--", "."])
            sh(["git", "-C", "/repo", "clean", "-fdq"])
        results[d] = entry
        json.dump(results, open(res_p, "w"), indent=1, sort_keys=True)
    if not repo_clean():
        print("seedrun: WARNING /repo not clean at exit")
    return 0

if __name__ == "__main__":
    sys.exit(main())
