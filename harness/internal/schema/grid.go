package schema

import "strings"

// GridOptions tunes the grid.
type GridOptions struct {
	// FloatKeyContainers includes map[float32|float64, string[]] (known defect class).
	FloatKeyContainers bool
	// KindsPerFile splits the 15 element kinds over several files (default 5).
	KindsPerFile int
}

// GridKinds are the 15 element kinds of the grid: the 14 primitives and one enum.
var GridKinds = append(append([]string(nil), Primitives...), "GridEnum")

func title(s string) string { return strings.ToUpper(s[:1]) + s[1:] }

// gridFields lists every container context of element kind T.
func gridFields(kind string, opt GridOptions) []Field {
	var t Type
	isPrim := kind != "GridEnum" && !strings.HasPrefix(kind, "Imp")
	if isPrim {
		t = Prim(kind)
	} else {
		t = Named(kind)
	}
	fs := []Field{
		{Name: "bare", Type: t},
		{Name: "arr", Type: Array(t)},
		{Name: "arr2", Type: Array(Array(t))},
		{Name: "mapv", Type: Map("string", t)},
		{Name: "mapa", Type: Map("uint32", Array(t))},
	}
	if isPrim {
		fs = append(fs, Field{Name: "key", Type: Map(kind, Prim("uint16"))})
		fs = append(fs, Field{Name: "keys", Type: Map(kind, Prim("string"))})
		if (kind != "float32" && kind != "float64") || opt.FloatKeyContainers {
			fs = append(fs, Field{Name: "keyc", Type: Map(kind, Array(Prim("string")))})
			fs = append(fs, Field{Name: "keym", Type: Map(kind, Map(kind, t))})
		}
	}
	return fs
}

// Grid is a deterministic family of schemas that contains, for each of the 15 element kinds,
// every container context (bare, T[], T[][], map[string,T], map[uint32,T[]], and map[T,...]
// where T may be a key) as a field of a struct, of a message and of both kinds of union
// branch. Kinds are split over several files to keep packages small.
func Grid(opt GridOptions) []File {
	per := opt.KindsPerFile
	if per <= 0 {
		per = 5
	}
	var files []File
	for start := 0; start < len(GridKinds); start += per {
		end := start + per
		if end > len(GridKinds) {
			end = len(GridKinds)
		}
		f := File{}
		for ki, kind := range GridKinds[start:end] {
			if kind == "GridEnum" {
				f.Enums = append(f.Enums, Enum{Name: "GridEnum", Base: "uint16", Options: []EnumOption{
					{Name: "GridEnumA", Expr: "0"}, {Name: "GridEnumB", Expr: "1"}, {Name: "GridEnumC", Expr: "65535"},
				}})
			}
			k := title(kind)
			st := &Record{Kind: Struct, Name: "Gs" + k, ReadOnly: (start+ki)%2 == 1, Fields: gridFields(kind, opt)}
			msg := &Record{Kind: Message, Name: "Gm" + k}
			for i, fd := range gridFields(kind, opt) {
				fd.Index = i + 1
				msg.Fields = append(msg.Fields, fd)
			}
			ubm := &Record{Kind: Message, Name: "Gum" + k}
			for i, fd := range gridFields(kind, opt) {
				fd.Index = 2*i + 1
				ubm.Fields = append(ubm.Fields, fd)
			}
			un := &Record{Kind: Union, Name: "Gu" + k, Branches: []Branch{
				{Disc: 1, Rec: &Record{Kind: Struct, Name: "Gus" + k, Fields: gridFields(kind, opt)}},
				{Disc: 2, Rec: ubm},
			}}
			f.Records = append(f.Records, st, msg, un)
		}
		// records as elements: arrays and maps of the struct / message / union of the first kind
		first := title(GridKinds[start])
		f.Records = append(f.Records, &Record{Kind: Struct, Name: "GridRecs" + first, Fields: []Field{
			{Name: "s", Type: Named("Gs" + first)},
			{Name: "m", Type: Named("Gm" + first)},
			{Name: "u", Type: Named("Gu" + first)},
			{Name: "sa", Type: Array(Named("Gs" + first))},
			{Name: "ma", Type: Array(Named("Gm" + first))},
			{Name: "ua", Type: Array(Named("Gu" + first))},
			{Name: "sm", Type: Map("string", Named("Gs"+first))},
			{Name: "mm", Type: Map("uint8", Named("Gm"+first))},
			{Name: "um", Type: Map("guid", Named("Gu"+first))},
			{Name: "tail", Type: Prim("uint32")},
		}}, &Record{Kind: Message, Name: "GridRecm" + first, Fields: []Field{
			{Name: "s", Index: 1, Type: Named("Gs" + first)},
			{Name: "m", Index: 2, Type: Named("Gm" + first)},
			{Name: "u", Index: 3, Type: Named("Gu" + first)},
			{Name: "sa", Index: 4, Type: Array(Named("Gs" + first))},
			{Name: "ma", Index: 5, Type: Array(Named("Gm" + first))},
			{Name: "ua", Index: 6, Type: Array(Named("Gu" + first))},
			{Name: "sm", Index: 7, Type: Map("string", Named("Gs"+first))},
			{Name: "mm", Index: 8, Type: Map("uint8", Named("Gm"+first))},
			{Name: "um", Index: 9, Type: Map("guid", Named("Gu"+first))},
			{Name: "self", Index: 10, Type: Named("GridRecm" + first)},
			{Name: "dep", Index: 11, Type: Prim("uint32"), Deprecated: true},
			{Name: "tail", Index: 255, Type: Prim("uint32")},
		}}, &Record{Kind: Struct, Name: "GridEmptyS" + first}, &Record{Kind: Message, Name: "GridEmptyM" + first})
		files = append(files, f)
	}
	// edge shapes, in the last file: structs of fixed-width fields only whose wire size reaches 256 bytes (an 8-bit
	// size table would wrap), as fields, array elements and map values; a union whose branches are empty records
	last := &files[len(files)-1]
	guids := func(n int) []Field {
		var fs []Field
		for i := 0; i < n; i++ {
			fs = append(fs, Field{Name: "g" + string(rune('a'+i)), Type: Prim("guid")})
		}
		return fs
	}
	last.Records = append(last.Records,
		&Record{Kind: Struct, Name: "Wide256", Fields: guids(16)},
		&Record{Kind: Struct, Name: "Wide264", Fields: append(guids(16), Field{Name: "d", Type: Prim("date")})},
		&Record{Kind: Struct, Name: "Blk64", Fields: guids(4)},
		&Record{Kind: Struct, Name: "Wide260", Fields: []Field{
			{Name: "a", Type: Named("Blk64")}, {Name: "b", Type: Named("Blk64")}, {Name: "c", Type: Named("Blk64")},
			{Name: "d", Type: Named("Blk64")}, {Name: "e", Type: Prim("int32")},
		}},
		&Record{Kind: Struct, Name: "HoldsWide", Fields: []Field{
			{Name: "w", Type: Named("Wide256")},
			{Name: "after", Type: Prim("uint32")},
			{Name: "ws", Type: Array(Named("Wide260"))},
			{Name: "w4", Type: Array(Named("Wide264"))},
			{Name: "wm", Type: Map("uint8", Named("Wide256"))},
			{Name: "tail", Type: Prim("uint16")},
		}},
		&Record{Kind: Message, Name: "WideMsg", Fields: []Field{
			{Name: "ws", Index: 1, Type: Array(Named("Wide260"))},
			{Name: "w", Index: 2, Type: Named("Wide264")},
			{Name: "tail", Index: 3, Type: Prim("uint32")},
		}},
		&Record{Kind: Union, Name: "EdgeU", Branches: []Branch{
			{Disc: 1, Rec: &Record{Kind: Struct, Name: "EdgeNothing"}},
			{Disc: 2, Rec: &Record{Kind: Message, Name: "EdgeNothingM"}},
			{Disc: 3, Rec: &Record{Kind: Struct, Name: "EdgeOne", Fields: []Field{{Name: "x", Type: Prim("uint8")}}}},
			{Disc: 4, Rec: &Record{Kind: Struct, Name: "EdgeEndsStr", Fields: []Field{{Name: "x", Type: Prim("uint32")}, {Name: "s", Type: Prim("string")}}}},
			{Disc: 5, Deprecated: true, Rec: &Record{Kind: Struct, Name: "EdgeOldS", Fields: []Field{{Name: "x", Type: Prim("uint16")}, {Name: "s", Type: Prim("string")}, {Name: "y", Type: Prim("uint8")}}}},
			{Disc: 255, Deprecated: true, Rec: &Record{Kind: Message, Name: "EdgeOldM", Fields: []Field{{Name: "a", Index: 1, Type: Prim("uint32")}, {Name: "z", Index: 255, Type: Prim("string")}}}},
		}},
		// arrays and maps of a record that takes NO bytes on the wire: a count may exceed the bytes that follow it
		&Record{Kind: Struct, Name: "EdgeEmpty"},
		&Record{Kind: Message, Name: "EdgeEmptyM"},
		&Record{Kind: Struct, Name: "One8", Fields: []Field{{Name: "x", Type: Prim("uint8")}}},
		&Record{Kind: Struct, Name: "HoldsEmpties", Fields: []Field{
			{Name: "a", Type: Prim("uint8")},
			{Name: "es", Type: Array(Named("EdgeEmpty"))},
			{Name: "em", Type: Map("uint8", Named("EdgeEmpty"))},
			{Name: "after", Type: Prim("uint16")},
			{Name: "ess", Type: Array(Array(Named("EdgeEmpty")))},
			{Name: "tail", Type: Array(Named("EdgeEmpty"))},
		}},
		&Record{Kind: Message, Name: "EmptiesMsg", Fields: []Field{
			{Name: "es", Index: 1, Type: Array(Named("EdgeEmpty"))},
			{Name: "x", Index: 2, Type: Prim("uint32")},
			{Name: "ms", Index: 3, Type: Array(Named("EdgeEmptyM"))},
		}},
		&Record{Kind: Message, Name: "OnlyEmpties", Fields: []Field{{Name: "es", Index: 1, Type: Array(Named("EdgeEmpty"))}}},
		&Record{Kind: Union, Name: "EmptiesU", Branches: []Branch{
			{Disc: 1, Rec: &Record{Kind: Struct, Name: "EmptiesUS", Fields: []Field{{Name: "es", Type: Array(Named("EdgeEmpty"))}}}},
			{Disc: 2, Rec: &Record{Kind: Message, Name: "EmptiesUM", Fields: []Field{{Name: "ess", Index: 1, Type: Array(Array(Named("EdgeEmpty")))}}}},
		}},
		// arrays of arrays of records (index variables of nested loops), of maps of records
		&Record{Kind: Struct, Name: "NestedRecs", Fields: []Field{
			{Name: "grid", Type: Array(Array(Named("One8")))},
			{Name: "cube", Type: Array(Array(Array(Named("EndsInStr"))))},
			{Name: "mgrid", Type: Array(Array(Named("WideMsg")))},
			{Name: "ugrid", Type: Array(Array(Named("EdgeU")))},
			{Name: "am", Type: Array(Map("string", Array(Named("One8"))))},
			{Name: "tail", Type: Prim("uint16")},
		}},
		// the largest legal field index, on fields that are not records
		&Record{Kind: Message, Name: "Msg255", Fields: []Field{{Name: "a", Index: 1, Type: Prim("uint8")}, {Name: "z", Index: 255, Type: Prim("string")}}},
		&Record{Kind: Message, Name: "Msg254", Fields: []Field{{Name: "y", Index: 254, Type: Array(Prim("uint16"))}, {Name: "z", Index: 255, Type: Prim("int64")}}},
		// a guid read before an 8-byte integer (scratch buffers shared between reads), byte arrays followed by more fields
		&Record{Kind: Struct, Name: "GuidThenInt", Fields: []Field{{Name: "id", Type: Prim("guid")}, {Name: "count", Type: Prim("int64")}, {Name: "id2", Type: Prim("guid")}, {Name: "u", Type: Prim("uint64")}, {Name: "d", Type: Prim("date")}, {Name: "f", Type: Prim("float64")}}},
		&Record{Kind: Struct, Name: "BytesThenMore", Fields: []Field{{Name: "raw", Type: Array(Prim("byte"))}, {Name: "n", Type: Prim("uint32")}, {Name: "s", Type: Prim("string")}, {Name: "raw2", Type: Array(Prim("uint8"))}, {Name: "tail", Type: Prim("uint16")}}},
		&Record{Kind: Message, Name: "BytesMsg", Fields: []Field{{Name: "raw", Index: 1, Type: Array(Prim("byte"))}, {Name: "n", Index: 2, Type: Prim("uint32")}, {Name: "g", Index: 3, Type: Prim("guid")}, {Name: "i", Index: 4, Type: Prim("int64")}}},
		// a struct that is used before it is defined (tables filled in definition order see it too late)
		&Record{Kind: Struct, Name: "FwdImage", Fields: []Field{{Name: "px", Type: Array(Named("FwdPixel"))}, {Name: "pm", Type: Map("uint8", Named("FwdPixel"))}}},
		&Record{Kind: Struct, Name: "FwdPixels", Fields: []Field{{Name: "px", Type: Array(Named("FwdPixel"))}}},
		&Record{Kind: Message, Name: "FwdMsg", Fields: []Field{{Name: "px", Index: 1, Type: Array(Named("FwdPixel"))}, {Name: "grid", Index: 2, Type: Array(Array(Named("FwdColor")))}}},
		&Record{Kind: Struct, Name: "FwdPixel", Fields: []Field{{Name: "c", Type: Named("FwdColor")}}},
		&Record{Kind: Struct, Name: "FwdColor", Fields: []Field{{Name: "r", Type: Prim("byte")}, {Name: "g", Type: Prim("byte")}, {Name: "b", Type: Prim("byte")}}},
		// records whose last read is a string (the only place where a failure inside a string is not followed by another read)
		&Record{Kind: Struct, Name: "EndsInStr", Fields: []Field{{Name: "a", Type: Prim("uint32")}, {Name: "s", Type: Prim("string")}}},
		&Record{Kind: Struct, Name: "EndsInStrs", Fields: []Field{{Name: "a", Type: Prim("uint16")}, {Name: "ss", Type: Array(Prim("string"))}}},
	)
	return files
}

// GridImported is the grid of three enums (one-byte, default and eight-byte base) that live in a second, imported
// file: under separate generation (the bebopc-go default) the importing package knows them by an alias only.
func GridImported(opt GridOptions) File {
	f := File{Enums: []Enum{
		{Name: "ImpSmall", Base: "uint8", Imported: true, Options: []EnumOption{{Name: "ImpSmallA", Expr: "0"}, {Name: "ImpSmallB", Expr: "7"}, {Name: "ImpSmallC", Expr: "255"}}},
		{Name: "ImpDef", Imported: true, Options: []EnumOption{{Name: "ImpDefA", Expr: "0"}, {Name: "ImpDefB", Expr: "1"}, {Name: "ImpDefC", Expr: "4294967295"}}},
		{Name: "ImpBig", Base: "int64", Imported: true, Options: []EnumOption{{Name: "ImpBigA", Expr: "0"}, {Name: "ImpBigB", Expr: "-1"}, {Name: "ImpBigC", Expr: "9223372036854775807"}}},
		{Name: "LocalEnum", Base: "uint16", Options: []EnumOption{{Name: "LocalEnumA", Expr: "0"}, {Name: "LocalEnumB", Expr: "9"}}},
	}}
	for ki, kind := range []string{"ImpSmall", "ImpDef", "ImpBig"} {
		st := &Record{Kind: Struct, Name: "Gs" + kind, ReadOnly: ki%2 == 1, Fields: append([]Field{{Name: "lead", Type: Prim("uint8")}}, gridFields(kind, opt)...)}
		msg := &Record{Kind: Message, Name: "Gm" + kind}
		for i, fd := range gridFields(kind, opt) {
			fd.Index = i + 1
			msg.Fields = append(msg.Fields, fd)
		}
		ubm := &Record{Kind: Message, Name: "Gum" + kind}
		for i, fd := range gridFields(kind, opt) {
			fd.Index = 2*i + 1
			ubm.Fields = append(ubm.Fields, fd)
		}
		un := &Record{Kind: Union, Name: "Gu" + kind, Branches: []Branch{
			{Disc: 1, Rec: &Record{Kind: Struct, Name: "Gus" + kind, Fields: gridFields(kind, opt)}},
			{Disc: 2, Rec: ubm},
		}}
		f.Records = append(f.Records, st, msg, un)
	}
	f.Records = append(f.Records, &Record{Kind: Struct, Name: "Pixel", Fields: []Field{
		{Name: "alpha", Type: Prim("byte")}, {Name: "colour", Type: Named("ImpDef")}, {Name: "local", Type: Named("LocalEnum")}, {Name: "big", Type: Named("ImpBig")},
	}})
	return f
}

// GridImportedDirect uses the imported enums only as the direct type of fields (never inside a container): the shape
// that keeps compiling whatever the per-container templates do with a namespaced type.
func GridImportedDirect() File {
	f := File{Enums: []Enum{
		{Name: "ImpSmall", Base: "uint8", Imported: true, Options: []EnumOption{{Name: "ImpSmallA", Expr: "0"}, {Name: "ImpSmallB", Expr: "7"}, {Name: "ImpSmallC", Expr: "255"}}},
		{Name: "ImpDef", Imported: true, Options: []EnumOption{{Name: "ImpDefA", Expr: "0"}, {Name: "ImpDefB", Expr: "1"}, {Name: "ImpDefC", Expr: "4294967295"}}},
		{Name: "ImpBig", Base: "int64", Imported: true, Options: []EnumOption{{Name: "ImpBigA", Expr: "0"}, {Name: "ImpBigB", Expr: "-1"}, {Name: "ImpBigC", Expr: "9223372036854775807"}}},
	}}
	f.Records = append(f.Records,
		&Record{Kind: Struct, Name: "DirS", Fields: []Field{
			{Name: "lead", Type: Prim("uint8")}, {Name: "a", Type: Named("ImpSmall")}, {Name: "b", Type: Named("ImpDef")},
			{Name: "c", Type: Named("ImpBig")}, {Name: "tail", Type: Prim("string")},
		}},
		&Record{Kind: Message, Name: "DirM", Fields: []Field{
			{Name: "a", Index: 1, Type: Named("ImpSmall")}, {Name: "b", Index: 2, Type: Named("ImpDef")},
			{Name: "c", Index: 3, Type: Named("ImpBig")}, {Name: "x", Index: 4, Type: Prim("uint32")},
		}},
		&Record{Kind: Union, Name: "DirU", Branches: []Branch{
			{Disc: 1, Rec: &Record{Kind: Struct, Name: "DirUS", Fields: []Field{{Name: "b", Type: Named("ImpDef")}, {Name: "after", Type: Prim("uint16")}}}},
			{Disc: 2, Rec: &Record{Kind: Message, Name: "DirUM", Fields: []Field{{Name: "c", Index: 1, Type: Named("ImpBig")}, {Name: "a", Index: 2, Type: Named("ImpSmall")}}}},
		}},
		&Record{Kind: Struct, Name: "DirHolds", Fields: []Field{
			{Name: "s", Type: Named("DirS")}, {Name: "m", Type: Named("DirM")}, {Name: "u", Type: Named("DirU")},
			{Name: "ss", Type: Array(Named("DirS"))}, {Name: "mm", Type: Map("string", Named("DirM"))}, {Name: "tail", Type: Prim("uint8")},
		}},
	)
	return f
}
