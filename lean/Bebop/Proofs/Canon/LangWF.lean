/-
  Canon/LangWF: the lexeme list of a well-formed schema is well-formed (`WFL`), hence the tokenizer
  delivers every admissible layout of it as exactly its tokens.
-/
import Bebop.Proofs.Canon.Lang

namespace Bebop.Text
namespace Canon

/-! ### the fixed tokens -/

theorem sbk_lb : singleByteKind 91 = some .openSquare := by decide
theorem sbk_rb : singleByteKind 93 = some .closeSquare := by decide
theorem sbk_lp : singleByteKind 40 = some .openParen := by decide
theorem sbk_rp : singleByteKind 41 = some .closeParen := by decide
theorem sbk_comma : singleByteKind 44 = some .comma := by decide
theorem sbk_eq : singleByteKind 61 = some .equals := by decide
theorem sbk_colon : singleByteKind 58 = some .colon := by decide

@[simp] theorem tok_nl : TokOk tNl := tokOk_single (by decide) sbk_nl
@[simp] theorem tok_open : TokOk tOpen := tokOk_single (by decide) sbk_open
@[simp] theorem tok_close : TokOk tClose := tokOk_single (by decide) sbk_close
@[simp] theorem tok_semi : TokOk tSemi := tokOk_single (by decide) sbk_semi
@[simp] theorem tok_lb : TokOk tLB := tokOk_single (by decide) sbk_lb
@[simp] theorem tok_rb : TokOk tRB := tokOk_single (by decide) sbk_rb
@[simp] theorem tok_lp : TokOk tLP := tokOk_single (by decide) sbk_lp
@[simp] theorem tok_rp : TokOk tRP := tokOk_single (by decide) sbk_rp
@[simp] theorem tok_comma : TokOk tComma := tokOk_single (by decide) sbk_comma
@[simp] theorem tok_eq : TokOk tEq := tokOk_single (by decide) sbk_eq
@[simp] theorem tok_colon : TokOk tColon := tokOk_single (by decide) sbk_colon
@[simp] theorem tok_arrow : TokOk tArrow := TokOk.arrow

@[simp] theorem tok_kStruct : TokOk ⟨.kStruct, kwStruct⟩ := tokOk_kw (by decide) (by decide)
@[simp] theorem tok_kReadOnly : TokOk ⟨.kReadOnly, kwReadonly⟩ := tokOk_kw (by decide) (by decide)
@[simp] theorem tok_kMessage : TokOk ⟨.kMessage, kwMessage⟩ := tokOk_kw (by decide) (by decide)
@[simp] theorem tok_kEnum : TokOk ⟨.kEnum, kwEnum⟩ := tokOk_kw (by decide) (by decide)
@[simp] theorem tok_kDeprecated : TokOk ⟨.kDeprecated, kwDeprecated⟩ := tokOk_kw (by decide) (by decide)
@[simp] theorem tok_kOpCode : TokOk ⟨.kOpCode, kwOpcode⟩ := tokOk_kw (by decide) (by decide)
@[simp] theorem tok_kMap : TokOk ⟨.kMap, kwMap⟩ := tokOk_kw (by decide) (by decide)
@[simp] theorem tok_kArray : TokOk ⟨.kArray, kwArray⟩ := tokOk_kw (by decide) (by decide)
@[simp] theorem tok_kUnion : TokOk ⟨.kUnion, kwUnion⟩ := tokOk_kw (by decide) (by decide)
@[simp] theorem tok_kConst : TokOk ⟨.kConst, kwConst⟩ := tokOk_kw (by decide) (by decide)
@[simp] theorem tok_kImport : TokOk ⟨.kImport, kwImport⟩ := tokOk_kw (by decide) (by decide)
@[simp] theorem tok_kTrue : TokOk ⟨.kTrue, kwTrue⟩ := tokOk_kw (by decide) (by decide)
@[simp] theorem tok_kFalse : TokOk ⟨.kFalse, kwFalse⟩ := tokOk_kw (by decide) (by decide)
@[simp] theorem tok_bool : TokOk (tId kwBool) := by
  have := TokOk.word kwBool (by decide)
  rwa [show keywordKind kwBool = none by decide] at this
@[simp] theorem tok_string : TokOk (tId kwString) := by
  have := TokOk.word kwString (by decide)
  rwa [show keywordKind kwString = none by decide] at this
@[simp] theorem tok_kFlags : TokOk ⟨.kFlags, kwFlags⟩ := tokOk_kw (by decide) (by decide)

theorem tok_id {s : Str} (h : IdentOk s = true) : TokOk (tId s) := by
  obtain ⟨h1, h2⟩ := identOk_split h
  have := TokOk.word s h1
  rw [h2] at this
  exact this

theorem tok_str {s : Str} (h : strBodyOk s = true) : TokOk (tStr s) := TokOk.str s h
theorem tok_num {s : Str} (h : numLitOk s = true) : TokOk (tNum s) := TokOk.num s h

/-! ### blanks, stops -/

@[simp] theorem blanks_nil : Blanks [] := Blanks.nil
@[simp] theorem blanks_sp : Blanks [32] := by intro c hc; simp at hc; subst hc; decide
@[simp] theorem blanks_tab : Blanks [9] := by intro c hc; simp at hc; subst hc; decide
@[simp] theorem blanks_tab2 : Blanks [9, 9] := by
  intro c hc; simp at hc; rcases hc with rfl | rfl <;> decide

@[simp] theorem ss_nl : startsStop [10] = true := by decide
@[simp] theorem ss_open : startsStop [123] = true := by decide
@[simp] theorem ss_close : startsStop [125] = true := by decide
@[simp] theorem ss_semi : startsStop [59] = true := by decide
@[simp] theorem ss_lb : startsStop [91] = true := by decide
@[simp] theorem ss_rb : startsStop [93] = true := by decide
@[simp] theorem ss_lp : startsStop [40] = true := by decide
@[simp] theorem ss_rp : startsStop [41] = true := by decide
@[simp] theorem ss_comma : startsStop [44] = true := by decide
@[simp] theorem ss_eq : startsStop [61] = true := by decide
@[simp] theorem ss_colon : startsStop [58] = true := by decide
@[simp] theorem ss_arrow : startsStop [45, 62] = true := by decide
@[simp] theorem ss_str (s : Str) : startsStop (34 :: s) = true := by
  show stopByte 34 = true; decide

@[simp] theorem es_nl : endsSticky [10] = false := by decide
@[simp] theorem es_open : endsSticky [123] = false := by decide
@[simp] theorem es_close : endsSticky [125] = false := by decide
@[simp] theorem es_semi : endsSticky [59] = false := by decide
@[simp] theorem es_lb : endsSticky [91] = false := by decide
@[simp] theorem es_rb : endsSticky [93] = false := by decide
@[simp] theorem es_lp : endsSticky [40] = false := by decide
@[simp] theorem es_rp : endsSticky [41] = false := by decide
@[simp] theorem es_comma : endsSticky [44] = false := by decide
@[simp] theorem es_eq : endsSticky [61] = false := by decide
@[simp] theorem es_colon : endsSticky [58] = false := by decide
@[simp] theorem es_arrow : endsSticky [45, 62] = false := by decide
@[simp] theorem es_str (s : Str) : endsSticky (34 :: (s ++ [34])) = false := endsSticky_str s

theorem tok_cmt {c : Str} (h : docLineOk c = true) : TokOk (tCmt c) := by
  apply TokOk.comment
  simp only [docLineOk, List.all_eq_true, Bool.not_eq_true', Bool.or_eq_false_iff] at h
  simp only [commentBodyOk, List.all_eq_true, bne_iff_ne, ne_eq]
  intro x hx heq
  have := (h x hx).2
  rw [heq] at this
  simp at this

@[simp] theorem ss_cmt (s : Str) : startsStop (47 :: s) = true := by
  show stopByte 47 = true; decide

@[simp] theorem es_cmt (c : Str) : endsSticky (47 :: 47 :: (c ++ [10])) = false := by
  have h := endsSticky_concat (47 :: 47 :: c) 10
  have h2 : identCont 10 = false := by decide
  rw [h2] at h
  simpa using h

/-! ### the constructs -/

theorem docLex_wf {ind : List Byte} (hi : Blanks ind) : ∀ (cs : List Str), (∀ c ∈ cs, docLineOk c = true) →
    ∀ {r : List Lexeme}, WFL false r → WFL false (docLex ind cs r)
  | [], _, r, hr => hr
  | c :: cs, hc, r, hr => by
    have ih := docLex_wf hi cs (fun x hx => hc x (List.mem_cons_of_mem _ hx)) hr
    simp only [docLex, WFL, tok_cmt (hc c (List.mem_cons_self)), hi, ss_cmt, es_cmt, implies_true, true_and, ih, and_true]

theorem trailLex_wf (c : Option Str) (hc : ∀ x, c = some x → docLineOk x = true) {r : List Lexeme} (hr : WFL false r) :
    ∀ q, WFL q (trailLex c r) := by
  intro q
  cases c with
  | none => simp only [trailLex, WFL, tok_nl, blanks_nil, ss_nl, es_nl, implies_true, true_and, hr, and_true]
  | some x =>
    simp only [trailLex, WFL, tok_cmt (hc x rfl), blanks_sp, ss_cmt, es_cmt, implies_true, true_and, hr, and_true]

theorem sufLex_wf : ∀ (k : Nat) (r : List Lexeme), (∀ q, WFL q r) → ∀ q, WFL q (sufLex k r)
  | 0, r, hr, q => hr q
  | k + 1, r, hr, q => by
    simp only [sufLex, WFL, tok_lb, tok_rb, blanks_nil, ss_lb, ss_rb, implies_true, true_and]
    exact sufLex_wf k r hr _

theorem typeLex_wf : ∀ (ty : CType), CTypeOk ty → ∀ (s : List Byte), Blanks s → ∀ (r : List Lexeme),
    (∀ q, WFL q r) → ∀ q, (s = [] → q = false) → WFL q (typeLex ty s r)
  | .name n k, hty, s, hs, r, hr, q, hq => by
    simp only [typeLex, WFL]
    refine ⟨tok_id hty, hs, fun h1 h2 => ?_, sufLex_wf k r hr _⟩
    rw [hq h1] at h2; cases h2
  | .array t k, hty, s, hs, r, hr, q, hq => by
    simp only [typeLex, WFL, tok_kArray, tok_lb, blanks_nil, ss_lb, implies_true, true_and, es_lb]
    refine ⟨hs, fun h1 h2 => ?_, ?_⟩
    · rw [hq h1] at h2; cases h2
    · refine typeLex_wf t hty [] blanks_nil _ (fun q => ?_) false (fun _ => rfl)
      simp only [WFL, tok_rb, blanks_nil, ss_rb, implies_true, true_and]
      exact sufLex_wf k r hr _
  | .map key v k, hty, s, hs, r, hr, q, hq => by
    simp only [typeLex, WFL, tok_kMap, tok_lb, tok_comma, blanks_nil, ss_lb, ss_comma, implies_true, true_and, es_lb]
    refine ⟨hs, fun h1 h2 => ?_, tok_id hty.1, by simp, ?_⟩
    · rw [hq h1] at h2; cases h2
    · refine typeLex_wf v hty.2.2 [32] blanks_sp _ (fun q => ?_) _ (fun h => by cases h)
      simp only [WFL, tok_rb, blanks_nil, ss_rb, implies_true, true_and]
      exact sufLex_wf k r hr _

theorem depLex_wf {ind : List Byte} (hi : Blanks ind) (d : Option Str) (hd : ∀ m, d = some m → strBodyOk m = true)
    {r : List Lexeme} (hr : WFL false r) : WFL false (depLex ind d r) := by
  cases d with
  | none => exact hr
  | some m =>
    simp only [depLex, WFL, tok_lb, tok_kDeprecated, tok_lp, tok_rp, tok_rb, tok_nl, tok_str (hd m rfl), blanks_nil, hi,
      ss_lp, ss_rp, ss_rb, ss_nl, ss_str, es_lb, es_lp, es_rp, es_rb, es_nl, es_str, implies_true, true_and,
      Bool.false_eq_true, false_imp_iff, hr, and_self]

theorem fieldLex_wf {ind : List Byte} (hi : Blanks ind) (_hne : ind ≠ []) (f : CField) (hf : CFieldOk f)
    {r : List Lexeme} (hr : WFL false r) : WFL false (fieldLex ind f r) := by
  refine docLex_wf hi f.doc (fun c hc => (hf.1 c hc).1) ?_
  refine depLex_wf hi f.dep hf.2.2.1 ?_
  refine typeLex_wf f.ty hf.2.2.2.1 ind hi _ (fun q => ?_) false (fun _ => rfl)
  simp only [WFL, tok_id hf.2.2.2.2, tok_semi, blanks_sp, blanks_nil, ss_semi, es_semi,
    implies_true, true_and, trailLex_wf f.trail hf.2.1 hr, and_true]
  intro h; cases h

theorem blanks_dropLast {ind : List Byte} (hi : Blanks ind) : Blanks ind.dropLast :=
  fun c hc => hi c (List.dropLast_subset ind hc)

theorem fieldsLex_wf {ind : List Byte} (hi : Blanks ind) (hne : ind ≠ []) : ∀ (fs : List CField),
    (∀ f ∈ fs, CFieldOk f) → ∀ {r : List Lexeme}, WFL false r → WFL false (fieldsLex ind fs r)
  | [], _, r, hr => by
    simp only [fieldsLex, WFL, tok_close, tok_nl, blanks_nil, blanks_dropLast hi, ss_close, ss_nl, es_close, es_nl,
      implies_true, true_and, hr, and_self]
  | f :: fs, hf, r, hr =>
    fieldLex_wf hi hne f (hf f (List.mem_cons_self))
      (fieldsLex_wf hi hne fs (fun g hg => hf g (List.mem_cons_of_mem _ hg)) hr)

theorem opLitTok_ok {o : OpLit} (h : OpLitOk o) : TokOk (opLitTok o) := by
  cases o with
  | num lit => exact tok_num h.1
  | str s => exact tok_str h.1

theorem opLex_wf (op : Option OpLit) (hop : ∀ o, op = some o → OpLitOk o) {r : List Lexeme} (hr : WFL false r) :
    WFL false (opLex op r) := by
  cases op with
  | none => exact hr
  | some o =>
    have ho := hop o rfl
    have hstop : startsStop (opLitTok o).concrete = true → True := fun _ => trivial
    simp only [opLex, WFL, tok_lb, tok_kOpCode, tok_lp, tok_rp, tok_rb, tok_nl, opLitTok_ok ho, blanks_nil,
      ss_lp, ss_rp, ss_rb, ss_nl, es_lb, es_lp, es_rp, es_rb, es_nl, implies_true, true_and,
      Bool.false_eq_true, false_imp_iff, hr, and_self]

theorem structLex_wf {s ind : List Byte} (hs : Blanks s) (hi : Blanks ind) (hne : ind ≠ []) {name : Str}
    (hn : IdentOk name = true) {fields : List CField} (hf : ∀ f ∈ fields, CFieldOk f) {r : List Lexeme}
    (hr : WFL false r) (q : Bool) (hq : s = [] → q = false) : WFL q (structLex s ind name fields r) := by
  simp only [structLex, WFL, tok_kStruct, tok_id hn, tok_open, tok_nl, blanks_sp, blanks_nil, hs, ss_nl, es_nl,
    implies_true, true_and, fieldsLex_wf hi hne fields hf hr, and_true, reduceCtorEq, false_imp_iff]
  intro h1 h2
  rw [hq h1] at h2; cases h2

theorem msgFieldsLex_wf {ind : List Byte} (hi : Blanks ind) (hne : ind ≠ []) : ∀ (gs : List CMsgField),
    (∀ g ∈ gs, CMsgFieldOk g) → ∀ {r : List Lexeme}, WFL false r → WFL false (msgFieldsLex ind gs r)
  | [], _, r, hr => by
    simp only [msgFieldsLex, WFL, tok_close, tok_nl, blanks_nil, blanks_dropLast hi, ss_close, ss_nl, es_close, es_nl,
      implies_true, hr, and_self]
  | g :: gs, hg, r, hr => by
    have hg0 := hg g (List.mem_cons_self)
    have ih := msgFieldsLex_wf hi hne gs (fun x hx => hg x (List.mem_cons_of_mem _ hx)) hr
    simp only [msgFieldsLex, msgFieldLex]
    refine docLex_wf hi g.doc (fun c hc => (hg0.2.1 c hc).1) ?_
    refine depLex_wf hi g.dep hg0.2.2.1 ?_
    simp only [WFL, tok_num hg0.2.2.2.1, tok_arrow, hi, blanks_sp, reduceCtorEq, false_imp_iff, implies_true, true_and,
      es_arrow]
    refine typeLex_wf g.ty hg0.2.2.2.2.2.1 [32] blanks_sp _ (fun q => ?_) _ (fun h => by cases h)
    simp only [WFL, tok_id hg0.2.2.2.2.2.2, tok_semi, blanks_sp, blanks_nil, ss_semi, es_semi,
      implies_true, true_and, trailLex_wf g.trail hg0.1 ih, and_true, reduceCtorEq, false_imp_iff]

theorem sbk_bar : singleByteKind 124 = some .vbar := by decide
theorem sbk_amp : singleByteKind 38 = some .amp := by decide

theorem etok_ok {e : ETok} (h : ETokOk e) : TokOk e.tok := by
  cases e with
  | lit s => exact tok_num h
  | ref n => exact tok_id h
  | bar => exact tokOk_single (by decide) sbk_bar
  | amp => exact tokOk_single (by decide) sbk_amp
  | shl => exact TokOk.shl
  | shr => exact TokOk.shr
  | lp => exact tok_lp
  | rp => exact tok_rp

/-- the tokens of a member value, spaced as the formatter spaces them (`p`: the previous token ends in a
    letter or digit; a `(` does not) -/
theorem spLex_val_wf : ∀ (val : List ETok), (∀ e ∈ val, ETokOk e) → ∀ (prev : TK) (p : Bool) {r : List Lexeme},
    (∀ q, WFL q r) → (prev = .openParen → p = false) → WFL p (spLex prev (val.map ETok.tok) r)
  | [], _, prev, p, r, hr, _ => hr p
  | e :: val, he, prev, p, r, hr, hp => by
    have he0 := he e (List.mem_cons_self)
    have ih := spLex_val_wf val (fun x hx => he x (List.mem_cons_of_mem _ hx)) e.tok.kind (endsSticky e.tok.concrete)
      hr (by cases e <;> simp [ETok.tok])
    simp only [List.map_cons, spLex, WFL]
    refine ⟨etok_ok he0, ?_, ?_, ih⟩
    · split
      · exact blanks_sp
      · exact blanks_nil
    · intro hsep hpt
      split at hsep
      · cases hsep
      · rename_i hcond
        simp only [Bool.and_eq_true, bne_iff_ne, ne_eq, not_and, Decidable.not_not] at hcond
        by_cases hprev : prev = .openParen
        · rw [hp hprev] at hpt; cases hpt
        · have hk := hcond hprev
          cases e <;> simp [ETok.tok] at hk ⊢

theorem enumOptsLex_wf {fl : Bool} {bits : Nat} {uns : Bool} : ∀ (os : List CEnumOpt) (acc : List EnumOption),
    CEnumOptsOk fl bits uns acc os → ∀ {r : List Lexeme}, WFL false r → WFL false (enumOptsLex os r)
  | [], _, _, r, hr => by
    simp only [enumOptsLex, WFL, tok_close, tok_nl, blanks_nil, ss_close, ss_nl, es_close, es_nl,
      implies_true, hr, and_self]
  | o :: os, acc, ho, r, hr => by
    have ho0 := ho.1
    have ih := enumOptsLex_wf os _ ho.2 hr
    simp only [enumOptsLex, enumOptLex]
    refine docLex_wf blanks_tab o.doc ho0.1 ?_
    refine depLex_wf blanks_tab o.dep ho0.2.1 ?_
    have htail : ∀ q, WFL q (⟨[], tSemi⟩ :: ⟨[], tNl⟩ :: enumOptsLex os r) := by
      intro q
      simp only [WFL, tok_semi, tok_nl, blanks_nil, ss_semi, ss_nl, es_semi, es_nl, implies_true, true_and, ih, and_true]
    have hval := spLex_val_wf o.val ho0.2.2.2.1 .equals (endsSticky tEq.concrete) htail (by intro h; cases h)
    have hsp : (TK.ident != TK.openParen && TK.equals != TK.closeParen) = true := by decide
    simp only [spLex, WFL, tok_id ho0.2.2.1, tok_eq, blanks_tab, blanks_sp, reduceCtorEq, false_imp_iff, implies_true,
      true_and, hsp, if_true]
    exact hval

theorem messageLex_wf {s ind : List Byte} (hs : Blanks s) (hi : Blanks ind) (hne : ind ≠ []) {name : Str}
    (hn : IdentOk name = true) {gs : List CMsgField} (hg : ∀ g ∈ gs, CMsgFieldOk g) {r : List Lexeme}
    (hr : WFL false r) (q : Bool) (hq : s = [] → q = false) : WFL q (messageLex s ind name gs r) := by
  simp only [messageLex, WFL, tok_kMessage, tok_id hn, tok_open, tok_nl, blanks_sp, blanks_nil, hs, ss_nl, es_nl,
    implies_true, true_and, msgFieldsLex_wf hi hne gs hg hr, and_true, reduceCtorEq, false_imp_iff]
  intro h1 h2
  rw [hq h1] at h2; cases h2

theorem membersLex_wf : ∀ (ms : List CUMember), (∀ m ∈ ms, CUMemberOk m) → ∀ {r : List Lexeme}, WFL false r →
    WFL false (membersLex ms r)
  | [], _, r, hr => by
    simp only [membersLex, WFL, tok_close, tok_nl, blanks_nil, ss_close, ss_nl, es_close, es_nl,
      implies_true, hr, and_self]
  | m :: ms, hm, r, hr => by
    have hm0 := hm m (List.mem_cons_self)
    have ih := membersLex_wf ms (fun x hx => hm x (List.mem_cons_of_mem _ hx)) hr
    have htab2 : ([9, 9] : List Byte) ≠ [] := by simp
    simp only [membersLex]
    cases m with
    | struct doc dep idx name fields =>
      obtain ⟨h0, h1, h2, _, h4, h5⟩ := hm0
      simp only [memberLex]
      refine docLex_wf blanks_tab doc (fun c hc => (h0 c hc).1) ?_
      refine depLex_wf blanks_tab dep h1 ?_
      simp only [WFL, tok_num h2, tok_arrow, blanks_tab, blanks_sp, reduceCtorEq, false_imp_iff, implies_true, true_and,
        es_arrow]
      exact structLex_wf blanks_sp blanks_tab2 htab2 h4 h5 ih _ (fun h => by cases h)
    | message doc dep idx name fields =>
      obtain ⟨h0, h1, h2, _, h4, h5, _⟩ := hm0
      simp only [memberLex]
      refine docLex_wf blanks_tab doc (fun c hc => (h0 c hc).1) ?_
      refine depLex_wf blanks_tab dep h1 ?_
      simp only [WFL, tok_num h2, tok_arrow, blanks_tab, blanks_sp, reduceCtorEq, false_imp_iff, implies_true, true_and,
        es_arrow]
      exact messageLex_wf blanks_sp blanks_tab2 htab2 h4 h5 ih _ (fun h => by cases h)

theorem flagsLex_wf (fl : Bool) {r : List Lexeme} (hr : WFL false r) : WFL false (flagsLex fl r) := by
  cases fl with
  | false => exact hr
  | true =>
    simp only [flagsLex, WFL, tok_lb, tok_kFlags, tok_rb, tok_nl, blanks_nil, ss_rb, ss_nl, es_lb, es_rb, es_nl,
      implies_true, true_and, Bool.false_eq_true, false_imp_iff, hr, and_self]

theorem constValTok_ok {v : CConstV} (h : CConstVOk v) : TokOk (constValTok v) := by
  cases v with
  | int ty lit => exact tok_num h.2.1
  | bool b => cases b <;> simp [constValTok]
  | str body => exact tok_str h
  | float ty neg ip fp => exact TokOk.float neg ip fp h.2.2.2.1 h.2.2.2.2.1 h.2.2.2.2.2.1 h.2.2.2.2.2.2
  | inf ty => exact tokOk_kw (by decide) (by decide)
  | negInf ty => exact TokOk.negInf
  | nan ty => exact tokOk_kw (by decide) (by decide)
  | guid body => exact tok_str h.1

theorem constTy_ok {v : CConstV} (h : CConstVOk v) : TokOk (tId (constTy v)) := by
  cases v with
  | int ty lit => exact tok_id h.1
  | bool b => exact tok_bool
  | str body => exact tok_string
  | float ty neg ip fp => exact tok_id h.1
  | inf ty => exact tok_id h.1
  | negInf ty => exact tok_id h.1
  | nan ty => exact tok_id h.1
  | guid body =>
    have := TokOk.word kwGuid (by decide)
    rwa [show keywordKind kwGuid = none by decide] at this

theorem defLex_wf (d : CDef) (hd : CDefOk d) {r : List Lexeme} (hr : WFL false r) : WFL false (defLex d r) := by
  cases d with
  | struct op ro name fields =>
    obtain ⟨h1, h2, h3⟩ := hd
    simp only [defLex]
    refine opLex_wf op h1 ?_
    cases ro with
    | false => exact structLex_wf blanks_nil blanks_tab (by simp) h2 h3 hr false (fun _ => rfl)
    | true =>
      simp only [if_true, WFL, tok_kReadOnly, blanks_nil, implies_true, true_and, Bool.false_eq_true, false_imp_iff]
      exact structLex_wf blanks_sp blanks_tab (by simp) h2 h3 hr _ (fun h => by cases h)
  | message op name fields =>
    obtain ⟨h1, h2, h3, _⟩ := hd
    simp only [defLex, messageLex]
    refine opLex_wf op h1 ?_
    simp only [WFL, tok_kMessage, tok_id h2, tok_open, tok_nl, blanks_sp, blanks_nil, ss_nl, es_nl,
      implies_true, true_and, msgFieldsLex_wf blanks_tab (by simp) fields h3 hr, and_true, reduceCtorEq, false_imp_iff,
      Bool.false_eq_true]
  | union op name members =>
    obtain ⟨h1, h2, h3, _⟩ := hd
    simp only [defLex]
    refine opLex_wf op h1 ?_
    simp only [WFL, tok_kUnion, tok_id h2, tok_open, tok_nl, blanks_sp, blanks_nil, ss_nl, es_nl,
      implies_true, true_and, membersLex_wf members h3 hr, and_true, reduceCtorEq, false_imp_iff,
      Bool.false_eq_true]
  | enum fl name base opts =>
    obtain ⟨h1, h2, h3⟩ := hd
    simp only [defLex]
    refine flagsLex_wf fl ?_
    have hbody := enumOptsLex_wf opts [] h3 hr
    cases base with
    | none =>
      simp only [baseLex, WFL, tok_kEnum, tok_id h1, tok_open, tok_nl, ss_nl, es_nl, blanks_nil, blanks_sp, reduceCtorEq,
        false_imp_iff, Bool.false_eq_true, implies_true, true_and, hbody, and_true]
    | some b =>
      simp only [baseLex, WFL, tok_kEnum, tok_id h1, tok_colon, tok_id (h2 b rfl).1, tok_open, tok_nl, ss_nl, es_nl,
        blanks_nil, blanks_sp, reduceCtorEq, false_imp_iff, Bool.false_eq_true, implies_true, true_and, hbody, and_true]
  | const name v =>
    obtain ⟨h1, h2⟩ := hd
    simp only [defLex, WFL, tok_kConst, constTy_ok h2, tok_id h1, tok_eq, constValTok_ok h2, tok_semi, blanks_nil,
      blanks_sp, ss_semi, es_semi, reduceCtorEq, false_imp_iff, Bool.false_eq_true, implies_true, true_and, hr, and_true]
  | import_ path =>
    simp only [defLex, WFL, tok_kImport, tok_str hd, tok_nl, blanks_nil, blanks_sp, ss_nl, es_nl, reduceCtorEq,
      false_imp_iff, Bool.false_eq_true, implies_true, true_and, hr, and_true]

theorem fileLex_wf : ∀ (f : CFile), (∀ d ∈ f, CTopOk d) → ∀ nl, WFL false (fileLex nl f)
  | [], _, _ => trivial
  | d :: ds, hf, nl => by
    have ih := fileLex_wf ds (fun x hx => hf x (List.mem_cons_of_mem _ hx)) (nlAfter d.d)
    have hd0 := hf d (List.mem_cons_self)
    have hd := docLex_wf blanks_nil d.doc hd0.1 (defLex_wf d.d hd0.2.2 ih)
    cases h : (nl && d.doc.isEmpty) with
    | false => simpa [fileLex, h] using hd
    | true =>
      simp only [fileLex, h, if_true, List.singleton_append, WFL, tok_nl, blanks_nil, ss_nl, es_nl, implies_true,
        true_and]
      exact hd

/-- The tokenizer delivers every admissible layout of a well-formed schema as exactly its tokens. -/
theorem lex_schema (f : CFile) (hf : CFileOkP f) (w : Nat → List Byte) (hw : LayoutOk w (fileLex false f)) :
    LexI ((fileLex false f).map (·.tok)) (laidOutF w f) :=
  lex_render (fileLex_wf f hf.1 false).lexsOk hw

theorem canonTextF_eq (f : CFile) : canonTextF f = laidOutF (canonW (fileLex false f)) f :=
  (render_canon _).symm

theorem canonW_layoutOk (f : CFile) (hf : CFileOkP f) : LayoutOk (canonW (fileLex false f)) (fileLex false f) :=
  canonW_ok (fileLex_wf f hf.1 false).lexsOk

end Canon
end Bebop.Text
