// Command semantic is the correspondence engine for property C13: valid random schemas with exactly one
// semantic error injected (by the Lean generator, class by class and site by site) go through the real
// bebop.ReadFile + File.Validate + File.Generate; the verdict (accept / reject) is compared with the Spec
// (an injected error must be rejected, the "can terminate" recursion controls must be accepted) and with
// the Lean model of the parser + validator.
package main

import (
	"bytes"
	"encoding/hex"
	"encoding/json"
	"flag"
	"fmt"
	"io"
	"math/rand"
	"os"
	"strings"
	"time"

	"github.com/200sc/bebop"
	"verif/harness/internal/proc"
)

type failure struct {
	Property string `json:"property"`
	Kind     string `json:"kind"`
	Class    string `json:"class"`
	Text     string `json:"text"`
	TextHex  string `json:"text_hex"`
	Op       string `json:"op"`
	Expected string `json:"expected"`
	Observed string `json:"observed"`
	Model    string `json:"model"`
	Note     string `json:"note"`
}

type stat struct {
	Evaluations        int            `json:"evaluations"`
	DistinctNontrivial int            `json:"distinct_nontrivial"`
	Rule               string         `json:"rule"`
	Samples            []string       `json:"samples"`
	Distribution       map[string]int `json:"distribution"`
	FailuresTotal      int            `json:"failures_total"`
}

var classes = []string{"dupDefName", "primitiveName", "dupConstName", "dupStructField", "dupMessageField",
	"dupOptionName", "dupOptionValue", "dupOpCode", "undefStructField", "undefMessageField", "undefUnionBranchField",
	"undefMapKey", "selfStruct", "chainStruct", "dupMsgIndex", "msgIndexZero", "dupUnionIndex", "enumOutOfRange",
	"flagsOutOfRange", "constNotAssignable", "constOutOfRange", "okRecursionViaMessage", "okRecursionViaUnion",
	"selfStructDeprecated", "chainStructDeprecated", "flagsShiftOverflow"}

// realVerdict runs the real pipeline; "accept", "reject-parse", "reject-validate", "reject-generate", "panic".
func realVerdict(text []byte) (v string, msg string) {
	defer func() {
		if p := recover(); p != nil {
			v, msg = "panic", fmt.Sprint(p)
		}
	}()
	f, _, err := bebop.ReadFile(bytes.NewReader(text))
	if err != nil {
		return "reject-parse", err.Error()
	}
	if err := f.Validate(); err != nil {
		return "reject-validate", err.Error()
	}
	if err := f.Generate(io.Discard, bebop.GenerateSettings{PackageName: "p"}); err != nil {
		return "reject-generate", err.Error()
	}
	return "accept", ""
}

func main() {
	seed := flag.Int64("seed", 1, "")
	tier := flag.String("tier", "quick", "")
	modelPath := flag.String("model", "", "")
	_ = flag.String("work", "", "")
	_ = flag.String("repo", "/repo", "")
	out := flag.String("out", "", "")
	replay := flag.String("replay", "", "")
	flag.Parse()
	model := proc.Command([]string{*modelPath}, nil, 60*time.Second)
	defer model.Close()
	ask := func(l string) string {
		r, err := model.Send(l)
		if err != nil {
			fmt.Fprintln(os.Stderr, "semantic engine: model:", err)
			os.Exit(2)
		}
		return r
	}
	st := stat{Distribution: map[string]int{}, Rule: "for seeds x error classes: the Lean generator builds a valid schema (all constructs, random layout) and injects exactly one error of the class at an applicable site (or adds a terminating-recursion control); real ReadFile+Validate+Generate verdict vs Spec expectation and vs the model's parse+validate. distinct = distinct (class, text) pairs"}
	fails := []failure{}
	distinct := map[string]struct{}{}
	fail := func(kind, class string, text []byte, exp, obs, mdl, note string) {
		st.FailuresTotal++
		if len(fails) < 300 {
			t := text
			if len(t) > 700 {
				t = t[:700]
			}
			fails = append(fails, failure{"C13", kind, class, fmt.Sprintf("%q", t), hex.EncodeToString(text), "ReadFile+Validate+Generate", exp, obs, mdl, note})
		}
	}
	check := func(class string, text []byte) {
		want := "reject"
		if strings.HasPrefix(class, "ok") || class == "valid" {
			want = "accept"
		}
		rv, msg := realVerdict(text)
		st.Evaluations++
		st.Distribution[class+"/"+rv]++
		distinct[class+"/"+hex.EncodeToString(text)] = struct{}{}
		got := rv
		if strings.HasPrefix(rv, "reject") {
			got = "reject"
		}
		mv := ask("validate " + hex.EncodeToString(text))
		mgot := mv
		if strings.HasPrefix(mv, "reject") {
			mgot = "reject"
		}
		if rv == "panic" {
			fail("panic", class, text, want, rv+": "+msg, mv, "the pipeline panicked")
			return
		}
		if got != want {
			fail("oracle", class, text, want, rv+" "+msg, mv, "a schema with this semantic error must be "+want+"ed")
		}
		if mgot != "declined" && !strings.HasPrefix(mv, "bad-op") {
			// the model has no Generate step: reject-generate counts as accept for the comparison
			cmp := got
			if rv == "reject-generate" {
				cmp = "accept"
			}
			if mgot != cmp {
				fail("mismatch", class, text, mv, rv+" "+msg, mv, "model and implementation disagree on the verdict")
			}
		}
	}

	if *replay != "" {
		b, _ := os.ReadFile(*replay)
		var f failure
		_ = json.Unmarshal(b, &f)
		text, _ := hex.DecodeString(f.TextHex)
		fmt.Printf("replaying C13/%s on:\n%s\n", f.Class, text)
		check(f.Class, text)
		for _, x := range fails {
			fmt.Printf("FAIL %s: expected %s observed %s model %s (%s)\n", x.Kind, x.Expected, x.Observed, x.Model, x.Note)
		}
		if len(fails) > 0 {
			os.Exit(1)
		}
		fmt.Println("no failure on this input with the current tree")
		return
	}

	rng := rand.New(rand.NewSource(*seed))
	n := 40
	if *tier == "thorough" {
		n = 600
	}
	for i := 0; i < n; i++ {
		s := *seed*7919 + int64(i)
		size := 3 + rng.Intn(6)
		// the valid base schema must be accepted
		r := ask(fmt.Sprintf("gen %d %d 0", s, size))
		parts := strings.SplitN(r, " ", 3)
		if len(parts) == 3 && parts[0] == "ok" {
			text, _ := hex.DecodeString(strings.TrimPrefix(parts[1], "-"))
			check("valid", text)
			if len(st.Samples) < 2 {
				t := text
				if len(t) > 300 {
					t = t[:300]
				}
				st.Samples = append(st.Samples, fmt.Sprintf("valid: %q", t))
			}
		}
		for ci, class := range classes {
			r := ask(fmt.Sprintf("geninvalid %d %d %d", s, size, ci))
			parts := strings.Fields(r)
			if len(parts) != 3 || parts[0] != "ok" {
				st.Distribution[class+"/not-applicable"]++
				continue
			}
			text, _ := hex.DecodeString(strings.TrimPrefix(parts[1], "-"))
			check(class, text)
			if i == 0 && len(st.Samples) < 6 {
				t := text
				if len(t) > 200 {
					t = t[len(t)-200:]
				}
				st.Samples = append(st.Samples, fmt.Sprintf("%s: …%q", class, t))
			}
		}
	}
	// boundary values of indices, written by hand: the first number past the legal range, and its neighbours
	for _, c := range [][2]string{
		{"boundaryIndex", "message M {\n\t256 -> int32 x;\n}\n"},
		{"boundaryIndex", "message M {\n\t1 -> int32 a;\n\t256 -> int32 b;\n}\n"},
		{"boundaryIndex", "message M {\n\t257 -> int32 x;\n}\n"},
		{"boundaryIndex", "message M {\n\t65536 -> int32 x;\n}\n"},
		{"boundaryIndex", "message M {\n\t4294967296 -> int32 x;\n}\n"},
		{"boundaryIndex", "message M {\n\t0 -> int32 x;\n}\n"},
		{"boundaryIndex", "union U {\n\t256 -> struct A {\n\t\tint32 x;\n\t}\n}\n"},
		{"boundaryIndex", "union U {\n\t1 -> struct A {\n\t}\n\t257 -> message B {\n\t}\n}\n"},
		{"boundaryIndex", "union U {\n\t1 -> message B {\n\t\t256 -> int32 x;\n\t}\n}\n"},
		{"okBoundaryIndex", "message M {\n\t255 -> int32 x;\n\t1 -> int32 y;\n}\nunion U {\n\t255 -> struct A {\n\t}\n\t0 -> message B {\n\t\t255 -> int32 z;\n\t}\n}\n"},
	} {
		check(c[0], []byte(c[1]))
	}
	st.DistinctNontrivial = len(distinct)
	res := map[string]interface{}{"engine": "semantic", "seed": *seed, "tier": *tier,
		"stats": map[string]interface{}{"C13": st}, "failures": fails}
	b, _ := json.MarshalIndent(res, "", " ")
	if *out != "" {
		if err := os.WriteFile(*out, b, 0o644); err != nil {
			fmt.Fprintln(os.Stderr, err)
			os.Exit(2)
		}
	}
	fmt.Printf("C13: evaluations=%d distinct=%d failures=%d\n", st.Evaluations, st.DistinctNontrivial, st.FailuresTotal)
}
