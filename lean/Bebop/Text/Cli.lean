/-
  Cli: the command-line tools as programs over an abstract file system.

  The program is not written here: it is `CliFacts.bebopcProg` / `CliFacts.bebopfmtProg`, the list of
  file-system calls the extractor reads out of main/bebopc-go/main.go and main/bebopfmt/main.go on every
  run. This file gives that list a semantics: every call has an outcome chosen by an adversarial schedule
  (it succeeds, it fails after writing `n` bytes, or the process dies after writing `n` bytes), and the
  state is the content of the target path and of the temporary file.

  Assumed about the operating system (trusted base): rename(2) is atomic -- it either replaces the
  target with the temporary file's content or changes nothing; open-with-truncate (os.Create) empties the
  file when it succeeds and changes nothing when it fails; a write appends a prefix of the data.
-/
import Bebop.Generated.CliFacts

namespace Bebop.Cli

abbrev Bytes := List UInt8

inductive Act where
  | read          -- opens / reads / parses / generates in memory: fallible, touches no file
  | benign        -- Close of the input, Stat, Name(): its outcome cannot fail the tool
  | createTemp | writeTemp | tempMeta | rename | removeTemp
  | createTarget | writeTarget | targetMeta
  | unknown
  deriving Repr, DecidableEq, Inhabited, BEq

structure Step where
  name : String
  act : Act
  checked : Bool
  deferred : Bool
  deriving Repr, Inhabited

def classify (name role : String) : Act :=
  if name == "os.Open" then .read
  else if name == "bebop.ReadFile" || name == "bebop.Format" || name == "schema.Generate" then .read
  else if name == "input.Stat" || name == "input.Readdir" then .read
  else if name == "input.Close" || name == "os.Stat" || name == "temp.Name" || name == "os.FileMode" then .benign
  else if name == "os.CreateTemp" && role == "dir" then .createTemp
  else if name == "temp.Write" then .writeTemp
  else if name == "temp.Chmod" || name == "temp.Close" || name == "temp.Sync" then .tempMeta
  else if name == "os.Rename" && role == "temp>target" then .rename
  else if name == "os.Remove" && role == "temp" then .removeTemp
  else if name == "os.Create" && role == "target" then .createTarget
  else if name == "target.Write" then .writeTarget
  else if name == "target.Close" || name == "target.Sync" then .targetMeta
  else .unknown

def ofRaw (r : CliFacts.RawStep) : Step :=
  { name := r.1, act := classify r.1 r.2.1, checked := r.2.2.1, deferred := r.2.2.2 }

def bebopc : List Step := CliFacts.bebopcProg.map ofRaw
def bebopfmt : List Step := CliFacts.bebopfmtProg.map ofRaw

/-- What the adversary decides for one executed call. -/
inductive Outcome where
  | ok
  | fail (written : Nat)    -- the call returns an error; a write got `written` bytes out first
  | crash (written : Nat)   -- the process dies inside the call (SIGXFSZ, SIGKILL, power)
  deriving Repr, DecidableEq, Inhabited, BEq

structure FS where
  target : Option Bytes
  tmp : Option Bytes
  deriving Repr, DecidableEq, Inhabited, BEq

inductive Exit where
  | zero        -- exit status 0, nothing reported
  | reported    -- the error was printed and the status is 1
  | crashed     -- killed: no report, status is the signal's
  deriving Repr, DecidableEq, Inhabited, BEq

structure Run where
  fs : FS
  exit : Exit
  /-- some call that matters did not succeed -/
  failed : Bool
  deriving Repr, DecidableEq, Inhabited, BEq

/-- The effect of a call that succeeds. -/
def applyOk (a : Act) (data : Bytes) (fs : FS) : FS :=
  match a with
  | .createTemp => { fs with tmp := some [] }
  | .writeTemp => { fs with tmp := some ((fs.tmp.getD []) ++ data) }
  | .rename => { target := fs.tmp, tmp := none }
  | .removeTemp => { fs with tmp := none }
  | .createTarget => { fs with target := some [] }
  | .writeTarget => { fs with target := some ((fs.target.getD []) ++ data) }
  | _ => fs

/-- The effect of a call that fails or is cut short after `n` bytes. -/
def applyPartial (a : Act) (data : Bytes) (n : Nat) (fs : FS) : FS :=
  match a with
  | .writeTemp => { fs with tmp := some ((fs.tmp.getD []) ++ data.take n) }
  | .writeTarget => { fs with target := some ((fs.target.getD []) ++ data.take n) }
  | _ => fs

def nextOutcome : List Outcome → Outcome × List Outcome
  | [] => (.ok, [])
  | o :: rest => (o, rest)

/-- Run the non-deferred calls in order. A failing checked call ends the run with a report (the deferred
    clean-up that follows only closes descriptors and removes the temporary file); a failing unchecked call
    is not noticed and the run goes on. -/
def exec (data : Bytes) : List Step → List Outcome → FS → Bool → Run
  | [], _, fs, failed => { fs := fs, exit := .zero, failed := failed }
  | s :: rest, sched, fs, failed =>
    if s.deferred || s.act = .benign then exec data rest sched fs failed
    else
      match nextOutcome sched with
      | (.ok, sched') => exec data rest sched' (applyOk s.act data fs) failed
      | (.fail n, sched') =>
        let fs' := applyPartial s.act data n fs
        if s.checked then { fs := fs', exit := .reported, failed := true }
        else exec data rest sched' fs' true
      | (.crash n, _) => { fs := applyPartial s.act data n fs, exit := .crashed, failed := true }

/-- The shape for which the property is proved:
    checked reads, then CreateTemp, Write, metadata calls on the temporary file, Rename -- all checked,
    nothing after the rename; deferred calls only close descriptors or remove the temporary file. -/
def safeTail : Nat → List Step → Bool
  | _, [] => false
  | ph, s :: rest =>
    if s.deferred then
      (s.act = .benign || s.act = .tempMeta || s.act = .removeTemp) && safeTail ph rest
    else if s.act = .benign then safeTail ph rest
    else if !s.checked then false
    else match ph, s.act with
      | 0, .read => safeTail 0 rest
      | 0, .createTemp => safeTail 1 rest
      | 1, .writeTemp => safeTail 2 rest
      | 2, .tempMeta => safeTail 2 rest
      | 2, .rename => rest.all (fun t => t.deferred || t.act = .benign)
      | _, _ => false

def SafeProg (p : List Step) : Bool := safeTail 0 p

/-- The claim of C19 about one run; `before` is the target's content (or absence) when the run starts. -/
def Preserves (before : Option Bytes) (data : Bytes) (r : Run) : Prop :=
  (r.failed = true → r.fs.target = before ∧ r.exit ≠ .zero) ∧
  (r.failed = false → r.exit = .zero ∧ r.fs.target = some data)

end Bebop.Cli
