/-
  Flags: the width-typed evaluator of [flags] member expressions (`evalExpr`, the model of
  evaluateBitflagExpr) computes the value the Spec assigns (`specEval`, unbounded integers) whenever no
  intermediate value leaves the base type.
-/
import Bebop.Text.Parser
import Bebop.Text.Grammar

namespace Bebop.Text

/-! ### literals -/

/-- The literal without its leading '-'. -/
def litBody (t : Str) : Str :=
  match t with
  | 0x2d :: r => r
  | _ => t

def litNeg (t : Str) : Bool :=
  match t with
  | 0x2d :: _ => true
  | _ => false

/-- Magnitude as the Spec reads it. -/
def litMag (body : Str) : Option Nat :=
  match body with
  | 0x30 :: x :: rest => if x == 0x78 || x == 0x58 then parseDigits 16 rest 0 else none
  | _ => parseDigits 10 body 0

theorem litValue_eq (t : Str) :
    litValue t = (litMag (litBody t)).map (fun (n : Nat) => if litNeg t then -(n : Int) else (n : Int)) := by
  rcases t with _ | ⟨c, r⟩
  · simp [litValue, litMag, litBody, litNeg, parseDigits]
  · by_cases h : c = 0x2d
    · subst h
      simp only [litValue, litBody, litNeg]
      split
      · simp [litMag, parseDigits, digitVal]
      all_goals
        rename_i heq
        unfold litMag
        simp only [↓reduceIte]
        split at heq <;> split <;>
          first
          | (rw [heq]; rfl)
          | (exfalso; simp_all; done)
          | (injections; subst_vars; injections; subst_vars; rw [heq]; rfl)
          | (injections; subst_vars; rw [heq]; rfl)
    · simp only [litValue, litBody, litNeg, h, reduceCtorEq, List.cons.injEq, false_and, imp_false, not_false_eq_true, implies_true]
      split
      · rename_i heq
        simp only [List.cons.injEq] at heq
        obtain ⟨rfl, rfl⟩ := heq
        simp [litMag, parseDigits, digitVal]
      all_goals
        rename_i heq _
        unfold litMag
        simp only [↓reduceIte]
        split at heq <;> split <;>
          first
          | (rw [heq]; rfl)
          | (exfalso; simp_all; done)
          | (injections; subst_vars; injections; subst_vars; rw [heq]; rfl)
          | (injections; subst_vars; rw [heq]; rfl)

/-- Go's base-0 syntax needs at least one digit (after the `0x` prefix too); the Spec's `litValue`
    reads the empty digit string as 0. -/
def HasDigits (body : Str) : Prop := body ≠ [] ∧ ∀ x, body ≠ [0x30, x]

def CanonicalBody (body : Str) : Prop := ∀ x rest, body = 0x30 :: x :: rest → x = 0x78 ∨ x = 0x58

theorem parseMagnitude_eq_litMag (body : Str) (hc : CanonicalBody body) (hd : HasDigits body) :
    parseMagnitude body true = litMag body := by
  obtain ⟨hne, h2⟩ := hd
  rcases body with _ | ⟨c, _ | ⟨x, rest⟩⟩
  · exact absurd rfl hne
  · simp [parseMagnitude, litMag]
  · by_cases hc0 : c = 0x30
    · subst hc0
      have hx := hc x rest rfl
      have hr : rest ≠ [] := by
        intro h; subst h; exact h2 x rfl
      rcases hx with rfl | rfl <;> simp [parseMagnitude, litMag, hr]
    · simp [parseMagnitude, litMag, hc0]

/-- Without the digit guard: whatever Go's base-0 parse accepts, the Spec reads the same way. -/
theorem parseMagnitude_litMag (body : Str) (hc : CanonicalBody body) (n : Nat)
    (h : parseMagnitude body true = some n) : litMag body = some n := by
  rcases body with _ | ⟨c, _ | ⟨x, rest⟩⟩
  · simp [parseMagnitude] at h
  · simpa [parseMagnitude, litMag] using h
  · by_cases hc0 : c = 0x30
    · subst hc0
      have hx := hc x rest rfl
      rcases hx with rfl | rfl
      · simp [parseMagnitude] at h; simp [litMag, h.2]
      · simp [parseMagnitude] at h; simp [litMag, h.2]
    · simpa [parseMagnitude, litMag, hc0] using h

/-- No leading zero followed by more digits: Go's base-0 parse reads `010` as octal 8 (and knows `0b`,
    `0o`), the Spec's `litValue` does not. -/
def CanonicalLit (t : Str) : Prop := CanonicalBody (litBody t)

/-- The literal does not start with '+' (Go's ParseInt accepts a sign, the Spec has no `+`). -/
def NoPlus (t : Str) : Prop := ∀ r, t ≠ 0x2b :: r

@[simp] theorem litBody_nil : litBody [] = [] := rfl
@[simp] theorem litNeg_nil : litNeg [] = false := rfl
@[simp] theorem litBody_minus (r : Str) : litBody (0x2d :: r) = r := rfl
@[simp] theorem litNeg_minus (r : Str) : litNeg (0x2d :: r) = true := rfl
theorem litBody_of_ne {c : Byte} (r : Str) (h : c ≠ 0x2d) : litBody (c :: r) = c :: r := by
  simp [litBody, h]
theorem litNeg_of_ne {c : Byte} (r : Str) (h : c ≠ 0x2d) : litNeg (c :: r) = false := by
  simp [litNeg, h]

theorem litMag_plus (r : Str) : litMag (0x2b :: r) = none := by
  simp [litMag, parseDigits, digitVal]

theorem parseUint_litValue (t : Str) (bits n : Nat) (hc : CanonicalLit t)
    (h : parseUint t true bits = some n) : litValue t = some (n : Int) ∧ n < 2 ^ bits := by
  rcases t with _ | ⟨c, r⟩
  · simp [parseUint, parseMagnitude] at h
  · by_cases h1 : c = 0x2b
    · subst h1; simp [parseUint] at h
    · by_cases h2 : c = 0x2d
      · subst h2; simp [parseUint] at h
      · unfold CanonicalLit at hc
        rw [litBody_of_ne r h2] at hc
        unfold parseUint at h
        split at h
        · rename_i hh; injection hh with hh; exact absurd hh h1
        · rename_i hh; injection hh with hh; exact absurd hh h2
        · split at h
          · rename_i m hm
            split at h
            · rename_i hlt
              injection h with h; subst h
              have := parseMagnitude_litMag _ hc _ hm
              refine ⟨?_, hlt⟩
              rw [litValue_eq, litBody_of_ne r h2, litNeg_of_ne r h2, this]; rfl
            · exact absurd h (by simp)
          · exact absurd h (by simp)

theorem parseInt_minus (r : Str) (bits : Nat) :
    parseInt (0x2d :: r) true bits =
      (parseMagnitude r true).bind (fun n => if n ≤ 2 ^ (bits - 1) then some (-(n : Int)) else none) := by
  simp only [parseInt]
  cases parseMagnitude r true <;> rfl

theorem parseInt_of_ne {c : Byte} (r : Str) (bits : Nat) (h1 : c ≠ 0x2b) (h2 : c ≠ 0x2d) :
    parseInt (c :: r) true bits =
      (parseMagnitude (c :: r) true).bind (fun n => if n < 2 ^ (bits - 1) then some (n : Int) else none) := by
  simp only [parseInt, h1, h2, reduceCtorEq, List.cons.injEq, false_and, imp_false, not_false_eq_true, implies_true]
  cases parseMagnitude (c :: r) true <;> rfl

theorem parseUint_of_ne {c : Byte} (r : Str) (bits : Nat) (h1 : c ≠ 0x2b) (h2 : c ≠ 0x2d) :
    parseUint (c :: r) true bits =
      (parseMagnitude (c :: r) true).bind (fun n => if n < 2 ^ bits then some n else none) := by
  simp only [parseUint, h1, h2, List.cons.injEq, false_and, imp_false, not_false_eq_true, implies_true]
  cases parseMagnitude (c :: r) true <;> rfl

theorem parseInt_litValue (t : Str) (bits : Nat) (v : Int) (hc : CanonicalLit t) (hp : NoPlus t)
    (h : parseInt t true bits = some v) :
    litValue t = some v ∧ -((2 ^ (bits - 1) : Nat) : Int) ≤ v ∧ v < ((2 ^ (bits - 1) : Nat) : Int) := by
  rcases t with _ | ⟨c, r⟩
  · simp [parseInt, parseMagnitude] at h
  · by_cases h1 : c = 0x2b
    · subst h1; exact absurd rfl (hp r)
    · by_cases h2 : c = 0x2d
      · subst h2
        unfold CanonicalLit at hc
        rw [litBody_minus] at hc
        rw [parseInt_minus] at h
        cases hm : parseMagnitude r true with
        | none => simp [hm] at h
        | some n =>
          simp only [hm, Option.bind_some] at h
          split at h
          · rename_i hle
            injection h with h; subst h
            have := parseMagnitude_litMag _ hc _ hm
            refine ⟨?_, ?_, ?_⟩
            · rw [litValue_eq, litBody_minus, litNeg_minus, this]; rfl
            · omega
            · have : 0 < 2 ^ (bits - 1) := Nat.two_pow_pos _
              omega
          · exact absurd h (by simp)
      · unfold CanonicalLit at hc
        rw [litBody_of_ne r h2] at hc
        rw [parseInt_of_ne r bits h1 h2] at h
        cases hm : parseMagnitude (c :: r) true with
        | none => simp [hm] at h
        | some n =>
          simp only [hm, Option.bind_some] at h
          split at h
          · rename_i hlt
            injection h with h; subst h
            have := parseMagnitude_litMag _ hc _ hm
            refine ⟨?_, ?_, ?_⟩
            · rw [litValue_eq, litBody_of_ne r h2, litNeg_of_ne r h2, this]; rfl
            · omega
            · omega
          · exact absurd h (by simp)

/-- A literal the Spec gives a value is canonical: `litValue` itself rejects `010`, `0b1`, `0o7`. -/
theorem litValue_canonical (t : Str) (v : Int) (h : litValue t = some v) : CanonicalLit t := by
  intro x rest hb
  rw [litValue_eq, hb] at h
  simp only [litMag] at h
  by_cases hx : (x == 0x78 || x == 0x58) = true
  · simpa using hx
  · simp [hx] at h

/-! ### ranges -/

theorem inRange_unsigned (bits : Nat) (v : Int) :
    inRange bits true v = true ↔ 0 ≤ v ∧ v < ((2 ^ bits : Nat) : Int) := by
  simp only [inRange, ↓reduceIte, Bool.and_eq_true, decide_eq_true_eq]

theorem inRange_signed (bits : Nat) (v : Int) :
    inRange bits false v = true ↔ -((2 ^ (bits - 1) : Nat) : Int) ≤ v ∧ v < ((2 ^ (bits - 1) : Nat) : Int) := by
  simp only [inRange, Bool.false_eq_true, ↓reduceIte, Bool.and_eq_true, decide_eq_true_eq]

/-- Converse for unsigned base types: a Spec literal that fits is accepted by ParseUint with its value.
    Needs: at least one digit, and no '-' (Go's ParseUint rejects `-0`, which the Spec reads as 0). -/
theorem litValue_parseUint (t : Str) (bits : Nat) (v : Int) (hc : CanonicalLit t)
    (hd : HasDigits (litBody t)) (hn : litNeg t = false) (h : litValue t = some v)
    (hr : inRange bits true v = true) : parseUint t true bits = some v.toNat := by
  rw [inRange_unsigned] at hr
  rcases t with _ | ⟨c, r⟩
  · exact absurd rfl hd.1
  · by_cases h2 : c = 0x2d
    · subst h2; simp at hn
    · by_cases h1 : c = 0x2b
      · subst h1
        rw [litValue_eq, litBody_of_ne r h2, litMag_plus] at h
        simp at h
      · unfold CanonicalLit at hc
        rw [litBody_of_ne r h2] at hc hd
        rw [litValue_eq, litBody_of_ne r h2, litNeg_of_ne r h2] at h
        rw [parseUint_of_ne r bits h1 h2, parseMagnitude_eq_litMag _ hc hd]
        cases hm : litMag (c :: r) with
        | none => simp [hm] at h
        | some n =>
          simp only [hm, Option.map_some, Bool.false_eq_true, ↓reduceIte, Option.some.injEq] at h
          subst h
          have : n < 2 ^ bits := by omega
          simp [this]

/-- Converse for signed base types. -/
theorem litValue_parseInt (t : Str) (bits : Nat) (v : Int) (hc : CanonicalLit t)
    (hd : HasDigits (litBody t)) (h : litValue t = some v)
    (hr : inRange bits false v = true) : parseInt t true bits = some v := by
  rw [inRange_signed] at hr
  rcases t with _ | ⟨c, r⟩
  · exact absurd rfl hd.1
  · by_cases h2 : c = 0x2d
    · subst h2
      unfold CanonicalLit at hc
      rw [litBody_minus] at hc hd
      rw [litValue_eq, litBody_minus, litNeg_minus] at h
      rw [parseInt_minus, parseMagnitude_eq_litMag _ hc hd]
      cases hm : litMag r with
      | none => simp [hm] at h
      | some n =>
        simp only [hm, Option.map_some, ↓reduceIte, Option.some.injEq] at h
        subst h
        have : n ≤ 2 ^ (bits - 1) := by omega
        simp [this]
    · by_cases h1 : c = 0x2b
      · subst h1
        rw [litValue_eq, litBody_of_ne r h2, litMag_plus] at h
        simp at h
      · unfold CanonicalLit at hc
        rw [litBody_of_ne r h2] at hc hd
        rw [litValue_eq, litBody_of_ne r h2, litNeg_of_ne r h2] at h
        rw [parseInt_of_ne r bits h1 h2, parseMagnitude_eq_litMag _ hc hd]
        cases hm : litMag (c :: r) with
        | none => simp [hm] at h
        | some n =>
          simp only [hm, Option.map_some, Bool.false_eq_true, ↓reduceIte, Option.some.injEq] at h
          subst h
          have : n < 2 ^ (bits - 1) := by omega
          simp [this]

theorem two_pow_pred (bits : Nat) (hb : 0 < bits) : 2 ^ bits = 2 * 2 ^ (bits - 1) := by
  cases bits with
  | zero => omega
  | succ k => simp only [Nat.add_sub_cancel, Nat.pow_succ]; omega

/-- Go's conversion T(x) is the identity on values of T. -/
theorem wrapTo_of_inRange (bits : Nat) (unsigned : Bool) (v : Int) (hb : 0 < bits)
    (h : inRange bits unsigned v = true) : wrapTo bits unsigned v = v := by
  have hm := two_pow_pred bits hb
  have hp : 0 < 2 ^ (bits - 1) := Nat.two_pow_pos _
  cases unsigned with
  | true =>
    rw [inRange_unsigned] at h
    simp only [wrapTo, ↓reduceIte]
    exact Int.emod_eq_of_lt h.1 h.2
  | false =>
    rw [inRange_signed] at h
    simp only [wrapTo, Bool.false_eq_true, ↓reduceIte]
    by_cases h0 : 0 ≤ v
    · have : v % ((2 ^ bits : Nat) : Int) = v := Int.emod_eq_of_lt h0 (by omega)
      rw [this, if_pos h.2]
    · have h1 : (v + ((2 ^ bits : Nat) : Int)) % ((2 ^ bits : Nat) : Int) = v + ((2 ^ bits : Nat) : Int) :=
        Int.emod_eq_of_lt (by omega) (by omega)
      rw [Int.add_emod_right] at h1
      rw [h1, if_neg (by omega)]
      omega

theorem emod_of_inRange_nonneg (bits : Nat) (unsigned : Bool) (a : Int) (hb : 0 < bits) (h0 : 0 ≤ a)
    (h : inRange bits unsigned a = true) : a % ((2 ^ bits : Nat) : Int) = a := by
  have hm := two_pow_pred bits hb
  cases unsigned with
  | true => rw [inRange_unsigned] at h; exact Int.emod_eq_of_lt h0 h.2
  | false => rw [inRange_signed] at h; exact Int.emod_eq_of_lt h0 (by omega)

/-! ### translation, guards -/

def opCode : TK → Nat
  | .vbar => 0
  | .amp => 1
  | .dblLeft => 2
  | .dblRight => 3
  | _ => 0

/-- The Spec expression a parsed expression stands for. -/
def toSpec : Expr → SrcExpr
  | .ident n => .ref n
  | .num t => .lit t
  | .paren e => .paren (toSpec e)
  | .bin op l r => .bin (opCode op) (toSpec l) (toSpec r)

/-- Every binary node carries one of the four operators (`parseExpr` produces nothing else). -/
def OpsOk : Expr → Prop
  | .ident _ => True
  | .num _ => True
  | .paren e => OpsOk e
  | .bin op l r => (op = .vbar ∨ op = .amp ∨ op = .dblLeft ∨ op = .dblRight) ∧ OpsOk l ∧ OpsOk r

/-- The Spec value is defined and fits the base type. -/
def ValOk (bits : Nat) (unsigned : Bool) (env : List (Str × Int)) (e : SrcExpr) : Prop :=
  ∃ v, specEval env e = some v ∧ inRange bits unsigned v = true

/-- Guards on a literal's text under which Go's strconv (base 0) accepts what the Spec's `litValue` gives a
    value: at least one digit (also after `0x`), and for an unsigned base type no '-' (ParseUint rejects
    `-0`).  That the text is canonical (no leading zero before more digits, so no octal / `0b` / `0o`) and
    does not start with '+' follows from `litValue t` being defined (`litValue_canonical`,
    `litValue_noPlus`). -/
def LitOk (unsigned : Bool) (t : Str) : Prop :=
  HasDigits (litBody t) ∧ (unsigned = true → litNeg t = false)

/-- No overflow anywhere: the Spec value of the expression and of every sub-expression is defined and in
    the base type's range; literals satisfy `LitOk`; the count of every shift is below the width (Go's
    shift by ≥ width gives 0 / the sign, the unbounded value is in general different). The Spec treats
    every operator code ≥ 2 other than 2 as `>>`, hence `2 ≤ op`. -/
def AllInRange (bits : Nat) (unsigned : Bool) (env : List (Str × Int)) : SrcExpr → Prop
  | .lit t => LitOk unsigned t ∧ ValOk bits unsigned env (.lit t)
  | .ref n => ValOk bits unsigned env (.ref n)
  | .paren e => AllInRange bits unsigned env e
  | .bin op l r =>
    AllInRange bits unsigned env l ∧ AllInRange bits unsigned env r ∧
    ValOk bits unsigned env (.bin op l r) ∧
    (2 ≤ op → ∀ c, specEval env r = some c → c < (bits : Int))

/-- The stored value of an earlier member, as `evalExpr` reads it. -/
def optValue (unsigned : Bool) (o : EnumOption) : Int := if unsigned then (o.uvalue : Int) else o.value

/-- The parser's list of earlier members and the Spec's environment give every name the same value
    (both sides look up the first match). -/
def EnvAgrees (unsigned : Bool) (opts : List EnumOption) (env : List (Str × Int)) : Prop :=
  ∀ n, (opts.find? (fun o => o.name == n)).map (optValue unsigned) = (env.find? (·.1 == n)).map (·.2)

/-- Position-wise agreement (what the enum reader maintains). -/
def EnvMatches (unsigned : Bool) : List EnumOption → List (Str × Int) → Prop
  | [], [] => True
  | o :: os, p :: ps => o.name = p.1 ∧ optValue unsigned o = p.2 ∧ EnvMatches unsigned os ps
  | _, _ => False

theorem envAgrees_of_matches (unsigned : Bool) :
    ∀ (opts : List EnumOption) (env : List (Str × Int)), EnvMatches unsigned opts env →
      EnvAgrees unsigned opts env
  | [], [], _ => fun _ => rfl
  | [], _ :: _, h => absurd h (by simp [EnvMatches])
  | _ :: _, [], h => absurd h (by simp [EnvMatches])
  | o :: os, p :: ps, h => by
    obtain ⟨h1, h2, h3⟩ := h
    have ih := envAgrees_of_matches unsigned os ps h3
    intro n
    simp only [List.find?_cons, h1]
    cases (p.1 == n) with
    | true => simp [h2]
    | false => simpa using ih n

theorem allInRange_valOk (bits : Nat) (unsigned : Bool) (env : List (Str × Int)) :
    ∀ e, AllInRange bits unsigned env e → ValOk bits unsigned env e
  | .lit _, h => h.2
  | .ref _, h => h
  | .paren e, h => by
    have := allInRange_valOk bits unsigned env e h
    simpa only [ValOk, specEval] using this
  | .bin _ _ _, h => h.2.2.1

/-! ### the evaluator computes the Spec value -/

theorem bits_pos {bits : Nat} (hb : bits ∈ [8, 16, 32, 64]) : 0 < bits := by
  simp only [List.mem_cons, List.mem_nil_iff, or_false] at hb
  omega

theorem evalExpr_eq_specEval (bits : Nat) (unsigned : Bool) (hb : bits ∈ [8, 16, 32, 64])
    (opts : List EnumOption) (env : List (Str × Int)) (ha : EnvAgrees unsigned opts env) :
    ∀ e, OpsOk e → AllInRange bits unsigned env (toSpec e) →
      ∀ v, specEval env (toSpec e) = some v → evalExpr bits unsigned opts e = some v := by
  have hpos := bits_pos hb
  intro e
  induction e with
  | ident n =>
    intro _ hr v hv
    obtain ⟨v', hv', hin⟩ := hr
    simp only [toSpec] at hv hv'
    rw [hv] at hv'; injection hv' with hv'; subst hv'
    simp only [specEval] at hv
    have := ha n
    rw [hv] at this
    cases ho : opts.find? (fun o => o.name == n) with
    | none => simp [ho] at this
    | some o =>
      simp only [ho, Option.map_some, Option.some.injEq] at this
      simp only [evalExpr, ho]
      simp only [optValue] at this
      rw [this, wrapTo_of_inRange bits unsigned _ hpos hin]
  | num t =>
    intro _ hr v hv
    obtain ⟨⟨hd, hn⟩, v', hv', hin⟩ := hr
    simp only [toSpec] at hv hv'
    rw [hv] at hv'; injection hv' with hv'; subst hv'
    simp only [specEval] at hv
    have hc := litValue_canonical t _ hv
    cases unsigned with
    | true =>
      have hp := litValue_parseUint t bits _ hc hd (hn rfl) hv hin
      have h0 : 0 ≤ v := ((inRange_unsigned bits _).1 hin).1
      simp only [evalExpr, ↓reduceIte, hp]
      simp [Int.toNat_of_nonneg h0, wrapTo_of_inRange bits true _ hpos hin]
    | false =>
      have hp := litValue_parseInt t bits _ hc hd hv hin
      simp only [evalExpr, Bool.false_eq_true, ↓reduceIte, hp, Option.map_some]
      rw [wrapTo_of_inRange bits false _ hpos hin]
  | paren e ih =>
    intro ho hr v hv
    simp only [toSpec, specEval] at hv
    simp only [evalExpr]
    exact ih ho hr v hv
  | bin op l r ihl ihr =>
    intro ho hr v hv
    obtain ⟨hop, hol, hor⟩ := ho
    obtain ⟨hrl, hrr, ⟨v', hv', hin⟩, hsh⟩ := hr
    simp only [toSpec] at hv hv'
    rw [hv] at hv'; injection hv' with hv'; subst hv'
    obtain ⟨a, hsa, hina⟩ := allInRange_valOk _ _ _ _ hrl
    obtain ⟨c, hsc, hinc⟩ := allInRange_valOk _ _ _ _ hrr
    have hea := ihl hol hrl a hsa
    have hec := ihr hor hrr c hsc
    simp only [specEval, hsa, hsc] at hv
    rcases hop with rfl | rfl | rfl | rfl
    · -- |
      simp only [opCode, beq_self_eq_true, ↓reduceIte] at hv
      split at hv
      · exact absurd hv (by simp)
      · rename_i hneg
        simp only [Bool.or_eq_true, decide_eq_true_eq, not_or, Int.not_lt] at hneg
        injection hv with hv
        simp only [evalExpr, hea, hec, bitOr]
        rw [emod_of_inRange_nonneg bits unsigned a hpos hneg.1 hina,
          emod_of_inRange_nonneg bits unsigned c hpos hneg.2 hinc, hv,
          wrapTo_of_inRange bits unsigned _ hpos hin]
    · -- &
      simp only [opCode, Nat.reduceBEq, Bool.false_eq_true, beq_self_eq_true, ↓reduceIte] at hv
      split at hv
      · exact absurd hv (by simp)
      · rename_i hneg
        simp only [Bool.or_eq_true, decide_eq_true_eq, not_or, Int.not_lt] at hneg
        injection hv with hv
        simp only [evalExpr, hea, hec, bitAnd]
        rw [emod_of_inRange_nonneg bits unsigned a hpos hneg.1 hina,
          emod_of_inRange_nonneg bits unsigned c hpos hneg.2 hinc, hv,
          wrapTo_of_inRange bits unsigned _ hpos hin]
    · -- <<
      have hlt := hsh (by simp [opCode]) c hsc
      simp only [opCode, Nat.reduceBEq, Bool.false_eq_true, beq_self_eq_true, ↓reduceIte] at hv
      split at hv
      · exact absurd hv (by simp)
      · rename_i hneg
        injection hv with hv
        have h1 : ¬ (c.toNat ≥ bits) := by omega
        have hp : (0 : Int) < 2 ^ c.toNat := Int.pow_pos (by decide)
        simp only [evalExpr, hea, hec, hneg, h1, ↓reduceIte]
        subst hv
        rw [wrapTo_of_inRange bits unsigned _ hpos hin]
        simp only [Int.natCast_pow, Int.cast_ofNat_Int]
        have hback : a * (2 : Int) ^ c.toNat / (2 : Int) ^ c.toNat = a :=
          Int.mul_ediv_cancel a (Int.ne_of_gt hp)
        have hsign : (a * (2 : Int) ^ c.toNat < 0 ↔ a < 0) := by
          constructor
          · intro h
            apply Classical.byContradiction
            intro ha
            have := Int.mul_nonneg (Int.not_lt.mp ha) (Int.le_of_lt hp)
            omega
          · intro ha
            exact Int.mul_neg_of_neg_of_pos ha hp
        simp [hback, hsign]
    · -- >>
      have hlt := hsh (by simp [opCode]) c hsc
      simp only [opCode, Nat.reduceBEq, Bool.false_eq_true, ↓reduceIte] at hv
      split at hv
      · exact absurd hv (by simp)
      · rename_i hneg
        injection hv with hv
        have h1 : ¬ (c.toNat ≥ bits) := by omega
        simp only [evalExpr, hea, hec, hneg, h1, ↓reduceIte, hv]

/-- A literal the Spec gives a value never starts with '+'. -/
theorem litValue_noPlus (t : Str) (v : Int) (h : litValue t = some v) : NoPlus t := by
  intro r ht
  subst ht
  rw [litValue_eq, litBody_of_ne r (by decide), litMag_plus] at h
  simp at h

/-! ### the guards matter -/

/-- Shift count ≥ width: the evaluator rejects (it wrapped to 0 before the repair), the unbounded value is 2^40. -/
theorem shift_guard_needed :
    evalExpr 32 true [] (.bin .dblLeft (.num (strOf "1")) (.num (strOf "40"))) = none ∧
    specEval [] (toSpec (.bin .dblLeft (.num (strOf "1")) (.num (strOf "40")))) = some (2 ^ 40) := by
  decide

/-- A sub-expression out of range although the whole is in range: uint8 `(255 << 4) >> 4` is rejected
    (it evaluated to 15 before the repair). -/
theorem inner_range_needed :
    evalExpr 8 true [] (.bin .dblRight (.paren (.bin .dblLeft (.num (strOf "255")) (.num (strOf "4")))) (.num (strOf "4"))) = none ∧
    specEval [] (toSpec (.bin .dblRight (.paren (.bin .dblLeft (.num (strOf "255")) (.num (strOf "4")))) (.num (strOf "4")))) = some 255 := by
  decide

/-- Leading zero: Go reads octal, the Spec gives no value (so `parseUint_litValue` needs `CanonicalLit`;
    the main theorem does not, see `litValue_canonical`). -/
theorem canonical_guard_needed :
    evalExpr 32 true [] (.num (strOf "010")) = some 8 ∧ specEval [] (toSpec (.num (strOf "010"))) = none := by
  decide

/-- `0x` without digits: Go rejects, `litValue` reads 0. -/
theorem digits_guard_needed :
    evalExpr 32 true [] (.num (strOf "0x")) = none ∧ specEval [] (toSpec (.num (strOf "0x"))) = some 0 := by
  decide

/-- `-0` in an unsigned enum: ParseUint rejects, `litValue` reads 0. -/
theorem minus_guard_needed :
    evalExpr 32 true [] (.num (strOf "-0")) = none ∧ specEval [] (toSpec (.num (strOf "-0"))) = some 0 := by
  decide

/-- `parseExpr` only builds the four operators. -/
theorem parseExpr_opsOk : ∀ (f : Nat) (toks : List Token) (e : Expr), parseExpr f toks = some e → OpsOk e := by
  intro f
  induction f with
  | zero => intro toks e h; simp [parseExpr] at h
  | succ f ih =>
    intro toks e h
    unfold parseExpr at h
    split at h
    · exact absurd h (by simp)
    · rename_i t0 rest
      simp only at h
      split at h
      · exact absurd h (by simp)
      · rename_i lhs i0 hl
        have hlhs : OpsOk lhs := by
          split at hl
          · injection hl with hl; injection hl with hl _; subst hl; trivial
          · injection hl with hl; injection hl with hl _; subst hl; trivial
          · split at hl
            · rename_i inner hi
              injection hl with hl; injection hl with hl _; subst hl
              exact ih _ inner hi
            · exact absurd hl (by simp)
          · exact absurd hl (by simp)
        split at h
        · injection h with h; subst h; exact hlhs
        · split at h
          · injection h with h; subst h; exact hlhs
          · rename_i op _
            split at h
            · rename_i hop
              split at h
              · rename_i rhs hr
                injection h with h; subst h
                refine ⟨?_, hlhs, ih _ _ hr⟩
                simp only [Bool.or_eq_true, beq_iff_eq] at hop
                rcases hop with ((h | h) | h) | h <;> simp [h]
              · exact absurd h (by simp)
            · exact absurd h (by simp)

end Bebop.Text
