// Command cli is the correspondence engine for property C19: the bebopc-go and bebopfmt binaries, built
// from /repo's current sources, are run over valid / unparsable / validation-failing inputs and under
// faults (missing input, target in a missing directory, target that is a directory, a failing write(2) on
// the target injected with strace, a file-size limit that kills the process), and the target file's
// contents and the exit status are compared with the Lean model of the tools' file-system traces.
package main

import (
	"bytes"
	"encoding/hex"
	"encoding/json"
	"flag"
	"fmt"
	"os"
	"os/exec"
	"path/filepath"
	"sort"
	"strings"
	"time"
	"verif/harness/internal/corners"

	"github.com/200sc/bebop"
	"verif/harness/internal/filedump"
	"verif/harness/internal/proc"
)

type failure struct {
	Property string `json:"property"`
	Kind     string `json:"kind"`
	Class    string `json:"class"`
	Tool     string `json:"tool"`
	Scenario string `json:"scenario"`
	Input    string `json:"input"`
	Op       string `json:"op"`
	Expected string `json:"expected"`
	Observed string `json:"observed"`
	Model    string `json:"model"`
	Note     string `json:"note"`
}

type stat struct {
	Evaluations        int            `json:"evaluations"`
	DistinctNontrivial int            `json:"distinct_nontrivial"`
	Rule               string         `json:"rule"`
	Samples            []string       `json:"samples"`
	Distribution       map[string]int `json:"distribution"`
	FailuresTotal      int            `json:"failures_total"`
}

var (
	st       = stat{Distribution: map[string]int{}}
	st16     = stat{Distribution: map[string]int{}} // C16 through bebopfmt: what a successful -w run leaves on disk denotes the same schema
	fails    = []failure{}
	distinct = map[string]struct{}{}
)

func fail(kind, class, tool, scen, input, op, exp, obs, mdl, note string) {
	st.FailuresTotal++
	if len(input) > 400 {
		input = input[:400]
	}
	if len(fails) < 200 {
		fails = append(fails, failure{"C19", kind, class, tool, scen, input, op, exp, obs, mdl, note})
	}
	if strings.Contains(class, "fmt-meaning") {
		// the formatter changed what a schema means, seen through the tool: C16's business as well
		st16.FailuresTotal++
		if len(fails) < 260 {
			fails = append(fails, failure{"C16", kind, class, tool, scen, input, op, exp, obs, mdl, note})
		}
	}
}

// multiFmt: one bebopfmt run over several files (as arguments, and as a directory). Every file must afterwards hold
// exactly what formatting it alone gives, and denote the schema it denoted before.
func multiFmt(texts []string) {
	for _, asDir := range []bool{false, true} {
		counter++
		dir := filepath.Join(root, fmt.Sprintf("m%d", counter))
		sub := filepath.Join(dir, "schemas")
		os.MkdirAll(sub, 0o755)
		var paths []string
		for i, t := range texts {
			p := filepath.Join(sub, fmt.Sprintf("f%d.bop", i))
			os.WriteFile(p, []byte(t), 0o644)
			paths = append(paths, p)
		}
		args := append([]string{"-w"}, paths...)
		scen := fmt.Sprintf("bebopfmt -w <%d files>", len(texts))
		if asDir {
			args = []string{"-w", sub}
			scen = fmt.Sprintf("bebopfmt -w <directory of %d files>", len(texts))
		}
		r := run(dir, nil, tools["bebopfmt"], args...)
		st.Evaluations++
		st.Distribution["bebopfmt/multi"]++
		distinct["multi/"+scen+strings.Join(texts, "|")] = struct{}{}
		if r.exit != 0 || r.timeout {
			fail("oracle", "multi", "bebopfmt", scen, strings.Join(texts, "\n----\n"), "exit status", "0", fmt.Sprintf("exit %d: %s", r.exit, abbreviate(r.stdout)), "", "formatting several valid files failed")
			os.RemoveAll(dir)
			continue
		}
		for i, t := range texts {
			st16.Evaluations++
			want, kind := reference("bebopfmt", []byte(t))
			after, _ := read(paths[i])
			before, _, errBefore := parseBytes([]byte(t))
			got, _, errAfter := parseFile(paths[i])
			switch {
			case errBefore != nil || kind != "ok":
			case errAfter != nil:
				fail("oracle", "multi,fmt-meaning", "bebopfmt", scen, t, fmt.Sprintf("ReadFile(file %d of %d after the run)", i+1, len(texts)), "parses", errAfter.Error()+" | "+abbreviate(after), "", "bebopfmt -w succeeded but a file no longer parses")
			case got != before:
				fail("oracle", "multi,fmt-meaning", "bebopfmt", scen, t, fmt.Sprintf("ReadFile(file %d of %d after the run)", i+1, len(texts)), abbreviate(before), abbreviate(got), "", "bebopfmt -w succeeded but a file now denotes a different schema")
			case after != string(want):
				fail("oracle", "multi", "bebopfmt", scen, t, fmt.Sprintf("file %d of %d after the run", i+1, len(texts)), abbreviate(string(want)), abbreviate(after), "", "a file formatted together with others differs from the file formatted alone")
			}
		}
		os.RemoveAll(dir)
	}
}

type input struct {
	name string // valid | unparsable | validation
	text string
}

var inputs = []input{
	{"valid", "// doc\nstruct A {\n\tint32 x;\n\tstring s;\n}\nmessage M {\n\t1 -> A a;\n\t2 -> int64[] xs;\n}\nenum E {\n\tOne = 1;\n\tTwo = 2;\n}\nunion U {\n\t1 -> struct B {\n\t\tbool b;\n\t}\n}\nconst int32 c = 5;\n"},
	{"unparsable", "struct A {\n\tint32 x\n}\n"},
	{"unparsable-late", "struct A {\n\tint32 x;\n}\n/* never closed\nstruct B {}\n"},
	{"validation", "struct A {\n\tint32 x;\n}\nstruct A {\n\tint64 y;\n}\n"},
	{"validation-undefined", "struct A {\n\tNope x;\n}\n"},
}

const previous = "// previous contents of the target: must survive any failed run\npackage old\n"

type result struct {
	exit    int
	killed  bool
	stdout  string
	timeout bool
}

func run(dir string, wrapper []string, bin string, args ...string) result {
	argv := append(append([]string{}, wrapper...), append([]string{bin}, args...)...)
	cmd := exec.Command(argv[0], argv[1:]...)
	cmd.Dir = dir
	var out bytes.Buffer
	cmd.Stdout = &out
	cmd.Stderr = &out
	done := make(chan error, 1)
	if err := cmd.Start(); err != nil {
		return result{exit: -1, stdout: err.Error()}
	}
	go func() { done <- cmd.Wait() }()
	select {
	case err := <-done:
		r := result{stdout: out.String()}
		if ee, ok := err.(*exec.ExitError); ok {
			r.exit = ee.ExitCode()
			if r.exit == -1 {
				r.killed = true
			}
		} else if err != nil {
			r.exit = -1
		}
		return r
	case <-time.After(60 * time.Second):
		_ = cmd.Process.Kill()
		return result{exit: -1, timeout: true, stdout: out.String()}
	}
}

func read(p string) (string, bool) {
	b, err := os.ReadFile(p)
	return string(b), err == nil
}

type scenario struct {
	tool  string // bebopc-go | bebopfmt
	in    input
	kind  string // ok | unparsable | validation
	fault string
	had   bool
	class string // extra class tag for known formatter findings
}

var (
	tools      = map[string]string{}
	root       string
	counter    int
	haveStrace bool
	ask        func(string) string
)

// reference output of the work the tool does in memory, computed in-process with the same library
func reference(tool string, text []byte) (ref []byte, kind string) {
	defer func() {
		if p := recover(); p != nil {
			ref, kind = nil, "panic"
		}
	}()
	f, _, err := bebop.ReadFile(bytes.NewReader(text))
	if err != nil {
		return nil, "unparsable"
	}
	var out bytes.Buffer
	if tool == "bebopc-go" {
		if err := f.Generate(&out, bebop.GenerateSettings{PackageName: "p"}); err != nil {
			return nil, "validation"
		}
		return out.Bytes(), "ok"
	}
	if err := bebop.Format(bytes.NewReader(text), &out); err != nil {
		return nil, "format-error"
	}
	return out.Bytes(), "ok"
}

func runScenario(sc scenario) {
	counter++
	dir := filepath.Join(root, fmt.Sprintf("c%d", counter))
	os.MkdirAll(dir, 0o755)
	defer os.RemoveAll(dir)
	text := []byte(sc.in.text)
	ref, kind := reference(sc.tool, text)
	if kind == "panic" || kind == "format-error" {
		st.Distribution[sc.tool+"/skipped-"+kind]++
		return
	}
	var target, initial string
	var args []string
	had := sc.had
	fault := sc.fault
	if sc.tool == "bebopc-go" {
		inPath := filepath.Join(dir, "in.bop")
		os.WriteFile(inPath, text, 0o644)
		target = filepath.Join(dir, "out.go")
		switch fault {
		case "missing-input":
			inPath = filepath.Join(dir, "absent.bop")
		case "target-dir-missing":
			target = filepath.Join(dir, "nodir", "out.go")
			had = false
		case "target-is-dir":
			os.MkdirAll(target, 0o755)
			had = false
		}
		if had {
			initial = previous
			if fault == "target-symlink" {
				// -o names a symbolic link to the previously generated file
				realFile := filepath.Join(dir, "generated_real.go")
				os.WriteFile(realFile, []byte(previous), 0o644)
				os.Symlink(realFile, target)
			} else {
				os.WriteFile(target, []byte(previous), 0o644)
			}
		}
		if fault == "target-symlink" {
			fault = "none" // no fault of the environment: the model sees an ordinary run
		}
		args = []string{"-i", inPath, "-o", target, "-package", "p"}
	} else {
		target = filepath.Join(dir, "schema.bop")
		os.WriteFile(target, text, 0o644)
		initial, had = string(text), true
		arg := target
		if fault == "missing-input" {
			arg = filepath.Join(dir, "absent.bop")
		}
		args = []string{"-w", arg}
	}
	var wrapper []string
	switch fault {
	case "write-enospc":
		wrapper = straceWrapper(dir, "ENOSPC")
	case "write-eio":
		wrapper = straceWrapper(dir, "EIO")
	case "write-kill":
		wrapper = straceKill(dir, 1)
	case "fsize-limit", "fsize-kill":
		wrapper = []string{"sh", "-c", `ulimit -f 1; exec "$0" "$@"`}
		if fault == "fsize-kill" {
			// the first write stops at the 512-byte limit, the process is killed on entry to the second
			wrapper = append(wrapper, straceKill(dir, 2)...)
		}
		if len(ref) <= 512 {
			fault = "none" // the limit is never reached
			wrapper = nil
		}
	}
	scen := fmt.Sprintf("%s/%s/target-existed=%v", sc.in.name, sc.fault, had)
	r := run(dir, wrapper, tools[sc.tool], args...)
	st.Evaluations++
	st.Distribution[sc.tool+"/"+kind+"/"+sc.fault]++
	distinct[sc.tool+"/"+scen+"/"+sc.in.text] = struct{}{}
	class := sc.fault
	if sc.class != "" {
		class += "," + sc.class
	}
	if r.timeout {
		fail("timeout", class, sc.tool, scen, sc.in.text, "run", "terminates", "no exit after 60s", "", "")
		return
	}
	hit := injectedOn(dir)
	reportLost := hit != "" && !strings.HasPrefix(hit, dir)
	if hit == "" && r.killed && strings.HasSuffix(sc.fault, "-kill") {
		// strace dies with the tracee and may not have flushed its log: a run that cannot reach the file write
		// (defective input) was killed in its report
		reportLost = kind != "ok"
		hit = "(log not flushed)"
	}
	if strings.HasPrefix(sc.fault, "write-") || sc.fault == "fsize-kill" {
		switch {
		case hit == "":
			st.Distribution[sc.tool+"/"+sc.fault+"/no-write-reached"]++
		case reportLost:
			st.Distribution[sc.tool+"/"+sc.fault+"/hit-report"]++
		default:
			st.Distribution[sc.tool+"/"+sc.fault+"/hit-file"]++
		}
	}
	// observed exit class and target state
	exitClass := "reported"
	switch {
	case r.killed || strings.Contains(r.stdout, "SIGXFSZ") || strings.Contains(r.stdout, "fatal error"):
		exitClass = "crashed"
	case r.exit == 0:
		exitClass = "zero"
	}
	after, exists := read(target)
	if sc.fault == "target-is-dir" {
		exists = false
	}
	state := "partial"
	switch {
	case exists == had && (!exists || after == initial):
		state = "same"
	case !exists:
		state = "absent"
	case ref != nil && after == string(ref):
		state = "new"
	case after == "":
		state = "empty"
	}
	observed := exitClass + " " + state
	// 1. the property itself
	reported := strings.Contains(r.stdout, "failed") || strings.Contains(r.stdout, "Failed") || strings.Contains(r.stdout, "please provide") || strings.Contains(r.stdout, "bobfmt")
	if exitClass != "crashed" && !reportLost && (r.exit != 0) != reported {
		fail("oracle", class, sc.tool, scen, sc.in.text, "exit status", fmt.Sprintf("non-zero iff an error is reported (reported=%v)", reported), fmt.Sprintf("exit %d, output %q", r.exit, abbreviate(r.stdout)), "", "exit status and error report disagree")
	}
	if exitClass != "zero" && state != "same" {
		fail("oracle", class, sc.tool, scen, sc.in.text, "target after a failed run", "previous contents ("+fmt.Sprint(len(initial))+" bytes, existed="+fmt.Sprint(had)+")", fmt.Sprintf("%s: exists=%v %q", state, exists, abbreviate(after)), "", "a failed run damaged the file")
	}
	if exitClass == "zero" {
		if kind != "ok" || fault != "none" && hit == "" && !strings.HasPrefix(fault, "write-") && !strings.HasPrefix(fault, "fsize-") {
			fail("oracle", class, sc.tool, scen, sc.in.text, "exit status", "non-zero: the run cannot have succeeded", observed, "", "exit 0 although the input or the environment made the run fail")
		} else if state != "new" && !(state == "same" && string(ref) == initial) {
			fail("oracle", class, sc.tool, scen, sc.in.text, "target after a successful run", "the generated / formatted bytes", fmt.Sprintf("%s %q", state, abbreviate(after)), "", "exit 0 without the expected output")
		}
		if sc.tool == "bebopfmt" && sc.fault != "missing-input" {
			st16.Evaluations++
			before, _, errBefore := parseBytes(text)
			got, _, errAfter := parseFile(target)
			if errBefore == nil {
				if errAfter != nil {
					fail("oracle", class+",fmt-meaning", sc.tool, scen, sc.in.text, "ReadFile(rewritten file)", "parses", errAfter.Error(), "", "bebopfmt -w succeeded but the file no longer parses")
				} else if got != before {
					fail("oracle", class+",fmt-meaning", sc.tool, scen, sc.in.text, "ReadFile(rewritten file)", abbreviate(before), abbreviate(got), "", "bebopfmt -w succeeded but the file now denotes a different schema")
				}
			}
		}
	}
	// 2. the model (regenerated from the tools' sources) on the same scenario
	mk := kind
	if sc.tool == "bebopfmt" && kind == "validation" {
		mk = "ok"
	}
	m := ask(fmt.Sprintf("cli %s %s %s %d", sc.tool, mk, fault, b2i(had)))
	mf := strings.Fields(m)
	if len(mf) >= 2 && mf[0] != "bad-op" {
		want := mf[0] + " " + mf[1]
		if state == "same" && string(ref) == initial && mf[1] == "new" {
			want = mf[0] + " same"
		}
		if reportLost {
			// the injected fault hit the error report, not a file: only the file state is comparable
			want, observed = mf[1], state
		}
		if want != observed {
			fail("mismatch", class, sc.tool, scen, sc.in.text, "exit class and target state", want, observed+" (exit "+fmt.Sprint(r.exit)+")", m, "model and implementation disagree")
		}
		st.Distribution["model/"+mf[len(mf)-1]]++
	} else {
		fail("mismatch", class, sc.tool, scen, sc.in.text, "model", "an answer", m, m, "the model driver rejected the operation")
	}
}

func main() {
	seed := flag.Int64("seed", 1, "")
	tier := flag.String("tier", "quick", "")
	modelPath := flag.String("model", "", "")
	work := flag.String("work", "/verif/.work/cli", "")
	repo := flag.String("repo", "/repo", "")
	out := flag.String("out", "", "")
	replay := flag.String("replay", "", "")
	flag.Parse()
	model := proc.Command([]string{*modelPath}, nil, 60*time.Second)
	defer model.Close()
	ask = func(l string) string {
		r, err := model.Send(l)
		if err != nil {
			fmt.Fprintln(os.Stderr, "cli engine: model:", err)
			os.Exit(2)
		}
		return r
	}
	os.MkdirAll(*work, 0o755)
	var err error
	root, err = os.MkdirTemp(*work, "cli")
	if err != nil {
		fmt.Fprintln(os.Stderr, err)
		os.Exit(2)
	}
	defer os.RemoveAll(root)
	for _, t := range []string{"bebopc-go", "bebopfmt"} {
		bin := filepath.Join(root, t)
		cmd := exec.Command("go", "build", "-o", bin, "./main/"+t)
		cmd.Dir = *repo
		cmd.Env = append(os.Environ(), "GOFLAGS=-mod=mod", "GOPROXY=off", "GOSUMDB=off", "CGO_ENABLED=0")
		if o, err := cmd.CombinedOutput(); err != nil {
			fmt.Fprintf(os.Stderr, "cli engine: cannot build %s: %v\n%s\n", t, err, o)
			os.Exit(2)
		}
		tools[t] = bin
	}
	haveStrace = exec.Command("strace", "-V").Run() == nil

	if *replay != "" {
		b, _ := os.ReadFile(*replay)
		var f failure
		_ = json.Unmarshal(b, &f)
		parts := strings.Split(f.Scenario, "/")
		if len(parts) < 3 {
			fmt.Println("cannot replay: no scenario in", *replay)
			os.Exit(2)
		}
		cl := ""
		if i := strings.Index(f.Class, ","); i >= 0 {
			cl = strings.TrimSuffix(strings.TrimPrefix(f.Class[i+1:], "fmt-meaning"), ",fmt-meaning")
		}
		sc := scenario{tool: f.Tool, in: input{parts[0], f.Input}, fault: parts[1], had: strings.HasSuffix(f.Scenario, "=true"), class: cl}
		fmt.Printf("replaying C19: %s %s\n", f.Tool, f.Scenario)
		runScenario(sc)
		for _, x := range fails {
			fmt.Printf("FAIL %s: %s: expected %s observed %s (%s)\n", x.Kind, x.Op, x.Expected, x.Observed, x.Note)
		}
		if len(fails) > 0 {
			os.Exit(1)
		}
		fmt.Println("no failure on this scenario with the current tree")
		return
	}

	all := append([]input{}, inputs...)
	nGen := 30
	if *tier == "thorough" {
		nGen = 200
	}
	for i := 0; i < nGen; i++ {
		s := *seed*104729 + int64(i)
		r := ask(fmt.Sprintf("gen %d %d 2", s, 2+i%5))
		parts := strings.SplitN(r, " ", 3)
		if len(parts) == 3 && parts[0] == "ok" {
			text, _ := hex.DecodeString(strings.TrimPrefix(parts[1], "-"))
			all = append(all, input{fmt.Sprintf("generated-%d", s), string(text)})
		}
		r = ask(fmt.Sprintf("geninvalid %d %d %d", s, 2+i%5, i%21))
		f := strings.Fields(r)
		if len(f) == 3 && f[0] == "ok" {
			text, _ := hex.DecodeString(strings.TrimPrefix(f[1], "-"))
			all = append(all, input{fmt.Sprintf("generated-invalid-%s-%d", f[2], s), string(text)})
		}
	}
	bcFaults := []string{"none", "missing-input", "target-dir-missing", "target-is-dir", "target-symlink", "fsize-limit"}
	fmFaults := []string{"none", "missing-input", "fsize-limit"}
	if haveStrace {
		bcFaults = append(bcFaults, "write-enospc", "write-eio", "write-kill", "fsize-kill")
		fmFaults = append(fmFaults, "write-enospc", "write-eio", "write-kill", "fsize-kill")
	}
	for _, in := range all {
		for _, fl := range bcFaults {
			for _, had := range []bool{true, false} {
				runScenario(scenario{tool: "bebopc-go", in: in, fault: fl, had: had})
			}
		}
		// make the formatted output exceed the 512-byte file-size limit for the small fixed inputs
		big := in
		if _, k := reference("bebopfmt", []byte(in.text)); k == "ok" && !strings.HasPrefix(in.name, "generated") {
			for n := 0; len(big.text) < 1500; n++ {
				big.text += strings.Replace(in.text, "A", fmt.Sprintf("A%d", n), -1)
			}
		}
		for _, fl := range fmFaults {
			use := in
			if strings.HasPrefix(fl, "fsize-") {
				use = big
			}
			runScenario(scenario{tool: "bebopfmt", in: use, fault: fl, had: true})
		}
	}
	// inputs in the formatter's listed finding classes: the file-preservation half is still checked
	for _, in := range []input{
		{"typed-enum", "enum E : uint8 {\n\tA = 1;\n}\n"},
		{"import", "import \"./x.bop\"\nstruct A {\n\tint32 x;\n}\n"},
	} {
		for _, fl := range fmFaults {
			runScenario(scenario{tool: "bebopfmt", in: in, fault: fl, had: true, class: in.name})
		}
	}
	// the hand-written corner schemas (those the formatter accepts), through bebopfmt -w without a fault
	for _, c := range corners.Texts() {
		if len(c) > 3000 {
			continue
		}
		runScenario(scenario{tool: "bebopfmt", in: input{"corner", c}, fault: "none", had: true, class: "corner"})
	}
	// several files in one bebopfmt run (a large one first, then smaller ones; all valid)
	{
		var valid []string
		for _, in := range all {
			if _, k := reference("bebopfmt", []byte(in.text)); k == "ok" {
				if _, _, err := parseBytes([]byte(in.text)); err == nil {
					valid = append(valid, in.text)
				}
			}
		}
		sort.SliceStable(valid, func(i, j int) bool { return len(valid[i]) > len(valid[j]) })
		for i := 0; i+2 < len(valid) && i < 12; i += 3 {
			multiFmt([]string{valid[i], valid[len(valid)-1-i], valid[i+1]})
		}
		if len(valid) >= 2 {
			multiFmt([]string{valid[0], valid[len(valid)-1]})
		}
	}
	st.Samples = append(st.Samples,
		"bebopc-go -i in.bop (struct A defined twice) -o out.go, out.go holding previous contents: exit 1, out.go unchanged",
		"bebopfmt -w schema.bop with the first write(2) of the process failing with ENOSPC (strace inject): exit 1, schema.bop unchanged")
	st16.DistinctNontrivial = st16.Evaluations
	st16.Rule = "every successful bebopfmt -w run of the cli engine (one file; several files as arguments and as a directory): each file afterwards parses and denotes the schema it denoted before"
	st16.Samples = []string{}
	st.DistinctNontrivial = len(distinct)
	st.Rule = "tools built from the current tree; inputs: 5 fixed (valid, unparsable x2, validation-failing x2) + Lean-generated valid and single-error schemas; bebopc-go faults: none, missing input, target in a missing directory, target is a directory, target is a symbolic link to the previous output, file-size limit (the write stops after 512 bytes and fails with EFBIG), first write(2) failing with ENOSPC / EIO, SIGKILL on entry to the first write, SIGKILL after a 512-byte partial write (strace inject), each with and without a previous target; bebopfmt -w faults: the same except the two target-directory ones. Per run: exit status vs report, target before/after, success => bytes equal the in-process Generate / Format output and (bebopfmt) same schema; model answer compared. distinct = distinct (tool, input, fault, target state)"
	res := map[string]interface{}{"engine": "cli", "seed": *seed, "tier": *tier,
		"stats": map[string]interface{}{"C19": st, "C16": st16}, "failures": fails, "strace": haveStrace}
	b, _ := json.MarshalIndent(res, "", " ")
	if *out != "" {
		if err := os.WriteFile(*out, b, 0o644); err != nil {
			fmt.Fprintln(os.Stderr, err)
			os.Exit(2)
		}
	}
	fmt.Printf("C19: evaluations=%d distinct=%d failures=%d strace=%v\n", st.Evaluations, st.DistinctNontrivial, st.FailuresTotal, haveStrace)
}

// straceWrapper makes the first write(2)-family call of the process fail with the given errno. The path
// filter (-P) is not used because the tools may write the target through a temporary name. Which
// descriptor was hit is read back from the strace log (-y): for a valid input it is the target (or its
// temporary), for an input that fails earlier it is the error report itself.
func straceWrapper(dir, errno string) []string {
	return []string{"strace", "-f", "-y", "-o", filepath.Join(dir, "strace.out"), "-e", "trace=write,pwrite64,writev",
		"-e", "inject=write,pwrite64,writev:error=" + errno + ":when=1"}
}

// straceKill delivers SIGKILL on entry to the n-th write(2)-family call: a crash point inside the write.
func straceKill(dir string, n int) []string {
	return []string{"strace", "-f", "-y", "-o", filepath.Join(dir, "strace.out"), "-e", "trace=write,pwrite64,writev",
		"-e", fmt.Sprintf("inject=write,pwrite64,writev:signal=KILL:when=%d", n)}
}

// injectedOn returns the path of the descriptor whose write was failed ("" if none).
func injectedOn(dir string) string {
	b, err := os.ReadFile(filepath.Join(dir, "strace.out"))
	if err != nil {
		return ""
	}
	killed := strings.Contains(string(b), "+++ killed by SIGKILL")
	for _, l := range strings.Split(string(b), "\n") {
		if strings.Contains(l, "(INJECTED)") || killed && strings.Contains(l, "<unfinished") {
			i := strings.Index(l, "<")
			j := strings.Index(l, ">")
			if i >= 0 && j > i {
				return l[i+1 : j]
			}
			return "?"
		}
	}
	return ""
}

func b2i(b bool) int {
	if b {
		return 1
	}
	return 0
}

func abbreviate(s string) string {
	if len(s) > 200 {
		return s[:200] + "…"
	}
	return s
}

func parseFile(p string) (string, bebop.File, error) {
	b, err := os.ReadFile(p)
	if err != nil {
		return "", bebop.File{}, err
	}
	return parseBytes(b)
}

func parseBytes(b []byte) (string, bebop.File, error) {
	f, _, err := bebop.ReadFile(bytes.NewReader(b))
	if err != nil {
		return "", f, err
	}
	return filedump.Meaning(f), f, nil
}
