/-
  Helper lemmas: a stream that ends (EOF or I/O error) strictly inside a valid encoding makes DecodeBebop
  return an error.
-/
import Bebop.Proofs.StreamErr
import Bebop.Proofs.Trunc

namespace Bebop

/-- The reader is healthy, but will deliver only the first `k` bytes of `bs` (`k < |bs|`) and then end. -/
def Cut (s : RState) (bs : List Byte) (k : Nat) : Prop :=
  s.err = false ∧ s.data = bs.take k ∧ k < bs.length ∧ ∀ l ∈ s.limits, k ≤ l

/-- The decoder did not get away with it: the latch is set (or the model ran out of fuel). -/
def Bad {α} (r : SOut α × RState) : Prop := r.1 = .fuel ∨ r.2.err = true

theorem bad_of_err {α} (r : SOut α × RState) (h : r.2.err = true) : Bad r := Or.inr h

theorem Cut.split {s : RState} {a b : List Byte} {k : Nat} (h : Cut s (a ++ b) k) :
    (a.length ≤ k ∧ Reads s a ∧ Cut (s.consume a.length) b (k - a.length)) ∨ (k < a.length ∧ Cut s a k) := by
  obtain ⟨he, hd, hk, hl⟩ := h
  by_cases hle : a.length ≤ k
  · left
    rw [take_append_ge a b k hle] at hd
    simp only [List.length_append] at hk
    refine ⟨hle, ⟨he, ⟨_, hd⟩, fun l hl' => Nat.le_trans hle (hl l hl')⟩, he, ?_, by omega, ?_⟩
    · simp [RState.consume, hd]
    · intro l hl'
      simp only [RState.consume, List.mem_map] at hl'
      obtain ⟨l0, hl0, rfl⟩ := hl'
      have := hl l0 hl0; omega
  · right
    have hlt : k < a.length := by omega
    rw [take_append_lt a b k (by omega)] at hd
    exact ⟨hlt, he, hd, hlt, hl⟩

theorem Cut.avail_lt {s : RState} {bs : List Byte} {k : Nat} (h : Cut s bs k) : s.avail < bs.length := by
  obtain ⟨_, hd, hk, _⟩ := h
  have : s.avail ≤ s.data.length := foldl_min_le_init _ _
  rw [hd, List.length_take] at this
  omega

theorem sread_cut (s : RState) (bs : List Byte) (k n : Nat) (hn : bs.length ≤ n) (h : Cut s bs k) :
    (sread n s).1 = none ∧ (sread n s).2.err = true := by
  have := h.avail_lt
  simp [sread, show ¬ n ≤ s.avail by omega]

theorem sreadU32_cut (s : RState) (bs : List Byte) (k : Nat) (hn : bs.length ≤ 4) (h : Cut s bs k) :
    (sreadU32 s).2.err = true := by
  have := sread_cut s bs k 4 hn h
  unfold sreadU32
  split <;> simp_all

theorem sreadByte_cut (s : RState) (bs : List Byte) (k : Nat) (hn : bs.length ≤ 1) (h : Cut s bs k) :
    (sreadByte s).2.err = true := by
  have := sread_cut s bs k 1 hn h
  unfold sreadByte
  split <;> simp_all


theorem sdecMsgLoop_val (d : Ty → SDec) (fds : List MsgField) :
    ∀ (n : Nat) (s : RState) (acc : List (Nat × Val)) (w : Val) (s' : RState),
      sdecMsgLoop d fds n s acc = (.val w, s') → s'.err = false
  | 0, s, acc, w, s', h => by simp [sdecMsgLoop] at h
  | n+1, s, acc, w, s', h => by
    simp only [sdecMsgLoop] at h
    obtain ⟨b, s1, hr⟩ : ∃ b s1, sreadByte s = (b, s1) := ⟨_, _, rfl⟩
    rw [hr] at h
    simp only at h
    cases hfd : fds.find? (fun fd => fd.idx == b) with
    | none =>
      rw [hfd] at h
      simp only [sleave] at h
      split at h
      · simp at h
      · simp only [Prod.mk.injEq] at h; obtain ⟨_, rfl⟩ := h; simp_all
    | some fd =>
      rw [hfd] at h
      simp only at h
      obtain ⟨o, s2, hr2⟩ : ∃ o s2, d fd.ty s1 = (o, s2) := ⟨_, _, rfl⟩
      rw [hr2] at h
      cases o with
      | val v => exact sdecMsgLoop_val d fds n s2 _ w s' h
      | ret => simp at h
      | fuel => simp at h

theorem sticky_sdec (env : Env) (f : Nat) (ty : Ty) : Sticky (sdec f env ty) := (sdec_sticky_all env f).1 ty

/-- What is left of a message-loop iteration after the index byte, once the latch is set. -/
theorem loop_after (env : Env) (f : Nat) (fds : List MsgField) (n : Nat) (acc : List (Nat × Val))
    (b : Nat) (s1 : RState) (h1 : s1.err = true) :
    Bad (match fds.find? (fun fd => fd.idx == b) with
      | none => sleave (.msg acc) s1
      | some fd =>
        match sdec f env fd.ty s1 with
        | (.val v, s2) => sdecMsgLoop (sdec f env) fds n s2 (msgSet fd.idx v acc)
        | (.ret, s2) => (.ret, s2)
        | (.fuel, s2) => (.fuel, s2)) := by
  cases fds.find? (fun fd => fd.idx == b) with
  | none => exact bad_of_err _ (sleave_sticky _ s1 h1)
  | some fd' =>
    have h2 := sticky_sdec env f fd'.ty s1 h1
    simp only
    obtain ⟨o, s2, hr2⟩ : ∃ o s2, sdec f env fd'.ty s1 = (o, s2) := ⟨_, _, rfl⟩
    rw [hr2] at h2 ⊢
    cases o with
    | val v' => exact bad_of_err _ (sdecMsgLoop_sticky _ (sticky_sdec env f) fds n _ s2 h2)
    | ret => exact bad_of_err _ h2
    | fuel => exact Or.inl rfl

theorem loop_first_cut (env : Env) (f : Nat) (fds : List MsgField) (n : Nat) (acc : List (Nat × Val))
    (s : RState) (h : (sreadByte s).2.err = true) :
    Bad (sdecMsgLoop (sdec f env) fds (n+1) s acc) := by
  simp only [sdecMsgLoop]
  obtain ⟨b, s1, hr⟩ : ∃ b s1, sreadByte s = (b, s1) := ⟨_, _, rfl⟩
  rw [hr] at h ⊢
  exact loop_after env f fds n acc b s1 h

/-- What is left of a union decode after the discriminator byte, once the latch is set. -/
theorem union_after (env : Env) (f : Nat) (brs : List (Nat × Nat)) (b : Nat) (s3 : RState) (h3 : s3.err = true) :
    Bad (match brs.lookup b with
      | none => sleave emptyUnion s3
      | some m =>
        match sdec f env (.ref m) s3 with
        | (.val v, s4) => sleave (.union b v) s4
        | (.ret, s4) => (.ret, s4)
        | (.fuel, s4) => (.fuel, s4)) := by
  cases brs.lookup b with
  | none => exact bad_of_err _ (sleave_sticky _ s3 h3)
  | some m' =>
    have h4 := sticky_sdec env f (.ref m') s3 h3
    simp only
    obtain ⟨o, s4, hr⟩ : ∃ o s4, sdec f env (.ref m') s3 = (o, s4) := ⟨_, _, rfl⟩
    rw [hr] at h4 ⊢
    cases o with
    | val v' => exact bad_of_err _ (sleave_sticky _ s4 h4)
    | ret => exact bad_of_err _ h4
    | fuel => exact Or.inl rfl

mutual
theorem strunc_dec (env : Env) (hE : EnvOk env) :
    (v : Val) → ∀ (ty : Ty) (f : Nat) (s : RState) (k : Nat), wt env ty v → rank v < f → Cut s (enc v) k →
      Bad (sdec f env ty s)
  | .scalar w n, ty, f, s, k, h, hf, hc => by
      match f, hf with
      | f+1, _ =>
      simp only [wt] at h
      obtain ⟨hn, h⟩ := h
      simp only [enc] at hc
      have hcut := sread_cut s _ k w (by simp) hc
      apply bad_of_err
      rcases h with h | h | h | h | h
      · obtain ⟨h, _⟩ := h; subst h; simp only [sdec]; split <;> simp_all
      · obtain ⟨rfl, rfl, _⟩ := h; simp only [sdec, Facts.szBool]; split <;> simp_all
      · obtain ⟨rfl, rfl⟩ := h; simp only [sdec, Facts.szFloat32]; split <;> simp_all
      · obtain ⟨rfl, rfl⟩ := h; simp only [sdec, Facts.szFloat64]; split <;> simp_all
      · obtain ⟨rfl, rfl, _⟩ := h; simp only [sdec, Facts.szDate]; split <;> simp_all
  | .str bs, ty, f, s, k, h, hf, hc => by
      match f, hf with
      | f+1, _ =>
      simp only [wt] at h
      obtain ⟨rfl, hl⟩ := h
      simp only [enc] at hc
      simp only [sdec]
      rcases hc.split with ⟨_, hr, hc2⟩ | ⟨_, hc1⟩
      · simp only [length_leBytes] at hc2
        rw [sreadU32_reads s bs.length hl hr]
        have := sread_cut _ bs _ bs.length (Nat.le_refl _) hc2
        apply bad_of_err
        simp only
        split <;> simp_all
      · have h1 := sreadU32_cut s _ k (by simp) hc1
        obtain ⟨n, s1, hr⟩ : ∃ n s1, sreadU32 s = (n, s1) := ⟨_, _, rfl⟩
        rw [hr] at h1 ⊢
        have h2 := sread_sticky n s1 h1
        apply bad_of_err
        simp only
        split <;> simp_all
  | .guid bs, ty, f, s, k, h, hf, hc => by
      match f, hf with
      | f+1, _ =>
      simp only [wt] at h
      obtain ⟨rfl, hl⟩ := h
      simp only [enc] at hc
      have hcut := sread_cut s _ k 16 (by simp) hc
      apply bad_of_err
      simp only [sdec, Facts.szGuid]; split <;> simp_all
  | .arr vs, ty, f, s, k, h, hf, hc => by
      match f, hf with
      | f+1, hf =>
      simp only [wt] at h
      obtain ⟨t, rfl, hl, hw, hp⟩ := h
      simp only [rank] at hf
      have hf' : rankList vs < f := by omega
      simp only [enc] at hc
      simp only [sdec]
      rcases hc.split with ⟨_, hr, hc2⟩ | ⟨_, hc1⟩
      · simp only [length_leBytes] at hc2
        rw [sreadU32_reads s vs.length hl hr]
        have hb := strunc_decN env hE vs t f _ _ hw hf' hc2
        simp only
        obtain ⟨o, s2, hr2⟩ : ∃ o s2, sdecN (sdec f env t) vs.length (s.consume 4) = (o, s2) := ⟨_, _, rfl⟩
        rw [hr2] at hb ⊢
        cases o <;> simp_all [Bad]
      · have h1 := sreadU32_cut s _ k (by simp) hc1
        obtain ⟨n, s1, hr⟩ : ∃ n s1, sreadU32 s = (n, s1) := ⟨_, _, rfl⟩
        rw [hr] at h1 ⊢
        have hb := sdecN_sticky _ (sticky_sdec env f t) n s1 h1
        simp only
        obtain ⟨o, s2, hr2⟩ : ∃ o s2, sdecN (sdec f env t) n s1 = (o, s2) := ⟨_, _, rfl⟩
        rw [hr2] at hb ⊢
        cases o <;> simp_all [Bad]
  | .map kvs, ty, f, s, k, h, hf, hc => by
      match f, hf with
      | f+1, hf =>
      simp only [wt] at h
      obtain ⟨kt, t, rfl, _, hl, hw, hd⟩ := h
      simp only [rank] at hf
      have hf' : rankKVs kvs < f := by omega
      simp only [enc] at hc
      simp only [sdec]
      rcases hc.split with ⟨_, hr, hc2⟩ | ⟨_, hc1⟩
      · simp only [length_leBytes] at hc2
        rw [sreadU32_reads s kvs.length hl hr]
        have hb := strunc_decEntries env hE kvs kt t f _ _ [] hw hd (by simp) hf' hc2
        simp only
        obtain ⟨o, s2, hr2⟩ : ∃ o s2,
          sdecEntries kt (sdec f env kt) (sdec f env t) kvs.length (s.consume 4) [] = (o, s2) := ⟨_, _, rfl⟩
        rw [hr2] at hb ⊢
        cases o <;> simp_all [Bad]
      · have h1 := sreadU32_cut s _ k (by simp) hc1
        obtain ⟨n, s1, hr⟩ : ∃ n s1, sreadU32 s = (n, s1) := ⟨_, _, rfl⟩
        rw [hr] at h1 ⊢
        have hb := sdecEntries_sticky kt _ _ (sticky_sdec env f kt) (sticky_sdec env f t) n [] s1 h1
        simp only at hb ⊢
        obtain ⟨o, s2, hr2⟩ : ∃ o s2,
          sdecEntries kt (sdec f env kt) (sdec f env t) n s1 [] = (o, s2) := ⟨_, _, rfl⟩
        rw [hr2] at hb ⊢
        cases o <;> simp_all [Bad]
  | .struct fs, ty, f, s, k, h, hf, hc => by
      match f, hf with
      | 0, hf => simp [rank] at hf
      | 1, hf => simp [rank] at hf
      | f+2, hf =>
      simp only [wt] at h
      obtain ⟨n, tys, rfl, hn, hw⟩ := h
      simp only [rank] at hf
      have hf' : rankList fs < f := by omega
      simp only [enc] at hc
      cases tys with
      | nil =>
        cases fs with
        | nil => obtain ⟨_, _, hk, _⟩ := hc; simp [encList] at hk
        | cons _ _ => simp [wtStruct] at hw
      | cons t tys =>
        have hb := strunc_decFields env hE fs (t :: tys) f s k hw hf' hc
        simp only [sdec, sdecRecord, hn]
        obtain ⟨o, s2, hr⟩ : ∃ o s2, sdecFields (sdec f env) (t :: tys) s = (o, s2) := ⟨_, _, rfl⟩
        rw [hr] at hb ⊢
        cases o with
        | val vs =>
          simp only [Bad] at hb
          rcases hb with hb | hb
          · simp at hb
          · simp [Bad, hb]
        | ret => simpa [Bad] using hb
        | fuel => simp [Bad]
  | .msg fs, ty, f, s, k, h, hf, hc => by
      match f, hf with
      | 0, hf => simp [rank] at hf
      | 1, hf => simp [rank] at hf
      | f+2, hf =>
      simp only [wt] at h
      obtain ⟨n, fds, rfl, hn, hw, hsz⟩ := h
      simp only [rank] at hf
      have hf' : rankFields fs < f := by omega
      have hok : DefOk (.msg fds) := hE _ (List.mem_of_getElem? hn)
      have hlen : (encFields fs).length + 1 < 2^32 := by rw [length_encFields]; exact hsz
      have henc : enc (.msg fs) = leBytes 4 ((encFields fs).length + 1) ++ (encFields fs ++ [0]) := by
        simp [enc]
      rw [henc] at hc
      simp only [sdec, sdecRecord, hn, Facts.msgLimitExtra, Nat.add_zero]
      rcases hc.split with ⟨_, hr, hc2⟩ | ⟨_, hc1⟩
      · simp only [length_leBytes] at hc2
        rw [sreadU32_reads s _ hlen hr]
        have hc3 : Cut { (s.consume 4) with limits := ((encFields fs).length + 1) :: (s.consume 4).limits }
            (encFields fs ++ [0]) (k - 4) := by
          obtain ⟨he, hd, hk, hl⟩ := hc2
          refine ⟨he, hd, hk, fun l hl' => ?_⟩
          rcases List.mem_cons.mp hl' with rfl | hl'
          · simp at hk; omega
          · exact hl l hl'
        exact strunc_loop env hE fs fds f _ _ 0 [] _ hok hw hf' hc3
      · have h1 := sreadU32_cut s _ k (by simp) hc1
        obtain ⟨bodyLen, s1, hr⟩ : ∃ n s1, sreadU32 s = (n, s1) := ⟨_, _, rfl⟩
        rw [hr] at h1 ⊢
        exact bad_of_err _ (sdecMsgLoop_sticky _ (sticky_sdec env f) fds _ [] _ (by simpa using h1))
  | .union d v, ty, f, s, k, h, hf, hc => by
      match f, hf with
      | 0, hf => simp [rank] at hf
      | 1, hf => simp [rank] at hf
      | f+2, hf =>
      simp only [wt] at h
      obtain ⟨n, brs, m, rfl, hn, hd, hm, hw, hsz⟩ := h
      simp only [rank] at hf
      have hf' : rank v < f := by omega
      have hlen : (enc v).length < 2^32 := by rw [length_enc]; exact hsz
      have henc : enc (.union d v) = leBytes 4 (enc v).length ++ ([UInt8.ofNat d] ++ enc v) := by
        simp [enc]
      rw [henc] at hc
      simp only [sdec, sdecRecord, hn]
      rcases hc.split with ⟨_, hr, hc2⟩ | ⟨_, hc1⟩
      · simp only [length_leBytes] at hc2
        rw [sreadU32_reads s _ hlen hr]
        have hc3 : Cut { (s.consume 4) with limits := ((enc v).length + Facts.unionLimitExtra) :: (s.consume 4).limits }
            ([UInt8.ofNat d] ++ enc v) (k - 4) := by
          obtain ⟨he, hd', hk, hl⟩ := hc2
          refine ⟨he, hd', hk, fun l hl' => ?_⟩
          rcases List.mem_cons.mp hl' with rfl | hl'
          · simp [Facts.unionLimitExtra] at hk ⊢; omega
          · exact hl l hl'
        simp only
        rcases hc3.split with ⟨_, hr4, hc5⟩ | ⟨_, hc4⟩
        · simp only [sreadByte_reads _ _ hr4, toNat_ofNat_lt d hd, hm]
          simp only [List.length_singleton] at hc5
          have hb := strunc_dec env hE v (.ref m) f _ _ hw hf' hc5
          obtain ⟨o, s4, hr5⟩ : ∃ o s4, sdec f env (.ref m)
            ({ (s.consume 4) with limits := ((enc v).length + Facts.unionLimitExtra) :: (s.consume 4).limits }.consume 1)
              = (o, s4) := ⟨_, _, rfl⟩
          rw [hr5] at hb ⊢
          cases o with
          | val v' =>
            simp only [Bad] at hb
            rcases hb with hb | hb
            · simp at hb
            · exact bad_of_err _ (sleave_sticky _ s4 hb)
          | ret => simpa [Bad] using hb
          | fuel => exact Or.inl rfl
        · have h3 := sreadByte_cut _ _ _ (by simp) hc4
          obtain ⟨b, s3, hr3⟩ : ∃ b s3, sreadByte
            { (s.consume 4) with limits := ((enc v).length + Facts.unionLimitExtra) :: (s.consume 4).limits }
              = (b, s3) := ⟨_, _, rfl⟩
          rw [hr3] at h3 ⊢
          exact union_after env f brs b s3 h3
      · have h1 := sreadU32_cut s _ k (by simp) hc1
        obtain ⟨bodyLen, s1, hr⟩ : ∃ n s1, sreadU32 s = (n, s1) := ⟨_, _, rfl⟩
        rw [hr] at h1 ⊢
        simp only
        have h3 := sreadByte_sticky { s1 with limits := (bodyLen + Facts.unionLimitExtra) :: s1.limits }
          (by simpa using h1)
        obtain ⟨b, s3, hr3⟩ : ∃ b s3, sreadByte { s1 with limits := (bodyLen + Facts.unionLimitExtra) :: s1.limits }
            = (b, s3) := ⟨_, _, rfl⟩
        rw [hr3] at h3 ⊢
        exact union_after env f brs b s3 h3

theorem strunc_decN (env : Env) (hE : EnvOk env) :
    (vs : List Val) → ∀ (t : Ty) (f : Nat) (s : RState) (k : Nat), wtList env t vs → rankList vs < f →
      Cut s (encList vs) k → Bad (sdecN (sdec f env t) vs.length s)
  | [], _, _, s, k, _, _, hc => by obtain ⟨_, _, hk, _⟩ := hc; simp [encList] at hk
  | v :: vs, t, f, s, k, h, hf, hc => by
      simp only [wtList] at h
      simp only [rankList] at hf
      have h1 : rank v < f := by omega
      have h2 : rankList vs < f := by omega
      simp only [encList] at hc
      simp only [List.length_cons, sdecN]
      rcases hc.split with ⟨_, hr, hc2⟩ | ⟨_, hc1⟩
      · rw [sdec_enc env hE v t f s h.1 h1 hr]
        have hb := strunc_decN env hE vs t f _ _ h.2 h2 hc2
        simp only
        split
        · exact Or.inl rfl
        · obtain ⟨o, s2, hr2⟩ : ∃ o s2, sdecN (sdec f env t) vs.length (s.consume (enc v).length) = (o, s2) :=
            ⟨_, _, rfl⟩
          rw [hr2] at hb ⊢
          cases o <;> simp_all [Bad]
      · have hb := strunc_dec env hE v t f s k h.1 h1 hc1
        obtain ⟨o, s', hr⟩ : ∃ o s', sdec f env t s = (o, s') := ⟨_, _, rfl⟩
        rw [hr] at hb ⊢
        cases o with
        | val v' =>
          simp only [Bad] at hb
          rcases hb with hb | hb
          · simp at hb
          · have hb2 := sdecN_sticky _ (sticky_sdec env f t) vs.length s' hb
            simp only
            split
            · exact Or.inl rfl
            · obtain ⟨o2, s2, hr2⟩ : ∃ o s2, sdecN (sdec f env t) vs.length s' = (o, s2) := ⟨_, _, rfl⟩
              rw [hr2] at hb2 ⊢
              cases o2 <;> simp_all [Bad]
        | ret => simpa [Bad] using hb
        | fuel => exact Or.inl rfl

theorem strunc_decEntries (env : Env) (hE : EnvOk env) :
    (kvs : List (Val × Val)) → ∀ (kt t : Ty) (f : Nat) (s : RState) (k : Nat) (acc : List (Val × Val)),
      wtKVs env kt t kvs → keysDistinct kt kvs → (∀ a ∈ acc, ∀ kv ∈ kvs, keyEq kt a.1 kv.1 = false) →
      rankKVs kvs < f → Cut s (encKVs kvs) k →
      Bad (sdecEntries kt (sdec f env kt) (sdec f env t) kvs.length s acc)
  | [], _, _, _, s, k, _, _, _, _, _, hc => by obtain ⟨_, _, hk, _⟩ := hc; simp [encKVs] at hk
  | (a, b) :: kvs, kt, t, f, s, k, acc, h, hd, hacc, hf, hc => by
      simp only [wtKVs] at h
      simp only [keysDistinct] at hd
      simp only [rankKVs] at hf
      have h1 : rank a < f := by omega
      have h2 : rank b < f := by omega
      have h3 : rankKVs kvs < f := by omega
      have hacc' : ∀ x ∈ mapInsert kt a b acc, ∀ kv ∈ kvs, keyEq kt x.1 kv.1 = false := by
        have hfresh : ∀ x ∈ acc, keyEq kt x.1 a = false := fun x hx => hacc x hx (a, b) (by simp)
        rw [mapInsert_fresh kt a b acc hfresh]
        intro x hx kv hkv
        rcases List.mem_append.mp hx with hx | hx
        · exact hacc x hx kv (by simp [hkv])
        · simp at hx; subst hx; exact hd.1 kv hkv
      simp only [encKVs, List.append_assoc] at hc
      simp only [List.length_cons, sdecEntries]
      have stick := sdecEntries_sticky kt _ _ (sticky_sdec env f kt) (sticky_sdec env f t)
      rcases hc.split with ⟨_, hr, hc2⟩ | ⟨_, hc1⟩
      · rw [sdec_enc env hE a kt f s h.1 h1 hr]
        simp only
        rcases hc2.split with ⟨_, hr2, hc3⟩ | ⟨_, hc2'⟩
        · rw [sdec_enc env hE b t f _ h.2.1 h2 hr2]
          simp only
          split
          · exact Or.inl rfl
          · exact strunc_decEntries env hE kvs kt t f _ _ _ h.2.2 hd.2 hacc' h3 hc3
        · have hb := strunc_dec env hE b t f _ _ h.2.1 h2 hc2'
          obtain ⟨o, s', hr3⟩ : ∃ o s', sdec f env t (s.consume (enc a).length) = (o, s') := ⟨_, _, rfl⟩
          rw [hr3] at hb ⊢
          cases o with
          | val v' =>
            simp only [Bad] at hb
            rcases hb with hb | hb
            · simp at hb
            · simp only
              split
              · exact Or.inl rfl
              · exact bad_of_err _ (stick kvs.length _ s' hb)
          | ret => simpa [Bad] using hb
          | fuel => exact Or.inl rfl
      · have hb := strunc_dec env hE a kt f s k h.1 h1 hc1
        obtain ⟨o, s', hr3⟩ : ∃ o s', sdec f env kt s = (o, s') := ⟨_, _, rfl⟩
        rw [hr3] at hb ⊢
        cases o with
        | val k' =>
          simp only [Bad] at hb
          rcases hb with hb | hb
          · simp at hb
          · have hv := sticky_sdec env f t s' hb
            simp only
            obtain ⟨o2, s'', hr4⟩ : ∃ o s'', sdec f env t s' = (o, s'') := ⟨_, _, rfl⟩
            rw [hr4] at hv ⊢
            cases o2 with
            | val v' =>
              simp only
              split
              · exact Or.inl rfl
              · exact bad_of_err _ (stick kvs.length _ s'' hv)
            | ret => exact bad_of_err _ hv
            | fuel => exact Or.inl rfl
        | ret => simpa [Bad] using hb
        | fuel => exact Or.inl rfl

theorem strunc_decFields (env : Env) (hE : EnvOk env) :
    (fs : List Val) → ∀ (tys : List Ty) (f : Nat) (s : RState) (k : Nat), wtStruct env tys fs → rankList fs < f →
      Cut s (encList fs) k → Bad (sdecFields (sdec f env) tys s)
  | [], _, _, s, k, _, _, hc => by obtain ⟨_, _, hk, _⟩ := hc; simp [encList] at hk
  | _ :: _, [], _, _, _, h, _, _ => by simp [wtStruct] at h
  | v :: vs, t :: tys, f, s, k, h, hf, hc => by
      simp only [wtStruct] at h
      simp only [rankList] at hf
      have h1 : rank v < f := by omega
      have h2 : rankList vs < f := by omega
      simp only [encList] at hc
      simp only [sdecFields]
      rcases hc.split with ⟨_, hr, hc2⟩ | ⟨_, hc1⟩
      · rw [sdec_enc env hE v t f s h.1 h1 hr]
        have hb := strunc_decFields env hE vs tys f _ _ h.2 h2 hc2
        simp only
        obtain ⟨o, s2, hr2⟩ : ∃ o s2, sdecFields (sdec f env) tys (s.consume (enc v).length) = (o, s2) :=
          ⟨_, _, rfl⟩
        rw [hr2] at hb ⊢
        cases o <;> simp_all [Bad]
      · have hb := strunc_dec env hE v t f s k h.1 h1 hc1
        obtain ⟨o, s', hr⟩ : ∃ o s', sdec f env t s = (o, s') := ⟨_, _, rfl⟩
        rw [hr] at hb ⊢
        cases o with
        | val v' =>
          simp only [Bad] at hb
          rcases hb with hb | hb
          · simp at hb
          · have hb2 := sdecFields_sticky _ (sticky_sdec env f) tys s' hb
            simp only
            obtain ⟨o2, s2, hr2⟩ : ∃ o s2, sdecFields (sdec f env) tys s' = (o, s2) := ⟨_, _, rfl⟩
            rw [hr2] at hb2 ⊢
            cases o2 <;> simp_all [Bad]
        | ret => simpa [Bad] using hb
        | fuel => exact Or.inl rfl

theorem strunc_loop (env : Env) (hE : EnvOk env) :
    (fs : List (Nat × Val)) → ∀ (fds : List MsgField) (f : Nat) (s : RState) (k lo : Nat)
      (acc : List (Nat × Val)) (n : Nat), DefOk (.msg fds) → wtMsg env fds lo fs → rankFields fs < f →
      Cut s (encFields fs ++ [0]) k → Bad (sdecMsgLoop (sdec f env) fds n s acc)
  | fs, fds, f, s, k, lo, acc, 0, _, _, _, _ => by simp [sdecMsgLoop, Bad]
  | [], fds, f, s, k, lo, acc, n+1, _, _, _, hc => by
      simp only [encFields, List.nil_append] at hc
      exact loop_first_cut env f fds n acc s (sreadByte_cut s _ k (by simp) hc)
  | (i, v) :: fs, fds, f, s, k, lo, acc, n+1, hok, h, hf, hc => by
      simp only [wtMsg] at h
      obtain ⟨hlo, hi, ⟨fd, hfd, _, hwv⟩, hrest⟩ := h
      simp only [rankFields] at hf
      have h1 : rank v < f := by omega
      have h2 : rankFields fs < f := by omega
      have henc : encFields ((i, v) :: fs) ++ [0] = [UInt8.ofNat i] ++ (enc v ++ (encFields fs ++ [0])) := by
        simp [encFields]
      rw [henc] at hc
      rcases hc.split with ⟨_, hr, hc2⟩ | ⟨_, hc1⟩
      · simp only [sdecMsgLoop, sreadByte_reads s _ hr, toNat_ofNat_lt i hi, hfd, List.length_singleton]
        simp only [List.length_singleton] at hc2
        rcases hc2.split with ⟨_, hr2, hc3⟩ | ⟨_, hc2'⟩
        · rw [sdec_enc env hE v fd.ty f _ hwv h1 hr2]
          exact strunc_loop env hE fs fds f _ _ i _ n hok hrest h2 hc3
        · have hb := strunc_dec env hE v fd.ty f _ _ hwv h1 hc2'
          obtain ⟨o, s2, hr3⟩ : ∃ o s2, sdec f env fd.ty (s.consume 1) = (o, s2) := ⟨_, _, rfl⟩
          rw [hr3] at hb ⊢
          cases o with
          | val v' =>
            simp only [Bad] at hb
            rcases hb with hb | hb
            · simp at hb
            · exact bad_of_err _ (sdecMsgLoop_sticky _ (sticky_sdec env f) fds n _ s2 hb)
          | ret => simpa [Bad] using hb
          | fuel => exact Or.inl rfl
      · exact loop_first_cut env f fds n acc s (sreadByte_cut s _ k (by simp) hc1)
end

end Bebop
