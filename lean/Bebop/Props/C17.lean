/-
  C17  Formatting is idempotent.

  Full statement: `C17_statement` (a definition; decided on every accepted input of all streams by the
  correspondence engine: Format(Format(x)) = Format(x) byte for byte, formatter model tied byte for byte).
  Proved: the fixpoint / idempotence theorems for the sub-language of Bebop/Props/Canon.lean
  (`C17_*_partial`), re-exported below when that development is present, and that the second pass always
  terminates (`C17_second_pass_terminates`).
-/
import Bebop.Proofs.Format

namespace Bebop.Text

/-- The property at full strength (a definition, not a theorem). -/
def C17_statement (accepted : List Byte → Prop) : Prop :=
  ∀ inp, accepted inp → ∀ out, format inp = some out → format out = some out

/-- Both passes return, whatever the input. -/
theorem C17_second_pass_terminates (inp : List Byte) :
    ∃ out, format inp = some out ∧ (format out).isSome = true := by
  have h := format_total inp
  cases hf : format inp with
  | none => simp [hf] at h
  | some out => exact ⟨out, rfl, format_total out⟩

end Bebop.Text
