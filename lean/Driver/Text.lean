/- Text-side (tokenizer / parser / formatter / validator / imports) operations of the driver. -/
import Bebop.Text.Parser
import Bebop.Text.Grammar
import Bebop.Text.Format
import Bebop.Text.Dump
import Bebop.Text.Validate
import Bebop.Text.Imports
import Bebop.Text.Cli
import Driver.Gen

open Bebop.Text

namespace Driver.Text

def hexValC (c : Char) : Option Nat :=
  if '0' ≤ c ∧ c ≤ '9' then some (c.toNat - 48)
  else if 'a' ≤ c ∧ c ≤ 'f' then some (c.toNat - 87)
  else if 'A' ≤ c ∧ c ≤ 'F' then some (c.toNat - 55)
  else none

partial def unhexChars : List Char → List UInt8 → Option (List UInt8)
  | [], acc => some acc.reverse
  | [_], _ => none
  | a :: b :: rest, acc =>
    match hexValC a, hexValC b with
    | some x, some y => unhexChars rest (UInt8.ofNat (x * 16 + y) :: acc)
    | _, _ => none

def unhex (s : String) : Option (List UInt8) := if s == "-" then some [] else unhexChars s.toList []

def showRead : ReadResult → String
  | .ok f => "ok " ++ dumpFile f
  | .err => "err"
  | .panic => "panic"
  | .fuel => "fuel"
  | .declined => "declined"

def kindName (k : TK) : String := (reprStr k).replace "Bebop.Text.TK." ""

partial def parseFS : Nat → List String → Option (FS × List String)
  | 0, r => some ([], r)
  | n+1, pkg :: m :: r => do
    let m ← m.toNat?
    let ts ← (r.take m).mapM String.toNat?
    if (r.take m).length != m then none
    let (rest, r') ← parseFS n (r.drop m)
    let p : Option Nat := if pkg == "-1" then none else pkg.toNat?
    pure ({ pkg := p, imports := ts } :: rest, r')
  | _, _ => none

/-- Outcome schedule for a scenario: walk the executed (non-deferred, non-benign) calls in order and fail or
    crash the first one the fault hits. -/
def cliSched (prog : List Bebop.Cli.Step) (hit : Bebop.Cli.Step → Bool) (o : Bebop.Cli.Outcome) : List Bebop.Cli.Outcome :=
  let run := prog.filter (fun s => !(s.deferred || s.act == .benign))
  match run.findIdx? hit with
  | some i => List.replicate i .ok ++ [o]
  | none => []

def cliOp (tool inKind fault : String) (had : Bool) : String :=
  open Bebop.Cli in
  let prog := if tool == "bebopc-go" then bebopc else bebopfmt
  let data : Bytes := (List.range 600).map (fun i => UInt8.ofNat (i % 251))
  let fs0 : Bebop.Cli.FS := { target := if had then some [170] else none, tmp := none }
  -- the earliest failing call decides: faults of the environment and defects of the input, in call order
  let hits : List ((Bebop.Cli.Step → Bool) × Bebop.Cli.Outcome) :=
    (if fault == "missing-input" then [((fun (s : Step) => s.name == "os.Open"), Outcome.fail 0)] else []) ++
    (if inKind == "unparsable" then [((fun (s : Step) => s.name == "bebop.ReadFile"), Outcome.fail 0)] else []) ++
    (if inKind == "validation" then [((fun (s : Step) => s.name == "schema.Generate"), Outcome.fail 0)] else []) ++
    (if fault == "target-dir-missing" then [((fun (s : Step) => s.act == .createTemp || s.act == .createTarget), Outcome.fail 0)] else []) ++
    (if fault == "target-is-dir" then [((fun (s : Step) => s.act == .rename || s.act == .createTarget), Outcome.fail 0)] else []) ++
    (if fault == "write-enospc" || fault == "write-eio" then [((fun (s : Step) => s.act == .writeTemp || s.act == .writeTarget), Outcome.fail 0)] else []) ++
    (if fault == "fsize-limit" then [((fun (s : Step) => s.act == .writeTemp || s.act == .writeTarget), Outcome.fail 512)] else []) ++
    (if fault == "fsize-kill" then [((fun (s : Step) => s.act == .writeTemp || s.act == .writeTarget), Outcome.crash 512)] else []) ++
    (if fault == "write-kill" then [((fun (s : Step) => s.act == .writeTemp || s.act == .writeTarget), Outcome.crash 0)] else [])
  let scheds := hits.map (fun (h, o) => cliSched prog h o) |>.filter (fun l => !l.isEmpty)
  -- the shortest non-empty schedule is the first failure in program order
  let sched := scheds.foldl (fun best l => if best.isEmpty || l.length < best.length then l else best) []
  let r := exec data prog sched fs0 false
  let ex := match r.exit with | .zero => "zero" | .reported => "reported" | .crashed => "crashed"
  let tg :=
    if r.fs.target == fs0.target then "same"
    else match r.fs.target with
      | none => "absent"
      | some [] => "empty"
      | some b => if b == data then "new" else "partial"
  ex ++ " " ++ tg ++ (if SafeProg prog then " shape-ok" else " shape-bad")

def step (toks : List String) : String :=
  match toks with
  | ["cli", tool, inKind, fault, had] => cliOp tool inKind fault (had == "1")
  | ["parse", h, io] =>
    match unhex h with
    | some bs => showRead (readFile bs (io == "1"))
    | none => "bad-op parse"
  | ["fmt", h] =>
    match unhex h with
    | some bs =>
      if !bs.all (fun b => b < 128) then "declined" else
      match format bs with
      | some out => "ok " ++ hexStr out
      | none => "fuel"
    | none => "bad-op fmt"
  | ["tok", h, io] =>
    match unhex h with
    | some bs =>
      let (ts, t) := allTokens (2 * bs.length + 4) (mkTR bs (io == "1")) []
      "ok " ++ toString ts.length ++ String.join (ts.map fun tk => " " ++ kindName tk.kind ++ ":" ++ hexStr tk.concrete) ++
        " errs " ++ toString t.errs.length ++ (if t.panicked then " panicked" else "")
    | none => "bad-op tok"
  | ["gen", seed, size, imports] =>
    match seed.toNat?, size.toNat? with
    | some seed, some size =>
      let src := Gen.run seed (imports == "2") (Gen.genFile size (imports == "1"))
      let text := print (Gen.layoutOf seed) src
      match toFile src with
      | some f => "ok " ++ hexStr text ++ " " ++ dumpFile f
      | none => "bad-src " ++ hexStr text
    | _, _ => "bad-op gen"
  | ["geninvalid", seed, size, cls] =>
    match seed.toNat?, size.toNat?, cls.toNat? with
    | some seed, some size, some ci =>
      let clsName := Gen.classes.getD ci "?"
      let r := Gen.run seed false (do
        let src ← Gen.genFile size false
        Gen.inject clsName src)
      match r with
      | some src => "ok " ++ hexStr (print (Gen.layoutOf seed) src) ++ " " ++ clsName
      | none => "na " ++ clsName
    | _, _, _ => "bad-op geninvalid"
  | "imports" :: sep :: n :: rest =>
    match n.toNat?.bind (fun n => parseFS n rest) with
    | some (fs, []) =>
      match resolveImports fs (sep == "1") with
      | .ok files => "ok " ++ String.intercalate " " (files.map toString)
      | .err .notFound => "err notfound"
      | .err .cycle => "err cycle"
      | .err .noPkg => "err nopkg"
      | .err .validate => "err validate"
      | .fuel => "fuel"
    | _ => "bad-op imports"
  | ["validate", h] =>
    match unhex h with
    | some bs =>
      match readFile bs false with
      | .ok f =>
        match validate f with
        | .ok => "accept"
        | .err why => "reject-validate " ++ why.replace " " "_"
      | .err => "reject-parse"
      | .panic => "panic"
      | .fuel => "fuel"
      | .declined => "declined"
    | none => "bad-op validate"
  | _ => "bad-op text " ++ String.intercalate " " toks

end Driver.Text
