// Command text is the correspondence engine for the compiler front end: the real bebop.ReadFile and
// bebop.Format, in-process, against the Lean model (bebop-model: tokenizer, parser, formatter) and against
// the Spec (the text of a schema under a layout, and the File it denotes), plus direct oracles.
// Serves C10, C11, C16, C17.
package main

import (
	"bytes"
	"encoding/hex"
	"encoding/json"
	"errors"
	"flag"
	"fmt"
	"io"
	"math/rand"
	"os"
	"path/filepath"
	"runtime"
	"sort"
	"strings"
	"sync"
	"time"
	"unicode/utf8"
	"verif/harness/internal/corners"

	"github.com/200sc/bebop"
	"verif/harness/internal/filedump"
	"verif/harness/internal/proc"
)

type failure struct {
	Property string `json:"property"`
	Kind     string `json:"kind"`
	Stream   string `json:"stream"`
	Text     string `json:"text"`     // the schema text (or input bytes) as a Go-quoted string
	TextHex  string `json:"text_hex"` // the same, hex
	Op       string `json:"op"`
	Expected string `json:"expected"`
	Observed string `json:"observed"`
	Model    string `json:"model,omitempty"`
	Note     string `json:"note"`
	Class    string `json:"class,omitempty"` // construct class, for known-finding matching
}

type stat struct {
	Evaluations        int            `json:"evaluations"`
	DistinctNontrivial int            `json:"distinct_nontrivial"`
	Rule               string         `json:"rule"`
	Samples            []string       `json:"samples"`
	Distribution       map[string]int `json:"distribution"`
	FailuresTotal      int            `json:"failures_total"`
	distinct           map[string]struct{}
}

var (
	stats = map[string]*stat{}
	fails = []failure{}
	model *proc.Proc
)

func st(p string) *stat {
	s, ok := stats[p]
	if !ok {
		s = &stat{Distribution: map[string]int{}, distinct: map[string]struct{}{}}
		stats[p] = s
	}
	return s
}

func count(p, class, key string) {
	s := st(p)
	s.Evaluations++
	s.Distribution[class]++
	s.distinct[key] = struct{}{}
}

func fail(p, kind, stream string, text []byte, op, exp, obs, mdl, note, class string) {
	s := st(p)
	s.FailuresTotal++
	if len(fails) < 300 {
		fails = append(fails, failure{p, kind, stream, fmt.Sprintf("%q", abbreviate(text, 600)), hexOf(text), op, abbrev(exp, 400), abbrev(obs, 400), abbrev(mdl, 400), note, class})
	}
	if kind == "hang" {
		noteHang()
	}
}

func abbreviate(b []byte, n int) []byte {
	if len(b) > n {
		return b[:n]
	}
	return b
}

func abbrev(s string, n int) string {
	if len(s) > n {
		return s[:n] + "…"
	}
	return s
}

func hexOf(b []byte) string {
	if len(b) == 0 {
		return "-"
	}
	return hex.EncodeToString(b)
}

func ask(line string) string {
	r, err := model.Send(line)
	if err != nil {
		fmt.Fprintln(os.Stderr, "text engine: model:", err)
		os.Exit(2)
	}
	return r
}

// ---- running the real code ------------------------------------------------------------------------

type outcome struct {
	class string // ok | err | panic | hang
	dump  string
	msg   string
	file  bebop.File
}

type failReader struct {
	data []byte
	pos  int
	err  error
}

func (f *failReader) Read(p []byte) (int, error) {
	if f.pos >= len(f.data) {
		return 0, f.err
	}
	n := copy(p, f.data[f.pos:])
	f.pos += n
	return n, nil
}

var errInjected = errors.New("injected I/O failure")

// finish writes the results; hangs counts inputs on which the implementation did not return. After the first the
// run ends at once: every hung call keeps a goroutine spinning (and may keep allocating without bound).
var (
	finish func()
	hangs  int
	// hangAfter: a call that has not returned by then is a hang (the largest input, 1.3 MB, takes well under a second)
	hangAfter = 6 * time.Second
)

func noteHang() {
	hangs++
	if hangs >= 1 && finish != nil {
		fmt.Fprintln(os.Stderr, "text engine: the implementation hangs; ending the run after", hangs, "hung calls")
		finish()
		os.Exit(0)
	}
}

// current: what the implementation is being called on right now (for the memory watchdog).
var current struct {
	mu   sync.Mutex
	op   string
	text []byte
}

func setCurrent(op string, text []byte) {
	current.mu.Lock()
	current.op, current.text = op, text
	current.mu.Unlock()
}

// watchMemory ends the run when the heap passes 3 GiB while a call of the implementation is in progress: a call
// that runs away allocates faster than the hang deadline can catch (seen: an error list that grows without bound).
func watchMemory() {
	for {
		time.Sleep(250 * time.Millisecond)
		var ms runtime.MemStats
		runtime.ReadMemStats(&ms)
		if ms.HeapAlloc > 3<<30 {
			current.mu.Lock()
			op, text := current.op, current.text
			current.mu.Unlock()
			p := "C10"
			if op == "Format" {
				p = "C16"
			}
			fail(p, "hang", "watchdog", text, op, "returns", fmt.Sprintf("heap at %d MiB and growing while the call runs", ms.HeapAlloc>>20), "", "the call runs away (memory)", "")
			return
		}
	}
}

func realRead(r io.Reader) (o outcome) {
	if br, ok := r.(*bytes.Reader); ok {
		b := make([]byte, br.Len())
		br.ReadAt(b, br.Size()-int64(br.Len()))
		setCurrent("ReadFile", b)
	} else if fr, ok := r.(*failReader); ok {
		setCurrent("ReadFile (failing reader)", fr.data)
	}
	done := make(chan outcome, 1)
	go func() {
		var o outcome
		defer func() {
			if p := recover(); p != nil {
				o = outcome{class: "panic", msg: fmt.Sprint(p)}
			}
			done <- o
		}()
		f, _, err := bebop.ReadFile(r)
		if err != nil {
			o = outcome{class: "err", msg: err.Error()}
			return
		}
		o = outcome{class: "ok", dump: filedump.File(f), file: f}
	}()
	select {
	case o = <-done:
		return o
	case <-time.After(hangAfter):
		return outcome{class: "hang", msg: fmt.Sprintf("ReadFile did not return within %v", hangAfter)}
	}
}

func realFormat(text []byte) (out []byte, class string, msg string) {
	setCurrent("Format", text)
	type res struct {
		out   []byte
		class string
		msg   string
	}
	done := make(chan res, 1)
	go func() {
		var r res
		defer func() {
			if p := recover(); p != nil {
				r = res{nil, "panic", fmt.Sprint(p)}
			}
			done <- r
		}()
		var b bytes.Buffer
		if err := bebop.Format(bytes.NewReader(text), &b); err != nil {
			r = res{nil, "err", err.Error()}
			return
		}
		r = res{b.Bytes(), "ok", ""}
	}()
	select {
	case r := <-done:
		return r.out, r.class, r.msg
	case <-time.After(hangAfter):
		return nil, "hang", fmt.Sprintf("Format did not return within %v", hangAfter)
	}
}

func (o outcome) short() string {
	if o.class == "ok" {
		return "ok " + o.dump
	}
	return o.class
}

// modelRead asks the model for ReadFile's result on the same bytes.
func modelRead(text []byte, ioFail bool) string {
	f := "0"
	if ioFail {
		f = "1"
	}
	return ask("parse " + hexOf(text) + " " + f)
}

// ---- construct classes (for the formatter's listed findings) ------------------------------------------

func constructClasses(f bebop.File, text []byte) []string {
	set := map[string]bool{}
	if len(f.Imports) > 0 {
		set["import"] = true
	}
	for _, e := range f.Enums {
		set["enum"] = true
		if bytes.Contains(text, []byte("flags")) {
			set["flags"] = true
		}
		if e.SimpleType != "uint32" || bytes.Contains(text, []byte(":")) {
			set["typed-enum"] = true
		}
	}
	var walk func(t bebop.FieldType, depth int)
	walk = func(t bebop.FieldType, depth int) {
		if t.Array != nil {
			if t.Array.Array != nil {
				set["nested-array-suffix"] = true
			}
			walk(*t.Array, depth+1)
		}
		if t.Map != nil {
			walk(t.Map.Value, depth+1)
		}
	}
	for _, s := range f.Structs {
		for _, fd := range s.Fields {
			walk(fd.FieldType, 0)
		}
	}
	for _, m := range f.Messages {
		for _, fd := range m.Fields {
			walk(fd.FieldType, 0)
		}
	}
	for _, u := range f.Unions {
		for _, uf := range u.Fields {
			if uf.Struct != nil {
				for _, fd := range uf.Struct.Fields {
					walk(fd.FieldType, 0)
				}
			}
			if uf.Message != nil {
				for _, fd := range uf.Message.Fields {
					walk(fd.FieldType, 0)
				}
			}
		}
	}
	var out []string
	for k := range set {
		out = append(out, k)
	}
	sort.Strings(out)
	return out
}

// ---- property oracles ---------------------------------------------------------------------------------

var appendDefs = []string{
	"struct ZzAppended {\n\tint32 zz;\n}\n",
	"enum ZzAppendedE {\n\tZa = 1;\n}\n",
	"message ZzAppendedM {\n\t1 -> string zs;\n}\n",
}

func hasDef(f bebop.File, name string) bool {
	for _, s := range f.Structs {
		if s.Name == name {
			return true
		}
	}
	for _, e := range f.Enums {
		if e.Name == name {
			return true
		}
	}
	for _, m := range f.Messages {
		if m.Name == name {
			return true
		}
	}
	return false
}

// checkText runs every oracle that applies to one input text.
func checkText(stream string, text []byte, expected string, cmpModel bool, rng *rand.Rand) {
	key := stream + "/" + hexOf(text)
	o := realRead(bytes.NewReader(text))
	count("C10", stream+"/"+o.class, key)
	if o.class == "panic" || o.class == "hang" {
		fail("C10", o.class, stream, text, "ReadFile", "returns (ok or error)", o.class+": "+o.msg, "", "ReadFile must return without panicking or hanging", "")
	}
	var m string
	if cmpModel {
		m = modelRead(text, false)
		if m != "declined" && !strings.HasPrefix(m, "bad-op") {
			if m != o.short() {
				p := "C10"
				if expected != "" {
					p = "C11"
				}
				fail(p, "mismatch", stream, text, "ReadFile", m, o.short(), m, "model and implementation disagree on ReadFile", "")
			}
			if m == "fuel" {
				fail("C10", "mismatch", stream, text, "ReadFile", "model terminates within its fuel", "fuel", m, "model ran out of fuel", "")
			}
		} else {
			st("C10").Distribution["model-declined"]++
		}
	}
	if expected != "" {
		count("C11", stream+"/"+o.class, key)
		if o.class != "ok" || o.dump != expected {
			fail("C11", "oracle", stream, text, "ReadFile(print layout src)", "ok "+expected, o.short(), m, "the File does not state what the text says", firstDiff(expected, o.dump))
		}
	}
	if o.class != "ok" {
		return
	}
	// C11: every name the File carries is spelled in the text (valid UTF-8, byte for byte)
	for _, n := range fileNames(o.file) {
		if !utf8.ValidString(n) || !bytes.Contains(text, []byte(n)) {
			count("C11", stream+"/names", key)
			fail("C11", "oracle", stream, text, "names of the parsed File", "every identifier occurs in the text", fmt.Sprintf("%q", n), "", "the File carries a name that the text does not spell", "")
			break
		}
	}
	// C10(d): success => the whole input was consumed: an appended definition is seen or an error results
	ad := appendDefs[rng.Intn(len(appendDefs))]
	name := strings.Fields(ad)[1]
	ext := append(append(append([]byte(nil), text...), '\n'), ad...)
	o2 := realRead(bytes.NewReader(ext))
	count("C10", stream+"/append/"+o2.class, key+"+append")
	switch o2.class {
	case "ok":
		if !hasDef(o2.file, name) {
			fail("C10", "oracle", stream, ext, "ReadFile(text + newline + definition)", "error, or a File containing "+name, "ok without "+name, "", "part of the input was silently dropped", "")
		}
	case "panic", "hang":
		fail("C10", o2.class, stream, ext, "ReadFile", "returns", o2.msg, "", "", "")
	}
	// C16 / C17
	classes := constructClasses(o.file, text)
	cls := strings.Join(classes, ",")
	count("C16", stream+"/"+cls, key)
	out, fc, fmsg := realFormat(text)
	if fc != "ok" {
		fail("C16", fc, stream, text, "Format", "terminates without error", fc+": "+fmsg, "", "Format on accepted text", cls)
		return
	}
	if cmpModel {
		mf := ask("fmt " + hexOf(text))
		if !strings.HasPrefix(mf, "bad-op") && mf != "declined" {
			if mf != "ok "+hexOf(out) {
				fail("C16", "mismatch", stream, text, "Format", mf, "ok "+hexOf(out), mf, "model and implementation disagree on Format", cls)
				// the idempotence theorems are about the same formatter model: its tie to format.go is C17's too
				fail("C17", "mismatch", stream, text, "Format", mf, "ok "+hexOf(out), mf, "model and implementation disagree on Format", cls)
			}
		}
	}
	o3 := realRead(bytes.NewReader(out))
	if o3.class != "ok" {
		fail("C16", "oracle", stream, text, "ReadFile(Format(text))", "accepted", o3.class+": "+o3.msg+" | formatted: "+fmt.Sprintf("%q", abbreviate(out, 300)), "", "formatted output is not accepted", cls)
	} else if a, b := filedump.Meaning(o.file), filedump.Meaning(o3.file); a != b {
		fail("C16", "oracle", stream, text, "ReadFile(Format(text))", a, b+" | formatted: "+fmt.Sprintf("%q", abbreviate(out, 300)), "", "formatting changed the meaning: "+firstDiff(a, b), cls)
	}
	count("C17", stream+"/"+cls, key)
	out2, fc2, fmsg2 := realFormat(out)
	if fc2 != "ok" {
		fail("C17", fc2, stream, text, "Format(Format(text))", "ok", fc2+": "+fmsg2, "", "second formatting pass", cls)
	} else if !bytes.Equal(out, out2) {
		fail("C17", "oracle", stream, text, "Format(Format(text))", fmt.Sprintf("%q", abbreviate(out, 300)), fmt.Sprintf("%q", abbreviate(out2, 300)), "", "formatting is not idempotent", cls)
	}
}

// bigInput: a schema of more than 1 MiB made of one-line structs. ReadFile must read all of them (and a definition
// appended at the very end), and a reader that fails far into the input must be reported.
func bigInput(rng *rand.Rand) {
	var b bytes.Buffer
	n := 0
	for b.Len() < 1<<20+200000 {
		fmt.Fprintf(&b, "struct S%06d { int32 a; }\n", n)
		n++
	}
	b.WriteString("struct LastOne { int32 a; }\n")
	n++
	text := b.Bytes()
	label := []byte(fmt.Sprintf("%d one-line structs, %d bytes (S000000 .. LastOne)", n, len(text)))
	o := realRead(bytes.NewReader(text))
	count("C10", "big/"+o.class, "big")
	switch {
	case o.class == "panic" || o.class == "hang":
		fail("C10", o.class, "big", label, "ReadFile", "returns", o.class+": "+o.msg, "", "ReadFile on an input beyond 1 MiB", "")
	case o.class != "ok":
		fail("C10", "oracle", "big", label, "ReadFile", "ok", o.short(), "", "a well-formed input beyond 1 MiB is rejected", "")
	case len(o.file.Structs) != n || !hasDef(o.file, "LastOne"):
		fail("C10", "oracle", "big", label, "ReadFile", fmt.Sprintf("%d structs, the last one LastOne", n), fmt.Sprintf("%d structs, LastOne present: %v", len(o.file.Structs), hasDef(o.file, "LastOne")), "", "part of an input beyond 1 MiB was silently dropped", "")
	}
	for _, off := range []int{1 << 20, 1<<20 + 32, 1<<20 + 1 + rng.Intn(100000), len(text) - 5} {
		for _, e := range []error{errInjected, io.ErrUnexpectedEOF} {
			o := realRead(&failReader{data: text[:off], err: e})
			count("C10", "big/readerfail/"+o.class, fmt.Sprint("big", off, e))
			if o.class != "err" {
				fail("C10", "oracle", "big", label, fmt.Sprintf("ReadFile(reader failing with %v after %d bytes)", e, off), "error", o.class, "", "a reader failure far into the input was not reported", "")
			}
		}
	}
}

// fileNames lists every identifier of a parsed File: definitions, fields, enum options, constants, type references.
func fileNames(f bebop.File) []string {
	var out []string
	var typ func(t bebop.FieldType)
	typ = func(t bebop.FieldType) {
		switch {
		case t.Array != nil:
			typ(*t.Array)
		case t.Map != nil:
			out = append(out, t.Map.Key)
			typ(t.Map.Value)
		default:
			out = append(out, t.Simple)
		}
	}
	fields := func(fs []bebop.Field) {
		for _, fd := range fs {
			out = append(out, fd.Name)
			typ(fd.FieldType)
		}
	}
	for _, e := range f.Enums {
		out = append(out, e.Name)
		for _, o := range e.Options {
			out = append(out, o.Name)
		}
	}
	for _, st := range f.Structs {
		out = append(out, st.Name)
		fields(st.Fields)
	}
	for _, m := range f.Messages {
		out = append(out, m.Name)
		for _, fd := range m.Fields {
			out = append(out, fd.Name)
			typ(fd.FieldType)
		}
	}
	for _, u := range f.Unions {
		out = append(out, u.Name)
		for _, uf := range u.Fields {
			if uf.Struct != nil {
				out = append(out, uf.Struct.Name)
				fields(uf.Struct.Fields)
			}
			if uf.Message != nil {
				out = append(out, uf.Message.Name)
				for _, fd := range uf.Message.Fields {
					out = append(out, fd.Name)
					typ(fd.FieldType)
				}
			}
		}
	}
	for _, c := range f.Consts {
		out = append(out, c.Name)
	}
	return out
}

func firstDiff(a, b string) string {
	x, y := strings.Fields(a), strings.Fields(b)
	i := 0
	for i < len(x) && i < len(y) && x[i] == y[i] {
		i++
	}
	lo := i - 5
	if lo < 0 {
		lo = 0
	}
	hi := func(n int) int {
		if i+4 < n {
			return i + 4
		}
		return n
	}
	return fmt.Sprintf("first difference at token %d: expected …%s… observed …%s…", i, strings.Join(x[lo:hi(len(x))], " "), strings.Join(y[lo:hi(len(y))], " "))
}

// ---- streams ------------------------------------------------------------------------------------------

var alphabet = []string{" ", "\t", "\n", "\r", "a", "Z", "_", "0", "7", "x", "e", "f", ".", "-", ">", "<", "/", "*", "\"", "\\",
	"=", "[", "]", "{", "}", "(", ")", ",", ";", "|", "&", ":", "$", "i", "n"}

var words = []string{"struct", "message", "enum", "union", "const", "readonly", "import", "flags", "opcode", "deprecated",
	"map", "array", "int32", "string", "uint8", "A", "b", "1", "2", "0x10", "-3", "\"s\"", "\"abcd\"", "1.5", "inf", "-inf", "nan", "true",
	"{", "}", "[", "]", "(", ")", "->", ";", ",", "=", ":", "|", "&", "<<", ">>", "\n", "// c\n", "/* c */", " ", "\t"}

func exhaustive(maxLen int, rng *rand.Rand) {
	var rec func(prefix string, depth int)
	rec = func(prefix string, depth int) {
		checkText("exhaustive", []byte(prefix), "", true, rng)
		if depth == maxLen {
			return
		}
		for _, a := range alphabet {
			rec(prefix+a, depth+1)
		}
	}
	rec("", 0)
}

func wordSoup(n int, rng *rand.Rand) {
	for i := 0; i < n; i++ {
		k := 1 + rng.Intn(14)
		var b strings.Builder
		for j := 0; j < k; j++ {
			b.WriteString(words[rng.Intn(len(words))])
			if rng.Intn(3) == 0 {
				b.WriteString(" ")
			}
		}
		checkText("wordsoup", []byte(b.String()), "", true, rng)
	}
}

func mutate(text []byte, rng *rand.Rand) []byte {
	t := append([]byte(nil), text...)
	if len(t) == 0 {
		return t
	}
	switch rng.Intn(7) {
	case 5: // turn a blank into a line break, or a line break into a blank (layouts the grammar may or may not permit)
		var idx []int
		for i, c := range t {
			if c == ' ' || c == '\t' || c == '\n' {
				idx = append(idx, i)
			}
		}
		if len(idx) == 0 {
			return t
		}
		i := idx[rng.Intn(len(idx))]
		if t[i] == '\n' {
			t[i] = ' '
		} else {
			t[i] = '\n'
		}
		return t
	case 6: // insert a line break (LF or CRLF) after a punctuation character
		var idx []int
		for i, c := range t {
			switch c {
			case ',', ';', '[', ']', '{', '}', '(', ')', '=', '>', ':':
				idx = append(idx, i+1)
			}
		}
		if len(idx) == 0 {
			return t
		}
		i := idx[rng.Intn(len(idx))]
		nl := "\n"
		if rng.Intn(3) == 0 {
			nl = "\r\n"
		}
		return append(t[:i], append([]byte(nl), t[i:]...)...)
	case 0: // truncate
		return t[:rng.Intn(len(t))]
	case 1: // delete a span
		i := rng.Intn(len(t))
		j := i + 1 + rng.Intn(4)
		if j > len(t) {
			j = len(t)
		}
		return append(t[:i], t[j:]...)
	case 2: // insert a word
		i := rng.Intn(len(t) + 1)
		w := words[rng.Intn(len(words))]
		return append(t[:i], append([]byte(w), t[i:]...)...)
	case 3: // replace a byte with an alphabet symbol
		i := rng.Intn(len(t))
		t[i] = alphabet[rng.Intn(len(alphabet))][0]
		return t
	default: // duplicate a span
		i := rng.Intn(len(t))
		j := i + 1 + rng.Intn(8)
		if j > len(t) {
			j = len(t)
		}
		return append(t[:j], append(append([]byte(nil), t[i:j]...), t[j:]...)...)
	}
}

func fixtures(repo string) [][]byte {
	var out [][]byte
	for _, dir := range []string{"testdata/base", "testdata/incompatible", "testdata/invalid", "testdata/warning"} {
		ents, _ := os.ReadDir(filepath.Join(repo, dir))
		for _, e := range ents {
			if strings.HasSuffix(e.Name(), ".bop") {
				if b, err := os.ReadFile(filepath.Join(repo, dir, e.Name())); err == nil {
					out = append(out, b)
				}
			}
		}
	}
	return out
}

func isASCII(b []byte) bool {
	for _, c := range b {
		if c >= 0x80 {
			return false
		}
	}
	return true
}

func readerFailures(texts [][]byte, perText int, rng *rand.Rand) {
	for _, text := range texts {
		if len(text) == 0 {
			continue
		}
		offs := map[int]bool{0: true, len(text) - 1: true}
		if len(text) <= 400 {
			// every failure offset of a short text
			for k := 0; k < len(text); k++ {
				offs[k] = true
			}
		} else {
			// token boundaries are where a failure is most easily mistaken for the end of input: the offsets
			// right after a blank, a line end or a closing brace
			for k := 1; k < len(text); k++ {
				switch text[k-1] {
				case ' ', '\t', '\r':
					// right after a skipped blank that follows a closing brace or a semicolon: always
					j := k - 1
					for j > 0 && (text[j] == ' ' || text[j] == '\t' || text[j] == '\r') {
						j--
					}
					if text[j] == '}' || text[j] == ';' {
						offs[k] = true
					} else if rng.Intn(6) == 0 && len(offs) < 16*perText {
						offs[k] = true
					}
				case '\n', '}', ';':
					if rng.Intn(3) == 0 && len(offs) < 16*perText {
						offs[k] = true
					}
				}
			}
		}
		for len(offs) < perText && len(offs) < len(text) {
			offs[rng.Intn(len(text))] = true
		}
		for k := range offs {
			for _, e := range []error{errInjected, io.ErrClosedPipe} {
				o := realRead(&failReader{data: text[:k], err: e})
				count("C10", "readerfail/"+o.class, fmt.Sprintf("rf/%s/%d/%v", hexOf(text[:16%(len(text)+1)]), k, e))
				if o.class != "err" {
					fail("C10", "oracle", "readerfail", text[:k], fmt.Sprintf("ReadFile(reader failing with %q after %d bytes)", e, k), "err", o.short(), "", "an I/O error of the reader must surface as an error", "")
				}
				m := modelRead(text[:k], true)
				if m != "declined" && !strings.HasPrefix(m, "bad-op") && m != o.short() {
					fail("C10", "mismatch", "readerfail", text[:k], "ReadFile(failing reader)", m, o.short(), m, "model and implementation disagree under a failing reader", "")
				}
			}
		}
	}
}

func main() {
	seed := flag.Int64("seed", 1, "")
	tier := flag.String("tier", "quick", "")
	modelPath := flag.String("model", "", "")
	_ = flag.String("work", "", "")
	repo := flag.String("repo", "/repo", "")
	out := flag.String("out", "", "")
	replay := flag.String("replay", "", "")
	flag.Parse()
	model = proc.Command([]string{*modelPath}, nil, 60*time.Second)
	defer model.Close()
	rng := rand.New(rand.NewSource(*seed))
	go watchMemory()
	var genTexts [][]byte
	finish = func() {
		rules := map[string]string{
			"C10": "streams: spec (generated schemas in random layouts), fixture, exhaustive (every string over a 35-symbol alphabet up to the tier's length), wordsoup (random token sequences), mutated (fixtures and generated texts with byte/word edits), readerfail (every sampled offset x 2 error values). Each input: ReadFile outcome class vs model; success => append-a-definition oracle. distinct = distinct input byte strings",
			"C11": "spec stream: the Lean Spec prints a random well-formed schema under a random permitted layout and says which File it denotes; real ReadFile must return exactly that File (and the model's parse must too). distinct = distinct texts",
			"C16": "every accepted input of all streams: Format must succeed, its output must be accepted and denote the same File up to comment attachment; model fmt compared byte for byte. distinct = distinct accepted texts",
			"C17": "every accepted input of all streams: Format(Format(x)) == Format(x) byte for byte",
		}
		res := map[string]interface{}{"engine": "text", "seed": *seed, "tier": *tier}
		outStats := map[string]*stat{}
		for p, s := range stats {
			s.DistinctNontrivial = len(s.distinct)
			s.Rule = rules[p]
			if len(genTexts) > 0 {
				s.Samples = []string{fmt.Sprintf("%q", abbreviate(genTexts[0], 300)), fmt.Sprintf("%q", abbreviate(genTexts[len(genTexts)/2], 300))}
			}
			outStats[p] = s
		}
		res["stats"] = outStats
		res["failures"] = fails
		b, _ := json.MarshalIndent(res, "", " ")
		if *out != "" {
			if err := os.WriteFile(*out, b, 0o644); err != nil {
				fmt.Fprintln(os.Stderr, err)
				os.Exit(2)
			}
		}
		for _, p := range []string{"C10", "C11", "C16", "C17"} {
			if s := stats[p]; s != nil {
				fmt.Printf("%s: evaluations=%d distinct=%d failures=%d\n", p, s.Evaluations, s.DistinctNontrivial, s.FailuresTotal)
			}
		}
	}

	if *replay != "" {
		b, err := os.ReadFile(*replay)
		if err != nil {
			fmt.Println(err)
			os.Exit(2)
		}
		var f failure
		_ = json.Unmarshal(b, &f)
		text, _ := hex.DecodeString(strings.TrimPrefix(f.TextHex, "-"))
		fmt.Printf("replaying %s/%s on %q\n", f.Property, f.Stream, abbreviate(text, 400))
		checkText(f.Stream, text, "", true, rng)
		for _, x := range fails {
			fmt.Printf("FAIL %s %s: %s\n  expected: %s\n  observed: %s\n", x.Property, x.Kind, x.Note, x.Expected, x.Observed)
		}
		if len(fails) > 0 {
			os.Exit(1)
		}
		fmt.Println("no failure on this input with the current tree")
		return
	}

	nGen, size, nSoup, nMut, exLen, rfPer := 400, 5, 3000, 1500, 2, 6
	if *tier == "thorough" {
		nGen, size, nSoup, nMut, exLen, rfPer = 5000, 7, 60000, 30000, 3, 40
	}
	// 1. Spec: random schemas in random permitted layouts; expected File from the Spec
	for i := 0; i < nGen; i++ {
		s := *seed*1000003 + int64(i)
		mode := 0 // 0: all constructs, 1: with imports, 2: only constructs the formatter is expected to handle
		if i%5 == 4 {
			mode = 1
		} else if i%5 >= 2 {
			mode = 2
		}
		r := ask(fmt.Sprintf("gen %d %d %d", s, 1+rng.Intn(size), mode))
		parts := strings.SplitN(r, " ", 3)
		if len(parts) != 3 || parts[0] != "ok" {
			fmt.Fprintln(os.Stderr, "text engine: generator answered", abbrev(r, 200))
			os.Exit(2)
		}
		text, _ := hex.DecodeString(strings.TrimPrefix(parts[1], "-"))
		genTexts = append(genTexts, text)
		stream := "spec"
		if mode == 2 {
			stream = "spec-formatsafe"
		}
		checkText(stream, text, parts[2], true, rng)
	}
	// 2. the repository's own fixtures
	fx := fixtures(*repo)
	for _, t := range fx {
		checkText("fixture", t, "", isASCII(t), rng)
	}
	// 3. all strings over the alphabet up to a small length; random token soup
	exhaustive(exLen, rng)
	wordSoup(nSoup, rng)
	// 4. mutated fixtures and generated texts
	pool := append(append([][]byte(nil), fx...), genTexts[:min(len(genTexts), 200)]...)
	for i := 0; i < nMut; i++ {
		t := mutate(pool[rng.Intn(len(pool))], rng)
		if rng.Intn(3) == 0 {
			t = mutate(t, rng)
		}
		checkText("mutated", t, "", isASCII(t), rng)
	}
	// 4b. hand-written corners: constructs that the fixtures and the generator rarely combine, each also with CRLF
	// line ends; very long comment lines (beyond bufio's 4096-byte buffer)
	for _, c := range corners.Texts() {
		checkText("corners", []byte(c), "", isASCII([]byte(c)), rng)
		if strings.Contains(c, "\n") && !strings.Contains(c, "\r") {
			crlf := strings.ReplaceAll(c, "\n", "\r\n")
			checkText("corners", []byte(crlf), "", true, rng)
		}
	}
	// 4c. inputs beyond 1 MiB (oracle only: the number of definitions read, reader failures far into the input)
	bigInput(rng)
	// 5. reader failures at sampled offsets of valid texts
	var valid [][]byte
	// generated texts first (they carry CRLF line ends, trailing blanks and same-line layouts), then fixtures
	for _, t := range append(append([][]byte(nil), genTexts[:min(len(genTexts), 40)]...), fx...) {
		if isASCII(t) && len(valid) < 70 {
			valid = append(valid, t)
		}
	}
	readerFailures(valid, rfPer, rng)

	finish()
}
