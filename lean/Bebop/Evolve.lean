/-
  Evolve: schema evolution (forward compatibility).

  `Extends env1 env2`: `env2` is a newer version of `env1` — messages may have gained fields with fresh,
  higher indices and `deprecated` flags may differ; structs and unions are unchanged.
  `restrict env1 ty v`: the value `v` (of the newer schema) as the older schema sees it: message fields
  whose index the older schema does not know are dropped.
  `StructsStable`: the guard the byte-slice decoders need (a listed finding): the parent steps over a nested
  STRUCT by `Size()` of what it understood, so the reader's `Size()` (`gsize env1`, which skips the fields
  the reader marks deprecated) of what it decodes must equal the bytes the struct occupies on the wire.
  Structs nobody steps over by `Size()` are exempt themselves (their contents are not): the top-level
  record (`TopStable`) and a struct that is itself a union branch (the union is stepped over by its
  length prefix).
-/
import Bebop.Wire

namespace Bebop

/-- `DefExtends old new`.  Structs and unions are unchanged.  For messages the relation is stated on the
    field LOOKUP (`find?` by index — which is what the generated `switch` and `wt` both use):
    * every field the old version finds at an index, the new version finds there too, with the same type
      (the `deprecated` flag is free to differ);
    * every field the new version finds at an index `i` is either found by the old version, with the same
      type, or `i` is strictly greater than every index of the old version.

    When indices are unique within a message (the compiler enforces it; `DefOk` does not record it) this is
    the membership formulation `MsgExtendsMem` below: see `DefExtends.msg_of_mem`. -/
def DefExtends : Def → Def → Prop
  | .struct t1, .struct t2 => t1 = t2
  | .union b1, .union b2 => b1 = b2
  | .msg f1, .msg f2 => ∀ i : Nat,
      (∀ a, f1.find? (fun fd => fd.idx == i) = some a →
        ∃ b, f2.find? (fun fd => fd.idx == i) = some b ∧ b.ty = a.ty) ∧
      (∀ b, f2.find? (fun fd => fd.idx == i) = some b →
        (∃ a, f1.find? (fun fd => fd.idx == i) = some a ∧ a.ty = b.ty) ∨ (∀ a ∈ f1, a.idx < i))
  | _, _ => False

/-- The membership formulation for messages whose indices determine the field: every old field has a new
    field with the same index and type, and every new field either matches an old field or has an index
    strictly greater than every old field's index.  Decidable, for concrete schemas. -/
def MsgExtendsMem (f1 f2 : List MsgField) : Prop :=
  (∀ a ∈ f1, ∀ a' ∈ f1, a.idx = a'.idx → a.ty = a'.ty) ∧
  (∀ b ∈ f2, ∀ b' ∈ f2, b.idx = b'.idx → b.ty = b'.ty) ∧
  (∀ a ∈ f1, ∃ b ∈ f2, b.idx = a.idx ∧ b.ty = a.ty) ∧
  (∀ b ∈ f2, (∃ a ∈ f1, a.idx = b.idx ∧ a.ty = b.ty) ∨ (∀ a ∈ f1, a.idx < b.idx))

instance (f1 f2 : List MsgField) : Decidable (MsgExtendsMem f1 f2) := by
  unfold MsgExtendsMem; exact inferInstance

/-- `Extends old new`: same number of definitions, pointwise `DefExtends`. -/
def Extends : Env → Env → Prop
  | [], [] => True
  | d1 :: e1, d2 :: e2 => DefExtends d1 d2 ∧ Extends e1 e2
  | _, _ => False

mutual
/-- The value as the old schema `env1` sees it: in a message value of a message type whose old definition
    is `fds`, only the fields whose index `fds` knows are kept (restricted at the old field's type);
    everything else is kept, recursively. -/
def restrict (env1 : Env) (ty : Ty) : Val → Val
  | .scalar w n => .scalar w n
  | .str bs => .str bs
  | .guid bs => .guid bs
  | .arr vs =>
    match ty with
    | .arr t => .arr (restrictList env1 t vs)
    | _ => .arr vs
  | .map kvs =>
    match ty with
    | .map _ t => .map (restrictKVs env1 t kvs)
    | _ => .map kvs
  | .struct fs =>
    match ty with
    | .ref n =>
      match env1[n]? with
      | some (.struct tys) => .struct (restrictStruct env1 tys fs)
      | _ => .struct fs
    | _ => .struct fs
  | .msg fs =>
    match ty with
    | .ref n =>
      match env1[n]? with
      | some (.msg fds) => .msg (restrictFields env1 fds fs)
      | _ => .msg fs
    | _ => .msg fs
  | .union d v =>
    match ty with
    | .ref n =>
      match env1[n]? with
      | some (.union brs) =>
        match brs.lookup d with
        | some m => .union d (restrict env1 (.ref m) v)
        | none => .union d v
      | _ => .union d v
    | _ => .union d v
def restrictList (env1 : Env) (t : Ty) : List Val → List Val
  | [] => []
  | v :: vs => restrict env1 t v :: restrictList env1 t vs
/-- Map keys are primitives: kept as they are. -/
def restrictKVs (env1 : Env) (t : Ty) : List (Val × Val) → List (Val × Val)
  | [] => []
  | (k, v) :: kvs => (k, restrict env1 t v) :: restrictKVs env1 t kvs
def restrictStruct (env1 : Env) : List Ty → List Val → List Val
  | t :: ts, v :: vs => restrict env1 t v :: restrictStruct env1 ts vs
  | _, vs => vs
def restrictFields (env1 : Env) (fds : List MsgField) : List (Nat × Val) → List (Nat × Val)
  | [] => []
  | (i, v) :: fs =>
    match fds.find? (fun fd => fd.idx == i) with
    | some fd => (i, restrict env1 fd.ty v) :: restrictFields env1 fds fs
    | none => restrictFields env1 fds fs
end

mutual
/-- Guard for the byte-slice decoders, for a value in NESTED position (reached through `dec … ty`):
    for every struct value `s` at or below this position that the decoder reaches through `dec … (.ref n)`,
    the reader's `Size()` of what it decodes equals the bytes on the wire:
    `gsize env1 (.ref n) (restrict env1 (.ref n) s) = vsize s` (equivalently: inside such a struct no
    message field is dropped by the reader, and none that is present is marked deprecated by the reader).
    Nothing is required of messages and unions themselves.  A struct that is itself the MEMBER of a union
    is treated like a top-level struct (`TopStable`, `structsStable_union`): the union decodes its member
    last and is stepped over by its own length prefix, so the member struct's `Size()` positions nothing;
    only its contents are constrained. -/
def StructsStable (env1 : Env) (ty : Ty) : Val → Prop
  | .scalar _ _ => True
  | .str _ => True
  | .guid _ => True
  | .arr vs =>
    match ty with
    | .arr t => stableList env1 t vs
    | _ => True
  | .map kvs =>
    match ty with
    | .map _ t => stableKVs env1 t kvs
    | _ => True
  | .struct fs =>
    gsize env1 ty (restrict env1 ty (.struct fs)) = vsize (.struct fs) ∧
    match ty with
    | .ref n =>
      match env1[n]? with
      | some (.struct tys) => stableStruct env1 tys fs
      | _ => True
    | _ => True
  | .msg fs =>
    match ty with
    | .ref n =>
      match env1[n]? with
      | some (.msg fds) => stableFields env1 fds fs
      | _ => True
    | _ => True
  | .union d v =>
    match ty with
    | .ref n =>
      match env1[n]? with
      | some (.union brs) =>
        match brs.lookup d with
        | some m =>
          -- the member is the LAST thing the union decodes and the union itself is stepped over by its
          -- length prefix: a struct that IS the member is like a top-level struct (`TopStable`)
          match v with
          | .struct fs =>
            match env1[m]? with
            | some (.struct tys) => stableStruct env1 tys fs
            | _ => True
          | w => StructsStable env1 (.ref m) w
        | none => True
      | _ => True
    | _ => True
def stableList (env1 : Env) (t : Ty) : List Val → Prop
  | [] => True
  | v :: vs => StructsStable env1 t v ∧ stableList env1 t vs
def stableKVs (env1 : Env) (t : Ty) : List (Val × Val) → Prop
  | [] => True
  | (_, v) :: kvs => StructsStable env1 t v ∧ stableKVs env1 t kvs
def stableStruct (env1 : Env) : List Ty → List Val → Prop
  | t :: ts, v :: vs => StructsStable env1 t v ∧ stableStruct env1 ts vs
  | _, _ => True
/-- Only the fields the old schema knows are decoded at all. -/
def stableFields (env1 : Env) (fds : List MsgField) : List (Nat × Val) → Prop
  | [] => True
  | (i, v) :: fs =>
    (match fds.find? (fun fd => fd.idx == i) with
     | some fd => StructsStable env1 fd.ty v
     | none => True) ∧ stableFields env1 fds fs
end

/-- The guard for a record `n` that NOBODY steps over by its `Size()`: the top-level record, and the member
    of a union (`structsStable_union`).  Such a struct is not stepped over by anybody, so nothing is asked of
    its own size, only of what it contains; a message / union in that position is as in nested position. -/
def TopStable (env1 : Env) (n : Nat) : Val → Prop
  | .struct fs =>
    match env1[n]? with
    | some (.struct tys) => stableStruct env1 tys fs
    | _ => True
  | v => StructsStable env1 (.ref n) v

/-- The union case of `StructsStable`: the member `v` of branch `m` is asked exactly what a top-level record
    is asked.  A struct that is itself a union branch need not keep its size — the union decoder decodes the
    member last and is stepped over by its length prefix — only the structs nested INSIDE it must. -/
theorem structsStable_union (env1 : Env) {n : Nat} {brs : List (Nat × Nat)} {d m : Nat} (v : Val)
    (hn : env1[n]? = some (.union brs)) (hm : brs.lookup d = some m) :
    StructsStable env1 (.ref n) (.union d v) = TopStable env1 m v := by
  cases v <;> simp only [StructsStable, TopStable, hn, hm]

end Bebop
