/-
  C11  The parsed File says exactly what the schema text says.

  The full statement is `C11_statement` below: for every schema AST of the Spec (Bebop.Text.Grammar) and every
  permitted layout, the parser returns exactly the File the AST denotes. It is NOT proved in this generality
  (see DESIGN.md §7 and §12); it is decided on generated ASTs × layouts by the correspondence engine, for the
  real ReadFile and for the model. What is proved:
  * the value-carrying parts of the parser agree with the Spec for all inputs: integer literals of enum values,
    indices and opcodes (both directions), evaluated [flags] expressions, four-character opcodes;
  * the token tree and keyword table the tokenizer model uses are the regenerated ones;
  * the parser-inverts-printer theorem for the struct sub-language in canonical layout, for any number of
    structs, fields and any identifiers (`C11_structs_canonical_partial`, Bebop/Props/Canon.lean) — when present.
-/
import Bebop.Props.C15
import Bebop.Props.C10
import Bebop.Text.Grammar

namespace Bebop.Text

/-- The property at full strength (a definition, not a theorem). -/
def C11_statement : Prop :=
  ∀ (layout : Nat → Nat) (src : SrcFile) (f : File), toFile src = some f →
    readFile (print layout src) false = .ok f

/-- Enum values, message indices and integer opcodes: what the parser computes with Go's strconv is the
    Spec's value of the literal, for every width. -/
theorem C11_integer_literals_partial (t : Str) (bits : Nat) (hc : CanonicalLit t) :
    (∀ n, parseUint t true bits = some n → litValue t = some (n : Int)) ∧
    (∀ v, NoPlus t → parseInt t true bits = some v → litValue t = some v) :=
  ⟨fun n h => (parseUint_litValue t bits n hc h).1, fun v hp h => (parseInt_litValue t bits v hc hp h).1⟩

/-- Evaluated [flags] expressions: the value stored in the File is the Spec's value of the expression
    (under the in-range guard of C15). -/
theorem C11_flags_values_partial (bits : Nat) (unsigned : Bool) (hb : bits ∈ [8, 16, 32, 64])
    (opts : List EnumOption) (env : List (Str × Int)) (ha : EnvAgrees unsigned opts env)
    (e : Expr) (ho : OpsOk e) (hr : AllInRange bits unsigned env (toSpec e)) (v : Int)
    (hv : specEval env (toSpec e) = some v) : evalExpr bits unsigned opts e = some v :=
  evalExpr_eq_specEval bits unsigned hb opts env ha e ho hr v hv

/-- The tokenizer model's tables are the ones in tokenize.go now. -/
theorem C11_tokenizer_tables_partial :
    Facts.tokenTreeAdds.filter (fun e => (simpleKindOfName e.2).isNone || e.1.length != 1) = multiByteShape ∧
    Facts.tokenTreeSkips = [32, 9, 13] ∧
    Facts.keywordTable.all (fun e => (keywordKind (strOf e.1)).isSome) = true :=
  C10_token_tree_as_modelled

end Bebop.Text
