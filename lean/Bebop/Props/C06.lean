/-
  C06 — Truncated input is reported as an error, never a crash.

  Proved here: for every cut point of every valid encoding the checked byte-slice decoder returns an
  error (not a value, not a panic, not out of fuel), and the stream decoder does not return a value: its
  error latch is set.  NOT modelled: the amount of memory allocated before the error is noticed (the
  generated code calls make() with a count it has not yet checked); that clause is observed by the
  correspondence harness under resource limits and its failures are listed findings (DESIGN §8 #4, #5).
-/
import Bebop.Props.C01

namespace Bebop

/-- UnmarshalBebop on every strict prefix of a valid encoding returns a non-nil error. -/
theorem C06_unmarshal_prefix_errors (env : Env) (hE : EnvOk env) (n : Nat) (v : Val) (fuel : Nat)
    (h : wt env (.ref n) v) (hf : rank v < fuel + 1) (k : Nat) (hk : k < (enc v).length) :
    unmarshal fuel env true n ((enc v).take k) = .err := by
  cases v with
  | scalar w x =>
    simp only [wt] at h
    rcases h with ⟨_, ⟨h, _⟩ | ⟨h, _⟩ | ⟨h, _⟩ | ⟨h, _⟩ | ⟨h, _⟩⟩ <;> cases h
  | str bs => simp only [wt] at h; cases h.1
  | guid bs => simp only [wt] at h; cases h.1
  | arr vs => simp only [wt] at h; obtain ⟨_, h, _⟩ := h; cases h
  | map kvs => simp only [wt] at h; obtain ⟨_, _, h, _⟩ := h; cases h
  | struct fs =>
    simp only [wt] at h
    obtain ⟨n', tys, hn', hn, hw⟩ := h
    cases hn'
    simp only [rank] at hf
    simp only [enc] at hk ⊢
    simp [unmarshal, hn, trunc_decFields env hE fs tys fuel k hw (by omega) hk]
  | msg fs =>
    simp only [wt] at h
    obtain ⟨n', fds, hn', hn, hw, hsz⟩ := h
    cases hn'
    simp only [rank] at hf
    have hok : DefOk (.msg fds) := hE _ (List.mem_of_getElem? hn)
    match fuel, hf with
    | 0, hf => omega
    | f+1, hf =>
      simp [unmarshal, hn, trunc_msgBody env hE fs fds f k hok hw hsz (by omega) hk]
  | union d w =>
    simp only [wt] at h
    obtain ⟨n', brs, m, hn', hn, hd, hm, hw, hsz⟩ := h
    cases hn'
    simp only [rank] at hf
    match fuel, hf with
    | 0, hf => omega
    | f+1, hf =>
      simp [unmarshal, hn, trunc_unionBody env hE d w brs m f k hd hm hw hsz (by omega) hk]

theorem sleave_val (v w : Val) (s s' : RState) (h : sleave v s = (.val w, s')) : s'.err = false := by
  simp only [sleave] at h
  split at h
  · simp at h
  · simp only [Prod.mk.injEq] at h; obtain ⟨_, rfl⟩ := h; simp_all

/-- DecodeBebop on a stream that ends (EOF or I/O error) strictly inside a valid encoding never returns
    a value: the ErrorReader's latch is set and the method returns it. -/
theorem C06_decode_prefix_not_ok (env : Env) (hE : EnvOk env) (n : Nat) (v : Val) (fuel : Nat)
    (h : wt env (.ref n) v) (hf : rank v < fuel + 1) (k : Nat) (hk : k < (enc v).length) :
    ∀ w c, decodeStream (fuel+1) env n ((enc v).take k) ≠ .ok w c := by
  intro w c hcontra
  have hc : Cut { data := (enc v).take k, limits := [], err := false } (enc v) k := ⟨rfl, rfl, hk, by simp⟩
  have hb := strunc_dec env hE v (.ref n) (fuel+2) _ k h (by omega) hc
  simp only [sdec] at hb
  simp only [decodeStream] at hcontra
  obtain ⟨o, s', hr⟩ : ∃ o s', sdecRecord (fuel+1) env n { data := (enc v).take k, limits := [], err := false } = (o, s') :=
    ⟨_, _, rfl⟩
  rw [hr] at hb hcontra
  cases o with
  | ret => simp at hcontra
  | fuel => simp at hcontra
  | val w' =>
    rcases hb with hb | hb
    · simp at hb
    · -- a record method that returns a value has a clear latch, unless it is the empty struct
      simp only at hb
      simp only [sdecRecord] at hr
      cases hn : env[n]? with
      | none => rw [hn] at hr; simp at hr
      | some d =>
        rw [hn] at hr
        cases d with
        | struct tys =>
          cases tys with
          | nil =>
            -- empty struct: its encoding is empty, so there is no strict prefix
            cases v with
            | struct fs =>
              simp only [wt] at h
              obtain ⟨n', tys', hn', hn2, hw⟩ := h
              cases hn'
              rw [hn] at hn2
              cases hn2
              cases fs with
              | nil => simp [enc, encList] at hk
              | cons _ _ => simp [wtStruct] at hw
            | msg fs =>
              simp only [wt] at h; obtain ⟨n', _, hn', hn2, _⟩ := h; cases hn'; rw [hn] at hn2; cases hn2
            | union d w =>
              simp only [wt] at h; obtain ⟨n', _, _, hn', hn2, _⟩ := h; cases hn'; rw [hn] at hn2; cases hn2
            | scalar _ _ =>
              simp only [wt] at h
              rcases h with ⟨_, ⟨h, _⟩ | ⟨h, _⟩ | ⟨h, _⟩ | ⟨h, _⟩ | ⟨h, _⟩⟩ <;> cases h
            | str _ => simp only [wt] at h; cases h.1
            | guid _ => simp only [wt] at h; cases h.1
            | arr _ => simp only [wt] at h; obtain ⟨_, h, _⟩ := h; cases h
            | map _ => simp only [wt] at h; obtain ⟨_, _, h, _⟩ := h; cases h
          | cons t tys =>
            simp only at hr
            split at hr
            · split at hr <;> simp_all
            · simp at hr
            · simp at hr
        | msg fds =>
          simp only at hr
          have := sdecMsgLoop_val _ _ _ _ _ _ _ hr
          rw [this] at hb; cases hb
        | union brs =>
          simp only at hr
          split at hr
          · have := sleave_val _ _ _ _ hr; rw [this] at hb; cases hb
          · split at hr
            · have := sleave_val _ _ _ _ hr; rw [this] at hb; cases hb
            · simp at hr
            · simp at hr

/-- Non-vacuity: every one of the 94 cut points of the example encoding. -/
example (k : Nat) (hk : k < 94) : unmarshal 20 exEnv true 3 ((enc exVal).take k) = .err :=
  C06_unmarshal_prefix_errors exEnv exEnv_ok 3 exVal 20 exVal_wt (by decide) k
    (by have : (enc exVal).length = 94 := by decide
        omega)

/-- The model treats an enum as a scalar of its base width everywhere (this is what the length checks that make a truncated enum field an error instead of an index panic rests on). The
    regenerated fact says File.fixedSizes does so for EVERY enum, imported ones included (loop over f.Enums with
    the single statement `out[en.Name] = fixedSizeTypes[en.SimpleType]`). -/
theorem C06_enum_sizes_as_modelled : Facts.enumFixedSizeRule = "base-width" := by decide

end Bebop
