/-
  C11 / C16 / C17 on the struct-only sub-language — unbounded: EVERY schema of the sub-language (any number
  of structs, any number of fields, any identifiers), through the real tokenizer, parser and formatter
  models (`readFile`, `format`) with the fuel they supply themselves.

  Definitions (Bebop/Proofs/Canon/Defs.lean, Bebop/Proofs/Canon/Lexer.lean):
  * `CStruct`: a name and a list of fields (type name, field name);
  * `IdentOk s`: `s` is an ASCII letter followed by ASCII letters, digits, underscores (`identBytes`) and the
    tokenizer's `keywordKind` (a lookup in the regenerated `Facts.keywordTable`) does not make it a keyword;
    `CStructOk s`: the struct name and every type / field name are `IdentOk`;
  * `canonText ss`: `struct Name {\n` `\tType field;\n`… `}\n` per struct, one empty line between structs
    (the formatter's own output style; `canonText [] = []`);
  * `fileOf ss`: the `File` whose `structs` are the corresponding `Struct`s (no comment, opCode 0, not
    readonly, fields `FT.simple ty` without comment / tags / deprecation) and whose other components are empty;
  * `laidOut w ss`: the same token sequence written with arbitrary runs of blanks (space, tab, CR) `w i j k`
    before / between / after the tokens of every line (see the slot table in Defs.lean), every line break of
    the canonical text kept as exactly one `\n`; `LayOk w`: all runs are blanks, and the runs between
    `struct` and the name and between a field's type and name are non-empty. `canonText ss` is
    `laidOut canonLay ss`.

  Proof architecture: the byte level is confined to `Canon.lex_file` (the tokenizer delivers every laid-out
  text as exactly `fileToks ss` and then ends cleanly, `Canon.Lex`); parser and formatter are then followed
  on that token list by induction on structs and fields, with explicit fuel accounting
  (`Canon.laidOut_len`: the text is long enough for the `2·|text| + 4` fuel to suffice).
-/
import Bebop.Proofs.Canon.Parse
import Bebop.Proofs.Canon.Fmt
import Bebop.Proofs.Canon.ParseX
import Bebop.Proofs.Canon.FmtX
import Bebop.Proofs.Canon.Embed
import Bebop.Proofs.Canon.Check

namespace Bebop.Text
open Canon

/-- C11 (sub-language): the parser, through the tokenizer model, returns exactly the `File` the canonical
    text denotes. -/
theorem C11_structs_canonical_partial (ss : List CStruct) (h : ∀ s ∈ ss, CStructOk s) :
    readFile (canonText ss) false = .ok (fileOf ss) := by
  rw [← laidOut_canon]
  exact readFile_laidOut ss canonLay canonLay_ok h

/-- C17 (sub-language): canonical text is a fixpoint of the formatter. -/
theorem C17_structs_canonical_partial (ss : List CStruct) (h : ∀ s ∈ ss, CStructOk s) :
    format (canonText ss) = some (canonText ss) := by
  conv => lhs; rw [← laidOut_canon]
  exact format_laidOut ss canonLay canonLay_ok h

/-- C16 (sub-language): formatting canonical text preserves its meaning. -/
theorem C16_structs_canonical_partial (ss : List CStruct) (h : ∀ s ∈ ss, CStructOk s) :
    ∃ out, format (canonText ss) = some out ∧ readFile out false = .ok (fileOf ss) :=
  ⟨canonText ss, C17_structs_canonical_partial ss h, C11_structs_canonical_partial ss h⟩

/-- C17 (sub-language): formatting canonical text is idempotent. -/
theorem C17_structs_canonical_idempotent_partial (ss : List CStruct) (h : ∀ s ∈ ss, CStructOk s) :
    format (canonText ss) >>= format = format (canonText ss) := by
  rw [C17_structs_canonical_partial ss h]
  exact C17_structs_canonical_partial ss h

/-- C11 / C16 for every layout: whatever the horizontal layout, the formatter emits the canonical text and
    the parser returns the `File` the schema denotes. -/
theorem C16_structs_layout_partial (w : CLay) (hw : LayOk w) (ss : List CStruct) (h : ∀ s ∈ ss, CStructOk s) :
    format (laidOut w ss) = some (canonText ss) ∧ readFile (laidOut w ss) false = .ok (fileOf ss) :=
  ⟨format_laidOut ss w hw h, readFile_laidOut ss w hw h⟩

/-- C16 + C17 for every layout: the formatter's output parses to the same `File` as its input, and is a
    fixpoint of the formatter (so formatting is idempotent on every laid-out text). -/
theorem C16_C17_structs_layout_partial (w : CLay) (hw : LayOk w) (ss : List CStruct) (h : ∀ s ∈ ss, CStructOk s) :
    ∃ out, format (laidOut w ss) = some out ∧ readFile out false = readFile (laidOut w ss) false ∧
      format out = some out ∧ (format (laidOut w ss) >>= format) = format (laidOut w ss) := by
  refine ⟨canonText ss, format_laidOut ss w hw h, ?_, C17_structs_canonical_partial ss h, ?_⟩
  · rw [C11_structs_canonical_partial ss h, readFile_laidOut ss w hw h]
  · rw [format_laidOut ss w hw h]
    exact C17_structs_canonical_partial ss h

/-- The canonical text is the laid-out text of the canonical layout, and that layout is admissible. -/
theorem canonText_is_laidOut (ss : List CStruct) : canonText ss = laidOut canonLay ss ∧ LayOk canonLay :=
  ⟨(laidOut_canon ss).symm, canonLay_ok⟩


/-! ## The extended sub-language (Bebop/Proofs/Canon/Lang.lean)

A schema `CFile` is a list of top-level definitions `CTop` = `// doc` lines + a `CDef`:
* `struct` (optional `[opcode(…)]` line, optional `readonly`), fields `Type name;` with field types
  `Name`, `array[T]`, `map[Key, V]` (nested) each with any number of `[]` suffixes, an optional
  `[deprecated("msg")]` line, `// doc` lines, and an optional trailing `// comment`;
* `message` (optional `[opcode(…)]`), fields `idx -> Type name;` (decimal index 1 … 255, distinct), with
  `[deprecated]` / doc lines;
* `enum` with optional base type `: uint8` … and optional `[flags]` line, members `Name = literal;` (decimal,
  `0x…`, negative literals that fit the base type) — in a `[flags]` enum `Name = expression;` over literals,
  earlier members, `|`, `&`, `<<`, `>>` and parentheses (value: the model's own `parseExpr` / `evalExpr`, which
  must succeed) — with `[deprecated]` / doc lines;
* `union` (optional `[opcode(…)]`), members `idx -> struct Name { … }` / `idx -> message Name { … }`
  (index 0 … 255, distinct) with their bodies indented one more tab, with `[deprecated]` / doc lines;
* `const type name = literal;` for integer literals (integer / float types), float literals `[-]d+.d+`, `inf`,
  `-inf`, `nan` (float types), `true` / `false`, plain strings (including the `go_package` constant, which sets
  `File.goPackage`), guids;
* `import "path"`.
`CFileOkP f` is its well-formedness for the parser theorems (identifiers, literals that the parser accepts,
distinct indices, doc lines without CR / LF — inside struct / message / union bodies they may be tag comments
`[tag(key)]` / `[tag(key:"plain value")]`, which the denotation turns into `tags` — no doc lines on an import,
and no doc lines directly after a constant: finding F1); `CFileOk f` moreover excludes trailing comments after
message fields, which the formatter moves (finding F2): it is the hypothesis of the C16 / C17 theorems.
`cfileOkB` / `cfileOkPB` (Bebop/Proofs/Canon/Check.lean) are executable checkers with soundness lemmas.
`denote f` is the `File` it denotes (definitions grouped by kind in source order; numbers evaluated with
the model's `strconv` functions; doc lines joined by line breaks as `comment`).
`canonTextF f` is its canonical text (`= fileText false f`, spelled out construct by construct in Lang.lean);
`laidOutF w f` is the same token sequence with the run of blanks `w k` in front of the k-th token (and after
the last one); `LayoutOk w (fileLex false f)`: every run consists of blanks (space, tab, CR) and is non-empty
wherever the canonical text has a blank. Line breaks are tokens and stay where the canonical text has them;
`//` comments extend to their line break.

Proof architecture: `Canon.lex_render` (Gen.lean) — the tokenizer delivers every admissible layout of a
well-formed lexeme list as exactly its tokens; `Canon.fileLex_wf` (LangWF.lean) — the lexeme list of a
well-formed schema is well-formed; ParseX.lean / FmtX.lean follow `readFile` / `format` on that token list
by induction over definitions, fields, types, with explicit fuel accounting. -/

/-- C11 (extended sub-language, every layout): the parser returns exactly the denoted `File`. -/
theorem C11_schema_layout_partial (f : CFile) (hf : CFileOk f) (w : Nat → List Byte)
    (hw : LayoutOk w (fileLex false f)) : readFile (laidOutF w f) false = .ok (denote f) :=
  readFile_schema f hf.1 w hw

/-- C11 for the larger language of the parser theorems (`CFileOkP`): moreover trailing `// comments` after
    message fields, which the parser skips (the formatter moves them — finding F2 — so the C16 / C17 theorems
    exclude them). -/
theorem C11_schema_layout_trailing_partial (f : CFile) (hf : CFileOkP f) (w : Nat → List Byte)
    (hw : LayoutOk w (fileLex false f)) : readFile (laidOutF w f) false = .ok (denote f) :=
  readFile_schema f hf w hw

/-- … and for its canonical spelling. -/
theorem C11_schema_canonical_trailing_partial (f : CFile) (hf : CFileOkP f) :
    readFile (canonTextF f) false = .ok (denote f) := by
  rw [canonTextF_eq]
  exact readFile_schema f hf _ (canonW_layoutOk f hf)

/-- C16 (extended sub-language, every layout): the formatter emits the canonical text. -/
theorem C16_schema_layout_partial (f : CFile) (hf : CFileOk f) (w : Nat → List Byte)
    (hw : LayoutOk w (fileLex false f)) : format (laidOutF w f) = some (canonTextF f) :=
  format_schema f hf w hw

/-- C11 (extended sub-language): the canonical text parses to the denoted `File`. -/
theorem C11_schema_canonical_partial (f : CFile) (hf : CFileOk f) :
    readFile (canonTextF f) false = .ok (denote f) := by
  rw [canonTextF_eq]
  exact readFile_schema f hf.1 _ (canonW_layoutOk f hf.1)

/-- C17 (extended sub-language): the canonical text is a fixpoint of the formatter. -/
theorem C17_schema_canonical_partial (f : CFile) (hf : CFileOk f) :
    format (canonTextF f) = some (canonTextF f) := by
  conv => lhs; rw [canonTextF_eq]
  exact format_schema f hf _ (canonW_layoutOk f hf.1)

/-- C16 + C17 (extended sub-language, every layout): formatting preserves the meaning, its output is a
    fixpoint, and formatting is idempotent. -/
theorem C16_C17_schema_layout_partial (f : CFile) (hf : CFileOk f) (w : Nat → List Byte)
    (hw : LayoutOk w (fileLex false f)) :
    ∃ out, format (laidOutF w f) = some out ∧ readFile out false = readFile (laidOutF w f) false ∧
      readFile out false = .ok (denote f) ∧ format out = some out ∧
      (format (laidOutF w f) >>= format) = format (laidOutF w f) := by
  refine ⟨canonTextF f, format_schema f hf w hw, ?_, C11_schema_canonical_partial f hf,
    C17_schema_canonical_partial f hf, ?_⟩
  · rw [C11_schema_canonical_partial f hf, readFile_schema f hf.1 w hw]
  · rw [format_schema f hf w hw]
    exact C17_schema_canonical_partial f hf

/-- C16 (extended sub-language): formatting the canonical text preserves its meaning. -/
theorem C16_schema_canonical_partial (f : CFile) (hf : CFileOk f) :
    ∃ out, format (canonTextF f) = some out ∧ readFile out false = .ok (denote f) :=
  ⟨canonTextF f, C17_schema_canonical_partial f hf, C11_schema_canonical_partial f hf⟩

/-- C17 (extended sub-language): formatting the canonical text is idempotent. -/
theorem C17_schema_idempotent_partial (f : CFile) (hf : CFileOk f) :
    format (canonTextF f) >>= format = format (canonTextF f) := by
  rw [C17_schema_canonical_partial f hf]
  exact C17_schema_canonical_partial f hf

/-- The canonical text, construct by construct (see `fileText`, `defText`, … in Lang.lean). -/
theorem canonTextF_spelled_out (f : CFile) : canonTextF f = fileText false f := canonTextF_eq_fileText f

/-- The canonical text is the laid-out text of its own (admissible) layout. -/
theorem canonTextF_is_laidOut (f : CFile) (hf : CFileOk f) :
    canonTextF f = laidOutF (canonW (fileLex false f)) f ∧ LayoutOk (canonW (fileLex false f)) (fileLex false f) :=
  ⟨canonTextF_eq f, canonW_layoutOk f hf.1⟩

/-- The struct-only sub-language of the first part is a special case of the extended one: same canonical
    text, same denoted `File`, well-formedness carries over — so `C11_structs_canonical_partial`,
    `C17_structs_canonical_partial` … also follow from the `…_schema_…` theorems. -/
theorem structs_are_schemas (ss : List CStruct) (h : ∀ s ∈ ss, CStructOk s) :
    CFileOk (ss.map CTop.ofStruct) ∧ canonTextF (ss.map CTop.ofStruct) = canonText ss ∧
    denote (ss.map CTop.ofStruct) = fileOf ss :=
  ⟨cfileOk_ofStructs ss h, canonTextF_ofStructs ss, denote_ofStructs ss⟩

/-- `C11_structs_canonical_partial` once more, as an instance of the extended theorem. -/
theorem C11_structs_canonical_from_schema (ss : List CStruct) (h : ∀ s ∈ ss, CStructOk s) :
    readFile (canonText ss) false = .ok (fileOf ss) := by
  have := C11_schema_canonical_partial (ss.map CTop.ofStruct) (cfileOk_ofStructs ss h)
  rwa [canonTextF_ofStructs, denote_ofStructs] at this

/-- `C17_structs_canonical_partial` once more, as an instance of the extended theorem. -/
theorem C17_structs_canonical_from_schema (ss : List CStruct) (h : ∀ s ∈ ss, CStructOk s) :
    format (canonText ss) = some (canonText ss) := by
  have := C17_schema_canonical_partial (ss.map CTop.ofStruct) (cfileOk_ofStructs ss h)
  rwa [canonTextF_ofStructs] at this

/-! ## Non-vacuity -/

/-- A schema that uses every construct of the extended sub-language at least once. -/
def exSchema : CFile := [
  { d := .import_ (strOf "common.bop") },
  { doc := [strOf " the package"], d := .const (strOf "go_package") (.str (strOf "example/pkg")) },
  { d := .const (strOf "Limit") (.int (strOf "int32") (strOf "-5")) },
  { d := .const (strOf "Debug") (.bool true) },
  { d := .const (strOf "Quiet") (.bool false) },
  { d := .const (strOf "Ratio") (.float (strOf "float32") true (strOf "12") (strOf "05")) },
  { d := .const (strOf "Top") (.inf (strOf "float64")) },
  { d := .const (strOf "Bottom") (.negInf (strOf "float64")) },
  { d := .const (strOf "Unknown") (.nan (strOf "float32")) },
  { d := .const (strOf "Id") (.guid (strOf "01234567-89ab-cdef-0123-456789abcdef")) },
  { d := .struct (some (.str (strOf "ABCD"))) false (strOf "Empty") [] },
  { doc := [strOf " A point.", strOf " Second line."],
    d := .struct (some (.num (strOf "0x1234"))) true (strOf "Point") [
      { doc := [strOf " horizontal", strOf "[tag(json)]", strOf "[tag(db:\"col x\")]"], dep := none,
        ty := .name (strOf "int32") 0, name := strOf "x",
        trail := some (strOf " pixels") },
      { dep := some (strOf "use x"), ty := .name (strOf "float32") 2, name := strOf "grid" },
      { dep := none, ty := .array (.name (strOf "Point") 0) 0, name := strOf "kids" },
      { dep := none, ty := .map (strOf "string") (.map (strOf "guid") (.name (strOf "byte") 1) 0) 0,
        name := strOf "index" }] },
  { doc := [strOf " a message"],
    d := .message none (strOf "Msg") [
      { dep := none, idx := strOf "1", ty := .name (strOf "string") 0, name := strOf "title" },
      { doc := [strOf " old"], dep := some (strOf "gone"), idx := strOf "200", ty := .name (strOf "Point") 1,
        name := strOf "pts" }] },
  { d := .enum false (strOf "Color") (some (strOf "int16")) [
      { dep := none, name := strOf "Red", val := [.lit (strOf "1")] },
      { doc := [strOf " hex"], dep := none, name := strOf "Green", val := [.lit (strOf "0x10")] },
      { dep := some (strOf "no"), name := strOf "Blue", val := [.lit (strOf "-3")] }] },
  { doc := [strOf " bits"],
    d := .enum true (strOf "Perm") none [
      { dep := none, name := strOf "Read", val := [.lit (strOf "1")] },
      { dep := none, name := strOf "Write", val := [.lit (strOf "0x2")] },
      { dep := none, name := strOf "All", val := [.ref (strOf "Read"), .bar, .ref (strOf "Write")] },
      { dep := none, name := strOf "Big", val := [.lp, .ref (strOf "Read"), .shl, .lit (strOf "4"), .rp, .amp,
                                                   .lp, .lp, .lit (strOf "0xff"), .rp, .rp, .shr, .lit (strOf "1")] }] },
  { d := .union (some (.num (strOf "7"))) (strOf "Shape") [
      .struct [strOf " a circle"] none (strOf "1") (strOf "Circle") [
        { doc := [strOf " radius"], dep := none, ty := .name (strOf "float64") 0, name := strOf "r",
          trail := some (strOf "mm") }],
      .message [] (some (strOf "old")) (strOf "2") (strOf "Poly") [
        { dep := none, idx := strOf "1", ty := .name (strOf "Point") 1, name := strOf "pts" }]] }]



/-- kernel evaluation of the executable well-formedness check (small closed data: identifiers, literals,
    table lookups — not the tokenizer / parser / formatter models) -/
theorem exSchema_ok : CFileOk exSchema := cfileOkB_sound (by decide)

/-- A non-canonical layout: two or three blanks (space, tab, CR) in front of every token. -/
def exLayout : Nat → List Byte := fun k =>
  if k % 3 == 0 then [32, 9] else if k % 3 == 1 then [13, 32] else [32]

theorem exLayout_ok : LayoutOk exLayout (fileLex false exSchema) := by
  refine ⟨fun k c hc => ?_, fun k lx _ _ => ?_⟩
  · simp only [exLayout] at hc
    split at hc
    · simp at hc; rcases hc with rfl | rfl <;> decide
    · split at hc
      · simp at hc; rcases hc with rfl | rfl <;> decide
      · simp at hc; subst hc; decide
  · simp only [exLayout]
    split
    · simp
    · split <;> simp

/-- A schema of the larger language of the parser theorems: a trailing comment after a message field. -/
def exSchemaP : CFile := [
  { d := .message none (strOf "Msg") [
      { dep := none, idx := strOf "1", ty := .name (strOf "string") 0, name := strOf "title",
        trail := some (strOf " shown in the header") },
      { dep := none, idx := strOf "2", ty := .name (strOf "int32") 0, name := strOf "size" }] }]

theorem exSchemaP_ok : CFileOkP exSchemaP := cfileOkPB_sound (by decide)

example : readFile (canonTextF exSchemaP) false = .ok (denote exSchemaP) :=
  C11_schema_canonical_trailing_partial exSchemaP exSchemaP_ok

/-- Non-vacuity: the theorems instantiated at `exSchema` / `exLayout` (nothing is evaluated here). -/
example : readFile (laidOutF exLayout exSchema) false = .ok (denote exSchema) :=
  C11_schema_layout_partial exSchema exSchema_ok exLayout exLayout_ok
example : format (laidOutF exLayout exSchema) = some (canonTextF exSchema) :=
  C16_schema_layout_partial exSchema exSchema_ok exLayout exLayout_ok
example : readFile (canonTextF exSchema) false = .ok (denote exSchema) :=
  C11_schema_canonical_partial exSchema exSchema_ok
example : format (canonTextF exSchema) = some (canonTextF exSchema) :=
  C17_schema_canonical_partial exSchema exSchema_ok


end Bebop.Text
