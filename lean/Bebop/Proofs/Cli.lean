/- Proofs about the command-line tools' file-system programs (Bebop.Text.Cli). -/
import Bebop.Text.Cli

namespace Bebop.Cli

/-- After the rename only clean-up is left: nothing can fail any more. -/
theorem exec_cleanup (data : Bytes) : ∀ (rest : List Step) (sched : List Outcome) (fs : FS) (failed : Bool),
    rest.all (fun t => t.deferred || t.act = .benign) = true →
    exec data rest sched fs failed = { fs := fs, exit := .zero, failed := failed } := by
  intro rest
  induction rest with
  | nil => intro sched fs failed _; simp [exec]
  | cons s rest ih =>
    intro sched fs failed h
    simp only [List.all_cons, Bool.and_eq_true] at h
    have h1 : (s.deferred || decide (s.act = .benign)) = true := h.1
    unfold exec
    rw [if_pos (by simpa using h1)]
    exact ih sched fs failed h.2

def PhaseInv (ph : Nat) (data : Bytes) (fs : FS) : Prop :=
  match ph with
  | 1 => fs.tmp = some []
  | 2 => fs.tmp = some data
  | _ => True

theorem safe_exec (data : Bytes) : ∀ (prog : List Step) (ph : Nat) (sched : List Outcome) (fs : FS),
    safeTail ph prog = true → PhaseInv ph data fs →
    Preserves fs.target data (exec data prog sched fs false) := by
  intro prog
  induction prog with
  | nil => intro ph sched fs h; simp [safeTail] at h
  | cons s rest ih =>
    intro ph sched fs h hinv
    unfold safeTail at h
    unfold exec
    by_cases hd : s.deferred = true
    · rw [if_pos hd] at h
      rw [if_pos (by simp [hd])]
      simp only [Bool.and_eq_true] at h
      exact ih ph sched fs h.2 hinv
    · rw [if_neg hd] at h
      by_cases hb : s.act = .benign
      · rw [if_pos hb] at h
        rw [if_pos (by simp [hb])]
        exact ih ph sched fs h hinv
      · rw [if_neg hb] at h
        rw [if_neg (by simp [hd, hb])]
        by_cases hc : s.checked = true
        · simp only [hc, Bool.not_true, Bool.false_eq_true, if_false] at h
          -- case analysis on the phase and the act
          rcases sched with _ | ⟨o, sched'⟩
          · -- schedule exhausted: the call succeeds
            simp only [nextOutcome]
            match ph, hact : s.act, h, hinv with
            | 0, .read, h, hinv =>
              have := ih 0 [] (applyOk .read data fs) h trivial
              simpa [applyOk] using this
            | 0, .createTemp, h, hinv =>
              have := ih 1 [] (applyOk .createTemp data fs) h (by simp [PhaseInv, applyOk])
              simpa [applyOk] using this
            | 1, .writeTemp, h, hinv =>
              have := ih 2 [] (applyOk .writeTemp data fs) h (by simp [PhaseInv, applyOk] at hinv ⊢; simp [hinv])
              simpa [applyOk] using this
            | 2, .tempMeta, h, hinv =>
              have := ih 2 [] (applyOk .tempMeta data fs) h (by simpa [PhaseInv, applyOk] using hinv)
              simpa [applyOk] using this
            | 2, .rename, h, hinv =>
              rw [exec_cleanup data rest [] _ false h]
              simp [PhaseInv] at hinv
              simp [Preserves, applyOk, hinv]
          · cases o with
            | ok =>
              simp only [nextOutcome]
              match ph, hact : s.act, h, hinv with
              | 0, .read, h, hinv =>
                have := ih 0 sched' (applyOk .read data fs) h trivial
                simpa [applyOk] using this
              | 0, .createTemp, h, hinv =>
                have := ih 1 sched' (applyOk .createTemp data fs) h (by simp [PhaseInv, applyOk])
                simpa [applyOk] using this
              | 1, .writeTemp, h, hinv =>
                have := ih 2 sched' (applyOk .writeTemp data fs) h (by simp [PhaseInv, applyOk] at hinv ⊢; simp [hinv])
                simpa [applyOk] using this
              | 2, .tempMeta, h, hinv =>
                have := ih 2 sched' (applyOk .tempMeta data fs) h (by simpa [PhaseInv, applyOk] using hinv)
                simpa [applyOk] using this
              | 2, .rename, h, hinv =>
                rw [exec_cleanup data rest sched' _ false h]
                simp [PhaseInv] at hinv
                simp [Preserves, applyOk, hinv]
            | fail n =>
              simp only [nextOutcome, hc, if_true]
              match ph, hact : s.act, h with
              | 0, .read, _ => simp [Preserves, applyPartial]
              | 0, .createTemp, _ => simp [Preserves, applyPartial]
              | 1, .writeTemp, _ => simp [Preserves, applyPartial]
              | 2, .tempMeta, _ => simp [Preserves, applyPartial]
              | 2, .rename, _ => simp [Preserves, applyPartial]
            | crash n =>
              simp only [nextOutcome]
              match ph, hact : s.act, h with
              | 0, .read, _ => simp [Preserves, applyPartial]
              | 0, .createTemp, _ => simp [Preserves, applyPartial]
              | 1, .writeTemp, _ => simp [Preserves, applyPartial]
              | 2, .tempMeta, _ => simp [Preserves, applyPartial]
              | 2, .rename, _ => simp [Preserves, applyPartial]
        · simp [hc] at h

/-- Every program of the safe shape keeps the target intact on every failing run and installs exactly the
    produced bytes on every run in which nothing failed. -/
theorem safe_preserves (prog : List Step) (h : SafeProg prog = true) (data : Bytes) (sched : List Outcome) (fs : FS) :
    Preserves fs.target data (exec data prog sched fs false) :=
  safe_exec data prog 0 sched fs h trivial

end Bebop.Cli
