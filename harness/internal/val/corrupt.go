package val

import (
	"encoding/binary"
	"fmt"
	"math/rand"
)

// Corruption is a damaged byte string and how it was made.
type Corruption struct {
	Kind  string // truncate, flip, u32small, u32huge, u32len, splice, insert, delete, random
	Note  string
	Bytes []byte
}

var hugeU32 = []uint32{0xffffffff, 0x7fffffff, 0x80000000, 0xfffffffb, 0x10000000, 0x01000000, 0x00100000, 0x00010000}

// Corrupt damages b in one random way. other is a second encoding used for splices (may be nil).
// allowHuge permits count overwrites that may provoke giant allocations.
func Corrupt(rng *rand.Rand, b, other []byte, allowHuge bool) Corruption {
	cp := func() []byte { return append([]byte(nil), b...) }
	for {
		switch k := rng.Intn(10); k {
		case 0:
			if len(b) == 0 {
				continue
			}
			at := rng.Intn(len(b))
			return Corruption{"truncate", fmt.Sprintf("at %d", at), cp()[:at]}
		case 1:
			if len(b) == 0 {
				continue
			}
			at := rng.Intn(len(b))
			out := cp()
			switch r := rng.Intn(4); {
			case r == 0:
				out[at] = 0
			case !allowHuge:
				out[at] ^= 1 << uint(rng.Intn(3))
			case r == 1:
				out[at] = 0xff
			case r == 2:
				out[at] ^= 1 << uint(rng.Intn(8))
			default:
				out[at] = byte(rng.Intn(256))
			}
			return Corruption{"flip", fmt.Sprintf("at %d", at), out}
		case 2, 3:
			if len(b) < 4 {
				continue
			}
			at := rng.Intn(len(b) - 3)
			out := cp()
			v := uint32(rng.Intn(6))
			binary.LittleEndian.PutUint32(out[at:], v)
			return Corruption{"u32small", fmt.Sprintf("at %d = %d", at, v), out}
		case 4:
			if len(b) < 4 || !allowHuge {
				continue
			}
			at := rng.Intn(len(b) - 3)
			out := cp()
			v := hugeU32[rng.Intn(len(hugeU32))]
			binary.LittleEndian.PutUint32(out[at:], v)
			return Corruption{"u32huge", fmt.Sprintf("at %d = %#x", at, v), out}
		case 5:
			if len(b) < 4 {
				continue
			}
			at := rng.Intn(len(b) - 3)
			out := cp()
			v := uint32(len(b) - at + rng.Intn(9) - 4)
			binary.LittleEndian.PutUint32(out[at:], v)
			return Corruption{"u32len", fmt.Sprintf("at %d = %d", at, v), out}
		case 6:
			if len(other) == 0 || len(b) == 0 {
				continue
			}
			i := rng.Intn(len(b) + 1)
			j := rng.Intn(len(other) + 1)
			out := append(cp()[:i], other[j:]...)
			return Corruption{"splice", fmt.Sprintf("b[:%d]+other[%d:]", i, j), out}
		case 7:
			at := rng.Intn(len(b) + 1)
			n := 1 + rng.Intn(4)
			ins := make([]byte, n)
			if allowHuge {
				rng.Read(ins)
			} else {
				for i := range ins {
					ins[i] = byte(rng.Intn(4))
				}
			}
			out := append(append(cp()[:at:at], ins...), b[at:]...)
			return Corruption{"insert", fmt.Sprintf("%d bytes at %d", n, at), out}
		case 8:
			if len(b) < 2 {
				continue
			}
			at := rng.Intn(len(b) - 1)
			n := 1 + rng.Intn(minInt(4, len(b)-at))
			out := append(cp()[:at:at], b[at+n:]...)
			return Corruption{"delete", fmt.Sprintf("%d bytes at %d", n, at), out}
		default:
			return RandomBytes(rng, allowHuge)
		}
	}
}

// RandomBytes is an unstructured random string. It is assembled from pieces (small
// little-endian u32s, small single bytes, zero runs and, when wild, arbitrary bytes) so that
// length prefixes stay plausible often enough for decoders to get past the first field.
func RandomBytes(rng *rand.Rand, wild bool) Corruption {
	var out []byte
	pieces := rng.Intn(12)
	for i := 0; i < pieces; i++ {
		switch r := rng.Intn(20); {
		case r < 9:
			var u [4]byte
			binary.LittleEndian.PutUint32(u[:], uint32(rng.Intn(7)))
			out = append(out, u[:]...)
		case r < 14:
			out = append(out, byte(rng.Intn(6)))
		case r < 16:
			out = append(out, make([]byte, 1+rng.Intn(4))...)
		case wild:
			b := make([]byte, 1+rng.Intn(6))
			rng.Read(b)
			out = append(out, b...)
		default:
			out = append(out, byte(rng.Intn(256)), 0, 0)
		}
	}
	return Corruption{"random", fmt.Sprintf("%d bytes", len(out)), out}
}

func minInt(a, b int) int {
	if a < b {
		return a
	}
	return b
}
