#!/usr/bin/env python3
"""Fill the generated tables of DESIGN.md (between the `<!-- gen:NAME -->` markers) from known_findings.jsonl,
the fix commits of /repo, seeded/results.json and tools/design_props.md."""
import json, os, re, subprocess
ROOT = os.path.dirname(os.path.dirname(os.path.abspath(__file__)))

def block(name, body):
    return "<!-- gen:%s -->\n%s\n<!-- /gen:%s -->" % (name, body.rstrip("\n"), name)

def fix_table():
    out = subprocess.run(["git", "-C", "/repo", "log", "--reverse", "--format=%h\t%s", "343838d..HEAD"],
                         stdout=subprocess.PIPE, text=True).stdout.strip().split("\n")
    known = [json.loads(l) for l in open(os.path.join(ROOT, "known_findings.jsonl")) if l.strip() and not l.startswith("#")]
    by_commit = {}
    for k in known:
        if k.get("kind") == "fixed":
            by_commit.setdefault(k["commit"][:7], []).append(k)
    rows = ["| commit | properties | what failed before the repair |", "|---|---|---|"]
    for l in out:
        if not l.strip():
            continue
        h, s = l.split("\t", 1)
        ks = by_commit.get(h[:7], [])
        props = ", ".join(sorted({k["property"] for k in ks})) or "—"
        what = "; ".join(k["what"] for k in ks) or s
        rows.append("| `%s` %s | %s | %s |" % (h, s.replace("|", "\\|"), props, what.replace("|", "\\|")))
    return "\n".join(rows)

def kf_table():
    rows = ["| id | property | what fails | how it is matched |", "|---|---|---|---|"]
    for l in open(os.path.join(ROOT, "known_findings.jsonl")):
        if not l.strip() or l.startswith("#"):
            continue
        k = json.loads(l)
        if k.get("kind") != "known":
            continue
        rows.append("| %s | %s | %s | `%s` |" % (k["id"], k["property"], k["what"].replace("|", "\\|"),
                                               json.dumps(k.get("match", {})).replace("|", "\\|")))
    return "\n".join(rows)

def short(t, n):
    t = " ".join(t.split())
    return t if len(t) <= n else t[:n].rsplit(" ", 1)[0] + " …"

def seed_table():
    p = os.path.join(ROOT, "seeded", "results.json")
    if not os.path.exists(p):
        return "(not run yet)"
    res = json.load(open(p))
    rows = ["| seeded change | what it does (meta.json) | needs | check | outcome |", "|---|---|---|---|---|"]
    caught = missed = 0
    for d in sorted(res):
        e = res[d]
        meta = {}
        mp = os.path.join(ROOT, "seeded", d, "meta.json")
        if os.path.exists(mp):
            try:
                meta = json.load(open(mp))
            except Exception:
                pass
        if not e.get("applies"):
            rows.append("| %s | %s | %s | — | patch no longer applies to the repaired tree (%s) |" % (
                d, short(meta.get("summary", ""), 150).replace("|", "\\|"), short(meta.get("manifests_when", ""), 110).replace("|", "\\|"),
                e.get("apply_error", "")[:60].replace("|", "\\|")))
            continue
        for q, c in (e.get("checks") or {}).items():
            if not c.get("claimed"):
                outcome = "property not claimed"
            elif c.get("caught"):
                caught += 1
                outcome = "**caught**" + (" (no-failing-input-found)" if c.get("no_failing_input") else " with a failing input")
            else:
                missed += 1
                outcome = "MISSED"
            rows.append("| %s | %s | %s | ./check %s | %s |" % (
                d, short(meta.get("summary", ""), 150).replace("|", "\\|"), short(meta.get("manifests_when", ""), 110).replace("|", "\\|"), q, outcome))
    rows.append("")
    rows.append("Caught %d, missed %d (quick tier, seed 1; one row per seeded change and check). The history of the changes that were missed at first is below the table." % (caught, missed))
    return "\n".join(rows)

def main():
    p = os.path.join(ROOT, "DESIGN.md")
    s = open(p).read()
    props = open(os.path.join(ROOT, "tools", "design_props.md")).read()
    subs = {}
    sp = os.path.join(ROOT, "tools", "design_subst.json")
    if os.path.exists(sp):
        subs = json.load(open(sp))
    for k, v in subs.items():
        props = props.replace("@@%s@@" % k, v)
    gen = {"PROPERTY_TABLE": props, "FIX_TABLE": fix_table(), "KF_TABLE": kf_table(), "SEED_TABLE": seed_table()}
    for name, body in gen.items():
        marker = "@@%s@@" % name
        if marker in s:
            s = s.replace(marker, block(name, body))
        else:
            s = re.sub(r"<!-- gen:%s -->.*?<!-- /gen:%s -->" % (name, name), lambda m: block(name, body), s, flags=re.S)
    open(p, "w").write(s)
    print("DESIGN.md tables regenerated")

if __name__ == "__main__":
    main()
