/-
  Helper lemmas: the ErrorReader's latch is sticky (nothing the decoders do clears it), and a stream that
  ends inside a valid encoding always leaves it set.
-/
import Bebop.Proofs.StreamRT

namespace Bebop

/-- A state transformer that never clears the latch. -/
def Sticky {α} (d : RState → α × RState) : Prop := ∀ s, s.err = true → (d s).2.err = true

theorem consume_err (s : RState) (k : Nat) : (s.consume k).err = s.err := rfl

theorem sread_sticky (n : Nat) : Sticky (sread n) := by
  intro s h
  unfold sread
  split <;> simp [consume_err, h]

theorem sreadU32_sticky : Sticky sreadU32 := by
  intro s h
  have := sread_sticky 4 s h
  unfold sreadU32
  split <;> simp_all

theorem sreadByte_sticky : Sticky sreadByte := by
  intro s h
  have := sread_sticky 1 s h
  unfold sreadByte
  split <;> simp_all

theorem sleave_sticky (v : Val) : Sticky (sleave v) := by
  intro s h
  simp [sleave, sdrain, consume_err, h]

theorem sdecN_sticky (d : SDec) (hd : Sticky d) : ∀ n, Sticky (sdecN d n)
  | 0 => by intro s h; simpa [sdecN] using h
  | n+1 => by
    intro s h
    have h1 := hd s h
    simp only [sdecN]
    cases hr : d s with
    | mk o s' =>
      rw [hr] at h1
      cases o with
      | val v =>
        have h2 := sdecN_sticky d hd n s' h1
        simp only
        split
        · exact h1
        · cases hr2 : sdecN d n s' with
          | mk o2 s'' =>
            rw [hr2] at h2
            cases o2 <;> simpa using h2
      | ret => simpa using h1
      | fuel => simpa using h1

theorem sdecEntries_sticky (kt : Ty) (dk dv : SDec) (hk : Sticky dk) (hv : Sticky dv) :
    ∀ n acc, Sticky (fun s => sdecEntries kt dk dv n s acc)
  | 0, acc => by intro s h; simpa [sdecEntries] using h
  | n+1, acc => by
    intro s h
    have h1 := hk s h
    simp only [sdecEntries]
    cases hr : dk s with
    | mk o s1 =>
      rw [hr] at h1
      cases o with
      | val k =>
        have h2 := hv s1 h1
        simp only
        cases hr2 : dv s1 with
        | mk o2 s2 =>
          rw [hr2] at h2
          cases o2 with
          | val v =>
            simp only
            split
            · exact h2
            · exact sdecEntries_sticky kt dk dv hk hv n _ s2 h2
          | ret => simpa using h2
          | fuel => simpa using h2
      | ret => simpa using h1
      | fuel => simpa using h1

theorem sdecFields_sticky (d : Ty → SDec) (hd : ∀ t, Sticky (d t)) : ∀ tys, Sticky (sdecFields d tys)
  | [] => by intro s h; simpa [sdecFields] using h
  | t :: ts => by
    intro s h
    have h1 := hd t s h
    simp only [sdecFields]
    cases hr : d t s with
    | mk o s' =>
      rw [hr] at h1
      cases o with
      | val v =>
        have h2 := sdecFields_sticky d hd ts s' h1
        simp only
        cases hr2 : sdecFields d ts s' with
        | mk o2 s'' =>
          rw [hr2] at h2
          cases o2 <;> simpa using h2
      | ret => simpa using h1
      | fuel => simpa using h1

theorem sdecMsgLoop_sticky (d : Ty → SDec) (hd : ∀ t, Sticky (d t)) (fds : List MsgField) :
    ∀ n acc, Sticky (fun s => sdecMsgLoop d fds n s acc)
  | 0, acc => by intro s h; simpa [sdecMsgLoop] using h
  | n+1, acc => by
    intro s h
    have h1 := sreadByte_sticky s h
    simp only [sdecMsgLoop]
    cases hr : sreadByte s with
    | mk b s1 =>
      rw [hr] at h1
      simp only
      cases hfd : fds.find? (fun fd => fd.idx == b) with
      | none => exact sleave_sticky _ s1 h1
      | some fd =>
        have h2 := hd fd.ty s1 h1
        simp only
        cases hr2 : d fd.ty s1 with
        | mk o s2 =>
          rw [hr2] at h2
          cases o with
          | val v => exact sdecMsgLoop_sticky d hd fds n _ s2 h2
          | ret => simpa using h2
          | fuel => simpa using h2

theorem sdec_sticky_all (env : Env) : ∀ f,
    (∀ ty, Sticky (sdec f env ty)) ∧ (∀ n, Sticky (sdecRecord f env n))
  | 0 => by
    refine ⟨?_, ?_⟩ <;> intro _ s h <;> simpa [sdec, sdecRecord] using h
  | f+1 => by
    obtain ⟨ihd, ihr⟩ := sdec_sticky_all env f
    have prim : ∀ (n : Nat) (g : List Byte → Val) (z : Val),
        Sticky (fun s => match sread n s with
          | (some bs, s') => ((SOut.val (g bs) : SOut Val), s')
          | (none, s') => (SOut.val z, s')) := by
      intro n g z s h
      have := sread_sticky n s h
      simp only
      split <;> simp_all
    refine ⟨?_, ?_⟩
    · intro ty
      cases ty with
      | bool => exact prim _ _ _
      | scalar w => exact prim _ _ _
      | f32 => exact prim _ _ _
      | f64 => exact prim _ _ _
      | date => exact prim _ _ _
      | guid => exact prim _ _ _
      | str =>
        intro s h
        have h1 := sreadU32_sticky s h
        simp only [sdec]
        cases hr : sreadU32 s with
        | mk n s1 =>
          rw [hr] at h1
          have h2 := sread_sticky n s1 h1
          simp only
          split <;> simp_all
      | arr t =>
        intro s h
        have h1 := sreadU32_sticky s h
        simp only [sdec]
        cases hr : sreadU32 s with
        | mk n s1 =>
          rw [hr] at h1
          have h2 := sdecN_sticky (sdec f env t) (ihd t) n s1 h1
          simp only
          split <;> simp_all
      | map k v =>
        intro s h
        have h1 := sreadU32_sticky s h
        simp only [sdec]
        cases hr : sreadU32 s with
        | mk n s1 =>
          rw [hr] at h1
          have h2 := sdecEntries_sticky k (sdec f env k) (sdec f env v) (ihd k) (ihd v) n [] s1 h1
          simp only at h2 ⊢
          split <;> simp_all
      | ref n => intro s h; simpa [sdec] using ihr n s h
    · intro n s h
      simp only [sdecRecord]
      cases hn : env[n]? with
      | none => simpa using h
      | some d =>
        cases d with
        | struct tys =>
          cases tys with
          | nil => simpa using h
          | cons t tys =>
            have h2 := sdecFields_sticky (sdec f env) ihd (t :: tys) s h
            simp only
            split <;> simp_all
        | msg fds =>
          have h1 := sreadU32_sticky s h
          simp only
          cases hr : sreadU32 s with
          | mk bodyLen s1 =>
            rw [hr] at h1
            exact sdecMsgLoop_sticky (sdec f env) ihd fds _ [] _ (by simpa using h1)
        | union brs =>
          have h1 := sreadU32_sticky s h
          simp only
          cases hr : sreadU32 s with
          | mk bodyLen s1 =>
            rw [hr] at h1
            have h2 := sreadByte_sticky { s1 with limits := (bodyLen + Facts.unionLimitExtra) :: s1.limits }
              (by simpa using h1)
            simp only
            cases hr2 : sreadByte { s1 with limits := (bodyLen + Facts.unionLimitExtra) :: s1.limits } with
            | mk b s3 =>
              rw [hr2] at h2
              simp only
              cases hm : brs.lookup b with
              | none => exact sleave_sticky _ s3 h2
              | some m =>
                have h3 := ihd (.ref m) s3 h2
                simp only
                cases hr3 : sdec f env (.ref m) s3 with
                | mk o s4 =>
                  rw [hr3] at h3
                  cases o with
                  | val v => exact sleave_sticky _ s4 h3
                  | ret => simpa using h3
                  | fuel => simpa using h3

end Bebop
