package schema

import (
	"fmt"
	"strconv"
	"strings"
)

// TyKind discriminates Ty (the `Ty` of PROTOCOL.md).
type TyKind int

const (
	TyBool TyKind = iota
	TyScalar
	TyF32
	TyF64
	TyDate
	TyStr
	TyGuid
	TyArr
	TyMap
	TyRef
)

// Ty is a protocol-level type.
type Ty struct {
	K    TyKind
	W    int // TyScalar: width in bytes
	Key  *Ty // TyMap
	Elem *Ty // TyArr, TyMap
	Ref  int // TyRef
}

// String prints the prefix notation of PROTOCOL.md.
func (t Ty) String() string {
	switch t.K {
	case TyBool:
		return "bool"
	case TyScalar:
		return "s" + strconv.Itoa(t.W)
	case TyF32:
		return "f32"
	case TyF64:
		return "f64"
	case TyDate:
		return "date"
	case TyStr:
		return "str"
	case TyGuid:
		return "guid"
	case TyArr:
		return "arr " + t.Elem.String()
	case TyMap:
		return "map " + t.Key.String() + " " + t.Elem.String()
	case TyRef:
		return "ref " + strconv.Itoa(t.Ref)
	}
	return "?"
}

// Width is the wire width of a fixed-width scalar-like type, 0 otherwise.
func (t Ty) Width() int {
	switch t.K {
	case TyBool:
		return 1
	case TyScalar:
		return t.W
	case TyF32:
		return 4
	case TyF64, TyDate:
		return 8
	}
	return 0
}

// DefField is one field of a struct or message def.
type DefField struct {
	Name       string
	Idx        int // message index, 0 for struct fields
	Deprecated bool
	Ty         Ty
	Shape      string // shape class of the field type, e.g. arr(enum.s2), map(str,msg)
}

// DefBranch is one branch of a union def.
type DefBranch struct {
	Disc int
	Ref  int
}

// Def is one record definition of the environment.
type Def struct {
	Kind     RecKind
	Name     string
	ReadOnly bool
	Imported bool // defined in the imported file (Go package drvdep)
	Fields   []DefField  // struct: schema order; msg: ascending idx
	Branches []DefBranch // union: ascending disc
}

// Env is the compiled environment of a schema file.
type Env struct {
	Defs  []Def
	Index map[string]int
}

// PrimTy maps a primitive name to its Ty.
func PrimTy(name string) (Ty, bool) {
	switch name {
	case "bool":
		return Ty{K: TyBool}, true
	case "byte", "uint8":
		return Ty{K: TyScalar, W: 1}, true
	case "uint16", "int16":
		return Ty{K: TyScalar, W: 2}, true
	case "uint32", "int32":
		return Ty{K: TyScalar, W: 4}, true
	case "uint64", "int64":
		return Ty{K: TyScalar, W: 8}, true
	case "float32":
		return Ty{K: TyF32}, true
	case "float64":
		return Ty{K: TyF64}, true
	case "string":
		return Ty{K: TyStr}, true
	case "guid":
		return Ty{K: TyGuid}, true
	case "date":
		return Ty{K: TyDate}, true
	}
	return Ty{}, false
}

// Compile builds the environment of a file. It panics on references to undefined names
// (the generators never produce them).
func Compile(f File) *Env {
	defs := f.Defs()
	env := &Env{Index: map[string]int{}}
	for i, r := range defs {
		env.Index[r.Name] = i
	}
	enums := map[string]Enum{}
	for _, e := range f.Enums {
		enums[e.Name] = e
	}
	var conv func(t Type) (Ty, string)
	conv = func(t Type) (Ty, string) {
		switch t.Kind {
		case TPrim:
			ty, ok := PrimTy(t.Name)
			if !ok {
				panic("schema: unknown primitive " + t.Name)
			}
			return ty, t.Name
		case TNamed:
			if e, ok := enums[t.Name]; ok {
				ty, _ := PrimTy(e.BaseType())
				return ty, "enum." + e.BaseType()
			}
			i, ok := env.Index[t.Name]
			if !ok {
				panic("schema: undefined type " + t.Name)
			}
			return Ty{K: TyRef, Ref: i}, defs[i].Kind.String()
		case TArray:
			e, s := conv(*t.Elem)
			return Ty{K: TyArr, Elem: &e}, "arr(" + s + ")"
		case TMap:
			k, _ := PrimTy(t.Key)
			e, s := conv(*t.Elem)
			return Ty{K: TyMap, Key: &k, Elem: &e}, "map(" + t.Key + "," + s + ")"
		}
		panic("schema: bad type kind")
	}
	for _, r := range defs {
		d := Def{Kind: r.Kind, Name: r.Name, ReadOnly: r.ReadOnly, Imported: r.Imported}
		switch r.Kind {
		case Struct, Message:
			for _, fd := range r.sortedFields() {
				ty, shape := conv(fd.Type)
				d.Fields = append(d.Fields, DefField{Name: fd.Name, Idx: fd.Index, Deprecated: fd.Deprecated && r.Kind == Message, Ty: ty, Shape: shape})
			}
		case Union:
			for _, b := range r.sortedBranches() {
				d.Branches = append(d.Branches, DefBranch{Disc: b.Disc, Ref: env.Index[b.Rec.Name]})
			}
		}
		env.Defs = append(env.Defs, d)
	}
	return env
}

// Lines prints the env/def lines of PROTOCOL.md.
func (e *Env) Lines() []string {
	lines := []string{"env " + strconv.Itoa(len(e.Defs))}
	for i, d := range e.Defs {
		var b strings.Builder
		switch d.Kind {
		case Struct:
			fmt.Fprintf(&b, "def %d struct %d", i, len(d.Fields))
			for _, fd := range d.Fields {
				b.WriteString(" " + fd.Ty.String())
			}
		case Message:
			fmt.Fprintf(&b, "def %d msg %d", i, len(d.Fields))
			for _, fd := range d.Fields {
				dep := 0
				if fd.Deprecated {
					dep = 1
				}
				fmt.Fprintf(&b, " %d %d %s", fd.Idx, dep, fd.Ty.String())
			}
		case Union:
			fmt.Fprintf(&b, "def %d union %d", i, len(d.Branches))
			for _, br := range d.Branches {
				fmt.Fprintf(&b, " %d %d", br.Disc, br.Ref)
			}
		}
		lines = append(lines, b.String())
	}
	return lines
}

// EvolvedUnderNestedStruct reports whether record `root` reaches, below a struct that is itself nested
// in another record or container, a message whose definition differs between the two versions. That is
// the listed C04 finding: the byte-slice decoder steps over a nested struct by Size() of what it
// understood, which is wrong as soon as an evolved message sits anywhere inside it.
func EvolvedUnderNestedStruct(old, new_ *Env, root int) bool {
	oldLines, newLines := old.Lines(), new_.Lines()
	differs := func(i int) bool {
		return i+1 >= len(oldLines) || i+1 >= len(newLines) || oldLines[i+1] != newLines[i+1]
	}
	type key struct {
		def      int
		inStruct bool
	}
	seen := map[key]bool{}
	var visitDef func(i int, inStruct bool) bool
	var visitTy func(t Ty, inStruct bool) bool
	visitTy = func(t Ty, inStruct bool) bool {
		switch t.K {
		case TyArr:
			return visitTy(*t.Elem, inStruct)
		case TyMap:
			return visitTy(*t.Elem, inStruct)
		case TyRef:
			if t.Ref < len(new_.Defs) && new_.Defs[t.Ref].Kind == Struct {
				return visitDef(t.Ref, true) // a struct reached through a reference is a nested struct
			}
			return visitDef(t.Ref, inStruct)
		}
		return false
	}
	visitDef = func(i int, inStruct bool) bool {
		if i >= len(new_.Defs) || seen[key{i, inStruct}] {
			return false
		}
		seen[key{i, inStruct}] = true
		d := new_.Defs[i]
		if d.Kind == Message && inStruct && differs(i) {
			return true
		}
		for _, f := range d.Fields {
			if visitTy(f.Ty, inStruct) {
				return true
			}
		}
		for _, b := range d.Branches {
			if visitTy(Ty{K: TyRef, Ref: b.Ref}, inStruct) {
				return true
			}
		}
		return false
	}
	return visitDef(root, false)
}

// GoTypeLines prints the `gotype` lines (driver only).
func (e *Env) GoTypeLines(private bool) []string {
	var lines []string
	for i, d := range e.Defs {
		lines = append(lines, fmt.Sprintf("gotype %d %s", i, GoTypeName(d.Name, private)))
	}
	return lines
}

// ModelEnv returns the env/def lines of a file and the def index of every record name.
func ModelEnv(f File) (lines []string, defIndex map[string]int) {
	env := Compile(f)
	return env.Lines(), env.Index
}

// Shapes returns the shape classes of def i: "<kind>/<field shape>" per field; unions list
// "union/<branch kind>"; field-less records give "<kind>/empty".
func (e *Env) Shapes(i int) []string {
	d := e.Defs[i]
	var out []string
	switch d.Kind {
	case Struct, Message:
		if len(d.Fields) == 0 {
			return []string{d.Kind.String() + "/empty"}
		}
		seen := map[string]bool{}
		for _, fd := range d.Fields {
			s := d.Kind.String() + "/" + fd.Shape
			if fd.Deprecated {
				s += "!dep"
			}
			if !seen[s] {
				seen[s] = true
				out = append(out, s)
			}
		}
		if d.ReadOnly {
			out = append(out, "struct/readonly")
		}
	case Union:
		if len(d.Branches) == 0 {
			return []string{"union/empty"}
		}
		seen := map[string]bool{}
		for _, b := range d.Branches {
			s := "union/" + e.Defs[b.Ref].Kind.String()
			if !seen[s] {
				seen[s] = true
				out = append(out, s)
			}
		}
	}
	return out
}

// ParseTy parses the prefix notation of a Ty from the front of tokens.
func ParseTy(t []string) (Ty, []string, error) {
	if len(t) == 0 {
		return Ty{}, nil, fmt.Errorf("type expected")
	}
	switch t[0] {
	case "bool":
		return Ty{K: TyBool}, t[1:], nil
	case "s1", "s2", "s4", "s8":
		return Ty{K: TyScalar, W: int(t[0][1] - '0')}, t[1:], nil
	case "f32":
		return Ty{K: TyF32}, t[1:], nil
	case "f64":
		return Ty{K: TyF64}, t[1:], nil
	case "date":
		return Ty{K: TyDate}, t[1:], nil
	case "str":
		return Ty{K: TyStr}, t[1:], nil
	case "guid":
		return Ty{K: TyGuid}, t[1:], nil
	case "arr":
		e, rest, err := ParseTy(t[1:])
		if err != nil {
			return Ty{}, nil, err
		}
		return Ty{K: TyArr, Elem: &e}, rest, nil
	case "map":
		k, rest, err := ParseTy(t[1:])
		if err != nil {
			return Ty{}, nil, err
		}
		e, rest, err := ParseTy(rest)
		if err != nil {
			return Ty{}, nil, err
		}
		return Ty{K: TyMap, Key: &k, Elem: &e}, rest, nil
	case "ref":
		if len(t) < 2 {
			return Ty{}, nil, fmt.Errorf("ref needs an index")
		}
		n, err := strconv.Atoi(t[1])
		if err != nil || n < 0 {
			return Ty{}, nil, fmt.Errorf("bad ref %q", t[1])
		}
		return Ty{K: TyRef, Ref: n}, t[2:], nil
	}
	return Ty{}, nil, fmt.Errorf("unknown type %q", t[0])
}

// ParseDefLine parses the tokens of a `def` line (including the leading "def") into env.
func (e *Env) ParseDefLine(t []string) error {
	if len(t) < 4 {
		return fmt.Errorf("short def line")
	}
	i, err := strconv.Atoi(t[1])
	if err != nil || i < 0 || i >= len(e.Defs) {
		return fmt.Errorf("def index out of range")
	}
	n, err := strconv.Atoi(t[3])
	if err != nil || n < 0 {
		return fmt.Errorf("bad count")
	}
	rest := t[4:]
	d := Def{Name: fmt.Sprintf("def%d", i)}
	atoi := func() (int, error) {
		if len(rest) == 0 {
			return 0, fmt.Errorf("number expected")
		}
		v, err := strconv.Atoi(rest[0])
		rest = rest[1:]
		return v, err
	}
	switch t[2] {
	case "struct":
		d.Kind = Struct
		for j := 0; j < n; j++ {
			var ty Ty
			ty, rest, err = ParseTy(rest)
			if err != nil {
				return err
			}
			d.Fields = append(d.Fields, DefField{Ty: ty})
		}
	case "msg":
		d.Kind = Message
		for j := 0; j < n; j++ {
			idx, err := atoi()
			if err != nil {
				return err
			}
			dep, err := atoi()
			if err != nil {
				return err
			}
			var ty Ty
			ty, rest, err = ParseTy(rest)
			if err != nil {
				return err
			}
			d.Fields = append(d.Fields, DefField{Idx: idx, Deprecated: dep != 0, Ty: ty})
		}
	case "union":
		d.Kind = Union
		for j := 0; j < n; j++ {
			disc, err := atoi()
			if err != nil {
				return err
			}
			ref, err := atoi()
			if err != nil {
				return err
			}
			d.Branches = append(d.Branches, DefBranch{Disc: disc, Ref: ref})
		}
	default:
		return fmt.Errorf("unknown def kind %q", t[2])
	}
	if len(rest) != 0 {
		return fmt.Errorf("trailing tokens in def line")
	}
	e.Defs[i] = d
	return nil
}
