/-
  Helper lemmas about the tokenizer model: it never panics (every UnreadByte directly follows a successful
  ReadByte), its error list only grows, io.EOF is recorded only at the very end of the input, and `Next`
  can return false with a clean error list only there.
-/
import Bebop.Text.Tokenizer

namespace Bebop.Text

/-- What every tokenizer helper preserves: no new panic, errors are only appended and none of the
    appended ones is io.EOF, the reader's ending is untouched. -/
structure Pres (t t' : TR) : Prop where
  pan : t.panicked = false → t'.panicked = false
  ext : ∃ new, t'.errs = t.errs ++ new ∧ ∀ e ∈ new, e ≠ TErr.eof
  io : t'.ioFail = t.ioFail

theorem Pres.rfl' (t : TR) : Pres t t := ⟨id, ⟨[], by simp, by simp⟩, rfl⟩

theorem Pres.trans {a b c : TR} (h1 : Pres a b) (h2 : Pres b c) : Pres a c := by
  obtain ⟨n1, e1, f1⟩ := h1.ext
  obtain ⟨n2, e2, f2⟩ := h2.ext
  refine ⟨fun h => h2.pan (h1.pan h), ⟨n1 ++ n2, by rw [e2, e1, List.append_assoc], ?_⟩, by rw [h2.io, h1.io]⟩
  intro e he
  rcases List.mem_append.mp he with h | h
  · exact f1 e h
  · exact f2 e h

theorem pres_addErr (t : TR) (e : TErr) (he : e ≠ .eof) : Pres t (addErr t e) :=
  ⟨id, ⟨[e], rfl, by simp [he]⟩, rfl⟩

theorem pres_setNext (t : TR) (tk : Token) : Pres t (setNext t tk) := ⟨id, ⟨[], by simp [setNext], by simp⟩, rfl⟩

theorem pres_of_fields (t t' : TR) (h1 : t'.panicked = t.panicked) (h2 : t'.errs = t.errs) (h3 : t'.ioFail = t.ioFail) :
    Pres t t' := ⟨fun h => by rw [h1]; exact h, ⟨[], by simp [h2], by simp⟩, h3⟩

/-- readByte: either a byte (and then UnreadByte is legal), or the state is unchanged. -/
theorem readByte_cases (t : TR) :
    (∃ c rest, t.inp = c :: rest ∧ readByte t = (.byte c, { t with inp := rest, last := some c })) ∨
    (t.inp = [] ∧ t.ioFail = false ∧ readByte t = (.eof, t)) ∨
    (t.inp = [] ∧ t.ioFail = true ∧ readByte t = (.ioerr, t)) := by
  unfold readByte
  cases h : t.inp with
  | nil =>
    right
    cases hf : t.ioFail <;> simp
  | cons c rest => left; exact ⟨c, rest, rfl, rfl⟩

theorem pres_unread_after_read (t : TR) (c : Byte) (rest : List Byte) :
    Pres t (unreadByte { t with inp := rest, last := some c }) := by
  simp only [unreadByte]
  exact pres_of_fields _ _ rfl rfl rfl

theorem numberLoop_pres : ∀ (fuel : Nat) (t : TR) (conc : List Byte) (kind : TK) (a b c d : Bool),
    Pres t (numberLoop fuel t conc kind a b c d).2
  | 0, t, _, _, _, _, _, _ => by simp [numberLoop]; exact Pres.rfl' t
  | fuel+1, t, conc, kind, second, hex, decimal, invalidLast => by
    simp only [numberLoop]
    rcases readByte_cases t with ⟨c, rest, hi, hr⟩ | ⟨_, _, hr⟩ | ⟨_, _, hr⟩
    · rw [hr]
      have hstep : Pres t { t with inp := rest, last := some c } := pres_of_fields _ _ rfl rfl rfl
      simp only
      split
      · exact hstep.trans (numberLoop_pres fuel _ _ _ _ _ _ _)
      · split
        · split
          · exact hstep.trans (pres_addErr _ _ (by decide))
          · exact hstep.trans (numberLoop_pres fuel _ _ _ _ _ _ _)
        · split
          · exact hstep.trans (numberLoop_pres fuel _ _ _ _ _ _ _)
          · split
            · exact hstep.trans (numberLoop_pres fuel _ _ _ _ _ _ _)
            · split
              · exact hstep.trans (numberLoop_pres fuel _ _ _ _ _ _ _)
              · split
                · exact hstep.trans (pres_addErr _ _ (by decide))
                · exact (pres_unread_after_read t c rest).trans (pres_setNext _ _)
    · rw [hr]; simp only; split
      · exact pres_addErr _ _ (by decide)
      · exact Pres.rfl' t
    · rw [hr]; exact pres_addErr _ _ (by decide)

theorem skipWs_pres : ∀ (fuel : Nat) (t : TR), Pres t (skipWs fuel t)
  | 0, t => by simp [skipWs]; exact Pres.rfl' t
  | fuel+1, t => by
    simp only [skipWs]
    rcases readByte_cases t with ⟨c, rest, hi, hr⟩ | ⟨_, _, hr⟩ | ⟨_, _, hr⟩
    · rw [hr]; simp only
      split
      · exact (pres_of_fields t { t with inp := rest, last := some c } rfl rfl rfl).trans (skipWs_pres fuel _)
      · exact pres_unread_after_read t c rest
    · rw [hr]; exact Pres.rfl' t
    · rw [hr]; exact Pres.rfl' t

theorem blockLoop_pres : ∀ (fuel : Nat) (t : TR) (conc : List Byte) (lb : Byte), Pres t (blockLoop fuel t conc lb).2
  | 0, t, _, _ => by simp [blockLoop]; exact Pres.rfl' t
  | fuel+1, t, conc, lb => by
    simp only [blockLoop]
    rcases readByte_cases t with ⟨c, rest, hi, hr⟩ | ⟨_, _, hr⟩ | ⟨_, _, hr⟩
    · rw [hr]; simp only
      have hstep : Pres t { t with inp := rest, last := some c } := pres_of_fields _ _ rfl rfl rfl
      split
      · exact hstep.trans (skipWs_pres _ _)
      · exact hstep.trans (blockLoop_pres fuel _ _ _)
    · rw [hr]; exact pres_addErr _ _ (by decide)
    · rw [hr]; exact pres_addErr _ _ (by decide)

theorem stringLoop_pres : ∀ (fuel : Nat) (t : TR) (conc : List Byte) (esc : Bool), Pres t (stringLoop fuel t conc esc).2
  | 0, t, _, _ => by simp [stringLoop]; exact Pres.rfl' t
  | fuel+1, t, conc, esc => by
    simp only [stringLoop]
    rcases readByte_cases t with ⟨c, rest, hi, hr⟩ | ⟨_, _, hr⟩ | ⟨_, _, hr⟩
    · rw [hr]; simp only
      have hstep : Pres t { t with inp := rest, last := some c } := pres_of_fields _ _ rfl rfl rfl
      split
      · exact hstep
      · exact hstep.trans (stringLoop_pres fuel _ _ _)
    · rw [hr]; exact pres_addErr _ _ (by decide)
    · rw [hr]; exact pres_addErr _ _ (by decide)

theorem lineComment_pres (t : TR) (conc : List Byte) : Pres t (lineCommentToken t conc).2 := by
  simp only [lineCommentToken]
  split
  · exact pres_of_fields _ _ rfl rfl rfl
  · split
    · exact (pres_of_fields t { t with inp := [], last := _ } rfl rfl rfl).trans (pres_addErr _ _ (by decide))
    · exact pres_of_fields _ _ rfl rfl rfl

theorem blockComment_pres (t : TR) (conc : List Byte) : Pres t (blockCommentToken t conc).2 := by
  unfold blockCommentToken; exact blockLoop_pres _ _ _ _
theorem stringLit_pres (t : TR) (conc : List Byte) : Pres t (stringLiteralToken t conc).2 := by
  unfold stringLiteralToken; exact stringLoop_pres _ _ _ _
theorem numberTok_pres (t : TR) (conc : List Byte) : Pres t (numberToken t conc).2 := by
  unfold numberToken; exact numberLoop_pres _ _ _ _ _ _ _ _

/-- A token-tree continuation: preserves, and reports ok unless it added an error. -/
def GoodK (k : TR → List Byte → Token × Bool × TR) : Prop :=
  ∀ t conc, Pres t (k t conc).2.2 ∧ ((k t conc).2.1 = false → t.errs.length < (k t conc).2.2.errs.length)

theorem goodK_simple (kd : TK) : GoodK (fun t conc => simple kd conc t) := by
  intro t conc; exact ⟨Pres.rfl' t, by simp [simple]⟩

theorem goodK_wrap (f : TR → List Byte → Token × TR) (hf : ∀ t conc, Pres t (f t conc).2) : GoodK (wrap f) := by
  intro t conc; exact ⟨by simpa [wrap] using hf t conc, by simp [wrap]⟩

theorem Pres.len {a b : TR} (h : Pres a b) : a.errs.length ≤ b.errs.length := by
  obtain ⟨n, e, _⟩ := h.ext; rw [e]; simp

theorem expectOne_good (opts : List (Byte × (TR → List Byte → Token × Bool × TR)))
    (hne : opts ≠ []) (hk : ∀ o ∈ opts, GoodK o.2) : GoodK (fun t conc => expectOne t conc opts) := by
  intro t conc
  simp only [expectOne]
  rcases readByte_cases t with ⟨c, rest, hi, hr⟩ | ⟨_, _, hr⟩ | ⟨_, _, hr⟩
  · rw [hr]; simp only
    have hstep : Pres t { t with inp := rest, last := some c } := pres_of_fields _ _ rfl rfl rfl
    cases hfind : opts.find? (·.1 == c) with
    | some o =>
      obtain ⟨c', k⟩ := o
      have hmem := List.mem_of_find?_eq_some hfind
      have := hk _ hmem { t with inp := rest, last := some c } (conc ++ [c])
      exact ⟨hstep.trans this.1, fun h => by have := this.2 h; simpa using this⟩
    | none =>
      cases opts with
      | nil => exact absurd rfl hne
      | cons o os =>
        obtain ⟨c0, k⟩ := o
        have hg := hk (c0, k) (by simp) (addErr { t with inp := rest, last := some c } .other) (conc ++ [c0])
        have hadd : Pres t (addErr { t with inp := rest, last := some c } .other) :=
          hstep.trans (pres_addErr _ _ (by decide))
        refine ⟨hadd.trans hg.1, fun _ => ?_⟩
        have := hg.1.len
        simp [addErr] at this ⊢
        omega
  · rw [hr]; exact ⟨pres_addErr _ _ (by decide), fun _ => by simp [addErr]⟩
  · rw [hr]; exact ⟨pres_addErr _ _ (by decide), fun _ => by simp [addErr]⟩

/-- The result of findFirst: new errors are appended; io.EOF is recorded only when the input is exhausted
    and then it is the only new error; "not ok and nothing new" means a byte was just read (so UnreadByte
    is legal). -/
structure FF (t : TR) (r : Token × Bool × TR) : Prop where
  pan : t.panicked = false → r.2.2.panicked = false
  io : r.2.2.ioFail = t.ioFail
  ext : (∃ new, r.2.2.errs = t.errs ++ new ∧ ∀ e ∈ new, e ≠ TErr.eof) ∨
        (r.2.2.errs = t.errs ++ [TErr.eof] ∧ r.2.2.inp = [] ∧ r.2.2.ioFail = false ∧ r.2.1 = false)
  unread : r.2.1 = false → r.2.2.errs.length = t.errs.length → r.2.2.last.isSome = true

theorem FF.of_good {t : TR} {r : Token × Bool × TR} (h : Pres t r.2.2)
    (hk : r.2.1 = false → t.errs.length < r.2.2.errs.length) : FF t r :=
  ⟨h.pan, h.io, Or.inl h.ext, fun h1 h2 => by have := hk h1; omega⟩

theorem FF.after_read {t : TR} {c : Byte} {rest : List Byte} {r : Token × Bool × TR}
    (h : FF { t with inp := rest, last := some c } r) : FF t r :=
  ⟨h.pan, h.io, h.ext, h.unread⟩

theorem findFirst_ff : ∀ (fuel : Nat) (t : TR), t.inp.length < fuel → FF t (findFirst fuel t)
  | 0, t, h => by omega
  | fuel+1, t, hfuel => by
    simp only [findFirst]
    rcases readByte_cases t with ⟨c, rest, hi, hr⟩ | ⟨hnil, hio, hr⟩ | ⟨_, _, hr⟩
    · rw [hr]; simp only
      have good : ∀ (k : TR → List Byte → Token × Bool × TR) (conc : List Byte), GoodK k →
          FF t (k { t with inp := rest, last := some c } conc) := by
        intro k conc hk
        have := hk { t with inp := rest, last := some c } conc
        exact FF.after_read (FF.of_good this.1 this.2)
      split
      · -- blank: skip it
        have hlen : ({ t with inp := rest, last := some c } : TR).inp.length < fuel := by
          simp only; rw [hi] at hfuel; simp at hfuel; omega
        exact FF.after_read (findFirst_ff fuel _ hlen)
      cases singleByteKind c with
      | some k => exact good (fun t conc => simple k conc t) [c] (goodK_simple k)
      | none =>
      simp only
      split
      · exact good _ _ (goodK_wrap _ stringLit_pres)
      split
      · exact good _ _ (goodK_wrap _ numberTok_pres)
      split
      · exact good (fun t conc => expectOne t conc _) _ (expectOne_good _ (by simp) (by
          intro o ho; simp at ho; subst ho; exact goodK_simple _))
      split
      · exact good (fun t conc => expectOne t conc _) _ (expectOne_good _ (by simp) (by
          intro o ho; simp at ho; subst ho; exact goodK_simple _))
      split
      · exact good (fun t conc => expectOne t conc _) _ (expectOne_good _ (by simp) (by
          intro o ho
          simp at ho
          rcases ho with rfl | rfl
          · exact goodK_wrap _ blockComment_pres
          · exact goodK_wrap _ lineComment_pres))
      split
      -- '-' : one more byte
      · rename_i hminus
        rcases readByte_cases { t with inp := rest, last := some c } with ⟨d, rest2, hi2, hr2⟩ | ⟨_, _, hr2⟩ | ⟨_, _, hr2⟩
        · rw [hr2]; simp only
          have hstep : Pres t { t with inp := rest2, last := some d } := pres_of_fields _ _ rfl rfl rfl
          have good2 : ∀ (k : TR → List Byte → Token × Bool × TR) (conc : List Byte), GoodK k →
              FF t (k { t with inp := rest2, last := some d } conc) := by
            intro k conc hk
            have := hk { t with inp := rest2, last := some d } conc
            exact FF.of_good (hstep.trans this.1) (fun h => by have := this.2 h; simpa using this)
          split
          · exact good2 _ _ (goodK_wrap _ numberTok_pres)
          · split
            · exact good2 (fun t conc => expectOne t conc _) _ (expectOne_good _ (by simp) (by
                intro o ho; simp at ho; subst ho
                exact expectOne_good _ (by simp) (by intro o ho; simp at ho; subst ho; exact goodK_simple _)))
            · split
              · exact good2 _ _ (goodK_simple _)
              · exact FF.of_good (hstep.trans (pres_addErr _ _ (by decide))) (by simp [simple])
        · rw [hr2]
          exact FF.of_good ((pres_of_fields t { t with inp := rest, last := some c } rfl rfl rfl).trans
            (pres_addErr _ _ (by decide))) (fun _ => by simp [addErr])
        · rw [hr2]
          exact FF.of_good ((pres_of_fields t { t with inp := rest, last := some c } rfl rfl rfl).trans
            (pres_addErr _ _ (by decide))) (fun _ => by simp [addErr])
      -- no byte-driven token starts here
      · exact ⟨fun h => h, rfl, Or.inl ⟨[], by simp, by simp⟩, fun _ _ => rfl⟩
    · rw [hr]
      exact ⟨fun h => h, rfl, Or.inr ⟨rfl, hnil, hio, rfl⟩, fun _ h => by simp [addErr] at h⟩
    · rw [hr]
      exact FF.of_good (pres_addErr _ _ (by decide)) (fun _ => by simp [addErr])

end Bebop.Text
