/-
  C03 — Generated codecs speak the Bebop wire format, checked against a reference.

  The reference is `enc` (Bebop.Wire), written from the published format: little-endian fixed-width
  scalars, u32-length-prefixed strings / arrays / maps, GUIDs in .NET field order, messages as
  u32 body length + (index, value)* + 0, unions as u32 length + discriminator + body, enums as their base
  integer.  It shares nothing with the operational model (`pieces`, `marshalTo`, `senc`, `dec`, `sdec`),
  which takes its constants (Size()-4, Size()-5, bodyLen := 5 / 4, GUID tables, fixed sizes) from
  Bebop.Generated.Facts, regenerated from /repo on every run.
-/
import Bebop.Props.C01

namespace Bebop

/-- Encode direction: what the generated encoders emit IS the reference encoding. -/
theorem C03_encoders_emit_reference (v : Val) (e : Encoder)
    (hbuf : ∀ buf, e = .marshalTo buf → vsize v ≤ buf.length) : runEnc e v = some (enc v) :=
  C02_encoders_agree v e hbuf

private theorem keyEq_aux (x y : Nat) (p : Nat → Bool) (cx cy : Bool) :
    (x == y && !p x || cx && cy) = (y == x && !p y || cy && cx) := by
  by_cases h : x = y
  · subst h; simp [Bool.and_comm]
  · have h' : ¬ y = x := fun e => h e.symm
    have e1 : (x == y) = false := by simpa using h
    have e2 : (y == x) = false := by simpa using h'
    rw [e1, e2]; simp [Bool.and_comm]

theorem keyEq_comm (kt : Ty) (a b : Val) : keyEq kt a b = keyEq kt b a := by
  cases a <;> cases b <;> cases kt <;> simp only [keyEq] <;>
    first | rfl | exact BEq.comm | exact keyEq_aux _ _ _ _ _

theorem keysDistinct_perm (kt : Ty) {kvs kvs' : List (Val × Val)} (h : kvs.Perm kvs')
    (hd : keysDistinct kt kvs) : keysDistinct kt kvs' := by
  have key : ∀ l : List (Val × Val), keysDistinct kt l ↔ l.Pairwise (fun a b => keyEq kt a.1 b.1 = false) := by
    intro l
    induction l with
    | nil => simp [keysDistinct]
    | cons a l ih => obtain ⟨k, v⟩ := a; simp [keysDistinct, ih]
  rw [key] at hd ⊢
  exact h.pairwise hd (fun {a b} hab => by rw [keyEq_comm]; exact hab)

theorem wtKVs_perm (env : Env) (k t : Ty) {kvs kvs' : List (Val × Val)} (h : kvs.Perm kvs')
    (hw : wtKVs env k t kvs) : wtKVs env k t kvs' := by
  have key : ∀ l : List (Val × Val), wtKVs env k t l ↔ ∀ kv ∈ l, wt env k kv.1 ∧ wt env t kv.2 := by
    intro l
    induction l with
    | nil => simp [wtKVs]
    | cons a l ih => obtain ⟨x, y⟩ := a; simp [wtKVs, ih, and_assoc]
  rw [key] at hw ⊢
  intro kv hkv
  exact hw kv (h.mem_iff.mpr hkv)

/-- A map value stays a value of its type under any reordering of its entries. -/
theorem wt_map_perm (env : Env) (ty : Ty) {kvs kvs' : List (Val × Val)} (h : kvs.Perm kvs')
    (hw : wt env ty (.map kvs)) : wt env ty (.map kvs') := by
  simp only [wt] at hw ⊢
  obtain ⟨k, t, rfl, hk, hl, hwk, hd⟩ := hw
  exact ⟨k, t, rfl, hk, by rw [← h.length_eq]; exact hl, wtKVs_perm env k t h hwk, keysDistinct_perm k h hd⟩

/-- Decode direction: every decoder accepts every conformant encoding — in particular the encoding
    with the map entries in ANY order — and yields that value. (As Go maps the results are equal.) -/
theorem C03_decoders_accept_any_entry_order (env : Env) (hE : EnvOk env) (n : Nat) (fuel : Nat)
    (kvs kvs' : List (Val × Val)) (hperm : kvs.Perm kvs')
    (h : wt env (.ref n) (.struct [.map kvs])) (hf : rank (.struct [.map kvs']) < fuel + 1) (d : Decoder) :
    runDec fuel env n d (enc (.struct [.map kvs'])) = some (.struct [.map kvs']) := by
  apply C01_decoders_invert_enc env hE n _ fuel _ hf d
  simp only [wt] at h ⊢
  obtain ⟨m, tys, hm, hn, hs⟩ := h
  refine ⟨m, tys, hm, hn, ?_⟩
  match tys, hs with
  | [t], hs =>
    simp only [wtStruct] at hs ⊢
    exact ⟨wt_map_perm env t hperm hs.1, trivial⟩

/-- General form: decoding inverts `enc` on every well-typed value, whatever order its maps are in. -/
theorem C03_decoders_accept_reference (env : Env) (hE : EnvOk env) (n : Nat) (v : Val) (fuel : Nat)
    (h : wt env (.ref n) v) (hf : rank v < fuel + 1) (d : Decoder) :
    runDec fuel env n d (enc v) = some v := C01_decoders_invert_enc env hE n v fuel h hf d

/-! Layout facts of the reference, stated outright. -/

theorem C03_scalar_little_endian (w n : Nat) : enc (.scalar (w+1) n) = UInt8.ofNat (n % 256) :: leBytes w (n / 256) := rfl
theorem C03_string_layout (bs : List Byte) : enc (.str bs) = leBytes 4 bs.length ++ bs := by simp [enc]
theorem C03_array_layout (vs : List Val) : enc (.arr vs) = leBytes 4 vs.length ++ encList vs := by simp [enc]
theorem C03_message_layout (fs : List (Nat × Val)) :
    enc (.msg fs) = leBytes 4 ((encFields fs ++ [0]).length) ++ (encFields fs ++ [0]) := by simp [enc]
theorem C03_union_layout (d : Nat) (v : Val) :
    enc (.union d v) = leBytes 4 (enc v).length ++ [UInt8.ofNat d] ++ enc v := by simp [enc]

/-- The GUID tables regenerated from iohelp are the .NET field order, in all three places. -/
theorem C03_guid_tables :
    Facts.guidWritePerm = guidSpecPerm ∧ Facts.guidWriteStreamPerm = guidSpecPerm ∧ Facts.guidReadPerm = guidSpecPerm := by
  decide

/-- Known finding (DESIGN §8 #21): the repository counts date ticks from the Unix epoch; the published
    format (and the TypeScript runtime in testdata/ts) counts from 0001-01-01. The two differ by this
    constant number of 100 ns ticks; `enc` follows the repository's convention for dates. -/
def ticksBetweenEpochs : Nat := 621355968000000000

/-- Non-vacuity: a two-entry map in both orders. -/
example : runDec 9 exEnv 1 .unmarshal (enc exMsg) = some exMsg :=
  C03_decoders_accept_reference exEnv exEnv_ok 1 exMsg 9 exMsg_wt (by decide) _

/-- The model treats an enum as a scalar of its base width everywhere (this is what the width of an enum element on the wire rests on). The
    regenerated fact says File.fixedSizes does so for EVERY enum, imported ones included (loop over f.Enums with
    the single statement `out[en.Name] = fixedSizeTypes[en.SimpleType]`). -/
theorem C03_enum_sizes_as_modelled : Facts.enumFixedSizeRule = "base-width" := by decide

end Bebop
