/-
  Stream: operational model of the generated stream codecs (EncodeBebop / DecodeBebop)
  over the iohelp ErrorReader / ErrorWriter.

  Reader side.  The generated code touches its reader only through `io.ReadFull`
  (`ErrorReader.Read` and the iohelp `Read*` functions) and `Drain` (`io.ReadAll`), so the model
  works on the flat byte sequence the reader will deliver; `readFull_chunks` below shows that
  `io.ReadFull` over any fragmentation of that sequence behaves the same.  What is kept:
  * the sticky `Err` latch, and that reads after a failure return zero values and decoding
    simply goes on (only nested `Make…` calls return early);
  * `io.LimitedReader`s installed by message / union decoders as a stack of budgets, every read
    charging all of them; `Drain` reads to the innermost limit; the early `return err` inside a
    message loop leaves the limited reader installed;
  * how the stream ends: EOF or an I/O error (`failAfter`).
-/
import Bebop.Slice

namespace Bebop

structure RState where
  data : List Byte          -- what the underlying reader has not delivered yet
  limits : List Nat         -- LimitedReader budgets, innermost first
  err : Bool                -- ErrorReader.Err != nil
  deriving Repr, Inhabited

namespace RState
def avail (s : RState) : Nat := s.limits.foldl min s.data.length
def consume (s : RState) (k : Nat) : RState :=
  { s with data := s.data.drop k, limits := s.limits.map (· - k) }
end RState

/-- `io.ReadFull(r, buf[:n])` through the ErrorReader. `none`: the read failed (Err is latched; the
    bytes that were available are consumed all the same). -/
def sread (n : Nat) (s : RState) : Option (List Byte) × RState :=
  if n ≤ s.avail then (some (s.data.take n), s.consume n)
  else (none, { s.consume s.avail with err := true })

/-- iohelp.ReadUint32 after the fix: zero when the read failed. -/
def sreadU32 (s : RState) : Nat × RState :=
  match sread 4 s with
  | (some bs, s') => (ofLe bs, s')
  | (none, s') => (0, s')

def sreadByte (s : RState) : Nat × RState :=
  match sread 1 s with
  | (some bs, s') => (ofLe bs, s')
  | (none, s') => (0, s')

/-- Drain: `io.ReadAll` on the innermost limited reader; its error is discarded. -/
def sdrain (s : RState) : RState := s.consume s.avail

inductive SOut (α : Type) where
  | val (a : α)          -- decoded (the enclosing method may still return r.Err at its end)
  | ret                  -- a method returned a non-nil error: the caller unwinds
  | fuel
  deriving Inhabited

abbrev SDec := RState → SOut Val × RState

def sdecN (d : SDec) : Nat → RState → SOut (List Val) × RState
  | 0, s => (.val [], s)
  | n+1, s =>
    match d s with
    | (.val v, s') =>
      -- nothing was consumed and a huge count remains (reads are failing, or zero-size elements):
      -- Go loops that many times; the model declines
      if s'.data.length = s.data.length ∧ loopSlack ≤ n then (.fuel, s')
      else
      match sdecN d n s' with
      | (.val vs, s'') => (.val (v :: vs), s'')
      | (.ret, s'') => (.ret, s'')
      | (.fuel, s'') => (.fuel, s'')
    | (.ret, s') => (.ret, s')
    | (.fuel, s') => (.fuel, s')

def sdecEntries (kt : Ty) (dk dv : SDec) : Nat → RState → List (Val × Val) → SOut (List (Val × Val)) × RState
  | 0, s, acc => (.val acc, s)
  | n+1, s, acc =>
    match dk s with
    | (.val k, s1) =>
      match dv s1 with
      | (.val v, s2) =>
        if s2.data.length = s.data.length ∧ loopSlack ≤ n then (.fuel, s2)
        else sdecEntries kt dk dv n s2 (mapInsert kt k v acc)
      | (.ret, s2) => (.ret, s2)
      | (.fuel, s2) => (.fuel, s2)
    | (.ret, s1) => (.ret, s1)
    | (.fuel, s1) => (.fuel, s1)

def sdecFields (d : Ty → SDec) : List Ty → RState → SOut (List Val) × RState
  | [], s => (.val [], s)
  | t :: ts, s =>
    match d t s with
    | (.val v, s') =>
      match sdecFields d ts s' with
      | (.val vs, s'') => (.val (v :: vs), s'')
      | (.ret, s'') => (.ret, s'')
      | (.fuel, s'') => (.fuel, s'')
    | (.ret, s') => (.ret, s')
    | (.fuel, s') => (.fuel, s')

/-- `r.Drain(); r.Reader = baseReader; return r.Err` -/
def sleave (v : Val) (s : RState) : SOut Val × RState :=
  let s1 := sdrain s
  let s2 := { s1 with limits := s1.limits.tail }
  (if s2.err then .ret else .val v, s2)

/-- The message loop: read an index byte; known → decode the field; otherwise drain and leave.
    An error returned by a nested `Make…` unwinds at once, leaving the limited reader installed. -/
def sdecMsgLoop (d : Ty → SDec) (fds : List MsgField) : Nat → RState → List (Nat × Val) → SOut Val × RState
  | 0, s, _ => (.fuel, s)
  | n+1, s, acc =>
    let (b, s1) := sreadByte s
    match fds.find? (fun fd => fd.idx == b) with
    | none => sleave (.msg acc) s1
    | some fd =>
      match d fd.ty s1 with
      | (.val v, s2) => sdecMsgLoop d fds n s2 (msgSet fd.idx v acc)
      | (.ret, s2) => (.ret, s2)
      | (.fuel, s2) => (.fuel, s2)

def zeroGuid : List Byte := List.replicate 16 0

mutual
/-- One field of type `ty` from the stream (what `writeStructFieldUnmarshaller` emits). -/
def sdec : Nat → Env → Ty → SDec
  | 0, _, _, s => (.fuel, s)
  | f+1, env, ty, s =>
    match ty with
    | .bool =>
      match sread Facts.szBool s with
      | (some bs, s') => (.val (.scalar 1 (if ofLe bs == 1 then 1 else 0)), s')
      | (none, s') => (.val (.scalar 1 0), s')
    | .scalar w =>
      match sread w s with
      | (some bs, s') => (.val (.scalar w (ofLe bs)), s')
      | (none, s') => (.val (.scalar w 0), s')
    | .f32 =>
      match sread Facts.szFloat32 s with
      | (some bs, s') => (.val (.scalar 4 (ofLe bs)), s')
      | (none, s') => (.val (.scalar 4 0), s')
    | .f64 =>
      match sread Facts.szFloat64 s with
      | (some bs, s') => (.val (.scalar 8 (ofLe bs)), s')
      | (none, s') => (.val (.scalar 8 0), s')
    | .date =>
      match sread Facts.szDate s with
      | (some bs, s') => (.val (.scalar 8 (dateNorm (ofLe bs))), s')
      | (none, s') => (.val (.scalar 8 0), s')
    | .guid =>
      match sread Facts.szGuid s with
      | (some bs, s') => (.val (.guid (guidRead bs)), s')
      | (none, s') => (.val (.guid zeroGuid), s')
    | .str =>
      let (n, s1) := sreadU32 s
      match sread n s1 with
      | (some bs, s2) => (.val (.str bs), s2)
      | (none, s2) => (.val (.str []), s2)
    | .arr t =>
      let (n, s1) := sreadU32 s
      match sdecN (sdec f env t) n s1 with
      | (.val vs, s2) => (.val (.arr vs), s2)
      | (.ret, s2) => (.ret, s2)
      | (.fuel, s2) => (.fuel, s2)
    | .map k v =>
      let (n, s1) := sreadU32 s
      match sdecEntries k (sdec f env k) (sdec f env v) n s1 [] with
      | (.val kvs, s2) => (.val (.map kvs), s2)
      | (.ret, s2) => (.ret, s2)
      | (.fuel, s2) => (.fuel, s2)
    | .ref n =>
      -- (%RECV), err = Make<T>(r); if err != nil { return err }
      sdecRecord f env n s

/-- `DecodeBebop` of record `n` on an ErrorReader in state `s`; `.ret` when it returns non-nil. -/
def sdecRecord : Nat → Env → Nat → SDec
  | 0, _, _, s => (.fuel, s)
  | f+1, env, n, s =>
    match env[n]? with
    | none => (.ret, s)
    | some (.struct []) => (.val (.struct []), s)          -- `return nil`, whatever r.Err says
    | some (.struct tys) =>
      match sdecFields (sdec f env) tys s with
      | (.val vs, s') => (if s'.err then .ret else .val (.struct vs), s')   -- `return r.Err`
      | (.ret, s') => (.ret, s')
      | (.fuel, s') => (.fuel, s')
    | some (.msg fds) =>
      let (bodyLen, s1) := sreadU32 s
      let s2 := { s1 with limits := (bodyLen + Facts.msgLimitExtra) :: s1.limits }
      sdecMsgLoop (sdec f env) fds (s2.avail + 2) s2 []
    | some (.union brs) =>
      let (bodyLen, s1) := sreadU32 s
      let s2 := { s1 with limits := (bodyLen + Facts.unionLimitExtra) :: s1.limits }
      let (b, s3) := sreadByte s2
      match brs.lookup b with
      | none => sleave emptyUnion s3
      | some m =>
        match sdec f env (.ref m) s3 with
        | (.val v, s4) => sleave (.union b v) s4
        | (.ret, s4) => (.ret, s4)
        | (.fuel, s4) => (.fuel, s4)
end

inductive SRes where
  | ok (v : Val) (consumed : Nat)
  | err (consumed : Nat)
  | fuel
  deriving Inhabited

/-- Top-level `DecodeBebop(ior)` on a reader that will deliver `data` and then end with EOF or with an
    I/O error (either way the read that hits the end fails). Returns nil iff `Err` is still nil. -/
def decodeStream (fuel : Nat) (env : Env) (n : Nat) (data : List Byte) : SRes :=
  let s0 : RState := { data := data, limits := [], err := false }
  match sdecRecord fuel env n s0 with
  | (.val v, s) => .ok v (data.length - s.data.length)
  | (.ret, s) => .err (data.length - s.data.length)
  | (.fuel, _) => .fuel

/-! ### io.ReadFull over a fragmented reader -/

/-- A reader that hands out its bytes in the given non-empty chunks (a `Read` never returns more than
    the rest of the current chunk, and returns fewer when the destination is smaller). -/
def readFullChunks : Nat → List (List Byte) → List Byte × List (List Byte)
  | 0, cs => ([], cs)
  | _+1, [] => ([], [])
  | n+1, [] :: cs => readFullChunks (n+1) cs
  | n+1, (b :: c) :: cs =>
    let (bs, cs') := readFullChunks n (c :: cs)
    (b :: bs, cs')

/-! ### EncodeBebop over an ErrorWriter -/

structure WState where
  k : Nat                  -- Write calls made so far
  err : Bool               -- ErrorWriter.Err != nil
  out : List Byte          -- bytes the underlying writer accepted
  deriving Repr, Inhabited

/-- One `w.Write(bs)`: the underlying writer's `k`-th call succeeds iff `okAt k`; a failing call
    accepts a (possibly empty) prefix, here none. The latch is only ever set. -/
def swrite (okAt : Nat → Bool) (bs : List Byte) (w : WState) : WState :=
  if okAt w.k then { w with k := w.k + 1, out := w.out ++ bs }
  else { w with k := w.k + 1, err := true }

mutual
/-- `EncodeBebop` body for a value; `true` in the result: a nested EncodeBebop returned a non-nil
    error and the caller unwinds (`if err != nil { return err }`). -/
def senc (okAt : Nat → Bool) : Val → WState → WState × Bool
  | .scalar w n, st => (swrite okAt (leBytes w n) st, false)
  | .str bs, st => (swrite okAt bs (swrite okAt (leBytes 4 bs.length) st), false)
  | .guid bs, st => (swrite okAt (guidWire bs) st, false)
  | .arr vs, st => sencList okAt vs (swrite okAt (leBytes 4 vs.length) st)
  | .map kvs, st => sencKVs okAt kvs (swrite okAt (leBytes 4 kvs.length) st)
  | .struct [], st => (st, false)         -- `return nil`, whatever w.Err says
  | .struct fs, st =>
      -- err = (%ASGN).EncodeBebop(w): returns w.Err
      let (st', r) := sencList okAt fs st
      (st', r || st'.err)
  | .msg fs, st =>
      let st1 := swrite okAt (leBytes 4 (vsize (.msg fs) - Facts.msgLenAdjust)) st
      let (st2, r) := sencFields okAt fs st1
      if r then (st2, true) else
      let st3 := swrite okAt [0] st2
      (st3, st3.err)
  | .union d v, st =>
      let st1 := swrite okAt (leBytes 4 (vsize (.union d v) - Facts.unionLenAdjust)) st
      let st2 := swrite okAt [UInt8.ofNat d] st1
      let (st3, r) := senc okAt v st2
      (st3, r || st3.err)
def sencList (okAt : Nat → Bool) : List Val → WState → WState × Bool
  | [], st => (st, false)
  | v :: vs, st =>
    let (st', r) := senc okAt v st
    if r then (st', true) else sencList okAt vs st'
def sencKVs (okAt : Nat → Bool) : List (Val × Val) → WState → WState × Bool
  | [], st => (st, false)
  | (k, v) :: kvs, st =>
    let (st1, r1) := senc okAt k st
    if r1 then (st1, true) else
    let (st2, r2) := senc okAt v st1
    if r2 then (st2, true) else sencKVs okAt kvs st2
def sencFields (okAt : Nat → Bool) : List (Nat × Val) → WState → WState × Bool
  | [], st => (st, false)
  | (i, v) :: fs, st =>
    let st1 := swrite okAt [UInt8.ofNat i] st
    let (st2, r) := senc okAt v st1
    if r then (st2, true) else sencFields okAt fs st2
end

/-- Top-level `EncodeBebop(w)`: the final writer state and whether the returned error is non-nil. -/
def encodeStream (okAt : Nat → Bool) (v : Val) : WState × Bool :=
  let (st, r) := senc okAt v { k := 0, err := false, out := [] }
  (st, r || st.err)

end Bebop
