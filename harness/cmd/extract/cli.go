package main

// Tie 1 for C19: the command-line tools' file-system programs.
//
// For main/bebopc-go (entry run) and main/bebopfmt (entry formatFile) the calls that touch the file
// system or can fail -- os.*, bebop.*, and methods of values that came from os.Open / os.Create /
// os.CreateTemp / bebop.ReadFile -- are listed in source order, local helper functions inlined, each with
//   - the role of its path argument(s) (input, target, temp, dir, other),
//   - whether its error result is checked (tested against nil with a return in the body, or returned),
//   - whether it sits in a defer statement.
// lean/Bebop/Generated/CliFacts.lean is the result; Bebop.Text.Cli interprets it as a program over an
// abstract file system and Props/C19 proves the property for every program of the safe shape.

import (
	"fmt"
	"go/ast"
	"go/printer"
	"go/token"
	"os"
	"path/filepath"
	"strconv"
	"strings"
)

type cliStep struct {
	Name     string
	Role     string
	Checked  bool
	Deferred bool
}

type cliWalker struct {
	fset    *token.FileSet
	file    *ast.File
	origin  map[string]string
	steps   []cliStep
	depth   int
	problem []string
}

func exprText(fset *token.FileSet, e ast.Expr) string {
	var b strings.Builder
	_ = printer.Fprint(&b, fset, e)
	return b.String()
}

// role of a path-valued argument expression
func (w *cliWalker) role(e ast.Expr) string {
	t := exprText(w.fset, e)
	switch {
	case t == "*outputFile":
		return "target"
	case t == "*inputFile":
		return "input"
	case t == "path" || t == "fpath":
		// bebopfmt rewrites the file it reads; inside replaceFile `path` is the file to replace
		return "target"
	}
	if c, ok := e.(*ast.CallExpr); ok {
		if s, ok := c.Fun.(*ast.SelectorExpr); ok {
			if x, ok := s.X.(*ast.Ident); ok {
				if w.origin[x.Name] == "temp" && s.Sel.Name == "Name" {
					return "temp"
				}
				if x.Name == "filepath" && s.Sel.Name == "Dir" {
					return "dir"
				}
			}
		}
	}
	return "other"
}

// isErrCheck: `if <id> != nil { ...; return ... }`
func isErrCheck(s ast.Stmt, errName string) bool {
	ifs, ok := s.(*ast.IfStmt)
	if !ok {
		return false
	}
	return condTestsErr(ifs.Cond, errName) && endsInReturn(ifs.Body)
}

func condTestsErr(c ast.Expr, errName string) bool {
	b, ok := c.(*ast.BinaryExpr)
	if !ok || b.Op != token.NEQ {
		return false
	}
	x, ok1 := b.X.(*ast.Ident)
	y, ok2 := b.Y.(*ast.Ident)
	return ok1 && ok2 && x.Name == errName && y.Name == "nil"
}

func endsInReturn(b *ast.BlockStmt) bool {
	if len(b.List) == 0 {
		return false
	}
	_, ok := b.List[len(b.List)-1].(*ast.ReturnStmt)
	return ok
}

func errLHS(lhs []ast.Expr) string {
	for _, l := range lhs {
		if id, ok := l.(*ast.Ident); ok && (id.Name == "err") {
			return id.Name
		}
	}
	return ""
}

var originOf = map[string]string{
	"os.Open": "input", "os.Create": "target", "os.CreateTemp": "temp", "os.OpenFile": "target",
	"bebop.ReadFile": "schema",
}

func callName(c *ast.CallExpr) (pkg, sel string, ok bool) {
	s, isSel := c.Fun.(*ast.SelectorExpr)
	if !isSel {
		return "", "", false
	}
	x, isId := s.X.(*ast.Ident)
	if !isId {
		return "", "", false
	}
	return x.Name, s.Sel.Name, true
}

// visitCall records one call (after its arguments, which are evaluated first).
func (w *cliWalker) visitCall(c *ast.CallExpr, checked, deferred bool) {
	for _, a := range c.Args {
		w.visitExpr(a, false, deferred)
	}
	if id, ok := c.Fun.(*ast.Ident); ok {
		// local helper: inline
		if fd := findFunc(w.file, id.Name); fd != nil && fd.Body != nil && id.Name != "main" {
			if w.depth > 4 {
				w.problem = append(w.problem, "helper nesting too deep at "+id.Name)
				return
			}
			w.depth++
			before := len(w.steps)
			w.block(fd.Body.List, deferred)
			w.depth--
			if !checked {
				// the helper's own checks do not reach the caller
				for i := before; i < len(w.steps); i++ {
					w.steps[i].Checked = false
				}
			}
		}
		return
	}
	pkg, sel, ok := callName(c)
	if !ok {
		if fl, isLit := c.Fun.(*ast.FuncLit); isLit {
			w.block(fl.Body.List, deferred)
		}
		return
	}
	switch {
	case pkg == "os" || pkg == "bebop" || pkg == "ioutil" || pkg == "io":
		if pkg == "os" && (sel == "Exit" || sel == "Args") {
			return
		}
		roles := []string{}
		for _, a := range c.Args {
			r := w.role(a)
			if r != "other" || len(c.Args) == 1 {
				roles = append(roles, r)
			}
		}
		if pkg == "bebop" {
			roles = nil
		}
		w.steps = append(w.steps, cliStep{pkg + "." + sel, strings.Join(roles, ">"), checked, deferred})
	default:
		if o, tracked := w.origin[pkg]; tracked {
			w.steps = append(w.steps, cliStep{o + "." + sel, "", checked, deferred})
		}
	}
}

func (w *cliWalker) visitExpr(e ast.Expr, checked, deferred bool) {
	if e == nil {
		return
	}
	switch x := e.(type) {
	case *ast.CallExpr:
		w.visitCall(x, checked, deferred)
	case *ast.FuncLit:
		// only runs when called; handled at the call site (defer func(){...}())
	default:
		ast.Inspect(e, func(n ast.Node) bool {
			if n == e {
				return true
			}
			if c, ok := n.(*ast.CallExpr); ok {
				w.visitCall(c, false, deferred)
				return false
			}
			if _, ok := n.(*ast.FuncLit); ok {
				return false
			}
			return true
		})
	}
}

func (w *cliWalker) assign(a *ast.AssignStmt, checked, deferred bool) {
	for i, r := range a.Rhs {
		c, isCall := r.(*ast.CallExpr)
		if !isCall {
			w.visitExpr(r, false, deferred)
			continue
		}
		w.visitCall(c, checked, deferred)
		if pkg, sel, ok := callName(c); ok && i == 0 {
			if o, has := originOf[pkg+"."+sel]; has && len(a.Lhs) > 0 {
				if id, ok := a.Lhs[0].(*ast.Ident); ok && id.Name != "_" {
					w.origin[id.Name] = o
				}
			}
		}
	}
}

func (w *cliWalker) block(list []ast.Stmt, deferred bool) {
	for i, s := range list {
		switch st := s.(type) {
		case *ast.AssignStmt:
			en := errLHS(st.Lhs)
			checked := en != "" && i+1 < len(list) && isErrCheck(list[i+1], en)
			w.assign(st, checked, deferred)
		case *ast.ExprStmt:
			w.visitExpr(st.X, false, deferred)
		case *ast.DeferStmt:
			w.visitCall(st.Call, false, true)
		case *ast.ReturnStmt:
			for _, r := range st.Results {
				// `return f(...)`: the error goes to the caller
				w.visitExpr(r, true, deferred)
			}
		case *ast.IfStmt:
			if st.Init != nil {
				if a, ok := st.Init.(*ast.AssignStmt); ok {
					en := errLHS(a.Lhs)
					checked := en != "" && condTestsErr(st.Cond, en) && endsInReturn(st.Body)
					w.assign(a, checked, deferred)
				} else {
					w.block([]ast.Stmt{st.Init}, deferred)
				}
			}
			w.visitExpr(st.Cond, false, deferred)
			w.block(st.Body.List, deferred)
			if st.Else != nil {
				switch e := st.Else.(type) {
				case *ast.BlockStmt:
					w.block(e.List, deferred)
				default:
					w.block([]ast.Stmt{e}, deferred)
				}
			}
		case *ast.BlockStmt:
			w.block(st.List, deferred)
		case *ast.ForStmt:
			w.block(st.Body.List, deferred)
		case *ast.RangeStmt:
			w.visitExpr(st.X, false, deferred)
			w.block(st.Body.List, deferred)
		case *ast.DeclStmt, *ast.IncDecStmt, *ast.BranchStmt, *ast.EmptyStmt:
		default:
			w.problem = append(w.problem, fmt.Sprintf("statement kind %T not handled", s))
		}
	}
}

// mainReportsAndExits: func main() { err := run(); if err != nil { fmt.Println(err); os.Exit(1) }; os.Exit(0) }
func mainReportsAndExits(f *ast.File, fset *token.FileSet) bool {
	fd := findFunc(f, "main")
	if fd == nil || fd.Body == nil || len(fd.Body.List) != 3 {
		return false
	}
	a, ok := fd.Body.List[0].(*ast.AssignStmt)
	if !ok || exprText(fset, a.Rhs[0]) != "run()" || errLHS(a.Lhs) == "" {
		return false
	}
	ifs, ok := fd.Body.List[1].(*ast.IfStmt)
	if !ok || !condTestsErr(ifs.Cond, "err") || len(ifs.Body.List) != 2 {
		return false
	}
	p, ok1 := ifs.Body.List[0].(*ast.ExprStmt)
	e, ok2 := ifs.Body.List[1].(*ast.ExprStmt)
	if !ok1 || !ok2 || !strings.HasPrefix(exprText(fset, p.X), "fmt.Print") || !strings.Contains(exprText(fset, p.X), "err") {
		return false
	}
	if exprText(fset, e.X) != "os.Exit(1)" {
		return false
	}
	z, ok := fd.Body.List[2].(*ast.ExprStmt)
	return ok && exprText(fset, z.X) == "os.Exit(0)"
}

func extractCli(outDir string) {
	type tool struct{ lean, rel, entry string }
	var b strings.Builder
	b.WriteString("/- REGENERATED by /verif/harness/cmd/extract (cli.go) from /repo/main on every check run. Do not edit. -/\n")
	b.WriteString("namespace Bebop.CliFacts\n\n")
	b.WriteString("/-- (call, role of its path argument(s), error checked, deferred), in source order with helpers inlined. -/\n")
	b.WriteString("abbrev RawStep := String × String × Bool × Bool\n\n")
	facts := map[string]interface{}{}
	for _, t := range []tool{{"bebopc", "main/bebopc-go/main.go", "run"}, {"bebopfmt", "main/bebopfmt/main.go", "formatFile"}} {
		fset, f := parseFile(t.rel)
		w := &cliWalker{fset: fset, file: f, origin: map[string]string{}}
		if fd := findFunc(f, t.entry); fd != nil && fd.Body != nil {
			w.block(fd.Body.List, false)
		} else {
			w.problem = append(w.problem, "no func "+t.entry)
		}
		for _, p := range w.problem {
			unrec(t.lean+"Prog", p)
		}
		fmt.Fprintf(&b, "def %sProg : List RawStep := [\n", t.lean)
		rows := []string{}
		var js [][]interface{}
		for _, s := range w.steps {
			rows = append(rows, fmt.Sprintf("  (%s, %s, %v, %v)", strconv.Quote(s.Name), strconv.Quote(s.Role), s.Checked, s.Deferred))
			js = append(js, []interface{}{s.Name, s.Role, s.Checked, s.Deferred})
		}
		if len(w.problem) > 0 {
			rows = append(rows, fmt.Sprintf("  (%s, \"\", false, false)", strconv.Quote("unrecognised: "+strings.Join(w.problem, "; "))))
		}
		b.WriteString(strings.Join(rows, ",\n"))
		b.WriteString("\n]\n\n")
		ok := mainReportsAndExits(f, fset)
		fmt.Fprintf(&b, "/-- main prints the error and exits 1 exactly when run() returns one, and exits 0 otherwise. -/\ndef %sMainReports : Bool := %v\n\n", t.lean, ok)
		facts[t.lean+"Prog"] = js
		facts[t.lean+"MainReports"] = ok
	}
	b.WriteString("end Bebop.CliFacts\n")
	for k, v := range facts {
		rep.Facts[k] = v
	}
	p := filepath.Join(outDir, "CliFacts.lean")
	old, _ := os.ReadFile(p)
	if string(old) == b.String() {
		return
	}
	if err := os.WriteFile(p, []byte(b.String()), 0o644); err != nil {
		fmt.Fprintln(os.Stderr, "extract:", err)
		os.Exit(2)
	}
}
