/-
  C09 — Generator options never change what goes on the wire.

  In the model the five options do not exist: pointer receivers, private names, field tags and the
  shared-memory string reader select between templates that denote the same action, and the model has
  one action per class. What the options DO select is recorded in Bebop.Generated.Facts
  (`optionTemplateClasses`, regenerated from gen_templates.go / gen.go): for every option-dependent
  choice the class of each alternative. The theorem below about those facts is re-checked on every run,
  so an alternative that stops denoting the same action breaks it.  That all 2^5 emitted variants
  compile and behave identically is observed by the correspondence harness, which enumerates all 32.
-/
import Bebop.Props.C01

namespace Bebop

/-- Every option-dependent template choice stays inside one semantic class. -/
theorem C09_option_choices_same_class :
    ∀ c ∈ Facts.optionTemplateClasses, ∀ alt ∈ c.2, alt = c.1 := by decide

/-- Where MustUnmarshalBebop is generated it agrees with UnmarshalBebop on every valid encoding
    (with anything following it). -/
theorem C09_must_agrees_with_unmarshal (env : Env) (hE : EnvOk env) (n : Nat) (v : Val) (fuel : Nat)
    (h : wt env (.ref n) v) (hf : rank v < fuel + 1) (rest : List Byte) :
    unmarshal fuel env false n (enc v ++ rest) = unmarshal fuel env true n (enc v ++ rest) := by
  rw [unmarshal_enc env hE n v false fuel h hf rest, unmarshal_enc env hE n v true fuel h hf rest]

/-- Non-vacuity. -/
example : unmarshal 20 exEnv false 3 (enc exVal ++ [7]) = unmarshal 20 exEnv true 3 (enc exVal ++ [7]) :=
  C09_must_agrees_with_unmarshal exEnv exEnv_ok 3 exVal 20 exVal_wt (by decide) [7]

end Bebop
