/-
  Ast: the File structure of bebop.go (what ReadFile returns), and the strconv functions the parser uses.
  Text is kept as byte lists (Go strings are byte strings).
-/
import Bebop.Bytes
import Bebop.Generated.TextFacts

namespace Bebop.Text

abbrev Str := List Byte

/-- ASCII string literal as bytes (kernel-reducible; only used on ASCII literals). -/
def strOf (s : String) : Str := s.toList.map (fun c => UInt8.ofNat c.toNat)
def strEq (a : Str) (s : String) : Bool := a == strOf s
def showStr (a : Str) : String := String.ofList (a.map (fun c => Char.ofNat c.toNat))

inductive FT where
  | simple (name : Str)
  | map (key : Str) (val : FT)
  | arr (elem : FT)
  deriving Repr, Inhabited, BEq

structure Tag where
  key : Str
  value : Str
  boolean : Bool
  deriving Repr, Inhabited, BEq

structure Field where
  ft : FT
  name : Str
  comment : Str
  tags : List Tag
  depMsg : Str
  deprecated : Bool
  deriving Repr, Inhabited, BEq

structure Struct where
  name : Str
  comment : Str := []
  fields : List Field := []
  opCode : Nat := 0
  readOnly : Bool := false
  deriving Repr, Inhabited, BEq

structure Message where
  name : Str
  comment : Str := []
  fields : List (Nat × Field) := []     -- Go map[uint8]Field: insertion order kept, indices unique
  opCode : Nat := 0
  deriving Repr, Inhabited, BEq

inductive UBody where
  | msg (m : Message)
  | st (s : Struct)
  deriving Repr, Inhabited, BEq

structure UnionField where
  body : UBody
  tags : List Tag
  depMsg : Str
  deprecated : Bool
  deriving Repr, Inhabited, BEq

structure Union where
  name : Str
  comment : Str := []
  fields : List (Nat × UnionField) := []
  opCode : Nat := 0
  deriving Repr, Inhabited, BEq

structure EnumOption where
  name : Str
  comment : Str
  depMsg : Str
  value : Int          -- Value (signed enums)
  uvalue : Nat         -- UintValue (unsigned enums)
  deprecated : Bool
  deriving Repr, Inhabited, BEq

structure Enum where
  name : Str
  comment : Str := []
  options : List EnumOption := []
  simpleType : Str
  unsigned : Bool
  deriving Repr, Inhabited, BEq

structure Const where
  simpleType : Str
  comment : Str := []
  name : Str
  value : Str
  deriving Repr, Inhabited, BEq

structure File where
  structs : List Struct := []
  messages : List Message := []
  enums : List Enum := []
  unions : List Union := []
  consts : List Const := []
  imports : List Str := []
  goPackage : Str := []
  deriving Repr, Inhabited, BEq

/-! ### strconv -/

def digitVal (c : Byte) : Option Nat :=
  if 0x30 ≤ c.toNat && c.toNat ≤ 0x39 then some (c.toNat - 0x30)
  else if 0x61 ≤ c.toNat && c.toNat ≤ 0x7a then some (c.toNat - 0x61 + 10)
  else if 0x41 ≤ c.toNat && c.toNat ≤ 0x5a then some (c.toNat - 0x41 + 10)
  else none

/-- digits of `base`, at least one; no underscores (the tokenizer never produces them). -/
def parseDigits (base : Nat) : List Byte → Nat → Option Nat
  | [], acc => some acc
  | c :: rest, acc =>
    match digitVal c with
    | some d => if d < base then parseDigits base rest (acc * base + d) else none
    | none => none

/-- Magnitude of an unsigned literal as strconv reads it with `base` 0 or 10. `none`: syntax error. -/
def parseMagnitude (s : Str) (base0 : Bool) : Option Nat :=
  if s.isEmpty then none
  else if !base0 then parseDigits 10 s 0
  else
    match s with
    | 0x30 :: x :: rest =>
      if x == 0x78 || x == 0x58 then (if rest.isEmpty then none else parseDigits 16 rest 0)
      else if x == 0x62 || x == 0x42 then (if rest.isEmpty then none else parseDigits 2 rest 0)
      else if x == 0x6f || x == 0x4f then (if rest.isEmpty then none else parseDigits 8 rest 0)
      else parseDigits 8 (x :: rest) 0
    | _ => parseDigits 10 s 0

/-- strconv.ParseUint(s, base, bits) -/
def parseUint (s : Str) (base0 : Bool) (bits : Nat) : Option Nat :=
  match s with
  | 0x2b :: _ | 0x2d :: _ => none
  | _ =>
    match parseMagnitude s base0 with
    | some n => if n < 2 ^ bits then some n else none
    | none => none

/-- strconv.ParseInt(s, base, bits) -/
def parseInt (s : Str) (base0 : Bool) (bits : Nat) : Option Int :=
  let (neg, body) := match s with
    | 0x2d :: r => (true, r)
    | 0x2b :: r => (false, r)
    | _ => (false, s)
  match parseMagnitude body base0 with
  | some n =>
    if neg then (if n ≤ 2 ^ (bits - 1) then some (-(n : Int)) else none)
    else (if n < 2 ^ (bits - 1) then some (n : Int) else none)
  | none => none

/-- Is `s` (including its quotes) a string literal whose strconv.Unquote is simply its content?
    (printable ASCII, no backslash, no quote inside). Anything else is outside the model. -/
def plainQuoted (s : Str) : Option Str :=
  match s with
  | 0x22 :: rest =>
    match rest.getLast? with
    | some 0x22 =>
      let body := rest.dropLast
      if body.all (fun c => 0x20 ≤ c.toNat && c.toNat < 0x7f && c != 0x5c && c != 0x22) then some body else none
    | _ => none
  | _ => none

def isHexDigit (c : Byte) : Bool := (digitVal c).any (· < 16)
def isOctDigit (c : Byte) : Bool := 0x30 ≤ c.toNat && c.toNat ≤ 0x37

/-- The body of a double-quoted literal as strconv.Unquote reads it (ASCII inputs; the parser also
    refuses NUL bytes and invalid UTF-8): no raw newline, every backslash starts a Go escape. -/
def goEscapesOk : Nat → List Byte → Bool
  | 0, _ => false
  | _, [] => true
  | f+1, c :: rest =>
    if c == 0 || c == 0x0a || c == 0x22 then false
    else if c != 0x5c then goEscapesOk f rest
    else
      match rest with
      | [] => false
      | e :: r =>
        if e == 0x61 || e == 0x62 || e == 0x66 || e == 0x6e || e == 0x72 || e == 0x74 || e == 0x76 || e == 0x5c || e == 0x22 then
          goEscapesOk f r
        else if e == 0x78 then
          (match r with
           | a :: b :: r' => isHexDigit a && isHexDigit b && goEscapesOk f r'
           | _ => false)
        else if e == 0x75 then
          (let ds := r.take 4
           ds.length == 4 && ds.all isHexDigit &&
             (match parseDigits 16 ds 0 with
              | some v => !(0xD800 ≤ v && v < 0xE000)
              | none => false) && goEscapesOk f (r.drop 4))
        else if e == 0x55 then
          (let ds := r.take 8
           ds.length == 8 && ds.all isHexDigit &&
             (match parseDigits 16 ds 0 with
              | some v => v ≤ 0x10FFFF && !(0xD800 ≤ v && v < 0xE000)
              | none => false) && goEscapesOk f (r.drop 8))
        else if isOctDigit e then
          (match r with
           | a :: b :: r' =>
             isOctDigit a && isOctDigit b &&
               ((e.toNat - 0x30) * 64 + (a.toNat - 0x30) * 8 + (b.toNat - 0x30) ≤ 255) && goEscapesOk f r'
           | _ => false)
        else false

/-- `strconv.Unquote(lit)` succeeds, and the literal has no NUL byte (readConst's check on string consts). -/
def goStringLitOk (s : Str) : Bool :=
  match s with
  | 0x22 :: rest =>
    match rest.getLast? with
    | some 0x22 => rest.length ≥ 1 && goEscapesOk (rest.length + 1) rest.dropLast
    | _ => false
  | _ => false

/-- bytes.Trim(s, "\"") -/
def trimQuotes (s : Str) : Str :=
  ((s.dropWhile (· == 0x22)).reverse.dropWhile (· == 0x22)).reverse

def isPrimitiveName (s : Str) : Bool := Facts.primitiveTypeNames.any (strEq s)
def isUintName (s : Str) : Bool := Facts.uintTypeNames.any (strEq s)
def isIntName (s : Str) : Bool := Facts.intTypeNames.any (strEq s)
def isFloatName (s : Str) : Bool := Facts.floatTypeNames.any (strEq s)
/-- decodeIntegerType -/
def decodeInteger (s : Str) : Option (Nat × Bool) :=
  (Facts.integerTypes.find? (fun e => strEq s e.1)).map (·.2)

end Bebop.Text
