/-
  Helper lemmas about `gsize` (the generated `Size()` in general, which skips deprecated message fields)
  and its relation to `vsize` (`Size()` of a value without deprecated fields = length of the encoding).
-/
import Bebop.Slice

namespace Bebop

theorem find_msgField (fds : List MsgField) (i : Nat) (fd : MsgField)
    (h : fds.find? (fun fd => fd.idx == i) = some fd) : fd.idx = i := by
  have := List.find?_some h
  simpa using this

theorem gsizeFields_cons_some (env : Env) (fds : List MsgField) (i : Nat) (v : Val) (fs : List (Nat × Val))
    (fd : MsgField) (h : fds.find? (fun fd => fd.idx == i) = some fd) :
    gsizeFields env fds ((i, v) :: fs)
      = (if fd.deprecated = true then 0 else 1 + gsize env fd.ty v) + gsizeFields env fds fs := by
  simp only [gsizeFields, h]

theorem gsizeFields_cons_none (env : Env) (fds : List MsgField) (i : Nat) (v : Val) (fs : List (Nat × Val))
    (h : fds.find? (fun fd => fd.idx == i) = none) :
    gsizeFields env fds ((i, v) :: fs) = gsizeFields env fds fs := by
  simp only [gsizeFields, h, Nat.zero_add]

/-- What the field `(i, v)` adds to a message's `Size()`. -/
def gfield (env : Env) (fds : List MsgField) (i : Nat) (v : Val) : Nat :=
  match fds.find? (fun fd => fd.idx == i) with
  | some fd => if fd.deprecated = true then 0 else 1 + gsize env fd.ty v
  | none => 0

theorem gsizeFields_cons (env : Env) (fds : List MsgField) (i : Nat) (v : Val) (fs : List (Nat × Val)) :
    gsizeFields env fds ((i, v) :: fs) = gfield env fds i v + gsizeFields env fds fs := by
  cases h : fds.find? (fun fd => fd.idx == i) <;> simp only [gsizeFields, gfield, h]

theorem gfield_le (env : Env) (fds : List MsgField) (i : Nat) (v : Val) (fd : MsgField)
    (h : fds.find? (fun fd => fd.idx == i) = some fd) : gfield env fds i v ≤ 1 + gsize env fd.ty v := by
  simp only [gfield, h]
  split <;> omega

/-- What one field adds to `Size()`: at most its tag byte and its value's `Size()`. -/
theorem gsizeFields_cons_le (env : Env) (fds : List MsgField) (i : Nat) (v : Val) (fs : List (Nat × Val))
    (fd : MsgField) (h : fds.find? (fun fd => fd.idx == i) = some fd) :
    gsizeFields env fds ((i, v) :: fs) ≤ 1 + gsize env fd.ty v + gsizeFields env fds fs := by
  rw [gsizeFields_cons_some env fds i v fs fd h]
  split <;> omega

mutual
/-- `Size()` never exceeds the size with every present field counted. -/
theorem gsize_le_vsize (env : Env) : (v : Val) → ∀ ty, gsize env ty v ≤ vsize v
  | .scalar _ _, _ => by simp [gsize, vsize]
  | .str _, _ => by simp [gsize, vsize]
  | .guid _, _ => by simp [gsize, vsize]
  | .arr vs, ty => by
      cases ty with
      | arr t => simp only [gsize, vsize]; have := gsizeList_le env vs t; omega
      | _ => simp [gsize]
  | .map kvs, ty => by
      cases ty with
      | map k t => simp only [gsize, vsize]; have := gsizeKVs_le env kvs k t; omega
      | _ => simp [gsize]
  | .struct fs, ty => by
      simp only [gsize]
      split
      · split
        · simp only [vsize]; exact gsizeStruct_le env fs _
        · exact Nat.le_refl _
      · exact Nat.le_refl _
  | .msg fs, ty => by
      simp only [gsize]
      split
      · split
        · simp only [vsize]; have := gsizeFields_le env fs ‹_›; omega
        · exact Nat.le_refl _
      · exact Nat.le_refl _
  | .union d v, ty => by
      simp only [gsize]
      split
      · split
        · split
          · simp only [vsize]; have := gsize_le_vsize env v (.ref ‹_›); omega
          · simp only [vsize]; omega
        · exact Nat.le_refl _
      · exact Nat.le_refl _
theorem gsizeList_le (env : Env) : (vs : List Val) → ∀ t, gsizeList env t vs ≤ vsizeList vs
  | [], _ => by simp [gsizeList, vsizeList]
  | v :: vs, t => by
      simp only [gsizeList, vsizeList]
      have := gsize_le_vsize env v t
      have := gsizeList_le env vs t
      omega
theorem gsizeKVs_le (env : Env) : (kvs : List (Val × Val)) → ∀ k t, gsizeKVs env k t kvs ≤ vsizeKVs kvs
  | [], _, _ => by simp [gsizeKVs, vsizeKVs]
  | (a, b) :: kvs, k, t => by
      simp only [gsizeKVs, vsizeKVs]
      have := gsize_le_vsize env a k
      have := gsize_le_vsize env b t
      have := gsizeKVs_le env kvs k t
      omega
theorem gsizeStruct_le (env : Env) : (vs : List Val) → ∀ tys, gsizeStruct env tys vs ≤ vsizeList vs
  | [], tys => by cases tys <;> simp [gsizeStruct]
  | v :: vs, [] => by simp [gsizeStruct]
  | v :: vs, t :: tys => by
      simp only [gsizeStruct, vsizeList]
      have := gsize_le_vsize env v t
      have := gsizeStruct_le env vs tys
      omega
theorem gsizeFields_le (env : Env) : (fs : List (Nat × Val)) → ∀ fds, gsizeFields env fds fs ≤ vsizeFields fs
  | [], _ => by simp [gsizeFields, vsizeFields]
  | (i, v) :: fs, fds => by
      have h2 := gsizeFields_le env fs fds
      cases hfd : fds.find? (fun fd => fd.idx == i) with
      | none => rw [gsizeFields_cons_none env fds i v fs hfd]; simp only [vsizeFields]; omega
      | some fd =>
        have := gsize_le_vsize env v fd.ty
        have := gsizeFields_cons_le env fds i v fs fd hfd
        simp only [vsizeFields]; omega
end

mutual
/-- On a well-typed value (no deprecated field present) `Size()` counts everything: `gsize` is `vsize`. -/
theorem gsize_eq_vsize_of_wt (env : Env) : (v : Val) → ∀ ty, wt env ty v → gsize env ty v = vsize v
  | .scalar _ _, _, _ => by simp [gsize, vsize]
  | .str _, _, _ => by simp [gsize, vsize]
  | .guid _, _, _ => by simp [gsize, vsize]
  | .arr vs, ty, h => by
      simp only [wt] at h
      obtain ⟨t, rfl, _, hw, _⟩ := h
      simp only [gsize, vsize, gsizeList_eq_of_wt env vs t hw]
  | .map kvs, ty, h => by
      simp only [wt] at h
      obtain ⟨k, t, rfl, _, _, hw, _⟩ := h
      simp only [gsize, vsize, gsizeKVs_eq_of_wt env kvs k t hw]
  | .struct fs, ty, h => by
      simp only [wt] at h
      obtain ⟨n, tys, rfl, hn, hw⟩ := h
      simp only [gsize, hn, vsize, gsizeStruct_eq_of_wt env fs tys hw]
  | .msg fs, ty, h => by
      simp only [wt] at h
      obtain ⟨n, fds, rfl, hn, hw, _⟩ := h
      simp only [gsize, hn, vsize, gsizeFields_eq_of_wt env fs fds 0 hw]
  | .union d v, ty, h => by
      simp only [wt] at h
      obtain ⟨n, brs, m, rfl, hn, _, hm, hw, _⟩ := h
      simp only [gsize, hn, hm, vsize, gsize_eq_vsize_of_wt env v (.ref m) hw]
theorem gsizeList_eq_of_wt (env : Env) : (vs : List Val) → ∀ t, wtList env t vs → gsizeList env t vs = vsizeList vs
  | [], _, _ => by simp [gsizeList, vsizeList]
  | v :: vs, t, h => by
      simp only [wtList] at h
      simp only [gsizeList, vsizeList, gsize_eq_vsize_of_wt env v t h.1, gsizeList_eq_of_wt env vs t h.2]
theorem gsizeKVs_eq_of_wt (env : Env) :
    (kvs : List (Val × Val)) → ∀ k t, wtKVs env k t kvs → gsizeKVs env k t kvs = vsizeKVs kvs
  | [], _, _, _ => by simp [gsizeKVs, vsizeKVs]
  | (a, b) :: kvs, k, t, h => by
      simp only [wtKVs] at h
      simp only [gsizeKVs, vsizeKVs, gsize_eq_vsize_of_wt env a k h.1, gsize_eq_vsize_of_wt env b t h.2.1,
        gsizeKVs_eq_of_wt env kvs k t h.2.2]
theorem gsizeStruct_eq_of_wt (env : Env) :
    (vs : List Val) → ∀ tys, wtStruct env tys vs → gsizeStruct env tys vs = vsizeList vs
  | [], [], _ => by simp [gsizeStruct, vsizeList]
  | [], _ :: _, h => by simp [wtStruct] at h
  | _ :: _, [], h => by simp [wtStruct] at h
  | v :: vs, t :: tys, h => by
      simp only [wtStruct] at h
      simp only [gsizeStruct, vsizeList, gsize_eq_vsize_of_wt env v t h.1, gsizeStruct_eq_of_wt env vs tys h.2]
theorem gsizeFields_eq_of_wt (env : Env) :
    (fs : List (Nat × Val)) → ∀ fds lo, wtMsg env fds lo fs → gsizeFields env fds fs = vsizeFields fs
  | [], _, _, _ => by simp [gsizeFields, vsizeFields]
  | (i, v) :: fs, fds, lo, h => by
      simp only [wtMsg] at h
      obtain ⟨_, _, ⟨fd, hfd, hdep, hwv⟩, hrest⟩ := h
      rw [gsizeFields_cons_some env fds i v fs fd hfd]
      simp [vsizeFields, hdep, gsize_eq_vsize_of_wt env v fd.ty hwv,
        gsizeFields_eq_of_wt env fs fds i hrest]
end

/-- For a primitive value (all a map key can be) the type plays no role. -/
theorem gsize_key (env env' : Env) (k : Ty) (hk : isKeyTy k = true) (ty : Ty) :
    (a : Val) → wt env' k a → gsize env ty a = vsize a
  | .scalar _ _, _ => by simp [gsize, vsize]
  | .str _, _ => by simp [gsize, vsize]
  | .guid _, _ => by simp [gsize, vsize]
  | .arr _, h => by simp only [wt] at h; obtain ⟨_, rfl, _⟩ := h; simp [isKeyTy] at hk
  | .map _, h => by simp only [wt] at h; obtain ⟨_, _, rfl, _⟩ := h; simp [isKeyTy] at hk
  | .struct _, h => by simp only [wt] at h; obtain ⟨_, _, rfl, _⟩ := h; simp [isKeyTy] at hk
  | .msg _, h => by simp only [wt] at h; obtain ⟨_, _, rfl, _⟩ := h; simp [isKeyTy] at hk
  | .union _ _, h => by simp only [wt] at h; obtain ⟨_, _, _, rfl, _⟩ := h; simp [isKeyTy] at hk

/-- The union with no member set is never larger than `vsize` says (Go: `Size()` is the bare 4 when no member
    is set; `vsize` counts the discriminator byte too). -/
theorem gsize_emptyUnion_le (env : Env) (ty : Ty) : gsize env ty emptyUnion ≤ vsize emptyUnion :=
  gsize_le_vsize env _ ty

end Bebop
