package main

import (
	"bytes"
	"compress/gzip"
	"encoding/base64"
	"fmt"
	"math/rand"
	"regexp"
	"strconv"
	"strings"
	"time"

	"verif/harness/internal/pkgbuild"
	"verif/harness/internal/schema"
	"verif/harness/internal/session"
	"verif/harness/internal/val"
)

// schemaCase is one schema of the run.
type schemaCase struct {
	id   string
	file schema.File
	env  *schema.Env
	text string
}

func newSchemaCase(id string, f schema.File) *schemaCase {
	return &schemaCase{id: id, file: f, env: schema.Compile(f), text: schema.Render(f)}
}

// encoded is a remembered encoding, used as trailing data and in sequences.
type encoded struct {
	def  int
	b    []byte
	want string
}

// pkgRun is the state of the property loops over one package.
type pkgRun struct {
	ctxClass   string // class attached to failures reported while it is set
	longRound  bool   // the current value carries a planted long string
	hugeRound  bool   // ... of more than 1 MiB
	roundsDone int
	eng        *engine
	sc         *schemaCase
	pkg        *pkgbuild.Package
	drv        *session.Session
	mdl        *session.Session // nil: no model
	rng        *rand.Rand
	stats      map[string]*PropStats
	pool       []encoded
	deadline   time.Time
	envLines   []string
	dead       bool // the driver or the model cannot be restarted
	timeouts   int  // driver timeouts so far (C07 stops drawing wild corruptions after two)
	bad        int  // driver crashes and timeouts so far (C07 slows down after maxBad)
}

func (r *pkgRun) on(prop string) bool { return r.eng.props[prop] }

func (r *pkgRun) st(prop string) *PropStats {
	s := r.stats[prop]
	if s == nil {
		s = newPropStats(prop)
		r.stats[prop] = s
	}
	return s
}

// eval counts one evaluation of prop on def di.
func (r *pkgRun) eval(prop string, di int, sizeBucket, outcome string, distinctKey ...string) {
	s := r.st(prop)
	s.Evaluations++
	d := r.sc.env.Defs[di]
	s.dist("record_kind", d.Kind.String())
	for _, sh := range r.sc.env.Shapes(di) {
		s.dist("shape_class", sh)
	}
	if sizeBucket != "" {
		s.dist("size_bucket", sizeBucket)
	}
	s.dist("outcome", outcome)
	s.dist("options", r.pkg.Options.String())
	if len(distinctKey) > 0 {
		s.distinct[hash64(append([]string{r.sc.id, d.Name}, distinctKey...)...)] = struct{}{}
	}
}

func (r *pkgRun) sample(prop string, format string, args ...interface{}) {
	s := r.st(prop)
	if len(s.Samples) < 2 {
		s.Samples = append(s.Samples, session.Abbrev(fmt.Sprintf("%s[%s] ", r.sc.id, r.pkg.Options)+fmt.Sprintf(format, args...), 600))
	}
}

func (r *pkgRun) fail(prop, kind string, di int, op, expected, observed, model, note string) {
	class := r.ctxClass
	if kind == "alloc" || kind == "crash" || kind == "timeout" {
		path := "slice"
		if strings.HasPrefix(op, "decode") || strings.HasPrefix(op, "make ") || strings.HasPrefix(op, "decs") {
			path = "stream"
		}
		class = strings.TrimPrefix(class+" resource:"+kind+":"+path, " ")
		// the listed resource findings have ONE cause: a count or length on the wire that is believed although the
		// input cannot hold that many elements -- the decoders allocate for it (out of memory, or far too much) or
		// loop over it (elements that take no bytes, or a stream that has run dry). Anything else is something else:
		//  * a crash with a report that is not the runtime's out-of-memory one (stack overflow, a fatal error, a signal);
		//  * a hang on an input that the model gets through: the model declines exactly the inputs with a
		//    run-away count ("fuel": a loop over more than 65536 elements that consume nothing).
		if kind == "crash" && !strings.Contains(observed, "out_of_memory") && !strings.Contains(observed, "no_stderr") {
			class += ":not-out-of-memory"
		}
		if kind == "timeout" && r.mdl != nil && !r.modelDeclines(op) {
			class += ":not-a-runaway-count"
		}
	}
	names := make([]string, len(r.sc.env.Defs))
	for i, d := range r.sc.env.Defs {
		names[i] = d.Name
	}
	opGz := ""
	if len(op) > 400000 {
		var zb bytes.Buffer
		zw := gzip.NewWriter(&zb)
		zw.Write([]byte(op))
		zw.Close()
		opGz = base64.StdEncoding.EncodeToString(zb.Bytes())
	}
	r.eng.coll.fail(Failure{
		Class: class, DefNames: names, OpGz: opGz,
		Property: prop, Kind: kind, Package: r.pkg.ID, Schema: r.sc.text, Options: r.pkg.Options,
		Def: r.sc.env.Defs[di].Name, DefIdx: di, Env: r.envLines,
		Op: session.Abbrev(op, 400000), Expected: session.Abbrev(expected, 2000), Observed: session.Abbrev(observed, 2000),
		Model: session.Abbrev(model, 2000), Note: note,
	})
}

// real performs a driver operation. Crash / timeout / panic / bad-op classes are reported by
// the callers, which know which classes are acceptable.
func (r *pkgRun) real(line string) session.Resp {
	resp, err := r.drv.Do(line)
	if err != nil {
		r.dead = true
		r.eng.note("driver of %s cannot be restarted: %v", r.pkg.ID, err)
		return resp
	}
	if resp.Class == "timeout" && !r.modelDeclines(line) {
		// the model gets through this input (or the operation decodes nothing), so a run-away count does not explain
		// the silence: before calling it a hang, give the operation a fresh driver and much more time -- on a loaded
		// machine an innocent operation can miss the short deadline
		if slow, err2 := session.OpenDriver(r.pkg, r.sc.env, 5*r.eng.opTimeout); err2 == nil {
			again, err3 := slow.Do(line)
			slow.Close()
			if err3 == nil && again.Class != "timeout" {
				r.eng.note("driver of %s: `%s` missed the %v deadline once and answered in a fresh process", r.pkg.ID, session.Abbrev(line, 80), r.eng.opTimeout)
				return again
			}
		}
	}
	if resp.Class == "crash" && (smallBlockOOM(resp.Raw) || strings.Contains(resp.Raw, "no_stderr")) {
		// the driver is a long-lived process with a memory cap. When it dies for want of a SMALL block (this operation
		// did not ask for much; the heap was full of what earlier operations left behind, and those are measured and
		// reported one by one by the allocation checks), the operation is attributed the crash only if it crashes a
		// fresh driver too. A request for a large block is the operation's own doing and is never retried. A
		// process that died without a word (killed from outside: the kernel's OOM killer under load) is retried too.
		again, err2 := r.drv.Do(line)
		if err2 != nil {
			r.dead = true
			r.eng.note("driver of %s cannot be restarted: %v", r.pkg.ID, err2)
			return resp
		}
		if again.Class != "crash" {
			r.eng.note("driver of %s: crash on `%s` (%s) did not recur in a fresh process", r.pkg.ID, session.Abbrev(line, 80), resp.Short())
			return again
		}
	}
	return resp
}

// model performs a model operation; ok=false when there is no model or it misbehaved
// (misbehaviour is reported as a failure of kind "model").
func (r *pkgRun) model(prop string, di int, line string) (session.Resp, bool) {
	if r.mdl == nil {
		r.st(prop).ModelSkipped++
		return session.Resp{}, false
	}
	resp, err := r.mdl.Do(line)
	if err != nil {
		r.mdl.Close()
		r.mdl = nil
		r.eng.note("model for %s cannot be restarted: %v", r.pkg.ID, err)
		r.fail(prop, "model", di, line, "a response", "model died: "+err.Error(), resp.Raw, "")
		return resp, false
	}
	switch resp.Class {
	case "ok", "err", "panic":
		r.st(prop).ModelCompared++
		return resp, true
	case "fuel":
		if prop == "C07" {
			// the model declines run-away counts (a loop over more than 65536 elements that consume
			// nothing); nothing to compare
			r.st(prop).dist("model", "declined-runaway-count")
			r.st(prop).ModelSkipped++
			return resp, false
		}
	}
	r.st(prop).ModelSkipped++
	r.fail(prop, "model", di, line, "ok|err|panic", "", resp.Short(), "the model did not answer the request")
	return resp, false
}

// badReal reports driver answers that are never acceptable and returns true for them.
func (r *pkgRun) badReal(prop string, di int, op string, resp session.Resp, allowPanic bool, notes ...string) bool {
	note := strings.Join(notes, "; ")
	switch resp.Class {
	case "crash", "timeout":
		if resp.Class == "timeout" {
			r.timeouts++
		}
		r.bad++
		r.fail(prop, resp.Class, di, op, "ok|err", resp.Short(), "", note)
		return true
	case "panic":
		if allowPanic {
			return false
		}
		r.fail(prop, "panic", di, op, "ok|err", resp.Short(), "", note)
		return true
	case "bad-op", "?":
		r.fail(prop, "oracle", di, op, "a protocol answer", resp.Short(), "", "driver rejected the request (harness or driver defect)")
		return true
	}
	return false
}

func (r *pkgRun) expired() bool { return r.dead || time.Now().After(r.deadline) }

// conformant checks that hexB is a conformant encoding of the value whose canonical form is want.
// It returns "" or a description of the violation; skipped=true without a model.
func (r *pkgRun) conformant(prop string, di int, hexB, want string) (problem string, skipped bool) {
	line := fmt.Sprintf("dec 1 %d %s", di, hexB)
	md, ok := r.model(prop, di, line)
	if !ok {
		return "", true
	}
	w, err := md.Val()
	if err != nil {
		return "model " + line + " -> " + md.Short(), false
	}
	if w.CanonString() != want {
		return "model decodes the bytes to " + w.CanonString(), false
	}
	me, ok := r.model(prop, di, "enc "+w.String())
	if !ok {
		return "", true
	}
	if me.Class != "ok" || len(me.Fields) < 1 || me.Fields[0] != hexB {
		return "model re-encodes the decoded value (in wire order) to " + me.Short(), false
	}
	return "", false
}

// valueRng gives the deterministic generator of (schema, def, round): the same under every
// option set, which C09 relies on.
func (r *pkgRun) valueRng(di, round int) *rand.Rand {
	return rand.New(rand.NewSource(int64(hash64(fmt.Sprint(r.eng.seed), r.sc.id, fmt.Sprint(di), fmt.Sprint(round)) >> 1)))
}

func genConfigFor(round int) val.GenConfig {
	cfg := val.GenConfig{NoBig: round%4 != 3}
	if round%5 == 2 {
		cfg.SmallLen = 9
	}
	// every third round (from the first on; rounds 1 and 2 plant long strings) also populates deprecated message
	// fields: the encoders must skip them
	cfg.SetDeprecated = round%3 == 0
	return cfg
}

// run executes the property loops over every def, in rounds, until the deadline.
func (r *pkgRun) run(rounds int) {
	for round := 0; round < rounds && !r.expired(); round++ {
		for di := range r.sc.env.Defs {
			if r.expired() {
				break
			}
			r.evalValue(di, round)
		}
		if !r.expired() {
			r.roundsDone = round + 1
		}
	}
}

// evalValue runs every enabled property on one generated value of def di.
func (r *pkgRun) evalValue(di, round int) {
	env := r.sc.env
	raw := val.RandomRecord(r.valueRng(di, round), env, di, genConfigFor(round))
	// two rounds plant one long string (beyond 4 KiB, beyond 64 KiB) as the last string of the value: a decoder may
	// read long strings by another route, and every truncation / reader failure inside them must still surface
	r.longRound, r.hugeRound = false, false
	plan := map[int]int{(1 + di%2): 4097 + di%5, (2 - di%2): 65537 + di%7}
	if strings.HasPrefix(env.Defs[di].Name, "EndsInStr") {
		plan[4] = 1<<20 + 1 + di%3 // once per package, for the records whose last read is a string: beyond 1 MiB
	}
	if n := plan[round]; n > 0 {
		if planted, ok := val.PlantLongString(raw, n); ok {
			raw, r.longRound = planted, true
			r.st("C06").dist("long-string", fmt.Sprint(n/1000, "k"))
			r.hugeRound = n > 1<<20
		}
	}
	// V is what the wire can carry: deprecated fields are never written. The driver gets raw
	// (vs), the model and the expectations use V (ms).
	V := val.StripDeprecated(env, schema.Ty{K: schema.TyRef, Ref: di}, raw)
	vs := raw.String()
	ms := V.String()
	want := V.CanonString()
	multi := V.HasMultiMap()
	bucket := V.SizeBucket()

	opMarshal := fmt.Sprintf("marshal %d %s", di, vs)
	rm := r.real(opMarshal)
	if r.badReal("C02", di, opMarshal, rm, false) {
		// no bytes at all for a well-typed value: there is no round trip (C01) and no conformant encoding (C03) either
		r.badReal("C01", di, opMarshal, rm, false, "MarshalBebop of a well-typed value does not return")
		r.badReal("C03", di, opMarshal, rm, false, "MarshalBebop of a well-typed value does not return")
		return
	}
	if rm.Class != "ok" || len(rm.Fields) != 1 {
		for _, p := range []string{"C02", "C01", "C03"} {
			r.fail(p, "oracle", di, opMarshal, "ok <hex>", rm.Short(), "", "MarshalBebop of a well-typed value fails")
		}
		return
	}
	hexB := rm.Fields[0]
	B, _ := val.Unhex(hexB)
	if r.longRound {
		r.longChecks(di, vs, want, multi, B, hexB, bucket)
		return
	}

	var mHex string
	mSize := -1
	haveModelEnc := false
	if me, ok := r.model("C03", di, "enc "+ms); ok {
		if me.Class == "ok" && len(me.Fields) == 2 {
			mHex = me.Fields[0]
			mSize, _ = me.Int(1)
			haveModelEnc = true
		} else {
			r.fail("C03", "model", di, "enc "+ms, "ok <hex> <vsize>", "", me.Short(), "model cannot encode a generated value")
		}
	}

	encodings := []string{hexB} // distinct outputs of the three real encoders
	addEncoding := func(h string) {
		for _, e := range encodings {
			if e == h {
				return
			}
		}
		encodings = append(encodings, h)
	}
	encodeCalls := -1

	// ---- C02 ----
	if r.on("C02") {
		outcome := "ok"
		opSize := fmt.Sprintf("size %d %s", di, vs)
		rs := r.real(opSize)
		sz := -1
		if !r.badReal("C02", di, opSize, rs, false) {
			sz, _ = rs.Int(0)
			if rs.Class != "ok" || sz != len(B) {
				outcome = "fail"
				r.fail("C02", "oracle", di, opSize, fmt.Sprintf("ok %d (= len(MarshalBebop()))", len(B)), rs.Short(), "", "marshal gave "+hexB)
			}
			if haveModelEnc && mSize != sz {
				outcome = "fail"
				r.fail("C02", "mismatch", di, opSize, fmt.Sprintf("vsize %d", mSize), rs.Short(), fmt.Sprintf("ok %s %d", mHex, mSize), "")
			}
		} else {
			outcome = "fail"
		}
		for fi, fill := range []string{"0", "255", fmt.Sprintf("r%d", round+1)} {
			for _, extra := range []int{0, 7} {
				op := fmt.Sprintf("marshalto %d %s %d %s", di, fill, extra, vs)
				rt := r.real(op)
				if r.badReal("C02", di, op, rt, false) {
					outcome = "fail"
					continue
				}
				buf, err1 := rt.Bytes(0)
				n, err2 := rt.Int(1)
				if rt.Class != "ok" || err1 != nil || err2 != nil {
					outcome = "fail"
					r.fail("C02", "oracle", di, op, "ok <hex> <n>", rt.Short(), "", "")
					continue
				}
				orig := make([]byte, len(buf))
				switch fi {
				case 1:
					for i := range orig {
						orig[i] = 0xff
					}
				case 2:
					rand.New(rand.NewSource(int64(round + 1))).Read(orig)
				}
				if n != len(B) || len(buf) != len(B)+extra {
					outcome = "fail"
					r.fail("C02", "oracle", di, op, fmt.Sprintf("n = %d, buffer of %d bytes", len(B), len(B)+extra), rt.Short(), "", "MarshalBebopTo returned a length different from Size()")
					continue
				}
				if !bytes.Equal(buf[n:], orig[n:]) {
					outcome = "fail"
					r.fail("C02", "oracle", di, op, "tail "+val.Hex(orig[n:]), "tail "+val.Hex(buf[n:]), "", "MarshalBebopTo wrote beyond Size()")
				}
				head := val.Hex(buf[:n])
				if fi == 0 && extra == 0 {
					addEncoding(head)
				}
				if !multi {
					if head != hexB {
						outcome = "fail"
						r.fail("C02", "oracle", di, op, hexB, head, "", "MarshalBebopTo and MarshalBebop differ")
					}
					// C03 is about every encoder: what MarshalBebopTo leaves in a buffer with arbitrary prior contents
					// must be the reference encoding too
					if haveModelEnc && head != mHex && r.on("C03") {
						r.fail("C03", "mismatch", di, op, mHex, head, "", "MarshalBebopTo's bytes differ from the reference encoding")
					}
				} else if fi == 0 && extra == 7 {
					if p, _ := r.conformant("C02", di, head, want); p != "" {
						outcome = "fail"
						r.fail("C02", "mismatch", di, op, "a conformant encoding of V", head, p, "")
					}
				}
				if !multi && fi == 2 && extra == 7 {
					mop := fmt.Sprintf("marshalto %s %s", val.Hex(orig), ms)
					if mt, ok := r.model("C02", di, mop); ok {
						if mt.Class != "ok" || len(mt.Fields) != 2 || mt.Fields[0] != val.Hex(buf) || mt.Fields[1] != fmt.Sprint(n) {
							outcome = "fail"
							r.fail("C02", "mismatch", di, op, "the model's buffer and n", rt.Short(), mt.Short(), "model op: "+session.Abbrev(mop, 300))
						}
					}
				}
			}
		}
		opEnc := fmt.Sprintf("encode %d %s", di, vs)
		re := r.real(opEnc)
		if r.badReal("C02", di, opEnc, re, false) {
			outcome = "fail"
		} else if re.Class != "ok" || len(re.Fields) != 2 {
			outcome = "fail"
			r.fail("C02", "oracle", di, opEnc, "ok <hex> <calls>", re.Short(), "", "")
		} else {
			eb, _ := re.Bytes(0)
			encodeCalls, _ = re.Int(1)
			addEncoding(re.Fields[0])
			if len(eb) != len(B) {
				outcome = "fail"
				r.fail("C02", "oracle", di, opEnc, fmt.Sprintf("%d bytes", len(B)), fmt.Sprintf("%d bytes: %s", len(eb), re.Fields[0]), "", "EncodeBebop length differs from Size()")
			} else if !multi && re.Fields[0] != hexB {
				outcome = "fail"
				r.fail("C02", "oracle", di, opEnc, hexB, re.Fields[0], "", "EncodeBebop and MarshalBebop differ")
				if haveModelEnc && re.Fields[0] != mHex && r.on("C03") {
					r.fail("C03", "mismatch", di, opEnc, mHex, re.Fields[0], "", "EncodeBebop's bytes differ from the reference encoding")
				}
			} else if multi {
				if p, _ := r.conformant("C02", di, re.Fields[0], want); p != "" {
					outcome = "fail"
					r.fail("C02", "mismatch", di, opEnc, "a conformant encoding of V", re.Fields[0], p, "")
				}
			}
		}
		// a Go union value may hold more than one non-nil member; the encoders and Size() must still agree with
		// each other on it (they pick the first)
		if V.HasUnion() && round%2 == 0 {
			r.real("extramembers 1")
			rs := r.real(fmt.Sprintf("size %d %s", di, vs))
			rm2 := r.real(opMarshal)
			rt2 := r.real(fmt.Sprintf("marshalto %d 2 0 %s", di, vs))
			re2 := r.real(opEnc)
			r.real("extramembers 0")
			if rs.Class == "ok" && rm2.Class == "ok" && len(rm2.Fields) == 1 && !r.badReal("C02", di, "extramembers: "+opEnc, re2, false) && !r.badReal("C02", di, "extramembers: marshalto", rt2, false) {
				n2, _ := rs.Int(0)
				b2, _ := rm2.Bytes(0)
				if len(b2) != n2 {
					outcome = "fail"
					r.fail("C02", "oracle", di, opMarshal, fmt.Sprintf("%d bytes (Size())", n2), fmt.Sprintf("%d bytes", len(b2)), "", "with later union members also non-nil: MarshalBebop's length is not Size()")
				}
				if re2.Class == "ok" && len(re2.Fields) == 2 {
					if eb2, _ := re2.Bytes(0); len(eb2) != n2 || (!multi && re2.Fields[0] != rm2.Fields[0]) {
						outcome = "fail"
						r.fail("C02", "oracle", di, opEnc, rm2.Fields[0], re2.Fields[0], "", fmt.Sprintf("with later union members also non-nil: EncodeBebop differs from MarshalBebop / Size()=%d", n2))
					}
				}
				if rt2.Class == "ok" && len(rt2.Fields) == 2 {
					if wrote, _ := rt2.Int(1); wrote != n2 {
						outcome = "fail"
						r.fail("C02", "oracle", di, "marshalto", fmt.Sprint(n2), fmt.Sprint(wrote), "", "with later union members also non-nil: MarshalBebopTo does not return Size()")
					}
				}
			}
		}
		r.eval("C02", di, bucket, outcome, vs)
		r.sample("C02", "%s: V=%s Size=%d B=%s", env.Defs[di].Name, vs, len(B), hexB)
	}

	// ---- C03 ----
	if r.on("C03") {
		outcome := "ok"
		if haveModelEnc && !multi && mHex != hexB {
			outcome = "fail"
			r.fail("C03", "mismatch", di, opMarshal, mHex, hexB, fmt.Sprintf("ok %s %d", mHex, mSize), "real bytes differ from the reference encoding")
		}
		if p, skipped := r.conformant("C03", di, hexB, want); p != "" {
			outcome = "fail"
			r.fail("C03", "mismatch", di, opMarshal, "a conformant encoding of V", hexB, p, "")
		} else if skipped {
			outcome = "no-model"
		}
		if r.mdl != nil {
			perms := 1
			if multi {
				perms = 3
			}
			for p := 0; p < perms; p++ {
				vp := V
				if multi {
					vp = val.Permute(r.rng, V)
				}
				mp, ok := r.model("C03", di, "enc "+vp.String())
				if !ok || mp.Class != "ok" || len(mp.Fields) != 2 {
					continue
				}
				ref := mp.Fields[0]
				for _, op := range []string{fmt.Sprintf("unmarshal %d %s", di, ref), fmt.Sprintf("decode %d all %s", di, ref)} {
					rd := r.real(op)
					if r.badReal("C03", di, op, rd, false) {
						outcome = "fail"
						continue
					}
					var got val.Val
					var err error
					if strings.HasPrefix(op, "decode") {
						got, _, err = rd.ValConsumed()
					} else {
						got, err = rd.Val()
					}
					if err != nil || got.CanonString() != want {
						outcome = "fail"
						r.fail("C03", "oracle", di, op, "ok "+want, rd.Short(), mp.Short(), "a reference encoding of a permutation of V does not decode to V")
					}
				}
			}
		}
		r.eval("C03", di, bucket, outcome, vs)
		r.sample("C03", "%s: V=%s B=%s reference=%s", env.Defs[di].Name, vs, hexB, mHex)
	}

	// ---- C01 ----
	decodedCanon := ""
	unmarshalRejected := ""
	roundTripOK := true
	if r.on("C01") || r.on("C09") {
		outcome := "ok"
		defer func() { _ = outcome }()
		for ei, e := range encodings {
			ops := []string{"unmarshal", "mustunmarshal", "decode"}
			if ei == 0 {
				ops = append(ops, "makefrombytes", "mustmakefrombytes", "make", "decode-deof")
			}
			for _, name := range ops {
				var op string
				stream := name == "decode" || name == "make" || name == "decode-deof"
				if name == "decode-deof" {
					// the record ends the stream and its last bytes arrive together with io.EOF
					op = fmt.Sprintf("decode %d deof %s", di, e)
				} else if stream {
					op = fmt.Sprintf("%s %d all %s", name, di, e)
				} else {
					op = fmt.Sprintf("%s %d %s", name, di, e)
				}
				rd := r.real(op)
				if rd.Class == "absent" {
					continue
				}
				if r.badReal("C01", di, op, rd, false) {
					outcome = "fail"
					continue
				}
				var got val.Val
				var err error
				consumed := len(e) / 2
				if stream {
					got, consumed, err = rd.ValConsumed()
				} else {
					got, err = rd.Val()
				}
				if err != nil {
					outcome = "fail"
					r.fail("C01", "oracle", di, op, "ok "+want, rd.Short(), "", "decoding the output of a real encoder failed; V = "+vs)
					if name == "unmarshal" && ei == 0 {
						unmarshalRejected = rd.Short()
					}
					continue
				}
				gc := got.CanonString()
				if name == "mustunmarshal" && ei == 0 && unmarshalRejected != "" && gc == want && r.on("C09") {
					// C09: where both exist the two decoders agree on every valid encoding
					r.fail("C09", "oracle", di, op, unmarshalRejected+" (UnmarshalBebop)", rd.Short(), "", "MustUnmarshalBebop decodes a valid encoding that UnmarshalBebop rejects")
				}
				if name == "unmarshal" && ei == 0 {
					decodedCanon = gc
				}
				if gc != want {
					outcome = "fail"
					r.fail("C01", "oracle", di, op, "ok "+want, rd.Short(), "", "round trip changed the value")
				} else if stream && e != "-" && consumed != len(e)/2 {
					outcome = "fail"
					r.fail("C01", "oracle", di, op, fmt.Sprintf("consumed %d", len(e)/2), rd.Short(), "", "stream decoder did not consume the whole encoding")
				}
				if name == "mustunmarshal" && decodedCanon != "" && ei == 0 && gc != decodedCanon && r.on("C09") {
					r.fail("C09", "oracle", di, op, "ok "+decodedCanon, rd.Short(), "", "MustUnmarshalBebop differs from UnmarshalBebop")
				}
			}
			if r.on("C01") {
				for _, mop := range []string{fmt.Sprintf("dec 1 %d %s", di, e), fmt.Sprintf("dec 0 %d %s", di, e)} {
					if md, ok := r.model("C01", di, mop); ok {
						w, err := md.Val()
						if err != nil || w.CanonString() != want {
							outcome = "fail"
							r.fail("C01", "mismatch", di, mop, "ok "+want, "real decoders gave V", md.Short(), "model decodes real bytes differently")
						}
					}
				}
				mop := fmt.Sprintf("decs %d %s", di, e)
				if md, ok := r.model("C01", di, mop); ok {
					w, consumed, err := md.ValConsumed()
					if err != nil || w.CanonString() != want || (e != "-" && consumed != len(e)/2) {
						outcome = "fail"
						r.fail("C01", "mismatch", di, mop, fmt.Sprintf("ok %s %d", want, len(e)/2), "real decoders gave V", md.Short(), "model stream-decodes real bytes differently")
					}
				}
			}
		}
		roundTripOK = outcome == "ok"
		if r.on("C01") {
			r.eval("C01", di, bucket, outcome, vs)
			r.sample("C01", "%s: V=%s encodings=%d B=%s", env.Defs[di].Name, vs, len(encodings), hexB)
		}
	}

	// ---- C09 (bookkeeping; compared across option sets at the end) ----
	if r.on("C09") {
		bh := uint64(0)
		if !multi {
			bh = hash64(hexB)
		}
		r.eng.c09record(r.sc.id, di, round, r.pkg.Options.Bits(), bh, hash64(decodedCanon), multi, roundTripOK)
		if multi {
			if p, _ := r.conformant("C09", di, hexB, want); p != "" {
				r.fail("C09", "mismatch", di, opMarshal, "a conformant encoding of V", hexB, p, "")
			}
		}
	}

	// ---- C05 ----
	if r.on("C05") {
		r.c05(di, round, V, B, hexB, want, bucket)
	}
	heavy := (round%5 == 0 && len(B) <= r.eng.maxHeavyLen) || r.longRound
	// ---- C06 ----
	if r.on("C06") && heavy {
		r.c06(di, B, hexB, bucket)
	}
	// ---- C07 ----
	if r.on("C07") {
		r.c07(di, round, B, bucket)
	}
	// ---- C08 ----
	if r.on("C08") && heavy {
		r.c08(di, vs, want, multi, B, hexB, encodeCalls, bucket)
	}

	if len(r.pool) < 64 {
		r.pool = append(r.pool, encoded{di, B, want})
	} else {
		r.pool[r.rng.Intn(len(r.pool))] = encoded{di, B, want}
	}
}

// longChecks is what a value with a planted long string goes through: the plain round trip, every kind of
// truncation and every kind of reader / writer failure, on the real code only (operations of this size are too
// slow to mirror in the model one by one; the model is compared on the ordinary rounds).
func (r *pkgRun) longChecks(di int, vs, want string, multi bool, B []byte, hexB, bucket string) {
	if r.on("C01") {
		outcome := "ok"
		for _, op := range []string{fmt.Sprintf("unmarshal %d %s", di, hexB), fmt.Sprintf("decode %d all %s", di, hexB), fmt.Sprintf("decode %d one %s", di, hexB)} {
			rd := r.real(op)
			if r.badReal("C01", di, op, rd, false) {
				outcome = "fail"
				continue
			}
			var got val.Val
			var err error
			if strings.HasPrefix(op, "decode") {
				got, _, err = rd.ValConsumed()
			} else {
				got, err = rd.Val()
			}
			if err != nil || got.CanonString() != want {
				outcome = "fail"
				r.fail("C01", "oracle", di, op, "ok "+session.Abbrev(want, 300), rd.Short(), "", "a value with a long string does not survive the round trip")
			}
		}
		r.eval("C01", di, bucket, outcome, vs)
	}
	if r.on("C05") {
		// the record followed by more data, from readers that hand over everything they are asked for (and more
		// than the record needs is available): a long string must not be read past its end
		outcome := "ok"
		trail := make([]byte, 4096+r.rng.Intn(4096))
		r.rng.Read(trail)
		data := val.Hex(append(append([]byte(nil), B...), trail...))
		for _, chunk := range []string{"all", "seek", "bufio"} {
			op := fmt.Sprintf("decode %d %s %s", di, chunk, data)
			rd := r.real(op)
			if r.badReal("C05", di, op, rd, false) {
				outcome = "fail"
				continue
			}
			got, consumed, err := rd.ValConsumed()
			if err != nil || got.CanonString() != want {
				outcome = "fail"
				r.fail("C05", "oracle", di, op, "ok "+session.Abbrev(want, 300), rd.Short(), "", "a record with a long string, followed by more data, does not decode to its value")
			} else if consumed != len(B) {
				outcome = "fail"
				r.fail("C05", "oracle", di, op, fmt.Sprintf("consumed %d", len(B)), fmt.Sprintf("consumed %d", consumed), "", "a record with a long string does not leave the reader at its end")
			}
		}
		r.eval("C05", di, bucket, outcome+"-long", vs)
	}
	if r.on("C06") {
		r.c06(di, B, hexB, bucket)
	}
	if r.on("C08") {
		r.c08(di, vs, want, multi, B, hexB, -1, bucket)
	}
}

func (r *pkgRun) c05(di, round int, V val.Val, B []byte, hexB, want, bucket string) {
	var trail []byte
	if len(r.pool) > 0 && r.rng.Intn(2) == 0 {
		trail = r.pool[r.rng.Intn(len(r.pool))].b
	}
	if len(trail) == 0 {
		trail = make([]byte, 1+r.rng.Intn(16))
		r.rng.Read(trail)
	}
	data := val.Hex(append(append([]byte(nil), B...), trail...))
	var md session.Resp
	haveModel := false
	mop := fmt.Sprintf("decs %d %s", di, data)
	if m, ok := r.model("C05", di, mop); ok {
		md, haveModel = m, true
		w, consumed, err := m.ValConsumed()
		if err != nil || w.CanonString() != want || consumed != len(B) {
			r.fail("C05", "mismatch", di, mop, fmt.Sprintf("ok %s %d", want, len(B)), "", m.Short(), "model decs on encoding ++ trailing data")
		}
	}
	for _, chunk := range []string{"all", "one", fmt.Sprintf("rnd%d", round*7+di), "seek", "bufio"} {
		op := fmt.Sprintf("decode %d %s %s", di, chunk, data)
		rd := r.real(op)
		outcome := "ok"
		if r.badReal("C05", di, op, rd, false) {
			outcome = "fail"
		} else {
			got, consumed, err := rd.ValConsumed()
			switch {
			case err != nil || got.CanonString() != want:
				outcome = "fail"
				r.fail("C05", "oracle", di, op, fmt.Sprintf("ok %s %d", want, len(B)), rd.Short(), md.Short(), "wrong value from B ++ trailing data")
			case consumed != len(B):
				outcome = "fail"
				r.fail("C05", "oracle", di, op, fmt.Sprintf("consumed %d", len(B)), fmt.Sprintf("consumed %d", consumed), md.Short(), "DecodeBebop did not consume exactly one record")
			}
		}
		_ = haveModel
		r.eval("C05", di, bucket, outcome, hexB, chunk)
	}
	r.sample("C05", "%s: B=%s trailing=%s", r.sc.env.Defs[di].Name, hexB, val.Hex(trail))
	// sequences of 2-4 records on one reader
	if len(r.pool) >= 3 && round%2 == 0 {
		n := 2 + r.rng.Intn(3)
		seq := []encoded{{di, B, want}}
		for len(seq) < n {
			seq = append(seq, r.pool[r.rng.Intn(len(r.pool))])
		}
		r.rng.Shuffle(len(seq), func(i, j int) { seq[i], seq[j] = seq[j], seq[i] })
		var all []byte
		idx := ""
		for _, e := range seq {
			all = append(all, e.b...)
			idx += fmt.Sprintf(" %d", e.def)
		}
		// "deof": the last record's final bytes arrive together with io.EOF
		chunk := []string{"all", "one", fmt.Sprintf("rnd%d", round), "deof", "seek", "bufio"}[r.rng.Intn(6)]
		op := fmt.Sprintf("decodeseq %s %d%s %s", chunk, n, idx, val.Hex(all))
		rd := r.real(op)
		outcome := "ok"
		if r.badReal("C05", di, op, rd, false) {
			outcome = "fail"
		} else if rd.Class != "ok" {
			outcome = "fail"
			r.fail("C05", "oracle", di, op, "ok ...", rd.Short(), "", "a sequence of records on one reader failed to decode")
		} else {
			rest := rd.Fields
			off := 0
			for j, e := range seq {
				off += len(e.b)
				if len(rest) == 0 {
					outcome = "fail"
					r.fail("C05", "oracle", di, op, "n records", rd.Short(), "", "short answer")
					break
				}
				consumed := rest[0]
				got, rest2, err := val.Parse(rest[1:])
				if err != nil {
					outcome = "fail"
					r.fail("C05", "oracle", di, op, "n records", rd.Short(), "", "unparsable answer: "+err.Error())
					break
				}
				rest = rest2
				if got.CanonString() != e.want || consumed != fmt.Sprint(off) {
					outcome = "fail"
					r.fail("C05", "oracle", di, op, fmt.Sprintf("record %d: consumed %d value %s", j, off, e.want), fmt.Sprintf("consumed %s value %s", consumed, got.CanonString()), "", "record in a sequence decoded wrongly")
					break
				}
			}
		}
		r.eval("C05", di, "", outcome+"-seq", op)
	}
}

func (r *pkgRun) allocCheck(prop string, di int, op string, inputLen int) {
	ra := r.real("alloc")
	if ra.Class != "ok" {
		return
	}
	n, err := ra.Int(0)
	if err != nil {
		return
	}
	limit := 64*inputLen + 1<<20
	if n > limit {
		r.fail(prop, "alloc", di, op, fmt.Sprintf("at most %d bytes allocated", limit), fmt.Sprintf("%d bytes allocated", n), "", "")
	}
}

// cutPoints lists the truncation points to try: all of them for short encodings, otherwise
// the first 64, the last 16 and 64 random ones.
func (r *pkgRun) cutPoints(n int) []int {
	if n <= r.eng.fullCutLen {
		out := make([]int, n)
		for i := range out {
			out[i] = i
		}
		return out
	}
	seen := map[int]bool{}
	var out []int
	add := func(k int) {
		if k >= 0 && k < n && !seen[k] {
			seen[k] = true
			out = append(out, k)
		}
	}
	head, random := 64, 64
	if r.longRound {
		head, random = 6, 10 // the operations carry the whole encoding: fewer of them
	}
	if r.hugeRound {
		head, random = 2, 4
	}
	for k := 0; k < head; k++ {
		add(k)
	}
	for k := n - 16; k < n; k++ {
		add(k)
	}
	for i := 0; i < random; i++ {
		add(r.rng.Intn(n))
	}
	return out
}

func (r *pkgRun) c06(di int, B []byte, hexB, bucket string) {
	for _, k := range r.cutPoints(len(B)) {
		if r.expired() {
			return
		}
		cut := val.Hex(B[:k])
		outcome := "err"
		op := fmt.Sprintf("unmarshal %d %s", di, cut)
		ru := r.real(op)
		if !r.badReal("C06", di, op, ru, false) {
			if ru.Class != "err" {
				outcome = ru.Class
				r.fail("C06", "oracle", di, op, "err", ru.Short(), "", fmt.Sprintf("truncation at %d of %d bytes (%s) accepted", k, len(B), hexB))
			}
			r.allocCheck("C06", di, op, len(B))
		} else {
			outcome = ru.Class
			r.badReal("C07", di, op, ru, false, "a truncation is a byte string like any other") // C07 quantifies over these inputs too
		}
		mop := fmt.Sprintf("dec 1 %d %s", di, cut)
		if r.longRound {
			r.st("C06").ModelSkipped += 2
		} else if md, ok := r.model("C06", di, mop); ok && md.Class != ru.Class {
			r.fail("C06", "mismatch", di, op, md.Class, ru.Short(), md.Short(), fmt.Sprintf("UnmarshalBebop of a truncation at %d of %s", k, hexB))
		}
		op2 := fmt.Sprintf("decode %d all %s", di, cut)
		rd := r.real(op2)
		if !r.badReal("C06", di, op2, rd, false) {
			if rd.Class != "err" {
				outcome = rd.Class
				r.fail("C06", "oracle", di, op2, "err", rd.Short(), "", fmt.Sprintf("truncation at %d of %d bytes (%s) accepted", k, len(B), hexB))
			}
			r.allocCheck("C06", di, op2, len(B))
		} else {
			outcome = rd.Class
			r.badReal("C07", di, op2, rd, false, "a truncation is a byte string like any other")
			// ... and a stream that ends early is a reader that fails with io.EOF: C08 quantifies over it
			r.badReal("C08", di, op2, rd, false, "a stream that ends early is a failing reader")
		}
		mop2 := fmt.Sprintf("decs %d %s", di, cut)
		if r.longRound {
		} else if md, ok := r.model("C06", di, mop2); ok && md.Class != rd.Class {
			r.fail("C06", "mismatch", di, op2, md.Class, rd.Short(), md.Short(), fmt.Sprintf("DecodeBebop of a truncation at %d of %s", k, hexB))
		}
		r.eval("C06", di, bucket, outcome, cut)
	}
	r.sample("C06", "%s: every prefix of B=%s (%d bytes) must be rejected", r.sc.env.Defs[di].Name, hexB, len(B))
}

func (r *pkgRun) c07(di, round int, B []byte, bucket string) {
	var other []byte
	if len(r.pool) > 0 {
		other = r.pool[r.rng.Intn(len(r.pool))].b
	}
	ncorr := r.eng.corruptions
	if r.bad >= r.eng.maxBad {
		// crashes and timeouts are expensive: once a package has produced plenty, draw fewer inputs
		ncorr = 1
		r.st("C07").dist("throttled", "values-after-maxBad")
	}
	for m := 0; m < ncorr; m++ {
		if r.expired() {
			return
		}
		var c val.Corruption
		wild := r.timeouts < 2 && r.rng.Intn(100) < r.eng.hugePercent
		if m == ncorr-1 && ncorr > 1 {
			c = val.RandomBytes(r.rng, wild)
		} else {
			c = val.Corrupt(r.rng, B, other, wild)
		}
		data := val.Hex(c.Bytes)
		outcome := ""
		for _, name := range []string{"unmarshal", "decode"} {
			op := fmt.Sprintf("unmarshal %d %s", di, data)
			mop := fmt.Sprintf("dec 1 %d %s", di, data)
			if name == "decode" {
				op = fmt.Sprintf("decode %d all %s", di, data)
				mop = fmt.Sprintf("decs %d %s", di, data)
			}
			rd := r.real(op)
			note := fmt.Sprintf("%s %s of %s", c.Kind, c.Note, val.Hex(B))
			if r.badReal("C07", di, op, rd, false, note) {
				outcome += rd.Class + "/"
				continue
			}
			outcome += rd.Class + "/"
			r.allocCheck("C07", di, op, len(c.Bytes))
			md, ok := r.model("C07", di, mop)
			if !ok {
				continue
			}
			if md.Class != rd.Class {
				r.fail("C07", "mismatch", di, op, md.Class, rd.Short(), md.Short(), note)
				continue
			}
			if rd.Class == "ok" {
				var gv, mv val.Val
				var gc, mc int
				var e1, e2 error
				if name == "decode" {
					gv, gc, e1 = rd.ValConsumed()
					mv, mc, e2 = md.ValConsumed()
				} else {
					gv, e1 = rd.Val()
					mv, e2 = md.Val()
				}
				if e1 == nil && e2 == nil && gv.CanonString() != mv.CanonString() && val.CollidingDateKeys(r.sc.env, schema.Ty{K: schema.TyRef, Ref: di}, gv) {
					// the printed value says less than the Go value holds (two date keys that differ below one tick):
					// nothing to compare the model with
					r.st("C07").dist("model", "declined-subtick-date-keys")
				} else if e1 != nil || e2 != nil || gv.CanonString() != mv.CanonString() {
					r.fail("C07", "mismatch", di, op, md.Short(), rd.Short(), md.Short(), "decoded values differ; "+note)
				} else if gc != mc {
					r.fail("C07", "mismatch", di, op, fmt.Sprintf("consumed %d", mc), fmt.Sprintf("consumed %d", gc), md.Short(), "consumed differs; "+note)
				}
			}
		}
		r.eval("C07", di, bucket, strings.TrimSuffix(outcome, "/"), data)
		r.st("C07").dist("corruption", c.Kind)
		if m == 0 {
			r.sample("C07", "%s: %s %s of %s -> %s : %s", r.sc.env.Defs[di].Name, c.Kind, c.Note, val.Hex(B), data, outcome)
		}
	}
}

func (r *pkgRun) c08(di int, vs, want string, multi bool, B []byte, hexB string, encodeCalls int, bucket string) {
	opEnc := fmt.Sprintf("encode %d %s", di, vs)
	if encodeCalls < 0 {
		re := r.real(opEnc)
		if r.badReal("C08", di, opEnc, re, false) {
			return
		}
		if re.Class != "ok" || len(re.Fields) != 2 {
			r.fail("C08", "oracle", di, opEnc, "ok <hex> <calls>", re.Short(), "", "clean encode failed")
			return
		}
		encodeCalls, _ = re.Int(1)
		if !multi && re.Fields[0] != hexB {
			r.fail("C08", "oracle", di, opEnc, hexB, re.Fields[0], "", "clean encode is not the marshalled bytes")
		} else if multi && !r.longRound {
			if p, _ := r.conformant("C08", di, re.Fields[0], want); p != "" {
				r.fail("C08", "mismatch", di, opEnc, "a conformant encoding", re.Fields[0], p, "")
			}
		}
	}
	for _, k := range r.cutPoints(encodeCalls) {
		if r.expired() {
			return
		}
		op := fmt.Sprintf("encodefail %d %d %s", di, k, vs)
		re := r.real(op)
		outcome := re.Class
		if !r.badReal("C08", di, op, re, false) && re.Class != "err" {
			r.fail("C08", "oracle", di, op, "err inj ...", re.Short(), "", fmt.Sprintf("Write call %d of %d failed but EncodeBebop returned nil", k, encodeCalls))
		}
		r.eval("C08", di, bucket, "encodefail-"+outcome, vs, fmt.Sprint("w", k))
	}
	for _, k := range r.cutPoints(len(B)) {
		if r.expired() {
			return
		}
		op := fmt.Sprintf("decode %d fail%d %s", di, k, hexB)
		rd := r.real(op)
		outcome := rd.Class
		if !r.badReal("C08", di, op, rd, false) && rd.Class != "err" {
			r.fail("C08", "oracle", di, op, "err ...", rd.Short(), "", fmt.Sprintf("reader failed after %d of %d bytes but DecodeBebop returned nil", k, len(B)))
		}
		// the same failure point with the two error values a real stream produces when it ends early
		for _, mode := range []string{"peof", "ueof"} {
			opE := fmt.Sprintf("decode %d %s%d %s", di, mode, k, hexB)
			rdE := r.real(opE)
			if !r.badReal("C08", di, opE, rdE, false) && rdE.Class != "err" {
				r.fail("C08", "oracle", di, opE, "err ...", rdE.Short(), "", fmt.Sprintf("reader ended (%s) after %d of %d bytes but DecodeBebop returned nil", mode, k, len(B)))
			}
			r.eval("C08", di, bucket, "decode-"+mode+"-"+rdE.Class, hexB, fmt.Sprint(mode, k))
		}
		mop := fmt.Sprintf("decsfail %d %d %s", di, k, hexB)
		if r.longRound {
			r.st("C08").ModelSkipped++
		} else if md, ok := r.model("C08", di, mop); ok && md.Class != rd.Class {
			r.fail("C08", "mismatch", di, op, md.Class, rd.Short(), md.Short(), "")
		}
		r.eval("C08", di, bucket, "decodefail-"+outcome, hexB, fmt.Sprint("r", k))
	}
	r.sample("C08", "%s: V=%s: %d Write calls, %d bytes; every failing Write / Read position must surface an error", r.sc.env.Defs[di].Name, vs, encodeCalls, len(B))
}

var oomBlockRe = regexp.MustCompile(`cannot_allocate_(\d+)-byte_block`)

// smallBlockOOM: the runtime's out-of-memory report names the block it could not get; below 32 MiB the request
// itself is unremarkable.
func smallBlockOOM(raw string) bool {
	m := oomBlockRe.FindStringSubmatch(raw)
	if m == nil {
		return false
	}
	n, err := strconv.ParseInt(m[1], 10, 64)
	return err == nil && n < 32<<20
}

// modelDeclines: is the operation a decode of bytes that the model declines as a run-away count ("fuel": a loop over
// more than 65536 elements that consume nothing)? False for operations that decode nothing and without a model.
func (r *pkgRun) modelDeclines(op string) bool {
	if r.mdl == nil {
		return false
	}
	t := strings.Fields(op)
	if len(t) < 3 {
		return false
	}
	var mop string
	switch t[0] {
	case "unmarshal", "makefrombytes":
		mop = fmt.Sprintf("dec 1 %s %s", t[1], t[len(t)-1])
	case "mustunmarshal", "mustmakefrombytes":
		mop = fmt.Sprintf("dec 0 %s %s", t[1], t[len(t)-1])
	case "decode", "make":
		mop = fmt.Sprintf("decs %s %s", t[1], t[len(t)-1])
	default:
		return false
	}
	md, err := r.mdl.Do(mop)
	return err == nil && md.Class == "fuel"
}
