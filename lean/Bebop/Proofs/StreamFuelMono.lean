/-
  Helper lemmas: the fuel argument of the STREAM decoder model (`sdec` / `sdecRecord`) is an artefact too.
  `SExt r r'`: `r'` is `r` unless `r` is the out-of-fuel answer.  One more unit of fuel only extends the
  answer, so an answer of `decodeStream` other than `.fuel` is its answer for every larger fuel.
-/
import Bebop.Stream

namespace Bebop

def SExt {α} (r r' : SOut α × RState) : Prop := r.1 = .fuel ∨ r' = r

theorem SExt.trans {α} {a b c : SOut α × RState} (h1 : SExt a b) (h2 : SExt b c) : SExt a c := by
  rcases h1 with h1 | h1
  · exact Or.inl h1
  · rcases h2 with h2 | h2
    · exact Or.inl (by rw [← h1]; exact h2)
    · exact Or.inr (by rw [h2, h1])

theorem sdecN_ext (d d' : SDec) (h : ∀ s, SExt (d s) (d' s)) :
    ∀ n s, SExt (sdecN d n s) (sdecN d' n s) := by
  intro n
  induction n with
  | zero => intro s; exact Or.inr rfl
  | succ n ih =>
    intro s
    simp only [sdecN]
    rcases h s with h1 | h1
    · left; revert h1; rcases d s with ⟨o, s'⟩; intro h1; simp only at h1; subst h1; rfl
    · rw [h1]
      rcases d s with ⟨o, s'⟩
      cases o with
      | ret => exact Or.inr rfl
      | fuel => exact Or.inl rfl
      | val v =>
        simp only
        split
        · exact Or.inl rfl
        · rcases ih s' with h2 | h2
          · left; revert h2; rcases sdecN d n s' with ⟨o2, s2⟩; intro h2; simp only at h2; subst h2; rfl
          · rw [h2]; exact Or.inr rfl

theorem sdecEntries_ext (kt : Ty) (dk dk' dv dv' : SDec) (hk : ∀ s, SExt (dk s) (dk' s))
    (hv : ∀ s, SExt (dv s) (dv' s)) :
    ∀ n s acc, SExt (sdecEntries kt dk dv n s acc) (sdecEntries kt dk' dv' n s acc) := by
  intro n
  induction n with
  | zero => intro s acc; exact Or.inr rfl
  | succ n ih =>
    intro s acc
    simp only [sdecEntries]
    rcases hk s with h1 | h1
    · left; revert h1; rcases dk s with ⟨o, s'⟩; intro h1; simp only at h1; subst h1; rfl
    · rw [h1]
      rcases dk s with ⟨o, s1⟩
      cases o with
      | ret => exact Or.inr rfl
      | fuel => exact Or.inl rfl
      | val k =>
        simp only
        rcases hv s1 with h2 | h2
        · left; revert h2; rcases dv s1 with ⟨o2, s2⟩; intro h2; simp only at h2; subst h2; rfl
        · rw [h2]
          rcases dv s1 with ⟨o2, s2⟩
          cases o2 with
          | ret => exact Or.inr rfl
          | fuel => exact Or.inl rfl
          | val v =>
            simp only
            split
            · exact Or.inl rfl
            · exact ih s2 _

theorem sdecFields_ext (d d' : Ty → SDec) (h : ∀ t s, SExt (d t s) (d' t s)) :
    ∀ tys s, SExt (sdecFields d tys s) (sdecFields d' tys s) := by
  intro tys
  induction tys with
  | nil => intro s; exact Or.inr rfl
  | cons t ts ih =>
    intro s
    simp only [sdecFields]
    rcases h t s with h1 | h1
    · left; revert h1; rcases d t s with ⟨o, s'⟩; intro h1; simp only at h1; subst h1; rfl
    · rw [h1]
      rcases d t s with ⟨o, s'⟩
      cases o with
      | ret => exact Or.inr rfl
      | fuel => exact Or.inl rfl
      | val v =>
        simp only
        rcases ih s' with h2 | h2
        · left; revert h2; rcases sdecFields d ts s' with ⟨o2, s2⟩; intro h2; simp only at h2; subst h2; rfl
        · rw [h2]; exact Or.inr rfl

theorem sdecMsgLoop_ext (d d' : Ty → SDec) (h : ∀ t s, SExt (d t s) (d' t s)) (fds : List MsgField) :
    ∀ n s acc, SExt (sdecMsgLoop d fds n s acc) (sdecMsgLoop d' fds n s acc) := by
  intro n
  induction n with
  | zero => intro s acc; exact Or.inl rfl
  | succ n ih =>
    intro s acc
    simp only [sdecMsgLoop]
    cases fds.find? (fun fd => fd.idx == (sreadByte s).1) with
    | none => exact Or.inr rfl
    | some fd =>
      simp only
      rcases h fd.ty (sreadByte s).2 with h1 | h1
      · left; revert h1; rcases d fd.ty (sreadByte s).2 with ⟨o, s'⟩; intro h1; simp only at h1; subst h1; rfl
      · rw [h1]
        rcases d fd.ty (sreadByte s).2 with ⟨o, s2⟩
        cases o with
        | ret => exact Or.inr rfl
        | fuel => exact Or.inl rfl
        | val v => exact ih s2 _

def SExtAt (env : Env) (f g : Nat) : Prop :=
  (∀ ty s, SExt (sdec f env ty s) (sdec g env ty s)) ∧
  (∀ n s, SExt (sdecRecord f env n s) (sdecRecord g env n s))

theorem sextAt_step (env : Env) (f g : Nat) (ih : SExtAt env f g) : SExtAt env (f+1) (g+1) := by
  obtain ⟨ihd, ihr⟩ := ih
  refine ⟨?_, ?_⟩
  · intro ty s
    cases ty with
    | bool => simp only [sdec]; exact Or.inr rfl
    | scalar w => simp only [sdec]; exact Or.inr rfl
    | f32 => simp only [sdec]; exact Or.inr rfl
    | f64 => simp only [sdec]; exact Or.inr rfl
    | date => simp only [sdec]; exact Or.inr rfl
    | guid => simp only [sdec]; exact Or.inr rfl
    | str => simp only [sdec]; exact Or.inr rfl
    | arr t =>
      simp only [sdec]
      rcases sdecN_ext _ _ (ihd t) (sreadU32 s).1 (sreadU32 s).2 with h2 | h2
      · left; revert h2; rcases sdecN (sdec f env t) (sreadU32 s).1 (sreadU32 s).2 with ⟨o2, s2⟩
        intro h2; simp only at h2; subst h2; rfl
      · rw [h2]; exact Or.inr rfl
    | map k v =>
      simp only [sdec]
      rcases sdecEntries_ext k _ _ _ _ (ihd k) (ihd v) (sreadU32 s).1 (sreadU32 s).2 [] with h2 | h2
      · left; revert h2
        rcases sdecEntries k (sdec f env k) (sdec f env v) (sreadU32 s).1 (sreadU32 s).2 [] with ⟨o2, s2⟩
        intro h2; simp only at h2; subst h2; rfl
      · rw [h2]; exact Or.inr rfl
    | ref n => simp only [sdec]; exact ihr n s
  · intro n s
    simp only [sdecRecord]
    cases env[n]? with
    | none => exact Or.inr rfl
    | some d =>
      cases d with
      | struct tys =>
        cases tys with
        | nil => exact Or.inr rfl
        | cons t ts =>
          simp only
          rcases sdecFields_ext _ _ ihd (t :: ts) s with h2 | h2
          · left; revert h2; rcases sdecFields (sdec f env) (t :: ts) s with ⟨o2, s2⟩
            intro h2; simp only at h2; subst h2; rfl
          · rw [h2]; exact Or.inr rfl
      | msg fds =>
        simp only
        exact sdecMsgLoop_ext _ _ ihd fds _ _ _
      | union brs =>
        simp only
        split
        · exact Or.inr rfl
        · rename_i m hm
          rcases ihd (.ref m) (sreadByte { (sreadU32 s).2 with
              limits := ((sreadU32 s).1 + Facts.unionLimitExtra) :: (sreadU32 s).2.limits }).2 with h2 | h2
          · left; revert h2
            rcases sdec f env (.ref m) (sreadByte { (sreadU32 s).2 with
              limits := ((sreadU32 s).1 + Facts.unionLimitExtra) :: (sreadU32 s).2.limits }).2 with ⟨o2, s2⟩
            intro h2; simp only at h2; subst h2; rfl
          · rw [h2]; exact Or.inr rfl

theorem sextAt_succ (env : Env) : ∀ f, SExtAt env f (f+1)
  | 0 => ⟨fun _ _ => Or.inl (by simp [sdec]), fun _ _ => Or.inl (by simp [sdecRecord])⟩
  | f+1 => sextAt_step env f (f+1) (sextAt_succ env f)

theorem sextAt_le (env : Env) (f : Nat) : ∀ k, SExtAt env f (f+k)
  | 0 => ⟨fun _ _ => Or.inr rfl, fun _ _ => Or.inr rfl⟩
  | k+1 => by
    obtain ⟨a, b⟩ := sextAt_le env f k
    obtain ⟨a', b'⟩ := sextAt_succ env (f+k)
    exact ⟨fun t s => (a t s).trans (a' t s), fun n s => (b n s).trans (b' n s)⟩

def SRes.isFuel : SRes → Bool | .fuel => true | _ => false

/-- An answer of the stream decoder other than out-of-fuel is its answer at every larger fuel. -/
theorem decodeStream_fuel_mono (env : Env) (f g : Nat) (hfg : f ≤ g) (n : Nat) (data : List Byte)
    (h : (decodeStream f env n data).isFuel = false) :
    decodeStream g env n data = decodeStream f env n data := by
  obtain ⟨k, rfl⟩ := Nat.exists_eq_add_of_le hfg
  have key := (sextAt_le env f k).2 n { data := data, limits := [], err := false }
  simp only [decodeStream] at h ⊢
  rcases key with h2 | h2
  · exfalso; revert h h2
    rcases sdecRecord f env n { data := data, limits := [], err := false } with ⟨o, s⟩
    intro h h2; simp only at h2; subst h2; simp [SRes.isFuel] at h
  · rw [h2]

end Bebop
