/-
  Grammar: what a schema text MEANS (the Spec for C11 / C15).

  `SrcFile` is a schema as its author thinks of it: definitions in order, doc comments as segments, enum
  members as literals or [flags] expressions, constants as literals.  `toFile` is the File that schema
  denotes; `print layout src` is its text in one of the permitted layouts.  Nothing here uses the
  tokenizer or parser model.

  `Layout` is an infinite stream of choices (a function Nat → Nat read at successive positions): blanks
  vs tabs and how many, LF vs CRLF, blank lines, one-line vs multi-line bodies, attributes on their own
  line or not, `T[]` vs `array[T]`, doc comments as `//` lines or `/* */` blocks, trailing comments.
  Two things are NOT layouts because they change the meaning under this grammar and are never printed:
  a blank line between a doc comment and its owner, and a line break inside a field.
-/
import Bebop.Text.Ast

namespace Bebop.Text

inductive Seg where
  | line (text : Str)       -- `//text`
  | block (text : Str)      -- `/*text*/`
  | tag (t : Tag)           -- `//[tag(key:"value")]` or `//[tag(key)]`
  deriving Repr, Inhabited

structure SrcField where
  ft : FT
  name : Str
  doc : List Seg := []
  deprecated : Option Str := none
  trailing : Option Str := none     -- `// text` after the `;` : belongs to nothing
  deriving Repr, Inhabited

inductive SrcExpr where
  | lit (text : Str)               -- integer literal as written
  | ref (name : Str)               -- earlier member
  | paren (e : SrcExpr)
  | bin (op : Nat) (l r : SrcExpr) -- 0: |, 1: &, 2: <<, 3: >>   (right-nested as the language has no precedence)
  deriving Repr, Inhabited

structure SrcOption where
  name : Str
  doc : List Seg := []
  deprecated : Option Str := none
  expr : SrcExpr
  deriving Repr, Inhabited

structure SrcEnum where
  name : Str
  doc : List Seg := []
  base : Option Str := none        -- `: uint8`; none = uint32
  flags : Bool := false
  options : List SrcOption := []
  deriving Repr, Inhabited

structure SrcStruct where
  name : Str
  doc : List Seg := []
  opCode : Option Str := none      -- literal as written: `0x1234` / `"ABCD"`
  readOnly : Bool := false
  fields : List SrcField := []
  deriving Repr, Inhabited

structure SrcMessage where
  name : Str
  doc : List Seg := []
  opCode : Option Str := none
  fields : List (Nat × SrcField) := []
  deriving Repr, Inhabited

inductive SrcBranch where
  | st (s : SrcStruct)
  | msg (m : SrcMessage)
  deriving Repr, Inhabited

structure SrcUnionField where
  idx : Nat
  doc : List Seg := []
  deprecated : Option Str := none
  body : SrcBranch
  deriving Repr, Inhabited

structure SrcUnion where
  name : Str
  doc : List Seg := []
  opCode : Option Str := none
  fields : List SrcUnionField := []
  deriving Repr, Inhabited

structure SrcConst where
  ty : Str
  name : Str
  doc : List Seg := []
  lit : Str                        -- literal as written
  deriving Repr, Inhabited

inductive SrcDef where
  | imp (path : Str)
  | enm (e : SrcEnum)
  | st (s : SrcStruct)
  | msg (m : SrcMessage)
  | un (u : SrcUnion)
  | con (c : SrcConst)
  deriving Repr, Inhabited

abbrev SrcFile := List SrcDef

/-! ### meaning -/

def tagText (t : Tag) : Str :=
  if t.boolean then strOf "[tag(" ++ t.key ++ strOf ")]"
  else strOf "[tag(" ++ t.key ++ strOf ":\"" ++ t.value ++ strOf "\")]"

def segText : Seg → Str
  | .line t => t
  | .block t => t
  | .tag t => tagText t

def docText (doc : List Seg) : Str :=
  match doc.map segText with
  | [] => []
  | l :: rest => rest.foldl (fun acc x => acc ++ [10] ++ x) l

def docTags (doc : List Seg) : List Tag :=
  doc.filterMap (fun s => match s with | .tag t => some t | _ => none)

def fieldOf (f : SrcField) : Field :=
  { ft := f.ft, name := f.name, comment := docText f.doc, tags := docTags f.doc,
    depMsg := f.deprecated.getD [], deprecated := f.deprecated.isSome }

/-- Value of an integer literal as the schema language reads it: optional '-', decimal or 0x hex. -/
def litValue (s : Str) : Option Int :=
  let (neg, body) := match s with
    | 0x2d :: r => (true, r)
    | _ => (false, s)
  let mag := match body with
    | 0x30 :: x :: rest => if x == 0x78 || x == 0x58 then parseDigits 16 rest 0 else none
    | _ => parseDigits 10 body 0
  match body, mag with
  | [0x30], _ => some 0
  | _, some n => some (if neg then -(n : Int) else n)
  | _, none => none

/-- Unbounded evaluation of a [flags] expression (operands of | and & must be non-negative). -/
def specEval (env : List (Str × Int)) : SrcExpr → Option Int
  | .lit t => litValue t
  | .ref n => (env.find? (·.1 == n)).map (·.2)
  | .paren e => specEval env e
  | .bin op l r =>
    match specEval env l, specEval env r with
    | some a, some c =>
      if op == 0 then (if a < 0 || c < 0 then none else some (Int.ofNat (Nat.lor a.toNat c.toNat)))
      else if op == 1 then (if a < 0 || c < 0 then none else some (Int.ofNat (Nat.land a.toNat c.toNat)))
      else if op == 2 then (if c < 0 then none else some (a * (2 ^ c.toNat : Nat)))
      else (if c < 0 then none else some (a / (2 ^ c.toNat : Nat)))
    | _, _ => none

def baseInfo (base : Option Str) : Str × Nat × Bool :=
  match base with
  | none => (strOf "uint32", 32, true)
  | some b => (b, (decodeInteger b).getD (32, true))

def inRange (bits : Nat) (unsigned : Bool) (v : Int) : Bool :=
  if unsigned then 0 ≤ v && v < (2 ^ bits : Nat) else -((2 ^ (bits - 1) : Nat) : Int) ≤ v && v < (2 ^ (bits - 1) : Nat)

/-- The enum the source denotes; `none` when a member's value is undefined or outside the base type. -/
def enumOf (e : SrcEnum) : Option Enum :=
  let (ty, bits, unsigned) := baseInfo e.base
  let rec go (opts : List SrcOption) (env : List (Str × Int)) (acc : List EnumOption) : Option (List EnumOption) :=
    match opts with
    | [] => some acc.reverse
    | o :: rest =>
      match specEval env o.expr with
      | none => none
      | some v =>
        if !inRange bits unsigned v then none
        else
          let dm : Str := o.deprecated.getD []
          let sv : Int := if unsigned then 0 else v
          let uv : Nat := if unsigned then v.toNat else 0
          let eo : EnumOption :=
            { name := o.name, comment := docText o.doc, depMsg := dm, value := sv, uvalue := uv, deprecated := o.deprecated.isSome }
          go rest (env ++ [(o.name, v)]) (eo :: acc)
  (go e.options [] []).map fun opts =>
    { name := e.name, comment := docText e.doc, options := opts, simpleType := ty, unsigned := unsigned }

/-- Value of an opcode literal: an integer, or four ASCII characters as a little-endian u32. -/
def opCodeOf (lit : Option Str) : Option Nat :=
  match lit with
  | none => some 0
  | some s =>
    match s with
    | 0x22 :: _ => let c := trimQuotes s; if c.length == 4 then some (ofLe c) else none
    | _ => (litValue s).bind (fun v => if 0 ≤ v && v < 2^32 then some v.toNat else none)

def structOf (s : SrcStruct) : Option Struct :=
  (opCodeOf s.opCode).map fun oc =>
    { name := s.name, comment := docText s.doc, fields := s.fields.map fieldOf, opCode := oc, readOnly := s.readOnly }

def messageOf (m : SrcMessage) : Option Message :=
  (opCodeOf m.opCode).map fun oc =>
    { name := m.name, comment := docText m.doc, fields := m.fields.map (fun (i, f) => (i, fieldOf f)), opCode := oc }

def unionFieldOf (uf : SrcUnionField) : Option (Nat × UnionField) :=
  let body : Option UBody := match uf.body with
    | .st s => (structOf { s with doc := uf.doc }).map UBody.st
    | .msg m => (messageOf { m with doc := uf.doc }).map UBody.msg
  body.map fun b => (uf.idx, { body := b, tags := docTags uf.doc, depMsg := uf.deprecated.getD [], deprecated := uf.deprecated.isSome })

def unionOf (u : SrcUnion) : Option Union := do
  let oc ← opCodeOf u.opCode
  let fs ← u.fields.mapM unionFieldOf
  pure { name := u.name, comment := docText u.doc, fields := fs, opCode := oc }

def constValue (c : SrcConst) : Str :=
  if isFloatName c.ty then
    (if strEq c.lit "inf" then strOf "math.Inf(1)"
     else if strEq c.lit "-inf" then strOf "math.Inf(-1)"
     else if strEq c.lit "nan" then strOf "math.NaN()"
     else c.lit)
  else c.lit

/-- The File a source denotes. `none`: the source is not well-formed (undefined enum value, …). -/
def toFile (src : SrcFile) : Option File :=
  src.foldlM (fun (f : File) d =>
    match d with
    | .imp p => some { f with imports := f.imports ++ [p] }
    | .enm e => (enumOf e).map fun en => { f with enums := f.enums ++ [en] }
    | .st s => (structOf s).map fun st => { f with structs := f.structs ++ [st] }
    | .msg m => (messageOf m).map fun ms => { f with messages := f.messages ++ [ms] }
    | .un u => (unionOf u).map fun un => { f with unions := f.unions ++ [un] }
    | .con c =>
      let co : Const := { simpleType := c.ty, comment := docText c.doc, name := c.name, value := constValue c }
      let gp := if strEq c.name "go_package" && strEq c.ty "string" then (plainQuoted c.lit).getD [] else f.goPackage
      some { f with consts := f.consts ++ [co], goPackage := gp }) {}

/-! ### text -/

/-- Layout: a stream of choices and the position reached in it. -/
structure Lay where
  choice : Nat → Nat
  pos : Nat := 0

def Lay.pick (l : Lay) (n : Nat) : Nat × Lay := (l.choice l.pos % (max n 1), { l with pos := l.pos + 1 })

abbrev Pr := Lay → (Str × Lay)

def emit (s : Str) : Pr := fun l => (s, l)
def lit (s : String) : Pr := emit (strOf s)
def seq (ps : List Pr) : Pr := fun l => ps.foldl (fun (acc : Str × Lay) p => let (s, l') := p acc.2; (acc.1 ++ s, l')) ([], l)
instance : Append Pr := ⟨fun a c => seq [a, c]⟩

/-- at least one blank (space or tab), up to three -/
def gap1 : Pr := fun l =>
  let (n, l1) := l.pick 3
  let (k, l2) := l1.pick 2
  (List.replicate (n + 1) (if k == 0 then 32 else 9), l2)
/-- zero to two blanks -/
def gap0 : Pr := fun l =>
  let (n, l1) := l.pick 3
  let (k, l2) := l1.pick 2
  (List.replicate n (if k == 0 then 32 else 9), l2)
/-- end of line: LF or CRLF, possibly preceded by blanks -/
def eol : Pr := gap0 ++ fun l =>
  let (k, l1) := l.pick 4
  (if k == 0 then [13, 10] else [10], l1)
/-- end of a `//` comment: the line end itself (blanks before it would belong to the comment) -/
def nl : Pr := fun l =>
  let (k, l1) := l.pick 4
  (if k == 0 then [13, 10] else [10], l1)
/-- indentation at the start of a line -/
def indent (depth : Nat) : Pr := fun l =>
  let (k, l1) := l.pick 3
  (if k == 0 then List.replicate depth 9 else if k == 1 then List.replicate (depth * 2) 32 else List.replicate (depth * 4) 32, l1)
/-- zero to two blank lines (between definitions, or between fields where no doc comment follows) -/
def blankLines : Pr := fun l =>
  let (n, l1) := l.pick 4
  (List.replicate (if n == 3 then 2 else if n == 2 then 1 else 0) 10, l1)

def choose (a c : Pr) : Pr := fun l => let (k, l1) := l.pick 2; if k == 0 then a l1 else c l1

partial def printFT (ft : FT) : Pr :=
  match ft with
  | .simple n => emit n
  | .map k v => lit "map" ++ gap0 ++ lit "[" ++ gap0 ++ emit k ++ gap0 ++ lit "," ++ gap0 ++ printFT v ++ gap0 ++ lit "]"
  | .arr e => choose (printFT e ++ lit "[]") (lit "array" ++ gap0 ++ lit "[" ++ gap0 ++ printFT e ++ gap0 ++ lit "]")

/-- A doc comment directly above its owner, each segment on its own line(s). -/
def printDoc (depth : Nat) (doc : List Seg) : Pr :=
  seq (doc.map fun s =>
    match s with
    | .line t => indent depth ++ lit "//" ++ emit t ++ nl
    | .block t => indent depth ++ lit "/*" ++ emit t ++ lit "*/" ++ eol
    | .tag t => indent depth ++ lit "//" ++ emit (tagText t) ++ nl)

def printDeprecated (depth : Nat) (d : Option Str) : Pr :=
  match d with
  | none => emit []
  | some m =>
    indent depth ++ lit "[" ++ gap0 ++ lit "deprecated" ++ gap0 ++ lit "(" ++ gap0 ++ lit "\"" ++ emit m ++ lit "\"" ++ gap0 ++ lit ")" ++ gap0 ++ lit "]"
      ++ choose eol gap1

/-- The end of a field's line. `sameLineOk`: what follows (the next field without a doc comment, or the closing
    brace) may stay on the same line, separated by blanks only — one of the permitted line-breaking styles
    (`message P { 1 -> int32 x; 2 -> int32 y; }`). -/
def printTrailing (t : Option Str) (sameLineOk : Bool) : Pr :=
  match t with
  | none => if sameLineOk then choose eol (choose eol gap1) else eol
  | some c => gap0 ++ lit "//" ++ emit c ++ nl

def printField (depth : Nat) (f : SrcField) (idx : Option Nat) (sameLineOk : Bool := false) : Pr :=
  printDoc depth f.doc ++ printDeprecated depth f.deprecated ++
  (if f.deprecated.isSome then gap0 else indent depth) ++
  (match idx with
   | some i => lit (toString i) ++ gap0 ++ lit "->" ++ gap0
   | none => emit []) ++
  printFT f.ft ++ gap1 ++ emit f.name ++ gap0 ++ lit ";" ++ printTrailing f.trailing sameLineOk

/-- fields of a body; a field may share its line with the next one when that one has no doc comment -/
def printFields (depth : Nat) : List (Option Nat × SrcField) → Pr
  | [] => emit []
  | [(i, f)] => printField depth f i true
  | (i, f) :: (j, g) :: rest => printField depth f i g.doc.isEmpty ++ printFields depth ((j, g) :: rest)

def openBrace (firstPlain : Bool) : Pr :=
  lit "{" ++ (if firstPlain then choose eol (choose eol gap0) else eol)

def printOpCode (oc : Option Str) : Pr :=
  match oc with
  | none => emit []
  | some s => lit "[" ++ gap0 ++ lit "opcode" ++ gap0 ++ lit "(" ++ gap0 ++ emit s ++ gap0 ++ lit ")" ++ gap0 ++ lit "]" ++ choose eol gap1

def printStructBody (depth : Nat) (fields : List SrcField) : Pr :=
  openBrace ((fields.head?.map (·.doc.isEmpty)).getD true) ++
  printFields (depth + 1) (fields.map fun f => (none, f)) ++ indent depth ++ lit "}"

def printMessageBody (depth : Nat) (fields : List (Nat × SrcField)) : Pr :=
  openBrace ((fields.head?.map (·.2.doc.isEmpty)).getD true) ++
  printFields (depth + 1) (fields.map fun (i, f) => (some i, f)) ++ indent depth ++ lit "}"

def printStruct (depth : Nat) (s : SrcStruct) (top : Bool) : Pr :=
  (if top then printDoc depth s.doc ++ printOpCode s.opCode else emit []) ++
  (if s.readOnly then lit "readonly" ++ gap1 else emit []) ++
  lit "struct" ++ gap1 ++ emit s.name ++ gap0 ++ printStructBody depth s.fields

def printMessage (depth : Nat) (m : SrcMessage) (top : Bool) : Pr :=
  (if top then printDoc depth m.doc ++ printOpCode m.opCode else emit []) ++
  lit "message" ++ gap1 ++ emit m.name ++ gap0 ++ printMessageBody depth m.fields

def printExpr : SrcExpr → Pr
  | .lit t => emit t
  | .ref n => emit n
  | .paren e => lit "(" ++ gap0 ++ printExpr e ++ gap0 ++ lit ")"
  | .bin op l r =>
    printExpr l ++ gap0 ++ lit (if op == 0 then "|" else if op == 1 then "&" else if op == 2 then "<<" else ">>") ++ gap0 ++ printExpr r

def printEnum (e : SrcEnum) : Pr :=
  printDoc 0 e.doc ++
  (if e.flags then lit "[" ++ gap0 ++ lit "flags" ++ gap0 ++ lit "]" ++ choose eol gap1 else emit []) ++
  lit "enum" ++ gap1 ++ emit e.name ++
  (match e.base with
   | some b => gap0 ++ lit ":" ++ gap0 ++ emit b ++ gap1
   | none => gap0) ++
  lit "{" ++ eol ++
  seq (e.options.map fun o =>
    printDoc 1 o.doc ++ printDeprecated 1 o.deprecated ++ (if o.deprecated.isSome then gap0 else indent 1) ++
    emit o.name ++ gap0 ++ lit "=" ++ gap0 ++ printExpr o.expr ++ gap0 ++ lit ";" ++ eol) ++
  lit "}"

def printUnion (u : SrcUnion) : Pr :=
  printDoc 0 u.doc ++ printOpCode u.opCode ++
  lit "union" ++ gap1 ++ emit u.name ++ gap0 ++ lit "{" ++ eol ++
  seq (u.fields.map fun uf =>
    printDoc 1 uf.doc ++ printDeprecated 1 uf.deprecated ++ (if uf.deprecated.isSome then gap0 else indent 1) ++
    lit (toString uf.idx) ++ gap0 ++ lit "->" ++ gap0 ++
    (match uf.body with
     | .st s => printStruct 1 s false
     | .msg m => printMessage 1 m false) ++ eol) ++
  lit "}"

def printConst (c : SrcConst) : Pr :=
  printDoc 0 c.doc ++ lit "const" ++ gap1 ++ emit c.ty ++ gap1 ++ emit c.name ++ gap0 ++ lit "=" ++ gap0 ++ emit c.lit ++ gap0 ++ lit ";"

def printDef : SrcDef → Pr
  | .imp p => lit "import" ++ gap1 ++ lit "\"" ++ emit p ++ lit "\"" ++ eol
  | .enm e => printEnum e ++ eol
  | .st s => printStruct 0 s true ++ eol
  | .msg m => printMessage 0 m true ++ eol
  | .un u => printUnion u ++ eol
  | .con c => printConst c ++ eol

/-- The text of a schema under a layout. Definitions are separated by optional blank lines. -/
def print (choice : Nat → Nat) (src : SrcFile) : Str :=
  (seq (src.map fun d => printDef d ++ blankLines) { choice := choice }).1

end Bebop.Text
