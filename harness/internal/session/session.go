// Package session wraps a line-protocol subprocess (driver or model) with response parsing.
package session

import (
	"fmt"
	"strconv"
	"strings"
	"time"

	"verif/harness/internal/pkgbuild"
	"verif/harness/internal/proc"
	"verif/harness/internal/schema"
	"verif/harness/internal/val"
)

// Resp is a parsed response line.
type Resp struct {
	Raw    string
	Class  string   // ok, err, panic, crash, timeout, absent, bad-op, fuel, or "?" for anything else
	Fields []string // tokens after the class
}

// ParseResp classifies a response line.
func ParseResp(raw string) Resp {
	t := strings.Fields(raw)
	r := Resp{Raw: raw, Class: "?"}
	if len(t) == 0 {
		return r
	}
	switch t[0] {
	case "ok", "err", "panic", "crash", "timeout", "absent", "bad-op", "fuel":
		r.Class = t[0]
		r.Fields = t[1:]
	}
	return r
}

// Short abbreviates a response for reports.
func (r Resp) Short() string { return Abbrev(r.Raw, 300) }

// Abbrev shortens long strings keeping both ends.
func Abbrev(s string, n int) string {
	if len(s) <= n {
		return s
	}
	return s[:n*2/3] + fmt.Sprintf("...[%d chars]...", len(s)-n) + s[len(s)-n/3:]
}

// Val parses `ok <Val>` (no trailing tokens).
func (r Resp) Val() (val.Val, error) {
	if r.Class != "ok" {
		return val.Val{}, fmt.Errorf("not ok: %s", r.Short())
	}
	v, rest, err := val.Parse(r.Fields)
	if err != nil {
		return val.Val{}, err
	}
	if len(rest) != 0 {
		return val.Val{}, fmt.Errorf("%d trailing tokens", len(rest))
	}
	return v, nil
}

// ValConsumed parses `ok <Val> <consumed>`.
func (r Resp) ValConsumed() (val.Val, int, error) {
	if r.Class != "ok" {
		return val.Val{}, 0, fmt.Errorf("not ok: %s", r.Short())
	}
	v, rest, err := val.Parse(r.Fields)
	if err != nil {
		return val.Val{}, 0, err
	}
	if len(rest) != 1 {
		return val.Val{}, 0, fmt.Errorf("expected one trailing token, have %d", len(rest))
	}
	n, err := strconv.Atoi(rest[0])
	if err != nil {
		return val.Val{}, 0, err
	}
	return v, n, nil
}

// Int parses field i as an integer.
func (r Resp) Int(i int) (int, error) {
	if i >= len(r.Fields) {
		return 0, fmt.Errorf("field %d missing in %s", i, r.Short())
	}
	return strconv.Atoi(r.Fields[i])
}

// Bytes parses field i as protocol hex.
func (r Resp) Bytes(i int) ([]byte, error) {
	if i >= len(r.Fields) {
		return nil, fmt.Errorf("field %d missing in %s", i, r.Short())
	}
	return val.Unhex(r.Fields[i])
}

// Session is a running subprocess with its environment.
type Session struct {
	P   *proc.Proc
	Ops int
}

// OpenDriver starts the driver of a built package and sends env/def/gotype lines.
func OpenDriver(pkg *pkgbuild.Package, env *schema.Env, timeout time.Duration) (*Session, error) {
	p := proc.Driver(pkg.Bin, nil, timeout)
	p.Env = append(pkgbuild.GoEnv(), p.Env...)
	lines := append(env.Lines(), env.GoTypeLines(pkg.Options.Private)...)
	if err := p.SetPreamble(lines); err != nil {
		return nil, err
	}
	return &Session{P: p}, nil
}

// OpenModel starts the model binary and sends the env/def lines.
func OpenModel(path string, env *schema.Env, timeout time.Duration) (*Session, error) {
	p := proc.Command(strings.Fields(path), nil, timeout)
	if err := p.SetPreamble(env.Lines()); err != nil {
		return nil, err
	}
	return &Session{P: p}, nil
}

// Do sends a request.
func (s *Session) Do(line string) (Resp, error) {
	s.Ops++
	raw, err := s.P.Send(line)
	if err != nil {
		return ParseResp(raw), err
	}
	return ParseResp(raw), nil
}

// Close stops the subprocess.
func (s *Session) Close() {
	if s != nil && s.P != nil {
		s.P.Close()
	}
}
