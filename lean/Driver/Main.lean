/-
  Line-protocol driver for the executable model (see /verif/harness/PROTOCOL.md).
  Core Lean only, so it links as a native executable.
-/
import Bebop.Slice
import Bebop.Stream
import Driver.Text

open Bebop

namespace Driver

def hexDigit (n : Nat) : Char := if n < 10 then Char.ofNat (48 + n) else Char.ofNat (87 + n)

def toHex (bs : List Byte) : String :=
  if bs.isEmpty then "-" else
  String.ofList (bs.foldr (fun b acc => hexDigit (b.toNat / 16) :: hexDigit (b.toNat % 16) :: acc) [])

def hexVal (c : Char) : Option Nat :=
  if '0' ≤ c ∧ c ≤ '9' then some (c.toNat - 48)
  else if 'a' ≤ c ∧ c ≤ 'f' then some (c.toNat - 87)
  else if 'A' ≤ c ∧ c ≤ 'F' then some (c.toNat - 55)
  else none

partial def fromHexChars : List Char → List Byte → Option (List Byte)
  | [], acc => some acc.reverse
  | [_], _ => none
  | a :: b :: rest, acc =>
    match hexVal a, hexVal b with
    | some x, some y => fromHexChars rest (UInt8.ofNat (x * 16 + y) :: acc)
    | _, _ => none

def fromHex (s : String) : Option (List Byte) :=
  if s == "-" then some [] else fromHexChars s.toList []

/-! Parsers over token lists. -/

partial def parseTy : List String → Option (Ty × List String)
  | "bool" :: r => some (.bool, r)
  | "s1" :: r => some (.scalar 1, r)
  | "s2" :: r => some (.scalar 2, r)
  | "s4" :: r => some (.scalar 4, r)
  | "s8" :: r => some (.scalar 8, r)
  | "f32" :: r => some (.f32, r)
  | "f64" :: r => some (.f64, r)
  | "date" :: r => some (.date, r)
  | "str" :: r => some (.str, r)
  | "guid" :: r => some (.guid, r)
  | "arr" :: r => do
    let (t, r') ← parseTy r
    pure (.arr t, r')
  | "map" :: r => do
    let (k, r1) ← parseTy r
    let (v, r2) ← parseTy r1
    pure (.map k v, r2)
  | "ref" :: n :: r => do
    let i ← n.toNat?
    pure (.ref i, r)
  | _ => none

mutual
partial def parseVal : List String → Option (Val × List String)
  | "n" :: w :: n :: r => do
    let w ← w.toNat?
    let n ← n.toNat?
    pure (.scalar w n, r)
  | "str" :: h :: r => do
    let bs ← fromHex h
    pure (.str bs, r)
  | "guid" :: h :: r => do
    let bs ← fromHex h
    pure (.guid bs, r)
  | "arr" :: c :: r => do
    let c ← c.toNat?
    let (vs, r') ← parseVals c r
    pure (.arr vs, r')
  | "st" :: c :: r => do
    let c ← c.toNat?
    let (vs, r') ← parseVals c r
    pure (.struct vs, r')
  | "map" :: c :: r => do
    let c ← c.toNat?
    let (kvs, r') ← parseKVs c r
    pure (.map kvs, r')
  | "msg" :: c :: r => do
    let c ← c.toNat?
    let (fs, r') ← parseFields c r
    pure (.msg fs, r')
  | "un" :: d :: r => do
    let d ← d.toNat?
    let (v, r') ← parseVal r
    pure (.union d v, r')
  | _ => none
partial def parseVals : Nat → List String → Option (List Val × List String)
  | 0, r => some ([], r)
  | n+1, r => do
    let (v, r1) ← parseVal r
    let (vs, r2) ← parseVals n r1
    pure (v :: vs, r2)
partial def parseKVs : Nat → List String → Option (List (Val × Val) × List String)
  | 0, r => some ([], r)
  | n+1, r => do
    let (k, r1) ← parseVal r
    let (v, r2) ← parseVal r1
    let (kvs, r3) ← parseKVs n r2
    pure ((k, v) :: kvs, r3)
partial def parseFields : Nat → List String → Option (List (Nat × Val) × List String)
  | 0, r => some ([], r)
  | n+1, r =>
    match r with
    | i :: r0 => do
      let i ← i.toNat?
      let (v, r1) ← parseVal r0
      let (fs, r2) ← parseFields n r1
      pure ((i, v) :: fs, r2)
    | [] => none
end

mutual
partial def showVal : Val → String
  | .scalar w n => s!"n {w} {n}"
  | .str bs => s!"str {toHex bs}"
  | .guid bs => s!"guid {toHex bs}"
  | .arr vs => s!"arr {vs.length}{showVals vs}"
  | .struct vs => s!"st {vs.length}{showVals vs}"
  | .map kvs => s!"map {kvs.length}" ++ String.join (kvs.map (fun (k, v) => " " ++ showVal k ++ " " ++ showVal v))
  | .msg fs => s!"msg {fs.length}" ++ String.join (fs.map (fun (i, v) => s!" {i} " ++ showVal v))
  | .union d v => s!"un {d} " ++ showVal v
partial def showVals (vs : List Val) : String := String.join (vs.map (fun v => " " ++ showVal v))
end

partial def parseTys : Nat → List String → Option (List Ty × List String)
  | 0, r => some ([], r)
  | n+1, r => do
    let (t, r1) ← parseTy r
    let (ts, r2) ← parseTys n r1
    pure (t :: ts, r2)

partial def parseMsgFields : Nat → List String → Option (List MsgField × List String)
  | 0, r => some ([], r)
  | n+1, i :: d :: r => do
    let i ← i.toNat?
    let (t, r1) ← parseTy r
    let (fs, r2) ← parseMsgFields n r1
    pure ({ idx := i, ty := t, deprecated := d == "1" } :: fs, r2)
  | _, _ => none

partial def parseBranches : Nat → List String → Option (List (Nat × Nat) × List String)
  | 0, r => some ([], r)
  | n+1, d :: m :: r => do
    let d ← d.toNat?
    let m ← m.toNat?
    let (bs, r1) ← parseBranches n r
    pure ((d, m) :: bs, r1)
  | _, _ => none

def parseDef : List String → Option Def
  | "struct" :: n :: r => do
    let n ← n.toNat?
    let (ts, r') ← parseTys n r
    if r'.isEmpty then pure (.struct ts) else none
  | "msg" :: n :: r => do
    let n ← n.toNat?
    let (fs, r') ← parseMsgFields n r
    if r'.isEmpty then pure (.msg fs) else none
  | "union" :: n :: r => do
    let n ← n.toNat?
    let (bs, r') ← parseBranches n r
    if r'.isEmpty then pure (.union bs) else none
  | _ => none

structure St where
  env : Array Def := #[]

def fuelFor (env : Env) (n : Nat) : Nat := 2 * n + 4 * env.length + 64

def setDef (st : St) (i : Nat) (d : Def) : St :=
  let env := if i < st.env.size then st.env else st.env ++ Array.replicate (i + 1 - st.env.size) (Def.struct [])
  { st with env := env.set! i d }

def step (st : St) (line : String) : St × String :=
  let toks := (line.splitOn " ").filter (· ≠ "")
  let env := st.env.toList
  match toks with
  | ["env", _] => ({ st with env := #[] }, "ok")
  | "def" :: i :: rest =>
    match i.toNat?, parseDef rest with
    | some i, some d => (setDef st i d, "ok")
    | _, _ => (st, "bad-op def")
  | "gotype" :: _ => (st, "ok")
  | "enc" :: rest =>
    match parseVal rest with
    | some (v, []) => (st, s!"ok {toHex (enc v)} {vsize v}")
    | _ => (st, "bad-op enc")
  | "marshalto" :: h :: rest =>
    match fromHex h, parseVal rest with
    | some buf, some (v, []) =>
      match marshalTo v buf with
      | some (buf', n) => (st, s!"ok {toHex buf'} {n}")
      | none => (st, "panic")
    | _, _ => (st, "bad-op marshalto")
  | ["dec", safe, i, h] =>
    match i.toNat?, fromHex h with
    | some i, some buf =>
      match unmarshal (fuelFor env buf.length) env (safe == "1") i buf with
      | .ok v => (st, "ok " ++ showVal v)
      | .err => (st, "err")
      | .panic => (st, "panic")
      | .fuel => (st, "fuel")
    | _, _ => (st, "bad-op dec")
  | ["decs", i, h] =>
    match i.toNat?, fromHex h with
    | some i, some buf =>
      match decodeStream (fuelFor env buf.length) env i buf with
      | .ok v c => (st, s!"ok {showVal v} {c}")
      | .err c => (st, s!"err {c}")
      | .fuel => (st, "fuel")
    | _, _ => (st, "bad-op decs")
  | ["decsfail", i, k, h] =>
    match i.toNat?, k.toNat?, fromHex h with
    | some i, some k, some buf =>
      match decodeStream (fuelFor env buf.length) env i (buf.take k) with
      | .ok v c => (st, s!"ok {showVal v} {c}")
      | .err c => (st, s!"err {c}")
      | .fuel => (st, "fuel")
    | _, _, _ => (st, "bad-op decsfail")
  | "tok" :: _ | "parse" :: _ | "fmt" :: _ | "validate" :: _ | "cycle" :: _ | "imports" :: _ | "gen" :: _ | "geninvalid" :: _ | "cli" :: _ =>
    (st, Driver.Text.step toks)
  | _ => (st, "bad-op unknown")

partial def loop (h : IO.FS.Stream) (out : IO.FS.Stream) (st : St) : IO Unit := do
  let line ← h.getLine
  if line.isEmpty then return ()
  let (st', resp) := step st (line.trimAsciiEnd.toString)
  out.putStrLn resp
  out.flush
  loop h out st'

end Driver

def main : IO Unit := do
  Driver.loop (← IO.getStdin) (← IO.getStdout) {}
