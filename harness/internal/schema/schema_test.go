package schema

import (
	"bytes"
	"math/rand"
	"strings"
	"testing"

	"github.com/200sc/bebop"
)

func accept(t *testing.T, f File, what string) {
	t.Helper()
	txt := Render(f)
	bf, _, err := bebop.ReadFile(strings.NewReader(txt))
	if err != nil {
		t.Fatalf("%s: ReadFile: %v\n%s", what, err, txt)
	}
	for _, private := range []bool{false, true} {
		var out bytes.Buffer
		err = bf.Generate(&out, bebop.GenerateSettings{PackageName: "main", PrivateDefinitions: private, GenerateUnsafeMethods: true})
		if err != nil {
			t.Fatalf("%s: Generate: %v\n%s", what, err, txt)
		}
	}
	env := Compile(f)
	if len(env.Defs) != len(bf.Structs)+len(bf.Messages)+len(bf.Unions)+countBranches(bf) {
		t.Fatalf("%s: def count mismatch", what)
	}
	_ = env.Lines()
}

func countBranches(bf bebop.File) int {
	n := 0
	for _, u := range bf.Unions {
		n += len(u.Fields)
	}
	return n
}

func TestRealCompilerAccepts(t *testing.T) {
	for seed := int64(0); seed < 200; seed++ {
		rng := rand.New(rand.NewSource(seed))
		f := Random(rng, Config{})
		accept(t, f, "random")
		v2, _ := Evolve(rng, f, EvolveConfig{})
		accept(t, v2, "evolved")
	}
	for _, f := range Grid(GridOptions{FloatKeyContainers: true}) {
		accept(t, f, "grid")
	}
	accept(t, EvolveBase(), "evolvebase")
	v2, info := Evolve(rand.New(rand.NewSource(1)), EvolveBase(), EvolveConfig{Prob: 1})
	accept(t, v2, "evolvebase2")
	if len(info.Added["Ev"]) == 0 || len(info.Added["EvB"]) == 0 || len(info.Added["Ev0"]) == 0 {
		t.Fatalf("evolve did not add fields: %+v", info)
	}
}
