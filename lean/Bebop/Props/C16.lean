/-
  C16  Formatting a schema never changes what it means.

  Full statement: `C16_statement` (a definition, not proved in this generality; decided on every accepted input
  of all streams by the correspondence engine, with the formatter model tied byte for byte to the real Format).
  Proved:
  * `C16_format_terminates`: on EVERY input (accepted or not) the formatter returns; none of its loops or
    recursions runs out of the fuel `format` supplies, and the result does not depend on the fuel. This was
    FALSE at the pinned commit (truncated inputs: fatal stack overflow / endless loop; repaired, fix fc00d35).
  * the meaning-preservation and layout-normalisation theorems for the sub-language proved in
    Bebop/Props/Canon.lean (`C16_*_partial`), re-exported below when that development is present.
-/
import Bebop.Proofs.Format
import Bebop.Text.Parser
import Bebop.Props.Canon

namespace Bebop.Text

/-- The property at full strength (a definition, not a theorem). `sameMeaning` is equality of Files up to
    comment attachment; here stated with plain equality of everything but comments left abstract. -/
def C16_statement (sameMeaning : File → File → Prop) : Prop :=
  ∀ (inp : List Byte) (f : File), readFile inp false = .ok f →
    ∃ out f', format inp = some out ∧ readFile out false = .ok f' ∧ sameMeaning f f'

/-- Format terminates without running away, for every input. -/
theorem C16_format_terminates (inp : List Byte) : (format inp).isSome = true := format_total inp

/-- … and the fuel it is given is irrelevant: any larger fuel yields the same output. -/
theorem C16_format_fuel_irrelevant (inp : List Byte) :
    ∃ out, ∀ F, 2 * inp.length + 4 ≤ F → formatLoop F F (mkTR inp) [] false false = some out :=
  format_fuel_stable inp

/-- For every schema of the sub-language of Bebop/Props/Canon.lean (see Props/C11.lean for what it covers) and
    EVERY layout of its text: Format succeeds, its output is accepted and denotes the same File as the input
    (here even with the doc comments in place), and the output is the canonical text. -/
theorem C16_format_preserves_meaning_partial (f : CFile) (hf : CFileOk f) (w : Nat → List Byte)
    (hw : LayoutOk w (fileLex false f)) :
    ∃ out, format (laidOutF w f) = some out ∧ readFile out false = readFile (laidOutF w f) false ∧
      readFile out false = .ok (denote f) ∧ out = canonTextF f := by
  obtain ⟨out, h1, h2, h3, _, _⟩ := C16_C17_schema_layout_partial f hf w hw
  refine ⟨out, h1, h2, h3, ?_⟩
  have := C16_schema_layout_partial f hf w hw
  rw [h1] at this
  exact Option.some.inj this

end Bebop.Text
