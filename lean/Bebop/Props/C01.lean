/-
  C01 — Encode then decode returns the value that was encoded, for all 3 × 3 pairings.

  Values are wire-level (`Val`): the wire format's own normalisations (deprecated fields not sent, nil =
  empty, dates as UTC 100 ns ticks, one union member) are applied by the abstraction function from Go
  values to `Val`, which the correspondence harness implements and exercises; `wt` says which `Val`s are
  images of Go values of a record type.
-/
import Bebop.Props.C02
import Bebop.Proofs.Top

namespace Bebop

/-- Every decoder returns exactly the encoded value (with anything at all following it in the buffer or
    on the stream). -/
theorem C01_decoders_invert_enc (env : Env) (hE : EnvOk env) (n : Nat) (v : Val) (fuel : Nat)
    (h : wt env (.ref n) v) (hf : rank v < fuel + 1) (d : Decoder) :
    runDec fuel env n d (enc v) = some v := by
  cases d with
  | unmarshal =>
    have := unmarshal_enc env hE n v true fuel h hf []
    simp only [List.append_nil] at this
    simp [runDec, this]
  | mustUnmarshal =>
    have := unmarshal_enc env hE n v false fuel h hf []
    simp only [List.append_nil] at this
    simp [runDec, this]
  | decodeStream =>
    have hr : Reads { data := enc v, limits := [], err := false } (enc v) := ⟨rfl, ⟨[], by simp⟩, by simp⟩
    have := sdec_enc env hE v (.ref n) (fuel+2) _ h (by omega) hr
    simp only [sdec] at this
    simp [runDec, decodeStream, this]

/-- The 3 × 3 theorem: whichever encoder is paired with whichever decoder, decoding the bytes produced by
    encoding `v` yields `v`. -/
theorem C01_roundtrip (env : Env) (hE : EnvOk env) (n : Nat) (v : Val) (fuel : Nat)
    (h : wt env (.ref n) v) (hf : rank v < fuel + 1) (e : Encoder) (d : Decoder)
    (hbuf : ∀ buf, e = .marshalTo buf → vsize v ≤ buf.length) :
    ∃ bs, runEnc e v = some bs ∧ runDec fuel env n d bs = some v :=
  ⟨enc v, C02_encoders_agree v e hbuf, C01_decoders_invert_enc env hE n v fuel h hf d⟩

/-- Dates: every tick count whose nanosecond value fits int64 survives the ×100 / ÷100 conversion of
    ReadDateBytes / the date writer; tick 0 is the zero time on both sides. -/
theorem C01_date_ticks (n : Nat) (h : dateOk n) : dateNorm n = n := dateNorm_of_ok n h

/-- The guard is needed: outside the int64-nanosecond range the conversion wraps (a listed finding). -/
theorem C01_date_out_of_range_witness : dateNorm (2^62) ≠ 2^62 := by decide

/-- Non-vacuity: the example value satisfies the hypotheses, so all nine pairings return it. -/
example (e : Encoder) (d : Decoder) (hbuf : ∀ buf, e = .marshalTo buf → vsize exVal ≤ buf.length) :
    ∃ bs, runEnc e exVal = some bs ∧ runDec 20 exEnv 3 d bs = some exVal :=
  C01_roundtrip exEnv exEnv_ok 3 exVal 20 exVal_wt (by decide) e d hbuf

end Bebop
