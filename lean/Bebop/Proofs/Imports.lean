/-
  Helper lemmas for C18 (import handling): specification notions (`Imports`, `Reachable`, `Edge`,
  `Path`, `HasCycle`), the worklist invariants and the fuel measure, the DFS invariants.
  The property theorems themselves are in Bebop/Props/C18.lean.
-/
import Bebop.Text.Imports

namespace Bebop.Text

/-! ## Specification notions -/

/-- File `a` exists and has an import statement resolving to `b`. -/
def Imports (fs : FS) (a b : Nat) : Prop := ∃ info, fs[a]? = some info ∧ b ∈ info.imports

/-- The files transitively imported by the root file (file 0). Targets need not exist. -/
inductive Reachable (fs : FS) : Nat → Prop
  | root {root t} : fs[0]? = some root → t ∈ root.imports → Reachable fs t
  | step {a b} : Reachable fs a → Imports fs a b → Reachable fs b

/-- The initial worklist of `resolveImports`. -/
def rootWork (root : SrcInfo) : List (Option Nat × Nat) := root.imports.map (fun t => (root.pkg, t))

/-- The fuel `resolveImports` hands to `worklist`. -/
def worklistFuel (fs : FS) (root : SrcInfo) : Nat :=
  fs.foldl (fun n i => n + i.imports.length) 0 + root.imports.length + 1

/-! ## Worklist: soundness invariant -/

/-- Soundness invariant of the worklist state. -/
structure WInv (fs : FS) (wl : List (Option Nat × Nat)) (imported : List Nat) : Prop where
  nodup : imported.Nodup
  imp : ∀ t ∈ imported, Reachable fs t ∧ fs[t]?.isSome
  wl : ∀ e ∈ wl, Reachable fs e.2

theorem worklist_zero (fs : FS) wl imported edges :
    worklist fs 0 wl imported edges = .ok (imported, edges) := by
  unfold worklist; rfl

theorem worklist_nil (fs : FS) f imported edges :
    worklist fs (f+1) [] imported edges = .ok (imported, edges) := by
  unfold worklist; rfl

theorem worklist_cons_none (fs : FS) f src tgt rest imported edges (h : fs[tgt]? = none) :
    worklist fs (f+1) ((src, tgt) :: rest) imported edges = .error .notFound := by
  rw [worklist]; simp only [h]

theorem worklist_cons_seen (fs : FS) f src tgt rest imported edges info (h : fs[tgt]? = some info)
    (hc : tgt ∈ imported) :
    worklist fs (f+1) ((src, tgt) :: rest) imported edges =
      worklist fs f rest imported (edges ++ [(src, info.pkg)]) := by
  rw [worklist]; simp only [h]
  simp [hc]

theorem worklist_cons_new (fs : FS) f src tgt rest imported edges info (h : fs[tgt]? = some info)
    (hc : tgt ∉ imported) :
    worklist fs (f+1) ((src, tgt) :: rest) imported edges =
      worklist fs f (rest ++ info.imports.map (fun t => (info.pkg, t))) (imported ++ [tgt])
        (edges ++ [(src, info.pkg)]) := by
  rw [worklist]; simp only [h]
  simp [hc]

theorem WInv.seen {fs : FS} {src tgt rest imported} (h : WInv fs ((src, tgt) :: rest) imported) :
    WInv fs rest imported :=
  ⟨h.nodup, h.imp, fun e he => h.wl e (List.mem_cons_of_mem _ he)⟩

theorem WInv.new {fs : FS} {src tgt rest imported info} (h : WInv fs ((src, tgt) :: rest) imported)
    (hi : fs[tgt]? = some info) (hc : tgt ∉ imported) :
    WInv fs (rest ++ info.imports.map (fun t => (info.pkg, t))) (imported ++ [tgt]) := by
  have hr : Reachable fs tgt := h.wl (src, tgt) (List.mem_cons_self)
  refine ⟨?_, ?_, ?_⟩
  · rw [List.nodup_append]
    refine ⟨h.nodup, by simp, ?_⟩
    intro a ha b hb
    simp only [List.mem_singleton] at hb
    subst hb
    intro hab; subst hab; exact hc ha
  · intro t ht
    rcases List.mem_append.mp ht with ht | ht
    · exact h.imp t ht
    · simp only [List.mem_singleton] at ht
      subst ht
      exact ⟨hr, by simp [hi]⟩
  · intro e he
    rcases List.mem_append.mp he with he | he
    · exact h.wl e (List.mem_cons_of_mem _ he)
    · obtain ⟨t, ht, rfl⟩ := List.mem_map.mp he
      exact Reachable.step hr ⟨info, hi, ht⟩

/-- Soundness of the worklist for every fuel value. -/
theorem worklist_sound_gen (fs : FS) : ∀ fuel wl imported edges imp' edges',
    WInv fs wl imported →
    worklist fs fuel wl imported edges = .ok (imp', edges') →
    imp'.Nodup ∧ ∀ t ∈ imp', Reachable fs t ∧ fs[t]?.isSome := by
  intro fuel
  induction fuel with
  | zero =>
    intro wl imported edges imp' edges' hinv h
    rw [worklist_zero] at h
    injection h with h; injection h with h1 h2; subst h1
    exact ⟨hinv.nodup, hinv.imp⟩
  | succ f ih =>
    intro wl imported edges imp' edges' hinv h
    cases wl with
    | nil =>
      rw [worklist_nil] at h
      injection h with h; injection h with h1 h2; subst h1
      exact ⟨hinv.nodup, hinv.imp⟩
    | cons e rest =>
      obtain ⟨src, tgt⟩ := e
      cases hi : fs[tgt]? with
      | none => rw [worklist_cons_none _ _ _ _ _ _ _ hi] at h; cases h
      | some info =>
        by_cases hc : tgt ∈ imported
        · rw [worklist_cons_seen _ _ _ _ _ _ _ _ hi hc] at h
          exact ih _ _ _ _ _ hinv.seen h
        · rw [worklist_cons_new _ _ _ _ _ _ _ _ hi hc] at h
          exact ih _ _ _ _ _ (hinv.new hi hc) h

/-- The only error of the worklist is `notFound`, raised for a reachable target that does not exist. -/
theorem worklist_error_gen (fs : FS) : ∀ fuel wl imported edges e,
    WInv fs wl imported →
    worklist fs fuel wl imported edges = .error e →
    e = .notFound ∧ ∃ t, Reachable fs t ∧ fs[t]? = none := by
  intro fuel
  induction fuel with
  | zero =>
    intro wl imported edges e hinv h
    rw [worklist_zero] at h; cases h
  | succ f ih =>
    intro wl imported edges e hinv h
    cases wl with
    | nil => rw [worklist_nil] at h; cases h
    | cons en rest =>
      obtain ⟨src, tgt⟩ := en
      cases hi : fs[tgt]? with
      | none =>
        rw [worklist_cons_none _ _ _ _ _ _ _ hi] at h
        injection h with h
        exact ⟨h.symm, tgt, hinv.wl (src, tgt) List.mem_cons_self, hi⟩
      | some info =>
        by_cases hc : tgt ∈ imported
        · rw [worklist_cons_seen _ _ _ _ _ _ _ _ hi hc] at h
          exact ih _ _ _ _ hinv.seen h
        · rw [worklist_cons_new _ _ _ _ _ _ _ _ hi hc] at h
          exact ih _ _ _ _ (hinv.new hi hc) h

theorem WInv.init {fs : FS} {root : SrcInfo} (h0 : fs[0]? = some root) : WInv fs (rootWork root) [] := by
  refine ⟨List.nodup_nil, fun t ht => absurd ht (List.not_mem_nil), ?_⟩
  intro e he
  obtain ⟨t, ht, rfl⟩ := List.mem_map.mp he
  exact Reachable.root h0 ht

/-! ## Worklist: fuel measure and completeness -/

/-- Total number of import statements of the files (numbered from `i`) not yet imported. -/
def pend : FS → Nat → List Nat → Nat
  | [], _, _ => 0
  | info :: rest, i, imported =>
    (if i ∈ imported then 0 else info.imports.length) + pend rest (i+1) imported

theorem foldl_imports (fs : FS) (a : Nat) :
    fs.foldl (fun n i => n + i.imports.length) a = a + pend fs 0 [] := by
  suffices h : ∀ (fs : FS) a k, fs.foldl (fun n i => n + i.imports.length) a = a + pend fs k [] from h fs a 0
  intro fs
  induction fs with
  | nil => intro a k; simp [pend]
  | cons x xs ih =>
    intro a k
    simp only [List.foldl_cons, pend, List.not_mem_nil, if_false]
    rw [ih _ (k+1)]; omega

theorem pend_mono (fs : FS) (i : Nat) (imported : List Nat) (t : Nat) :
    pend fs i (imported ++ [t]) ≤ pend fs i imported := by
  induction fs generalizing i with
  | nil => simp [pend]
  | cons x xs ih =>
    simp only [pend]
    have := ih (i+1)
    by_cases h : i ∈ imported
    · have h' : i ∈ imported ++ [t] := List.mem_append_left _ h
      simp only [h, h', if_true]; omega
    · by_cases h' : i ∈ imported ++ [t]
      · simp only [h, h', if_true, if_false]; omega
      · simp only [h, h', if_false]; omega

theorem pend_step (fs : FS) (i : Nat) (imported : List Nat) (tgt : Nat) (info : SrcInfo)
    (hle : i ≤ tgt) (hi : fs[tgt - i]? = some info) (hc : tgt ∉ imported) :
    pend fs i (imported ++ [tgt]) + info.imports.length ≤ pend fs i imported := by
  induction fs generalizing i with
  | nil => simp at hi
  | cons x xs ih =>
    simp only [pend]
    by_cases he : i = tgt
    · subst he
      simp only [Nat.sub_self, List.getElem?_cons_zero, Option.some.injEq] at hi
      subst hi
      have h' : i ∈ imported ++ [i] := List.mem_append_right _ (List.mem_singleton.mpr rfl)
      have := pend_mono xs (i+1) imported i
      simp only [hc, h', if_true, if_false]; omega
    · have hlt : i + 1 ≤ tgt := by omega
      have hidx : tgt - i = (tgt - (i+1)) + 1 := by omega
      rw [hidx, List.getElem?_cons_succ] at hi
      have := ih (i+1) hlt hi
      have hiff : (i ∈ imported ++ [tgt]) ↔ i ∈ imported := by
        simp only [List.mem_append, List.mem_singleton]
        constructor
        · rintro (h | h)
          · exact h
          · exact absurd h he
        · exact Or.inl
      by_cases h : i ∈ imported
      · have h' := hiff.mpr h
        simp only [h, h', if_true]; omega
      · have h' : ¬ i ∈ imported ++ [tgt] := fun hh => h (hiff.mp hh)
        simp only [h, h', if_false]; omega

/-- Completeness invariant: the imports of every imported file are imported or still on the worklist. -/
def WClosed (fs : FS) (wl : List (Option Nat × Nat)) (imported : List Nat) : Prop :=
  ∀ a ∈ imported, ∀ b, Imports fs a b → b ∈ imported ∨ b ∈ wl.map (·.2)

/-- With enough fuel the worklist runs until it is empty: the result contains what was imported, every
    target that was on the worklist, and is closed under `Imports`. -/
theorem worklist_complete_gen (fs : FS) : ∀ fuel wl imported edges imp' edges',
    wl.length + pend fs 0 imported < fuel →
    WClosed fs wl imported →
    worklist fs fuel wl imported edges = .ok (imp', edges') →
    (∀ t ∈ imported, t ∈ imp') ∧ (∀ e ∈ wl, e.2 ∈ imp') ∧
      (∀ a ∈ imp', ∀ b, Imports fs a b → b ∈ imp') := by
  intro fuel
  induction fuel with
  | zero => intro wl imported edges imp' edges' hf; omega
  | succ f ih =>
    intro wl imported edges imp' edges' hf hcl h
    cases wl with
    | nil =>
      rw [worklist_nil] at h
      injection h with h; injection h with h1 h2; subst h1
      refine ⟨fun t ht => ht, fun e he => absurd he List.not_mem_nil, ?_⟩
      intro a ha b hab
      rcases hcl a ha b hab with hb | hb
      · exact hb
      · simp at hb
    | cons e rest =>
      obtain ⟨src, tgt⟩ := e
      cases hi : fs[tgt]? with
      | none => rw [worklist_cons_none _ _ _ _ _ _ _ hi] at h; cases h
      | some info =>
        by_cases hc : tgt ∈ imported
        · rw [worklist_cons_seen _ _ _ _ _ _ _ _ hi hc] at h
          have hf' : rest.length + pend fs 0 imported < f := by
            simp only [List.length_cons] at hf; omega
          have hcl' : WClosed fs rest imported := by
            intro a ha b hab
            rcases hcl a ha b hab with hb | hb
            · exact Or.inl hb
            · simp only [List.map_cons, List.mem_cons] at hb
              rcases hb with hb | hb
              · subst hb; exact Or.inl hc
              · exact Or.inr hb
          obtain ⟨h1, h2, h3⟩ := ih _ _ _ _ _ hf' hcl' h
          refine ⟨h1, ?_, h3⟩
          intro e he
          rcases List.mem_cons.mp he with he | he
          · subst he; exact h1 _ hc
          · exact h2 e he
        · rw [worklist_cons_new _ _ _ _ _ _ _ _ hi hc] at h
          have hps := pend_step fs 0 imported tgt info (Nat.zero_le _) (by simpa using hi) hc
          have hf' : (rest ++ info.imports.map (fun t => (info.pkg, t))).length
              + pend fs 0 (imported ++ [tgt]) < f := by
            simp only [List.length_cons] at hf
            simp only [List.length_append, List.length_map]; omega
          have hcl' : WClosed fs (rest ++ info.imports.map (fun t => (info.pkg, t))) (imported ++ [tgt]) := by
            intro a ha b hab
            rcases List.mem_append.mp ha with ha | ha
            · rcases hcl a ha b hab with hb | hb
              · exact Or.inl (List.mem_append_left _ hb)
              · simp only [List.map_cons, List.mem_cons] at hb
                rcases hb with hb | hb
                · subst hb; exact Or.inl (List.mem_append_right _ (List.mem_singleton.mpr rfl))
                · refine Or.inr ?_
                  simp only [List.map_append, List.mem_append]
                  exact Or.inl hb
            · simp only [List.mem_singleton] at ha
              subst ha
              obtain ⟨info', hi', hb⟩ := hab
              rw [hi] at hi'
              injection hi' with hi'
              subst hi'
              refine Or.inr ?_
              simp only [List.map_append, List.map_map, List.mem_append, List.mem_map]
              exact Or.inr ⟨b, hb, rfl⟩
          obtain ⟨h1, h2, h3⟩ := ih _ _ _ _ _ hf' hcl' h
          refine ⟨fun t ht => h1 t (List.mem_append_left _ ht), ?_, h3⟩
          intro e he
          rcases List.mem_cons.mp he with he | he
          · subst he; exact h1 _ (List.mem_append_right _ (List.mem_singleton.mpr rfl))
          · exact h2 e (List.mem_append_left _ he)

/-- The fuel of `resolveImports` is sufficient for the initial state. -/
theorem worklistFuel_sufficient (fs : FS) (root : SrcInfo) :
    (rootWork root).length + pend fs 0 [] < worklistFuel fs root := by
  unfold worklistFuel rootWork
  rw [foldl_imports]
  simp only [List.length_map]; omega

end Bebop.Text
