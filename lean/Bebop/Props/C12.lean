/-
  C12  Whatever the compiler accepts, it turns into Go code that compiles.

  "Compiles" is a fact about the Go type checker applied to text produced by string templates; no model of
  Go's type system is attempted. What is proved is the mechanism the property names: Validate is the gate,
  and the template tables contain an entry for every type name Validate lets through.
  * C12_template_tables_total: each of the five template tables of gen_templates.go (REGENERATED key structure)
    has an entry for every primitive type name and ranges over every collection of user definitions.
  * C12_every_field_type_has_a_template: for every File the validator model accepts, every type name used in
    a struct or message field (at any depth of arrays and maps) is a primitive or a definition of the file,
    i.e. a key of every table.
  The rest (no unused variable, no missing import, every record type implements bebop.Record, for every option
  set) is decided by the gencheck engine with go/types on generated schemas; see DESIGN.md.
-/
import Bebop.Props.C13
import Bebop.Generated.TemplateFacts

namespace Bebop.Text

def requiredSources : List String :=
  ["Enums", "Structs", "Messages", "Unions", "UnionName", "UnionStructBranch", "UnionMessageBranch"]

/-- The five tables exist, each has an entry for every primitive type name of primitive.go, and each ranges
    over enums, structs, messages, unions and the records declared inside union branches. -/
theorem C12_template_tables_total :
    TemplateFacts.tables.map (·.1) =
      ["typeUnmarshallers", "typeMarshallers", "typeLengthers", "typeByters", "typeByteReaders"] ∧
    TemplateFacts.tables.all (fun t =>
      Facts.primitiveTypeNames.all (fun p => t.2.1.contains p) && requiredSources.all (fun s => t.2.2.contains s)) = true := by
  constructor <;> decide

/-- The keys such a table has for the file `f` (imported definitions are appended to the file before). -/
def tableKeys (f : File) : List Str := defNames f ++ Facts.primitiveTypeNames.map strOf

theorem typeDefined_used (all : List Str) : ∀ (ft : FT), typeDefined all ft = true → ∀ n ∈ usedTypesFT ft, n ∈ all
  | .simple m, h, n, hn => by
    simp only [usedTypesFT, List.mem_singleton] at hn
    subst hn
    simpa [typeDefined] using h
  | .arr e, h, n, hn => typeDefined_used all e (by simpa [typeDefined] using h) n (by simpa [usedTypesFT] using hn)
  | .map k v, h, n, hn => by
    simp only [typeDefined, Bool.and_eq_true] at h
    simp only [usedTypesFT, List.mem_cons] at hn
    rcases hn with rfl | hn
    · simpa using h.1
    · exact typeDefined_used all v h.2 n hn

/-- Validate is the gate: in an accepted file every type name occurring in a struct or message field has an
    entry in every template table. -/
theorem C12_every_field_type_has_a_template (f : File) (h : validate f = .ok) :
    (∀ s ∈ f.structs, ∀ fd ∈ s.fields, ∀ n ∈ usedTypesFT fd.ft, n ∈ tableKeys f) ∧
    (∀ m ∈ f.messages, ∀ p ∈ m.fields, ∀ n ∈ usedTypesFT p.2.ft, n ∈ tableKeys f) := by
  have hs := C13_no_undefined_struct_field_type f h
  have hm := C13_no_undefined_message_field_type f h
  simp only [hasSemErr] at hs hm
  constructor
  · intro s hs' fd hfd n hn
    apply typeDefined_used _ fd.ft _ n hn
    rw [Bool.eq_false_iff] at hs
    by_cases hd : typeDefined (tableKeys f) fd.ft = true
    · exact hd
    · exfalso; apply hs
      simp only [List.any_eq_true]
      exact ⟨s, hs', fd, hfd, by simpa [tableKeys] using hd⟩
  · intro m hm' p hp n hn
    apply typeDefined_used _ p.2.ft _ n hn
    rw [Bool.eq_false_iff] at hm
    by_cases hd : typeDefined (tableKeys f) p.2.ft = true
    · exact hd
    · exfalso; apply hm
      simp only [List.any_eq_true]
      exact ⟨m, hm', p, hp, by simpa [tableKeys] using hd⟩

end Bebop.Text
